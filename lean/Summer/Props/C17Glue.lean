import Summer.Props.C17Source
import Summer.Proofs.IllFormed
/-
C04 / C15 / C17 — the PUBLIC model-building methods of `CompartmentalModel` are what the SOURCE TEXT of `summer2/model.py` says.

`Summer/Generated/Glue.lean` (regenerated from `/repo` on every run, `harness/translate/gen_rates.py`, `GLUE_PUBLIC`) carries statement-aligned
renderings of `_validate_flowparam`, `add_crude_birth_flow`, `add_replacement_birth_flow`, `add_importation_flow`, `add_death_flow`,
`add_universal_death_flows`, `add_infection_frequency_flow`, `add_infection_density_flow`, `add_transition_flow`, `_strata_exist` and
`stratify_with` (each statement of the methods is compared with the expected text first).  The theorems below identify them with
`Build.addFlow` and `Build.stratifyWith`, the definitions every build-sequence theorem (C03, C04, C12, C15, C17) is about, up to the text of
the error message (`erase`): the same model comes back, and a call is refused on exactly the same inputs.

`stratify_with_eq` needs one hypothesis, that the names of the stratifications applied so far are distinct — `_strata_exist` walks all
stratifications of a given name, the hand model looks at the first; `stratify_with_eq_reachable` discharges it for every model produced by
the build API (`Reachable`), using `reachable_wellNamed`.
-/
set_option linter.unusedSectionVars false
set_option linter.unusedSimpArgs false
set_option linter.unusedVariables false
namespace Summer.Props.C17Glue
open Summer Summer.Build Summer.Generated Summer.Generated.Glue Summer.Props.C17Source

section
variable {α : Type} [Zero α] [One α] [Add α] [Sub α] [Mul α] [Div α] [NatCast α] [LT α] [DecidableLT α]

/-! ### `erase` and sequencing -/

theorem erase_ok {β : Type} (v : β) : erase (Except.ok v : Res β) = some v := rfl
theorem erase_error {β : Type} (e : Err) : erase (Except.error e : Res β) = none := rfl
theorem erase_pure {β : Type} (v : β) : erase (pure v : Res β) = some v := rfl
theorem erase_fail {β : Type} (msg : String) : erase (fail msg : Res β) = none := rfl

theorem erase_bind_congr {β γ : Type} {a b : Res β} {f g : β → Res γ} (h1 : erase a = erase b)
    (h2 : ∀ v, erase (f v) = erase (g v)) : erase (a >>= f) = erase (b >>= g) := by
  cases a with
  | error ea => cases b with
    | error eb => rfl
    | ok vb => simp [erase] at h1
  | ok va => cases b with
    | error eb => simp [erase] at h1
    | ok vb =>
      simp only [erase, Option.some.injEq] at h1
      subst h1
      exact h2 va

theorem erase_guardE (c : Bool) (m1 m2 : String) : erase (guardE c m1) = erase (guardE c m2) := by
  cases c <;> rfl

theorem erase_guard_bind {γ : Type} (c : Bool) (m1 m2 : String) {f g : Unit → Res γ} (h : c = true → erase (f ()) = erase (g ())) :
    erase (guardE c m1 >>= f) = erase (guardE c m2 >>= g) := by
  cases c with
  | false => rfl
  | true => exact h rfl

theorem erase_foldlM_congr {β γ : Type} {f g : γ → β → Res γ} (h : ∀ a x, erase (f a x) = erase (g a x)) :
    ∀ (l : List β) (init : γ), erase (l.foldlM f init) = erase (l.foldlM g init)
  | [], init => rfl
  | x :: xs, init => by
    simp only [List.foldlM_cons]
    exact erase_bind_congr (h init x) (fun v => erase_foldlM_congr h xs v)

theorem erase_forIn_congr {β : Type} {f g : β → Res Unit} (h : ∀ x, erase (f x) = erase (g x)) :
    ∀ (l : List β), erase (forIn l PUnit.unit (fun d (_ : PUnit) => do f d; pure (ForInStep.yield PUnit.unit)))
      = erase (forIn l PUnit.unit (fun d (_ : PUnit) => do g d; pure (ForInStep.yield PUnit.unit)))
  | [] => rfl
  | x :: xs => by
    simp only [List.forIn_cons, bind_assoc, pure_bind]
    exact erase_bind_congr (h x) (fun _ => erase_forIn_congr h xs)

/-- a `forM` of guards is the `forIn` loop of guards -/
theorem forM_eq_forIn {β : Type} (f : β → Res Unit) :
    ∀ (l : List β), l.forM f = forIn l PUnit.unit (fun d (_ : PUnit) => do f d; pure (ForInStep.yield PUnit.unit))
  | [] => rfl
  | x :: xs => by
    rw [List.forM_eq_forM, List.forM_cons, List.forIn_cons]
    simp only [bind_assoc, pure_bind]
    congr 1
    funext u
    rw [← List.forM_eq_forM]
    exact forM_eq_forIn f xs

/-! ### the flow-adding methods -/

/-- the public method a `FlowOp` stands for -/
def glueAddFlow (m : Model α) : FlowOp α → Res (Model α)
  | .crudeBirth name ok param dest ds ex => add_crude_birth_flow m name ok param dest (some ds) ex
  | .replBirth name dest ds ex => add_replacement_birth_flow m name dest (some ds) ex
  | .importF name ok param dest split ds ex => add_importation_flow m name ok param dest split (some ds) ex
  | .death name ok param source ss ex => add_death_flow m name ok param source (some ss) ex
  | .universalDeath name ok param => add_universal_death_flows m name ok param
  | .transition kind name ok param source dest ss ds ex =>
      match kind with
      | .transition => add_transition_flow m name ok param source dest (some ss) (some ds) ex false
      | .absolute => add_transition_flow m name ok param source dest (some ss) (some ds) ex true
      | .infFreq => add_infection_frequency_flow m name ok param source dest (some ss) (some ds) ex
      | .infDens => add_infection_density_flow m name ok param source dest (some ss) (some ds) ex
      | _ => do _validate_flowparam ok; fail "no public method adds a transition-type flow of this class"

theorem birth_scan_eq (m : Model α) :
    m.flows.any (fun f => f.kind == FlowKind.crudeBirth || f.kind == FlowKind.replBirth) = hasBirthFlow m := by
  unfold hasBirthFlow isBirth
  congr 1
  funext f
  cases f.kind <;> decide

theorem if_fail_eq_guard {γ : Type} (c : Bool) (msg1 msg2 : String) (k : Res γ) :
    erase (if c then fail msg1 else k) = erase (guardE (!c) msg2 >>= fun _ => k) := by
  cases c <;> rfl

/-- every public flow-adding method returns the model of `Build.addFlow` and refuses exactly the calls it refuses -/
theorem add_flow_eq (m : Model α) (op : FlowOp α) : erase (glueAddFlow m op) = erase (addFlow m op) := by
  cases op with
  | crudeBirth name ok param dest ds ex =>
    simp only [glueAddFlow, addFlow, add_crude_birth_flow, _validate_flowparam, birth_scan_eq, add_entry_flow_eq, Option.getD_some]
    refine erase_guard_bind _ _ _ (fun _ => ?_)
    exact if_fail_eq_guard _ _ _ _
  | replBirth name dest ds ex =>
    simp only [glueAddFlow, addFlow, add_replacement_birth_flow, birth_scan_eq, add_entry_flow_eq, Option.getD_some]
    exact if_fail_eq_guard _ _ _ _
  | importF name ok param dest split ds ex =>
    simp only [glueAddFlow, addFlow, add_importation_flow, _validate_flowparam, add_entry_flow_eq, Option.getD_some]
    refine erase_guard_bind _ _ _ (fun _ => ?_)
    cases split with
    | false => simp only [Bool.false_eq_true, if_false, pure_bind]
    | true =>
      simp only [if_true, bind_assoc, pure_bind]
      exact erase_guard_bind _ _ _ (fun _ => rfl)
  | death name ok param source ss ex =>
    simp only [glueAddFlow, addFlow, add_death_flow, _validate_flowparam, add_exit_flow_eq, Option.getD_some]
    exact erase_guard_bind _ _ _ (fun _ => rfl)
  | universalDeath name ok param =>
    simp only [glueAddFlow, addFlow, add_universal_death_flows, _validate_flowparam, add_exit_flow_eq, Option.getD_some]
    refine erase_guard_bind _ _ _ (fun _ => ?_)
    exact if_fail_eq_guard _ _ _ _
  | transition kind name ok param source dest ss ds ex =>
    cases kind <;>
      simp only [glueAddFlow, addFlow, add_transition_flow, add_infection_frequency_flow, add_infection_density_flow, _validate_flowparam,
        transitionKinds, Bool.false_eq_true, if_false, if_true] <;>
      refine erase_guard_bind _ _ _ (fun _ => ?_) <;>
      first
        | (refine Eq.trans (add_transition_flow_eq _ _ _ _ _ _ _ _ _) ?_
           simp only [Option.getD_some]
           rfl)
        | rfl

/-! ### `_strata_exist` and `stratify_with` -/

theorem find_none_of_not_contains (l : List (Strat α)) (k : String) (h : (l.map (fun s => s.name)).contains k = false) :
    l.find? (fun s => s.name == k) = none := by
  rw [List.find?_eq_none]
  intro s hs hk
  have : k ∈ l.map (fun s => s.name) := List.mem_map.mpr ⟨s, hs, by simpa using hk⟩
  have h2 : (l.map (fun s => s.name)).contains k = true := List.contains_iff_mem.mpr this
  rw [h] at h2
  exact Bool.noConfusion h2

/-- walking all stratifications called `k` and checking `v` against each: with distinct names, the check against the first one -/
theorem walk_eq_find (k v : String) : ∀ (l : List (Strat α)), (l.map (fun s => s.name)).Nodup →
    erase (l.forM (fun s => if k == s.name then (if !s.strata.contains v then fail "Invalid stratum" else pure ()) else (pure () : Res Unit)))
      = match l.find? (fun s => s.name == k) with
        | none => some ()
        | some s => if s.strata.contains v then some () else none
  | [], _ => rfl
  | s :: rest, hnd => by
    rw [List.forM_eq_forM, List.forM_cons, ← List.forM_eq_forM]
    have hnd' : (rest.map (fun s => s.name)).Nodup := by
      simp only [List.map_cons, List.nodup_cons] at hnd
      exact hnd.2
    by_cases hk : k = s.name
    · subst hk
      have hnot : (rest.map (fun t => t.name)).contains s.name = false := by
        simp only [List.map_cons, List.nodup_cons] at hnd
        cases hc : (rest.map (fun t => t.name)).contains s.name with
        | false => rfl
        | true => exact absurd (List.contains_iff_mem.mp hc) hnd.1
      have ih := walk_eq_find s.name v rest hnd'
      rw [find_none_of_not_contains rest s.name hnot] at ih
      simp only [beq_self_eq_true, if_true, List.find?_cons_of_pos]
      cases hv : s.strata.contains v with
      | false => rfl
      | true =>
        simp only [Bool.not_true, Bool.false_eq_true, if_false, pure_bind, if_true]
        exact ih
    · have hk1 : (k == s.name) = false := by simpa using hk
      have hk2 : (s.name == k) = false := by simpa using (fun h => hk h.symm)
      simp only [hk1, Bool.false_eq_true, if_false, pure_bind, List.find?_cons, hk2]
      exact walk_eq_find k v rest hnd'

theorem strata_exist_eq (m : Model α) (hnd : (m.strats.map (·.name)).Nodup) (strata : Strata) :
    erase (_strata_exist m strata) = erase (strataExist m strata) := by
  unfold _strata_exist strataExist
  simp only [forM_eq_forIn]
  refine erase_forIn_congr (fun kv => ?_) strata
  cases hc : (m.strats.map (fun s => s.name)).contains kv.1 with
  | false =>
    simp only [Bool.not_false, if_true]
    rw [find_none_of_not_contains m.strats kv.1 hc]
    rfl
  | true =>
    simp only [Bool.not_true, Bool.false_eq_true, if_false]
    have hw := walk_eq_find kv.1 kv.2 m.strats hnd
    rw [← forM_eq_forIn]
    rw [hw]
    cases hf : m.strats.find? (fun s => s.name == kv.1) with
    | none =>
      exfalso
      rw [List.find?_eq_none] at hf
      obtain ⟨s, hs, hn⟩ := List.mem_map.mp (List.contains_iff_mem.mp hc)
      exact hf s hs (by simpa using hn)
    | some s =>
      cases hv : s.strata.contains kv.2 <;> simp only [hv, guardE, Bool.false_eq_true, if_false, if_true] <;> rfl

theorem erase_forIn_congr' {β : Type} {F G : β → PUnit → Res (ForInStep PUnit)} (h : ∀ x u, erase (F x u) = erase (G x u)) :
    ∀ (l : List β) (u : PUnit), erase (forIn l u F) = erase (forIn l u G)
  | [], u => rfl
  | x :: xs, u => by
    simp only [List.forIn_cons]
    refine erase_bind_congr (h x u) (fun v => ?_)
    cases v with
    | done b => rfl
    | yield b => exact erase_forIn_congr' h xs b

theorem map_contains_eq_any {β : Type} (l : List β) (g : β → String) (x : String) :
    (l.map g).contains x = l.any (fun f => g f == x) := by
  induction l with
  | nil => rfl
  | cons a as ih =>
    simp only [List.map_cons, List.contains_cons, List.any_cons, ih]
    congr 1
    cases h1 : (x == g a) <;> cases h2 : (g a == x) <;> simp_all

theorem foldl_append_flatMap {β γ : Type} (l : List β) (F : β → List γ) (init : List γ) :
    l.foldl (fun acc a => acc ++ F a) init = init ++ l.flatMap F := by
  induction l generalizing init with
  | nil => simp
  | cons a as ih => simp [List.foldl_cons, ih, List.flatMap_cons, List.append_assoc]

theorem forM_guard_eq_all {β : Type} (P : β → Bool) (m1 m2 : String) :
    ∀ (l : List β), erase (l.forM (fun c => if !P c then (fail m1 : Res Unit) else pure ())) = erase (guardE (l.all P) m2)
  | [] => rfl
  | x :: xs => by
    rw [List.forM_eq_forM, List.forM_cons, ← List.forM_eq_forM]
    cases hp : P x with
    | false => simp only [Bool.not_false, if_true, List.all_cons, hp, Bool.false_and]; rfl
    | true =>
      simp only [Bool.not_true, Bool.false_eq_true, if_false, pure_bind, List.all_cons, hp, Bool.true_and]
      exact forM_guard_eq_all P m1 m2 xs

theorem forIn_guard_eq_all {β : Type} (P : β → Bool) (m1 m2 : String) (l : List β) :
    erase (forIn l PUnit.unit (fun d (_ : PUnit) => do (if !P d then (fail m1 : Res Unit) else pure ()); pure (ForInStep.yield PUnit.unit)))
      = erase (guardE (l.all P) m2) := by
  rw [← forM_eq_forIn]
  exact forM_guard_eq_all P m1 m2 l

theorem range_pairs (l : List Int) :
    (List.range (l.length - 1)).map (fun i => (l.getD i 0, l.getD (i + 1) 0)) = l.zip (l.drop 1) := by
  apply List.ext_getElem
  · simp only [List.length_map, List.length_range, List.length_zip, List.length_drop]
    omega
  · intro i h1 h2
    simp only [List.length_map, List.length_range] at h1
    simp only [List.getElem_map, List.getElem_range, List.getElem_zip, List.getElem_drop]
    have ha : i < l.length := by omega
    have hb : i + 1 < l.length := by omega
    simp only [List.getD_eq_getElem?_getD, List.getElem?_eq_getElem ha, List.getElem?_eq_getElem hb, Option.getD_some]
    congr 2
    omega

theorem foldlM_range_pairs {γ : Type} (l : List Int) (F : γ → Int → Int → Res γ) (init : γ) :
    (List.range (l.length - 1)).foldlM (fun acc i => F acc (l.getD i 0) (l.getD (i + 1) 0)) init
      = (l.zip (l.drop 1)).foldlM (fun acc ab => F acc ab.1 ab.2) init := by
  rw [← range_pairs, List.foldlM_map]

/-- `stratify_with`: the model of `Build.stratifyWith`, refused on exactly the same inputs -/
theorem stratify_with_eq (m : Model α) (hnd : (m.strats.map (·.name)).Nodup) (s : Strat α) :
    erase (stratify_with m s) = erase (stratifyWith m s) := by
  unfold stratify_with stratifyWith _assert_not_finalized
  refine erase_guard_bind _ _ _ (fun _ => ?_)
  refine erase_guard_bind _ _ _ (fun _ => ?_)
  simp only [forM_eq_forIn]
  refine erase_bind_congr (erase_forIn_congr' (fun d u => ?_) _ _) (fun _ => ?_)
  · rw [map_contains_eq_any]
    exact erase_guard_bind _ _ _ (fun _ => rfl)
  refine erase_bind_congr (erase_forIn_congr' (fun d u => ?_) _ _) (fun _ => ?_)
  · simp only [bind_assoc]
    refine erase_bind_congr (strata_exist_eq m hnd _) (fun _ => ?_)
    exact erase_bind_congr (strata_exist_eq m hnd _) (fun _ => rfl)
  refine erase_guard_bind _ _ _ (fun _ => ?_)
  refine erase_bind_congr ?_ (fun self1 => ?_)
  · cases s.mixing with
    | none => rfl
    | some mat =>
      simp only []
      refine erase_guard_bind _ _ _ (fun _ => ?_)
      refine erase_guard_bind _ _ _ (fun _ => ?_)
      simp only [foldl_append_singleton_map, foldl_append_flatMap, List.nil_append]
  refine erase_bind_congr ?_ (fun self2 => ?_)
  · cases s.isStrain with
    | false => rfl
    | true =>
      simp only [if_true]
      exact erase_guard_bind _ _ _ (fun _ => rfl)
  refine erase_bind_congr (forIn_guard_eq_all _ _ _ _) (fun _ => ?_)
  refine erase_bind_congr rfl (fun flows => ?_)
  refine erase_bind_congr ?_ (fun self4 => rfl)
  cases s.isAgeing with
  | false => rfl
  | true =>
    simp only [if_true]
    refine erase_guard_bind _ _ _ (fun _ => ?_)
    refine erase_guard_bind _ _ _ (fun _ => ?_)
    rw [foldlM_range_pairs (sortInts (s.strata.filterMap (fun x => x.toInt?)))
      (fun (self : Model α) start_age end_age => self2.comps.foldlM (fun (self : Model α) comp => do
            let source := comp.stratify s.name (toString start_age)
            let dest := comp.stratify s.name (toString end_age)
            guardE (end_age != start_age) "ZeroDivisionError"
            let ageing_rate : α := (1 : α) / (((end_age - start_age).toNat : Nat) : α)
            add_transition_flow self ("ageing_" ++ source.serialize ++ "_to_" ++ dest.serialize) true (.const ageing_rate) source.name dest.name
              (some source.strata) (some dest.strata) (some 1) false) self)]
    refine erase_foldlM_congr (fun acc ab => ?_) _ _
    refine erase_foldlM_congr (fun acc2 c => ?_) _ _
    refine erase_guard_bind _ _ _ (fun _ => ?_)
    simp only [add_transition_flow, _validate_flowparam, guardE, if_true, pure_bind, Bool.false_eq_true, if_false]
    refine Eq.trans (add_transition_flow_eq _ _ _ _ _ _ _ _ _) ?_
    rfl

/-- for every model the build API can produce -/
theorem stratify_with_eq_reachable {m : Model α} (hr : Spec.ReachableB m) (s : Strat α) :
    erase (stratify_with m s) = erase (stratifyWith m s) :=
  stratify_with_eq m (Proofs.IllFormed.reachable_wellNamed hr).stratNames s

end

#print axioms add_flow_eq
#print axioms stratify_with_eq
#print axioms stratify_with_eq_reachable
#print axioms strata_exist_eq

end Summer.Props.C17Glue
