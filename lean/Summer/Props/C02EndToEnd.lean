import Summer.Props.C02Open
import Summer.Props.C01Step
import Summer.Props.C07EndToEnd
/-
C02 end to end — a successful `model.run(parameters, solver="euler")`, read from the source text of `build_run_model.run_model`
(`C07Pipeline.run_model_eq`), changes the total population between consecutive output rows by exactly
`h · (Σ entry-flow rates − Σ exit-flow rates)` of the right-hand side evaluated at the earlier row — whether or not the model is closed.
Composes `C07EndToEnd.euler_run`, `C02.total_rate` and the linearity of the total.
`run_closed_population`: for a model without entry and exit flows every row returned by a successful run — Euler, RK4 or the adaptive
solver — has the total of the model's initial population (composes `C07Pipeline.run_model_outputs`, `C02.closed_rates` and the solver invariants).
-/
namespace Summer.Props.C02EndToEnd
open Summer Summer.Run Summer.Pipeline Summer.Solvers Summer.Spec.Solvers Summer.Proofs Summer.Proofs.Solvers Summer.Proofs.EndToEnd
  Summer.Generated.PipelineSrc Summer.Props.C07Pipeline

section
variable {α : Type} [Field α] [LinearOrder α] [IsStrictOrderedRing α]

/-- Wherever one evaluation of the right-hand side succeeds, its compartment rates add up to the entry
total minus the exit total of ITS flow rates. -/
theorem step_total (m : Model α) (b : Backend) (hp : prepare m = .ok b) (p : List (String × α)) (t : α) (x : List α)
    (s : StepOut α) (hstep : step m b p t x = some s) :
    sumL s.compRates = Spec.entryTotal m s.flowRates - Spec.exitTotal m s.flowRates := by
  obtain ⟨w, mix, ci, _, _, _, rfl⟩ := (step_some_iff m b p t x s).1 hstep
  exact Summer.C02.total_rate m b hp _
/-- End to end.  For every linearly ordered field, every model with a prepared backend, every parameter set: in a successful Euler run
read from the source text, row `i+1` and row `i` of the returned outputs differ in total by the step times (entry − exit) of the
right-hand side evaluation at (`times[i]`, row `i`) — the only hypotheses are that this evaluation is defined (`hstep`) and that the
row has one entry per compartment (`hrow`; rows of a reachable model do, `C02Open.euler_lengths`). -/
theorem euler_run_total (m : Model α) (b : Backend) (hp : prepare m = .ok b) (doBase params : List (String × α))
    (outs : List (List α)) (d : List (String × List α))
    (h : run_model m b (fun f x0 ts => euler f x0 ts) doBase params = some (outs, d)) (hne : modelTimes m ≠ [])
    (i : Nat) (hi : i + 1 < (modelTimes m).length) (hrow : (outs.getD i []).length = m.comps.length)
    (s : StepOut α) (hstep : step m b params ((modelTimes m).getD i 0) (outs.getD i []) = some s) :
    sumL (outs.getD (i + 1) []) =
      sumL (outs.getD i []) +
        ((modelTimes m).getD 1 0 - (modelTimes m).getD 0 0) * (Spec.entryTotal m s.flowRates - Spec.exitTotal m s.flowRates) := by
  obtain ⟨x0, _, _, _, hrec⟩ := Summer.Props.C07EndToEnd.euler_run m b doBase params outs d h hne
  have hf : fieldFn m b params (outs.getD i []) ((modelTimes m).getD i 0) = s.compRates := by
    unfold fieldFn rhs; rw [hstep]; rfl
  have hcl : s.compRates.length = m.comps.length := by
    obtain ⟨w, mix, ci, _, _, _, rfl⟩ := (step_some_iff m b params _ _ s).1 hstep
    exact Proofs.compRates_length (backendFor_of_prepare m b hp) _
  rw [hrec i hi, hf, (linOn_sumL m.comps.length).add _ _ hrow (by simp [hcl]),
    (linOn_sumL m.comps.length).smul _ _ hcl, step_total m b hp params _ _ s hstep]
end

section
variable {α : Type} [Field α] [LinearOrder α] [IsStrictOrderedRing α]

/-- The vector field the run closure hands to the solvers annihilates the total of a model without entry
and exit flows, and keeps one entry per compartment — where the right-hand side is defined AND where it is
not (the closure then returns the zero vector). -/
theorem fieldFn_closed (m : Model α) (b : Backend) (hp : prepare m = .ok b)
    (hentry : ∀ f ∈ m.flows, f.src.isSome = true) (hexit : ∀ f ∈ m.flows, f.dst.isSome = true)
    (params : List (String × α)) :
    FieldOK m.comps.length (sumL : List α → α) (fieldFn m b params) := by
  intro y t _
  unfold fieldFn rhs
  cases hstep : step m b params t y with
  | none => exact ⟨by simp, by simpa using linOn_zero (linOn_sumL (α := α) m.comps.length)⟩
  | some s =>
    obtain ⟨w, mix, ci, _, _, _, rfl⟩ := (step_some_iff m b params t y s).1 hstep
    exact ⟨Proofs.compRates_length (backendFor_of_prepare m b hp) _, Summer.C02.closed_rates m b hp hentry hexit _⟩

/-- End to end, all three solvers.  A successful run read from the source text of a model without entry and
exit flows returns rows whose totals all equal the total of the model's initial population: for Euler, for
RK4, and for the adaptive Dormand–Prince solver with every tableau whose fit rows have the generated column
sums, every step controller, every fuel and initial step. -/
theorem run_closed_population (m : Model α) (b : Backend) (hp : prepare m = .ok b)
    (hentry : ∀ f ∈ m.flows, f.src.isSome = true) (hexit : ∀ f ∈ m.flows, f.dst.isSome = true)
    (doBase params : List (String × α)) (outs : List (List α)) (d : List (String × List α))
    (hx0 : ∀ x0, initialPopulation m params = some x0 → x0.length = m.comps.length) :
    (run_model m b (fun f x0 ts => euler f x0 ts) doBase params = some (outs, d) →
      ∃ x0, initialPopulation m params = some x0 ∧ ∀ r ∈ outs, r.length = m.comps.length ∧ sumL r = sumL x0) ∧
    (run_model m b (fun f x0 ts => rk4 f x0 ts) doBase params = some (outs, d) →
      ∃ x0, initialPopulation m params = some x0 ∧ ∀ r ∈ outs, r.length = m.comps.length ∧ sumL r = sumL x0) ∧
    (∀ (tb : Tableau α), FitColSums tb.fitRows → ∀ (ctl : Control α) (fuel : Nat) (dt0 : α),
      run_model m b (fun f x0 ts => odeint tb ctl f fuel dt0 x0 ts) doBase params = some (outs, d) →
      ∃ x0, initialPopulation m params = some x0 ∧ ∀ r ∈ outs, r.length = m.comps.length ∧ sumL r = sumL x0) := by
  have hF := fieldFn_closed m b hp hentry hexit params
  refine ⟨fun h => ?_, fun h => ?_, fun tb hfit ctl fuel dt0 h => ?_⟩
  · obtain ⟨x0, hx, ho⟩ := run_model_outputs m b _ doBase params outs d h
    subst ho
    exact ⟨x0, hx, euler_linear (linOn_sumL _) hF x0 (hx0 x0 hx) _⟩
  · obtain ⟨x0, hx, ho⟩ := run_model_outputs m b _ doBase params outs d h
    subst ho
    exact ⟨x0, hx, rk4_linear (linOn_sumL _) hF x0 (hx0 x0 hx) _⟩
  · obtain ⟨x0, hx, ho⟩ := run_model_outputs m b _ doBase params outs d h
    subst ho
    exact ⟨x0, hx, odeint_linear (linOn_sumL _) tb hfit ctl hF fuel dt0 x0 (hx0 x0 hx) _⟩
end


#print axioms fieldFn_closed
#print axioms run_closed_population
#print axioms step_total
#print axioms euler_run_total
end Summer.Props.C02EndToEnd
