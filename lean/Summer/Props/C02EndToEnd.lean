import Summer.Props.C02Open
import Summer.Props.C01Step
import Summer.Props.C07EndToEnd
/-
C02 end to end — a successful `model.run(parameters, solver="euler")`, read from the source text of `build_run_model.run_model`
(`C07Pipeline.run_model_eq`), changes the total population between consecutive output rows by exactly
`h · (Σ entry-flow rates − Σ exit-flow rates)` of the right-hand side evaluated at the earlier row — whether or not the model is closed.
Composes `C07EndToEnd.euler_run`, `C02.total_rate` and the linearity of the total.
-/
namespace Summer.Props.C02EndToEnd
open Summer Summer.Run Summer.Pipeline Summer.Solvers Summer.Spec.Solvers Summer.Proofs Summer.Proofs.Solvers Summer.Proofs.EndToEnd
  Summer.Generated.PipelineSrc Summer.Props.C07Pipeline

section
variable {α : Type} [Field α] [LinearOrder α] [IsStrictOrderedRing α]

/-- Wherever one evaluation of the right-hand side succeeds, its compartment rates add up to the entry
total minus the exit total of ITS flow rates. -/
theorem step_total (m : Model α) (b : Backend) (hp : prepare m = .ok b) (p : List (String × α)) (t : α) (x : List α)
    (s : StepOut α) (hstep : step m b p t x = some s) :
    sumL s.compRates = Spec.entryTotal m s.flowRates - Spec.exitTotal m s.flowRates := by
  obtain ⟨w, mix, ci, _, _, _, rfl⟩ := (step_some_iff m b p t x s).1 hstep
  exact Summer.C02.total_rate m b hp _
/-- End to end.  For every linearly ordered field, every model with a prepared backend, every parameter set: in a successful Euler run
read from the source text, row `i+1` and row `i` of the returned outputs differ in total by the step times (entry − exit) of the
right-hand side evaluation at (`times[i]`, row `i`) — the only hypotheses are that this evaluation is defined (`hstep`) and that the
row has one entry per compartment (`hrow`; rows of a reachable model do, `C02Open.euler_lengths`). -/
theorem euler_run_total (m : Model α) (b : Backend) (hp : prepare m = .ok b) (doBase params : List (String × α))
    (outs : List (List α)) (d : List (String × List α))
    (h : run_model m b (fun f x0 ts => euler f x0 ts) doBase params = some (outs, d)) (hne : modelTimes m ≠ [])
    (i : Nat) (hi : i + 1 < (modelTimes m).length) (hrow : (outs.getD i []).length = m.comps.length)
    (s : StepOut α) (hstep : step m b params ((modelTimes m).getD i 0) (outs.getD i []) = some s) :
    sumL (outs.getD (i + 1) []) =
      sumL (outs.getD i []) +
        ((modelTimes m).getD 1 0 - (modelTimes m).getD 0 0) * (Spec.entryTotal m s.flowRates - Spec.exitTotal m s.flowRates) := by
  obtain ⟨x0, _, _, _, hrec⟩ := Summer.Props.C07EndToEnd.euler_run m b doBase params outs d h hne
  have hf : fieldFn m b params (outs.getD i []) ((modelTimes m).getD i 0) = s.compRates := by
    unfold fieldFn rhs; rw [hstep]; rfl
  have hcl : s.compRates.length = m.comps.length := by
    obtain ⟨w, mix, ci, _, _, _, rfl⟩ := (step_some_iff m b params _ _ s).1 hstep
    exact Proofs.compRates_length (backendFor_of_prepare m b hp) _
  rw [hrec i hi, hf, (linOn_sumL m.comps.length).add _ _ hrow (by simp [hcl]),
    (linOn_sumL m.comps.length).smul _ _ hcl, step_total m b hp params _ _ s hstep]
end

#print axioms step_total
#print axioms euler_run_total
end Summer.Props.C02EndToEnd
