import Summer.Generated.DerivedOut
import Summer.Proofs.Derived
/-
C14 / C08 / C11 — which derived outputs a run returns is what the SOURCE TEXT of `derived_outputs.py::build_derived_outputs_runner` says.

The whole function is pinned (`harness/translate/gen_rates.py`, `t_dispatch`): the request loop only dispatches on the request type and
collects the names of the requests with `save_results`; afterwards `whitelist = whitelist or model._derived_outputs_whitelist`, and with a
whitelist the targets are the whitelist and the graph is filtered to what they depend on.  `derived_outputs_runner_eq` identifies the
rendering with `Derived.derivedOutputs` — the function `C14.whitelist_values`, `C14.save_flags`, `C14.filter_sound` and the C08 theorems are
about — for models whose request names are distinct (they are dict keys in Python; `C17.rejects` shows a duplicate name is refused).
-/
set_option linter.unusedSectionVars false
namespace Summer.Props.C14Source
open Summer Summer.Derived Summer.Spec Summer.Generated.DerivedOut Summer.Proofs.DerivedL

section
variable {α : Type} [Field α] [LinearOrder α]

theorem foldl_names (reqs : List (ReqEntry α)) (init : List String) :
    reqs.foldl (fun (out_keys : List String) request => if request.save then out_keys ++ [request.name] else out_keys) init
      = init ++ (reqs.filter (fun r => r.save)).map (fun r => r.name) := by
  induction reqs generalizing init with
  | nil => simp
  | cons r rest ih =>
    simp only [List.foldl_cons, List.filter_cons]
    cases r.save <;> simp [ih]

theorem lookup_of_mem {β : Type} (l : List (String × β)) (hnd : (l.map (·.1)).Nodup) (kv : String × β) (h : kv ∈ l) :
    alookup l kv.1 = some kv.2 := by
  obtain ⟨j, hj, rfl⟩ := List.mem_iff_getElem.mp h
  exact alookup_nodup l hnd j hj

/-- looking the keys of a sub-list up returns the sub-list -/
theorem mapM_lookup_sub {β : Type} (l : List (String × β)) (hnd : (l.map (·.1)).Nodup) :
    ∀ (S : List (String × β)), (∀ kv ∈ S, kv ∈ l) →
      (S.map (·.1)).mapM (fun k => do let v ← alookup l k; pure (k, v)) = some S
  | [], _ => rfl
  | kv :: S, h => by
    have h1 := lookup_of_mem l hnd kv (h kv (List.mem_cons_self))
    have h2 := mapM_lookup_sub l hnd S (fun x hx => h x (List.mem_cons_of_mem _ hx))
    simp only [Option.bind_eq_bind, Option.pure_def] at h2
    simp only [List.map_cons, List.mapM_cons, h1, Option.bind_eq_bind, Option.bind_some, Option.pure_def]
    rw [h2]
    rfl

theorem eq_of_nodup_map {β γ : Type} (f : β → γ) : ∀ (l : List β), (l.map f).Nodup → ∀ a b, a ∈ l → b ∈ l → f a = f b → a = b
  | [], _, a, _, ha, _, _ => by cases ha
  | x :: xs, hnd, a, b, ha, hb, hab => by
    simp only [List.map_cons, List.nodup_cons, List.mem_map, not_exists, not_and] at hnd
    rcases List.mem_cons.mp ha with rfl | ha'
    · rcases List.mem_cons.mp hb with rfl | hb'
      · rfl
      · exact absurd hab.symm (hnd.1 b hb')
    · rcases List.mem_cons.mp hb with rfl | hb'
      · exact absurd hab (hnd.1 a ha')
      · exact eq_of_nodup_map f xs hnd.2 a b ha' hb' hab

/-- the saved entries of the full evaluation, selected by name -/
theorem saved_names (reqs : List (ReqEntry α)) (hnd : DistinctNames reqs) (all : List (String × List α))
    (hn : all.map (·.1) = reqs.map (·.name)) :
    (all.filter (fun kv => reqs.any (fun r => r.name == kv.1 && r.save))).map (·.1) = (reqs.filter (fun r => r.save)).map (fun r => r.name) := by
  -- entry i of `all` carries the name of request i; with distinct names "some request of that name is saved" means "request i is saved"
  have key : ∀ (rs : List (ReqEntry α)) (al : List (String × List α)), al.map (·.1) = rs.map (·.name) →
      (∀ r ∈ rs, reqs.any (fun r' => r'.name == r.name && r'.save) = r.save) →
      (al.filter (fun kv => reqs.any (fun r => r.name == kv.1 && r.save))).map (·.1) = (rs.filter (fun r => r.save)).map (fun r => r.name) := by
    intro rs
    induction rs with
    | nil => intro al h _; cases al with
      | nil => rfl
      | cons a as => simp at h
    | cons r rest ih =>
      intro al h hp
      cases al with
      | nil => simp at h
      | cons a as =>
        simp only [List.map_cons, List.cons.injEq] at h
        have hr := hp r (List.mem_cons_self)
        simp only [List.filter_cons]
        rw [h.1, hr]
        have := ih as h.2 (fun r' hr' => hp r' (List.mem_cons_of_mem _ hr'))
        cases r.save <;> simp [this, h.1]
  refine key reqs all hn ?_
  intro r hr
  -- distinct names: the only request called `r.name` is `r`
  rw [Bool.eq_iff_iff]
  constructor
  · intro h
    obtain ⟨r', hr', hh⟩ := List.any_eq_true.mp h
    simp only [Bool.and_eq_true, beq_iff_eq] at hh
    have : r' = r := by
      unfold DistinctNames at hnd
      exact eq_of_nodup_map (fun r => r.name) reqs hnd r' r hr' hr hh.1
    rw [← this]; exact hh.2
  · intro h
    exact List.any_eq_true.mpr ⟨r, hr, by simp [h]⟩

/-- `build_derived_outputs_runner(model)` (no whitelist argument) returns `Derived.derivedOutputs` -/
theorem derived_outputs_runner_eq (m : Model α) (d : RunData α) (hnd : DistinctNames m.requests) :
    derived_outputs_runner m [] d = derivedOutputs m d := by
  unfold derived_outputs_runner derivedOutputs
  simp only [List.length_nil, bne_self_eq_false, Bool.false_eq_true, if_false, foldl_names, List.nil_append]
  by_cases hw : (m.whitelist.length == 0) = true
  · have hw' : (m.whitelist.length != 0) = false := by simpa using hw
    simp only [hw, hw', if_true, Bool.false_eq_true, if_false]
    cases hall : evalAll m d m.requests with
    | none => rfl
    | some all =>
      simp only [Option.bind_eq_bind, Option.bind_some, Option.pure_def]
      have hn := evalAll_names m d m.requests all hall
      have hnd' : (all.map (·.1)).Nodup := by rw [hn]; exact hnd
      rw [← saved_names m.requests hnd all hn]
      exact mapM_lookup_sub all hnd' _ (fun kv hkv => (List.mem_filter.mp hkv).1)
  · have hw0 : (m.whitelist.length == 0) = false := by simpa using hw
    have hw' : (m.whitelist.length != 0) = true := by simp [bne, hw0]
    simp only [hw0, hw', if_true, Bool.false_eq_true, if_false]

/-- with a whitelist argument it is `derivedOutputs` of the model whose whitelist is that argument -/
theorem derived_outputs_runner_whitelist (m : Model α) (d : RunData α) (wl : List String) (hwl : wl ≠ []) :
    derived_outputs_runner m wl d = derivedOutputs { m with whitelist := wl } d := by
  unfold derived_outputs_runner derivedOutputs
  have h1 : (wl.length != 0) = true := by cases wl with | nil => exact absurd rfl hwl | cons a as => simp
  have h2 : (wl.length == 0) = false := by cases wl with | nil => exact absurd rfl hwl | cons a as => simp
  simp only [h1, h2, if_true, Bool.false_eq_true, if_false]
  rfl


/-- `build_computed_value_output` -/
theorem computed_value_output_eq (m : Model α) (d : RunData α) (done : List (String × List α)) (name : String) :
    evalRequest m d done (.cv name) = computed_value_output d.computed name := by
  unfold evalRequest computed_value_output
  rfl

/-- the inputs a function output reads are the series of its sources, in the listed order -/
theorem function_output_inputs_eq (done : List (String × List α)) (sources : List String) :
    function_output_inputs done sources = sources.mapM (alookup done) := rfl

end

#print axioms computed_value_output_eq
#print axioms derived_outputs_runner_eq
#print axioms derived_outputs_runner_whitelist

end Summer.Props.C14Source
