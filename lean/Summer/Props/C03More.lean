import Summer.Props.C03
import Summer.Props.C05
import Summer.Props.C07
import Summer.Props.C08
import Summer.Proofs.AggregateMore
import Summer.Proofs.AggregateMoreRk4
import Summer.Proofs.AggregateMoreDerived
import Summer.Proofs.AggregateMoreMixing
import Summer.Proofs.AggregateMoreStep
/-
C03 (continued) — stratifying without adjustments does not change the aggregate dynamics.

Part 1  several mixing categories: `multiplier_agg`, `foi_vectors_agg`, `infectiousness_child`,
        `rhs_agg_multi_category`.
Part 2  trajectories of the classical RK4 scheme: `rk4Stages_spec`, `rk4_agg`.
Part 3  derived outputs selected by name (and by filters over OLD stratifications): `derived_agg_comp*`,
        `derived_agg_flow*`, `flow_rates_agg`, `flow_output_agg*`.
Part 4  proportionate mixing: `proportionate_mixing`, `proportionate_mixing_density`, …

Model: `Build.stratifyWith`, `Run.prepare`, `Run.infectiousMultipliers`, `Run.forceOfInfection`, `Run.rhs`,
`Solvers.rk4`, `Derived.evalRequest`.  Specification: `Summer/Spec/Aggregate.lean`,
`Summer/Spec/AggregateMore.lean` (`catsUniform`, `catKeysAvoid`, `mixingStateFree`),
`Summer/Spec/AggregateMoreRk4.lean` (`rk4Stages`), `Summer/Spec/Derived.lean`, `Summer/Spec/FOI.lean`.
Everything is stated for an arbitrary ordered field.
-/
set_option linter.unusedSectionVars false
set_option linter.unnecessarySeqFocus false

namespace Summer.C03More

/-! # PART 1 — several mixing categories -/
section part1_categories

open Summer Summer.Build Summer.Run Summer.Spec Summer.Proofs Summer.Spec.AggregateMore

variable {α : Type} [Field α] [LinearOrder α] [IsStrictOrderedRing α]

/-! ## 1. several mixing categories -/

/-- **multiplier_agg.**  Let `m` be any model (typically already stratified, carrying mixing matrices
and hence several mixing categories, possibly several strains, possibly with infectiousness
adjustments), `s` an ordinary, partial or age stratification WITHOUT flow adjustments, infectiousness
adjustments or mixing matrix, not a strain stratification and not called `"strain"`, `m'` the
stratified model, `b`, `b'` the backends.  Assume the categories of both models are uniform
(`catsUniform`: every category holds equally many infectious compartments of each strain, which is what
the runner's `reshape` presupposes) and no category key is `s.name` (`catKeysAvoid`).  Then for every
stratified state `x'` (no sign condition) and every mixing matrix `mix`, with the compartment
infectiousness vectors `ci'`, `ci` computed by the runner for `m'`, `m`, **every copy of an infection flow
sees the multiplier of its parent**: the multiplier the runner computes for the `j`-th flow of `m'` at
`x'` — a copy of the `i`-th flow of `m` — is the multiplier it computes for the `i`-th flow of `m` at
`agg x'`.
(The mixing categories of `m'` are those of `m`; the compartments of a category of `m'` are the children
of the compartments of that category of `m`, with their parents' infectiousness; so category populations
and per-strain infectious populations computed from `x'` are those computed from `agg x'`.)
This discharges the hypothesis `hMM` of `C03.rates_agg_partial`. -/
theorem multiplier_agg (m m' : Model α) (s : Strat α) (b b' : Backend)
    (hsw : stratifyWith m s = .ok m') (hb : prepare m = .ok b) (hb' : prepare m' = .ok b')
    (hfa : s.flowAdj = []) (hia : s.infAdj = []) (hmix : s.mixing = none) (hstrain : s.kind ≠ .strain)
    (hname : s.name ≠ "strain")
    (hfresh : freshFor m.comps s = true) (hnd : m.comps.Nodup) (hst : s.strata.Nodup) (hne : s.strata ≠ [])
    (hu : catsUniform b = true) (hu' : catsUniform b' = true) (hkeys : catKeysAvoid m s.name = true)
    (params : List (String × α)) (ci ci' : List α)
    (hci : compInfectiousness m params = some ci) (hci' : compInfectiousness m' params = some ci')
    (x' : List α) (hx : x'.length = m'.comps.length) (mix : Matrix α)
    (i : Nat) (hi : i < m.flows.length) (hinf : isInfection m.flows[i].kind = true)
    (j : Nat) (hj : j < m'.flows.length) (hcopy : m'.flows[j] ∈ Spec.copiesA s m.flows[i]) :
    (infectiousMultipliers b' x' mix ci').1.getD (infPos m' j) 1
      = (infectiousMultipliers b (Spec.agg m.comps s x') mix ci).1.getD (infPos m i) 1 :=
  AggregateMore.multiplier_agg_core hsw hb hb' hfa hia hmix hstrain hname ⟨hfresh, hnd, hst⟩ hne hu hu' hkeys
    params ci ci' hci hci' x' hx mix i hi hinf j hj hcopy

/-- the per-strain force-of-infection vectors themselves (one entry per mixing category) agree -/
theorem foi_vectors_agg (m m' : Model α) (s : Strat α) (b b' : Backend)
    (hsw : stratifyWith m s = .ok m') (hb : prepare m = .ok b) (hb' : prepare m' = .ok b')
    (hfa : s.flowAdj = []) (hia : s.infAdj = []) (hmix : s.mixing = none) (hstrain : s.kind ≠ .strain)
    (hname : s.name ≠ "strain")
    (hfresh : freshFor m.comps s = true) (hnd : m.comps.Nodup) (hst : s.strata.Nodup) (hne : s.strata ≠ [])
    (hu : catsUniform b = true) (hu' : catsUniform b' = true) (hkeys : catKeysAvoid m s.name = true)
    (params : List (String × α)) (ci ci' : List α)
    (hci : compInfectiousness m params = some ci) (hci' : compInfectiousness m' params = some ci')
    (x' : List α) (hx : x'.length = m'.comps.length) (mix : Matrix α) :
    (infectiousMultipliers b' x' mix ci').2 = (infectiousMultipliers b (Spec.agg m.comps s x') mix ci).2 :=
  AggregateMore.perStrain_agg_ci hsw hb hb' hfa hia hmix hstrain hname ⟨hfresh, hnd, hst⟩ hne hu hu' hkeys
    params ci ci' hci hci' x' hx mix

/-- the compartment infectiousness of a child is that of its parent (`s` has no infectiousness
adjustment; the earlier adjustments look at earlier stratifications only) -/
theorem infectiousness_child (m m' : Model α) (s : Strat α) (hsw : stratifyWith m s = .ok m')
    (hfa : s.flowAdj = []) (hia : s.infAdj = []) (hmix : s.mixing = none) (hstrain : s.kind ≠ .strain)
    (hfresh : freshFor m.comps s = true) (params : List (String × α)) (c : Comp) (hc : c ∈ m.comps) :
    (∀ st, Spec.infSpec m' params (c.stratify s.name st) = Spec.infSpec m params c) ∧
      Spec.infSpec m' params c = Spec.infSpec m params c := by
  obtain ⟨hstr, _⟩ := stratifyWith_fields m m' s hsw hfa hmix hstrain
  exact ⟨fun st => AggregateMore.infSpec_child m m' s hstr hia (AggregateMore.stratifyWith_newName m m' s hsw) params c
    (freshFor_mem hfresh c hc) st, AggregateMore.infSpec_same m m' s hstr hia params c⟩

/-- **rhs_agg_multi_category.**  `rates_agg` at the level of the rate function handed to the solvers,
infection flows included, for a base model `m` with ANY number of mixing categories and mixing
matrices, any number of strains and any infectiousness adjustments: if `s` is an ordinary, partial or
age stratification without flow adjustments, infectiousness adjustments or mixing matrix, not a strain
stratification and not called `"strain"`, then for every NON-NEGATIVE stratified state `x'` and weights
that do not read the state, whenever both right-hand sides are defined,

  `agg (rhs m' b' params x' t) = rhs m b params (agg x') t`.

Compared with `C03.rhs_agg_partial_single_category` (the case `mixingCats = [[]]`, `mixingMats = []`,
no infectiousness adjustment anywhere) the hypotheses on `m` are: the categories of `m` and `m'` are
uniform (`catsUniform`, decidable on the backends; true of API-built models because a mixing matrix
requires a full stratification), no category key is `s.name` (`catKeysAvoid`; true whenever
`stratify_with` accepts `s`, the keys being names of applied stratifications), and the mixing matrices do
not read the state (`mixingStateFree`; they may depend on parameters and time). -/
theorem rhs_agg_multi_category (m m' : Model α) (s : Strat α) (b b' : Backend)
    (hsw : stratifyWith m s = .ok m') (hb : prepare m = .ok b) (hb' : prepare m' = .ok b')
    (hfa : s.flowAdj = []) (hia : s.infAdj = []) (hmix : s.mixing = none) (hstrain : s.kind ≠ .strain)
    (hage : s.kind = .age → "0" ∈ s.strata) (hname : s.name ≠ "strain")
    (hfresh : freshFor m.comps s = true) (hnd : m.comps.Nodup) (hst : s.strata.Nodup) (hne : s.strata ≠ [])
    (hs : sourcedOk m = true)
    (hu : catsUniform b = true) (hu' : catsUniform b' = true) (hkeys : catKeysAvoid m s.name = true)
    (hmsf : mixingStateFree m = true)
    (hsf : ∀ g ∈ m'.flows, Spec.stateFree (realised g) = true)
    (params : List (String × α)) (t : α) (x' : List α) (hx : x'.length = m'.comps.length)
    (hnn : ∀ v ∈ x', 0 ≤ v) (r r' : List α)
    (hr' : rhs m' b' params x' t = some r') (hr : rhs m b params (Spec.agg m.comps s x') t = some r) :
    Spec.agg m.comps s r' = r :=
  AggregateMore.rhs_agg_multi hsw hb hb' hfa hia hmix hstrain hage hname ⟨hfresh, hnd, hst⟩ hne hs hu hu' hkeys hmsf
    hsf params t x' hx hnn r r' hr' hr

/-! ### non-vacuity: an age-group model with a (time-dependent) mixing matrix, then stratified by location -/
section example_
open Summer.C03

/-- full stratification of the SIR model into two groups with a mixing matrix (one entry varies in time) and
an infectiousness adjustment (the young are `k` times as infectious) -/
def grpStrat : Strat Rat :=
  { kind := .plain, name := "grp", strata := ["young", "old"], comps := ["S", "I", "R"],
    split := [("young", .const (1/4)), ("old", .const (3/4))], flowAdj := [],
    infAdj := [("I", [("young", some (.mul (.param "k"))), ("old", none)])],
    mixing := some [[.const 2, .add (.const 1) .time], [.const 1, .const 3]] }
def grpModel : Model Rat := getOk sirModel (stratifyWith sirModel grpStrat)
def grpLoc : Model Rat := getOk grpModel (stratifyWith grpModel locStrat)
def grpB : Backend := getOk noBackend (prepare grpModel)
def grpLocB : Backend := getOk noBackend (prepare grpLoc)
/-- a state of the doubly stratified model: 6 × S, 6 × I, 2 × R -/
def xg : List Rat := [20, 10, 5, 30, 20, 15, 1, 2, 3, 4, 0, 6, 7, 9]

example : stratifyWith sirModel grpStrat = .ok grpModel ∧ stratifyWith grpModel locStrat = .ok grpLoc ∧
    prepare grpModel = .ok grpB ∧ prepare grpLoc = .ok grpLocB := ⟨by rfl, by rfl, by rfl, by rfl⟩

example : grpModel.mixingCats = [[("grp", "young")], [("grp", "old")]] ∧ grpLoc.mixingCats = grpModel.mixingCats ∧
    grpB.catIdx = [[0, 2, 4], [1, 3, 5]] ∧ grpLocB.catIdx = [[0, 1, 2, 6, 7, 8, 12], [3, 4, 5, 9, 10, 11, 13]] ∧
    catsUniform grpB = true ∧ catsUniform grpLocB = true ∧ catKeysAvoid grpModel locStrat.name = true ∧
    mixingStateFree grpModel = true := by decide +kernel

def pk : List (String × Rat) := [("k", 3)]
def ciG : List Rat := [1, 1, 3, 1, 1, 1]
def ciGL : List Rat := [1, 1, 1, 1, 1, 1, 3, 3, 3, 1, 1, 1, 1, 1]
example : compInfectiousness grpModel pk = some ciG ∧ compInfectiousness grpLoc pk = some ciGL := by decide +kernel

/-- the infection flow `S_young → I_young` (flow 0 of `grpModel`) has three copies in `grpLoc` (flows 0, 1, 2);
each sees the multiplier of its parent, here with the mixing matrix `[[2, 4], [1, 3]]` -/
example : (infectiousMultipliers grpLocB xg [[2, 4], [1, 3]] ciGL).1.getD (infPos grpLoc 1) 1
    = (infectiousMultipliers grpB (Spec.agg grpModel.comps locStrat xg) [[2, 4], [1, 3]] ciG).1.getD (infPos grpModel 0) 1 :=
  multiplier_agg grpModel grpLoc locStrat grpB grpLocB (by rfl) (by rfl) (by rfl) rfl rfl rfl (by decide) (by decide)
    (by decide) (by decide) (by decide) (by decide) (by decide +kernel) (by decide +kernel) (by decide) pk ciG ciGL
    (by decide +kernel) (by decide +kernel) xg (by decide) _ 0 (by decide) (by decide) 1 (by decide)
    (by
      have h : grpLoc.flows[1] = (Spec.copiesA locStrat grpModel.flows[0])[1]'(by decide) := by rfl
      rw [h]; exact List.getElem_mem _)

example : (infectiousMultipliers grpLocB xg [[2, 4], [1, 3]] ciGL).1 = [103/84, 103/84, 103/84, 41/56, 41/56, 41/56] ∧
    (infectiousMultipliers grpLocB xg [[2, 4], [1, 3]] ciGL).2 = [[103/84, 41/56]] ∧
    Spec.agg grpModel.comps locStrat xg = [35, 65, 6, 10, 7, 9] ∧
    (infectiousMultipliers grpB [35, 65, 6, 10, 7, 9] [[2, 4], [1, 3]] ciG).1 = [103/84, 41/56] := by
  decide +kernel

/-- the right-hand sides, at time `t = 3` (mixing matrix `[[2, 4], [1, 3]]`), forces of infection computed by
the runner from two mixing categories -/
example : Spec.agg grpModel.comps locStrat ((rhs grpLoc grpLocB pk xg 3).getD []) =
    (rhs grpModel grpB pk (Spec.agg grpModel.comps locStrat xg) 3).getD [] :=
  rhs_agg_multi_category grpModel grpLoc locStrat grpB grpLocB (by rfl) (by rfl) (by rfl) rfl rfl rfl
    (by decide) (by decide) (by decide) (by decide) (by decide) (by decide) (by decide) (by decide)
    (by decide +kernel) (by decide +kernel) (by decide) (by decide) (by decide) pk 3 xg (by decide)
    (by decide) _ _ (by decide +kernel) (by decide +kernel)

example : rhs grpLoc grpLocB pk xg 3 = some [-1030/21, -515/21, -515/42, -615/14, -205/7, -615/28, 2039/42, 494/21,
      226/21, 587/14, 205/7, 531/28, 3, 5] ∧
    rhs grpModel grpB pk [35, 65, 6, 10, 7, 9] 3 = some [-515/6, -2665/28, 497/6, 2525/28, 3, 5] := by decide +kernel

/-! ### `catsUniform` of the STRATIFIED model cannot be dropped

A hand-built model (not constructible through the API, where a mixing matrix requires a full
stratification) with two categories `g = a` (`S, I, K`) and `g = b` (`S, J, L`), infectious `I` and `J`:
both categories hold one infectious compartment, `catsUniform` holds.  Stratifying `I` and `L` by
location gives categories of equal size (5 and 5, so `np.stack` succeeds) holding 3 resp. 1 infectious
compartments; `4 = 2 · 2`, so the runner's `reshape` succeeds too and silently counts `I_a_remote` in
category `b`: the aggregate dynamics change. -/
def cSa : Comp := ⟨"S", [("g", "a")]⟩
def cIa : Comp := ⟨"I", [("g", "a")]⟩
def cKa : Comp := ⟨"K", [("g", "a")]⟩
def cSb : Comp := ⟨"S", [("g", "b")]⟩
def cJb : Comp := ⟨"J", [("g", "b")]⟩
def cLb : Comp := ⟨"L", [("g", "b")]⟩
def gStrat : Strat Rat :=
  { kind := .plain, name := "g", strata := ["a", "b"], comps := ["S", "I", "J", "K", "L"], split := [], flowAdj := [],
    infAdj := [], mixing := some [[.const 1, .const 0], [.const 0, .const 1]] }
def oddModel : Model Rat :=
  { t0 := 0, t1 := 10, dt := 1, nTimes := 11,
    comps := [cSa, cIa, cKa, cSb, cJb, cLb], origNames := ["S", "I", "J", "K", "L"], infectious := ["I", "J"],
    flows := [{ kind := .infFreq, name := "infection", src := some cSa, dst := some cIa, param := .const 2, adjs := [] },
              { kind := .infFreq, name := "infection", src := some cSb, dst := some cJb, param := .const 2, adjs := [] }],
    strats := [gStrat], mixingCats := [[("g", "a")], [("g", "b")]],
    mixingMats := [[[.const 1, .const 0], [.const 0, .const 1]]], strains := ["default"],
    initDist := none, arrayPop := none, actions := [], requests := [], computed := [], whitelist := [],
    finalized := false }
def ilStrat : Strat Rat :=
  { kind := .plain, name := "loc", strata := ["urban", "rural", "remote"], comps := ["I", "L"],
    split := [], flowAdj := [], infAdj := [], mixing := none }
def oddLoc : Model Rat := getOk oddModel (stratifyWith oddModel ilStrat)
def oddB : Backend := getOk noBackend (prepare oddModel)
def oddLocB : Backend := getOk noBackend (prepare oddLoc)
def xo : List Rat := [40, 1, 2, 7, 0, 30, 20, 0, 0, 0]

example : stratifyWith oddModel ilStrat = .ok oddLoc ∧ prepare oddModel = .ok oddB ∧ prepare oddLoc = .ok oddLocB :=
  ⟨by rfl, by rfl, by rfl⟩
example : catsUniform oddB = true ∧ catsUniform oddLocB = false ∧ catKeysAvoid oddModel ilStrat.name = true ∧
    mixingStateFree oddModel = true ∧ oddLocB.strainInfIdx = [[1, 2, 3, 6]] ∧ oddLocB.strainCatIdx = [[[0, 1], [2, 3]]] ∧
    oddLocB.catIdx = [[0, 1, 2, 3, 4], [5, 6, 7, 8, 9]] := by decide +kernel
example : (rhs oddLoc oddLocB [] xo 0).map (Spec.agg oddModel.comps ilStrat) = some [-24/5, 24/5, 0, -162/5, 162/5, 0] ∧
    rhs oddModel oddB [] (Spec.agg oddModel.comps ilStrat xo) 0 = some [-16, 16, 0, -24, 24, 0] := by decide +kernel
end example_

end part1_categories

/-! # PART 2 — RK4 trajectories -/
section part2_rk4

/-
C03 (continued) — "rk4_agg": aggregation over the strata commutes with the classical RK4 scheme.

Model: `Solvers.rk4`, `Solvers.rk4Step`, `Run.rhs`.  Specification: `Spec.agg` (`Summer/Spec/Aggregate.lean`),
`Spec.AggregateMoreRk4.rk4Stages` (the four states at which one RK4 step evaluates the vector field).
-/

open Summer Summer.Build Summer.Run Summer.Spec Summer.Proofs Summer.Spec.AggregateMoreRk4

section
variable {α : Type} [Field α] [LinearOrder α] [IsStrictOrderedRing α]

/-- `rk4Stages` really lists the evaluation points of `rk4Step`: the step is
`y + (1/6)(k1 + 2 k2 + 2 k3 + k4)` with `kᵢ = h · f(stageᵢ, timeᵢ)`, where `stageᵢ` are the four entries of
`rk4Stages f h y t` and `timeᵢ` those of `rk4StageTimes h t = [t, t + h/2, t + h/2, t + h]`. -/
theorem rk4Stages_spec (f : List α → α → List α) (h : α) (y : List α) (t : α) :
    (rk4Stages f h y t).length = 4 ∧ (rk4StageTimes h t).length = 4 ∧
    Solvers.rk4Step f h y t =
      (let k := fun i => vscale h (f ((rk4Stages f h y t).getD i []) ((rk4StageTimes h t).getD i 0))
       vadd y (vscale ((1 : α) / six) (vadd (vadd (vadd (k 0) (vscale two (k 1))) (vscale two (k 2))) (k 3)))) :=
  ⟨rfl, rfl, rfl⟩

/-- **Aggregation commutes with the classical RK4 scheme** along every stratified trajectory whose stage
states stay non-negative: if aggregation commutes with the right-hand sides on non-negative states
(`hrhs`, the conclusion of `C03.rhs_agg_partial_no_infection` / `C03.rhs_agg_partial_single_category`) and
both right-hand sides are defined there (`hdef`), and the four states at which every RK4 step of the
stratified model evaluates its vector field (`rk4Stages`, see `rk4Stages_spec`) have the right length and are
non-negative (`hQ`), then aggregating the RK4 trajectory of the stratified model started at `x0'` gives,
row by row, the RK4 trajectory of the unstratified model started at `agg x0'` (any number of steps, any
step size).  Non-negativity of the stages is needed because the runner cleans the state before computing
the rates (`clean (-1) + clean 2 ≠ clean 1`). -/
theorem rk4_agg (m m' : Model α) (s : Strat α) (b b' : Backend) (hb' : prepare m' = .ok b')
    (params : List (String × α)) (times : List α) (x0' : List α)
    (hrhs : ∀ (x' : List α) (t : α) (r r' : List α), x'.length = m'.comps.length → (∀ v ∈ x', 0 ≤ v) →
      rhs m' b' params x' t = some r' → rhs m b params (Spec.agg m.comps s x') t = some r →
      Spec.agg m.comps s r' = r)
    (hdef : ∀ (x' : List α) (t : α), x'.length = m'.comps.length → (∀ v ∈ x', 0 ≤ v) →
      (rhs m' b' params x' t).isSome = true ∧ (rhs m b params (Spec.agg m.comps s x') t).isSome = true)
    (hQ : ∀ i, i + 1 < times.length →
        ∀ z ∈ rk4Stages (C03.field m' b' params) (times.getD 1 0 - times.getD 0 0)
              ((Solvers.rk4 (C03.field m' b' params) x0' times).getD i []) (times.getD i 0),
          z.length = m'.comps.length ∧ ∀ v ∈ z, 0 ≤ v) :
    (Solvers.rk4 (C03.field m' b' params) x0' times).map (Spec.agg m.comps s)
      = Solvers.rk4 (C03.field m b params) (Spec.agg m.comps s x0') times := by
  by_cases hne : times = []
  · subst hne; rfl
  refine AggregateMoreRk4.rows_map (Spec.agg m.comps s) (C03.field m b params) (C03.field m' b' params) _
    (fun z => z.length = m'.comps.length ∧ ∀ v ∈ z, 0 ≤ v)
    (fun y k hl => AggregateMoreRk4.aggBy_vadd _ _ _ y k hl)
    (fun c k => AggregateMoreRk4.aggBy_vscale _ _ c _ k)
    (fun k => AggregateMoreRk4.aggBy_half _ _ _ k) ?_ times x0' _ _
    (Summer.Props.C07.rk4_rows _ x0' times hne) (Summer.Props.C07.rk4_rows _ _ times hne) hQ
  intro y t ⟨hlen, hnn⟩
  obtain ⟨h1, h2⟩ := hdef y t hlen hnn
  obtain ⟨r', hr'⟩ := Option.isSome_iff_exists.1 h1
  obtain ⟨r, hr⟩ := Option.isSome_iff_exists.1 h2
  have hagg := hrhs y t r r' hlen hnn hr' hr
  unfold C03.field
  rw [hr', hr]
  simp only [Option.getD_some]
  refine ⟨?_, hagg⟩
  obtain ⟨w, mults, _, rfl⟩ := rhs_some m' b' params y t r' hr'
  rw [Proofs.compRates_length (backendFor_of_prepare m' b' hb'), hlen]
end

section example_
open Summer.C03

def timesR : List Rat := [0, 1/2, 1]

/-- two RK4 steps of the location-stratified SIR model (with an infection flow), aggregated = two RK4
steps of the SIR model -/
example : (Solvers.rk4 (C03.field sirLoc sirLocB []) xl timesR).map (Spec.agg sirModel.comps locStrat)
    = Solvers.rk4 (C03.field sirModel sirB []) (Spec.agg sirModel.comps locStrat xl) timesR :=
  rk4_agg sirModel sirLoc locStrat sirB sirLocB (by rfl) [] timesR xl
    (fun x' t r r' hl hnn hr' hr =>
      rhs_agg_partial_single_category sirModel sirLoc locStrat sirB sirLocB (by rfl) (by rfl) (by rfl) rfl rfl rfl
        (by decide) (by decide) (by decide) (by decide) (by decide) (by decide) (by decide) (by decide) rfl rfl
        (by decide) (by decide) [] t x' hl hnn r r' hr' hr)
    (fun x' t _ _ => ⟨by rfl, by rfl⟩)
    (by
      intro i hi
      have h2 : i < 2 := by simp [timesR] at hi; omega
      match i, h2 with
      | 0, _ => decide +kernel
      | 1, _ => decide +kernel)

/-- the first two rows: the stratified trajectory is not trivial (the three locations differ) and its
aggregate is the unstratified one -/
example : (Solvers.rk4 (C03.field sirLoc sirLocB []) xl timesR).take 2 =
      [[50, 30, 10, 2, 3, 5, 0],
       [342533021157701982929 / 7864320000000000000, 342533021157701982929 / 13107200000000000000,
        342533021157701982929 / 39321600000000000000, 57518190944698017071 / 7864320000000000000,
        75892590944698017071 / 13107200000000000000, 198388590944698017071 / 39321600000000000000,
        7067994327 / 2048000000]] ∧
    (Solvers.rk4 (C03.field sirModel sirB []) (Spec.agg sirModel.comps locStrat xl) timesR).take 2 =
      [[90, 10, 0],
       [1027599063473105948787 / 13107200000000000000, 237885772834094051213 / 13107200000000000000,
        7067994327 / 2048000000]] := by
  decide +kernel
end example_

end part2_rk4

/-! # PART 3 — derived outputs -/
section part3_derived

/-
C03 (continued), "derived_agg" — derived outputs selected by NAME aggregate under an unadjusted
stratification.

Let `m'` be the model obtained from `m` by an unadjusted stratification `s`.  A compartment request
`.comp names flt` and a flow request `.flow name ss ds raw` make sense for both models; when the strata
filters `flt`, `ss`, `ds` do not mention the NEW stratification (in particular when they are empty), the
request evaluated on a run of `m'` gives the same series as the request evaluated on the aggregated
run of `m`:

* compartments (`derived_agg_comp`, `derived_agg_comp_filter`): the output rows of `m` are the
  aggregates (`Spec.agg`) of the output rows of `m'`;
* flows (`derived_agg_flow`, `derived_agg_flow_filter`): the flow-rate rows are given as functions of the
  flow and the rates of the copies of every parent flow add up to the parent's rate
  (the conclusion of `C03.copies_rate_sum`); `flow_rates_agg` shows that the runner's own flow rates
  (`Run.flowRates`) at `x'` and at `agg x'` have this property, and `flow_output_agg` combines both.

A filter that DOES mention the new stratification obviously does not aggregate (the parent model has
no such stratum, so it selects nothing there): see the counterexample in the example section.

Model: `Derived.evalRequest`, `Run.flowRates`, `Build.stratifyWith`.  Specification:
`Spec.compOutputAt`, `Spec.flowOutputAt` (C08), `Spec.agg`, `Spec.copiesA` (C03).
-/

open Summer Summer.Build Summer.Run Summer.Spec Summer.Derived Summer.Proofs

variable {α : Type} [Field α] [LinearOrder α] [IsStrictOrderedRing α]

/-! ## A. compartment outputs -/

/-- **Row-wise core, with a strata filter over the old stratifications.**  For a row `row'` with one
entry per compartment of the stratified model, the compartment output selected by `names` and by a
filter `flt` none of whose keys is the new stratification's name is the same whether it is read off
`row'` in `m'` or off the aggregated row in `m`. -/
theorem comp_output_agg_row_filter (m m' : Model α) (s : Strat α)
    (hfresh : freshFor m.comps s = true) (hnd : m.comps.Nodup) (hst : s.strata.Nodup)
    (hcomps : m'.comps = stratifyComps m.comps s)
    (names : List String) (flt : Strata) (hflt : ∀ kv ∈ flt, kv.1 ≠ s.name)
    (row' : List α) (hrow : row'.length = m'.comps.length) :
    compOutputAt m' names flt row' = compOutputAt m names flt (Spec.agg m.comps s row') :=
  AggregateMoreDerived.comp_output_agg_row_filter ⟨hfresh, hnd, hst⟩ hcomps names flt hflt row' hrow

/-- **comp_output_agg_row**: selection by name only (empty strata filter). -/
theorem comp_output_agg_row (m m' : Model α) (s : Strat α)
    (hfresh : freshFor m.comps s = true) (hnd : m.comps.Nodup) (hst : s.strata.Nodup)
    (hcomps : m'.comps = stratifyComps m.comps s)
    (names : List String) (row' : List α) (hrow : row'.length = m'.comps.length) :
    compOutputAt m' names [] row' = compOutputAt m names [] (Spec.agg m.comps s row') :=
  comp_output_agg_row_filter m m' s hfresh hnd hst hcomps names [] (fun _ h => by cases h) row' hrow

/-- **derived_agg_comp_filter.**  Let the compartments of `m'` be the stratified compartments of `m`,
let `d'` be any run data whose output rows have one entry per compartment of `m'`, and let the output
rows of `d` be the aggregates of those of `d'` (all other fields of `d`, `d'` and the earlier results
`done`, `done'` are arbitrary).  Then a compartment request with names `names` and a strata filter
over the OLD stratifications (no key equal to `s.name`) is defined on both sides and gives the same
series. -/
theorem derived_agg_comp_filter (m m' : Model α) (s : Strat α)
    (hfresh : freshFor m.comps s = true) (hnd : m.comps.Nodup) (hst : s.strata.Nodup)
    (hcomps : m'.comps = stratifyComps m.comps s)
    (d d' : RunData α) (hrows : ∀ row ∈ d'.outputs, row.length = m'.comps.length)
    (hd : d.outputs = d'.outputs.map (Spec.agg m.comps s))
    (names : List String) (flt : Strata) (hflt : ∀ kv ∈ flt, kv.1 ≠ s.name)
    (done done' : List (String × List α)) :
    ∃ ser ser', evalRequest m' d' done' (.comp names flt) = some ser' ∧
      evalRequest m d done (.comp names flt) = some ser ∧ ser' = ser := by
  obtain ⟨ser', h1', h2', h3'⟩ := Summer.C08.comp m' d' done' names flt
  obtain ⟨ser, h1, h2, h3⟩ := Summer.C08.comp m d done names flt
  refine ⟨ser, ser', h1', h1, ?_⟩
  have hlen : d.outputs.length = d'.outputs.length := by rw [hd]; simp
  apply AggregateMoreDerived.ext_getD ser' ser 0 (by rw [h2', h2, hlen])
  intro i hi
  rw [h2'] at hi
  rw [h3' i hi, h3 i (by rw [hlen]; exact hi), hd, AggregateMoreDerived.getD_map_lt _ _ i [] [] hi]
  apply comp_output_agg_row_filter m m' s hfresh hnd hst hcomps names flt hflt
  apply hrows
  rw [getD_eq_getElem _ _ _ hi]
  exact List.getElem_mem hi

/-- **derived_agg_comp**: compartment outputs selected by name (empty strata filter). -/
theorem derived_agg_comp (m m' : Model α) (s : Strat α)
    (hfresh : freshFor m.comps s = true) (hnd : m.comps.Nodup) (hst : s.strata.Nodup)
    (hcomps : m'.comps = stratifyComps m.comps s)
    (d d' : RunData α) (hrows : ∀ row ∈ d'.outputs, row.length = m'.comps.length)
    (hd : d.outputs = d'.outputs.map (Spec.agg m.comps s))
    (names : List String) (done done' : List (String × List α)) :
    ∃ ser ser', evalRequest m' d' done' (.comp names []) = some ser' ∧
      evalRequest m d done (.comp names []) = some ser ∧ ser' = ser :=
  derived_agg_comp_filter m m' s hfresh hnd hst hcomps d d' hrows hd names [] (fun _ h => by cases h) done done'

/-- The same from `stratifyWith m s = .ok m'` (ordinary, partial or age stratification without flow
adjustments and without mixing matrix; infectiousness adjustments are irrelevant here). -/
theorem derived_agg_comp_of_stratifyWith (m m' : Model α) (s : Strat α)
    (hsw : stratifyWith m s = .ok m') (hfa : s.flowAdj = []) (hmix : s.mixing = none)
    (hstrain : s.kind ≠ .strain)
    (hfresh : freshFor m.comps s = true) (hnd : m.comps.Nodup) (hst : s.strata.Nodup)
    (d d' : RunData α) (hrows : ∀ row ∈ d'.outputs, row.length = m'.comps.length)
    (hd : d.outputs = d'.outputs.map (Spec.agg m.comps s))
    (names : List String) (flt : Strata) (hflt : ∀ kv ∈ flt, kv.1 ≠ s.name)
    (done done' : List (String × List α)) :
    ∃ ser ser', evalRequest m' d' done' (.comp names flt) = some ser' ∧
      evalRequest m d done (.comp names flt) = some ser ∧ ser' = ser :=
  derived_agg_comp_filter m m' s hfresh hnd hst
    (Summer.C03.stratified_model_shape m m' s hsw hfa hmix hstrain hfresh).1 d d' hrows hd names flt hflt done done'

/-! ## B. flow outputs -/

/-- **flow_output_agg_row**: selection by name only.  The flows of `m'` are the copies of the flows of
`m` (in order) followed by extra flows none of which carries the requested name; the rows of flow rates
are given as functions of the flow, and the rates of the copies of every parent add up to the parent's
rate.  Then the raw flow output is the same on both sides.  (No hypothesis on the compartments.) -/
theorem flow_output_agg_row (m m' : Model α) (s : Strat α) (extra : List (Flow α)) (name : String)
    (hflows : m'.flows = m.flows.flatMap (Spec.copiesA s) ++ extra)
    (hextraName : ∀ g ∈ extra, g.name ≠ name) (R R' : Flow α → α)
    (hsum : ∀ f ∈ m.flows, sumL ((Spec.copiesA s f).map R') = R f) :
    flowOutputAt m' name [] [] (m'.flows.map R') = flowOutputAt m name [] [] (m.flows.map R) :=
  AggregateMoreDerived.flow_output_agg_row extra name hflows hextraName R R' hsum

/-- **flow_output_agg_row_filter**: source and destination filters over the OLD stratifications (no key
equal to `s.name`) are allowed as soon as `s.name` is a new strata key for the compartments of `m` and
the ends of the flows of `m` are compartments of `m`. -/
theorem flow_output_agg_row_filter (m m' : Model α) (s : Strat α) (hfresh : freshFor m.comps s = true)
    (extra : List (Flow α)) (name : String) (ss ds : Strata)
    (hss : ∀ kv ∈ ss, kv.1 ≠ s.name) (hds : ∀ kv ∈ ds, kv.1 ≠ s.name)
    (hflows : m'.flows = m.flows.flatMap (Spec.copiesA s) ++ extra)
    (hextraName : ∀ g ∈ extra, g.name ≠ name)
    (hends : ∀ f ∈ m.flows, (∀ c, f.src = some c → c ∈ m.comps) ∧ (∀ c, f.dst = some c → c ∈ m.comps))
    (R R' : Flow α → α)
    (hsum : ∀ f ∈ m.flows, sumL ((Spec.copiesA s f).map R') = R f) :
    flowOutputAt m' name ss ds (m'.flows.map R') = flowOutputAt m name ss ds (m.flows.map R) :=
  AggregateMoreDerived.flow_output_agg_row_filter hfresh extra name ss ds hss hds hflows hextraName hends R R' hsum

/-- **derived_agg_flow_filter.**  Run data `d'` for `m'` and `d` for `m` with the same number of
flow-rate rows; row `i` of `d'` is `m'.flows.map R'`, row `i` of `d` is `m.flows.map R`, and the rates
`R'` of the copies of every flow of `m` add up to its rate `R` (functions `R`, `R'` may depend on `i`).
Then the flow request `name` with filters over the old stratifications, raw or not (`raw = false`: the
midpoint series), is defined on both sides and gives the same series. -/
theorem derived_agg_flow_filter (m m' : Model α) (s : Strat α) (hfresh : freshFor m.comps s = true)
    (extra : List (Flow α)) (name : String) (ss ds : Strata)
    (hss : ∀ kv ∈ ss, kv.1 ≠ s.name) (hds : ∀ kv ∈ ds, kv.1 ≠ s.name)
    (hflows : m'.flows = m.flows.flatMap (Spec.copiesA s) ++ extra)
    (hextraName : ∀ g ∈ extra, g.name ≠ name)
    (hends : ∀ f ∈ m.flows, (∀ c, f.src = some c → c ∈ m.comps) ∧ (∀ c, f.dst = some c → c ∈ m.comps))
    (d d' : RunData α) (hlen : d.flows.length = d'.flows.length)
    (hrows : ∀ i, i < d'.flows.length → ∃ R R' : Flow α → α,
      d'.flows.getD i [] = m'.flows.map R' ∧ d.flows.getD i [] = m.flows.map R ∧
      ∀ f ∈ m.flows, sumL ((Spec.copiesA s f).map R') = R f)
    (done done' : List (String × List α)) (raw : Bool) :
    ∃ ser ser', evalRequest m' d' done' (.flow name ss ds raw) = some ser' ∧
      evalRequest m d done (.flow name ss ds raw) = some ser ∧ ser' = ser := by
  refine AggregateMoreDerived.flow_series_eq m m' d d' done done' name ss ds hlen (fun i hi => ?_) raw
  obtain ⟨R, R', h1, h2, h3⟩ := hrows i hi
  rw [h1, h2]
  exact flow_output_agg_row_filter m m' s hfresh extra name ss ds hss hds hflows hextraName hends R R' h3

/-- **derived_agg_flow**: flow outputs selected by name (empty filters), raw (`raw = true`) or midpoint
(`raw = false`).  No hypothesis on the compartments. -/
theorem derived_agg_flow (m m' : Model α) (s : Strat α) (extra : List (Flow α)) (name : String)
    (hflows : m'.flows = m.flows.flatMap (Spec.copiesA s) ++ extra)
    (hextraName : ∀ g ∈ extra, g.name ≠ name)
    (d d' : RunData α) (hlen : d.flows.length = d'.flows.length)
    (hrows : ∀ i, i < d'.flows.length → ∃ R R' : Flow α → α,
      d'.flows.getD i [] = m'.flows.map R' ∧ d.flows.getD i [] = m.flows.map R ∧
      ∀ f ∈ m.flows, sumL ((Spec.copiesA s f).map R') = R f)
    (done done' : List (String × List α)) (raw : Bool) :
    ∃ ser ser', evalRequest m' d' done' (.flow name [] [] raw) = some ser' ∧
      evalRequest m d done (.flow name [] [] raw) = some ser ∧ ser' = ser := by
  refine AggregateMoreDerived.flow_series_eq m m' d d' done done' name [] [] hlen (fun i hi => ?_) raw
  obtain ⟨R, R', h1, h2, h3⟩ := hrows i hi
  rw [h1, h2]
  exact flow_output_agg_row m m' s extra name hflows hextraName R R' h3

/-- The same from `stratifyWith m s = .ok m'`: the extra flows are the ageing flows of an age
stratification, all called `"ageing_…"`; so it suffices that the requested name does not start with
`"ageing_"` when `s` is an age stratification (`not_ageing_of_toList` gives a decidable criterion). -/
theorem derived_agg_flow_of_stratifyWith (m m' : Model α) (s : Strat α)
    (hsw : stratifyWith m s = .ok m') (hfa : s.flowAdj = []) (hmix : s.mixing = none)
    (hstrain : s.kind ≠ .strain) (hfresh : freshFor m.comps s = true)
    (name : String) (hname : s.kind = .age → ∀ t, name ≠ "ageing_" ++ t)
    (d d' : RunData α) (hlen : d.flows.length = d'.flows.length)
    (hrows : ∀ i, i < d'.flows.length → ∃ R R' : Flow α → α,
      d'.flows.getD i [] = m'.flows.map R' ∧ d.flows.getD i [] = m.flows.map R ∧
      ∀ f ∈ m.flows, sumL ((Spec.copiesA s f).map R') = R f)
    (done done' : List (String × List α)) (raw : Bool) :
    ∃ ser ser', evalRequest m' d' done' (.flow name [] [] raw) = some ser' ∧
      evalRequest m d done (.flow name [] [] raw) = some ser ∧ ser' = ser := by
  obtain ⟨_, extra, hflows, _, hnames, hnil⟩ := AggregateMoreDerived.stratifyWith_shape_names m m' s hsw hfa hmix hstrain hfresh
  exact derived_agg_flow m m' s extra name hflows (AggregateMoreDerived.extra_name_ne s extra name hnames hnil hname) d d' hlen hrows
    done done' raw

/-- the shape of the stratified model (`C03.stratified_model_shape`) with, in addition, the names of
the extra flows: they all start with `"ageing_"` -/
theorem stratified_model_shape_names (m m' : Model α) (s : Strat α) (hsw : stratifyWith m s = .ok m')
    (hfa : s.flowAdj = []) (hmix : s.mixing = none) (hstrain : s.kind ≠ .strain)
    (hfresh : freshFor m.comps s = true) :
    m'.comps = stratifyComps m.comps s ∧ ∃ extra, m'.flows = m.flows.flatMap (Spec.copiesA s) ++ extra ∧
      (∀ g ∈ extra, g.kind = .transition ∧ ∃ c0 ∈ m.comps, ∃ a b,
        g.src = some (c0.stratify s.name a) ∧ g.dst = some (c0.stratify s.name b)) ∧
      (∀ g ∈ extra, ∃ t, g.name = "ageing_" ++ t) ∧
      (s.kind ≠ .age → extra = []) :=
  AggregateMoreDerived.stratifyWith_shape_names m m' s hsw hfa hmix hstrain hfresh

/-! ## C. the runner's flow rates -/

/-- **flow_rates_agg.**  In the setting of `C03.rates_agg_partial` (stratified model `m'` of `m`,
backends from `prepare`, realised weights evaluated in one environment, multipliers given as functions
of the flow with every copy of an infection flow seeing its parent's multiplier), the runner's flow
rates of `m'` at `x'` and of `m` at `agg x'` are functions `R'`, `R` of the flow, and the rates of the
copies of every flow of `m` add up to its rate. -/
theorem flow_rates_agg (m m' : Model α) (s : Strat α) (b b' : Backend)
    (hsw : stratifyWith m s = .ok m') (hb : prepare m = .ok b) (hb' : prepare m' = .ok b')
    (hfa : s.flowAdj = []) (hmix : s.mixing = none) (hstrain : s.kind ≠ .strain)
    (hage : s.kind = .age → "0" ∈ s.strata)
    (hfresh : freshFor m.comps s = true) (hnd : m.comps.Nodup) (hst : s.strata.Nodup) (hne : s.strata ≠ [])
    (hs : sourcedOk m = true)
    (env : Env α) (w w' : List α)
    (hw : m.flows.mapM (fun f => (realised f).eval env) = some w)
    (hw' : m'.flows.mapM (fun f => (realised f).eval env) = some w')
    (x' : List α) (hx : x'.length = m'.comps.length) (mults mults' : List α) (M M' : Flow α → α)
    (hM : ∀ i (hi : i < m.flows.length), isInfection m.flows[i].kind = true →
      mults.getD (infPos m i) 1 = M m.flows[i])
    (hM' : ∀ i (hi : i < m'.flows.length), isInfection m'.flows[i].kind = true →
      mults'.getD (infPos m' i) 1 = M' m'.flows[i])
    (hMM : ∀ f ∈ m.flows, isInfection f.kind = true → ∀ g ∈ Spec.copiesA s f, M' g = M f) :
    ∃ R R' : Flow α → α,
      flowRates b' w' x' mults' = m'.flows.map R' ∧
      flowRates b w (Spec.agg m.comps s x') mults = m.flows.map R ∧
      ∀ f ∈ m.flows, sumL ((Spec.copiesA s f).map R') = R f := by
  rw [mapM_eval_eq_map env _ _ hw, mapM_eval_eq_map env _ _ hw']
  have hn : (s.strata.length : α) ≠ 0 := by
    have : s.strata.length ≠ 0 := fun e => hne (List.length_eq_zero_iff.1 e)
    exact_mod_cast this
  obtain ⟨hcomps, extra, hflows, hextra, _⟩ := stratifyWith_shape m m' s hsw hfa hmix hstrain hfresh
  exact AggregateMoreDerived.flow_rates_agg ⟨hfresh, hnd, hst⟩ hn hstrain hage extra hcomps hflows hextra
    (backendFor_of_prepare m b hb) (backendFor_of_prepare m' b' hb') hs x' hx env mults mults' M M' hM hM' hMM

/-- **flow_output_agg_filter** (B and C combined).  In the setting of `flow_rates_agg`, the flow output
`name` with source / destination filters over the old stratifications, read off the runner's flow rates
of `m'` at `x'`, is the one read off the runner's flow rates of `m` at `agg x'` — provided, for an age
stratification, the requested name does not start with `"ageing_"`. -/
theorem flow_output_agg_filter (m m' : Model α) (s : Strat α) (b b' : Backend)
    (hsw : stratifyWith m s = .ok m') (hb : prepare m = .ok b) (hb' : prepare m' = .ok b')
    (hfa : s.flowAdj = []) (hmix : s.mixing = none) (hstrain : s.kind ≠ .strain)
    (hage : s.kind = .age → "0" ∈ s.strata)
    (hfresh : freshFor m.comps s = true) (hnd : m.comps.Nodup) (hst : s.strata.Nodup) (hne : s.strata ≠ [])
    (hs : sourcedOk m = true)
    (env : Env α) (w w' : List α)
    (hw : m.flows.mapM (fun f => (realised f).eval env) = some w)
    (hw' : m'.flows.mapM (fun f => (realised f).eval env) = some w')
    (x' : List α) (hx : x'.length = m'.comps.length) (mults mults' : List α) (M M' : Flow α → α)
    (hM : ∀ i (hi : i < m.flows.length), isInfection m.flows[i].kind = true →
      mults.getD (infPos m i) 1 = M m.flows[i])
    (hM' : ∀ i (hi : i < m'.flows.length), isInfection m'.flows[i].kind = true →
      mults'.getD (infPos m' i) 1 = M' m'.flows[i])
    (hMM : ∀ f ∈ m.flows, isInfection f.kind = true → ∀ g ∈ Spec.copiesA s f, M' g = M f)
    (name : String) (hname : s.kind = .age → ∀ t, name ≠ "ageing_" ++ t)
    (ss ds : Strata) (hss : ∀ kv ∈ ss, kv.1 ≠ s.name) (hds : ∀ kv ∈ ds, kv.1 ≠ s.name) :
    flowOutputAt m' name ss ds (flowRates b' w' x' mults')
      = flowOutputAt m name ss ds (flowRates b w (Spec.agg m.comps s x') mults) := by
  rw [mapM_eval_eq_map env _ _ hw, mapM_eval_eq_map env _ _ hw']
  have hn : (s.strata.length : α) ≠ 0 := by
    have : s.strata.length ≠ 0 := fun e => hne (List.length_eq_zero_iff.1 e)
    exact_mod_cast this
  obtain ⟨hcomps, extra, hflows, hextra, hnames, hnil⟩ := AggregateMoreDerived.stratifyWith_shape_names m m' s hsw hfa hmix hstrain hfresh
  exact AggregateMoreDerived.flow_output_agg ⟨hfresh, hnd, hst⟩ hn hstrain hage extra hcomps hflows hextra
    (backendFor_of_prepare m b hb) (backendFor_of_prepare m' b' hb') hs x' hx env mults mults' M M' hM hM' hMM
    name ss ds hss hds (AggregateMoreDerived.extra_name_ne s extra name hnames hnil hname)

/-- **flow_output_agg**: selection by name only. -/
theorem flow_output_agg (m m' : Model α) (s : Strat α) (b b' : Backend)
    (hsw : stratifyWith m s = .ok m') (hb : prepare m = .ok b) (hb' : prepare m' = .ok b')
    (hfa : s.flowAdj = []) (hmix : s.mixing = none) (hstrain : s.kind ≠ .strain)
    (hage : s.kind = .age → "0" ∈ s.strata)
    (hfresh : freshFor m.comps s = true) (hnd : m.comps.Nodup) (hst : s.strata.Nodup) (hne : s.strata ≠ [])
    (hs : sourcedOk m = true)
    (env : Env α) (w w' : List α)
    (hw : m.flows.mapM (fun f => (realised f).eval env) = some w)
    (hw' : m'.flows.mapM (fun f => (realised f).eval env) = some w')
    (x' : List α) (hx : x'.length = m'.comps.length) (mults mults' : List α) (M M' : Flow α → α)
    (hM : ∀ i (hi : i < m.flows.length), isInfection m.flows[i].kind = true →
      mults.getD (infPos m i) 1 = M m.flows[i])
    (hM' : ∀ i (hi : i < m'.flows.length), isInfection m'.flows[i].kind = true →
      mults'.getD (infPos m' i) 1 = M' m'.flows[i])
    (hMM : ∀ f ∈ m.flows, isInfection f.kind = true → ∀ g ∈ Spec.copiesA s f, M' g = M f)
    (name : String) (hname : s.kind = .age → ∀ t, name ≠ "ageing_" ++ t) :
    flowOutputAt m' name [] [] (flowRates b' w' x' mults')
      = flowOutputAt m name [] [] (flowRates b w (Spec.agg m.comps s x') mults) :=
  flow_output_agg_filter m m' s b b' hsw hb hb' hfa hmix hstrain hage hfresh hnd hst hne hs env w w' hw hw' x' hx
    mults mults' M M' hM hM' hMM name hname [] [] (fun _ h => by cases h) (fun _ h => by cases h)

/-- a decidable criterion for the hypothesis on the requested flow name -/
theorem not_ageing_of_toList (name : String) (h : "ageing_".toList.isPrefixOf name.toList = false) :
    ∀ t, name ≠ "ageing_" ++ t :=
  AggregateMoreDerived.not_ageing_of_toList name h

/-! ## non-vacuity: the SIR model of `C03`, stratified by location, then by risk, on `Rat` -/
section example_
open Summer.C03

example : stratifyWith sirModel locStrat = .ok sirLoc ∧ prepare sirLoc = .ok sirLocB ∧ prepare sirModel = .ok sirB :=
  ⟨by rfl, by rfl, by rfl⟩

/-- two output rows of the location-stratified model (`S×3, I×3, R`) and their aggregates -/
def dLoc : RunData Rat := ⟨[0, 1], [xl, [1, 2, 3, 4, 5, 6, 7]], [], [], []⟩
def dAgg : RunData Rat := { dLoc with outputs := dLoc.outputs.map (Spec.agg sirModel.comps locStrat), times := [5] }

/-- A: the request `comp ["I"] []` gives `[2 + 3 + 5, 4 + 5 + 6]` on both sides -/
example : ∃ ser ser', evalRequest sirLoc dLoc [("x", [1])] (.comp ["I"] []) = some ser' ∧
    evalRequest sirModel dAgg [] (.comp ["I"] []) = some ser ∧ ser' = ser :=
  derived_agg_comp sirModel sirLoc locStrat (by decide) (by decide) (by decide) (by rfl) dAgg dLoc
    (by decide) rfl ["I"] [] [("x", [1])]
example : evalRequest sirLoc dLoc [] (.comp ["I"] []) = some [10, 15] ∧
    evalRequest sirModel dAgg [] (.comp ["I"] []) = some [10, 15] ∧
    dAgg.outputs = [[90, 10, 0], [6, 15, 7]] := by decide +kernel
example := derived_agg_comp_of_stratifyWith sirModel sirLoc locStrat (by rfl) rfl rfl (by decide) (by decide)
  (by decide) (by decide) dAgg dLoc (by decide) rfl ["S", "I"] [] (by decide) [] []

/-- a filter that mentions the NEW stratification does not aggregate: the parent model has no such stratum -/
example : compOutputAt sirLoc ["I"] [("loc", "urban")] xl = 2 ∧
    compOutputAt sirModel ["I"] [("loc", "urban")] (Spec.agg sirModel.comps locStrat xl) = 0 := by decide +kernel

/-- a second stratification (of `I` by risk) on top of the first: filters over `loc` are now filters
over an OLD stratification -/
def riskStrat : Strat Rat :=
  { kind := .plain, name := "risk", strata := ["hi", "lo"], comps := ["I"],
    split := [("hi", .const (1/2)), ("lo", .const (1/2))], flowAdj := [], infAdj := [], mixing := none }
def sirLocRisk : Model Rat := getOk sirLoc (stratifyWith sirLoc riskStrat)
def sirLocRiskB : Backend := getOk noBackend (prepare sirLocRisk)
/-- a state of the doubly stratified model (`S×3, I×3×2, R`); its aggregate over risk is `xl` -/
def xr : List Rat := [50, 30, 10, 1, 1, 2, 1, 3, 2, 0]
def multsR : List Rat := (infectiousMultipliers sirLocRiskB xr [[1]] [1, 1, 1, 1, 1, 1, 1, 1, 1, 1]).1

example : stratifyWith sirLoc riskStrat = .ok sirLocRisk ∧ prepare sirLocRisk = .ok sirLocRiskB :=
  ⟨by rfl, by rfl⟩

/-- A with a filter over the old stratification: urban `S` and `I` -/
example : compOutputAt sirLocRisk ["S", "I"] [("loc", "urban")] xr
    = compOutputAt sirLoc ["S", "I"] [("loc", "urban")] (Spec.agg sirLoc.comps riskStrat xr) :=
  comp_output_agg_row_filter sirLoc sirLocRisk riskStrat (by decide) (by decide) (by decide) (by rfl)
    ["S", "I"] [("loc", "urban")] (by decide) xr (by decide)
example : compOutputAt sirLocRisk ["S", "I"] [("loc", "urban")] xr = 52 ∧
    Spec.agg sirLoc.comps riskStrat xr = xl ∧
    compOutputAt sirLoc ["S", "I"] [("loc", "urban")] xl = 52 := by decide +kernel

/-- B / C: the `"infection"` flow of the location-stratified model (3 copies) with the runner's own flow
rates and multipliers (all equal to the force of infection `1/10`) -/
example : flowOutputAt sirLoc "infection" [] [] (flowRates sirLocB [2, 2, 2, 1/2, 1/2, 1/2] xl multsL)
    = flowOutputAt sirModel "infection" [] [] (flowRates sirB [2, 1/2] (Spec.agg sirModel.comps locStrat xl) mults0) :=
  flow_output_agg sirModel sirLoc locStrat sirB sirLocB (by rfl) (by rfl) (by rfl) rfl rfl (by decide) (by decide)
    (by decide) (by decide) (by decide) (by decide) (by decide) env0 _ _ (by decide +kernel) (by decide +kernel)
    xl (by decide) mults0 multsL (fun _ => 1/10) (fun _ => 1/10) (by decide +kernel) (by decide +kernel)
    (fun _ _ _ _ _ => rfl) "infection" (fun _ => not_ageing_of_toList _ (by decide))
/-- the three copies' rates, their sum, and the parent's rate at the aggregated state -/
example : flowRates sirLocB [2, 2, 2, 1/2, 1/2, 1/2] xl multsL = [10, 6, 2, 1, 3/2, 5/2] ∧
    flowOutputAt sirLoc "infection" [] [] [10, 6, 2, 1, 3/2, 5/2] = 18 ∧
    flowRates sirB [2, 1/2] (Spec.agg sirModel.comps locStrat xl) mults0 = [18, 5] ∧
    flowOutputAt sirModel "infection" [] [] [18, 5] = 18 := by decide +kernel

/-- `flow_rates_agg`: the hypotheses are satisfiable -/
example := flow_rates_agg sirModel sirLoc locStrat sirB sirLocB (by rfl) (by rfl) (by rfl) rfl rfl (by decide)
  (by decide) (by decide) (by decide) (by decide) (by decide) (by decide) env0 [2, 1/2] [2, 2, 2, 1/2, 1/2, 1/2]
  (by decide +kernel) (by decide +kernel) xl (by decide) mults0 multsL (fun _ => 1/10) (fun _ => 1/10) (by decide +kernel)
  (by decide +kernel) (fun _ _ _ _ _ => rfl)

/-- with filters over the old stratification, on the doubly stratified model: recovery out of rural
`I`, infection into rural `I` (the latter are copies with a `1/2` share each) -/
example : flowOutputAt sirLocRisk "infection" [] [("loc", "rural")]
      (flowRates sirLocRiskB [1, 1, 1, 1, 1, 1, 1/2, 1/2, 1/2, 1/2, 1/2, 1/2] xr multsR)
    = flowOutputAt sirLoc "infection" [] [("loc", "rural")]
      (flowRates sirLocB [2, 2, 2, 1/2, 1/2, 1/2] (Spec.agg sirLoc.comps riskStrat xr) multsL) :=
  flow_output_agg_filter sirLoc sirLocRisk riskStrat sirLocB sirLocRiskB (by rfl) (by rfl) (by rfl) rfl rfl
    (by decide) (by decide) (by decide) (by decide) (by decide) (by decide) (by decide) env0 _ _
    (by decide +kernel) (by decide +kernel) xr (by decide) multsL multsR (fun _ => 1/10) (fun _ => 1/10)
    (by decide +kernel) (by decide +kernel) (fun _ _ _ _ _ => rfl) "infection" (fun _ => not_ageing_of_toList _ (by decide))
    [] [("loc", "rural")] (by decide) (by decide)
example : flowRates sirLocRiskB [1, 1, 1, 1, 1, 1, 1/2, 1/2, 1/2, 1/2, 1/2, 1/2] xr multsR
      = [5, 5, 3, 3, 1, 1, 1/2, 1/2, 1, 1/2, 3/2, 1] ∧
    flowOutputAt sirLocRisk "infection" [] [("loc", "rural")] [5, 5, 3, 3, 1, 1, 1/2, 1/2, 1, 1/2, 3/2, 1] = 6 ∧
    flowOutputAt sirLocRisk "recovery" [("loc", "rural")] [] [5, 5, 3, 3, 1, 1, 1/2, 1/2, 1, 1/2, 3/2, 1] = 3/2 ∧
    flowOutputAt sirLoc "infection" [] [("loc", "rural")] [10, 6, 2, 1, 3/2, 5/2] = 6 ∧
    flowOutputAt sirLoc "recovery" [("loc", "rural")] [] [10, 6, 2, 1, 3/2, 5/2] = 3/2 := by decide +kernel

/-- series: two rows of the runner's flow rates (at `xl` and at `2·xl` with the same multipliers), raw and
midpoint -/
def xl2 : List Rat := [100, 60, 20, 4, 6, 10, 0]
def dLocF : RunData Rat :=
  ⟨[0, 1], [], [flowRates sirLocB [2, 2, 2, 1/2, 1/2, 1/2] xl multsL,
                 flowRates sirLocB [2, 2, 2, 1/2, 1/2, 1/2] xl2 multsL], [], []⟩
def dAggF : RunData Rat :=
  ⟨[0, 1], [], [flowRates sirB [2, 1/2] (Spec.agg sirModel.comps locStrat xl) mults0,
                 flowRates sirB [2, 1/2] (Spec.agg sirModel.comps locStrat xl2) mults0], [], []⟩

example (raw : Bool) : ∃ ser ser', evalRequest sirLoc dLocF [] (.flow "infection" [] [] raw) = some ser' ∧
    evalRequest sirModel dAggF [] (.flow "infection" [] [] raw) = some ser ∧ ser' = ser := by
  refine derived_agg_flow_of_stratifyWith sirModel sirLoc locStrat (by rfl) rfl rfl (by decide) (by decide)
    "infection" (fun _ => not_ageing_of_toList _ (by decide)) dAggF dLocF rfl ?_ [] [] raw
  have key : ∀ x' : List Rat, x'.length = sirLoc.comps.length → ∃ R R' : Flow Rat → Rat,
      flowRates sirLocB [2, 2, 2, 1/2, 1/2, 1/2] x' multsL = sirLoc.flows.map R' ∧
      flowRates sirB [2, 1/2] (Spec.agg sirModel.comps locStrat x') mults0 = sirModel.flows.map R ∧
      ∀ f ∈ sirModel.flows, sumL ((Spec.copiesA locStrat f).map R') = R f := fun x' hx' =>
    flow_rates_agg sirModel sirLoc locStrat sirB sirLocB (by rfl) (by rfl) (by rfl) rfl rfl (by decide)
      (by decide) (by decide) (by decide) (by decide) (by decide) (by decide) env0 _ _ (by decide +kernel)
      (by decide +kernel) x' hx' mults0 multsL (fun _ => 1/10) (fun _ => 1/10) (by decide +kernel)
      (by decide +kernel) (fun _ _ _ _ _ => rfl)
  intro i hi
  have hi2 : i < 2 := hi
  match i, hi2 with
  | 0, _ => exact key xl (by decide)
  | 1, _ => exact key xl2 (by decide)
example : evalRequest sirLoc dLocF [] (.flow "infection" [] [] true) = some [18, 36] ∧
    evalRequest sirModel dAggF [] (.flow "infection" [] [] true) = some [18, 36] ∧
    evalRequest sirLoc dLocF [] (.flow "infection" [] [] false) = some [18, 27] ∧
    evalRequest sirModel dAggF [] (.flow "infection" [] [] false) = some [18, 27] := by decide +kernel

/-- an AGE stratification (`C03.ageModel`: 24 copies followed by 6 ageing flows): the ageing flows are not
called `"recovery"`, and the rates of the documented rate law (`C03.copies_rate_sum`) add up -/
example : flowOutputAt ageModel "recovery" [] []
      (ageModel.flows.map (fun g => Spec.rateLaw (stratifyComps exModel.comps ageStrat) x1 0 (weightVal env0 g) g))
    = flowOutputAt exModel "recovery" [] []
      (exModel.flows.map (fun f => Spec.rateLaw exModel.comps (Spec.agg exModel.comps ageStrat x1) 0 (weightVal env0 f) f)) :=
  flow_output_agg_row exModel ageModel ageStrat ageExtra "recovery" rfl (by decide +kernel) _ _
    (fun f hf => Summer.C03.copies_rate_sum exModel.comps ageStrat (by decide) (by decide) (by decide) (by decide)
      (by decide) (by decide) x1 (by decide) f
      (ends_of_backendFor (backendFor_of_prepare exModel exB (by rfl)) f hf).1 0 env0)
example : ageExtra.map (·.name) = ["ageing_SXage_0_to_SXage_5", "ageing_IXage_0_to_IXage_5", "ageing_RXage_0_to_RXage_5",
      "ageing_SXage_5_to_SXage_15", "ageing_IXage_5_to_IXage_15", "ageing_RXage_5_to_RXage_15"] ∧
    flowOutputAt ageModel "recovery" [] []
      (ageModel.flows.map (fun g => Spec.rateLaw (stratifyComps exModel.comps ageStrat) x1 0 (weightVal env0 g) g)) = 9 ∧
    flowOutputAt ageModel "ageing_IXage_0_to_IXage_5" [] []
      (ageModel.flows.map (fun g => Spec.rateLaw (stratifyComps exModel.comps ageStrat) x1 0 (weightVal env0 g) g)) = 1 := by
  decide +kernel

/-- the criterion on the flow name -/
example : ∀ t, "infection" ≠ "ageing_" ++ t := not_ageing_of_toList _ (by decide)

end example_

end part3_derived

/-! # PART 4 — proportionate mixing -/
section part4_mixing

/-
C03 (continued) — "proportionate mixing": a FULL stratification with a population-proportional mixing
matrix does not change the force of infection.

An unstratified model (one mixing category) has infectious compartments with values `iv` and
infectiousness `inf`, total population `N`; its infected population is `P = Σ_c iv_c · inf_c`
(`sumL (vmul iv inf)`), its density-dependent force of infection is `P`, its frequency-dependent one `P / N`.

Stratify ALL compartments into `n` strata with population split `p`, no infectiousness adjustment, at a
state that is split by `p`.  In the order in which `stratifyComps` / `stratifyValues` write the children
(compartment-major, `value * proportion`) and with the tables that `prepare` computes, the stratified
model has, for its one strain,
  * `iv'  = iv.flatMap (fun v => p.map (fun q => v * q))`           (child `j` of `c` holds `iv_c · p_j`)
  * `inf' = inf.flatMap (fun a => List.replicate n a)`              (children inherit the infectiousness)
  * `ci'  = (List.range n).map (fun j => (List.range k).map (fun c => c * n + j))`   (category `j` = `j`-th children)
  * `catPops' = p.map (fun q => N * q)`.
Then with the mixing matrix `M[i][j] = p_j` (every row equal to `p`) the frequency-dependent force of
infection of EVERY category is `P / N`, and with the all-ones matrix the density-dependent force of
infection of every category is `P`.

No bound on the number of compartments or strata.  Hypotheses that turned out NOT to be needed and are
therefore absent: `inf.length = iv.length` (`vmul` truncates, and reads past the end are `0` on both
sides); `N ≠ 0` (`x / 0 = 0` on both sides); `p_j > 0` or even `p_j ≠ 0` (an empty stratum contributes
`0 · (0/0) = 0 = 0 · (P/N)`); the order of the field (everything is stated for an arbitrary field, in
particular for every ordered field).  The only hypothesis is `Σ p = 1`.
-/

open Summer Summer.Build Summer.Run Summer.Spec Summer.Proofs

/-- The infected population of category `j` of the stratified model is `P · p_j`. -/
theorem category_infected_split {α : Type} [Field α] (iv inf p : List α) :
    let k := iv.length
    let n := p.length
    let iv' := iv.flatMap (fun v => p.map (fun q => v * q))
    let inf' := inf.flatMap (fun a => List.replicate n a)
    let ci' := (List.range n).map (fun j => (List.range k).map (fun c => c * n + j))
    ∀ j, j < n →
      sumL (gather (vmul iv' inf') (ci'.getD j [])) = sumL (vmul iv inf) * p.getD j 0 := by
  intro k n iv' inf' ci' j hj
  exact AggregateMoreMixing.category_infected_split iv inf p j hj

/-- The unstratified model: one category holding all `k` infectious compartments, mixing matrix `[[1]]`,
population `N`: density-dependent force `P`, frequency-dependent force `P / N`. -/
theorem unstratified_foi {α : Type} [Field α] (iv inf : List α) (N : α) :
    forceOfInfection iv inf [List.range iv.length] [[1]] [N]
      = ([sumL (vmul iv inf)], [sumL (vmul iv inf) / N]) := by
  have hl := AggregateMoreMixing.length_foi iv inf [List.range iv.length] [[1]] [N]
  have hv := AggregateMoreMixing.foi_unstratified iv inf N
  generalize forceOfInfection iv inf [List.range iv.length] [[1]] [N] = r at hl hv
  obtain ⟨d, f⟩ := r
  obtain ⟨hl1, hl2⟩ := hl
  obtain ⟨hv1, hv2⟩ := hv
  match d, f, hl1, hl2, hv1, hv2 with
  | [a], [b], _, _, hv1, hv2 =>
    simp only [List.getD_cons_zero] at hv1 hv2
    rw [hv1, hv2]

/-- **Proportionate mixing, frequency-dependent transmission.**  With mixing matrix `M[i][j] = p_j`,
`Σ p = 1`, at a state split by `p`: the stratified model has one force of infection per
category (`n` of them) and each equals that of the unstratified model, `P / N`. -/
theorem proportionate_mixing {α : Type} [Field α] (iv inf p : List α) (N : α) (hsum : sumL p = 1) :
    let k := iv.length
    let n := p.length
    let iv' := iv.flatMap (fun v => p.map (fun q => v * q))
    let inf' := inf.flatMap (fun a => List.replicate n a)
    let ci' := (List.range n).map (fun j => (List.range k).map (fun c => c * n + j))
    let catPops' := p.map (fun q => N * q)
    (forceOfInfection iv' inf' ci' (List.replicate n p) catPops').2.length = n ∧
    ∀ i, i < n →
      (forceOfInfection iv' inf' ci' (List.replicate n p) catPops').2.getD i 0
          = (forceOfInfection iv inf [List.range k] [[1]] [N]).2.getD 0 0 ∧
      (forceOfInfection iv inf [List.range k] [[1]] [N]).2.getD 0 0 = sumL (vmul iv inf) / N := by
  intro k n iv' inf' ci' catPops'
  refine ⟨?_, fun i hi => ?_⟩
  · rw [(AggregateMoreMixing.length_foi _ _ _ _ _).2, List.length_replicate]
  · have h0 := (AggregateMoreMixing.foi_unstratified iv inf N).2
    exact ⟨(AggregateMoreMixing.foi_frequency_split iv inf p N hsum i hi).trans h0.symm, h0⟩

/-- **Proportionate mixing, density-dependent transmission.**  With the ALL-ONES mixing matrix and
`Σ p = 1` (no sign or non-zero condition on `p`, any category populations `cp`), at a state split by `p`:
each of the `n` density-dependent forces of infection equals that of the unstratified model, `P`. -/
theorem proportionate_mixing_density {α : Type} [Field α] (iv inf p cp : List α) (N : α)
    (hsum : sumL p = 1) :
    let k := iv.length
    let n := p.length
    let iv' := iv.flatMap (fun v => p.map (fun q => v * q))
    let inf' := inf.flatMap (fun a => List.replicate n a)
    let ci' := (List.range n).map (fun j => (List.range k).map (fun c => c * n + j))
    (forceOfInfection iv' inf' ci' (List.replicate n (List.replicate n 1)) cp).1.length = n ∧
    ∀ i, i < n →
      (forceOfInfection iv' inf' ci' (List.replicate n (List.replicate n 1)) cp).1.getD i 0
          = (forceOfInfection iv inf [List.range k] [[1]] [N]).1.getD 0 0 ∧
      (forceOfInfection iv inf [List.range k] [[1]] [N]).1.getD 0 0 = sumL (vmul iv inf) := by
  intro k n iv' inf' ci'
  refine ⟨?_, fun i hi => ?_⟩
  · rw [(AggregateMoreMixing.length_foi _ _ _ _ _).1, List.length_replicate]
  · have h0 := (AggregateMoreMixing.foi_unstratified iv inf N).1
    exact ⟨(AggregateMoreMixing.foi_density_split iv inf p cp hsum i hi).trans h0.symm, h0⟩

/-- With matrix rows `p` (instead of all ones) the density-dependent force of infection at the split
state is `(Σ_j p_j²) · P` — so the density analogue of `proportionate_mixing` needs the all-ones matrix. -/
theorem density_with_rows_p {α : Type} [Field α] (iv inf p cp : List α) :
    let k := iv.length
    let n := p.length
    let iv' := iv.flatMap (fun v => p.map (fun q => v * q))
    let inf' := inf.flatMap (fun a => List.replicate n a)
    let ci' := (List.range n).map (fun j => (List.range k).map (fun c => c * n + j))
    ∀ i, i < n →
      (forceOfInfection iv' inf' ci' (List.replicate n p) cp).1.getD i 0
        = sumL (p.map (fun q => q * q)) * sumL (vmul iv inf) := by
  intro k n iv' inf' ci' i hi
  exact AggregateMoreMixing.foi_density_rows_split iv inf p cp i hi

/-- The general fact behind `proportionate_mixing` (stronger: ANY state, ANY category indexer with `n`
categories, `Σ p = 1` not needed): if every row of the mixing matrix is `p` (no zero entry) and the
CATEGORY POPULATIONS are `N · p_j`, the frequency-dependent force of infection of every category is the
total infected population over `N`.  So what cannot be dropped is that the category populations are
proportional to `p`; how the infected are distributed over the categories does not matter. -/
theorem proportionate_mixing_of_category_pops {α : Type} [Field α] (infVals infness : List α)
    (ci : List (List Nat)) (p : List α) (N : α) (hlen : ci.length = p.length) (hp : ∀ q ∈ p, q ≠ 0) :
    ∀ i, i < p.length →
      (forceOfInfection infVals infness ci (List.replicate p.length p) (p.map (fun q => N * q))).2.getD i 0
        = sumL (ci.map (fun row => sumL (gather (vmul infVals infness) row))) / N :=
  fun i hi => AggregateMoreMixing.foi_frequency_proportional_pops infVals infness ci p N hlen hp i hi

/-! ### non-vacuity, and the link to the executable model -/
section example_
open Summer.C03

/-- `proportionate_mixing` on numbers: `iv = [10]`, `inf = [1]`, `p = [1/4, 3/4]`, `N = 100` -/
example :
    (forceOfInfection [(10 : Rat) * (1/4), 10 * (3/4)] [1, 1] [[0], [1]] [[1/4, 3/4], [1/4, 3/4]]
        [100 * (1/4), 100 * (3/4)]).2.getD 1 0
      = (forceOfInfection [(10 : Rat)] [1] [[0]] [[1]] [100]).2.getD 0 0 :=
  ((proportionate_mixing [(10 : Rat)] [1] [1/4, 3/4] 100 (by decide +kernel)).2 1 (by decide)).1

example : (forceOfInfection [(10 : Rat) * (1/4), 10 * (3/4)] [1, 1] [[0], [1]] [[1/4, 3/4], [1/4, 3/4]]
        [100 * (1/4), 100 * (3/4)]).2 = [1/10, 1/10] ∧
    (forceOfInfection [(10 : Rat)] [1] [[0]] [[1]] [100]).2 = [1/10] := by decide +kernel

/-- two infectious compartments with different infectiousness, three strata -/
example :
    let iv : List Rat := [10, 4]
    let inf : List Rat := [1, 1/2]
    let p : List Rat := [1/2, 1/3, 1/6]
    sumL p = 1 ∧
    forceOfInfection (iv.flatMap (fun v => p.map (fun q => v * q))) (inf.flatMap (fun a => List.replicate 3 a))
        ((List.range 3).map (fun j => (List.range 2).map (fun c => c * 3 + j))) (List.replicate 3 p)
        (p.map (fun q => 60 * q)) = ([14/3, 14/3, 14/3], [1/5, 1/5, 1/5]) ∧
    forceOfInfection (iv.flatMap (fun v => p.map (fun q => v * q))) (inf.flatMap (fun a => List.replicate 3 a))
        ((List.range 3).map (fun j => (List.range 2).map (fun c => c * 3 + j)))
        (List.replicate 3 (List.replicate 3 1)) (p.map (fun q => 60 * q)) = ([12, 12, 12], [3/5, 3/5, 3/5]) ∧
    forceOfInfection iv inf [List.range 2] [[1]] [60] = ([12], [1/5]) := by decide +kernel

/-- the SIR model of `Summer.C03`, fully stratified by location with split `1/4, 3/4` and the mixing
matrix whose rows are the split -/
def mixStrat : Strat Rat :=
  { kind := .plain, name := "loc", strata := ["urban", "rural"], comps := ["S", "I", "R"],
    split := [("urban", .const (1/4)), ("rural", .const (3/4))], flowAdj := [], infAdj := [],
    mixing := some [[.const (1/4), .const (3/4)], [.const (1/4), .const (3/4)]] }
def mixModel : Model Rat := getOk sirModel (stratifyWith sirModel mixStrat)
def mixB : Backend := getOk noBackend (prepare mixModel)
def mixP : List Rat := [1/4, 3/4]
def mixM : Matrix Rat := [[1/4, 3/4], [1/4, 3/4]]
/-- the state `S, I, R = 90, 10, 0` split by `p` (as `stratify_compartment_values` does) -/
def mixX : List Rat :=
  stratifyValues (stratIndexArrays sirModel.comps mixStrat) mixStrat.strata [("urban", 1/4), ("rural", 3/4)] [90, 10, 0]

example : stratifyWith sirModel mixStrat = .ok mixModel ∧ prepare mixModel = .ok mixB :=
  ⟨by rfl, by rfl⟩

/-- the runner evaluates the model's mixing matrix to `mixM = List.replicate 2 mixP` -/
example : mixingMatrix mixModel ⟨[], 0, mixX⟩ = some mixM ∧ mixM = List.replicate 2 mixP := by
  decide +kernel

/-- the tables computed by `prepare` have exactly the shape used in the theorems (`n = 2`; all `k = 3`
compartments for the category populations, the `k = 1` infectious compartment for the strain) -/
example :
    mixB.catIdx = (List.range 2).map (fun j => (List.range 3).map (fun c => c * 2 + j)) ∧
    mixB.strainInfIdx = [[2, 3]] ∧
    mixB.strainCatIdx = [(List.range 2).map (fun j => (List.range 1).map (fun c => c * 2 + j))] ∧
    mixB.procType = some true := by decide +kernel

/-- and at the split state the arguments handed to `forceOfInfection` by `infectiousMultipliers` are
exactly `iv'`, `inf'`, `catPops'` of `proportionate_mixing` for `iv = [10]`, `inf = [1]`, `N = 100` -/
example :
    mixX = [45/2, 135/2, 5/2, 15/2, 0, 0] ∧
    gather mixX [2, 3] = [(10 : Rat)].flatMap (fun v => mixP.map (fun q => v * q)) ∧
    gather (List.replicate 6 (1 : Rat)) [2, 3] = [(1 : Rat)].flatMap (fun a => List.replicate 2 a) ∧
    mixB.catIdx.map (fun row => sumL (gather mixX row)) = mixP.map (fun q => 100 * q) := by
  decide +kernel

/-- so `proportionate_mixing` applies to the vector computed by the runner … -/
example : ∀ i, i < 2 →
    ((infectiousMultipliers mixB mixX mixM (List.replicate 6 1)).2.getD 0 []).getD i 0
      = (forceOfInfection [(10 : Rat)] [1] [[0]] [[1]] [100]).2.getD 0 0 := by
  have h : (infectiousMultipliers mixB mixX mixM (List.replicate 6 1)).2.getD 0 []
      = (forceOfInfection ([(10 : Rat)].flatMap (fun v => mixP.map (fun q => v * q)))
          ([(1 : Rat)].flatMap (fun a => List.replicate 2 a))
          ((List.range 2).map (fun j => (List.range 1).map (fun c => c * 2 + j)))
          (List.replicate 2 mixP) (mixP.map (fun q => 100 * q))).2 := by decide +kernel
  intro i hi
  rw [h]
  exact ((proportionate_mixing [(10 : Rat)] [1] mixP 100 (by decide +kernel)).2 i hi).1

/-- … and indeed the multipliers of both categories equal the unstratified `10 / 100` -/
example : (infectiousMultipliers mixB mixX mixM (List.replicate 6 1)).2 = [[1/10, 1/10]] ∧
    (infectiousMultipliers mixB mixX mixM (List.replicate 6 1)).1 = [1/10, 1/10] ∧
    (infectiousMultipliers sirB [90, 10, 0] [[1]] [1, 1, 1]).2 = [[1/10]] := by decide +kernel

/-- the whole right-hand side, aggregated over the strata, is that of the unstratified model -/
example : Spec.agg sirModel.comps mixStrat ((rhs mixModel mixB [] mixX 0).getD [])
    = (rhs sirModel sirB [] [90, 10, 0] 0).getD [] := by decide +kernel
example : rhs mixModel mixB [] mixX 0 = some [-9/2, -27/2, 13/4, 39/4, 5/4, 15/4] ∧
    rhs sirModel sirB [] [90, 10, 0] 0 = some [-18, 13, 5] := by decide +kernel

/-! ### negative companions (hypotheses that cannot be dropped) -/

/-- The state is NOT split by `p`: same totals `S, I, R = 90, 10, 0`, susceptibles split by `p`, but all
infected in `urban`.  The category populations are `65/2, 135/2` (not `25, 75`), and the forces of
infection with `M[i][j] = p_j` are `1/13 ≠ 1/10`; the aggregated right-hand side differs as well. -/
def mixXbad : List Rat := [45/2, 135/2, 10, 0, 0, 0]
example : Spec.agg sirModel.comps mixStrat mixXbad = [90, 10, 0] ∧
    (infectiousMultipliers mixB mixXbad mixM (List.replicate 6 1)).2 = [[1/13, 1/13]] ∧
    (infectiousMultipliers sirB [90, 10, 0] [[1]] [1, 1, 1]).2 = [[1/10]] ∧
    Spec.agg sirModel.comps mixStrat ((rhs mixModel mixB [] mixXbad 0).getD []) = [-180/13, 115/13, 5] ∧
    (rhs sirModel sirB [] [90, 10, 0] 0).getD [] = [-18, 13, 5] := by decide +kernel

/-- … whereas if only the INFECTED are concentrated in `urban` but the category populations are still
`25, 75` (`proportionate_mixing_of_category_pops`), the forces of infection are still `1/10` -/
def mixXconc : List Rat := [15, 75, 10, 0, 0, 0]
example : Spec.agg sirModel.comps mixStrat mixXconc = [90, 10, 0] ∧
    mixB.catIdx.map (fun row => sumL (gather mixXconc row)) = mixP.map (fun q => 100 * q) ∧
    (infectiousMultipliers mixB mixXconc mixM (List.replicate 6 1)).2 = [[1/10, 1/10]] := by decide +kernel
example : ∀ i, i < 2 →
    (forceOfInfection (gather mixXconc [2, 3]) [1, 1] [[0], [1]] (List.replicate 2 mixP)
        (mixP.map (fun q => 100 * q))).2.getD i 0 = 10 / 100 :=
  fun i hi => (proportionate_mixing_of_category_pops (gather mixXconc [2, 3]) [1, 1] [[0], [1]] mixP 100 rfl
    (by decide +kernel) i hi).trans (by decide +kernel)

/-- `proportionate_mixing` needs no `p_j ≠ 0`: an empty stratum, `p = [1, 0]` (its term is `0 · (0/0) = 0`) -/
example : (forceOfInfection [(10 : Rat) * 1, 10 * 0] [1, 1] [[0], [1]] [[1, 0], [1, 0]] [100 * 1, 100 * 0]).2
    = [1/10, 1/10] := by decide +kernel
/-- … but `proportionate_mixing_of_category_pops` (arbitrary state) does need `p_j ≠ 0`: all infected in a
stratum whose proportion (matrix column and category population) is `0` are never met: `0 ≠ 10/100` -/
example : (forceOfInfection [(0 : Rat), 10] [1, 1] [[0], [1]] (List.replicate 2 [1, 0])
      ([(1 : Rat), 0].map (fun q => 100 * q))).2 = [0, 0] ∧
    sumL ([[0], [1]].map (fun row => sumL (gather (vmul [(0 : Rat), 10] [1, 1]) row))) / 100 = 1/10 := by
  decide +kernel

/-- DENSITY-dependent transmission with matrix rows `p` (not all ones): `(1/16 + 9/16) · 10 = 25/4 ≠ 10`
(`density_with_rows_p`); with the all-ones matrix it is `10` (`proportionate_mixing_density`). -/
example :
    (forceOfInfection (gather mixX [2, 3]) [1, 1] [[0], [1]] mixM [25, 75]).1 = [25/4, 25/4] ∧
    (forceOfInfection (gather mixX [2, 3]) [1, 1] [[0], [1]] [[1, 1], [1, 1]] [25, 75]).1 = [10, 10] ∧
    (forceOfInfection [(10 : Rat)] [1] [[0]] [[1]] [100]).1 = [10] := by decide +kernel
example := (proportionate_mixing_density [(10 : Rat)] [1] mixP [25, 75] 100 (by decide +kernel)).2 1 (by decide)
example := density_with_rows_p [(10 : Rat)] [1] mixP [25, 75] 1 (by decide)

end example_

end part4_mixing

/-! # PART 5 — the parts together: trajectories of a model with two mixing categories -/
section part5_together
open Summer Summer.Build Summer.Run Summer.Spec Summer.Proofs Summer.Spec.AggregateMore Summer.C03

section
variable {α : Type} [Field α] [LinearOrder α] [IsStrictOrderedRing α]
open Summer.Derived

/-- **step_flow_rates_agg.**  In the setting of `rhs_agg_multi_category` (any number of mixing
categories, multipliers computed by the runner), the flow-rate vectors of ONE evaluation of the
right-hand side (`Run.step`, what `get_flows_for_outputs` records) of `m'` at a non-negative `x'` and of
`m` at `agg x'` satisfy the `copies_rate_sum` identity: they are given by functions `R'`, `R` of the flow
with `Σ_{g copy of f} R' g = R f`.  This discharges the hypothesis `hrows` of `derived_agg_flow`. -/
theorem step_flow_rates_agg (m m' : Model α) (s : Strat α) (b b' : Backend)
    (hsw : stratifyWith m s = .ok m') (hb : prepare m = .ok b) (hb' : prepare m' = .ok b')
    (hfa : s.flowAdj = []) (hia : s.infAdj = []) (hmix : s.mixing = none) (hstrain : s.kind ≠ .strain)
    (hage : s.kind = .age → "0" ∈ s.strata) (hname : s.name ≠ "strain")
    (hfresh : freshFor m.comps s = true) (hnd : m.comps.Nodup) (hst : s.strata.Nodup) (hne : s.strata ≠ [])
    (hs : sourcedOk m = true)
    (hu : catsUniform b = true) (hu' : catsUniform b' = true) (hkeys : catKeysAvoid m s.name = true)
    (hmsf : mixingStateFree m = true)
    (hsf : ∀ g ∈ m'.flows, Spec.stateFree (realised g) = true)
    (params : List (String × α)) (t : α) (x' : List α) (hx : x'.length = m'.comps.length)
    (hnn : ∀ v ∈ x', 0 ≤ v) (so so' : StepOut α)
    (hso' : step m' b' params t x' = some so') (hso : step m b params t (Spec.agg m.comps s x') = some so) :
    ∃ R R' : Flow α → α, so'.flowRates = m'.flows.map R' ∧ so.flowRates = m.flows.map R ∧
      ∀ f ∈ m.flows, sumL ((Spec.copiesA s f).map R') = R f :=
  AggregateMoreStep.step_flowRates_agg hsw hb hb' hfa hia hmix hstrain hage hname ⟨hfresh, hnd, hst⟩ hne hs hu hu'
    hkeys hmsf hsf params t x' hx hnn so so' hso' hso

/-- **derived_agg_flow_run** (end to end).  Let the flow tables of the run data `d'` (model `m'`) and `d`
(model `m`) be the ones the runner computes (`flowsForOutputs`) from the same times and from output rows
`d'.outputs` resp. their aggregates `d'.outputs.map agg`, all rows of `d'.outputs` being non-negative
states of `m'`.  Then, in the setting of `rhs_agg_multi_category`, the flow output `name` (no strata
filter; raw or not) of `m'` equals that of `m`, entry by entry — provided, for an age stratification, the
requested name does not start with `"ageing_"`. -/
theorem derived_agg_flow_run (m m' : Model α) (s : Strat α) (b b' : Backend)
    (hsw : stratifyWith m s = .ok m') (hb : prepare m = .ok b) (hb' : prepare m' = .ok b')
    (hfa : s.flowAdj = []) (hia : s.infAdj = []) (hmix : s.mixing = none) (hstrain : s.kind ≠ .strain)
    (hage : s.kind = .age → "0" ∈ s.strata) (hname : s.name ≠ "strain")
    (hfresh : freshFor m.comps s = true) (hnd : m.comps.Nodup) (hst : s.strata.Nodup) (hne : s.strata ≠ [])
    (hs : sourcedOk m = true)
    (hu : catsUniform b = true) (hu' : catsUniform b' = true) (hkeys : catKeysAvoid m s.name = true)
    (hmsf : mixingStateFree m = true)
    (hsf : ∀ g ∈ m'.flows, Spec.stateFree (realised g) = true)
    (params : List (String × α)) (d d' : RunData α) (cvs cvs' : List (String × List α))
    (hd' : flowsForOutputs m' b' params d'.times d'.outputs = some (d'.flows, cvs'))
    (hd : flowsForOutputs m b params d.times d.outputs = some (d.flows, cvs))
    (htimes : d.times = d'.times) (hout : d.outputs = d'.outputs.map (Spec.agg m.comps s))
    (hrows : ∀ row ∈ d'.outputs, row.length = m'.comps.length ∧ ∀ v ∈ row, 0 ≤ v)
    (name : String) (hflowname : s.kind = .age → ∀ t, name ≠ "ageing_" ++ t)
    (done done' : List (String × List α)) (raw : Bool) :
    ∃ ser ser', evalRequest m' d' done' (.flow name [] [] raw) = some ser' ∧
      evalRequest m d done (.flow name [] [] raw) = some ser ∧ ser' = ser := by
  obtain ⟨hlen', hrow', _, _⟩ := Summer.C08.flow_rows m' b' params d'.times d'.outputs d'.flows cvs' hd'
  obtain ⟨hlen, hrow, _, _⟩ := Summer.C08.flow_rows m b params d.times d.outputs d.flows cvs hd
  have hol : d.outputs.length = d'.outputs.length := by rw [hout, List.length_map]
  refine derived_agg_flow_of_stratifyWith m m' s hsw hfa hmix hstrain hfresh name hflowname d d'
    (by rw [hlen, hlen', htimes, hol]) (fun i hi => ?_) done done' raw
  have hit : i < d'.times.length := by omega
  have hio : i < d'.outputs.length := by omega
  obtain ⟨so', hso', hr'⟩ := hrow' i hit hio
  obtain ⟨so, hso, hr⟩ := hrow i (by rw [htimes]; exact hit) (by rw [hol]; exact hio)
  have hmem : d'.outputs[i] ∈ d'.outputs := List.getElem_mem hio
  obtain ⟨hl, hnn⟩ := hrows _ hmem
  have hti : d.times[i]'(by rw [htimes]; exact hit) = d'.times[i] := by simp only [htimes]
  have hoi : d.outputs[i]'(by rw [hol]; exact hio) = Spec.agg m.comps s d'.outputs[i] := by
    simp only [hout, List.getElem_map]
  rw [hti, hoi] at hso
  obtain ⟨R, R', h1, h2, h3⟩ := step_flow_rates_agg m m' s b b' hsw hb hb' hfa hia hmix hstrain hage hname hfresh hnd
    hst hne hs hu hu' hkeys hmsf hsf params _ _ hl hnn so so' hso' hso
  exact ⟨R, R', by rw [hr', h1], by rw [hr, h2], h3⟩
end

def timesG : List Rat := [0, 1/8, 1/4]

/-- hypotheses `hrhs` / `hdef` of the trajectory theorems for the two-category model of Part 1, from
`rhs_agg_multi_category` -/
theorem grp_hrhs (x' : List Rat) (t : Rat) (r r' : List Rat) (hl : x'.length = grpLoc.comps.length)
    (hnn : ∀ v ∈ x', 0 ≤ v) (hr' : rhs grpLoc grpLocB pk x' t = some r')
    (hr : rhs grpModel grpB pk (Spec.agg grpModel.comps locStrat x') t = some r) :
    Spec.agg grpModel.comps locStrat r' = r :=
  rhs_agg_multi_category grpModel grpLoc locStrat grpB grpLocB (by rfl) (by rfl) (by rfl) rfl rfl rfl
    (by decide) (by decide) (by decide) (by decide) (by decide) (by decide) (by decide) (by decide)
    (by decide +kernel) (by decide +kernel) (by decide) (by decide) (by decide) pk t x' hl hnn r r' hr' hr

/-- explicit Euler: two steps of the doubly stratified model, aggregated over location = two steps of the
age-group model (forces of infection from two mixing categories, time-dependent mixing matrix,
infectiousness adjustment) -/
example : (Solvers.euler (C03.field grpLoc grpLocB pk) xg timesG).map (Spec.agg grpModel.comps locStrat)
    = Solvers.euler (C03.field grpModel grpB pk) (Spec.agg grpModel.comps locStrat xg) timesG :=
  euler_agg_partial grpModel grpLoc locStrat grpB grpLocB (by rfl) pk timesG xg
    (fun x' t r r' hl hnn hr' hr => grp_hrhs x' t r r' hl hnn hr' hr)
    (fun x' t _ _ => ⟨by rfl, by rfl⟩)
    (by decide +kernel)

/-- classical RK4: one step -/
example : (Solvers.rk4 (C03.field grpLoc grpLocB pk) xg [0, 1/8]).map (Spec.agg grpModel.comps locStrat)
    = Solvers.rk4 (C03.field grpModel grpB pk) (Spec.agg grpModel.comps locStrat xg) [0, 1/8] :=
  rk4_agg grpModel grpLoc locStrat grpB grpLocB (by rfl) pk [0, 1/8] xg
    (fun x' t r r' hl hnn hr' hr => grp_hrhs x' t r r' hl hnn hr' hr)
    (fun x' t _ _ => ⟨by rfl, by rfl⟩)
    (by
      intro i hi
      have h1 : i < 1 := by simp at hi; omega
      match i, h1 with
      | 0, _ => decide +kernel)

example : (Solvers.euler (C03.field grpLoc grpLocB pk) xg timesG).getD 1 [] =
      [1315/84, 1315/168, 1315/336, 2745/112, 915/56, 2745/224, 1775/336, 85/21, 655/168, 1035/112, 205/56,
       1875/224, 59/8, 77/8] ∧
    (Solvers.euler (C03.field grpModel grpB pk) (Spec.agg grpModel.comps locStrat xg) timesG).getD 1 [] =
      [1315/48, 11895/224, 635/48, 4765/224, 59/8, 77/8] := by decide +kernel
/-- derived flow output `"infection"` along two recorded states of the two-category model: the runner's flow
tables of both models, and the equality of the series (raw and midpoint) -/
def xg2 : List Rat := [10, 5, 5, 20, 10, 5, 2, 2, 2, 1, 1, 1, 3, 4]
def dG' : Derived.RunData Rat :=
  { times := [0, 1/8], outputs := [xg, xg2],
    flows := ((Derived.flowsForOutputs grpLoc grpLocB pk [0, 1/8] [xg, xg2]).getD ([], [])).1, computed := [], params := pk }
def dG : Derived.RunData Rat :=
  { times := [0, 1/8], outputs := [xg, xg2].map (Spec.agg grpModel.comps locStrat),
    flows := ((Derived.flowsForOutputs grpModel grpB pk [0, 1/8] ([xg, xg2].map (Spec.agg grpModel.comps locStrat))).getD
      ([], [])).1, computed := [], params := pk }

example (raw : Bool) : ∃ ser ser', Derived.evalRequest grpLoc dG' [] (.flow "infection" [] [] raw) = some ser' ∧
    Derived.evalRequest grpModel dG [] (.flow "infection" [] [] raw) = some ser ∧ ser' = ser :=
  derived_agg_flow_run grpModel grpLoc locStrat grpB grpLocB (by rfl) (by rfl) (by rfl) rfl rfl rfl
    (by decide) (by decide) (by decide) (by decide) (by decide) (by decide) (by decide) (by decide)
    (by decide +kernel) (by decide +kernel) (by decide) (by decide) (by decide) pk dG dG' [] []
    (by decide +kernel) (by decide +kernel) rfl rfl (by decide +kernel) "infection" (fun h => absurd h (by decide)) [] [] raw

example : Derived.evalRequest grpLoc dG' [] (.flow "infection" [] [] true) = some [13105/84, 45195/406] ∧
    Derived.evalRequest grpModel dG [] (.flow "infection" [] [] true) = some [13105/84, 45195/406] ∧
    (dG'.flows.getD 0 []).take 6 = [730/21, 365/21, 365/42, 615/14, 205/7, 615/28] ∧
    (dG.flows.getD 0 []).take 2 = [365/6, 2665/28] := by decide +kernel
end part5_together

#print axioms step_flow_rates_agg
#print axioms derived_agg_flow_run
#print axioms multiplier_agg
#print axioms foi_vectors_agg
#print axioms infectiousness_child
#print axioms rhs_agg_multi_category
#print axioms rk4Stages_spec
#print axioms rk4_agg
#print axioms comp_output_agg_row_filter
#print axioms comp_output_agg_row
#print axioms derived_agg_comp_filter
#print axioms derived_agg_comp
#print axioms derived_agg_comp_of_stratifyWith
#print axioms flow_output_agg_row
#print axioms flow_output_agg_row_filter
#print axioms derived_agg_flow_filter
#print axioms derived_agg_flow
#print axioms derived_agg_flow_of_stratifyWith
#print axioms stratified_model_shape_names
#print axioms flow_rates_agg
#print axioms flow_output_agg_filter
#print axioms flow_output_agg
#print axioms not_ageing_of_toList
#print axioms category_infected_split
#print axioms unstratified_foi
#print axioms proportionate_mixing
#print axioms proportionate_mixing_density
#print axioms density_with_rows_p
#print axioms proportionate_mixing_of_category_pops

end Summer.C03More
