import Summer.Props.C18Euler
import Summer.Props.C07Pipeline
/-
C18 end to end — a successful `model.run(parameters, solver="euler")`, read from the source text of `build_run_model.run_model`
(`C07Pipeline.run_model_eq`), started from a non-negative initial population, never leaves the non-negative orthant as long as the
step satisfies `h · (total outflow coefficient) ≤ 1` at every visited state: composes `C07Pipeline.run_model_outputs` with
`C18Euler.euler_rows_nonneg`.
-/
namespace Summer.Props.C18EndToEnd
open Summer Summer.Run Summer.Pipeline Summer.Spec Summer.Spec.EndToEnd Summer.Proofs Summer.Proofs.EndToEnd
  Summer.Generated.PipelineSrc Summer.Props.C07Pipeline

variable {α : Type} [Field α] [LinearOrder α] [IsStrictOrderedRing α]

theorem euler_run_nonneg (m : Model α) (b : Backend) (hprep : prepare m = .ok b)
    (hs : Spec.sourcedOk m = true)
    (hsrc : ∀ f ∈ m.flows, ∀ c, Spec.srcIx m f = some c → Spec.isSourced f.kind = true)
    (doBase params : List (String × α)) (outs : List (List α)) (d : List (String × List α))
    (h : run_model m b (fun f x0 ts => Solvers.euler f x0 ts) doBase params = some (outs, d))
    (hx0 : ∀ x0, initialPopulation m params = some x0 → x0.length = m.comps.length ∧ ∀ v ∈ x0, 0 ≤ v)
    (hh : 0 ≤ (modelTimes m).getD 1 0 - (modelTimes m).getD 0 0)
    (hgood : ∀ i, i < (modelTimes m).length - 1 →
      (step m b params ((modelTimes m).getD i 0) (outs.getD i [])).isSome = true ∧
      ∀ s ∈ step m b params ((modelTimes m).getD i 0) (outs.getD i []),
        (∀ v ∈ s.weights, 0 ≤ v) ∧ (∀ row ∈ s.mixing, ∀ v ∈ row, 0 ≤ v) ∧ (∀ v ∈ s.compInf, 0 ≤ v) ∧
        ∀ c, c < m.comps.length →
          ((modelTimes m).getD 1 0 - (modelTimes m).getD 0 0) * outCoef m s.weights s.mults c ≤ 1) :
    ∀ i, i < (modelTimes m).length →
      (outs.getD i []).length = m.comps.length ∧ ∀ v ∈ outs.getD i [], 0 ≤ v := by
  obtain ⟨x0, hx, ho⟩ := run_model_outputs m b _ doBase params outs d h
  obtain ⟨hl, hnn⟩ := hx0 x0 hx
  subst ho
  exact Summer.C18Euler.euler_rows_nonneg m b hprep hs hsrc params (modelTimes m) x0 hl hnn hh hgood

#print axioms euler_run_nonneg
end Summer.Props.C18EndToEnd
