import Summer.Proofs.Structure
import Mathlib.Algebra.Field.Defs
import Mathlib.Data.Int.Cast.Basic
/-
C04 — Stratified flows are exactly the prescribed copies with the prescribed weights.

Specifications (all in `Summer/Spec/Structure.lean`):
* `Spec.winning s f`   : adjustment dictionary of the LAST declaration applicable to the parent flow `f`;
* `Spec.copies f s`    : `[f]` if no end is stratified, otherwise one `Spec.copyOf f s st` per stratum of
                         `Spec.copyStrata f s` (all strata; only `"0"` for a birth flow under an age
                         stratification), in declaration order;
* `Spec.extraAdj f s st`: what is appended to the parent's adjustment list (the documented table);
* `Spec.ageingFlows`   : the ageing flows of an age stratification;
* `Spec.applyAdj(s)`   : effect of adjustments on the realised weight.

Hypotheses `hsrc`/`hdst` ("an entry flow has no source, an exit flow has no destination") hold for
every flow of every reachable model (`C12.reachable_shape`).
-/
namespace Summer.C04
open Summer Summer.Build Summer.Generated Summer.Spec Summer.Proofs.Structure

section
variable {α : Type}

/-! ### `C04.last_match_wins` -/

/-- when `get_flow_adjustment` does not raise it returns the dictionary of the LAST declaration for
`f.name` whose source/dest filters are contained in the PARENT flow's strata (a missing end never
blocks), `none` if there is none; and no declaration for `f.name` filters on a missing end -/
theorem last_match_wins {s : Strat α} {f : Flow α} {r : Option (List (String × Option (Adj α)))}
    (h : getFlowAdjustment s f = .ok r) :
    r = ((s.flowAdj.filter (fun d => decide (declApplies d f))).getLast?).map (·.adjs)
      ∧ ∀ d ∈ s.flowAdj, ¬ declRaises d f :=
  getFlowAdjustment_ok_inv h

/-- it does not raise exactly when no declaration for `f.name` filters on an end `f` does not have -/
theorem last_match_wins_ok (s : Strat α) (f : Flow α) (h : ∀ d ∈ s.flowAdj, ¬ declRaises d f) :
    getFlowAdjustment s f = .ok (winning s f) :=
  getFlowAdjustment_ok s f h

theorem last_match_wins_raises (s : Strat α) (f : Flow α) (h : ∃ d ∈ s.flowAdj, declRaises d f) :
    ∃ e, getFlowAdjustment s f = .error e :=
  getFlowAdjustment_error s f h

/-- index-maximality formulation: the winner is applicable and every LATER declaration is not -/
theorem winning_some_iff (s : Strat α) (f : Flow α) (a : List (String × Option (Adj α))) :
    winning s f = some a ↔
      ∃ l1 d l2, s.flowAdj = l1 ++ d :: l2 ∧ declApplies d f ∧ d.adjs = a ∧ ∀ d' ∈ l2, ¬ declApplies d' f :=
  winning_eq_some_iff s f a

theorem winning_none_iff (s : Strat α) (f : Flow α) :
    winning s f = none ↔ ∀ d ∈ s.flowAdj, ¬ declApplies d f :=
  winning_eq_none_iff s f

/-- non-vacuity: three declarations for the same flow; the second and third apply to the parent
`S/age 0 → I/age 0`, the LAST one wins; the first filters on another stratum and does not apply -/
example :
    let d1 : FlowAdjDecl Int := ⟨"infection", [("u", some (.mul (.const 1))), ("r", none)], [("age", "5")], []⟩
    let d2 : FlowAdjDecl Int := ⟨"infection", [("u", some (.mul (.const 2))), ("r", none)], [], [("age", "0")]⟩
    let d3 : FlowAdjDecl Int := ⟨"infection", [("u", some (.ovr (.const 3))), ("r", none)], [("age", "0")], []⟩
    let s := Spec.Ex.strat .plain "loc" ["u", "r"] ["S", "I"] [d1, d2, d3]
    let f := Spec.Ex.flow .infFreq "infection" (some Spec.Ex.s0) (some Spec.Ex.i0)
    (∀ d ∈ s.flowAdj, ¬ declRaises d f) ∧ ¬ declApplies d1 f ∧ declApplies d2 f ∧ declApplies d3 f
      ∧ (winning s f).isSome = true := by
  refine ⟨by decide, by decide, by decide, by decide, ?_⟩
  simp only [winning]
  decide

end

section
variable {α : Type} [One α] [Div α] [NatCast α]

/-! ### `C04.copies` -/

/-- `Flow.stratify`, when it does not raise, returns exactly the specified copies -/
theorem copies {f : Flow α} {s : Strat α} {fs : List (Flow α)}
    (hsrc : isEntry f.kind = true → f.src = none) (hdst : isExit f.kind = true → f.dst = none)
    (h : stratifyFlow f s = .ok fs) : fs = Spec.copies f s :=
  stratifyFlow_ok hsrc hdst h

/-- and it does not raise under `Spec.StratifyOk` -/
theorem copies_ok {f : Flow α} {s : Strat α}
    (hsrc : isEntry f.kind = true → f.src = none) (hdst : isExit f.kind = true → f.dst = none)
    (hc : StratifyOk f s) : stratifyFlow f s = .ok (Spec.copies f s) :=
  stratifyFlow_eq_ok hsrc hdst hc

/-- neither end's name is stratified: the flow is kept as it is -/
theorem copies_untouched {f : Flow α} {s : Strat α} (h : ¬ (endIn s f.src ∨ endIn s f.dst)) :
    Spec.copies f s = [f] :=
  Proofs.Structure.copies_untouched h

/-- otherwise one copy per stratum, in declaration order, with the stratified end(s) replaced by
`c.stratify s.name stratum`, the other end unchanged, and name, kind and parameter unchanged -/
theorem copies_touched {f : Flow α} {s : Strat α} (h : endIn s f.src ∨ endIn s f.dst) (hb : ¬ birthIntoAge f s) :
    Spec.copies f s = s.strata.map (fun st =>
      { f with src := stratEnd s st f.src, dst := stratEnd s st f.dst, adjs := f.adjs ++ extraAdj f s st }) := by
  rw [Proofs.Structure.copies_touched h, copyStrata_other hb]; rfl

/-- a birth flow under an age stratification only enters stratum `"0"` -/
theorem copies_birth_age {f : Flow α} {s : Strat α} (h : endIn s f.src ∨ endIn s f.dst) (hb : birthIntoAge f s)
    (hs : s.strata.Nodup) (h0 : "0" ∈ s.strata) :
    Spec.copies f s = [{ f with src := stratEnd s "0" f.src, dst := stratEnd s "0" f.dst }] := by
  rw [Proofs.Structure.copies_touched h, copyStrata_birth_age hs h0 hb]
  simp [copyOf, extraAdj_birth_age hb]

omit [One α] [Div α] [NatCast α] in
/-- what `stratEnd` is: the stratified end is replaced, the other is unchanged -/
theorem stratEnd_spec (s : Strat α) (st : String) (e : Option Comp) :
    (endIn s e → stratEnd s st e = e.map (fun c => c.stratify s.name st)) ∧ (¬ endIn s e → stratEnd s st e = e) :=
  ⟨fun h => stratEnd_of_in h st, fun h => stratEnd_of_not_in h st⟩

/-- number of copies -/
theorem copies_count (f : Flow α) (s : Strat α) :
    (Spec.copies f s).length
      = if endIn s f.src ∨ endIn s f.dst then (if birthIntoAge f s then (s.strata.filter (· == "0")).length else s.strata.length)
        else 1 := by
  rw [copies_length]
  unfold copyStrata
  by_cases h : endIn s f.src ∨ endIn s f.dst
  · rw [if_pos h, if_pos h]
    by_cases hb : birthIntoAge f s
    · rw [if_pos hb, if_pos hb]
    · rw [if_neg hb, if_neg hb]
  · rw [if_neg h, if_neg h]

/-- names, kinds and base parameters are unchanged; the parent's adjustments are a prefix -/
theorem copies_fields {f g : Flow α} {s : Strat α} (hg : g ∈ Spec.copies f s) :
    g.name = f.name ∧ g.kind = f.kind ∧ g.param = f.param ∧ ∃ extra, g.adjs = f.adjs ++ extra :=
  Proofs.Structure.copies_fields hg

/-- the copies are pairwise distinct -/
theorem copies_nodup {f : Flow α} {s : Strat α} (hs : s.strata.Nodup) : (Spec.copies f s).Nodup :=
  Proofs.Structure.copies_nodup hs

open Spec.Ex in
/-- non-vacuity (executed on `Int`): an infection flow under a plain stratification of both ends, with
a declaration: two copies, both ends replaced, `u` multiplied, `r` unchanged -/
example :
    let d : FlowAdjDecl Int := ⟨"infection", [("u", some (.mul (.const 7))), ("r", none)], [], []⟩
    let s := strat .plain "loc" ["u", "r"] ["S", "I"] [d]
    let f := flow .infFreq "infection" (some s0) (some i0)
    stratifyFlow f s = .ok
      [{ f with src := some (s0.stratify "loc" "u"), dst := some (i0.stratify "loc" "u"), adjs := [.mul (.const 7)] },
       { f with src := some (s0.stratify "loc" "r"), dst := some (i0.stratify "loc" "r"), adjs := [] }] := rfl

open Spec.Ex in
/-- non-vacuity of `copies_birth_age` (executed): a birth flow under an age stratification yields only
the stratum-`"0"` copy, without any adjustment -/
example :
    let s := strat .age "age" ["0", "5"] ["S", "I"] []
    let f := flow .crudeBirth "birth" none (some ⟨"S", []⟩)
    birthIntoAge f s ∧ s.strata.Nodup ∧ "0" ∈ s.strata
      ∧ stratifyFlow f s = .ok [{ f with dst := some ⟨"S", [("age", "0")]⟩ }] :=
  ⟨by decide, by decide, by decide, rfl⟩

/-! ### `C04.flows_after_stratify` -/

/-- After an accepted stratification of a model satisfying the invariant: the compartments are the
in-place stratified ones, the flows are the copies of the old flows, in order, followed by the
ageing flows (age stratifications only). -/
theorem flows_after_stratify {m m' : Model α} {s : Strat α} (h : Inv m) (hs : s.strata.Nodup)
    (hok : stratifyWith m s = .ok m') :
    m'.comps = stratifyComps m.comps s
    ∧ m'.flows = m.flows.flatMap (fun f => Spec.copies f s) ++ (if s.kind = .age then ageingFlows m.comps s else [])
    ∧ (∀ f ∈ m.flows, stratifyFlow f s = .ok (Spec.copies f s)) := by
  rcases stratifyWith_ok (shape_lite h) hok with ⟨ageing, R⟩
  refine ⟨R.comps, ?_, R.each⟩
  rw [R.flows]
  by_cases hk : s.kind = .age
  · rw [if_pos hk, ageingOf_eq h hs R hk]
  · rw [if_neg hk, R.notAge hk]

/-- the same for every reachable model -/
theorem flows_after_stratify_reachable [LT α] [DecidableLT α] {m m' : Model α} {s : Strat α} (h : Reachable m)
    (hs : s.strata.Nodup) (hok : stratifyWith m s = .ok m') :
    m'.comps = stratifyComps m.comps s
    ∧ m'.flows = m.flows.flatMap (fun f => Spec.copies f s) ++ (if s.kind = .age then ageingFlows m.comps s else []) :=
  ⟨(flows_after_stratify (reachable_inv h) hs hok).1, (flows_after_stratify (reachable_inv h) hs hok).2.1⟩

/-- for a stratification that is not an age stratification nothing but the flow shapes is needed
(no ageing flows; strata may even repeat) -/
theorem flows_after_stratify_not_age {m m' : Model α} {s : Strat α}
    (hshape : ∀ f ∈ m.flows, (isEntry f.kind = true → f.src = none) ∧ (isExit f.kind = true → f.dst = none))
    (hk : s.kind ≠ .age) (hok : stratifyWith m s = .ok m') :
    m'.comps = stratifyComps m.comps s ∧ m'.flows = m.flows.flatMap (fun f => Spec.copies f s) := by
  rcases stratifyWith_ok hshape hok with ⟨ageing, R⟩
  refine ⟨R.comps, ?_⟩
  rw [R.flows, R.notAge hk, List.append_nil]

/-- the ageing flows: for each pair of consecutive sorted ages `a, b` (outer loop) and each
pre-stratification compartment `c` (inner loop) exactly one transition flow from `c`'s copy for `a` to
`c`'s copy for `b` with the constant rate `1 / (b - a)`, no adjustments -/
theorem ageing_spec (prev : List Comp) (s : Strat α) :
    (ageingFlows prev s : List (Flow α)).length = (agePairs s).length * prev.length
    ∧ (agePairs s).length = (s.strata.filterMap (fun x => x.toInt?)).length - 1
    ∧ ∀ g : Flow α, g ∈ ageingFlows prev s ↔ ∃ ab ∈ agePairs s, ∃ c ∈ prev,
        g = { kind := .transition,
              name := "ageing_" ++ (c.stratify s.name (toString ab.1)).serialize ++ "_to_" ++ (c.stratify s.name (toString ab.2)).serialize,
              src := some (c.stratify s.name (toString ab.1)), dst := some (c.stratify s.name (toString ab.2)),
              param := .const ((1 : α) / (((ab.2 - ab.1).toNat : Nat) : α)), adjs := [] } :=
  ⟨ageingFlows_length prev s, agePairs_length s, fun _ => mem_ageingFlows⟩

/-- consecutive ages are strictly increasing whenever the age stratification is accepted on a model
with at least one compartment (a zero-width age group raises) -/
theorem ageing_pairs_lt {m m' : Model α} {s : Strat α} (h : Inv m) (hk : s.kind = .age) (hne : m.comps ≠ [])
    (hok : stratifyWith m s = .ok m') : s.comps = m.origNames ∧ ∀ ab ∈ agePairs s, ab.1 < ab.2 := by
  rcases stratifyWith_ok (shape_lite h) hok with ⟨ageing, R⟩
  rcases R.age hk with ⟨hfull, _, hall⟩
  refine ⟨hfull, fun ab hab => ?_⟩
  rcases List.exists_mem_of_ne_nil _ hne with ⟨c, hc⟩
  have h1 := (hall ab hab c hc).2
  have h2 := agePairs_le s ab hab
  omega

end

/-- in a field the ageing rate `1 / ↑(b - a).toNat` is `1 / (b - a)` -/
theorem ageing_rate {α : Type} [Field α] (a b : Int) (h : a < b) :
    (1 : α) / (((b - a).toNat : Nat) : α) = 1 / ((b : α) - (a : α)) := by
  have e : ((b - a).toNat : Int) = b - a := Int.toNat_of_nonneg (by omega)
  have : (((b - a).toNat : Nat) : α) = (b : α) - (a : α) :=
    calc (((b - a).toNat : Nat) : α) = (((b - a).toNat : Int) : α) := (Int.cast_natCast _).symm
      _ = ((b - a : Int) : α) := by rw [e]
      _ = (b : α) - (a : α) := Int.cast_sub b a
  rw [this]

/- Non-vacuity of the age case: `String.toInt?` does not reduce in the kernel, so the accepted age
stratification is exhibited by evaluation (base model `S`,`I`; ages `0`,`5`): 2+1+2 copies followed by
2 ageing flows, one per compartment. -/
open Spec.Ex in
#eval (match stratifyWith base (strat .age "age" ["0", "5"] ["S", "I"] []) with
  | .ok m => m.flows.map (fun (f : Flow Int) => (f.name, f.src.map Comp.serialize, f.dst.map Comp.serialize))
  | .error _ => [])

section
variable {α : Type} [One α] [Div α] [NatCast α]

open Spec.Ex in
/-- non-vacuity of `flows_after_stratify` (plain stratification of `S` only, executed on `Int`) -/
example : ∃ m' : Model Int, stratifyWith base (strat .plain "loc" ["u", "r"] ["S"] []) = .ok m'
    ∧ m'.comps = [⟨"S", [("loc", "u")]⟩, ⟨"S", [("loc", "r")]⟩, ⟨"I", []⟩] ∧ m'.flows.length = 5 :=
  ⟨_, rfl, by decide, rfl⟩

/-! ### `C04.copy_adjustments` -/

/-- the adjustment list of the copy for stratum `st` is the parent's list followed by `extraAdj` -/
theorem copy_adjustments (f : Flow α) (s : Strat α) (st : String) :
    (copyOf f s st).adjs = f.adjs ++ extraAdj f s st := rfl

/-- the table, row "birth flow under an age stratification": nothing is appended -/
theorem adj_birth_age {f : Flow α} {s : Strat α} (hb : birthIntoAge f s) (st : String) : extraAdj f s st = [] :=
  extraAdj_birth_age hb st

/-- the table, rows "user adjustment": the adjustment of the winning declaration for this stratum if
it is `Multiply`/`Overwrite`, nothing if it is `None`; then the absolute share -/
theorem adj_user {f : Flow α} {s : Strat α} (hb : ¬ birthIntoAge f s) {a : List (String × Option (Adj α))}
    (hw : winning s f = some a) (st : String) :
    extraAdj f s st = (match alookup a st with | some (some adj) => [adj] | _ => []) ++ absShare f s :=
  extraAdj_user hb hw st

/-- the table, rows "no user adjustment": `Multiply(1/n)` for an entry flow into a stratified
destination, `Multiply(1/n)` for a transition-type flow whose destination alone is stratified unless
the stratification is a strain stratification, nothing otherwise; then the absolute share -/
theorem adj_auto {f : Flow α} {s : Strat α} (hb : ¬ birthIntoAge f s) (hw : winning s f = none) (st : String) :
    extraAdj f s st =
      (if isEntry f.kind = true then [share s.strata.length]
       else if isExit f.kind = false ∧ endIn s f.dst ∧ ¬ endIn s f.src ∧ s.kind ≠ .strain then [share s.strata.length]
       else []) ++ absShare f s := by
  rw [extraAdj_auto hb hw]
  congr 1
  unfold autoAdj
  by_cases he : isEntry f.kind = true
  · rw [if_pos he, if_pos he]
  · rw [if_neg he, if_neg he]
    have he' : isEntry f.kind = false := by simpa using he
    have : conservation f s ↔ (isExit f.kind = false ∧ endIn s f.dst ∧ ¬ endIn s f.src ∧ s.kind ≠ .strain) := by
      unfold conservation
      constructor
      · rintro ⟨_, h2, h3, h4, h5, _⟩; exact ⟨h2, h3, h4, h5⟩
      · rintro ⟨h2, h3, h4, h5⟩; exact ⟨he', h2, h3, h4, h5, hw⟩
    by_cases hc : conservation f s
    · rw [if_pos hc, if_pos (this.1 hc)]
    · rw [if_neg hc, if_neg (fun h => hc (this.2 h))]

/-- the table, last column: an absolute flow gets the equal share `Multiply(1/k)` (`k` = number of
copies) exactly when there is more than one copy and the conservation split was not applied, so its
weight is shared once; non-absolute flows never get it -/
theorem adj_absolute (f : Flow α) (s : Strat α) :
    (absoluteShareKinds.contains f.kind = false → absShare f s = [])
    ∧ (conservation f s → absShare f s = [] ∧ autoAdj f s = [share s.strata.length])
    ∧ (absoluteShareKinds.contains f.kind = true → 1 < s.strata.length → ¬ conservation f s →
        absShare f s = [share s.strata.length]) :=
  ⟨absShare_of_not_abs, fun h => ⟨absShare_of_conservation h, autoAdj_conservation h⟩, absShare_of_abs⟩

end

section
variable {α : Type}

/-- `C04.copy_weight`: the realised weight (`map_flow_keys`) of a copy is the parent's realised weight
with the appended adjustments applied left to right: `Multiply` scales, `Overwrite` replaces
(discarding everything before it, automatic splits included), nothing appended keeps -/
theorem copy_weight [One α] [Div α] [NatCast α] (f : Flow α) (s : Strat α) (st : String) :
    Run.realised (copyOf f s st) = applyAdjs (Run.realised f) (extraAdj f s st) :=
  realised_copyOf f s st

theorem applyAdjs_spec (e : Expr α) :
    applyAdjs e [] = e
    ∧ (∀ x l, applyAdjs e (.mul x :: l) = applyAdjs (.mul e x) l)
    ∧ (∀ x l, applyAdjs e (.ovr x :: l) = applyAdjs x l) :=
  ⟨rfl, fun _ _ => rfl, fun _ _ => rfl⟩

/-- readable instances for a non-absolute flow that is not a birth-into-age flow -/
theorem copy_weight_cases [One α] [Div α] [NatCast α] {f : Flow α} {s : Strat α} (hb : ¬ birthIntoAge f s)
    (habs : absoluteShareKinds.contains f.kind = false) (st : String) :
    (∀ a x, winning s f = some a → alookup a st = some (some (.mul x)) →
        Run.realised (copyOf f s st) = .mul (Run.realised f) x)
    ∧ (∀ a x, winning s f = some a → alookup a st = some (some (.ovr x)) → Run.realised (copyOf f s st) = x)
    ∧ (∀ a, winning s f = some a → alookup a st = some none → Run.realised (copyOf f s st) = Run.realised f)
    ∧ (winning s f = none → isEntry f.kind = true →
        Run.realised (copyOf f s st) = .mul (Run.realised f) (.const ((1 : α) / (s.strata.length : α))))
    ∧ (conservation f s →
        Run.realised (copyOf f s st) = .mul (Run.realised f) (.const ((1 : α) / (s.strata.length : α))))
    ∧ (winning s f = none → isEntry f.kind = false → ¬ conservation f s →
        Run.realised (copyOf f s st) = Run.realised f) := by
  have h0 := absShare_of_not_abs (s := s) habs
  refine ⟨fun a x hw hl => ?_, fun a x hw hl => ?_, fun a hw hl => ?_, fun hw he => ?_, fun hc => ?_, fun hw he hc => ?_⟩
  · rw [copy_weight, extraAdj_user hb hw, h0, userAdj_some hl]; rfl
  · rw [copy_weight, extraAdj_user hb hw, h0, userAdj_some hl]; rfl
  · rw [copy_weight, extraAdj_user hb hw, h0, userAdj_none (Or.inl hl)]; rfl
  · rw [copy_weight, extraAdj_auto hb hw, h0, autoAdj_entry he]; rfl
  · rw [copy_weight, extraAdj_auto hb hc.2.2.2.2.2, h0, autoAdj_conservation hc]; rfl
  · rw [copy_weight, extraAdj_auto hb hw, h0, autoAdj_none he hc]; rfl

/-- an absolute flow's weight is shared once: with the conservation split the copy is the parent
times `1/n`; without it (and `n > 1`, no user adjustment) the copy is the parent times `1/n` as well,
through the absolute share -/
theorem absolute_shared_once [One α] [Div α] [NatCast α] {f : Flow α} {s : Strat α}
    (habs : absoluteShareKinds.contains f.kind = true) (hw : winning s f = none) (hn : 1 < s.strata.length) (st : String) :
    Run.realised (copyOf f s st) = .mul (Run.realised f) (.const ((1 : α) / (s.strata.length : α))) := by
  have he : isEntry f.kind = false := by
    cases hk : isEntry f.kind with
    | false => rfl
    | true => rw [isEntry_not_abs _ hk] at habs; cases habs
  have hb : ¬ birthIntoAge f s := fun h => by
    have := not_isEntry_not_birth _ he; rw [h.1] at this; cases this
  by_cases hc : conservation f s
  · rw [copy_weight, extraAdj_auto hb hw, absShare_of_conservation hc, autoAdj_conservation hc]; rfl
  · rw [copy_weight, extraAdj_auto hb hw, absShare_of_abs habs hn hc, autoAdj_none he hc]; rfl

open Spec.Ex in
/-- non-vacuity of `absolute_shared_once` (executed on `Int`): destination-only stratification
(conservation split, no extra share) and both-ends stratification (extra share, no split) both give
exactly one `Multiply(1/n)` -/
example :
    let f := flow .absolute "abs" (some ⟨"S", []⟩) (some ⟨"I", []⟩)
    (stratifyFlow f (strat .plain "loc" ["u", "r"] ["I"] [])).toOption.map (fun fs => fs.map (fun g => g.adjs.length)) = some [1, 1]
    ∧ (stratifyFlow f (strat .plain "loc" ["u", "r"] ["S", "I"] [])).toOption.map (fun fs => fs.map (fun g => g.adjs.length)) = some [1, 1]
    ∧ conservation f (strat .plain "loc" ["u", "r"] ["I"] [])
    ∧ ¬ conservation f (strat .plain "loc" ["u", "r"] ["S", "I"] []) :=
  ⟨rfl, rfl, by decide, by decide⟩

/-! ### `C04.add_after` -/

/-- `_add_entry_flow` on any (possibly stratified) model: one flow per selected compartment, in
model order, appended after the existing flows -/
theorem add_after_entry {m m' : Model α} {kind : FlowKind} {name : String} {param : Expr α} {dest : String}
    {ds : Strata} {ex : Option Nat} {adjs : List (Adj α)}
    (h : addEntry m kind name param dest ds ex adjs = .ok m') :
    m'.flows = m.flows ++ (select dest ds m.comps).map
        (fun d => { kind := kind, name := name, src := none, dst := some d, param := param, adjs := adjs })
    ∧ m'.comps = m.comps := by
  rw [(addEntry_ok h).1]; exact ⟨rfl, rfl⟩

theorem add_after_exit {m m' : Model α} {kind : FlowKind} {name : String} {param : Expr α} {source : String}
    {ss : Strata} {ex : Option Nat}
    (h : addExit m kind name param source ss ex = .ok m') :
    m'.flows = m.flows ++ (select source ss m.comps).map
        (fun c => { kind := kind, name := name, src := some c, dst := none, param := param, adjs := [] })
    ∧ m'.comps = m.comps := by
  rw [(addExit_ok h).1]; exact ⟨rfl, rfl⟩

/-- `_add_transition_flow`: one flow per zipped (source, destination) pair of the two selections, in
model order; the two selections have the same length -/
theorem add_after_transition {m m' : Model α} (hk : ∀ c ∈ m.comps, KeysNodup c.strata) {kind : FlowKind}
    {name : String} {param : Expr α} {source dest : String} {ss ds : Strata} {ex : Option Nat}
    (h : addTransitionCore m kind name param source dest ss ds ex = .ok m') :
    m'.flows = m.flows ++ ((select source ss m.comps).zip (select dest ds m.comps)).map
        (fun sd => { kind := kind, name := name, src := some sd.1, dst := some sd.2, param := param, adjs := [] })
    ∧ (select dest ds m.comps).length = (select source ss m.comps).length
    ∧ m'.comps = m.comps := by
  have := addTransitionCore_ok hk h
  rw [this.1]; exact ⟨rfl, this.2.1, rfl⟩

/-- and the entry call succeeds exactly as expected -/
theorem add_after_entry_ok {m : Model α} {kind : FlowKind} {name : String} {param : Expr α} {dest : String}
    {ds : Strata} {ex : Option Nat} {adjs : List (Adj α)}
    (hf : m.finalized = false) (hex : ∀ e, ex = some e → e = (select dest ds m.comps).length) :
    ∃ m', addEntry m kind name param dest ds ex adjs = .ok m' :=
  ⟨_, addEntry_eq_ok hf hex⟩

open Spec.Ex in
/-- non-vacuity: a death flow added to the stratified example model gets one flow per `S` compartment -/
example : ∃ m' : Model Int, addExit model .death "d2" (.const 1) "S" [] (some 2) = .ok m'
    ∧ m'.flows.length = model.flows.length + 2 := ⟨_, rfl, rfl⟩

open Spec.Ex in
example : ∃ m' : Model Int, addTransitionCore model .transition "rec" (.const 1) "I" "S" [] [] none = .ok m'
    ∧ (∀ c ∈ model.comps, KeysNodup c.strata) ∧ m'.flows.length = model.flows.length + 2 := ⟨_, rfl, by decide, rfl⟩

end
end Summer.C04

#print axioms Summer.C04.last_match_wins
#print axioms Summer.C04.last_match_wins_ok
#print axioms Summer.C04.last_match_wins_raises
#print axioms Summer.C04.winning_some_iff
#print axioms Summer.C04.winning_none_iff
#print axioms Summer.C04.copies
#print axioms Summer.C04.copies_ok
#print axioms Summer.C04.copies_untouched
#print axioms Summer.C04.copies_touched
#print axioms Summer.C04.copies_birth_age
#print axioms Summer.C04.stratEnd_spec
#print axioms Summer.C04.copies_count
#print axioms Summer.C04.copies_fields
#print axioms Summer.C04.copies_nodup
#print axioms Summer.C04.flows_after_stratify
#print axioms Summer.C04.flows_after_stratify_reachable
#print axioms Summer.C04.flows_after_stratify_not_age
#print axioms Summer.C04.ageing_spec
#print axioms Summer.C04.ageing_pairs_lt
#print axioms Summer.C04.ageing_rate
#print axioms Summer.C04.copy_adjustments
#print axioms Summer.C04.adj_birth_age
#print axioms Summer.C04.adj_user
#print axioms Summer.C04.adj_auto
#print axioms Summer.C04.adj_absolute
#print axioms Summer.C04.copy_weight
#print axioms Summer.C04.applyAdjs_spec
#print axioms Summer.C04.copy_weight_cases
#print axioms Summer.C04.absolute_shared_once
#print axioms Summer.C04.add_after_entry
#print axioms Summer.C04.add_after_exit
#print axioms Summer.C04.add_after_transition
#print axioms Summer.C04.add_after_entry_ok
