import Summer.Model.Run
-- placeholder until the proof worker delivers (replaced by the real file)
namespace Summer.Props.C04
theorem placeholder : True := trivial
end Summer.Props.C04
#print axioms Summer.Props.C04.placeholder
