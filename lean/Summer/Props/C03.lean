import Summer.Proofs.AggregateRates
import Summer.Proofs.AggregateSplit
import Summer.Proofs.AggregateFoi
import Summer.Proofs.AggregateInfection
import Summer.Proofs.AggregateFoiSimple
import Summer.Proofs.AggregateTraj
/-
C03 — stratifying without adjustments does not change the aggregate dynamics.

Model: `Build.stratifyFlow` / `stratifyComps` / `stratifyWith`, `Run.realised`, `Run.flowRates`,
`Run.compRates`.  Specification: `Summer/Spec/Aggregate.lean` (`Spec.agg`, `Spec.copiesA`, `Spec.copy`,
`Spec.rateLaw`, `Spec.weightVal`).

Everything is stated for an arbitrary ordered field, so the number `n` of strata is invertible as
soon as there is at least one stratum (`s.strata ≠ []`).
-/
set_option linter.unusedSectionVars false
set_option linter.unnecessarySeqFocus false

namespace Summer.C03
open Summer Summer.Build Summer.Run Summer.Spec Summer.Proofs

variable {α : Type} [Field α] [LinearOrder α] [IsStrictOrderedRing α]

private theorem n_ne_zero (s : Strat α) (h : s.strata ≠ []) : (s.strata.length : α) ≠ 0 := by
  have : s.strata.length ≠ 0 := by
    intro e; exact h (List.length_eq_zero_iff.1 e)
  exact_mod_cast this

/-! ## 0. the copiesA: what `stratifyFlow` produces for an unadjusted stratification -/

/-- With no flow adjustments `stratifyFlow` never fails and returns the documented copiesA. -/
theorem stratifyFlow_copies (s : Strat α) (f : Flow α) (hun : s.flowAdj = []) :
    stratifyFlow f s = .ok (Spec.copiesA s f) :=
  stratifyFlow_unadj s f hun

/-- the ends, kind, name and rate parameter of a copy (`Spec.copy`), for reference -/
theorem copy_fields (f : Flow α) (s : Strat α) (srcS dstS : Bool) (extra : List (Adj α)) (st : String) :
    (Spec.copy f s srcS dstS extra st).kind = f.kind ∧ (Spec.copy f s srcS dstS extra st).name = f.name ∧
    (Spec.copy f s srcS dstS extra st).param = f.param ∧
    (Spec.copy f s srcS dstS extra st).adjs = f.adjs ++ extra ∧
    (Spec.copy f s srcS dstS extra st).src = (if srcS then f.src.map (·.stratify s.name st) else f.src) ∧
    (Spec.copy f s srcS dstS extra st).dst = (if dstS then f.dst.map (·.stratify s.name st) else f.dst) :=
  ⟨rfl, rfl, rfl, rfl, rfl, rfl⟩

/-! ## 1. `weights_sum`: the realised weights of the copiesA, class by class

`w` is the value of the parent's realised weight in the environment `env`. -/

/-- Entry flows (crude birth, replacement birth, import) into a stratified destination, except births
under an age stratification: `n` copiesA, one per stratum, into the children of the destination, each
of weight `w/n`; the weights add up to `w`. -/
theorem weights_entry (s : Strat α) (f : Flow α) (env : Env α) (w : α) (hun : s.flowAdj = [])
    (hk : isEntryKind f.kind = true) (hd : endStratified f.dst s = true)
    (hnb : ¬ (isBirthKind f.kind = true ∧ s.kind = .age)) (hne : s.strata ≠ [])
    (hw : (realised f).eval env = some w) :
    let n := s.strata.length
    let cp := Spec.copy f s false true [Spec.shareA n]
    stratifyFlow f s = .ok (s.strata.map cp) ∧ (s.strata.map cp).length = n ∧
      (∀ st, (cp st).src = f.src ∧ (cp st).dst = f.dst.map (·.stratify s.name st)) ∧
      (∀ st, (realised (cp st)).eval env = some (w * (1 / (n : α)))) ∧
      sumL ((s.strata.map cp).map (weightVal env)) = w := by
  intro n cp
  have hcop : Spec.copiesA s f = s.strata.map cp := by
    have hb : (isBirthKind f.kind && s.kind == .age) = false := by
      rw [Bool.and_eq_false_iff]
      by_cases h1 : isBirthKind f.kind = true
      · right; simpa using fun e => hnb ⟨h1, e⟩
      · left; simpa using h1
    simp only [Spec.copiesA, hk, hd, hb, if_true, Bool.not_true, Bool.false_eq_true, if_false]
    rfl
  refine ⟨by rw [stratifyFlow_unadj s f hun, hcop], by simp [n], fun st => ⟨rfl, rfl⟩,
    fun st => eval_copy_share env f s _ _ _ st w hw, ?_⟩
  rw [wsum_share env f s _ _ (n_ne_zero s hne), weightVal_of_eval env f w hw]

/-- Birth flows (crude or replacement) into a stratified destination under an AGE stratification
whose strata are distinct and contain `"0"`: exactly one copy, into the age-0 child, of weight `w`. -/
theorem weights_birth_age (s : Strat α) (f : Flow α) (env : Env α) (w : α) (hun : s.flowAdj = [])
    (hk : isBirthKind f.kind = true) (hage : s.kind = .age) (hd : endStratified f.dst s = true)
    (hnd : s.strata.Nodup) (h0 : "0" ∈ s.strata) (hw : (realised f).eval env = some w) :
    let cp := Spec.copy f s false true [] "0"
    stratifyFlow f s = .ok [cp] ∧ cp.src = f.src ∧ cp.dst = f.dst.map (·.stratify s.name "0") ∧
      (realised cp).eval env = some w := by
  intro cp
  have hk' : isEntryKind f.kind = true := by
    cases hkk : f.kind <;> simp [hkk, isBirthKind] at hk <;> rfl
  have hcop : Spec.copiesA s f = [cp] := by
    simp only [Spec.copiesA, hk', hd, hk, hage, if_true, Bool.not_true, Bool.false_eq_true, if_false,
      BEq.rfl, Bool.and_self, filter_zero_of_nodup _ hnd h0, List.map_cons, List.map_nil]
    rfl
  exact ⟨by rw [stratifyFlow_unadj s f hun, hcop], rfl, rfl, by rw [eval_copy_nil]; exact hw⟩

/-- Exit flows (deaths) from a stratified source: `n` copiesA, one per stratum, out of the children of
the source, each of the parent's weight `w`. -/
theorem weights_exit (s : Strat α) (f : Flow α) (env : Env α) (w : α) (hun : s.flowAdj = [])
    (hk : isDeath f.kind = true) (hsrc : endStratified f.src s = true)
    (hw : (realised f).eval env = some w) :
    let cp := Spec.copy f s true false []
    stratifyFlow f s = .ok (s.strata.map cp) ∧ (s.strata.map cp).length = s.strata.length ∧
      (∀ st, (cp st).src = f.src.map (·.stratify s.name st) ∧ (cp st).dst = f.dst) ∧
      (∀ st, (realised (cp st)).eval env = some w) := by
  intro cp
  have hk' : isEntryKind f.kind = false := by
    cases hkk : f.kind <;> simp [hkk, isDeath] at hk <;> rfl
  have hcop : Spec.copiesA s f = s.strata.map cp := by
    simp only [Spec.copiesA, hk', hk, hsrc, if_true, Bool.not_true, Bool.false_eq_true, if_false]
    rfl
  exact ⟨by rw [stratifyFlow_unadj s f hun, hcop], by simp, fun st => ⟨rfl, rfl⟩,
    fun st => by rw [eval_copy_nil]; exact hw⟩

/-- transition-type flows whose rate is proportional to the source population -/
def isTransLike : FlowKind → Bool
  | .transition => true | .infFreq => true | .infDens => true | _ => false

/-- Transition / infection flows with a stratified source (destination stratified or not; ANY kind of
stratification, strain included): `n` copiesA, one per stratum, each of the parent's weight `w`. -/
theorem weights_transition_src (s : Strat α) (f : Flow α) (env : Env α) (w : α) (hun : s.flowAdj = [])
    (hk : isTransLike f.kind = true) (hsrc : endStratified f.src s = true)
    (hw : (realised f).eval env = some w) :
    let dstS := endStratified f.dst s
    let cp := Spec.copy f s true dstS []
    stratifyFlow f s = .ok (s.strata.map cp) ∧ (s.strata.map cp).length = s.strata.length ∧
      (∀ st, (cp st).src = f.src.map (·.stratify s.name st) ∧
        (cp st).dst = if dstS then f.dst.map (·.stratify s.name st) else f.dst) ∧
      (∀ st, (realised (cp st)).eval env = some w) := by
  intro dstS cp
  have hcop : Spec.copiesA s f = s.strata.map cp := by
    cases hkk : f.kind <;> simp [hkk, isTransLike] at hk <;>
      simp [Spec.copiesA, hkk, isEntryKind, isDeath, hsrc, cp, dstS]
  exact ⟨by rw [stratifyFlow_unadj s f hun, hcop], by simp, fun st => ⟨rfl, rfl⟩,
    fun st => by rw [eval_copy_nil]; exact hw⟩

/-- Transition / infection flows with only the destination stratified, under a NON-strain
stratification: `n` copiesA from the same source into the children of the destination, each of weight
`w/n`; the weights add up to `w`. -/
theorem weights_transition_dst (s : Strat α) (f : Flow α) (env : Env α) (w : α) (hun : s.flowAdj = [])
    (hk : isTransLike f.kind = true) (hsrc : endStratified f.src s = false)
    (hdst : endStratified f.dst s = true) (hstrain : s.kind ≠ .strain) (hne : s.strata ≠ [])
    (hw : (realised f).eval env = some w) :
    let n := s.strata.length
    let cp := Spec.copy f s false true [Spec.shareA n]
    stratifyFlow f s = .ok (s.strata.map cp) ∧ (s.strata.map cp).length = n ∧
      (∀ st, (cp st).src = f.src ∧ (cp st).dst = f.dst.map (·.stratify s.name st)) ∧
      (∀ st, (realised (cp st)).eval env = some (w * (1 / (n : α)))) ∧
      sumL ((s.strata.map cp).map (weightVal env)) = w := by
  intro n cp
  have hs' : (s.kind == StratKind.strain) = false := by simpa using hstrain
  have hcop : Spec.copiesA s f = s.strata.map cp := by
    cases hkk : f.kind <;> simp [hkk, isTransLike] at hk <;>
      simp [Spec.copiesA, hkk, isEntryKind, isDeath, hsrc, hdst, hs', cp, n]
  refine ⟨by rw [stratifyFlow_unadj s f hun, hcop], by simp [n], fun st => ⟨rfl, rfl⟩,
    fun st => eval_copy_share env f s _ _ _ st w hw, ?_⟩
  rw [wsum_share env f s _ _ (n_ne_zero s hne), weightVal_of_eval env f w hw]

/-- Transition-type flows (including absolute flows) none of whose ends is stratified are kept. -/
theorem weights_transition_none (s : Strat α) (f : Flow α) (hun : s.flowAdj = [])
    (hk : isEntryKind f.kind = false) (hk2 : isDeath f.kind = false)
    (hsrc : endStratified f.src s = false) (hdst : endStratified f.dst s = false) :
    stratifyFlow f s = .ok [f] := by
  rw [stratifyFlow_unadj s f hun]
  simp [Spec.copiesA, hk, hk2, hsrc, hdst]

/-- Absolute flows with at least one stratified end (any kind of stratification): `n` copiesA with
the stratified ends replaced by their children, each of weight `w/n` (shared exactly once, also when
only the destination is stratified); the weights add up to `w`. -/
theorem weights_absolute (s : Strat α) (f : Flow α) (env : Env α) (w : α) (hun : s.flowAdj = [])
    (hk : f.kind = .absolute) (hends : (endStratified f.dst s || endStratified f.src s) = true)
    (hne : s.strata ≠ []) (hw : (realised f).eval env = some w) :
    let n := s.strata.length
    let srcS := endStratified f.src s
    let dstS := endStratified f.dst s
    ∃ extra : List (Adj α), (extra = [] ∨ extra = [Spec.shareA n]) ∧
      stratifyFlow f s = .ok (s.strata.map (Spec.copy f s srcS dstS extra)) ∧
      (∀ st, (realised (Spec.copy f s srcS dstS extra st)).eval env = some (w * (1 / (n : α)))) ∧
      sumL ((s.strata.map (Spec.copy f s srcS dstS extra)).map (weightVal env)) = w := by
  intro n srcS dstS
  have hn := n_ne_zero s hne
  by_cases hc : (dstS && !srcS && !(s.kind == .strain)) = true
  · refine ⟨[Spec.shareA n], Or.inr rfl, ?_, fun st => eval_copy_share env f s _ _ _ st w hw, ?_⟩
    · rw [stratifyFlow_unadj s f hun]
      simp only [Spec.copiesA, hk, isEntryKind, isDeath, hends, Bool.not_true, Bool.false_eq_true, if_false]
      simp only [dstS, srcS] at hc
      simp only [hc, if_true]; rfl
    · exact wsum_share env f s _ _ hn |>.trans (weightVal_of_eval env f w hw)
  · by_cases h1 : 1 < n
    · refine ⟨[Spec.shareA n], Or.inr rfl, ?_, fun st => eval_copy_share env f s _ _ _ st w hw, ?_⟩
      · rw [stratifyFlow_unadj s f hun]
        simp only [Spec.copiesA, hk, isEntryKind, isDeath, hends, Bool.not_true, Bool.false_eq_true, if_false]
        simp only [dstS, srcS] at hc
        simp only [hc, Bool.false_eq_true, if_false]
        have : decide (1 < s.strata.length) = true := by simpa [n] using h1
        simp only [BEq.rfl, this, Bool.and_self, if_true]; rfl
      · exact wsum_share env f s _ _ hn |>.trans (weightVal_of_eval env f w hw)
    · have hn1 : n = 1 := by
        have : n ≠ 0 := by intro e; apply hne; exact List.length_eq_zero_iff.1 e
        omega
      have hcop : Spec.copiesA s f = s.strata.map (Spec.copy f s srcS dstS []) := by
        simp only [Spec.copiesA, hk, isEntryKind, isDeath, hends, Bool.not_true, Bool.false_eq_true, if_false]
        simp only [dstS, srcS] at hc
        simp only [hc, Bool.false_eq_true, if_false]
        have : decide (1 < s.strata.length) = false := by simpa [n] using h1
        simp only [this, Bool.and_false, Bool.false_eq_true, if_false]; rfl
      refine ⟨[], Or.inl rfl, by rw [stratifyFlow_unadj s f hun, hcop], fun st => ?_, ?_⟩
      · rw [eval_copy_nil, hw, hn1]; simp
      · rw [List.map_map]
        have : (weightVal env ∘ Spec.copy f s srcS dstS []) = fun _ => w := by
          funext st; simp only [Function.comp]; rw [weightVal_copy_nil, weightVal_of_eval env f w hw]
        rw [this, sumL_map_const]
        have : s.strata.length = 1 := hn1
        rw [this]; simp

/-! ## 2. `copies_rate_sum`: the copiesA' rates add up to the parent's rate at the aggregated state -/

/-- Aggregation preserves the total population. -/
theorem agg_total (comps : List Comp) (s : Strat α) (x' : List α)
    (hx : x'.length = (stratifyComps comps s).length) : sumL (Spec.agg comps s x') = sumL x' :=
  Proofs.agg_total comps s x' hx

/-- The aggregate of a stratified state, compartment by compartment: the sum over the strata of the
children's values for a stratified compartment, the compartment's own value otherwise.
Hypotheses (`StratOk`): the compartments are distinct, the stratification's name is a new strata key
for all of them, and the strata are distinct. -/
theorem agg_entry (comps : List Comp) (s : Strat α) (hfresh : freshFor comps s = true) (hnd : comps.Nodup)
    (hst : s.strata.Nodup) (x' : List α) (hx : x'.length = (stratifyComps comps s).length)
    (c : Comp) (hc : c ∈ comps) :
    popOf comps (Spec.agg comps s x') (some c) =
      if isStratified s c then
        sumL (s.strata.map (fun st => popOf (stratifyComps comps s) x' (some (c.stratify s.name st))))
      else popOf (stratifyComps comps s) x' (some c) :=
  popOf_agg ⟨hfresh, hnd, hst⟩ x' hx c hc

/-- **copies_rate_sum.**  For every flow `f` whose source (if any) is a compartment of the model and
every unadjusted non-strain stratification, the rates of the copiesA of `f` under the documented
per-flow law (`Spec.rateLaw`: population-proportional `w'·x'[src']`, crude birth `w'·Σx'`,
import/absolute `w'`, replacement birth `w'·deaths`), evaluated at a stratified state `x'`, add up to
the rate of `f` at the aggregated state `agg x'`.  (For infection flows `rateLaw` is the rate before the
force-of-infection multiplier.)  No sign condition on `x'` is needed here: the rate laws are applied
to the already cleaned state. -/
theorem copies_rate_sum (comps : List Comp) (s : Strat α) (hfresh : freshFor comps s = true)
    (hnd : comps.Nodup) (hst : s.strata.Nodup) (hne : s.strata ≠ []) (hstrain : s.kind ≠ .strain)
    (hage : s.kind = .age → "0" ∈ s.strata)
    (x' : List α) (hx : x'.length = (stratifyComps comps s).length)
    (f : Flow α) (hsrc : ∀ c, f.src = some c → c ∈ comps) (deaths : α) (env : Env α) :
    sumL ((Spec.copiesA s f).map (fun g => Spec.rateLaw (stratifyComps comps s) x' deaths (weightVal env g) g))
      = Spec.rateLaw comps (Spec.agg comps s x') deaths (weightVal env f) f :=
  Proofs.copies_rate_sum ⟨hfresh, hnd, hst⟩ (n_ne_zero s hne) hstrain hage x' hx f hsrc deaths env

/-- `Spec.rateLaw` is the documented law `Spec.flowRate` of C01 for every non-infection flow
(the weight list `w` holds the flow's weight at its position `i`). -/
theorem rateLaw_eq_flowRate (m : Model α) (w x mults : List α) (i : Nat) (f : Flow α)
    (hni : isInfection f.kind = false) :
    Spec.flowRate m w x mults i f = Spec.rateLaw m.comps x (Spec.deathTotal m w x) (w.getD i 0) f := by
  cases hk : f.kind <;> simp [hk, isInfection] at hni <;> simp only [Spec.flowRate, Spec.rateLaw, hk] <;> rfl

/-! ## 4. `rates_agg`: aggregating the compartment rates -/

/-- **rates_agg, models without infection flows.**
Let `m'` be the model obtained from `m` by `stratify_with` of an ordinary, partial or age
stratification `s` without flow adjustments and without mixing matrix (any population split), let `b`,
`b'` be the backends of `m`, `m'`, and let both weight vectors be the realised weights evaluated in one
and the same environment `env` (parameters, time).  Then for every stratified state `x'`
(one entry per compartment of `m'`; it plays the role of the cleaned state, so no sign condition)

  `agg (compRates b' (flowRates b' w' x' mults')) = compRates b (flowRates b w (agg x') mults)`.

The ageing flows of an age stratification cancel in the aggregate.

Hypotheses: `m.comps` distinct, `s.name` a new strata key (`freshFor`), strata distinct and non-empty,
`"0"` among the strata of an age stratification (all guaranteed by `mkStrat` / `stratify_with` on
API-built models), every population-proportional flow has a source (`sourcedOk`), and `m` has no
infection flow. -/
theorem rates_agg_partial_no_infection (m m' : Model α) (s : Strat α) (b b' : Backend)
    (hsw : stratifyWith m s = .ok m') (hb : prepare m = .ok b) (hb' : prepare m' = .ok b')
    (hfa : s.flowAdj = []) (hmix : s.mixing = none) (hstrain : s.kind ≠ .strain)
    (hage : s.kind = .age → "0" ∈ s.strata)
    (hfresh : freshFor m.comps s = true) (hnd : m.comps.Nodup) (hst : s.strata.Nodup) (hne : s.strata ≠ [])
    (hs : sourcedOk m = true) (hni : ∀ f ∈ m.flows, isInfection f.kind = false)
    (env : Env α) (w w' : List α)
    (hw : m.flows.mapM (fun f => (realised f).eval env) = some w)
    (hw' : m'.flows.mapM (fun f => (realised f).eval env) = some w')
    (x' : List α) (hx : x'.length = m'.comps.length) (mults mults' : List α) :
    Spec.agg m.comps s (compRates b' (flowRates b' w' x' mults'))
      = compRates b (flowRates b w (Spec.agg m.comps s x') mults) := by
  rw [mapM_eval_eq_map env _ _ hw, mapM_eval_eq_map env _ _ hw']
  exact rates_agg_no_infection hsw hb hb' hfa hmix hstrain hage ⟨hfresh, hnd, hst⟩ (n_ne_zero s hne) hs hni
    x' hx env mults mults'

/-- **rates_agg with infection flows, modulo the multipliers.**  Same setting as
`rates_agg_partial_no_infection` but `m` may contain infection flows.  The infection multipliers are
given as functions of the flow (`M` for `m`, `M'` for `m'`: position `infPos` of the multiplier vectors
holds the multiplier of the corresponding infection flow); the conclusion holds as soon as every copy
of an infection flow sees the multiplier of its parent (`hMM`) — which is what aggregation of the
force of infection provides (the force of infection depends on the state only through sums over
mixing categories, and a stratification without mixing matrix adds no category).
What is NOT proved here is `hMM` itself for the multipliers computed by `Run.infectiousMultipliers`. -/
theorem rates_agg_partial (m m' : Model α) (s : Strat α) (b b' : Backend)
    (hsw : stratifyWith m s = .ok m') (hb : prepare m = .ok b) (hb' : prepare m' = .ok b')
    (hfa : s.flowAdj = []) (hmix : s.mixing = none) (hstrain : s.kind ≠ .strain)
    (hage : s.kind = .age → "0" ∈ s.strata)
    (hfresh : freshFor m.comps s = true) (hnd : m.comps.Nodup) (hst : s.strata.Nodup) (hne : s.strata ≠ [])
    (hs : sourcedOk m = true)
    (env : Env α) (w w' : List α)
    (hw : m.flows.mapM (fun f => (realised f).eval env) = some w)
    (hw' : m'.flows.mapM (fun f => (realised f).eval env) = some w')
    (x' : List α) (hx : x'.length = m'.comps.length) (mults mults' : List α) (M M' : Flow α → α)
    (hM : ∀ i (hi : i < m.flows.length), isInfection m.flows[i].kind = true →
      mults.getD (infPos m i) 1 = M m.flows[i])
    (hM' : ∀ i (hi : i < m'.flows.length), isInfection m'.flows[i].kind = true →
      mults'.getD (infPos m' i) 1 = M' m'.flows[i])
    (hMM : ∀ f ∈ m.flows, isInfection f.kind = true → ∀ g ∈ Spec.copiesA s f, M' g = M f) :
    Spec.agg m.comps s (compRates b' (flowRates b' w' x' mults'))
      = compRates b (flowRates b w (Spec.agg m.comps s x') mults) := by
  rw [mapM_eval_eq_map env _ _ hw, mapM_eval_eq_map env _ _ hw']
  obtain ⟨hcomps, extra, hflows, hextra, _⟩ := stratifyWith_shape m m' s hsw hfa hmix hstrain hfresh
  exact rates_agg_of_shape_mult ⟨hfresh, hnd, hst⟩ (n_ne_zero s hne) hstrain hage extra hcomps hflows hextra
    (backendFor_of_prepare m b hb) (backendFor_of_prepare m' b' hb') hs x' hx env mults mults' M M' hM hM' hMM

/-- **rates_agg, infection flows included, for models with the simplest mixing structure.**
Let `m` have a single mixing category (`mixingCats = [[]]`, no mixing matrix) and no infectiousness
adjustments in any of its previous stratifications (it may have been stratified any number of times,
may have several strains), and let `s` be an ordinary, partial or age stratification without flow
adjustments, infectiousness adjustments or mixing matrix, not itself called `"strain"`.  Then for
every non-negative stratified state `x'` and weights that do not read the state, whenever both
right-hand sides are defined,

  `agg (rhs m' b' params x' t) = rhs m b params (agg x') t`,

the forces of infection (frequency- or density-dependent, per strain) being those computed by the
runner (`Run.infectiousMultipliers`): the per-strain infected population and the category population
of `m'` at `x'` are those of `m` at `agg x'`. -/
theorem rhs_agg_partial_single_category (m m' : Model α) (s : Strat α) (b b' : Backend)
    (hsw : stratifyWith m s = .ok m') (hb : prepare m = .ok b) (hb' : prepare m' = .ok b')
    (hfa : s.flowAdj = []) (hia : s.infAdj = []) (hmix : s.mixing = none) (hstrain : s.kind ≠ .strain)
    (hage : s.kind = .age → "0" ∈ s.strata) (hname : s.name ≠ "strain")
    (hfresh : freshFor m.comps s = true) (hnd : m.comps.Nodup) (hst : s.strata.Nodup) (hne : s.strata ≠ [])
    (hs : sourcedOk m = true)
    (hcat : m.mixingCats = [[]]) (hmats : m.mixingMats = []) (hnoinf : ∀ t ∈ m.strats, t.infAdj = [])
    (hsf : ∀ g ∈ m'.flows, Spec.stateFree (realised g) = true)
    (params : List (String × α)) (t : α) (x' : List α) (hx : x'.length = m'.comps.length)
    (hnn : ∀ v ∈ x', 0 ≤ v) (r r' : List α)
    (hr' : rhs m' b' params x' t = some r') (hr : rhs m b params (Spec.agg m.comps s x') t = some r) :
    Spec.agg m.comps s r' = r :=
  rhs_agg_single hsw hb hb' hfa hia hmix hstrain hage hname ⟨hfresh, hnd, hst⟩ hne hs hcat hmats hnoinf hsf
    params t x' hx hnn r r' hr' hr

/-- the shape of the stratified model used above: the compartments are `stratifyComps`, the flows are
the copiesA of the parent flows in order, followed (age stratification only) by ageing flows, each a
transition between two children of one parent compartment -/
theorem stratified_model_shape (m m' : Model α) (s : Strat α) (hsw : stratifyWith m s = .ok m')
    (hfa : s.flowAdj = []) (hmix : s.mixing = none) (hstrain : s.kind ≠ .strain)
    (hfresh : freshFor m.comps s = true) :
    m'.comps = stratifyComps m.comps s ∧ ∃ extra, m'.flows = m.flows.flatMap (Spec.copiesA s) ++ extra ∧
      (∀ g ∈ extra, g.kind = .transition ∧ ∃ c0 ∈ m.comps, ∃ a b,
        g.src = some (c0.stratify s.name a) ∧ g.dst = some (c0.stratify s.name b)) ∧
      (s.kind ≠ .age → extra = []) :=
  stratifyWith_shape m m' s hsw hfa hmix hstrain hfresh


/-- The same statement from the *shape* of the stratified model instead of `stratifyWith`
(`stratified_model_shape` provides the shape). -/
theorem rates_agg_of_shape_partial_no_infection (m m' : Model α) (s : Strat α) (b b' : Backend)
    (extra : List (Flow α))
    (hcomps : m'.comps = stratifyComps m.comps s)
    (hflows : m'.flows = m.flows.flatMap (Spec.copiesA s) ++ extra)
    (hextra : ∀ g ∈ extra, g.kind = .transition ∧ ∃ c0 ∈ m.comps, ∃ a b,
        g.src = some (c0.stratify s.name a) ∧ g.dst = some (c0.stratify s.name b))
    (hb : prepare m = .ok b) (hb' : prepare m' = .ok b')
    (hstrain : s.kind ≠ .strain) (hage : s.kind = .age → "0" ∈ s.strata)
    (hfresh : freshFor m.comps s = true) (hnd : m.comps.Nodup) (hst : s.strata.Nodup) (hne : s.strata ≠ [])
    (hs : sourcedOk m = true) (hni : ∀ f ∈ m.flows, isInfection f.kind = false)
    (env : Env α) (x' : List α) (hx : x'.length = m'.comps.length) (mults mults' : List α) :
    Spec.agg m.comps s (compRates b' (flowRates b' (m'.flows.map (weightVal env)) x' mults'))
      = compRates b (flowRates b (m.flows.map (weightVal env)) (Spec.agg m.comps s x') mults) :=
  rates_agg_of_shape ⟨hfresh, hnd, hst⟩ (n_ne_zero s hne) hstrain hage extra hcomps hflows hextra
    (backendFor_of_prepare m b hb) (backendFor_of_prepare m' b' hb') hs hni x' hx env mults mults'

/-- **rates_agg at the level of the rate function handed to the solvers** (`Run.rhs`), models without
infection flows: for a NON-NEGATIVE stratified state `x'` and weights that do not read the state
(`Spec.stateFree`: parameters and time only), whenever both right-hand sides are defined,

  `agg (rhs m' b' params x' t) = rhs m b params (agg x') t`.

Non-negativity is needed because the runner cleans the state first (`clean (-1) + clean 2 ≠ clean 1`). -/
theorem rhs_agg_partial_no_infection (m m' : Model α) (s : Strat α) (b b' : Backend)
    (hsw : stratifyWith m s = .ok m') (hb : prepare m = .ok b) (hb' : prepare m' = .ok b')
    (hfa : s.flowAdj = []) (hmix : s.mixing = none) (hstrain : s.kind ≠ .strain)
    (hage : s.kind = .age → "0" ∈ s.strata)
    (hfresh : freshFor m.comps s = true) (hnd : m.comps.Nodup) (hst : s.strata.Nodup) (hne : s.strata ≠ [])
    (hs : sourcedOk m = true) (hni : ∀ f ∈ m.flows, isInfection f.kind = false)
    (hsf : ∀ g ∈ m'.flows, Spec.stateFree (realised g) = true)
    (params : List (String × α)) (t : α) (x' : List α) (hx : x'.length = m'.comps.length)
    (hnn : ∀ v ∈ x', 0 ≤ v) (r r' : List α)
    (hr' : rhs m' b' params x' t = some r') (hr : rhs m b params (Spec.agg m.comps s x') t = some r) :
    Spec.agg m.comps s r' = r := by
  obtain ⟨w', mults', hw', rfl⟩ := rhs_some m' b' params x' t r' hr'
  obtain ⟨w, mults, hw, rfl⟩ := rhs_some m b params _ t r hr
  have hnn2 : NN (Spec.agg m.comps s x') := aggBy_NN _ _ _ _ hnn
  rw [cleanV_of_NN x' hnn] at hw' ⊢
  rw [cleanV_of_NN _ hnn2] at hw ⊢
  have hw'' : m'.flows.mapM (fun f => (realised f).eval ⟨params, t, Spec.agg m.comps s x'⟩) = some w' := by
    rw [← hw']
    exact mapM_option_congr _ _ _ (fun g hg => (eval_stateFree params t _ _ _ (hsf g hg)).symm)
  exact rates_agg_partial_no_infection m m' s b b' hsw hb hb' hfa hmix hstrain hage hfresh hnd hst hne hs hni
    ⟨params, t, Spec.agg m.comps s x'⟩ w w' hw hw'' x' hx mults mults'

/-! ## trajectories (explicit Euler) -/

/-- the vector field handed to the fixed-step solvers (`Driver`: undefined right-hand sides read as zero) -/
def field (m : Model α) (b : Backend) (params : List (String × α)) : List α → α → List α :=
  fun x t => (rhs m b params x t).getD (List.replicate m.comps.length 0)

/-- **Aggregation commutes with the explicit Euler scheme** along every stratified trajectory that stays
non-negative: if aggregation commutes with the right-hand sides on non-negative states (`hrhs`, which is
the conclusion of `rhs_agg_partial_no_infection` / `rhs_agg_partial_single_category`) and both right-hand
sides are defined there (`hdef`), then aggregating the Euler trajectory of the stratified model started
at `x0'` gives, state by state, the Euler trajectory of the unstratified model started at `agg x0'`
(any number of steps, any step size).  With `split_values`, `agg x0' = x0` when `x0'` is the split of `x0`. -/
theorem euler_agg_partial (m m' : Model α) (s : Strat α) (b b' : Backend)
    (hb' : prepare m' = .ok b')
    (params : List (String × α)) (times : List α) (x0' : List α)
    (hrhs : ∀ (x' : List α) (t : α) (r r' : List α), x'.length = m'.comps.length → (∀ v ∈ x', 0 ≤ v) →
      rhs m' b' params x' t = some r' → rhs m b params (Spec.agg m.comps s x') t = some r →
      Spec.agg m.comps s r' = r)
    (hdef : ∀ (x' : List α) (t : α), x'.length = m'.comps.length → (∀ v ∈ x', 0 ≤ v) →
      (rhs m' b' params x' t).isSome = true ∧ (rhs m b params (Spec.agg m.comps s x') t).isSome = true)
    (hQ : ∀ z ∈ Solvers.euler (field m' b' params) x0' times, z.length = m'.comps.length ∧ ∀ v ∈ z, 0 ≤ v) :
    (Solvers.euler (field m' b' params) x0' times).map (Spec.agg m.comps s)
      = Solvers.euler (field m b params) (Spec.agg m.comps s x0') times := by
  rw [euler_eq_traj, euler_eq_traj]
  rw [euler_eq_traj] at hQ
  refine eulerTraj_map (Spec.agg m.comps s) (field m b params) (field m' b' params) _
    (fun z => z.length = m'.comps.length ∧ ∀ v ∈ z, 0 ≤ v)
    (fun y k hl => aggBy_linear _ _ _ _ y k hl) ?_ _ x0' hQ
  intro y t ⟨hlen, hnn⟩
  obtain ⟨h1, h2⟩ := hdef y t hlen hnn
  obtain ⟨r', hr'⟩ := Option.isSome_iff_exists.1 h1
  obtain ⟨r, hr⟩ := Option.isSome_iff_exists.1 h2
  have hagg := hrhs y t r r' hlen hnn hr' hr
  unfold field
  rw [hr', hr]
  simp only [Option.getD_some]
  refine ⟨?_, hagg⟩
  obtain ⟨w, mults, _, rfl⟩ := rhs_some m' b' params y t r' hr'
  rw [Proofs.compRates_length (backendFor_of_prepare m' b' hb'), hlen]

/-! ## 3. `split_values`: aggregation undoes the population split -/

/-- What `stratifyValues` writes: for every parent compartment in order, its value if it is not
stratified, otherwise its value times the split proportion of every stratum. -/
theorem stratifyValues_blocks (comps : List Comp) (s : Strat α) (hst : s.strata.Nodup)
    (split : List (String × α)) (vals : List α) :
    stratifyValues (stratIndexArrays comps s) s.strata split vals
      = comps.zipIdx.flatMap (fun ck =>
          if isStratified s ck.1 then s.strata.map (fun st => vals.getD ck.2 0 * (alookup split st).getD 0)
          else [vals.getD ck.2 0]) :=
  Proofs.stratifyValues_blocks comps s hst split vals

/-- **split_values.**  If the split proportions of the (distinct) strata sum to one, aggregating the
stratified population returns the population that was split — whatever the split is. -/
theorem split_values (comps : List Comp) (s : Strat α) (hst : s.strata.Nodup) (split : List (String × α))
    (hsum : sumL (s.strata.map (fun st => (alookup split st).getD 0)) = 1) (vals : List α)
    (hlen : vals.length = comps.length) :
    Spec.agg comps s (stratifyValues (stratIndexArrays comps s) s.strata split vals) = vals :=
  agg_stratifyValues comps s hst split hsum vals hlen

/-! ## 5. strain stratifications: the forces of infection add up -/

/-- Transition / infection flows with only the destination stratified under a STRAIN stratification:
`n` copiesA into the children of the destination, each of the parent's full weight `w` (no `1/n`:
the split between the strains is made by the force of infection). -/
theorem weights_transition_dst_strain (s : Strat α) (f : Flow α) (env : Env α) (w : α) (hun : s.flowAdj = [])
    (hk : isTransLike f.kind = true) (hsrc : endStratified f.src s = false)
    (hdst : endStratified f.dst s = true) (hstrain : s.kind = .strain)
    (hw : (realised f).eval env = some w) :
    let cp := Spec.copy f s false true []
    stratifyFlow f s = .ok (s.strata.map cp) ∧ (s.strata.map cp).length = s.strata.length ∧
      (∀ st, (cp st).src = f.src ∧ (cp st).dst = f.dst.map (·.stratify s.name st)) ∧
      (∀ st, (realised (cp st)).eval env = some w) := by
  intro cp
  have hcop : Spec.copiesA s f = s.strata.map cp := by
    cases hkk : f.kind <;> simp [hkk, isTransLike] at hk <;>
      simp [Spec.copiesA, hkk, isEntryKind, isDeath, hsrc, hdst, hstrain, cp]
  exact ⟨by rw [stratifyFlow_unadj s f hun, hcop], by simp, fun st => ⟨rfl, rfl⟩,
    fun st => by rw [eval_copy_nil]; exact hw⟩

/-- **strain_foi_sum.**  `Run.forceOfInfection` is additive over strains: let strain `k` have infectious
values `iv k`, infectiousness `inf k` and category indexer `ci k` (`ncat` categories each), and let
`iv0, inf0, ci0` be those of the unstratified model.  If in every category the infected populations
(value × infectiousness, summed over the category) of the strains add up to the unstratified one,
then for every mixing matrix `mix` and category populations `catPops` the per-strain forces of
infection, density- and frequency-dependent, add up to the unstratified ones (row by row). -/
theorem strain_foi_sum {κ : Type} (strains : List κ) (iv inf : κ → List α) (ci : κ → List (List Nat))
    (iv0 inf0 : List α) (ci0 : List (List Nat)) (mix : Matrix α) (catPops : List α) (ncat : Nat)
    (hci : ∀ k ∈ strains, (ci k).length = ncat) (hci0 : ci0.length = ncat)
    (hpop : ∀ c, c < ncat → sumL (strains.map (fun k =>
        ((ci k).map (fun row => sumL (gather (vmul (iv k) (inf k)) row))).getD c 0))
      = (ci0.map (fun row => sumL (gather (vmul iv0 inf0) row))).getD c 0)
    (r : Nat) (hr : r < mix.length) :
    sumL (strains.map (fun k => (forceOfInfection (iv k) (inf k) (ci k) mix catPops).1.getD r 0))
        = (forceOfInfection iv0 inf0 ci0 mix catPops).1.getD r 0 ∧
    sumL (strains.map (fun k => (forceOfInfection (iv k) (inf k) (ci k) mix catPops).2.getD r 0))
        = (forceOfInfection iv0 inf0 ci0 mix catPops).2.getD r 0 :=
  foi_sum strains iv inf ci iv0 inf0 ci0 mix catPops ncat hci hci0 hpop r hr

/-- The hypothesis of `strain_foi_sum` from linearity of the category sums: when every strain uses the
category indexer of the unstratified model (strain stratification of all the infectious compartments:
the children of the infectious compartments in one strain are listed in the parents' order) and the
infected values add up position by position, the infected populations add up in every category. -/
theorem strain_infected_sum {κ : Type} (strains : List κ) (iv inf : κ → List α) (iv0 inf0 : List α)
    (ci0 : List (List Nat))
    (hinf : ∀ j, sumL (strains.map (fun k => (vmul (iv k) (inf k)).getD j 0)) = (vmul iv0 inf0).getD j 0)
    (c : Nat) (hc : c < ci0.length) :
    sumL (strains.map (fun k => (ci0.map (fun row => sumL (gather (vmul (iv k) (inf k)) row))).getD c 0))
      = (ci0.map (fun row => sumL (gather (vmul iv0 inf0) row))).getD c 0 :=
  infPops_sum strains iv inf iv0 inf0 ci0 hinf c hc

/-- Consequently the rates of the `n` per-strain copiesA of an infection flow (each of weight `w`, from
the same source `xS`) add up to the unstratified infection rate. -/
theorem strain_infection_rate_sum {κ : Type} (strains : List κ) (foi : κ → α) (foi0 w xS : α)
    (h : sumL (strains.map foi) = foi0) :
    sumL (strains.map (fun k => w * xS * foi k)) = w * xS * foi0 := by
  rw [sumL_map_mul_left, h]


/-! ## non-vacuity: concrete models on `Rat` -/
section example_
def cS : Comp := ⟨"S", []⟩
def cI : Comp := ⟨"I", []⟩
def cR : Comp := ⟨"R", []⟩

def fRecovery : Flow Rat :=
  { kind := .transition, name := "recovery", src := some cI, dst := some cR, param := .param "gamma",
    adjs := [.mul (.const 3), .ovr (.const (1/4)), .mul (.const 2)] }
def fRelapse : Flow Rat :=
  { kind := .transition, name := "relapse", src := some cR, dst := some cI, param := .const (1/5), adjs := [] }
def fDeath : Flow Rat := { kind := .death, name := "death", src := some cI, dst := none, param := .const (1/10), adjs := [] }
def fBirths : Flow Rat := { kind := .replBirth, name := "births", src := none, dst := some cS, param := .const 1, adjs := [] }
def fImports : Flow Rat := { kind := .importF, name := "imports", src := none, dst := some cI, param := .const 5, adjs := [] }
def fWaning : Flow Rat := { kind := .absolute, name := "waning", src := some cR, dst := some cS, param := .time, adjs := [] }
def fAbs2 : Flow Rat := { kind := .absolute, name := "abs2", src := some cS, dst := some cR, param := .const 7, adjs := [] }
def fAbs3 : Flow Rat := { kind := .absolute, name := "abs3", src := some cI, dst := some cS, param := .const 11, adjs := [] }

def exModel : Model Rat :=
  { t0 := 0, t1 := 10, dt := 1, nTimes := 11,
    comps := [cS, cI, cR], origNames := ["S", "I", "R"], infectious := ["I"],
    flows := [fRecovery, fRelapse, fDeath, fBirths, fImports, fWaning, fAbs2, fAbs3],
    strats := [], mixingCats := [[]], mixingMats := [], strains := ["default"],
    initDist := none, arrayPop := none, actions := [], requests := [], computed := [], whitelist := [],
    finalized := false }

def locStrat : Strat Rat :=
  { kind := .plain, name := "loc", strata := ["urban", "rural", "remote"], comps := ["S", "I"],
    split := [("urban", .const (1/2)), ("rural", .const (1/3)), ("remote", .const (1/6))],
    flowAdj := [], infAdj := [], mixing := none }

def ageStrat : Strat Rat :=
  { kind := .age, name := "age", strata := ["0", "5", "15"], comps := ["S", "I", "R"],
    split := [("0", .const (1/2)), ("5", .const (1/3)), ("15", .const (1/6))],
    flowAdj := [], infAdj := [], mixing := none }

def env0 : Env Rat := ⟨[("gamma", 7)], 3, []⟩

-- item 1
example := weights_entry locStrat fImports env0 5 rfl (by decide) (by decide) (by decide) (by decide) (by decide +kernel)
example := weights_entry locStrat fBirths env0 1 rfl (by decide) (by decide) (by decide) (by decide) (by decide +kernel)
example := weights_birth_age ageStrat fBirths env0 1 rfl (by decide) rfl (by decide) (by decide) (by decide) (by decide +kernel)
example := weights_entry ageStrat fImports env0 5 rfl (by decide) (by decide) (by decide) (by decide) (by decide +kernel)
example := weights_exit locStrat fDeath env0 (1/10) rfl (by decide) (by decide) (by decide +kernel)
example := weights_transition_src locStrat fRecovery env0 (1/2) rfl (by decide) (by decide) (by decide +kernel)
example := weights_transition_dst locStrat fRelapse env0 (1/5) rfl (by decide) (by decide) (by decide) (by decide) (by decide) (by decide +kernel)
example := weights_transition_none { locStrat with comps := ["S"] } fRecovery rfl (by decide) (by decide) (by decide) (by decide)
example := weights_absolute locStrat fWaning env0 3 rfl rfl (by decide) (by decide) (by decide +kernel)
example := weights_absolute locStrat fAbs2 env0 7 rfl rfl (by decide) (by decide) (by decide +kernel)
example := weights_absolute locStrat fAbs3 env0 11 rfl rfl (by decide) (by decide) (by decide +kernel)

/-- the copiesA of the absolute flow R → S (destination only stratified): shared once, 3 × (3 · 1/3) -/
example : (Spec.copiesA locStrat fWaning).map (fun g => (g.src, g.dst, (realised g).eval env0)) =
    [(some cR, some ⟨"S", [("loc", "urban")]⟩, some 1), (some cR, some ⟨"S", [("loc", "rural")]⟩, some 1),
     (some cR, some ⟨"S", [("loc", "remote")]⟩, some 1)] := by decide +kernel

-- item 2
def x0 : List Rat := [90, 10, 20, 5, 6, 7, 30]
example := copies_rate_sum exModel.comps locStrat (by decide) (by decide) (by decide) (by decide) (by decide) (by decide)
  x0 (by decide) fRecovery (by decide) 0 env0
example : (Spec.copiesA locStrat fRecovery).map (fun g => Spec.rateLaw (stratifyComps exModel.comps locStrat) x0 0 (weightVal env0 g) g)
    = [5/2, 3, 7/2] ∧ Spec.rateLaw exModel.comps (Spec.agg exModel.comps locStrat x0) 0 (weightVal env0 fRecovery) fRecovery = 9 := by
  decide +kernel

-- item 4
def getOk {β} (d : β) : Res β → β
  | .ok v => v
  | .error _ => d
def noBackend : Backend := ⟨0, 0, [], [], [], [], [], [], [], [], [], [], [], [], [], [], none⟩
def locModel : Model Rat := getOk exModel (stratifyWith exModel locStrat)
def exB : Backend := getOk noBackend (prepare exModel)
def locB : Backend := getOk noBackend (prepare locModel)
def exW : List Rat := [1/2, 1/5, 1/10, 1, 5, 3, 7, 11]
def locW : List Rat := [1/2, 1/2, 1/2, 1/15, 1/15, 1/15, 1/10, 1/10, 1/10, 1/3, 1/3, 1/3, 5/3, 5/3, 5/3,
  1, 1, 1, 7/3, 7/3, 7/3, 11/3, 11/3, 11/3]

example : Spec.agg exModel.comps locStrat (compRates locB (flowRates locB locW x0 []))
    = compRates exB (flowRates exB exW (Spec.agg exModel.comps locStrat x0) []) :=
  rates_agg_partial_no_infection exModel locModel locStrat exB locB (by rfl) (by rfl) (by rfl) rfl rfl
    (by decide) (by decide) (by decide) (by decide) (by decide) (by decide) (by decide) (by decide)
    env0 exW locW (by decide +kernel) (by decide +kernel) x0 (by decide) [] []

example : compRates locB (flowRates locB locW x0 []) = [44/15, 44/15, 44/15, -3, -18/5, -21/5, 7] ∧
    Spec.agg exModel.comps locStrat (compRates locB (flowRates locB locW x0 [])) = [44/5, -54/5, 7] ∧
    Spec.agg exModel.comps locStrat x0 = [120, 18, 30] ∧
    compRates exB (flowRates exB exW [120, 18, 30] []) = [44/5, -54/5, 7] := by decide +kernel

/-- the right-hand sides themselves (`t = 3`, non-negative state) -/
example : Spec.agg exModel.comps locStrat ((rhs locModel locB env0.params x0 3).getD []) =
    (rhs exModel exB env0.params (Spec.agg exModel.comps locStrat x0) 3).getD [] :=
  rhs_agg_partial_no_infection exModel locModel locStrat exB locB (by rfl) (by rfl) (by rfl) rfl rfl
    (by decide) (by decide) (by decide) (by decide) (by decide) (by decide) (by decide) (by decide)
    (by decide) env0.params 3 x0 (by decide) (by decide) _ _ (by decide +kernel) (by decide +kernel)

/-- the age-stratified model, written out: 9 compartments, the copiesA, and 6 ageing flows -/
def ageingFlow (c : Comp) (a b : String) (rate : Rat) : Flow Rat :=
  { kind := .transition,
    name := "ageing_" ++ (c.stratify "age" a).serialize ++ "_to_" ++ (c.stratify "age" b).serialize,
    src := some (c.stratify "age" a), dst := some (c.stratify "age" b), param := .const rate, adjs := [] }
def ageExtra : List (Flow Rat) :=
  [ageingFlow cS "0" "5" (1/5), ageingFlow cI "0" "5" (1/5), ageingFlow cR "0" "5" (1/5),
   ageingFlow cS "5" "15" (1/10), ageingFlow cI "5" "15" (1/10), ageingFlow cR "5" "15" (1/10)]
def ageModel : Model Rat :=
  { exModel with comps := stratifyComps exModel.comps ageStrat,
                 flows := exModel.flows.flatMap (Spec.copiesA ageStrat) ++ ageExtra,
                 strats := [ageStrat], actions := [.stratify "age"] }
def ageB : Backend := getOk noBackend (prepare ageModel)
def x1 : List Rat := [90, 10, 20, 5, 6, 7, 30, 1, 2]

/-- this is what `stratifyWith` returns (checked by evaluation: `String.toInt?`, used to order the age
strata, does not reduce in the kernel) -/
def sameFlows (a b : List (Flow Rat)) : Bool :=
  a.map (fun f => (f.kind, f.name, f.src, f.dst, f.adjs.length)) == b.map (fun f => (f.kind, f.name, f.src, f.dst, f.adjs.length))
#guard (match stratifyWith exModel ageStrat with
  | .ok m => m.comps == ageModel.comps && sameFlows m.flows ageModel.flows
      && (m.flows.mapM (fun f => (realised f).eval env0) == ageModel.flows.mapM (fun f => (realised f).eval env0))
  | .error _ => false)

example : Spec.agg exModel.comps ageStrat (compRates ageB (flowRates ageB (ageModel.flows.map (weightVal env0)) x1 []))
    = compRates exB (flowRates exB (exModel.flows.map (weightVal env0)) (Spec.agg exModel.comps ageStrat x1) []) :=
  rates_agg_of_shape_partial_no_infection exModel ageModel ageStrat exB ageB ageExtra rfl rfl
    (by
      intro g hg
      simp only [ageExtra, List.mem_cons, List.not_mem_nil, or_false] at hg
      rcases hg with rfl | rfl | rfl | rfl | rfl | rfl
      · exact ⟨rfl, cS, by decide, "0", "5", rfl, rfl⟩
      · exact ⟨rfl, cI, by decide, "0", "5", rfl, rfl⟩
      · exact ⟨rfl, cR, by decide, "0", "5", rfl, rfl⟩
      · exact ⟨rfl, cS, by decide, "5", "15", rfl, rfl⟩
      · exact ⟨rfl, cI, by decide, "5", "15", rfl, rfl⟩
      · exact ⟨rfl, cR, by decide, "5", "15", rfl, rfl⟩)
    (by rfl) (by rfl) (by decide) (by decide) (by decide) (by decide) (by decide) (by decide) (by decide)
    (by decide) env0 x1 (by decide) [] []

/-- the ageing flows do move population between the age groups, and cancel in the aggregate -/
example : compRates ageB (flowRates ageB (ageModel.flows.map (weightVal env0)) x1 [])
      = [-208/15, 58/3, 10/3, 0, -5, -26/5, -49/6, 301/30, 68/15] ∧
    Spec.agg exModel.comps ageStrat (compRates ageB (flowRates ageB (ageModel.flows.map (weightVal env0)) x1 []))
      = [44/5, -51/5, 32/5] := by decide +kernel

-- item 3
def locSplit : List (String × Rat) := [("urban", 1/2), ("rural", 1/3), ("remote", 1/6)]
example : Spec.agg exModel.comps locStrat
    (stratifyValues (stratIndexArrays exModel.comps locStrat) locStrat.strata locSplit [120, 18, 30]) = [120, 18, 30] :=
  split_values exModel.comps locStrat (by decide) locSplit (by decide +kernel) [120, 18, 30] (by decide)
example : stratifyValues (stratIndexArrays exModel.comps locStrat) locStrat.strata locSplit [120, 18, 30]
    = [60, 40, 20, 9, 6, 3, 30] := by decide +kernel

-- item 5
def fInf : Flow Rat := { kind := .infFreq, name := "infection", src := some cS, dst := some cI, param := .const 2, adjs := [] }
def sirModel : Model Rat :=
  { t0 := 0, t1 := 10, dt := 1, nTimes := 11,
    comps := [cS, cI, cR], origNames := ["S", "I", "R"], infectious := ["I"],
    flows := [fInf,
      { kind := .transition, name := "recovery", src := some cI, dst := some cR, param := .const (1/2), adjs := [] }],
    strats := [], mixingCats := [[]], mixingMats := [], strains := ["default"],
    initDist := none, arrayPop := none, actions := [], requests := [], computed := [], whitelist := [],
    finalized := false }
def strainStrat : Strat Rat :=
  { kind := .strain, name := "strain", strata := ["a", "b"], comps := ["I"],
    split := [("a", .const (1/2)), ("b", .const (1/2))], flowAdj := [], infAdj := [], mixing := none }
def strainModel : Model Rat := getOk sirModel (stratifyWith sirModel strainStrat)
def sirB : Backend := getOk noBackend (prepare sirModel)
def strainB : Backend := getOk noBackend (prepare strainModel)
def xs : List Rat := [90, 4, 6, 0]

example : stratifyWith sirModel strainStrat = .ok strainModel ∧ prepare strainModel = .ok strainB ∧
    prepare sirModel = .ok sirB := ⟨by rfl, by rfl, by rfl⟩

/-- the infection flow S → I becomes S → I_a, S → I_b, each with the full weight 2 -/
example := weights_transition_dst_strain strainStrat fInf ⟨[], 0, []⟩ 2 rfl (by decide) (by decide) (by decide) rfl
  (by decide +kernel)

/-- the per-strain forces of infection computed from the index tables of the strain-stratified model
add up to the force of infection of the unstratified model at the aggregated state -/
example :
    sumL ([0, 1].map (fun k => (forceOfInfection (gather xs (strainB.strainInfIdx.getD k []))
        (gather [1, 1, 1, 1] (strainB.strainInfIdx.getD k [])) (strainB.strainCatIdx.getD k []) [[1]] [100]).2.getD 0 0))
      = (forceOfInfection (gather (Spec.agg sirModel.comps strainStrat xs) (sirB.strainInfIdx.getD 0 []))
        (gather [1, 1, 1] (sirB.strainInfIdx.getD 0 [])) (sirB.strainCatIdx.getD 0 []) [[1]] [100]).2.getD 0 0 :=
  (strain_foi_sum [0, 1] (fun k => gather xs (strainB.strainInfIdx.getD k []))
    (fun k => gather [1, 1, 1, 1] (strainB.strainInfIdx.getD k [])) (fun k => strainB.strainCatIdx.getD k [])
    (gather (Spec.agg sirModel.comps strainStrat xs) (sirB.strainInfIdx.getD 0 []))
    (gather [1, 1, 1] (sirB.strainInfIdx.getD 0 [])) (sirB.strainCatIdx.getD 0 []) [[1]] [100] 1
    (by decide) (by decide) (by decide +kernel) 0 (by decide)).2

example : (infectiousMultipliers strainB xs [[1]] [1, 1, 1, 1]).2 = [[1/25], [3/50]] ∧
    (infectiousMultipliers sirB (Spec.agg sirModel.comps strainStrat xs) [[1]] [1, 1, 1]).2 = [[1/10]] := by
  decide +kernel

-- item 4 with an infection flow
def sirLoc : Model Rat := getOk sirModel (stratifyWith sirModel locStrat)
def sirLocB : Backend := getOk noBackend (prepare sirLoc)
def xl : List Rat := [50, 30, 10, 2, 3, 5, 0]
def multsL : List Rat := (infectiousMultipliers sirLocB xl [[1]] [1, 1, 1, 1, 1, 1, 1]).1
def mults0 : List Rat := (infectiousMultipliers sirB (Spec.agg sirModel.comps locStrat xl) [[1]] [1, 1, 1]).1

/-- a model WITH an infection flow: the multipliers computed by the runner for the stratified and the
unstratified model are all equal to the one force of infection `10/100`, and the aggregate agrees -/
example : Spec.agg sirModel.comps locStrat (compRates sirLocB (flowRates sirLocB [2, 2, 2, 1/2, 1/2, 1/2] xl multsL))
    = compRates sirB (flowRates sirB [2, 1/2] (Spec.agg sirModel.comps locStrat xl) mults0) :=
  rates_agg_partial sirModel sirLoc locStrat sirB sirLocB (by rfl) (by rfl) (by rfl) rfl rfl (by decide) (by decide)
    (by decide) (by decide) (by decide) (by decide) (by decide) env0 _ _ (by decide +kernel) (by decide +kernel)
    xl (by decide) mults0 multsL (fun _ => 1/10) (fun _ => 1/10) (by decide +kernel) (by decide +kernel)
    (fun _ _ _ _ _ => rfl)
example : multsL = [1/10, 1/10, 1/10] ∧ mults0 = [1/10] ∧
    compRates sirLocB (flowRates sirLocB [2, 2, 2, 1/2, 1/2, 1/2] xl multsL) = [-10, -6, -2, 9, 9/2, -1/2, 5] ∧
    compRates sirB (flowRates sirB [2, 1/2] [90, 10, 0] mults0) = [-18, 13, 5] := by decide +kernel

/-- an SIR model with an infection flow, through `rhs` (forces of infection computed by the runner) -/
example : Spec.agg sirModel.comps locStrat ((rhs sirLoc sirLocB [] xl 0).getD []) =
    (rhs sirModel sirB [] (Spec.agg sirModel.comps locStrat xl) 0).getD [] :=
  rhs_agg_partial_single_category sirModel sirLoc locStrat sirB sirLocB (by rfl) (by rfl) (by rfl) rfl rfl rfl
    (by decide) (by decide) (by decide) (by decide) (by decide) (by decide) (by decide) (by decide) rfl rfl
    (by decide) (by decide) [] 0 xl (by decide) (by decide) _ _ (by decide +kernel) (by decide +kernel)
example : (rhs sirLoc sirLocB [] xl 0) = some [-10, -6, -2, 9, 9/2, -1/2, 5] ∧
    (rhs sirModel sirB [] [90, 10, 0] 0) = some [-18, 13, 5] := by decide +kernel

-- trajectories
def timesE : List Rat := [0, 1/2, 1, 3/2]

/-- three Euler steps of the stratified SIR model, aggregated = three Euler steps of the SIR model -/
example : (Solvers.euler (field sirLoc sirLocB []) xl timesE).map (Spec.agg sirModel.comps locStrat)
    = Solvers.euler (field sirModel sirB []) (Spec.agg sirModel.comps locStrat xl) timesE :=
  euler_agg_partial sirModel sirLoc locStrat sirB sirLocB (by rfl) [] timesE xl
    (fun x' t r r' hl hnn hr' hr =>
      rhs_agg_partial_single_category sirModel sirLoc locStrat sirB sirLocB (by rfl) (by rfl) (by rfl) rfl rfl rfl
        (by decide) (by decide) (by decide) (by decide) (by decide) (by decide) (by decide) (by decide) rfl rfl
        (by decide) (by decide) [] t x' hl hnn r r' hr' hr)
    (fun x' t _ _ => ⟨by rfl, by rfl⟩)
    (by decide +kernel)

/-! ### two hypotheses that cannot be dropped (both are accepted by the Python constructors) -/

/-- (1) duplicate strata names: `Stratification("loc", ["a", "a"], ["I"])` is accepted (no uniqueness check
in `Stratification.__init__`); the stratified model has the compartment `I_a` twice, both copiesA of the
recovery flow read the same one, and the aggregate is wrong: `hst : s.strata.Nodup` is needed. -/
def dupStrat : Strat Rat :=
  { kind := .plain, name := "loc", strata := ["a", "a"], comps := ["I"],
    split := [("a", .const (1/2))], flowAdj := [], infAdj := [], mixing := none }
def recModel : Model Rat :=
  { sirModel with flows := [{ kind := .transition, name := "recovery", src := some cI, dst := some cR,
                              param := .const (1/2), adjs := [] }] }
def dupModel : Model Rat := getOk recModel (stratifyWith recModel dupStrat)
example : stratifyWith recModel dupStrat = .ok dupModel := by rfl
example : (rhs dupModel (getOk noBackend (prepare dupModel)) [] [90, 4, 6, 0] 0).map (Spec.agg recModel.comps dupStrat)
      = some [0, -4, 4] ∧
    rhs recModel (getOk noBackend (prepare recModel)) [] (Spec.agg recModel.comps dupStrat [90, 4, 6, 0]) 0
      = some [0, -5, 5] := by decide +kernel

/-- (2) an ORDINARY stratification that happens to be called `"strain"` (here of `S` only): the runner
decides by NAME (`"strain" in model.stratifications`) that the model has strains, looks for infectious
compartments with `strain = "default"`, finds none, and the force of infection becomes zero:
`hname : s.name ≠ "strain"` is needed.  (Confirmed on the real summer2: one Euler step from
`S, I, R = 90, 10, 0` gives `72, 23, 5` unstratified and `45 + 45, 5, 5` with this stratification.) -/
def badName : Strat Rat :=
  { kind := .plain, name := "strain", strata := ["a", "b"], comps := ["S"],
    split := [("a", .const (1/2)), ("b", .const (1/2))], flowAdj := [], infAdj := [], mixing := none }
def badModel : Model Rat := getOk sirModel (stratifyWith sirModel badName)
example : stratifyWith sirModel badName = .ok badModel := by rfl
example : (rhs badModel (getOk noBackend (prepare badModel)) [] [45, 45, 10, 0] 0).map (Spec.agg sirModel.comps badName)
      = some [0, -5, 5] ∧
    rhs sirModel sirB [] (Spec.agg sirModel.comps badName [45, 45, 10, 0]) 0 = some [-18, 13, 5] := by
  decide +kernel
end example_

#print axioms stratifyFlow_copies
#print axioms copy_fields
#print axioms weights_entry
#print axioms weights_birth_age
#print axioms weights_exit
#print axioms weights_transition_src
#print axioms weights_transition_dst
#print axioms weights_transition_none
#print axioms weights_absolute
#print axioms agg_total
#print axioms agg_entry
#print axioms copies_rate_sum
#print axioms rateLaw_eq_flowRate
#print axioms rates_agg_partial_no_infection
#print axioms rates_agg_partial
#print axioms rhs_agg_partial_single_category
#print axioms stratified_model_shape
#print axioms rates_agg_of_shape_partial_no_infection
#print axioms rhs_agg_partial_no_infection
#print axioms euler_agg_partial
#print axioms stratifyValues_blocks
#print axioms split_values
#print axioms weights_transition_dst_strain
#print axioms strain_foi_sum
#print axioms strain_infected_sum
#print axioms strain_infection_rate_sum

end Summer.C03
