import Summer.Props.C09Model
import Summer.Props.C07Pipeline
import Summer.Proofs.Structure
/-
C09 end to end — parameter coincidence through the whole run closure read from the source text
(`C07Pipeline.run_model_eq`): two parameter sets that agree on the model's input parameters (and rebalance parameters) give the SAME
result of `run_model` — the same trajectory and the same derived outputs, or both fail — for every solver passed to the closure and every
captured derived-output base.  Extra keys, different orders and different values of parameters the model does not use are irrelevant.
-/
namespace Summer.Props.C09EndToEnd
open Summer Summer.Run Summer.Pipeline Summer.Params Summer.Spec Summer.Derived Summer.Proofs.ModelParams Summer.Proofs.Structure Summer.C09Model Summer.Generated.PipelineSrc Summer.Props.C07Pipeline

variable {α : Type} [Field α] [LinearOrder α]

theorem coincidence_run (m : Model α) (b : Backend)
    (solve : (List α → α → List α) → List α → List α → List (List α))
    (doBase p p' : List (String × α))
    (h : ∀ k ∈ inputParams m ++ rebalanceParams m, alookup p k = alookup p' k) :
    run_model m b solve doBase p = run_model m b solve doBase p' := by
  have h' : ∀ k ∈ inputParams m ++ rebalanceParams m, alookup (p ++ doBase) k = alookup (p' ++ doBase) k := by
    intro k hk; rw [alookup_append, alookup_append, h k hk]
  obtain ⟨h1, h2, h3, h4, _⟩ := Summer.C09Model.coincidence_model m b p p' h
  obtain ⟨_, _, _, _, h5⟩ := Summer.C09Model.coincidence_model m b (p ++ doBase) (p' ++ doBase) h'
  have hf : fieldFn m b p = fieldFn m b p' := by unfold fieldFn; rw [h2]
  simp only [run_model_eq, runModel, h1, h3, h4, hf]
  congr 1
  funext x0
  congr 1
  funext _
  congr 1
  funext fc
  have := h5 { times := modelTimes m, outputs := solve (fieldFn m b p') x0 (modelTimes m), flows := fc.1, computed := fc.2, params := [] }
  simp only [] at this
  rw [this]

/-- Corollary: a key the model does not use can be added to the parameters of a call (with any value, in
front of the others — so even shadowing nothing) without changing anything `run_model` returns. -/
theorem unused_key_irrelevant (m : Model α) (b : Backend)
    (solve : (List α → α → List α) → List α → List α → List (List α))
    (doBase p : List (String × α)) (k : String) (v : α)
    (hk : k ∉ inputParams m ++ rebalanceParams m) :
    run_model m b solve doBase ((k, v) :: p) = run_model m b solve doBase p := by
  apply coincidence_run
  intro k' hk'
  have hne : (k == k') = false := by
    apply beq_false_of_ne
    rintro rfl
    exact hk hk'
  unfold alookup
  simp [hne]

#print axioms coincidence_run
#print axioms unused_key_irrelevant
end Summer.Props.C09EndToEnd
