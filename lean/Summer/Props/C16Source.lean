import Summer.Generated.Arith
import Summer.Generated.Util
import Summer.Props.C07Source
/-
C16 — the hand-written time-function model is what the SOURCE TEXT says.

`Summer/Generated/Arith.lean` is regenerated from `/repo/summer2/functions/interpolate.py` and
`/repo/summer2/functions/util.py` on every run (`harness/translate/gen_arith.py`).  The theorems below identify
each regenerated definition with the definition of `Summer/Model/TimeFns.lean` that the C16 theorems are about
(`bsearch`, `piecewise`, `linear`, `sigmoid_*`).  For the binary search itself (`binary_search_sum_ge`, a `lax.while_loop`)
`Summer/Generated/Util.lean` carries the loop condition, the loop body, the initial state and the final selection as written in the
source (`harness/translate/gen_rates.py`, section util.py); `bsLoop_unfold` shows that the hand model's loop satisfies the while-loop
equation for exactly this condition and body, and `binary_search_sum_ge_eq` that the whole function is initial state → loop → selection.
-/
set_option linter.unusedSectionVars false

namespace Summer.Props.C16Source
open Summer Summer.TimeFns Summer.Generated Summer.Props.C07Source

section bsearch
variable {α : Type} [Zero α] [LT α] [DecidableLT α]

/-- the hand model's loop is the `lax.while_loop` of the source's condition and body: it stops when the condition is false and
otherwise continues from the body's result -/
theorem bsLoop_unfold (x : α) (pts : List α) (low high : Int) :
    bsLoop x pts low high =
      if Util.bs_cond low high then bsLoop x pts (Util.bs_body x pts low high).1 (Util.bs_body x pts low high).2
      else (low, high) := by
  rw [bsLoop]
  simp only [Util.bs_cond, Util.bs_body, decide_eq_true_eq]
  split <;> rfl

/-- `binary_search_sum_ge` = initial state, loop, final selection -/
theorem binary_search_sum_ge_eq (x : α) (pts : List α) :
    binarySearchSumGe x pts =
      Util.bs_result x pts (bsLoop x pts (Util.bs_init pts).1 (Util.bs_init pts).2).1
        (bsLoop x pts (Util.bs_init pts).1 (Util.bs_init pts).2).2 := rfl

end bsearch

section
variable {α : Type} [Field α] [LinearOrder α] [IsStrictOrderedRing α]

/-- `_get_linear_curve_at_x` is `curveAt` with the identity curve -/
theorem linear_curve_eq (x : α) (xd yd : ScaleData α) :
    Arith.linear_curve_at_x x xd yd = curveAt (fun r => r) x xd yd := rfl

/-- `_get_sigmoidal_curve_at_x` is `curveAt` with the curve `sig` -/
theorem sigmoidal_curve_eq (sig : α → α) (x : α) (xd yd : ScaleData α) :
    Arith.sigmoidal_curve_at_x sig x xd yd = curveAt sig x xd yd := rfl

private theorem countTrue_eq (t : α) (bounds : List α) :
    countTrue (bounds.map (fun b => decide (b < t))) = boundsState t bounds := by
  unfold countTrue boundsState
  induction bounds with
  | nil => rfl
  | cons b bs ih =>
    simp only [List.map_cons, List.filter_cons]
    by_cases h : b < t <;> simp [h, ih]

/-- the three-way `lax.switch` on `sum(t > xdata.bounds)` of `interpolate_linear` / `interpolate_sigmoidal` -/
theorem interpolate_linear_eq (t : α) (xd yd : ScaleData α) :
    Arith.interpolate_linear t xd yd = interpolateWith (fun r => r) t xd yd := by
  unfold Arith.interpolate_linear interpolateWith switch3
  rw [countTrue_eq, linear_curve_eq]
  rfl

theorem interpolate_sigmoidal_eq (sig : α → α) (t : α) (xd yd : ScaleData α) :
    Arith.interpolate_sigmoidal sig t xd yd = interpolateWith sig t xd yd := by
  unfold Arith.interpolate_sigmoidal interpolateWith switch3
  rw [countTrue_eq, sigmoidal_curve_eq]
  rfl

/-- `get_scale_data` -/
theorem scale_data_eq (pts : List α) : Arith.scale_data pts = getScaleData pts := rfl

/-- hence the two public interpolators of the model are the regenerated ones -/
theorem interpolateLinear_eq (t : α) (xs ys : List α) :
    interpolateLinear t xs ys = Arith.interpolate_linear t (Arith.scale_data xs) (Arith.scale_data ys) := by
  rw [interpolate_linear_eq]; rfl

theorem interpolateSigmoidal_eq (sig : α → α) (t : α) (xs ys : List α) :
    interpolateSigmoidal sig t xs ys = Arith.interpolate_sigmoidal sig t (Arith.scale_data xs) (Arith.scale_data ys) := by
  rw [interpolate_sigmoidal_eq]; rfl

/-- `make_norm_sigmoid(curvature)` (with `_uncorrected_sigmoid`) -/
theorem norm_sigmoid_eq (exp : α → α) (c x : α) : Arith.norm_sigmoid exp c x = normSigmoid exp c x := by
  simp only [Arith.norm_sigmoid, Arith.uncorrected_sigmoid, normSigmoid, ratLit_eq, two_eq]
  norm_num

/-- `piecewise_constant` -/
theorem piecewise_constant_eq (x : α) (bps vals : List α) :
    Arith.piecewise_constant x bps vals = piecewiseConstant x bps vals := rfl

end

/-! non-vacuity: the regenerated interpolator evaluates (on `Rat`) -/
example : Arith.interpolate_linear (3/2 : Rat) (Arith.scale_data [0, 1, 2]) (Arith.scale_data [0, 10, 30]) = 20 := by
  decide +kernel
example : Arith.interpolate_linear (5 : Rat) (Arith.scale_data [0, 1, 2]) (Arith.scale_data [0, 10, 30]) = 30 ∧
    Arith.interpolate_linear (-1 : Rat) (Arith.scale_data [0, 1, 2]) (Arith.scale_data [7, 10, 30]) = 7 := by
  decide +kernel

end Summer.Props.C16Source

#print axioms Summer.Props.C16Source.bsLoop_unfold
#print axioms Summer.Props.C16Source.binary_search_sum_ge_eq
#print axioms Summer.Props.C16Source.linear_curve_eq
#print axioms Summer.Props.C16Source.sigmoidal_curve_eq
#print axioms Summer.Props.C16Source.interpolate_linear_eq
#print axioms Summer.Props.C16Source.interpolate_sigmoidal_eq
#print axioms Summer.Props.C16Source.scale_data_eq
#print axioms Summer.Props.C16Source.interpolateLinear_eq
#print axioms Summer.Props.C16Source.interpolateSigmoidal_eq
#print axioms Summer.Props.C16Source.norm_sigmoid_eq
#print axioms Summer.Props.C16Source.piecewise_constant_eq
