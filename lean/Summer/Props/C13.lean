import Summer.Proofs.Structure
/-
C13 — Name-and-strata selection means: name equal and strata contain the filter.

Every matcher of the model (`Build.getMatching`, `Query.queryCompartments`, the `isMatch` filter of
`addEntry`/`addExit`, `Derived.compIndices`, `Build.flowIsMatch`, `Query.queryFlows`,
`Derived.flowIndices`, the applicability test of `Build.getFlowAdjustment`) is proved equal to the ONE
declarative specification `Spec.select` / `Spec.flowSelected`.

Hypothesis used where the model does a per-key *lookup* (`alookup`, i.e. Python `dict.get`): the
compartment's strata dictionary has pairwise distinct keys (`Spec.KeysNodup`).  This holds in every
model reachable through the build API (`C12.reachable_inv`).  Distinctness of the *filter's* keys is
never needed.
-/
namespace Summer.C13
open Summer Summer.Build Summer.Spec Summer.Proofs.Structure

/-! ### 1. the three forms of "the strata contain the filter" -/

/-- frozenset-subset form (`Comp.hasStrata`, `Comp.isMatch`) ⇔ declarative form; no hypothesis -/
theorem contains_iff (strata flt : Strata) :
    strataContains strata flt = true ↔ ∀ kv ∈ flt, kv ∈ strata :=
  strataContains_iff strata flt

/-- per-key lookup form (`Build.getMatching`, `Query.queryCompartments`) ⇔ declarative form, for a
strata dictionary with distinct keys -/
theorem lookup_iff {strata : Strata} (hk : KeysNodup strata) (flt : Strata) :
    flt.all (fun kv => alookup strata kv.1 == some kv.2) = true ↔ ∀ kv ∈ flt, kv ∈ strata :=
  lookupAll_iff hk flt

/-- the two executable forms agree (the hypotheses of the task statement: distinct keys on both
sides; the filter's is not used) -/
theorem contains_eq_lookup {strata : Strata} (hk : KeysNodup strata) (flt : Strata) (_hf : KeysNodup flt) :
    strataContains strata flt = flt.all (fun kv => alookup strata kv.1 == some kv.2) := by
  rw [Bool.eq_iff_iff, contains_iff, lookup_iff hk]

example : KeysNodup [("age", "0"), ("loc", "urban")] ∧ KeysNodup [("loc", "urban")]
    ∧ strataContains [("age", "0"), ("loc", "urban")] [("loc", "urban")] = true := by decide

/-- the distinct-keys hypothesis of `lookup_iff` cannot be dropped: with a duplicated key the subset
form accepts and the lookup form rejects (Python dictionaries cannot be in this state) -/
example : strataContains [("a", "1"), ("a", "2")] [("a", "2")] = true
    ∧ ([("a", "2")].all fun kv => alookup [("a", "1"), ("a", "2")] kv.1 == some kv.2) = false := by decide

/-! ### 2. every compartment matcher is `Spec.select`, in model order -/

section
variable {α : Type}

theorem getMatching_eq (m : Model α) (hk : ∀ c ∈ m.comps, KeysNodup c.strata) (name : String) (flt : Strata) :
    getMatching m name flt = select name flt m.comps :=
  getMatching_eq_select m hk name flt

theorem queryCompartments_eq (m : Model α) (hk : ∀ c ∈ m.comps, KeysNodup c.strata) (name : String) (flt : Strata) :
    Query.queryCompartments m (some name) flt = select name flt m.comps :=
  queryCompartments_eq_select m hk name flt

/-- the selection made by `addEntry` / `addExit` (and `addRequest`'s compartment check) -/
theorem isMatch_filter_eq (m : Model α) (name : String) (flt : Strata) :
    m.comps.filter (fun c => c.isMatch name flt) = select name flt m.comps :=
  filter_isMatch_eq_select m.comps name flt

/-- `build_compartment_output` returns the positions of exactly the selected compartments ... -/
theorem compIndices_eq (m : Model α) (name : String) (flt : Strata) :
    Derived.compIndices m [name] flt = selectIdx name flt m.comps :=
  Proofs.Structure.compIndices_eq m name flt

/-- ... where `selectIdx` is increasing, contains exactly the positions of selected compartments,
and enumerates `select` -/
theorem selectIdx_spec (name : String) (flt : Strata) (comps : List Comp) :
    (selectIdx name flt comps).Pairwise (· < ·)
    ∧ (∀ i, i ∈ selectIdx name flt comps ↔ ∃ c, comps[i]? = some c ∧ c.name = name ∧ ∀ kv ∈ flt, kv ∈ c.strata)
    ∧ (selectIdx name flt comps).filterMap (fun i => comps[i]?) = select name flt comps := by
  refine ⟨indicesWhere_sorted _ _, fun i => ?_, indicesWhere_filterMap_get _ _⟩
  unfold selectIdx
  rw [mem_indicesWhere]
  simp only [decide_eq_true_eq]

/-! ### every flow matcher is `Spec.flowSelected` -/

theorem flowIsMatch_iff (f : Flow α) (name : String) (ss ds : Strata) :
    flowIsMatch f name ss ds = true ↔ flowSelected name ss ds f :=
  Proofs.Structure.flowIsMatch_iff f name ss ds

theorem queryFlows_eq (m : Model α) (name : String) (ss ds : Strata) :
    Query.queryFlows m (some name) ss ds = selectFlowIdx name ss ds m.flows :=
  Proofs.Structure.queryFlows_eq m name ss ds

theorem flowIndices_eq (m : Model α) (name : String) (ss ds : Strata) :
    Derived.flowIndices m name ss ds = selectFlowIdx name ss ds m.flows :=
  Proofs.Structure.flowIndices_eq m name ss ds

theorem selectFlowIdx_spec (name : String) (ss ds : Strata) (flows : List (Flow α)) :
    (selectFlowIdx name ss ds flows).Pairwise (· < ·)
    ∧ (∀ i, i ∈ selectFlowIdx name ss ds flows ↔ ∃ f, flows[i]? = some f ∧ flowSelected name ss ds f)
    ∧ (selectFlowIdx name ss ds flows).filterMap (fun i => flows[i]?) = selectFlows name ss ds flows := by
  refine ⟨indicesWhere_sorted _ _, fun i => ?_, indicesWhere_filterMap_get _ _⟩
  unfold selectFlowIdx
  rw [mem_indicesWhere]
  simp only [decide_eq_true_eq]

/-- the applicability test inside `getFlowAdjustment` is the same predicate, evaluated on the
PARENT flow: with a single declaration (that does not raise) the result is its dictionary exactly
when the flow is selected by the declaration's name and filters -/
theorem adjustment_applicability (s : Strat α) (d : FlowAdjDecl α) (f : Flow α) (hs : s.flowAdj = [d])
    (hr : ¬ declRaises d f) :
    getFlowAdjustment s f = .ok (if flowSelected d.flow d.srcStrata d.dstStrata f then some d.adjs else none) := by
  rw [getFlowAdjustment_ok s f (by rw [hs]; intro d' hd'; rw [List.mem_singleton] at hd'; rw [hd']; exact hr)]
  unfold winning declApplies
  rw [hs]
  by_cases h : flowSelected d.flow d.srcStrata d.dstStrata f <;> simp [h]

/-! ### 3. `C13.agree` -/

/-- The compartment matchers agree pairwise on every model with distinct strata keys. -/
theorem agree_comps (m : Model α) (hk : ∀ c ∈ m.comps, KeysNodup c.strata) (name : String) (flt : Strata) :
    getMatching m name flt = Query.queryCompartments m (some name) flt
    ∧ getMatching m name flt = m.comps.filter (fun c => c.isMatch name flt)
    ∧ getMatching m name flt = (Derived.compIndices m [name] flt).filterMap (fun i => m.comps[i]?) := by
  rw [getMatching_eq m hk, queryCompartments_eq m hk, isMatch_filter_eq, compIndices_eq,
    (selectIdx_spec name flt m.comps).2.2]
  exact ⟨rfl, rfl, rfl⟩

/-- The flow matchers agree pairwise on every model (no hypothesis: they all use the subset form). -/
theorem agree_flows (m : Model α) (name : String) (ss ds : Strata) :
    Query.queryFlows m (some name) ss ds = Derived.flowIndices m name ss ds
    ∧ (Derived.flowIndices m name ss ds).filterMap (fun i => m.flows[i]?)
        = m.flows.filter (fun f => flowIsMatch f name ss ds)
    ∧ ∀ d : FlowAdjDecl α, declApplies d = fun f => flowSelected d.flow d.srcStrata d.dstStrata f := by
  rw [queryFlows_eq, flowIndices_eq, (selectFlowIdx_spec name ss ds m.flows).2.2]
  refine ⟨rfl, ?_, fun d => rfl⟩
  unfold selectFlows
  apply List.filter_congr
  intro f _
  rw [flowIsMatch_eq]

/-- an empty filter selects all compartments with that name -/
theorem select_empty (name : String) (comps : List Comp) :
    select name [] comps = comps.filter (fun c => c.name == name) := by
  unfold select
  apply List.filter_congr
  intro c _
  rw [Bool.eq_iff_iff]; simp

/-- an empty filter never excludes a flow; a missing end never excludes a flow -/
theorem flow_filter_vacuous (name : String) (ss ds : Strata) (f : Flow α) :
    (flowSelected name [] [] f ↔ f.name = name)
    ∧ (f.src = none → (flowSelected name ss ds f ↔ flowSelected name [] ds f))
    ∧ (f.dst = none → (flowSelected name ss ds f ↔ flowSelected name ss [] f)) := by
  refine ⟨?_, fun h => ?_, fun h => ?_⟩
  · simp [flowSelected, endOk_nil]
  · simp [flowSelected, h, endOk]
  · simp [flowSelected, h, endOk]

/-- source and destination filters act independently -/
theorem flow_filters_independent (name : String) (ss ds : Strata) (f : Flow α) :
    flowSelected name ss ds f ↔ flowSelected name ss [] f ∧ flowSelected name [] ds f := by
  simp only [flowSelected, endOk_nil, and_true, true_and]
  constructor
  · rintro ⟨h1, h2, h3⟩; exact ⟨⟨h1, h2⟩, h1, h3⟩
  · rintro ⟨⟨h1, h2⟩, _, h3⟩; exact ⟨h1, h2, h3⟩

theorem selectFlows_independent (name : String) (ss ds : Strata) (flows : List (Flow α)) :
    selectFlows name ss ds flows = selectFlows name ss [] (selectFlows name [] ds flows) := by
  unfold selectFlows
  rw [List.filter_filter]
  apply List.filter_congr
  intro f _
  rw [Bool.eq_iff_iff, Bool.and_eq_true, decide_eq_true_iff, decide_eq_true_iff, decide_eq_true_iff]
  exact flow_filters_independent name ss ds f

end

/-! ### non-vacuity -/

open Spec.Ex in
example : (∀ c ∈ model.comps, KeysNodup c.strata)
    ∧ getMatching model "S" [("age", "5")] = [s5]
    ∧ select "S" [("age", "5")] model.comps = [s5]
    ∧ select "S" [] model.comps = [s0, s5]
    ∧ Derived.compIndices model ["I"] [("age", "5")] = [3] := by decide

open Spec.Ex in
example : Query.queryFlows model (some "infection") [("age", "5")] [] = [1]
    ∧ Derived.flowIndices model "death" [] [("age", "0")] = [3, 4]   -- missing destination never excludes
    ∧ Derived.flowIndices model "death" [("age", "0")] [] = [3]
    ∧ selectFlowIdx "birth" [("age", "5")] [("age", "0")] model.flows = [2] := by decide

end Summer.C13

#print axioms Summer.C13.contains_iff
#print axioms Summer.C13.lookup_iff
#print axioms Summer.C13.contains_eq_lookup
#print axioms Summer.C13.getMatching_eq
#print axioms Summer.C13.queryCompartments_eq
#print axioms Summer.C13.isMatch_filter_eq
#print axioms Summer.C13.compIndices_eq
#print axioms Summer.C13.selectIdx_spec
#print axioms Summer.C13.flowIsMatch_iff
#print axioms Summer.C13.queryFlows_eq
#print axioms Summer.C13.flowIndices_eq
#print axioms Summer.C13.selectFlowIdx_spec
#print axioms Summer.C13.adjustment_applicability
#print axioms Summer.C13.agree_comps
#print axioms Summer.C13.agree_flows
#print axioms Summer.C13.select_empty
#print axioms Summer.C13.flow_filter_vacuous
#print axioms Summer.C13.flow_filters_independent
#print axioms Summer.C13.selectFlows_independent
