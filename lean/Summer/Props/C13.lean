import Summer.Model.Run
-- placeholder until the proof worker delivers (replaced by the real file)
namespace Summer.Props.C13
theorem placeholder : True := trivial
end Summer.Props.C13
#print axioms Summer.Props.C13.placeholder
