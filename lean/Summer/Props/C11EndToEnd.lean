import Summer.Props.C11
import Summer.Props.C11Source
/-
C11 end to end — history independence stated on the SOURCE renderings of `run`, `get_runner`, `set_default_parameters` and `ModelResults`
(`C11Source.src_trace_eq`): after any call history executed by the source renderings from a fresh model, a `model.run(p, solver, rebuild)`
whose parameters (with the current defaults) cover every input parameter, and whose solver is the cached runner's (or `rebuild=True`),
returns exactly what the same call returns on a fresh model with the same defaults.
-/
namespace Summer.Props.C11EndToEnd
open Summer.Session Summer.Generated.SessionSrc Summer.Props.C11Source

section
variable {δ ν σ : Type}

theorem history_independent_src (defn : Definition δ) (h : List (Op ν σ)) (p : Dict ν) (solver : σ) (rebuild : Bool)
    (hcov : Covers defn (lastDefaults h none) p)
    (hsol : rebuild = true ∨ ∀ r, (srcExec (fresh defn) h).cached = some r → r.solver = solver) :
    (srcStep (srcExec (fresh defn) h) (.run p solver rebuild)).2
      = (srcStep (freshWith defn (lastDefaults h none)) (.run p solver false)).2 := by
  rw [(src_trace_eq h (fresh defn)).2] at hsol ⊢
  rw [src_step_eq, src_step_eq]
  exact Summer.Props.C11.history_independent_fresh defn h p solver rebuild hcov hsol

end

#print axioms history_independent_src

end Summer.Props.C11EndToEnd
