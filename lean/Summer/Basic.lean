/-
Basic numeric helpers shared by the whole model.  No Mathlib.  Everything is generic over core
arithmetic classes so that the *same* definitions are executed on `Rat`/`Float` by the driver and
reasoned about over an arbitrary ordered field in `Summer/Proofs`.
-/
namespace Summer

section
variable {α : Type}

/-- right-nested sum, `0` for the empty list (`jnp.sum`) -/
def sumL [Add α] [Zero α] : List α → α
  | [] => 0
  | x :: xs => x + sumL xs

/-- left-to-right product starting from `a` -/
def prodFrom [Mul α] (a : α) : List α → α
  | [] => a
  | x :: xs => prodFrom (a * x) xs

/-- `1 + 1` etc. without needing numeric-literal instances on `α` -/
def two [Add α] [One α] : α := 1 + 1
def three [Add α] [One α] : α := 1 + 1 + 1
def six [Add α] [Mul α] [One α] : α := (two : α) * three

/-- Normalise an index the way JAX does for gathers: negative indices wrap once, then the result is
clamped into `[0, n-1]`. -/
def jidx (n : Nat) (i : Int) : Nat :=
  let i' := if i < 0 then i + n else i
  (min (max i' 0) ((n : Int) - 1)).toNat

/-- JAX gather `a[i]` (out-of-range clamps; empty array gives the default `0`) -/
def jget [Zero α] (a : List α) (i : Int) : α := a.getD (jidx a.length i) 0

/-- in-range index test used for scatters (out-of-range scatter updates are dropped by JAX) -/
def inRange (n : Nat) (i : Int) : Bool := decide (0 ≤ i) && decide (i < n)

/-- `a.at[i].set(v)` for a natural, in-range index; out-of-range updates are dropped -/
def jset (a : List α) (i : Nat) (v : α) : List α := a.set i v

/-- `a.at[idxs].set(vals)` with `idxs` and `vals` zipped, applied left to right -/
def jsetMany (a : List α) (idxs : List Nat) (vals : List α) : List α :=
  (idxs.zip vals).foldl (fun acc p => jset acc p.1 p.2) a

/-- gather by a list of natural indices -/
def gather [Zero α] (a : List α) (idxs : List Nat) : List α := idxs.map (fun i => a.getD i 0)

def vadd [Add α] (a b : List α) : List α := List.zipWith (· + ·) a b
def vsub [Sub α] (a b : List α) : List α := List.zipWith (· - ·) a b
def vmul [Mul α] (a b : List α) : List α := List.zipWith (· * ·) a b
def vscale [Mul α] (k : α) (a : List α) : List α := a.map (k * ·)

def dot [Add α] [Mul α] [Zero α] (a b : List α) : α := sumL (vmul a b)

abbrev Matrix (α : Type) := List (List α)

def matVec [Add α] [Mul α] [Zero α] (m : Matrix α) (v : List α) : List α := m.map (fun row => dot row v)

/-- Kronecker product `kron a b` (numpy convention: block `(i,j)` is `a[i][j] * b`) -/
def kron [Mul α] (a b : Matrix α) : Matrix α :=
  a.flatMap (fun ra => b.map (fun rb => ra.flatMap (fun x => rb.map (fun y => x * y))))

/-- `clean_compartments`: negative entries count as zero -/
def clean [Zero α] [LT α] [DecidableLT α] (x : α) : α := if x < 0 then 0 else x

def cleanV [Zero α] [LT α] [DecidableLT α] (xs : List α) : List α := xs.map clean

/-- `jnp.diff` -/
def diff [Sub α] : List α → List α
  | [] => []
  | [_] => []
  | a :: b :: t => (b - a) :: diff (b :: t)

/-- `jnp.cumsum` -/
def cumsumFrom [Add α] (acc : α) : List α → List α
  | [] => []
  | x :: xs => (acc + x) :: cumsumFrom (acc + x) xs

def cumsum [Add α] [Zero α] (xs : List α) : List α := cumsumFrom 0 xs

/-- `np.linspace(t0, t1, n)` in exact arithmetic -/
def linspace [Add α] [Sub α] [Mul α] [Div α] [NatCast α] (t0 t1 : α) (n : Nat) : List α :=
  (List.range n).map (fun (i : Nat) => t0 + ((i : Nat) : α) * ((t1 - t0) / ((n - 1 : Nat) : α)))

end

/-- first index of `x` in `l` (Python `list.index`), `none` if absent -/
def indexOf? {β : Type} [BEq β] (l : List β) (x : β) : Option Nat :=
  let rec go : List β → Nat → Option Nat
    | [], _ => none
    | y :: ys, i => if y == x then some i else go ys (i + 1)
  go l 0

/-- association-list lookup (first match) -/
def alookup {β : Type} (l : List (String × β)) (k : String) : Option β :=
  match l.find? (fun p => p.1 == k) with
  | some p => some p.2
  | none => none

/-- Python `dict.__setitem__` on an insertion-ordered association list -/
def dictSet {β : Type} (l : List (String × β)) (k : String) (v : β) : List (String × β) :=
  if l.any (fun p => p.1 == k) then l.map (fun p => if p.1 == k then (k, v) else p) else l ++ [(k, v)]

/-- Python `{**a, **b}` -/
def dictUpdate {β : Type} (a b : List (String × β)) : List (String × β) :=
  b.foldl (fun acc p => dictSet acc p.1 p.2) a

/-- set equality of two string lists (Python `set(a) == set(b)`) -/
def sameSet (a b : List String) : Bool := a.all (b.contains ·) && b.all (a.contains ·)

end Summer
