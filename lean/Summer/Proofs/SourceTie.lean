import Summer.Generated.Struct
import Summer.Model.Build
import Summer.Props.C13Source
/-
Helper lemmas for the source ties of the structural translator (`Props/C04Source.lean`).

The regenerated methods raise with the text of the Python `assert`; the hand model raises with its own messages.
`erase` forgets the message (`Res β → Option β`), and the tie theorems are stated up to `erase`:
both sides raise on exactly the same inputs and return equal values otherwise.
-/
namespace Summer.SourceTie
open Summer

def erase {β : Type} (r : Res β) : Option β :=
  match r with
  | .ok x => some x
  | .error _ => none

@[simp] theorem erase_pure {β : Type} (x : β) : erase (pure x : Res β) = some x := rfl
@[simp] theorem erase_ok {β : Type} (x : β) : erase (.ok x : Res β) = some x := rfl
@[simp] theorem erase_fail {β : Type} (m : String) : erase (fail m : Res β) = none := rfl

@[simp] theorem erase_bind {β γ : Type} (x : Res β) (f : β → Res γ) :
    erase (x >>= f) = (erase x).bind (fun a => erase (f a)) := by
  cases x <;> rfl

@[simp] theorem erase_map {β γ : Type} (f : β → γ) (x : Res β) : erase (f <$> x) = (erase x).map f := by
  cases x <;> rfl

@[simp] theorem erase_guardE (c : Bool) (m : String) : erase (guardE c m) = if c then some () else none := by
  unfold guardE; cases c <;> rfl

@[simp] theorem erase_ite {β : Type} (c : Prop) [Decidable c] (a b : Res β) :
    erase (if c then a else b) = if c then erase a else erase b := by
  split <;> rfl

theorem erase_foldlM {β γ : Type} (f : β → γ → Res β) (l : List γ) (a : β) :
    erase (l.foldlM f a) = l.foldlM (fun acc x => erase (f acc x)) a := by
  induction l generalizing a with
  | nil => rfl
  | cons x xs ih =>
    simp only [List.foldlM_cons, erase_bind]
    cases h : f a x with
    | error e => simp [erase]
    | ok b =>
      have := ih b
      simp only [erase] at this ⊢
      simpa using this

/-- a loop that only appends: `foldlM` with `pure (acc ++ g x)` is `flatMap` -/
theorem foldlM_append_option {β γ : Type} (g : γ → List β) (l : List γ) (a : List β) :
    l.foldlM (m := Option) (fun acc x => some (acc ++ g x)) a = some (a ++ l.flatMap g) := by
  induction l generalizing a with
  | nil => simp
  | cons x xs ih => simp [List.foldlM_cons, ih, List.flatMap_cons, List.append_assoc]

/-- a loop whose every iteration appends exactly one element computed from the item -/
theorem foldlM_append_one {β γ : Type} (body : List β → γ → Option (List β)) (g : γ → β)
    (h : ∀ acc x, body acc x = some (acc ++ [g x])) (l : List γ) (a : List β) :
    l.foldlM body a = some (a ++ l.map g) := by
  induction l generalizing a with
  | nil => simp
  | cons x xs ih => simp [List.foldlM_cons, h, ih, List.append_assoc]

/-- a loop whose every iteration appends at most one element -/
theorem foldlM_append_opt {β γ : Type} (body : List β → γ → Option (List β)) (g : γ → Option β)
    (h : ∀ acc x, body acc x = some (acc ++ (g x).toList)) (l : List γ) (a : List β) :
    l.foldlM body a = some (a ++ l.filterMap g) := by
  induction l generalizing a with
  | nil => simp
  | cons x xs ih =>
    simp only [List.foldlM_cons, h, Option.bind_some, ih, List.filterMap_cons]
    cases g x <;> simp

/-- loop invariant for a `foldlM` in `Option`: `P` holds of the start value and is preserved by every iteration on an
item satisfying `Q` -/
theorem foldlM_option_invariant {β γ : Type} (P : β → Prop) (Q : γ → Prop) (body : β → γ → Option β)
    (hstep : ∀ acc x b, P acc → Q x → body acc x = some b → P b) (l : List γ) (hl : ∀ x ∈ l, Q x)
    (a r : β) (ha : P a) (hr : l.foldlM body a = some r) : P r := by
  induction l generalizing a with
  | nil =>
    simp only [List.foldlM_nil] at hr
    cases hr
    exact ha
  | cons x xs ih =>
    simp only [List.foldlM_cons] at hr
    cases hb : body a x with
    | none => simp [hb] at hr
    | some b =>
      rw [hb] at hr
      exact ih (fun y hy => hl y (List.mem_cons_of_mem _ hy)) b
        (hstep a x b ha (hl x List.mem_cons_self) hb) hr

section
variable {α : Type}

theorem ctorAdjustments_map_some (l : List (Adj α)) : Py.ctorAdjustments (l.map some) = l := by
  unfold Py.ctorAdjustments
  induction l with
  | nil => rfl
  | cons x xs ih => simp [List.filterMap_cons, ih]

theorem ctorAdjustments_append (l : List (Adj α)) (o : Option (Adj α)) :
    Py.ctorAdjustments (l.map some ++ [o]) = l ++ o.toList := by
  unfold Py.ctorAdjustments
  rw [List.filterMap_append]
  have := ctorAdjustments_map_some l
  unfold Py.ctorAdjustments at this
  rw [this]
  cases o <;> rfl

theorem getJoin_toList [One α] [Div α] [NatCast α] (a : List (String × Option (Adj α))) (k : String) :
    (Py.getJoin a k).toList = Build.adjFor a k := by
  unfold Py.getJoin Build.adjFor
  cases alookup a k with
  | none => rfl
  | some o => cases o <;> rfl

end

end Summer.SourceTie
