import Summer.Proofs.AggregateRates
/-
Helper lemmas for property C03, part 5: `stratifyValues` (the run-time population split) writes, for
every parent compartment in order, either its value (unstratified) or its value times the split
proportion of every stratum (stratified); aggregation undoes it when the proportions sum to one.
-/
open Summer Summer.Build Summer.Run Summer.Generated Summer.Spec
set_option linter.unusedSectionVars false
set_option linter.unnecessarySeqFocus false

namespace Summer.Proofs

/-! ### scatters -/
section scatter
variable {β : Type}

theorem jsetMany_length (a : List β) (idxs : List Nat) (vs : List β) : (jsetMany a idxs vs).length = a.length := by
  unfold jsetMany jset
  exact foldl_set_length (idxs.zip vs) a (fun p => p.1) (fun _ p => p.2)

theorem jsetMany_snoc (a : List β) (idxs : List Nat) (vs : List β) (q : Nat) (v : β)
    (h : idxs.length = vs.length) :
    jsetMany a (idxs ++ [q]) (vs ++ [v]) = (jsetMany a idxs vs).set q v := by
  unfold jsetMany jset
  rw [List.zip_append h, List.foldl_append]
  rfl

theorem jsetMany_append_left (a e : List β) (idxs : List Nat) (vs : List β) (h : ∀ q ∈ idxs, q < a.length) :
    jsetMany (a ++ e) idxs vs = jsetMany a idxs vs ++ e := by
  unfold jsetMany jset
  induction idxs generalizing a vs with
  | nil => simp
  | cons i is ih =>
    cases vs with
    | nil => simp
    | cons v vs' =>
      simp only [List.zip_cons_cons, List.foldl_cons]
      rw [List.set_append_left _ _ (h i (by simp))]
      exact ih (a.set i v) vs' (fun q hq => by simpa using h q (by simp [hq]))

end scatter

/-! ### association lists under a keyed update -/

theorem alookup_map_update {β} (l : List (String × β)) (st st' : String) (g : β → β) :
    alookup (l.map (fun kv => if kv.1 == st then (kv.1, g kv.2) else kv)) st'
      = (alookup l st').map (fun v => if st' == st then g v else v) := by
  unfold alookup
  induction l with
  | nil => rfl
  | cons kv t ih =>
    simp only [List.map_cons, List.find?_cons]
    by_cases hk : (kv.1 == st') = true
    · have hk' : kv.1 = st' := by simpa using hk
      by_cases hs : (kv.1 == st) = true
      · have : (st' == st) = true := by rw [← hk']; exact hs
        simp [hk, hs, this]
      · have : (st' == st) = false := by rw [← hk']; simpa using hs
        simp [hk, hs, this]
    · have hk2 : ((if (kv.1 == st) = true then (kv.1, g kv.2) else kv).1 == st') = false := by
        split <;> simpa using hk
      simp only [hk, hk2]
      exact ih

theorem alookup_isSome_of_mem_keys {β} (l : List (String × β)) (st : String) (h : st ∈ l.map (·.1)) :
    ∃ v, alookup l st = some v := by
  unfold alookup
  induction l with
  | nil => simp at h
  | cons kv t ih =>
    simp only [List.find?_cons]
    by_cases hk : (kv.1 == st) = true
    · simp [hk]
    · simp only [hk]
      apply ih
      simp only [List.map_cons, List.mem_cons] at h
      rcases h with h | h
      · exact absurd (by simp [h]) hk
      · exact h


/-- target positions of a stratum -/
def tgt (ix : StratIdx) (st : String) : List Nat := (alookup ix.stratumTarget st).getD []

/-- one step of the inner loop of `stratIndexArrays` -/
def stratumStep (a : StratIdx) (st : String) : StratIdx :=
  { a with stratumTarget := a.stratumTarget.map (fun kv => if kv.1 == st then (kv.1, kv.2 ++ [a.newSize]) else kv),
           newSize := a.newSize + 1 }

theorem stratumStep_keys (a : StratIdx) (st : String) :
    (stratumStep a st).stratumTarget.map (·.1) = a.stratumTarget.map (·.1) := by
  simp only [stratumStep, List.map_map]
  apply List.map_congr_left
  intro kv _
  simp only [Function.comp]
  split <;> rfl

theorem tgt_stratumStep_self (a : StratIdx) (st : String) (h : st ∈ a.stratumTarget.map (·.1)) :
    tgt (stratumStep a st) st = tgt a st ++ [a.newSize] := by
  obtain ⟨v, hv⟩ := alookup_isSome_of_mem_keys _ _ h
  unfold tgt
  simp only [stratumStep]
  rw [alookup_map_update a.stratumTarget st st (fun v => v ++ [a.newSize]), hv]
  simp

theorem tgt_stratumStep_other (a : StratIdx) (st st' : String) (h : st' ≠ st) :
    tgt (stratumStep a st) st' = tgt a st' := by
  unfold tgt
  simp only [stratumStep]
  rw [alookup_map_update a.stratumTarget st st' (fun v => v ++ [a.newSize])]
  have : (st' == st) = false := by simpa using h
  cases alookup a.stratumTarget st' <;> simp [this]

theorem stratumFold (L2 : List String) : ∀ (L1 : List String) (a : StratIdx), (L1 ++ L2).Nodup →
    a.stratumTarget.map (·.1) = L1 ++ L2 →
    (L2.foldl stratumStep a).newSize = a.newSize + L2.length ∧
    (L2.foldl stratumStep a).stratBase = a.stratBase ∧
    (L2.foldl stratumStep a).passBase = a.passBase ∧
    (L2.foldl stratumStep a).passTarget = a.passTarget ∧
    (L2.foldl stratumStep a).stratumTarget.map (·.1) = L1 ++ L2 ∧
    (∀ st ∈ L1, tgt (L2.foldl stratumStep a) st = tgt a st) ∧
    (∀ L2a st L2b, L2 = L2a ++ st :: L2b → tgt (L2.foldl stratumStep a) st = tgt a st ++ [a.newSize + L2a.length]) := by
  induction L2 with
  | nil =>
    intro L1 a _ hk
    refine ⟨rfl, rfl, rfl, rfl, hk, fun _ _ => rfl, ?_⟩
    intro L2a st L2b h
    simp at h
  | cons st L2' ih =>
    intro L1 a hnd hk
    have hnd' : ((L1 ++ [st]) ++ L2').Nodup := by simpa using hnd
    have hk' : (stratumStep a st).stratumTarget.map (·.1) = (L1 ++ [st]) ++ L2' := by
      rw [stratumStep_keys, hk]; simp
    obtain ⟨h1, h2, h3, h4, h5, h6, h7⟩ := ih (L1 ++ [st]) (stratumStep a st) hnd' hk'
    have hmem : st ∈ a.stratumTarget.map (·.1) := by rw [hk]; simp
    simp only [List.foldl_cons]
    refine ⟨by rw [h1]; simp [stratumStep]; omega, h2, h3, h4, by rw [h5]; simp, ?_, ?_⟩
    · intro st' hst'
      rw [h6 st' (by simp [hst'])]
      apply tgt_stratumStep_other
      intro e
      subst e
      have := (List.nodup_append.1 hnd).2.2 st' hst' st' (by simp)
      exact this rfl
    · intro L2a st'' L2b hsplit
      cases L2a with
      | nil =>
        simp only [List.nil_append, List.cons.injEq] at hsplit
        obtain ⟨rfl, _⟩ := hsplit
        rw [h6 st (by simp), tgt_stratumStep_self a st hmem]; simp
      | cons x L2a' =>
        simp only [List.cons_append, List.cons.injEq] at hsplit
        obtain ⟨rfl, hrest⟩ := hsplit
        rw [h7 L2a' st'' L2b hrest]
        have hne : st'' ≠ st := by
          intro e
          subst e
          have hnd2 : (st'' :: L2').Nodup := (List.nodup_append.1 hnd).2.1
          rw [List.nodup_cons, hrest] at hnd2
          exact hnd2.1 (by simp)
        rw [tgt_stratumStep_other a st st'' hne]
        simp [stratumStep]; omega

section
variable {α : Type}

/-- one step of the outer loop of `stratIndexArrays` -/
def ixStep (s : Strat α) (acc : StratIdx) (ci : Comp × Nat) : StratIdx :=
  if ci.1.hasNameIn s.comps then
    s.strata.foldl stratumStep { acc with stratBase := acc.stratBase ++ [ci.2] }
  else
    { acc with passBase := acc.passBase ++ [ci.2], passTarget := acc.passTarget ++ [acc.newSize],
               newSize := acc.newSize + 1 }

def ixInit (s : Strat α) : StratIdx := ⟨[], [], [], s.strata.map (fun st => (st, [])), 0⟩

theorem stratIndexArrays_eq (comps : List Comp) (s : Strat α) :
    stratIndexArrays comps s = comps.zipIdx.foldl (ixStep s) (ixInit s) := rfl

/-- invariant of the index arrays -/
structure IxInv (strata : List String) (ix : StratIdx) : Prop where
  pass : ix.passBase.length = ix.passTarget.length
  passLt : ∀ q ∈ ix.passTarget, q < ix.newSize
  keys : ix.stratumTarget.map (·.1) = strata
  tgtLen : ∀ st ∈ strata, (tgt ix st).length = ix.stratBase.length
  tgtLt : ∀ st ∈ strata, ∀ q ∈ tgt ix st, q < ix.newSize

theorem tgt_init (s : Strat α) (st : String) : tgt (ixInit s) st = [] := by
  unfold tgt ixInit alookup
  simp only
  cases h : List.find? (fun p => p.1 == st) (s.strata.map (fun st => (st, ([] : List Nat)))) with
  | none => rfl
  | some p =>
    have := List.mem_of_find?_eq_some h
    simp only [List.mem_map] at this
    obtain ⟨_, _, rfl⟩ := this
    rfl

theorem ixInv_init (s : Strat α) : IxInv s.strata (ixInit s) where
  pass := rfl
  passLt := by simp [ixInit]
  keys := by simp [ixInit, Function.comp_def]
  tgtLen := by intro st _; rw [tgt_init]; rfl
  tgtLt := by intro st _ q hq; rw [tgt_init] at hq; simp at hq

theorem ixInv_step (s : Strat α) (hnd : s.strata.Nodup) (ix : StratIdx) (hinv : IxInv s.strata ix)
    (ci : Comp × Nat) : IxInv s.strata (ixStep s ix ci) := by
  unfold ixStep
  by_cases hp : ci.1.hasNameIn s.comps = true
  · simp only [hp, if_true]
    obtain ⟨h1, h2, h3, h4, h5, _, h7⟩ := stratumFold s.strata [] { ix with stratBase := ix.stratBase ++ [ci.2] }
      (by simpa using hnd) (by simpa using hinv.keys)
    have htgt : ∀ st ∈ s.strata, ∃ j, tgt (s.strata.foldl stratumStep { ix with stratBase := ix.stratBase ++ [ci.2] }) st
        = tgt ix st ++ [ix.newSize + j] ∧ j < s.strata.length := by
      intro st hst
      obtain ⟨L2a, L2b, hsplit⟩ := List.append_of_mem hst
      refine ⟨L2a.length, h7 L2a st L2b hsplit, ?_⟩
      rw [hsplit]; simp
    refine ⟨by rw [h3, h4]; exact hinv.pass, ?_, by simpa using h5, ?_, ?_⟩
    · intro q hq
      rw [h4] at hq
      have := hinv.passLt q hq
      rw [h1]; simp only; omega
    · intro st hst
      obtain ⟨j, hj, _⟩ := htgt st hst
      rw [hj, h2]
      simp [hinv.tgtLen st hst]
    · intro st hst q hq
      obtain ⟨j, hj, hjlt⟩ := htgt st hst
      rw [hj, List.mem_append, List.mem_singleton] at hq
      rw [h1]
      simp only
      rcases hq with hq | hq
      · have := hinv.tgtLt st hst q hq; omega
      · omega
  · simp only [hp, Bool.false_eq_true, if_false]
    refine ⟨by simp [hinv.pass], ?_, hinv.keys, hinv.tgtLen, ?_⟩
    · intro q hq
      simp only [List.mem_append, List.mem_singleton] at hq
      rcases hq with hq | hq
      · have := hinv.passLt q hq; simp only; omega
      · simp only; omega
    · intro st hst q hq
      have := hinv.tgtLt st hst q hq
      simp only; omega
end

section
variable {α : Type} [Zero α] [Mul α]

/-- the split proportion of a stratum (`0` if missing) -/
def splitP (split : List (String × α)) (st : String) : α := (alookup split st).getD 0

/-- one stratum's scatter in `stratifyValues` -/
def svStep (ix : StratIdx) (split : List (String × α)) (vals : List α) (acc : List α) (st : String) : List α :=
  jsetMany acc (tgt ix st) ((gather vals ix.stratBase).map (· * splitP split st))

theorem stratifyValues_eq (ix : StratIdx) (strata : List String) (split : List (String × α)) (vals : List α) :
    stratifyValues ix strata split vals = strata.foldl (svStep ix split vals)
      (jsetMany (List.replicate ix.newSize 0) ix.passTarget (gather vals ix.passBase)) := rfl

theorem svFold_length (ix : StratIdx) (split : List (String × α)) (vals : List α) (L : List String) (A : List α) :
    (L.foldl (svStep ix split vals) A).length = A.length := by
  induction L generalizing A with
  | nil => rfl
  | cons st L ih => simp only [List.foldl_cons, ih, svStep, jsetMany_length]

theorem svFold_append (ix : StratIdx) (split : List (String × α)) (vals : List α) (N : Nat) (L : List String)
    (hlt : ∀ st ∈ L, ∀ q ∈ tgt ix st, q < N) (A e : List α) (hA : A.length = N) :
    L.foldl (svStep ix split vals) (A ++ e) = L.foldl (svStep ix split vals) A ++ e := by
  induction L generalizing A with
  | nil => rfl
  | cons st L ih =>
    simp only [List.foldl_cons]
    have h1 : svStep ix split vals (A ++ e) st = svStep ix split vals A st ++ e := by
      unfold svStep
      exact jsetMany_append_left A e _ _ (fun q hq => by rw [hA]; exact hlt st (by simp) q hq)
    rw [h1]
    exact ih (fun st' h' => hlt st' (by simp [h'])) _ (by simp [svStep, jsetMany_length, hA])

theorem gather_snoc (vals : List α) (idxs : List Nat) (k : Nat) :
    gather vals (idxs ++ [k]) = gather vals idxs ++ [vals.getD k 0] := by
  simp [gather]

theorem set_append_at {β} (A M R : List β) (z v : β) (N : Nat) (hA : A.length = N) :
    (A ++ (M ++ z :: R)).set (N + M.length) v = A ++ (M ++ v :: R) := by
  subst hA
  rw [List.set_append_right _ _ (by omega), Nat.add_sub_cancel_left,
    List.set_append_right _ _ (by omega), Nat.sub_self]
  rfl

/-- the block written for one parent compartment -/
def block (p : Comp → Bool) (strata : List String) (split : List (String × α)) (c : Comp) (v : α) : List α :=
  if p c then strata.map (fun st => v * splitP split st) else [v]

/-- unstratified parent: its value is appended -/
theorem sv_step_pass (strata : List String) (split : List (String × α)) (vals : List α) (ix : StratIdx)
    (hinv : IxInv strata ix) (k : Nat) :
    stratifyValues { ix with passBase := ix.passBase ++ [k], passTarget := ix.passTarget ++ [ix.newSize],
                             newSize := ix.newSize + 1 } strata split vals
      = stratifyValues ix strata split vals ++ [vals.getD k 0] := by
  rw [stratifyValues_eq, stratifyValues_eq]
  simp only
  have hA : (jsetMany (List.replicate ix.newSize (0 : α)) ix.passTarget (gather vals ix.passBase)).length = ix.newSize := by
    rw [jsetMany_length, List.length_replicate]
  have h0 : jsetMany (List.replicate (ix.newSize + 1) (0 : α)) (ix.passTarget ++ [ix.newSize])
      (gather vals (ix.passBase ++ [k]))
      = jsetMany (List.replicate ix.newSize 0) ix.passTarget (gather vals ix.passBase) ++ [vals.getD k 0] := by
    rw [gather_snoc, jsetMany_snoc _ _ _ _ _ (by rw [gather_length, hinv.pass]), List.replicate_succ',
      jsetMany_append_left _ _ _ _ (fun q hq => by rw [List.length_replicate]; exact hinv.passLt q hq)]
    exact set_append_at _ [] [] 0 _ ix.newSize hA
  rw [h0]
  exact svFold_append ix split vals ix.newSize strata hinv.tgtLt _ _ hA

/-- the generalised statement for the strata loop of a stratified parent -/
theorem sv_strat_aux (split : List (String × α)) (vals : List α) (ix ix' : StratIdx) (N : Nat) (v : α)
    (hbase : gather vals ix'.stratBase = gather vals ix.stratBase ++ [v]) (L2 : List String) :
    ∀ (L1 : List String) (B : List α), B.length = N →
      (∀ st ∈ L2, (tgt ix st).length = ix.stratBase.length) →
      (∀ st ∈ L2, ∀ q ∈ tgt ix st, q < N) →
      (∀ L2a st L2b, L2 = L2a ++ st :: L2b → tgt ix' st = tgt ix st ++ [N + (L1.length + L2a.length)]) →
      L2.foldl (svStep ix' split vals) (B ++ (L1.map (fun st => v * splitP split st) ++ List.replicate L2.length 0))
        = L2.foldl (svStep ix split vals) B ++ (L1 ++ L2).map (fun st => v * splitP split st) := by
  induction L2 with
  | nil => intro L1 B _ _ _ _; simp
  | cons st L2' ih =>
    intro L1 B hB hlen hlt htgt
    simp only [List.foldl_cons]
    have hstep : svStep ix' split vals
        (B ++ (L1.map (fun st => v * splitP split st) ++ List.replicate (st :: L2').length 0)) st
        = svStep ix split vals B st ++
          ((L1 ++ [st]).map (fun st => v * splitP split st) ++ List.replicate L2'.length 0) := by
      unfold svStep
      rw [htgt [] st L2' rfl, hbase, List.map_append, List.map_cons, List.map_nil,
        jsetMany_snoc _ _ _ _ _ (by rw [List.length_map, gather_length]; exact hlen st (by simp)),
        jsetMany_append_left _ _ _ _ (fun q hq => by rw [hB]; exact hlt st (by simp) q hq)]
      simp only [List.length_cons, List.replicate_succ, List.length_nil, Nat.add_zero]
      have := set_append_at (jsetMany B (tgt ix st) ((gather vals ix.stratBase).map (· * splitP split st)))
        (L1.map (fun st => v * splitP split st)) (List.replicate L2'.length 0) 0 (v * splitP split st) N
        (by rw [jsetMany_length, hB])
      rw [List.length_map] at this
      rw [this]
      simp
    rw [hstep]
    have := ih (L1 ++ [st]) (svStep ix split vals B st) (by simp [svStep, jsetMany_length, hB])
      (fun st' h' => hlen st' (by simp [h'])) (fun st' h' => hlt st' (by simp [h']))
      (fun L2a st' L2b hsplit => by
        rw [htgt (st :: L2a) st' L2b (by rw [hsplit]; rfl)]
        simp only [List.length_append, List.length_cons, List.length_nil]
        congr 2; omega)
    rw [this]
    simp

/-- stratified parent: its value times every stratum's proportion is appended -/
theorem sv_step_strat (strata : List String) (hnd : strata.Nodup) (split : List (String × α)) (vals : List α)
    (ix : StratIdx) (hinv : IxInv strata ix) (k : Nat) :
    stratifyValues (strata.foldl stratumStep { ix with stratBase := ix.stratBase ++ [k] }) strata split vals
      = stratifyValues ix strata split vals ++ strata.map (fun st => vals.getD k 0 * splitP split st) := by
  obtain ⟨h1, h2, h3, h4, _, _, h7⟩ := stratumFold strata [] { ix with stratBase := ix.stratBase ++ [k] }
    (by simpa using hnd) (by simpa using hinv.keys)
  rw [stratifyValues_eq, stratifyValues_eq, h1, h3, h4]
  simp only
  have hA : (jsetMany (List.replicate ix.newSize (0 : α)) ix.passTarget (gather vals ix.passBase)).length = ix.newSize := by
    rw [jsetMany_length, List.length_replicate]
  rw [List.replicate_add, jsetMany_append_left _ _ _ _
    (fun q hq => by rw [List.length_replicate]; exact hinv.passLt q hq)]
  have := sv_strat_aux split vals ix (strata.foldl stratumStep { ix with stratBase := ix.stratBase ++ [k] })
    ix.newSize (vals.getD k 0) (by rw [h2]; exact gather_snoc vals ix.stratBase k) strata []
    (jsetMany (List.replicate ix.newSize (0 : α)) ix.passTarget (gather vals ix.passBase)) hA
    hinv.tgtLen hinv.tgtLt
    (fun L2a st L2b hsplit => by
      rw [h7 L2a st L2b hsplit]
      simp [tgt])
  simpa using this
end

section
variable {α : Type} [Zero α] [Mul α]

/-- `stratifyValues` over the index arrays of a compartment list, generalised over the loop state -/
theorem sv_fold (s : Strat α) (hnd : s.strata.Nodup) (split : List (String × α)) (vals : List α)
    (rest : List Comp) : ∀ (k0 : Nat) (ix : StratIdx), IxInv s.strata ix →
      stratifyValues ((rest.zipIdx k0).foldl (ixStep s) ix) s.strata split vals
        = stratifyValues ix s.strata split vals ++
          (rest.zipIdx k0).flatMap (fun ck => block (isStratified s) s.strata split ck.1 (vals.getD ck.2 0)) := by
  induction rest with
  | nil => intro k0 ix _; simp
  | cons c cs ih =>
    intro k0 ix hinv
    simp only [List.zipIdx_cons, List.foldl_cons, List.flatMap_cons]
    rw [ih (k0 + 1) _ (ixInv_step s hnd ix hinv (c, k0)), ← List.append_assoc]
    congr 1
    unfold ixStep block isStratified
    by_cases hp : c.hasNameIn s.comps = true
    · simp only [hp, if_true]
      exact sv_step_strat s.strata hnd split vals ix hinv k0
    · simp only [hp, Bool.false_eq_true, if_false]
      exact sv_step_pass s.strata split vals ix hinv k0

theorem stratifyValues_init (s : Strat α) (split : List (String × α)) (vals : List α) :
    stratifyValues (ixInit s) s.strata split vals = [] := by
  have : (stratifyValues (ixInit s) s.strata split vals).length = 0 := by
    rw [stratifyValues_eq, svFold_length, jsetMany_length]; rfl
  exact List.length_eq_zero_iff.1 this

/-- **what `stratifyValues` computes**: block by block, in the order of the parent compartments -/
theorem stratifyValues_blocks (comps : List Comp) (s : Strat α) (hnd : s.strata.Nodup)
    (split : List (String × α)) (vals : List α) :
    stratifyValues (stratIndexArrays comps s) s.strata split vals
      = comps.zipIdx.flatMap (fun ck => block (isStratified s) s.strata split ck.1 (vals.getD ck.2 0)) := by
  rw [stratIndexArrays_eq, sv_fold s hnd split vals comps 0 (ixInit s) (ixInv_init s), stratifyValues_init]
  rfl
end

section
variable {α : Type} [Field α]

theorem aggBy_blocks (p : Comp → Bool) (strata : List String) (split : List (String × α)) (vals : List α)
    (hsum : sumL (strata.map (splitP split)) = 1) (comps : List Comp) (k0 : Nat) :
    aggBy p strata.length comps
      ((comps.zipIdx k0).flatMap (fun ck => block p strata split ck.1 (vals.getD ck.2 0)))
      = (comps.zipIdx k0).map (fun ck => vals.getD ck.2 0) := by
  induction comps generalizing k0 with
  | nil => rfl
  | cons c cs ih =>
    simp only [block] at ih
    simp only [List.zipIdx_cons, List.flatMap_cons, List.map_cons, aggBy, block]
    by_cases hp : p c = true
    · simp only [hp, if_true]
      rw [List.take_left' (by simp), List.drop_left' (by simp), ih, sumL_map_mul_left]
      have : sumL (strata.map (fun st => splitP split st)) = 1 := hsum
      rw [this, mul_one]
    · simp only [hp, Bool.false_eq_true, if_false, List.singleton_append, List.headD_cons,
        List.drop_succ_cons, List.drop_zero, ih]

theorem zipIdx_map_getD (comps : List Comp) (vals : List α) (h : vals.length = comps.length) :
    comps.zipIdx.map (fun ck => vals.getD ck.2 0) = vals := by
  apply List.ext_getElem
  · simp [h]
  · intro i h1 h2
    simp only [List.getElem_map, List.getElem_zipIdx, Nat.zero_add]
    rw [getD_eq_getElem _ _ _ h2]

/-- **C03.split_values**: aggregation undoes the population split -/
theorem agg_stratifyValues (comps : List Comp) (s : Strat α) (hnd : s.strata.Nodup) (split : List (String × α))
    (hsum : sumL (s.strata.map (fun st => (alookup split st).getD 0)) = 1) (vals : List α)
    (hlen : vals.length = comps.length) :
    agg comps s (stratifyValues (stratIndexArrays comps s) s.strata split vals) = vals := by
  rw [stratifyValues_blocks comps s hnd split vals]
  unfold agg
  rw [aggBy_blocks (isStratified s) s.strata split vals hsum comps 0, zipIdx_map_getD comps vals hlen]
end
end Summer.Proofs
