import Summer.Proofs.Rates
import Summer.Spec.Aggregate
import Mathlib.Data.List.Nodup
/-
Helper lemmas for property C03 (aggregation over the strata of an unadjusted stratification).
Part 1: structure — what `stratifyFlow` produces, the realised weights of the copiesA, injectivity of
`Comp.stratify`, `stratifyComps`, `indexOf?`, and the aggregation operator `Spec.aggBy`.
-/
open Summer Summer.Build Summer.Run Summer.Generated Summer.Spec

deriving instance ReflBEq, LawfulBEq for Comp
deriving instance ReflBEq, LawfulBEq for FlowKind
deriving instance ReflBEq, LawfulBEq for StratKind

set_option linter.unusedSectionVars false
set_option linter.unnecessarySeqFocus false

namespace Summer.Proofs

theorem filterMap_ite {β γ} (p : β → Prop) [DecidablePred p] (g : β → γ) (l : List β) :
    l.filterMap (fun x => if p x then some (g x) else none) = (l.filter (fun x => decide (p x))).map g := by
  induction l with
  | nil => rfl
  | cons x xs ih =>
    by_cases hp : p x <;> simp [hp, ih]

section
variable {α : Type} [One α] [Div α] [NatCast α]

omit [One α] [Div α] [NatCast α] in
theorem getFlowAdjustment_nil (s : Strat α) (f : Flow α) (h : s.flowAdj = []) :
    getFlowAdjustment s f = .ok none := by
  simp [getFlowAdjustment, h]
  rfl

theorem isEntry_eq (k : FlowKind) : isEntry k = isEntryKind k := by cases k <;> rfl
theorem isExit_eq (k : FlowKind) : isExit k = isDeath k := by cases k <;> rfl
theorem isBirth_eq (k : FlowKind) : isBirth k = isBirthKind k := by cases k <;> rfl
theorem absShare_eq (k : FlowKind) : absoluteShareKinds.contains k = (k == .absolute) := by cases k <;> rfl

theorem stratifyEntry_unadj (s : Strat α) (f : Flow α) (h : s.flowAdj = []) :
    stratifyEntry f s = .ok (
      if !endStratified f.dst s then [f]
      else if isBirthKind f.kind && s.kind == .age then
        (s.strata.filter (fun st => st == "0")).map (copy f s false true [])
      else s.strata.map (copy f s false true [shareA s.strata.length])) := by
  unfold stratifyEntry
  simp only [getFlowAdjustment_nil s f h, isBirth_eq, Strat.isAgeing]
  by_cases hd : endStratified f.dst s = true
  · simp only [hd, Bool.not_true, Bool.false_eq_true, if_false]
    by_cases hb : (isBirthKind f.kind && s.kind == .age) = true
    · simp only [hb, if_true]
      simp only [guardE, bind, Except.bind, pure, Except.pure, Option.isSome_none, Bool.and_false,
        Bool.not_false, if_true, Bool.true_and, bne_iff_ne, ne_eq, ite_not, List.append_nil]
      congr 1
      rw [filterMap_ite]
      have hfe : (fun x : String => decide (x = "0")) = (fun st => st == "0") := by
        funext x; exact (beq_eq_decide x "0").symm
      rw [hfe]
      apply List.map_congr_left
      intro st _
      simp [copy, childEnd]
    · simp only [hb]
      simp [guardE, bind, Except.bind, pure, Except.pure, copy, childEnd, shareA, shareAdj]
  · simp [hd]; rfl

theorem stratifyExit_unadj (s : Strat α) (f : Flow α) (h : s.flowAdj = []) :
    stratifyExit f s = .ok (
      if !endStratified f.src s then [f] else s.strata.map (copy f s true false [])) := by
  unfold stratifyExit
  simp only [getFlowAdjustment_nil s f h]
  by_cases hd : endStratified f.src s = true
  · simp [hd, bind, Except.bind, pure, Except.pure, copy, childEnd]
  · simp [hd]; rfl

theorem stratifyTransition_unadj (s : Strat α) (f : Flow α) (h : s.flowAdj = []) :
    stratifyTransition f s = .ok (
      let n := s.strata.length
      let srcS := endStratified f.src s
      let dstS := endStratified f.dst s
      if !(dstS || srcS) then [f]
      else
        let conservation := dstS && !srcS && !(s.kind == .strain)
        let extra : List (Adj α) :=
          if conservation then [shareA n]
          else if f.kind == .absolute && decide (1 < n) then [shareA n]
          else []
        s.strata.map (copy f s srcS dstS extra)) := by
  unfold stratifyTransition
  simp only [getFlowAdjustment_nil s f h, absShare_eq, Strat.isStrain]
  by_cases hd : (endStratified f.dst s || endStratified f.src s) = true
  · simp only [hd, Bool.not_true, Bool.false_eq_true, if_false]
    simp only [bind, Except.bind, pure, Except.pure, Option.isNone_none, Bool.and_true, List.length_map]
    by_cases hc : (endStratified f.dst s && !endStratified f.src s && !(s.kind == .strain)) = true
    · simp [hc, copy, childEnd, shareA, shareAdj]
    · simp only [hc]
      by_cases ha : (f.kind == .absolute && decide (1 < s.strata.length)) = true
      · have ha' : (f.kind == .absolute && decide (s.strata.length > 1)) = true := ha
        simp [ha, copy, childEnd, shareA, shareAdj]
      · have ha' : ¬ (f.kind == .absolute && decide (s.strata.length > 1)) = true := ha
        simp [ha, copy, childEnd]
  · simp [hd]; rfl

theorem stratifyFlow_unadj (s : Strat α) (f : Flow α) (h : s.flowAdj = []) :
    stratifyFlow f s = .ok (copiesA s f) := by
  unfold stratifyFlow copiesA
  rw [isEntry_eq, isExit_eq]
  by_cases he : isEntryKind f.kind = true
  · simp only [he, if_true]; exact stratifyEntry_unadj s f h
  · by_cases hx : isDeath f.kind = true
    · simp only [he, hx, if_true]; exact stratifyExit_unadj s f h
    · simp only [he, hx]; exact stratifyTransition_unadj s f h
end

/-! ### realised weights of the copiesA -/
section weights
variable {α : Type} [Zero α] [One α] [Add α] [Sub α] [Mul α] [Div α] [NatCast α] [LT α] [DecidableLT α]

omit [Zero α] [Add α] [Sub α] [Mul α] [LT α] [DecidableLT α] in
theorem realised_copy_nil (f : Flow α) (s : Strat α) (a b : Bool) (st : String) :
    realised (copy f s a b [] st) = realised f := by
  simp [realised, copy]

omit [Zero α] [Add α] [Sub α] [Mul α] [LT α] [DecidableLT α] in
theorem realised_copy_share (f : Flow α) (s : Strat α) (a b : Bool) (n : Nat) (st : String) :
    realised (copy f s a b [shareA n] st) = .mul (realised f) (.const ((1 : α) / (n : α))) := by
  simp [realised, copy, shareA, List.foldl_append]

theorem eval_mul_const (env : Env α) (e : Expr α) (c : α) :
    (Expr.mul e (.const c)).eval env = (e.eval env).map (· * c) := by
  simp only [Expr.eval]
  cases e.eval env <;> rfl

end weights

/-! ### compartments -/

def noKey (c : Comp) (name : String) : Prop := c.strata.any (fun kv => kv.1 == name) = false

theorem stratify_noKey (c : Comp) (name st : String) (h : noKey c name) :
    c.stratify name st = ⟨c.name, c.strata ++ [(name, st)]⟩ := by
  unfold noKey at h
  simp [Comp.stratify, dictSet, h]

theorem stratify_inj (c d : Comp) (name st st' : String) (hc : noKey c name) (hd : noKey d name)
    (h : c.stratify name st = d.stratify name st') : c = d ∧ st = st' := by
  rw [stratify_noKey c name st hc, stratify_noKey d name st' hd] at h
  simp only [Comp.mk.injEq] at h
  obtain ⟨h1, h2⟩ := h
  have := List.append_inj' h2 rfl
  simp only [List.cons.injEq, Prod.mk.injEq, true_and, and_true] at this
  refine ⟨?_, this.2⟩
  cases c; cases d; simp_all

theorem stratify_ne_noKey (c d : Comp) (name st : String) (hc : noKey c name) (hd : noKey d name) :
    c.stratify name st ≠ d := by
  intro h
  rw [stratify_noKey c name st hc] at h
  unfold noKey at hd
  rw [← h] at hd
  simp at hd

section comps
variable {α : Type}

theorem freshFor_mem {comps : List Comp} {s : Strat α} (h : freshFor comps s = true) (c : Comp) (hc : c ∈ comps) :
    noKey c s.name := by
  unfold freshFor at h
  have := List.all_eq_true.1 h c hc
  simpa [noKey] using this

theorem mem_stratifyComps (comps : List Comp) (s : Strat α) (c' : Comp) :
    c' ∈ stratifyComps comps s ↔
      ∃ c ∈ comps, (isStratified s c = true ∧ ∃ st ∈ s.strata, c' = c.stratify s.name st) ∨
        (isStratified s c = false ∧ c' = c) := by
  unfold stratifyComps isStratified
  rw [List.mem_flatMap]
  constructor
  · rintro ⟨c, hc, h⟩
    refine ⟨c, hc, ?_⟩
    by_cases hp : c.hasNameIn s.comps = true
    · simp only [hp, if_true, List.mem_map] at h
      obtain ⟨st, hst, rfl⟩ := h
      exact Or.inl ⟨hp, st, hst, rfl⟩
    · simp only [hp, Bool.false_eq_true, if_false, List.mem_singleton] at h
      exact Or.inr ⟨by simpa using hp, h⟩
  · rintro ⟨c, hc, h⟩
    refine ⟨c, hc, ?_⟩
    rcases h with ⟨hp, st, hst, rfl⟩ | ⟨hp, rfl⟩
    · simp only [hp, if_true, List.mem_map]; exact ⟨st, hst, rfl⟩
    · simp [hp]

theorem stratifyComps_cons (c : Comp) (cs : List Comp) (s : Strat α) :
    stratifyComps (c :: cs) s =
      (if isStratified s c then s.strata.map (fun st => c.stratify s.name st) else [c]) ++ stratifyComps cs s := by
  rfl

theorem stratifyComps_nodup (comps : List Comp) (s : Strat α) (hf : freshFor comps s = true)
    (hnd : comps.Nodup) (hst : s.strata.Nodup) : (stratifyComps comps s).Nodup := by
  induction comps with
  | nil => simp [stratifyComps]
  | cons c cs ih =>
    have hfc : noKey c s.name := freshFor_mem hf c (by simp)
    have hfcs : freshFor cs s = true := by
      unfold freshFor at hf ⊢
      simp only [List.all_cons, Bool.and_eq_true] at hf
      exact hf.2
    rw [List.nodup_cons] at hnd
    rw [stratifyComps_cons, List.nodup_append]
    refine ⟨?_, ih hfcs hnd.2, ?_⟩
    · by_cases hp : isStratified s c = true
      · simp only [hp, if_true]
        apply List.Nodup.map_on _ hst
        intro st _ st' _ h
        exact (stratify_inj c c s.name st st' hfc hfc h).2
      · simp [hp]
    · intro a ha b hb hab
      subst hab
      rw [mem_stratifyComps] at hb
      obtain ⟨d, hd, hcase⟩ := hb
      have hfd : noKey d s.name := freshFor_mem hfcs d hd
      have hcd : c ≠ d := fun e => hnd.1 (e ▸ hd)
      by_cases hp : isStratified s c = true
      · simp only [hp, if_true, List.mem_map] at ha
        obtain ⟨st, _, rfl⟩ := ha
        rcases hcase with ⟨_, st', _, h⟩ | ⟨_, h⟩
        · exact hcd (stratify_inj c d s.name st st' hfc hfd h).1
        · exact stratify_ne_noKey c d s.name st hfc hfd h
      · simp only [hp, Bool.false_eq_true, if_false, List.mem_singleton] at ha
        subst ha
        rcases hcase with ⟨_, st', _, h⟩ | ⟨_, h⟩
        · exact stratify_ne_noKey d a s.name st' hfd hfc h.symm
        · exact hcd h

end comps

/-! ### `indexOf?` -/
section ixof
variable {β : Type} [BEq β] [LawfulBEq β]

theorem indexOf?_go_some (x : β) : ∀ (l : List β) (k i : Nat), indexOf?.go x l k = some i →
    ∃ j, i = k + j ∧ l[j]? = some x
  | [], _, _, h => by simp [indexOf?.go] at h
  | y :: ys, k, i, h => by
      simp only [indexOf?.go] at h
      split at h
      · rename_i hyx
        simp only [Option.some.injEq] at h
        exact ⟨0, by omega, by simp [eq_of_beq hyx]⟩
      · obtain ⟨j, hj, hl⟩ := indexOf?_go_some x ys (k + 1) i h
        exact ⟨j + 1, by omega, by simpa using hl⟩

theorem indexOf?_go_mem (x : β) : ∀ (l : List β) (k : Nat), x ∈ l → ∃ i, indexOf?.go x l k = some i
  | [], _, h => by simp at h
  | y :: ys, k, h => by
      simp only [indexOf?.go]
      by_cases hyx : (y == x) = true
      · simp [hyx]
      · simp only [hyx, Bool.false_eq_true, if_false]
        have : x ∈ ys := by
          rcases List.mem_cons.1 h with h | h
          · subst h; simp at hyx
          · exact h
        exact indexOf?_go_mem x ys (k + 1) this

theorem indexOf?_go_not_mem (x : β) : ∀ (l : List β) (k : Nat), x ∉ l → indexOf?.go x l k = none
  | [], _, _ => by simp [indexOf?.go]
  | y :: ys, k, h => by
      simp only [indexOf?.go]
      have hyx : ¬ (y == x) = true := by
        intro e; exact h (by rw [eq_of_beq e]; simp)
      simp only [hyx, Bool.false_eq_true, if_false]
      exact indexOf?_go_not_mem x ys (k + 1) (fun hm => h (by simp [hm]))

/-- `indexOf?` finds a position holding `x` -/
theorem indexOf?_some (l : List β) (x : β) (i : Nat) (h : indexOf? l x = some i) : l[i]? = some x := by
  obtain ⟨j, hj, hl⟩ := indexOf?_go_some x l 0 i h
  have : i = j := by omega
  subst this; exact hl

theorem indexOf?_mem (l : List β) (x : β) (h : x ∈ l) : ∃ i, indexOf? l x = some i ∧ l[i]? = some x := by
  obtain ⟨i, hi⟩ := indexOf?_go_mem x l 0 h
  exact ⟨i, hi, indexOf?_some l x i hi⟩

theorem indexOf?_not_mem (l : List β) (x : β) (h : x ∉ l) : indexOf? l x = none :=
  indexOf?_go_not_mem x l 0 h

theorem indexOf?_getElem_nodup (l : List β) (hnd : l.Nodup) (k : Nat) (hk : k < l.length) :
    indexOf? l l[k] = some k := by
  obtain ⟨i, hi, hl⟩ := indexOf?_mem l l[k] (List.getElem_mem hk)
  rw [hi]
  have hil : i < l.length := by
    by_contra hc
    rw [List.getElem?_eq_none (by omega)] at hl
    cases hl
  rw [List.getElem?_eq_getElem hil] at hl
  simp only [Option.some.injEq] at hl
  have := (List.Nodup.getElem_inj_iff hnd).1 hl
  rw [this]

end ixof

/-! ### vectors as functions of the compartment -/
section pop
variable {α : Type} [Zero α]

theorem popOf_none (comps : List Comp) (x : List α) : popOf comps x none = 0 := rfl

/-- reading a vector given as a function of the compartment -/
theorem popOf_map (comps : List Comp) (X : Comp → α) (c : Comp) (hc : c ∈ comps) :
    popOf comps (comps.map X) (some c) = X c := by
  obtain ⟨i, hi, hl⟩ := indexOf?_mem comps c hc
  have hil : i < comps.length := by
    by_contra hcon
    rw [List.getElem?_eq_none (by omega)] at hl
    cases hl
  rw [List.getElem?_eq_getElem hil] at hl
  simp only [Option.some.injEq] at hl
  unfold popOf compIdx
  simp only [Option.bind_some, hi]
  rw [getD_eq_getElem _ _ _ (by simpa using hil)]
  simp [hl]

theorem popOf_not_mem (comps : List Comp) (x : List α) (c : Comp) (hc : c ∉ comps) :
    popOf comps x (some c) = 0 := by
  unfold popOf compIdx
  simp [indexOf?_not_mem comps c hc]

/-- every vector with one entry per compartment of a duplicate-free list is a function of the compartment -/
theorem eq_map_popOf (comps : List Comp) (hnd : comps.Nodup) (x : List α) (hx : x.length = comps.length) :
    x = comps.map (fun c => popOf comps x (some c)) := by
  apply List.ext_getElem
  · simp [hx]
  · intro k h1 h2
    have hk : k < comps.length := by omega
    simp only [List.getElem_map, popOf, compIdx, Option.bind_some, indexOf?_getElem_nodup comps hnd k hk]
    rw [getD_eq_getElem _ _ _ h1]

end pop

/-! ### the aggregation operator -/
section agg
variable {β : Type} [Add β] [Zero β]

theorem aggBy_length (p : Comp → Bool) (n : Nat) (comps : List Comp) (x : List β) :
    (aggBy p n comps x).length = comps.length := by
  induction comps generalizing x with
  | nil => rfl
  | cons c cs ih =>
    simp only [aggBy]
    split <;> simp [ih]

/-- aggregation of a vector given as a function of the child compartment -/
theorem aggBy_map (p : Comp → Bool) (strata : List String) (g : Comp → String → Comp) (F : Comp → β)
    (comps : List Comp) :
    aggBy p strata.length comps ((comps.flatMap (fun c => if p c then strata.map (g c) else [c])).map F)
      = comps.map (fun c => if p c then sumL (strata.map (fun st => F (g c st))) else F c) := by
  induction comps with
  | nil => rfl
  | cons c cs ih =>
    simp only [List.flatMap_cons, List.map_append, List.map_cons, aggBy]
    by_cases hp : p c = true
    · simp only [hp, if_true, List.map_map]
      rw [List.take_left' (by simp), List.drop_left' (by simp), ih]
      rfl
    · simp only [hp, Bool.false_eq_true, if_false, List.map_cons, List.map_nil, List.singleton_append,
        List.headD_cons, List.drop_succ_cons, List.drop_zero, ih]

end agg

section aggsum
variable {β : Type} [AddCommMonoid β]

theorem sumL_take_drop (n : Nat) (x : List β) : sumL (x.take n) + sumL (x.drop n) = sumL x := by
  rw [← sumL_append, List.take_append_drop]

/-- aggregation preserves the total (`x` has one entry per stratified compartment) -/
theorem sumL_aggBy (p : Comp → Bool) (n : Nat) (comps : List Comp) (x : List β)
    (hx : x.length = ((comps.map (fun c => if p c then n else 1)).sum)) :
    sumL (aggBy p n comps x) = sumL x := by
  induction comps generalizing x with
  | nil =>
    simp only [List.map_nil, List.sum_nil, List.length_eq_zero_iff] at hx
    subst hx; rfl
  | cons c cs ih =>
    simp only [List.map_cons, List.sum_cons] at hx
    simp only [aggBy]
    by_cases hp : p c = true
    · simp only [hp, if_true, sumL] at hx ⊢
      rw [ih (x.drop n) (by simp [hx]), sumL_take_drop]
    · simp only [hp, Bool.false_eq_true, if_false, sumL] at hx ⊢
      rw [ih (x.drop 1) (by simp [hx])]
      cases x with
      | nil => simp at hx; omega
      | cons a t => simp [sumL]

end aggsum

section
variable {α : Type}
theorem stratifyComps_length (comps : List Comp) (s : Strat α) :
    (stratifyComps comps s).length = (comps.map (fun c => if isStratified s c then s.strata.length else 1)).sum := by
  induction comps with
  | nil => rfl
  | cons c cs ih =>
    rw [stratifyComps_cons, List.length_append, ih]
    by_cases hp : isStratified s c = true <;> simp [hp]
end

/-- a flow between two children of one parent compartment (what the ageing flows are) -/
def IsSiblingFlow {α : Type} (comps : List Comp) (s : Strat α) (g : Flow α) : Prop :=
  g.kind = .transition ∧ ∃ c0 ∈ comps, ∃ a b, g.src = some (c0.stratify s.name a) ∧
    g.dst = some (c0.stratify s.name b)

end Summer.Proofs
