import Summer.Model.Run
import Mathlib.Algebra.Order.Field.Basic
import Mathlib.Tactic.Ring
import Mathlib.Tactic.Linarith
import Mathlib.Tactic.Abel
/-
General list lemmas used by the rate-law proofs: `sumL`, `idxWhere`, `gather`, scatter folds
(`List.set` inside `foldl`), `vmul`.
-/
namespace Summer.Proofs
open Summer Summer.Run

/-! ### `getD` -/

theorem getD_eq_getElem {β} (l : List β) (i : Nat) (d : β) (h : i < l.length) : l.getD i d = l[i] := by
  simp [List.getD_eq_getElem?_getD, h]

theorem getD_of_le {β} (l : List β) (i : Nat) (d : β) (h : l.length ≤ i) : l.getD i d = d := by
  simp [List.getD_eq_getElem?_getD, h]

theorem getD_set {β} (l : List β) (i j : Nat) (v d : β) :
    (l.set i v).getD j d = if i = j ∧ j < l.length then v else l.getD j d := by
  simp only [List.getD_eq_getElem?_getD, List.getElem?_set]
  by_cases hij : i = j
  · subst hij
    by_cases hl : i < l.length <;> simp [hl]
  · simp [hij]

/-! ### `sumL` -/

section sum
variable {α : Type}

theorem sumL_eq_sum [AddMonoid α] (l : List α) : sumL l = l.sum := by
  induction l with
  | nil => rfl
  | cons x xs ih => simp [sumL, ih]

theorem sumL_append [AddMonoid α] (a b : List α) : sumL (a ++ b) = sumL a + sumL b := by
  induction a with
  | nil => simp [sumL]
  | cons x xs ih => simp [sumL, ih, add_assoc]

theorem sumL_map_zero [AddMonoid α] {β} (l : List β) : sumL (l.map (fun _ => (0 : α))) = 0 := by
  induction l with
  | nil => rfl
  | cons x xs ih => simp [sumL, ih]

theorem sumL_replicate_zero [AddMonoid α] (n : Nat) : sumL (List.replicate n (0 : α)) = 0 := by
  induction n with
  | zero => rfl
  | succ n ih => simp [List.replicate_succ, sumL, ih]

theorem sumL_map_add [AddCommMonoid α] {β} (l : List β) (f g : β → α) :
    sumL (l.map (fun x => f x + g x)) = sumL (l.map f) + sumL (l.map g) := by
  induction l with
  | nil => simp [sumL]
  | cons x xs ih => simp only [List.map_cons, sumL, ih]; abel

theorem sumL_map_sub [AddCommGroup α] {β} (l : List β) (f g : β → α) :
    sumL (l.map (fun x => f x - g x)) = sumL (l.map f) - sumL (l.map g) := by
  induction l with
  | nil => simp [sumL]
  | cons x xs ih => simp only [List.map_cons, sumL, ih]; abel

theorem sumL_map_mul_right [Semiring α] {β} (l : List β) (f : β → α) (k : α) :
    sumL (l.map (fun x => f x * k)) = sumL (l.map f) * k := by
  induction l with
  | nil => simp [sumL]
  | cons x xs ih => simp only [List.map_cons, sumL, ih, add_mul]

theorem sumL_map_congr [Add α] [Zero α] {β} (l : List β) (f g : β → α) (h : ∀ x ∈ l, f x = g x) :
    sumL (l.map f) = sumL (l.map g) := by
  induction l with
  | nil => rfl
  | cons x xs ih =>
    simp only [List.map_cons, sumL]
    rw [h x (by simp), ih (fun y hy => h y (by simp [hy]))]

/-- sum over a filtered list = sum of the indicator-weighted terms -/
theorem sumL_filter_map [AddMonoid α] {β} (l : List β) (p : β → Bool) (f : β → α) :
    sumL ((l.filter p).map f) = sumL (l.map (fun x => if p x then f x else 0)) := by
  induction l with
  | nil => rfl
  | cons x xs ih =>
    by_cases hp : p x = true
    · simp [hp, sumL, ih]
    · simp [hp, sumL, ih]

theorem sumL_nonneg [AddCommMonoid α] [PartialOrder α] [IsOrderedAddMonoid α] (l : List α)
    (h : ∀ x ∈ l, 0 ≤ x) : 0 ≤ sumL l := by
  induction l with
  | nil => simp [sumL]
  | cons x xs ih =>
    simp only [sumL]
    exact add_nonneg (h x (by simp)) (ih (fun y hy => h y (by simp [hy])))

theorem sumL_eq_zero_of_all_zero [AddMonoid α] (l : List α) (h : ∀ x ∈ l, x = 0) : sumL l = 0 := by
  induction l with
  | nil => rfl
  | cons x xs ih =>
    simp only [sumL]
    rw [h x (by simp), ih (fun y hy => h y (by simp [hy]))]; simp

end sum

/-! ### `idxWhere` -/

section idx
variable {β : Type}

/-- `idxWhere` with an explicit starting offset, by structural recursion -/
def idxFrom (p : β → Bool) : List β → Nat → List Nat
  | [], _ => []
  | x :: xs, k => if p x then k :: idxFrom p xs (k + 1) else idxFrom p xs (k + 1)

theorem zipIdx_filter_map (p : β → Bool) (l : List β) (k : Nat) :
    ((l.zipIdx k).filter (fun x => p x.1)).map (·.2) = idxFrom p l k := by
  induction l generalizing k with
  | nil => rfl
  | cons x xs ih =>
    simp only [List.zipIdx_cons, List.filter_cons, idxFrom]
    by_cases hp : p x = true <;> simp [hp, ih]

theorem idxWhere_eq (l : List β) (p : β → Bool) : idxWhere l p = idxFrom p l 0 :=
  zipIdx_filter_map p l 0

theorem mem_idxFrom (p : β → Bool) (l : List β) (k i : Nat) :
    i ∈ idxFrom p l k ↔ k ≤ i ∧ ∃ h : i - k < l.length, p l[i - k] = true := by
  induction l generalizing k with
  | nil => simp [idxFrom]
  | cons x xs ih =>
    simp only [idxFrom]
    by_cases hik : i = k
    · subst hik
      by_cases hp : p x = true
      · simp [hp]
      · simp [hp, ih]
    · have key : (k + 1 ≤ i ∧ ∃ h : i - (k + 1) < xs.length, p xs[i - (k + 1)] = true) ↔
          (k ≤ i ∧ ∃ h : i - k < (x :: xs).length, p (x :: xs)[i - k] = true) := by
        constructor
        · rintro ⟨h1, h2, h3⟩
          refine ⟨by omega, ?_⟩
          have : i - k = (i - (k + 1)) + 1 := by omega
          simp only [this, List.length_cons, List.getElem_cons_succ]
          exact ⟨by omega, h3⟩
        · rintro ⟨h1, h2, h3⟩
          have hk : k + 1 ≤ i := by omega
          have : i - k = (i - (k + 1)) + 1 := by omega
          simp only [this, List.length_cons, List.getElem_cons_succ] at h2 h3
          exact ⟨hk, by omega, h3⟩
      by_cases hp : p x = true
      · simp only [hp, if_true, List.mem_cons, hik, false_or, ih]
        exact key
      · simp only [hp, Bool.false_eq_true, if_false, ih]
        exact key

theorem mem_idxWhere (l : List β) (p : β → Bool) (i : Nat) :
    i ∈ idxWhere l p ↔ ∃ h : i < l.length, p l[i] = true := by
  rw [idxWhere_eq, mem_idxFrom]; simp

theorem idxFrom_lt (p : β → Bool) (l : List β) (k : Nat) : ∀ i ∈ idxFrom p l k, k ≤ i := by
  intro i hi; exact ((mem_idxFrom p l k i).1 hi).1

theorem idxFrom_nodup (p : β → Bool) (l : List β) (k : Nat) : (idxFrom p l k).Nodup := by
  induction l generalizing k with
  | nil => simp [idxFrom]
  | cons x xs ih =>
    simp only [idxFrom]
    by_cases hp : p x = true
    · simp only [hp, if_true, List.nodup_cons]
      refine ⟨fun hmem => ?_, ih (k + 1)⟩
      have := idxFrom_lt p xs (k + 1) k hmem
      omega
    · simp only [hp]; exact ih (k + 1)

theorem idxWhere_nodup (l : List β) (p : β → Bool) : (idxWhere l p).Nodup := by
  rw [idxWhere_eq]; exact idxFrom_nodup p l 0

theorem idxFrom_length (p : β → Bool) (l : List β) (k : Nat) :
    (idxFrom p l k).length = (l.filter p).length := by
  induction l generalizing k with
  | nil => rfl
  | cons x xs ih =>
    simp only [idxFrom, List.filter_cons]
    by_cases hp : p x = true <;> simp [hp, ih]

theorem idxWhere_length (l : List β) (p : β → Bool) : (idxWhere l p).length = (l.filter p).length := by
  rw [idxWhere_eq]; exact idxFrom_length p l 0

/-- the `j`-th flagged position is found at index "number of flagged elements before it" -/
theorem idxFrom_getElem_count (p : β → Bool) (l : List β) (k i : Nat) (hi : i < l.length)
    (hp : p l[i] = true) :
    ∃ h : ((l.take i).filter p).length < (idxFrom p l k).length,
      (idxFrom p l k)[((l.take i).filter p).length] = k + i := by
  induction l generalizing k i with
  | nil => simp at hi
  | cons x xs ih =>
    cases i with
    | zero =>
      simp only [List.getElem_cons_zero] at hp
      simp [idxFrom, hp]
    | succ i =>
      simp only [List.getElem_cons_succ] at hp
      simp only [List.length_cons, Nat.add_lt_add_iff_right] at hi
      obtain ⟨h1, h2⟩ := ih (k + 1) i hi hp
      by_cases hx : p x = true
      · simp only [idxFrom, hx, if_true, List.take_succ_cons, List.filter_cons, List.length_cons]
        refine ⟨by omega, ?_⟩
        simp only [List.getElem_cons_succ, h2]; omega
      · simp only [idxFrom, hx, List.take_succ_cons, List.filter_cons]
        refine ⟨h1, ?_⟩
        simp only [Bool.false_eq_true, if_false, h2]; omega

theorem idxWhere_getElem_count (l : List β) (p : β → Bool) (i : Nat) (hi : i < l.length)
    (hp : p l[i] = true) :
    ∃ h : ((l.take i).filter p).length < (idxWhere l p).length,
      (idxWhere l p)[((l.take i).filter p).length] = i := by
  have := idxFrom_getElem_count p l 0 i hi hp
  simpa [idxWhere_eq] using this

/-- mapping a function of the position over the flagged positions = mapping over the flagged
elements zipped with a second list -/
theorem idxFrom_map_zip {γ δ : Type} (p : β → Bool) (l : List β) (w : List γ) (k : Nat)
    (G : Nat → δ) (H : β → γ → δ) (hw : w.length = l.length)
    (hG : ∀ j (h : j < l.length), G (k + j) = H l[j] (w[j]'(by omega))) :
    (idxFrom p l k).map G = ((l.zip w).filter (fun x => p x.1)).map (fun x => H x.1 x.2) := by
  induction l generalizing k w with
  | nil => simp [idxFrom]
  | cons x xs ih =>
    cases w with
    | nil => simp at hw
    | cons y ys =>
      simp only [List.length_cons, Nat.add_right_cancel_iff] at hw
      have h0 := hG 0 (by simp)
      simp only [Nat.add_zero, List.getElem_cons_zero] at h0
      have hrest := ih ys (k + 1) hw (fun j h => by
        have := hG (j + 1) (by simp; omega)
        simp only [List.getElem_cons_succ] at this
        rw [← this]; congr 1; omega)
      simp only [idxFrom, List.zip_cons_cons, List.filter_cons]
      by_cases hp : p x = true
      · simp [hp, h0, hrest]
      · simp [hp, hrest]

end idx

/-! ### `gather`, `vmul` -/

section gv
variable {α : Type}

theorem gather_length [Zero α] (a : List α) (idxs : List Nat) : (gather a idxs).length = idxs.length := by
  simp [gather]

theorem gather_getD [Zero α] (a : List α) (idxs : List Nat) (i : Nat) (h : i < idxs.length) :
    (gather a idxs).getD i 0 = a.getD idxs[i] 0 := by
  simp [gather, List.getD_eq_getElem?_getD, h]

theorem vmul_length [Mul α] (a b : List α) : (vmul a b).length = min a.length b.length := by
  simp [vmul]

theorem vmul_getD [MulZeroClass α] (a b : List α) (i : Nat) (h : a.length = b.length) :
    (vmul a b).getD i 0 = a.getD i 0 * b.getD i 0 := by
  by_cases hi : i < a.length
  · have hb : i < b.length := by omega
    simp [vmul, List.getD_eq_getElem?_getD, hi, hb]
  · have hb : ¬ i < b.length := by omega
    simp only [vmul, List.getD_eq_getElem?_getD, List.getElem?_zipWith]
    simp [hi, hb]

end gv

/-! ### scatter folds -/

section scatter
variable {α : Type}

theorem foldl_set_length {γ} (idxs : List γ) (l : List α) (ix : γ → Nat) (v : List α → γ → α) :
    (idxs.foldl (fun acc i => acc.set (ix i) (v acc i)) l).length = l.length := by
  induction idxs generalizing l with
  | nil => rfl
  | cons i is ih => simp [List.foldl_cons, ih]

/-- constant scatter: `a.at[idxs].set(v)` -/
theorem foldl_set_const_getD (idxs : List Nat) (l : List α) (v d : α) (j : Nat) (hj : j < l.length) :
    (idxs.foldl (fun acc i => acc.set i v) l).getD j d = if j ∈ idxs then v else l.getD j d := by
  induction idxs generalizing l with
  | nil => simp
  | cons i is ih =>
    simp only [List.foldl_cons, List.mem_cons]
    rw [ih (l.set i v) (by simpa using hj), getD_set]
    by_cases hjs : j ∈ is
    · simp [hjs]
    · by_cases hij : i = j
      · subst hij; simp [hj]
      · have : ¬ j = i := fun h => hij h.symm
        simp [hjs, hij, this]

/-- untouched positions of a read-modify-write scatter -/
theorem foldl_set_rmw_not_mem {γ} (ims : List γ) (ix : γ → Nat) (g : α → γ → α) (l : List α) (d : α)
    (j : Nat) (hj : ∀ im ∈ ims, ix im ≠ j) :
    (ims.foldl (fun acc im => acc.set (ix im) (g (acc.getD (ix im) d) im)) l).getD j d = l.getD j d := by
  induction ims generalizing l with
  | nil => rfl
  | cons i is ih =>
    simp only [List.foldl_cons]
    rw [ih _ (fun im h => hj im (by simp [h])), getD_set]
    have := hj i (by simp)
    simp [this]

/-- `a.at[idxs].set(a[idxs] * k)` for distinct indices -/
theorem foldl_set_mul_const_getD [MulZeroClass α] (idxs : List Nat) (hnd : idxs.Nodup) (l : List α) (k : α)
    (j : Nat) :
    (idxs.foldl (fun acc i => acc.set i (acc.getD i 0 * k)) l).getD j 0
      = if j ∈ idxs then l.getD j 0 * k else l.getD j 0 := by
  induction idxs generalizing l with
  | nil => simp
  | cons i is ih =>
    simp only [List.foldl_cons, List.mem_cons]
    rw [List.nodup_cons] at hnd
    rw [ih hnd.2, getD_set]
    by_cases hij : i = j
    · subst hij
      simp only [hnd.1, if_false, true_and, true_or, if_true]
      by_cases hl : i < l.length
      · simp [hl]
      · simp [hl]
    · have : ¬ j = i := fun h => hij h.symm
      simp only [this, false_or, hij, false_and, if_false]

/-- `a.at[idxs].set(a[idxs] * ms)` for distinct indices: position `idxs[k]` is multiplied by `ms[k]`
(and left alone when `ms` is too short, since `zip` truncates) -/
theorem foldl_zip_set_mul_getD [MulZeroOneClass α] (idxs : List Nat) (hnd : idxs.Nodup) (ms : List α)
    (l : List α) (k : Nat) (hk : k < idxs.length) :
    ((idxs.zip ms).foldl (fun acc im => acc.set im.1 (acc.getD im.1 0 * im.2)) l).getD idxs[k] 0
      = l.getD idxs[k] 0 * ms.getD k 1 := by
  induction idxs generalizing l ms k with
  | nil => simp at hk
  | cons i is ih =>
    rw [List.nodup_cons] at hnd
    cases ms with
    | nil => simp
    | cons m ms' =>
      simp only [List.zip_cons_cons, List.foldl_cons]
      cases k with
      | zero =>
        simp only [List.getElem_cons_zero, List.getD_cons_zero]
        rw [foldl_set_rmw_not_mem (is.zip ms') (fun im => im.1) (fun a im => a * im.2)]
        · rw [getD_set]
          by_cases hl : i < l.length
          · simp [hl]
          · simp [hl]
        · intro im him heq
          have := (List.of_mem_zip him).1
          rw [heq] at this
          exact hnd.1 this
      | succ k =>
        simp only [List.getElem_cons_succ, List.getD_cons_succ]
        simp only [List.length_cons, Nat.add_lt_add_iff_right] at hk
        rw [ih hnd.2 ms' _ k hk, getD_set]
        have : i ≠ is[k] := fun h => hnd.1 (h ▸ List.getElem_mem hk)
        simp [this]

theorem foldl_zip_set_mul_not_mem [Mul α] [Zero α] (idxs : List Nat) (ms : List α) (l : List α) (j : Nat)
    (hj : j ∉ idxs) :
    ((idxs.zip ms).foldl (fun acc im => acc.set im.1 (acc.getD im.1 0 * im.2)) l).getD j 0 = l.getD j 0 := by
  apply foldl_set_rmw_not_mem (idxs.zip ms) (fun im => im.1) (fun a im => a * im.2)
  intro im him heq
  exact hj (heq ▸ (List.of_mem_zip him).1)

end scatter

end Summer.Proofs
