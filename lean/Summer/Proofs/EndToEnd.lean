import Summer.Spec.EndToEnd
import Summer.Proofs.Rates
import Summer.Proofs.AggregateRates
import Summer.Proofs.Solvers
/-
Helper lemmas for the end-to-end statements `C01Step`, `C18Euler`, `C02Replacement`.
-/
set_option linter.unusedSectionVars false

namespace Summer.Proofs.EndToEnd
open Summer Summer.Run Summer.Build Summer.Spec Summer.Spec.EndToEnd Summer.Proofs Summer.Generated

/-! ### `Option`-valued `mapM` / `foldlM`: when are they defined? -/

theorem mapM_option_isSome_iff {β γ} (g : β → Option γ) :
    ∀ l : List β, (l.mapM g).isSome = true ↔ ∀ a ∈ l, (g a).isSome = true
  | [] => by simp
  | a :: l => by
      rw [List.mapM_cons]
      have ih := mapM_option_isSome_iff g l
      cases hga : g a with
      | none => simp [hga]
      | some o =>
        cases hl : l.mapM g with
        | none =>
          rw [hl] at ih
          simp only [Option.isSome_none, Bool.false_eq_true, false_iff] at ih
          simp only [Option.bind_eq_bind, Option.bind_some, Option.bind_none, Option.isSome_none,
            Bool.false_eq_true, List.mem_cons, forall_eq_or_imp, hga, Option.isSome_some, true_and, false_iff]
          exact ih
        | some os =>
          rw [hl] at ih
          simp only [Option.isSome_some, true_iff] at ih
          simp only [Option.bind_eq_bind, Option.bind_some, pure, Option.isSome_some, List.mem_cons,
            forall_eq_or_imp, hga, true_and, true_iff]
          exact ih

theorem foldlM_option_isSome_iff {β γ} (f : β → γ → Option β) (P : γ → Prop) :
    ∀ (l : List γ) (init : β), (∀ acc, ∀ a ∈ l, (f acc a).isSome = true ↔ P a) →
      ((l.foldlM f init).isSome = true ↔ ∀ a ∈ l, P a)
  | [], init, _ => by simp [pure]
  | a :: l, init, h => by
      rw [List.foldlM_cons]
      have ha := h init a (by simp)
      cases hfa : f init a with
      | none =>
        rw [hfa] at ha
        simp only [Option.isSome_none, Bool.false_eq_true, false_iff] at ha
        simp only [Option.bind_eq_bind, Option.bind_none, Option.isSome_none, Bool.false_eq_true,
          List.mem_cons, forall_eq_or_imp, false_iff, not_and]
        exact fun hp => absurd hp ha
      | some v =>
        rw [hfa] at ha
        simp only [Option.isSome_some, true_iff] at ha
        simp only [Option.bind_eq_bind, Option.bind_some, List.mem_cons, forall_eq_or_imp, ha, true_and]
        exact foldlM_option_isSome_iff f P l v (fun acc b hb => h acc b (by simp [hb]))

section step
variable {α : Type} [Field α] [LinearOrder α] [IsStrictOrderedRing α]

/-! ### the two weight passes of `step` are one `mapM` over the realised parameters -/

theorem weights_bind (m : Model α) (env : Env α) :
    (staticFlowWeights m env.params).bind (flowWeights m env)
      = m.flows.mapM (fun f => (realised f).eval env) := by
  cases hs : staticFlowWeights m env.params with
  | some static =>
    rw [Option.bind_some]
    exact flowWeights_eq_mapM m env env.params static rfl hs
  | none =>
    rw [Option.bind_none]
    symm
    have h1 : ¬ (staticFlowWeights m env.params).isSome = true := by rw [hs]; simp
    unfold staticFlowWeights at h1
    rw [mapM_option_isSome_iff] at h1
    have h2 : ¬ (m.flows.mapM (fun f => (realised f).eval env)).isSome = true := by
      rw [mapM_option_isSome_iff]
      intro hall
      apply h1
      intro f hf
      by_cases hu : (realised f).usesModelVars = true
      · simp [hu]
      · have hu' : (realised f).usesModelVars = false := by simpa using hu
        simp only [hu', Bool.false_eq_true, if_false]
        unfold evalStatic
        rw [← eval_coincidence_env (realised f) hu' env ⟨env.params, 0, []⟩ rfl]
        exact hall f hf
    cases hm : m.flows.mapM (fun f => (realised f).eval env) with
    | none => rfl
    | some w => rw [hm] at h2; simp at h2

/-- the record `step` returns once the weights, the mixing matrix and the infectiousness are known -/
def assemble (b : Backend) (xc w : List α) (mix : Matrix α) (ci : List α) : StepOut α :=
  let mp := if b.procType.isSome then infectiousMultipliers b xc mix ci else ([], [])
  { weights := w, mults := mp.1, perStrain := mp.2, mixing := mix, compInf := ci,
    flowRates := flowRates b w xc mp.1, compRates := compRates b (flowRates b w xc mp.1) }

theorem step_eq (m : Model α) (b : Backend) (p : List (String × α)) (t : α) (x : List α) :
    step m b p t x =
      (m.flows.mapM (fun f => (realised f).eval (stepEnv p t x))).bind (fun w =>
        (mixingMatrix m (stepEnv p t x)).bind (fun mix =>
          (compInfectiousness m p).bind (fun ci => some (assemble b (cleanV x) w mix ci)))) := by
  rw [← weights_bind m (stepEnv p t x)]
  unfold step stepEnv
  simp only [Option.bind_eq_bind, Option.bind_assoc]
  rfl

theorem step_some_iff (m : Model α) (b : Backend) (p : List (String × α)) (t : α) (x : List α)
    (s : StepOut α) :
    step m b p t x = some s ↔
      ∃ w mix ci, m.flows.mapM (fun f => (realised f).eval (stepEnv p t x)) = some w ∧
        mixingMatrix m (stepEnv p t x) = some mix ∧ compInfectiousness m p = some ci ∧
        s = assemble b (cleanV x) w mix ci := by
  rw [step_eq]
  simp only [Option.bind_eq_some_iff, Option.some.injEq]
  constructor
  · rintro ⟨w, hw, mix, hmix, ci, hci, rfl⟩; exact ⟨w, mix, ci, hw, hmix, hci, rfl⟩
  · rintro ⟨w, mix, ci, hw, hmix, hci, rfl⟩; exact ⟨w, hw, mix, hmix, ci, hci, rfl⟩

theorem step_isSome_iff (m : Model α) (b : Backend) (p : List (String × α)) (t : α) (x : List α) :
    (step m b p t x).isSome = true ↔
      (m.flows.mapM (fun f => (realised f).eval (stepEnv p t x))).isSome = true ∧
        (mixingMatrix m (stepEnv p t x)).isSome = true ∧ (compInfectiousness m p).isSome = true := by
  rw [step_eq]
  cases m.flows.mapM (fun f => (realised f).eval (stepEnv p t x)) <;>
    cases mixingMatrix m (stepEnv p t x) <;> cases compInfectiousness m p <;> simp

theorem weights_isSome_iff (m : Model α) (env : Env α) :
    (m.flows.mapM (fun f => (realised f).eval env)).isSome = true ↔ weightsDefined m env := by
  rw [mapM_option_isSome_iff]
  unfold weightsDefined
  constructor
  · intro h f hf; rw [← realised_eval_eq_weight]; exact h f hf
  · intro h f hf; rw [realised_eval_eq_weight]; exact h f hf

theorem mixingMatrix_isSome_iff (m : Model α) (env : Env α) :
    (mixingMatrix m env).isSome = true ↔ mixingDefined m env := by
  have h1 : (mixingMatrix m env).isSome = (m.mixingMats.mapM (evalMatrix env)).isSome := by
    unfold mixingMatrix
    cases hm : m.mixingMats.mapM (evalMatrix env) with
    | none => rfl
    | some mats => cases mats <;> rfl
  rw [h1, mapM_option_isSome_iff]
  unfold mixingDefined
  refine forall_congr' (fun mat => forall_congr' (fun _ => ?_))
  unfold evalMatrix
  rw [mapM_option_isSome_iff]
  refine forall_congr' (fun row => forall_congr' (fun _ => ?_))
  rw [mapM_option_isSome_iff]

theorem compInfectiousness_isSome_iff (m : Model α) (p : List (String × α)) :
    (compInfectiousness m p).isSome = true ↔ infectiousnessDefined m p := by
  unfold compInfectiousness infectiousnessDefined
  apply foldlM_option_isSome_iff
  intro acc s _
  apply foldlM_option_isSome_iff
  intro acc ia _
  apply foldlM_option_isSome_iff
  intro acc sa _
  cases hsa : sa.2 with
  | none => simp
  | some adj =>
    simp only [Option.bind_eq_bind, Option.some.injEq, forall_eq']
    cases hv : evalStatic p adj.expr with
    | none => simp
    | some v => simp [pure]

theorem nInfection_zero_of_no_proc {m : Model α} {b : Backend} (hb : BackendFor m b)
    (hp : ¬ b.procType.isSome = true) : nInfection m = 0 := by
  have h0 : m.flows.any (fun f => isInfection f.kind) = false := by
    rw [← hb.procType]; simpa using hp
  unfold nInfection
  rw [List.length_eq_zero_iff, List.filter_eq_nil_iff]
  intro f hf
  have := List.any_eq_false.1 h0 f hf
  simpa using this

theorem assemble_mults_length {m : Model α} {b : Backend} (hb : BackendFor m b) (xc w : List α)
    (mix : Matrix α) (ci : List α) : (assemble b xc w mix ci).mults.length = nInfection m := by
  unfold assemble
  by_cases hp : b.procType.isSome = true
  · simp only [hp, if_true]; exact infectiousMultipliers_length hb xc mix ci
  · simp only [hp, Bool.false_eq_true, if_false, List.length_nil]
    exact (nInfection_zero_of_no_proc hb hp).symm

theorem assemble_mults_NN (b : Backend) (xc w : List α) (mix : Matrix α) (ci : List α)
    (hx : NN xc) (hmix : ∀ row ∈ mix, NN row) (hci : NN ci) : NN (assemble b xc w mix ci).mults := by
  unfold assemble
  by_cases hp : b.procType.isSome = true
  · simp only [hp, if_true]; exact (infectiousMultipliers_NN b xc mix ci hx hmix hci).1
  · simp only [hp, Bool.false_eq_true, if_false]; intro v hv; simp at hv

end step

/-! ### sums over the flows selected by a predicate, positionally paired with a vector -/

section sums
variable {α : Type} [Field α]

theorem sumL_zip_filter_congr {β} (p : β → Bool) (F : β → α → α) :
    ∀ (l : List β) (r k : List α), r.length = l.length → k.length = l.length →
      (∀ i (hi : i < l.length), p l[i] = true → r.getD i 0 = F l[i] (k.getD i 0)) →
      sumL (((l.zip r).filter (fun x => p x.1)).map (·.2))
        = sumL (((l.zip k).filter (fun x => p x.1)).map (fun x => F x.1 x.2))
  | [], _, _, _, _, _ => by simp
  | a :: l, [], _, hr, _, _ => by simp at hr
  | a :: l, _ :: _, [], _, hk, _ => by simp at hk
  | a :: l, y :: r, z :: k, hr, hk, h => by
      have ih := sumL_zip_filter_congr p F l r k (by simpa using hr) (by simpa using hk)
        (fun i hi hp => by
          have := h (i + 1) (by simp; omega) (by simpa using hp)
          simpa using this)
      have h0 := h 0 (by simp)
      simp only [List.getElem_cons_zero, List.getD_cons_zero] at h0
      simp only [List.zip_cons_cons, List.filter_cons]
      by_cases hp : p a = true
      · simp only [hp, if_true, List.map_cons, sumL, ih, h0 hp]
      · simp only [hp, Bool.false_eq_true, if_false, ih]

theorem zip_map_filter {β} (p : β → Bool) (g : β → α) (l : List β) :
    ((l.zip (l.map g)).filter (fun x => p x.1)).map (·.2) = (l.filter p).map g := by
  induction l with
  | nil => rfl
  | cons a l ih =>
    simp only [List.map_cons, List.zip_cons_cons, List.filter_cons]
    by_cases hp : p a = true
    · simp only [hp, if_true, List.map_cons, ih]
    · simp only [hp, Bool.false_eq_true, if_false, ih]

theorem zipIdx_map_getD {β} (l : List β) (g : β × Nat → α) (i : Nat) (hi : i < l.length) :
    ((l.zipIdx).map g).getD i 0 = g (l[i], i) := by
  rw [getD_eq_getElem _ _ _ (by simpa using hi)]
  simp

end sums

/-! ### C18Euler -/

section euler
variable {α : Type} [Field α] [LinearOrder α] [IsStrictOrderedRing α] {m : Model α} {b : Backend}

theorem outCoefs_length (m : Model α) (w mults : List α) : (outCoefs m w mults).length = m.flows.length := by
  simp [outCoefs]

theorem outCoefs_getD (m : Model α) (w mults : List α) (i : Nat) (hi : i < m.flows.length) :
    (outCoefs m w mults).getD i 0 =
      if isInfection m.flows[i].kind then w.getD i 0 * mults.getD (infPos m i) 0 else w.getD i 0 := by
  unfold outCoefs
  rw [zipIdx_map_getD _ _ i hi]

/-- a population-proportional flow out of compartment `c` has rate (out-coefficient) × `x[c]` -/
theorem flowRate_sourced (m : Model α) (w xc mults : List α) (i : Nat) (hi : i < m.flows.length) (c : Nat)
    (hsrc : srcIx m m.flows[i] = some c) (hk : isSourced m.flows[i].kind = true) :
    flowRate m w xc mults i m.flows[i] = (outCoefs m w mults).getD i 0 * xc.getD c 0 := by
  rw [outCoefs_getD m w mults i hi]
  have hp : srcPop m xc m.flows[i] = xc.getD c 0 := by unfold srcPop; rw [hsrc]
  unfold flowRate
  cases hkk : m.flows[i].kind <;> simp [hkk, isSourced] at hk <;>
    simp only [isInfection, hp, if_true, Bool.false_eq_true, if_false] <;> ring

theorem outflow_scale (m : Model α) (r k : List α) (v : α) (c : Nat) (hr : r.length = m.flows.length)
    (hk : k.length = m.flows.length)
    (h : ∀ i (hi : i < m.flows.length), srcIx m m.flows[i] = some c → r.getD i 0 = k.getD i 0 * v) :
    outflow m r c = outflow m k c * v := by
  unfold outflow
  rw [sumL_zip_filter_congr (fun f => srcIx m f == some c) (fun _ ki => ki * v) m.flows r k hr hk
    (fun i hi hp => h i hi (by simpa using hp))]
  exact sumL_map_mul_right _ (fun x : Flow α × α => x.2) v

/-- if only population-proportional flows draw from compartment `c`, the total outflow of `c` is
(`Σ` out-coefficients) × `x[c]` -/
theorem outflow_flowRates (hb : BackendFor m b) (hs : sourcedOk m = true) (c : Nat)
    (hsrc : ∀ f ∈ m.flows, srcIx m f = some c → isSourced f.kind = true)
    (w xc mults : List α) (hwl : w.length = m.flows.length) (hml : mults.length = nInfection m) :
    outflow m (flowRates b w xc mults) c = outCoef m w mults c * xc.getD c 0 := by
  unfold outCoef
  apply outflow_scale m _ _ _ c (flowRates_length hb w xc mults hwl) (outCoefs_length m w mults)
  intro i hi hsi
  rw [flowRates_getD hb w xc mults hwl i hi, genRate_eq_flowRate hb hs w xc mults hml i hi]
  exact flowRate_sourced m w xc mults i hi c hsi (hsrc _ (List.getElem_mem hi) hsi)

theorem inflow_nonneg (m : Model α) (r : List α) (hr : NN r) (c : Nat) : 0 ≤ inflow m r c := by
  unfold inflow
  apply sumL_NN
  apply NN_map
  intro fr hfr'
  exact hr _ (List.of_mem_zip (show (fr.1, fr.2) ∈ _ from (List.mem_filter.1 hfr').1)).2

/-- the arithmetic of one explicit Euler step for one compartment -/
theorem euler_core (y inn out K h : α) (hy : 0 ≤ y) (hin : 0 ≤ inn) (hh : 0 ≤ h) (hout : out = K * y)
    (hK : h * K ≤ 1) : 0 ≤ y + h * (inn - out) := by
  subst hout
  have e : y + h * (inn - K * y) = y * (1 - h * K) + h * inn := by ring
  rw [e]
  exact add_nonneg (mul_nonneg hy (sub_nonneg.2 hK)) (mul_nonneg hh hin)

theorem euler_nonneg_aux (hb : BackendFor m b) (hs : sourcedOk m = true) (c : Nat)
    (hsrc : ∀ f ∈ m.flows, srcIx m f = some c → isSourced f.kind = true)
    (w y mults : List α) (hwl : w.length = m.flows.length) (hml : mults.length = nInfection m)
    (hw : NN w) (hm : NN mults) (hy : NN y) (h : α) (hh : 0 ≤ h) (hK : h * outCoef m w mults c ≤ 1) :
    0 ≤ y.getD c 0 + h * (compRates b (flowRates b w y mults)).getD c 0 := by
  have hyc : 0 ≤ y.getD c 0 := NN_getD y hy c 0 (le_refl 0)
  by_cases hc : c < m.comps.length
  · rw [compRates_getD_spec hb _ c hc]
    exact euler_core _ _ _ _ h hyc (inflow_nonneg m _ (flowRates_NN hb w y mults hwl hw hy hm) c) hh
      (outflow_flowRates hb hs c hsrc w y mults hwl hml) hK
  · rw [compRates_getD_ge hb _ c (by omega)]; simpa using hyc

theorem NN_iff_getD (l : List α) : NN l ↔ ∀ c, 0 ≤ l.getD c 0 := by
  constructor
  · intro h c; exact NN_getD l h c 0 (le_refl 0)
  · intro h v hv
    obtain ⟨i, hi, rfl⟩ := List.mem_iff_getElem.1 hv
    rw [← getD_eq_getElem l i 0 hi]; exact h i

theorem scanl_inv {σ τ : Type} (P : σ → Prop) (g : σ → τ → σ) :
    ∀ (l : List τ) (s : σ), P s → (∀ z, ∀ t ∈ l, P z → P (g z t)) → ∀ z ∈ List.scanl g s l, P z
  | [], s, hs, _ => by intro z hz; simp at hz; subst hz; exact hs
  | t :: l, s, hs, hstep => by
      intro z hz
      rw [List.scanl_cons, List.mem_cons] at hz
      rcases hz with rfl | hz
      · exact hs
      · exact scanl_inv P g l (g s t) (hstep s t (by simp) hs)
          (fun z' t' ht' => hstep z' t' (by simp [ht'])) z hz

/-- on a non-negative state of the right length, one explicit Euler step of the solver's field is
`y + h · (compartment rates of that evaluation)`, component by component -/
theorem eulerStep_getD (p : List (String × α)) (t : α) (y : List α)
    (hylen : y.length = m.comps.length) (s : StepOut α) (hstep : step m b p t y = some s)
    (hsc : s.compRates.length = m.comps.length) (h : α) (c : Nat) :
    (Solvers.eulerStep (field m b p) h y t).getD c 0 = y.getD c 0 + h * s.compRates.getD c 0 := by
  have hf : field m b p y t = s.compRates := by
    unfold field rhs; rw [hstep]; rfl
  unfold Solvers.eulerStep
  rw [hf, Solvers.getD_vadd _ _ (by simp [hylen, hsc]), Solvers.getD_vscale]

theorem eulerStep_length (p : List (String × α)) (t : α) (y : List α)
    (hylen : y.length = m.comps.length) (s : StepOut α) (hstep : step m b p t y = some s)
    (hsc : s.compRates.length = m.comps.length) (h : α) :
    (Solvers.eulerStep (field m b p) h y t).length = m.comps.length := by
  have hf : field m b p y t = s.compRates := by
    unfold field rhs; rw [hstep]; rfl
  unfold Solvers.eulerStep
  rw [hf]; simp [hylen, hsc]

theorem eulerStep_nonneg_aux (hb : BackendFor m b) (hs : sourcedOk m = true) (c : Nat)
    (hsrc : ∀ f ∈ m.flows, srcIx m f = some c → isSourced f.kind = true)
    (p : List (String × α)) (t : α) (y : List α) (hylen : y.length = m.comps.length) (hy : NN y)
    (s : StepOut α) (hstep : step m b p t y = some s)
    (hw : NN s.weights) (hmix : ∀ row ∈ s.mixing, NN row) (hci : NN s.compInf)
    (h : α) (hh : 0 ≤ h) (hK : h * outCoef m s.weights s.mults c ≤ 1) :
    0 ≤ (Solvers.eulerStep (field m b p) h y t).getD c 0 := by
  obtain ⟨w, mix, ci, hwm, _, _, hsE⟩ := (step_some_iff m b p t y s).1 hstep
  have hwl : w.length = m.flows.length := (mapM_option_some _ _ _ hwm).1
  have hcl : cleanV y = y := cleanV_of_NN y hy
  rw [hcl] at hsE
  have hsc : s.compRates.length = m.comps.length := by
    rw [hsE]; exact compRates_length hb _
  rw [eulerStep_getD p t y hylen s hstep hsc h c]
  subst hsE
  exact euler_nonneg_aux hb hs c hsrc w y _ hwl (assemble_mults_length hb y w mix ci) hw
    (assemble_mults_NN b y w mix ci hy hmix hci) hy h hh hK

end euler

/-! ### C02Replacement: the rate-level statement -/

section replrate
variable {α : Type} [Field α] {m : Model α} {b : Backend}

theorem replWeightTotal_map (m : Model α) (env : Env α) [LT α] [DecidableLT α] :
    replWeightTotal m (m.flows.map (weightVal env)) = replWeightSum env m.flows := by
  unfold replWeightTotal replWeightSum
  exact congrArg sumL (zip_map_filter (fun f : Flow α => isReplacement f.kind) (weightVal env) m.flows)

theorem entryTotal_replacement (hb : BackendFor m b) (hs : sourcedOk m = true)
    (hen : entriesAreReplacement m = true) (w xc mults : List α) (hwl : w.length = m.flows.length)
    (hml : mults.length = nInfection m) :
    entryTotal m (flowRates b w xc mults) = replWeightTotal m w * deathTotal m w xc := by
  unfold entryTotal replWeightTotal
  have hf : (m.flows.zip (flowRates b w xc mults)).filter (fun fr => fr.1.src.isNone)
      = (m.flows.zip (flowRates b w xc mults)).filter (fun fr => isReplacement fr.1.kind) := by
    apply List.filter_congr
    intro fr hfr
    have hmem : fr.1 ∈ m.flows := (List.of_mem_zip (show (fr.1, fr.2) ∈ _ from hfr)).1
    have := List.all_eq_true.1 hen fr.1 hmem
    simpa using this
  rw [hf, sumL_zip_filter_congr (fun f => isReplacement f.kind) (fun _ wi => wi * deathTotal m w xc)
    m.flows _ w (flowRates_length hb w xc mults hwl) hwl]
  · exact sumL_map_mul_right _ (fun x : Flow α × α => x.2) _
  · intro i hi hk
    rw [flowRates_getD hb w xc mults hwl i hi, genRate_eq_flowRate hb hs w xc mults hml i hi]
    unfold flowRate
    cases hkk : m.flows[i].kind <;> simp [hkk, isReplacement] at hk
    rfl

theorem exitTotal_deaths (hb : BackendFor m b) (hs : sourcedOk m = true)
    (hex : exitsAreDeaths m = true) (w xc mults : List α) (hwl : w.length = m.flows.length)
    (hml : mults.length = nInfection m) :
    exitTotal m (flowRates b w xc mults) = deathTotal m w xc := by
  unfold exitTotal deathTotal
  have hf : (m.flows.zip (flowRates b w xc mults)).filter (fun fr => fr.1.dst.isNone)
      = (m.flows.zip (flowRates b w xc mults)).filter (fun fr => isDeath fr.1.kind) := by
    apply List.filter_congr
    intro fr hfr
    have hmem : fr.1 ∈ m.flows := (List.of_mem_zip (show (fr.1, fr.2) ∈ _ from hfr)).1
    have := List.all_eq_true.1 hex fr.1 hmem
    simpa using this
  rw [hf, sumL_zip_filter_congr (fun f => isDeath f.kind) (fun f wi => wi * srcPop m xc f)
    m.flows _ w (flowRates_length hb w xc mults hwl) hwl]
  intro i hi hk
  rw [flowRates_getD hb w xc mults hwl i hi, genRate_eq_flowRate hb hs w xc mults hml i hi]
  unfold flowRate
  cases hkk : m.flows[i].kind <;> simp [hkk, isDeath] at hk
  rfl

theorem replacement_balanced_aux (hb : BackendFor m b) (hs : sourcedOk m = true)
    (hen : entriesAreReplacement m = true) (hex : exitsAreDeaths m = true) (w xc mults : List α)
    (hwl : w.length = m.flows.length) (hml : mults.length = nInfection m)
    (hsum : replWeightTotal m w = 1) :
    sumL (compRates b (flowRates b w xc mults)) = 0 := by
  rw [sum_compRates hb, entryTotal_replacement hb hs hen w xc mults hwl hml,
    exitTotal_deaths hb hs hex w xc mults hwl hml, hsum]
  ring

/-- in general: the total changes at the rate (`Σ` replacement weights − 1) × (total death rate) -/
theorem replacement_total_aux (hb : BackendFor m b) (hs : sourcedOk m = true)
    (hen : entriesAreReplacement m = true) (hex : exitsAreDeaths m = true) (w xc mults : List α)
    (hwl : w.length = m.flows.length) (hml : mults.length = nInfection m) :
    sumL (compRates b (flowRates b w xc mults)) = (replWeightTotal m w - 1) * deathTotal m w xc := by
  rw [sum_compRates hb, entryTotal_replacement hb hs hen w xc mults hwl hml,
    exitTotal_deaths hb hs hex w xc mults hwl hml]
  ring

end replrate

/-! ### C02Replacement: how the model-building calls act on the replacement weights -/

section build
variable {α : Type} [Field α] [LinearOrder α] [IsStrictOrderedRing α]

theorem replWeightSum_append (env : Env α) (a b : List (Flow α)) :
    replWeightSum env (a ++ b) = replWeightSum env a + replWeightSum env b := by
  unfold replWeightSum
  rw [List.filter_append, List.map_append, sumL_append]

theorem replWeightSum_nil (env : Env α) : replWeightSum env ([] : List (Flow α)) = 0 := rfl

theorem replWeightSum_of_none (env : Env α) (l : List (Flow α))
    (h : ∀ f ∈ l, isReplacement f.kind = false) : replWeightSum env l = 0 := by
  unfold replWeightSum
  have : l.filter (fun f => isReplacement f.kind) = [] := by
    rw [List.filter_eq_nil_iff]
    intro f hf; simp [h f hf]
  rw [this]; rfl

theorem replWeightSum_of_all (env : Env α) (l : List (Flow α))
    (h : ∀ f ∈ l, isReplacement f.kind = true) : replWeightSum env l = sumL (l.map (weightVal env)) := by
  unfold replWeightSum
  rw [List.filter_eq_self.2 h]

/-- the copies of one flow under a plain stratification carry the flow's replacement weight -/
theorem replWeightSum_copies (env : Env α) (s : Strat α) (hp : plainStrat s) (f : Flow α) :
    replWeightSum env (copiesA s f) = replWeightSum env [f] := by
  obtain ⟨_, hst, hne, hage⟩ := hp
  have hn : (s.strata.length : α) ≠ 0 := by
    have : s.strata.length ≠ 0 := fun e => hne (List.length_eq_zero_iff.1 e)
    exact_mod_cast this
  by_cases hk : isReplacement f.kind = true
  · rw [replWeightSum_of_all env _ (fun g hg => by rw [copies_kind s f g hg]; exact hk),
      replWeightSum_of_all env [f] (fun g hg => by simp at hg; subst hg; exact hk)]
    have hns : isSourced f.kind = false := by
      cases hkk : f.kind <;> simp [hkk, isReplacement] at hk
      rfl
    rw [copies_weight_sum env s f hst hn hage hns]
    simp [sumL]
  · have hk' : isReplacement f.kind = false := by simpa using hk
    rw [replWeightSum_of_none env _ (fun g hg => by rw [copies_kind s f g hg]; exact hk'),
      replWeightSum_of_none env [f] (fun g hg => by simp at hg; subst hg; exact hk')]

theorem replWeightSum_flatMap_copies (env : Env α) (s : Strat α) (hp : plainStrat s) (fs : List (Flow α)) :
    replWeightSum env (fs.flatMap (copiesA s)) = replWeightSum env fs := by
  induction fs with
  | nil => rfl
  | cons f fs ih =>
    rw [List.flatMap_cons, replWeightSum_append, ih, replWeightSum_copies env s hp f,
      ← replWeightSum_append]
    rfl

/-- a whole sequence of plain stratifications applied to a LIST of flows (what `stratifyFlow` does,
flow by flow): the replacement weights still add up to what they did -/
theorem replWeightSum_strats (env : Env α) (ss : List (Strat α)) (hp : ∀ s ∈ ss, plainStrat s)
    (fs : List (Flow α)) :
    replWeightSum env (ss.foldl (fun fs s => fs.flatMap (copiesA s)) fs) = replWeightSum env fs := by
  induction ss generalizing fs with
  | nil => rfl
  | cons s ss ih =>
    rw [List.foldl_cons, ih (fun t ht => hp t (by simp [ht])),
      replWeightSum_flatMap_copies env s (hp s (by simp)) fs]

/-! #### `stratifyWith` -/

/-- The flows of the model returned by `stratify_with` for a stratification without flow adjustments
(any kind — plain, age, strain —, with or without mixing matrix): the copies of the parent flows, in
order, followed by ageing flows, which are transitions. -/
theorem stratifyWith_flows (m m' : Model α) (s : Strat α) (h : stratifyWith m s = .ok m')
    (hfa : s.flowAdj = []) :
    ∃ extra, m'.flows = m.flows.flatMap (copiesA s) ++ extra ∧ ∀ g ∈ extra, g.kind = .transition := by
  unfold stratifyWith at h
  simp only [hfa, List.forIn_nil, pure_bind] at h
  replace h := (bind_guardE_ok _ _ _ _ h).2
  replace h := (bind_guardE_ok _ _ _ _ h).2
  replace h := (bind_guardE_ok _ _ _ _ h).2
  obtain ⟨m1, hm1, h⟩ := bind_ok _ _ _ h
  obtain ⟨m2, hm2, h⟩ := bind_ok _ _ _ h
  have h1 : m1.flows = m.flows := by
    cases hmx : s.mixing with
    | none => simp only [hmx, pure, Except.pure, Except.ok.injEq] at hm1; rw [← hm1]
    | some mat =>
      simp only [hmx] at hm1
      replace hm1 := (bind_guardE_ok _ _ _ _ hm1).2
      replace hm1 := (bind_guardE_ok _ _ _ _ hm1).2
      simp only [pure, Except.pure, Except.ok.injEq] at hm1
      rw [← hm1]
  have h2 : m2.flows = m.flows := by
    by_cases hstr : s.isStrain = true
    · simp only [hstr, if_true] at hm2
      replace hm2 := (bind_guardE_ok _ _ _ _ hm2).2
      simp only [pure, Except.pure, Except.ok.injEq] at hm2
      rw [← hm2]; exact h1
    · simp only [hstr, Bool.false_eq_true, if_false, pure, Except.pure, Except.ok.injEq] at hm2
      rw [← hm2]; exact h1
  replace h := (bind_guardE_ok _ _ _ _ h).2
  rw [foldlM_stratifyFlow s hfa, h2] at h
  obtain ⟨newFlows, hnf, h⟩ := bind_ok _ _ _ h
  simp only [Except.ok.injEq, List.nil_append] at hnf
  subst hnf
  obtain ⟨m4, hm4, h⟩ := bind_ok _ _ _ h
  simp only [pure, Except.pure, Except.ok.injEq] at h
  subst h
  simp only
  by_cases hage : s.isAgeing = true
  · simp only [hage, if_true] at hm4
    replace hm4 := (bind_guardE_ok _ _ _ _ hm4).2
    replace hm4 := (bind_guardE_ok _ _ _ _ hm4).2
    let Inv : Model α → Prop := fun acc =>
      ∃ extra, acc.flows = m.flows.flatMap (copiesA s) ++ extra ∧ ∀ g ∈ extra, g.kind = .transition
    have hinv : Inv m4 := by
      refine foldlM_inv Inv _ _ ?_ _ _ ?_ hm4
      · intro acc ab _ hacc acc' hstep
        refine foldlM_inv Inv _ _ ?_ _ _ hacc hstep
        intro acc2 c _ hacc2 acc2' hstep2
        replace hstep2 := (bind_guardE_ok _ _ _ _ hstep2).2
        obtain ⟨_, c1, c2, _, _, hfl⟩ := addTransitionCore_one _ _ _ _ _ _ _ _ _ hstep2
        obtain ⟨extra, hex, hk⟩ := hacc2
        refine ⟨extra ++ [_], by rw [hfl, hex, List.append_assoc], ?_⟩
        intro g hg
        rw [List.mem_append, List.mem_singleton] at hg
        rcases hg with hg | hg
        · exact hk g hg
        · subst hg; rfl
      · exact ⟨[], by simp, by simp⟩
    exact hinv
  · simp only [hage, Bool.false_eq_true, if_false, pure, Except.pure, Except.ok.injEq] at hm4
    subst hm4
    exact ⟨[], by simp, by simp⟩

theorem stratifyWith_replWeightSum (env : Env α) (m m' : Model α) (s : Strat α)
    (h : stratifyWith m s = .ok m') (hp : plainStrat s) :
    replWeightSum env m'.flows = replWeightSum env m.flows := by
  obtain ⟨extra, hfl, hk⟩ := stratifyWith_flows m m' s h hp.1
  rw [hfl, replWeightSum_append, replWeightSum_flatMap_copies env s hp,
    replWeightSum_of_none env extra (fun g hg => by rw [hk g hg]; rfl), add_zero]

/-! #### `addFlow` -/

theorem addEntry_flows (m m' : Model α) (kind : FlowKind) (name : String) (param : Expr α) (dest : String)
    (ds : Strata) (ex : Option Nat) (adjs : List (Adj α))
    (h : addEntry m kind name param dest ds ex adjs = .ok m') :
    m'.flows = m.flows ++ (m.comps.filter (fun c => c.isMatch dest ds)).map
      (fun d => ({ kind := kind, name := name, src := none, dst := some d, param := param, adjs := adjs } : Flow α)) := by
  unfold addEntry at h
  replace h := (bind_guardE_ok _ _ _ _ h).2
  obtain ⟨_, _, h⟩ := bind_ok _ _ _ h
  simp only [pure, Except.pure, Except.ok.injEq] at h
  rw [← h]

theorem addExit_flows (m m' : Model α) (kind : FlowKind) (name : String) (param : Expr α) (source : String)
    (ss : Strata) (ex : Option Nat) (h : addExit m kind name param source ss ex = .ok m') :
    ∃ new, m'.flows = m.flows ++ new ∧ ∀ g ∈ new, g.kind = kind := by
  unfold addExit at h
  replace h := (bind_guardE_ok _ _ _ _ h).2
  obtain ⟨_, _, h⟩ := bind_ok _ _ _ h
  simp only [pure, Except.pure, Except.ok.injEq] at h
  refine ⟨_, by rw [← h], ?_⟩
  intro g hg
  simp only [List.mem_map] at hg
  obtain ⟨_, _, rfl⟩ := hg
  rfl

theorem addTransitionCore_flows (m m' : Model α) (kind : FlowKind) (name : String) (param : Expr α)
    (source dest : String) (ss ds : Strata) (ex : Option Nat)
    (h : addTransitionCore m kind name param source dest ss ds ex = .ok m') :
    ∃ new, m'.flows = m.flows ++ new ∧ ∀ g ∈ new, g.kind = kind := by
  unfold addTransitionCore at h
  replace h := (bind_guardE_ok _ _ _ _ h).2
  replace h := (bind_guardE_ok _ _ _ _ h).2
  replace h := (bind_guardE_ok _ _ _ _ h).2
  replace h := (bind_guardE_ok _ _ _ _ h).2
  obtain ⟨_, _, h⟩ := bind_ok _ _ _ h
  simp only [pure, Except.pure, Except.ok.injEq] at h
  refine ⟨_, by rw [← h], ?_⟩
  intro g hg
  simp only [List.mem_map] at hg
  obtain ⟨_, _, rfl⟩ := hg
  rfl

/-- every flow addition other than a birth flow appends flows none of which is a replacement-birth flow -/
theorem addFlow_nonbirth (m m' : Model α) (op : FlowOp α) (hop : isBirthOp op = false)
    (h : addFlow m op = .ok m') :
    ∃ new, m'.flows = m.flows ++ new ∧ ∀ g ∈ new, isReplacement g.kind = false := by
  cases op with
  | crudeBirth => simp [isBirthOp] at hop
  | replBirth => simp [isBirthOp] at hop
  | importF name ok param dest split ds ex =>
    unfold addFlow at h
    replace h := (bind_guardE_ok _ _ _ _ h).2
    have key : ∀ adjs, addEntry m .importF name param dest ds ex adjs = .ok m' →
        ∃ new, m'.flows = m.flows ++ new ∧ ∀ g ∈ new, isReplacement g.kind = false := by
      intro adjs h'
      refine ⟨_, addEntry_flows _ _ _ _ _ _ _ _ _ h', ?_⟩
      intro g hg
      simp only [List.mem_map] at hg
      obtain ⟨_, _, rfl⟩ := hg
      rfl
    by_cases hsp : split = true
    · simp only [hsp, if_true] at h
      replace h := (bind_guardE_ok _ _ _ _ h).2
      exact key _ h
    · simp only [hsp, Bool.false_eq_true, if_false] at h
      exact key _ h
  | death name ok param source ss ex =>
    unfold addFlow at h
    replace h := (bind_guardE_ok _ _ _ _ h).2
    obtain ⟨new, hfl, hk⟩ := addExit_flows _ _ _ _ _ _ _ _ h
    exact ⟨new, hfl, fun g hg => by rw [hk g hg]; rfl⟩
  | universalDeath name ok param =>
    unfold addFlow at h
    replace h := (bind_guardE_ok _ _ _ _ h).2
    replace h := (bind_guardE_ok _ _ _ _ h).2
    let Inv : Model α → Prop := fun acc =>
      ∃ new, acc.flows = m.flows ++ new ∧ ∀ g ∈ new, isReplacement g.kind = false
    refine foldlM_inv Inv _ _ ?_ _ _ ⟨[], by simp, by simp⟩ h
    intro acc c _ hacc acc' hstep
    obtain ⟨new, hfl, hk⟩ := addExit_flows _ _ _ _ _ _ _ _ hstep
    obtain ⟨new0, hfl0, hk0⟩ := hacc
    refine ⟨new0 ++ new, by rw [hfl, hfl0, List.append_assoc], ?_⟩
    intro g hg
    rw [List.mem_append] at hg
    rcases hg with hg | hg
    · exact hk0 g hg
    · rw [hk g hg]; rfl
  | transition kind name ok param source dest ss ds ex =>
    unfold addFlow at h
    replace h := (bind_guardE_ok _ _ _ _ h).2
    have hkind := (bind_guardE_ok _ _ _ _ h).1
    replace h := (bind_guardE_ok _ _ _ _ h).2
    obtain ⟨new, hfl, hk⟩ := addTransitionCore_flows _ _ _ _ _ _ _ _ _ _ h
    refine ⟨new, hfl, fun g hg => ?_⟩
    rw [hk g hg]
    cases kind <;> first | rfl | (exact absurd hkind (by decide))

theorem addFlow_replWeightSum (env : Env α) (m m' : Model α) (op : FlowOp α) (hop : isBirthOp op = false)
    (h : addFlow m op = .ok m') : replWeightSum env m'.flows = replWeightSum env m.flows := by
  obtain ⟨new, hfl, hk⟩ := addFlow_nonbirth m m' op hop h
  rw [hfl, replWeightSum_append, replWeightSum_of_none env new hk, add_zero]

/-- `add_replacement_birth_flow`: accepted only when the model has no birth flow yet; appends one
replacement-birth flow of rate parameter `1` (no adjustments) PER compartment matched by the
destination filter -/
theorem addFlow_replBirth (m m' : Model α) (name dest : String) (ds : Strata) (ex : Option Nat)
    (h : addFlow m (.replBirth name dest ds ex) = .ok m') :
    hasBirthFlow m = false ∧
    m'.flows = m.flows ++ (m.comps.filter (fun c => c.isMatch dest ds)).map
      (fun d => ({ kind := .replBirth, name := name, src := none, dst := some d, param := .const 1, adjs := [] } : Flow α)) := by
  unfold addFlow at h
  have hb := (bind_guardE_ok _ _ _ _ h).1
  replace h := (bind_guardE_ok _ _ _ _ h).2
  exact ⟨by simpa using hb, addEntry_flows _ _ _ _ _ _ _ _ _ h⟩

theorem weightVal_const_one (env : Env α) (name : String) (d : Comp) :
    weightVal env ({ kind := .replBirth, name := name, src := none, dst := some d, param := .const 1, adjs := [] } : Flow α) = 1 := by
  simp [weightVal, realised, Expr.eval]

/-- after `add_replacement_birth_flow` the replacement weights add up to the NUMBER of compartments the
destination filter matches -/
theorem addFlow_replBirth_sum (env : Env α) (m m' : Model α) (name dest : String) (ds : Strata)
    (ex : Option Nat) (h : addFlow m (.replBirth name dest ds ex) = .ok m') :
    replWeightSum env m'.flows = ((m.comps.filter (fun c => c.isMatch dest ds)).length : α) := by
  obtain ⟨hnb, hfl⟩ := addFlow_replBirth m m' name dest ds ex h
  have h0 : replWeightSum env m.flows = 0 := by
    apply replWeightSum_of_none
    intro f hf
    have := List.any_eq_false.1 hnb f hf
    cases hk : f.kind <;> simp [hk, isBirth, birthKinds] at this <;> rfl
  rw [hfl, replWeightSum_append, h0, zero_add, replWeightSum_of_all]
  · rw [List.map_map]
    have : (weightVal env ∘ fun d =>
        ({ kind := .replBirth, name := name, src := none, dst := some d, param := .const 1, adjs := [] } : Flow α))
        = fun _ => (1 : α) := by
      funext d; exact weightVal_const_one env name d
    rw [this, sumL_map_const, mul_one]
  · intro g hg
    simp only [List.mem_map] at hg
    obtain ⟨_, _, rfl⟩ := hg
    rfl

/-- a sequence of API calls none of which adds a birth flow and all of whose stratifications are plain
leaves the replacement weights' total alone -/
theorem steps_replWeightSum (env : Env α) :
    ∀ (steps : List (BuildStep α)) (m m' : Model α), (∀ st ∈ steps, st.plain) →
      steps.foldlM applyStep m = .ok m' → replWeightSum env m'.flows = replWeightSum env m.flows
  | [], m, m', _, h => by
      simp only [List.foldlM_nil, pure, Except.pure, Except.ok.injEq] at h
      rw [h]
  | st :: steps, m, m', hp, h => by
      rw [List.foldlM_cons] at h
      obtain ⟨m1, hm1, h⟩ := bind_ok _ _ _ h
      rw [steps_replWeightSum env steps m1 m' (fun t ht => hp t (by simp [ht])) h]
      have hst := hp st (by simp)
      cases st with
      | flow op => exact addFlow_replWeightSum env m m1 op hst hm1
      | strat s => exact stratifyWith_replWeightSum env m m1 s hm1 hst

end build

end Summer.Proofs.EndToEnd
