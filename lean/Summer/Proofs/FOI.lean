import Summer.Model.Run
import Summer.Spec.FOI
import Summer.Proofs.InitPop
import Mathlib.Algebra.Field.Basic
import Mathlib.Tactic.Ring
/-
Helper lemmas for C05 (force of infection): Kronecker products, category order, `forceOfInfection`,
`compInfectiousness`.
-/
namespace Summer.Proofs.FOI
open Summer Summer.Run Summer.Build Summer.Spec
open Summer.Proofs.InitPop (snoc_induction)

/-! ### indexing into `flatMap` with uniform chunks -/
section flat
variable {β γ : Type}

theorem getD_append_left' (a b : List γ) (i : Nat) (d : γ) (h : i < a.length) :
    (a ++ b).getD i d = a.getD i d := by
  simp [List.getD_eq_getElem?_getD, List.getElem?_append_left h]

theorem getD_append_right' (a b : List γ) (i : Nat) (d : γ) :
    (a ++ b).getD (a.length + i) d = b.getD i d := by
  simp [List.getD_eq_getElem?_getD, List.getElem?_append_right]

theorem getD_map' (l : List β) (f : β → γ) (i : Nat) (d : β) (d' : γ) (h : i < l.length) :
    (l.map f).getD i d' = f (l.getD i d) := by
  simp [List.getD_eq_getElem?_getD, List.getElem?_eq_getElem h]

theorem length_flatMap_uniform (l : List β) (f : β → List γ) (n : Nat)
    (h : ∀ x ∈ l, (f x).length = n) : (l.flatMap f).length = l.length * n := by
  induction l with
  | nil => simp
  | cons x l ih =>
    rw [List.flatMap_cons, List.length_append, h x (by simp), ih (fun y hy => h y (by simp [hy])),
      List.length_cons, Nat.succ_mul, Nat.add_comm]

theorem getD_flatMap_uniform (l : List β) (f : β → List γ) (n : Nat)
    (h : ∀ x ∈ l, (f x).length = n) (i k : Nat) (hi : i < l.length) (hk : k < n) (dx : β) (d : γ) :
    (l.flatMap f).getD (i * n + k) d = (f (l.getD i dx)).getD k d := by
  induction l generalizing i with
  | nil => simp at hi
  | cons x l ih =>
    rw [List.flatMap_cons]
    cases i with
    | zero =>
      rw [Nat.zero_mul, Nat.zero_add, getD_append_left' _ _ _ _ (by rw [h x (by simp)]; exact hk)]
      simp
    | succ i =>
      have : (i + 1) * n + k = (f x).length + (i * n + k) := by
        rw [h x (by simp), Nat.succ_mul]; omega
      rw [this, getD_append_right', ih (fun y hy => h y (by simp [hy])) i (by simpa using hi)]
      simp

end flat

/-! ### Kronecker product -/
section kron
variable {α : Type} [Mul α] [Zero α]

/-- row `ra ⊗ rb` of the Kronecker product -/
def kronRow (ra rb : List α) : List α := ra.flatMap (fun x => rb.map (fun y => x * y))

omit [Zero α] in
theorem kron_eq (a b : Matrix α) : kron a b = a.flatMap (fun ra => b.map (fun rb => kronRow ra rb)) := rfl

omit [Zero α] in
theorem length_kronRow (ra rb : List α) : (kronRow ra rb).length = ra.length * rb.length :=
  length_flatMap_uniform _ _ _ (fun _ _ => by simp)

theorem getD_kronRow (ra rb : List α) (j l : Nat) (hj : j < ra.length) (hl : l < rb.length) :
    (kronRow ra rb).getD (j * rb.length + l) 0 = ra.getD j 0 * rb.getD l 0 := by
  unfold kronRow
  rw [getD_flatMap_uniform ra _ rb.length (fun _ _ => by simp) j l hj hl 0 0,
    getD_map' rb _ l 0 0 hl]

omit [Zero α] in
theorem length_kron (a b : Matrix α) : (kron a b).length = a.length * b.length := by
  rw [kron_eq]; exact length_flatMap_uniform _ _ _ (fun _ _ => by simp)

omit [Zero α] in
theorem getD_kron_row (a b : Matrix α) (i k : Nat) (hi : i < a.length) (hk : k < b.length) :
    (kron a b).getD (i * b.length + k) [] = kronRow (a.getD i []) (b.getD k []) := by
  rw [kron_eq, getD_flatMap_uniform a _ b.length (fun _ _ => by simp) i k hi hk [] [],
    getD_map' b _ k [] [] hk]

theorem mget_kron (a b : Matrix α) (i k j l : Nat) (hi : i < a.length) (hk : k < b.length)
    (hj : j < (a.getD i []).length) (hl : l < (b.getD k []).length) :
    mget (kron a b) (i * b.length + k) (j * (b.getD k []).length + l) = mget a i j * mget b k l := by
  unfold mget
  rw [getD_kron_row a b i k hi hk, getD_kronRow _ _ j l hj hl]

theorem getD_mem {γ : Type} (l : List γ) (i : Nat) (d : γ) (h : i < l.length) : l.getD i d ∈ l := by
  rw [List.getD_eq_getElem?_getD, List.getElem?_eq_getElem h]; simp

omit [Zero α] in
theorem isShape_kron (a b : Matrix α) (p p' q q' : Nat) (ha : IsShape a p p') (hb : IsShape b q q') :
    IsShape (kron a b) (p * q) (p' * q') := by
  refine ⟨by rw [length_kron, ha.1, hb.1], ?_⟩
  intro r hr
  rw [kron_eq] at hr
  obtain ⟨ra, hra, hr'⟩ := List.mem_flatMap.mp hr
  obtain ⟨rb, hrb, rfl⟩ := List.mem_map.mp hr'
  rw [length_kronRow, ha.2 ra hra, hb.2 rb hrb]

/-- entry of a Kronecker product of shaped matrices at a mixed-radix index -/
theorem mget_kron_shape (a b : Matrix α) (p p' q q' : Nat) (ha : IsShape a p p')
    (hb : IsShape b q q') (i k j l : Nat) (hi : i < p) (hk : k < q) (hj : j < p') (hl : l < q') :
    mget (kron a b) (i * q + k) (j * q' + l) = mget a i j * mget b k l := by
  have hi' : i < a.length := by rw [ha.1]; exact hi
  have hk' : k < b.length := by rw [hb.1]; exact hk
  have h1 : (a.getD i []).length = p' := ha.2 _ (getD_mem a i [] hi')
  have h2 : (b.getD k []).length = q' := hb.2 _ (getD_mem b k [] hk')
  have := mget_kron a b i k j l hi' hk' (by rw [h1]; exact hj) (by rw [h2]; exact hl)
  rw [hb.1, h2] at this
  exact this


theorem mixIdx_snoc (d0 : Nat) (ds : List (Nat × Nat)) (n d : Nat) :
    mixIdx d0 (ds ++ [(n, d)]) = mixIdx d0 ds * n + d := by
  simp [mixIdx, List.foldl_append]

theorem mul_add_lt {I N k q : Nat} (hI : I < N) (hk : k < q) : I * q + k < N * q := by
  calc I * q + k < I * q + q := by omega
    _ = (I + 1) * q := by rw [Nat.succ_mul]
    _ ≤ N * q := Nat.mul_le_mul_right q hI

/-- the left fold of `kron` used by `mixingMatrix`: shape and entry at a mixed-radix index -/
theorem kronFold_entry (m0 : Matrix α) (n0 : Nat) (h0 : IsShape m0 n0 n0) (i0 j0 : Nat)
    (hi0 : i0 < n0) (hj0 : j0 < n0) (ds : List (Matrix α × Nat × Nat))
    (hds : ∀ d ∈ ds, IsShape d.1 d.1.length d.1.length ∧ d.2.1 < d.1.length ∧ d.2.2 < d.1.length) :
    IsShape ((ds.map (·.1)).foldl kron m0) (ds.foldl (fun n d => n * d.1.length) n0)
        (ds.foldl (fun n d => n * d.1.length) n0) ∧
    mixIdx i0 (ds.map (fun d => (d.1.length, d.2.1))) < ds.foldl (fun n d => n * d.1.length) n0 ∧
    mixIdx j0 (ds.map (fun d => (d.1.length, d.2.2))) < ds.foldl (fun n d => n * d.1.length) n0 ∧
    mget ((ds.map (·.1)).foldl kron m0) (mixIdx i0 (ds.map (fun d => (d.1.length, d.2.1))))
        (mixIdx j0 (ds.map (fun d => (d.1.length, d.2.2))))
      = ds.foldl (fun acc d => acc * mget d.1 d.2.1 d.2.2) (mget m0 i0 j0) := by
  induction ds using snoc_induction with
  | nil => exact ⟨h0, hi0, hj0, rfl⟩
  | snoc ds d ih =>
    obtain ⟨ih1, ih2, ih3, ih4⟩ := ih (fun d' hd' => hds d' (by simp [hd']))
    obtain ⟨hd1, hd2, hd3⟩ := hds d (by simp)
    simp only [List.map_append, List.map_cons, List.map_nil, List.foldl_append, List.foldl_cons,
      List.foldl_nil, mixIdx_snoc]
    refine ⟨isShape_kron _ _ _ _ _ _ ih1 hd1, mul_add_lt ih2 hd2, mul_add_lt ih3 hd3, ?_⟩
    rw [mget_kron_shape _ _ _ _ _ _ ih1 hd1 _ _ _ _ ih2 hd2 ih3 hd3, ih4]

end kron


/-! ### mixing categories -/
section cats

/-- the update of `mixingCats` performed by `stratify_with` for a stratification with a mixing matrix -/
def catsStep (cats : List Strata) (name : String) (strata : List String) : List Strata :=
  cats.flatMap (fun mc => strata.map (fun st => dictSet mc name st))

theorem length_catsStep (cats : List Strata) (name : String) (strata : List String) :
    (catsStep cats name strata).length = cats.length * strata.length :=
  length_flatMap_uniform _ _ _ (fun _ _ => by simp)

theorem getD_catsStep (cats : List Strata) (name : String) (strata : List String) (i k : Nat)
    (hi : i < cats.length) (hk : k < strata.length) :
    (catsStep cats name strata).getD (i * strata.length + k) []
      = dictSet (cats.getD i []) name (strata.getD k "") := by
  unfold catsStep
  rw [getD_flatMap_uniform cats _ strata.length (fun _ _ => by simp) i k hi hk [] [],
    getD_map' strata _ k "" [] hk]

theorem catsFold_entry (cats0 : List Strata) (i0 : Nat) (hi0 : i0 < cats0.length)
    (ds : List (String × List String × Nat)) (hds : ∀ d ∈ ds, d.2.2 < d.2.1.length) :
    (ds.foldl (fun cats d => catsStep cats d.1 d.2.1) cats0).length
      = ds.foldl (fun n d => n * d.2.1.length) cats0.length ∧
    mixIdx i0 (ds.map (fun d => (d.2.1.length, d.2.2)))
      < (ds.foldl (fun cats d => catsStep cats d.1 d.2.1) cats0).length ∧
    (ds.foldl (fun cats d => catsStep cats d.1 d.2.1) cats0).getD
        (mixIdx i0 (ds.map (fun d => (d.2.1.length, d.2.2)))) []
      = ds.foldl (fun mc d => dictSet mc d.1 (d.2.1.getD d.2.2 "")) (cats0.getD i0 []) := by
  induction ds using snoc_induction with
  | nil => exact ⟨rfl, hi0, rfl⟩
  | snoc ds d ih =>
    obtain ⟨ih1, ih2, ih3⟩ := ih (fun d' hd' => hds d' (by simp [hd']))
    have hd := hds d (by simp)
    simp only [List.map_append, List.map_cons, List.map_nil, List.foldl_append, List.foldl_cons,
      List.foldl_nil, mixIdx_snoc]
    refine ⟨by rw [length_catsStep, ih1], ?_, ?_⟩
    · rw [length_catsStep]; exact mul_add_lt ih2 hd
    · rw [getD_catsStep _ _ _ _ _ ih2 hd, ih3]

end cats

/-! ### `forceOfInfection` -/
section foi
variable {α : Type} [Field α]

theorem sumL_map_eq_zero {β : Type} (l : List β) (f : β → α) (h : ∀ x ∈ l, f x = 0) :
    sumL (l.map f) = 0 := by
  induction l with
  | nil => rfl
  | cons x l ih =>
    simp only [List.map_cons, sumL, h x (by simp), ih (fun y hy => h y (by simp [hy])), add_zero]

theorem sumRange_zero (f : Nat → α) : sumRange 0 f = 0 := rfl

theorem sumRange_succ (n : Nat) (f : Nat → α) :
    sumRange (n + 1) f = f 0 + sumRange n (fun j => f (j + 1)) := by
  simp only [sumRange, List.range_succ_eq_map, List.map_cons, List.map_map, sumL]
  rfl

theorem sumRange_congr (n : Nat) (f g : Nat → α) (h : ∀ j, j < n → f j = g j) :
    sumRange n f = sumRange n g := by
  unfold sumRange
  congr 1
  apply List.map_congr_left
  intro j hj
  exact h j (List.mem_range.mp hj)

theorem dot_eq_sumRange (a b : List α) (n : Nat) (h : min a.length b.length ≤ n) :
    dot a b = sumRange n (fun j => a.getD j 0 * b.getD j 0) := by
  induction a generalizing b n with
  | nil =>
    rw [show dot ([] : List α) b = 0 by simp [dot, vmul, sumL]]
    symm; exact sumL_map_eq_zero _ _ (fun j _ => by simp)
  | cons x a ih =>
    cases b with
    | nil =>
      rw [show dot (x :: a) ([] : List α) = 0 by simp [dot, vmul, sumL]]
      symm; exact sumL_map_eq_zero _ _ (fun j _ => by simp)
    | cons y b =>
      cases n with
      | zero => simp at h
      | succ n =>
        rw [sumRange_succ]
        simp only [List.getD_cons_succ, List.getD_cons_zero]
        rw [← ih b n (by simp at h; omega)]
        simp [dot, vmul, sumL]

theorem getD_vmul (a b : List α) (p : Nat) : (vmul a b).getD p 0 = a.getD p 0 * b.getD p 0 := by
  induction a generalizing b p with
  | nil => simp [vmul]
  | cons x a ih =>
    cases b with
    | nil => simp [vmul]
    | cons y b =>
      cases p with
      | zero => simp [vmul]
      | succ p => simpa [vmul] using ih b p

theorem getD_zipWith_div (a b : List α) (p : Nat) :
    (List.zipWith (· / ·) a b).getD p 0 = a.getD p 0 / b.getD p 0 := by
  induction a generalizing b p with
  | nil => simp
  | cons x a ih =>
    cases b with
    | nil => simp
    | cons y b =>
      cases p with
      | zero => simp
      | succ p => simpa using ih b p

/-- the vector of infectious populations per category -/
theorem getD_infPops (infVals infness : List α) (catIndexer : List (List Nat)) (j : Nat) :
    (catIndexer.map (fun row => sumL (gather (vmul infVals infness) row))).getD j 0
      = infPop infVals infness catIndexer j := by
  have hrow : ∀ row : List Nat, sumL (gather (vmul infVals infness) row)
      = sumL (row.map (fun p => infVals.getD p 0 * infness.getD p 0)) := by
    intro row
    unfold gather
    congr 1
    apply List.map_congr_left
    intro p _
    exact getD_vmul _ _ p
  unfold infPop
  by_cases hj : j < catIndexer.length
  · rw [getD_map' _ _ j [] 0 hj, hrow]
  · have hj' : catIndexer.length ≤ j := Nat.le_of_not_lt hj
    simp [List.getD_eq_getElem?_getD, List.getElem?_eq_none hj', sumL]

theorem forceOfInfection_eq (infVals infness : List α) (catIndexer : List (List Nat))
    (mix : Matrix α) (catPops : List α) :
    forceOfInfection infVals infness catIndexer mix catPops
      = (mix.map (foiDensity infVals infness catIndexer),
         mix.map (foiFrequency infVals infness catIndexer catPops)) := by
  unfold forceOfInfection
  simp only [matVec]
  congr 1
  · apply List.map_congr_left
    intro row _
    rw [dot_eq_sumRange _ _ catIndexer.length (by simp)]
    unfold foiDensity
    apply sumRange_congr
    intro j _
    rw [getD_infPops]
  · apply List.map_congr_left
    intro row _
    rw [dot_eq_sumRange _ _ catIndexer.length (by simp)]
    unfold foiFrequency
    apply sumRange_congr
    intro j _
    rw [getD_zipWith_div, getD_infPops]


/-- per-strain force of infection vectors as computed by `infectiousMultipliers`, in specification form -/
def perStrainSpec (b : Backend) (x : List α) (mix : Matrix α) (compInf : List α) : List (List α) :=
  (b.strainInfIdx.zip b.strainCatIdx).map (fun sc =>
    if b.procType == some true then
      mix.map (foiFrequency (gather x sc.1) (gather compInf sc.1) sc.2
        (b.catIdx.map (fun row => sumL (gather x row))))
    else mix.map (foiDensity (gather x sc.1) (gather compInf sc.1) sc.2))

theorem infectiousMultipliers_eq (b : Backend) (x : List α) (mix : Matrix α) (compInf : List α) :
    infectiousMultipliers b x mix compInf
      = ((b.infStrainLookup.zip b.infCatLookup).map (fun sc =>
            ((perStrainSpec b x mix compInf).getD sc.1 []).getD sc.2 0),
         perStrainSpec b x mix compInf) := by
  have h : (b.strainInfIdx.zip b.strainCatIdx).map (fun sc =>
      if b.procType == some true then
        (forceOfInfection (gather x sc.1) (gather compInf sc.1) sc.2 mix
          (b.catIdx.map (fun row => sumL (gather x row)))).2
      else (forceOfInfection (gather x sc.1) (gather compInf sc.1) sc.2 mix
          (b.catIdx.map (fun row => sumL (gather x row)))).1) = perStrainSpec b x mix compInf := by
    unfold perStrainSpec
    apply List.map_congr_left
    intro sc _
    rw [forceOfInfection_eq]
  unfold infectiousMultipliers
  simp only [h, one_mul]

theorem getD_map_zip {β γ : Type} (a : List β) (c : List γ) (f : β × γ → α) (k : Nat)
    (ha : k < a.length) (hc : k < c.length) :
    ((a.zip c).map f).getD k 0 = f (a[k], c[k]) := by
  simp [List.getD_eq_getElem?_getD, ha, hc]

end foi


/-! ### `compInfectiousness` -/
section inf

theorem comp_beq_iff (a b : Comp) : (a == b) = true ↔ a = b := by
  cases a with
  | mk n1 s1 =>
    cases b with
    | mk n2 s2 =>
      show instBEqComp.beq ⟨n1, s1⟩ ⟨n2, s2⟩ = true ↔ _
      simp only [instBEqComp.beq, Bool.and_eq_true, Comp.mk.injEq]
      exact and_congr beq_iff_eq beq_iff_eq

instance : LawfulBEq Comp where
  eq_of_beq h := (comp_beq_iff _ _).mp h
  rfl := (comp_beq_iff _ _).mpr rfl

theorem indexOf_go_some {β : Type} [BEq β] [LawfulBEq β] (x : β) (l : List β) (k j : Nat)
    (h : indexOf?.go x l k = some j) : ∃ t, j = k + t ∧ l[t]? = some x := by
  induction l generalizing k with
  | nil => simp [indexOf?.go] at h
  | cons y l ih =>
    unfold indexOf?.go at h
    by_cases hy : (y == x) = true
    · rw [if_pos hy] at h
      exact ⟨0, by simpa using (Option.some.inj h).symm, by simp [eq_of_beq hy]⟩
    · rw [if_neg hy] at h
      obtain ⟨t, ht, hl⟩ := ih (k + 1) h
      exact ⟨t + 1, by omega, by simpa using hl⟩

theorem indexOf_go_mem {β : Type} [BEq β] [LawfulBEq β] (x : β) (l : List β) (k : Nat)
    (h : x ∈ l) : ∃ j, indexOf?.go x l k = some j := by
  induction l generalizing k with
  | nil => cases h
  | cons y l ih =>
    unfold indexOf?.go
    by_cases hy : (y == x) = true
    · exact ⟨k, by rw [if_pos hy]⟩
    · rw [if_neg hy]
      rcases List.mem_cons.mp h with rfl | h'
      · simp at hy
      · exact ih (k + 1) h'

/-- on a duplicate-free list, `compIdx` is the inverse of indexing -/
theorem compIdx_getElem (comps : List Comp) (hnd : comps.Nodup) (i : Nat) (hi : i < comps.length) :
    compIdx comps comps[i] = some i := by
  obtain ⟨j, hj⟩ := indexOf_go_mem comps[i] comps 0 (List.getElem_mem hi)
  obtain ⟨t, ht, hl⟩ := indexOf_go_some _ _ _ _ hj
  have : comps[t]? = comps[i]? := by rw [hl, List.getElem?_eq_getElem hi]
  have hti : t = i := (List.getElem?_inj (by
    rcases List.getElem?_eq_some_iff.mp hl with ⟨h, _⟩; exact h) hnd).mp this
  unfold compIdx indexOf?
  rw [hj, ht, hti, Nat.zero_add]

variable {α : Type} [Zero α] [One α] [Add α] [Sub α] [Mul α] [Div α] [LT α] [DecidableLT α]

/-- the effect of an adjustment on one value -/
def adjFun (adj : Adj α) (v : α) : α → α :=
  match adj with
  | .ovr _ => fun _ => v
  | .mul _ => fun a => v * a

/-- the scatter over the targets of one adjustment -/
def tfold (comps : List Comp) (adj : Adj α) (v : α) (targets : List Comp) (acc : List α) : List α :=
  targets.foldl (fun (acc : List α) c =>
    match compIdx comps c with
    | none => acc
    | some i => match adj with
      | .ovr _ => acc.set i v
      | .mul _ => acc.set i (v * acc.getD i 0)) acc

omit [One α] [Add α] [Sub α] [Div α] [LT α] [DecidableLT α] in
theorem tfold_cons (comps : List Comp) (adj : Adj α) (v : α) (c : Comp) (targets : List Comp)
    (acc : List α) (i : Nat) (hc : compIdx comps c = some i) :
    tfold comps adj v (c :: targets) acc
      = tfold comps adj v targets (acc.set i (adjFun adj v (acc.getD i 0))) := by
  unfold tfold
  rw [List.foldl_cons, hc]
  cases adj <;> rfl

omit [One α] [Add α] [Sub α] [Div α] [LT α] [DecidableLT α] in
theorem length_tfold (comps : List Comp) (adj : Adj α) (v : α) (targets : List Comp)
    (acc : List α) : (tfold comps adj v targets acc).length = acc.length := by
  induction targets generalizing acc with
  | nil => rfl
  | cons c targets ih =>
    unfold tfold at ih ⊢
    rw [List.foldl_cons, ih]
    cases compIdx comps c with
    | none => rfl
    | some i => cases adj <;> simp

omit [One α] [Add α] [Sub α] [Div α] [LT α] [DecidableLT α] in
theorem getD_tfold (comps : List Comp) (hnd : comps.Nodup) (adj : Adj α) (v : α)
    (targets : List Comp) (htn : targets.Nodup) (hts : ∀ c ∈ targets, c ∈ comps)
    (acc : List α) (i : Nat) (hi : i < comps.length) (hlen : acc.length = comps.length) :
    (tfold comps adj v targets acc).getD i 0
      = if comps[i] ∈ targets then adjFun adj v (acc.getD i 0) else acc.getD i 0 := by
  induction targets generalizing acc with
  | nil => simp [tfold]
  | cons c targets ih =>
    obtain ⟨j, hj, hcj⟩ := List.getElem_of_mem (hts c (by simp))
    have hidx : compIdx comps c = some j := by rw [← hcj]; exact compIdx_getElem comps hnd j hj
    have hn := List.nodup_cons.mp htn
    rw [tfold_cons comps adj v c targets acc j hidx,
      ih hn.2 (fun c' hc' => hts c' (by simp [hc'])) _ (by simpa using hlen)]
    by_cases hji : j = i
    · subst hji
      have h1 : comps[j] ∉ targets := by rw [hcj]; exact hn.1
      have h2 : comps[j] ∈ c :: targets := by rw [hcj]; simp
      rw [if_neg h1, if_pos h2]
      simp [List.getD_eq_getElem?_getD, hlen, hj]
    · have hne : comps[i] ≠ c := by
        intro h; rw [← hcj] at h
        exact hji ((List.getElem_inj hnd).mp h).symm
      have h3 : (acc.set j (adjFun adj v (acc.getD j 0))).getD i 0 = acc.getD i 0 := by
        simp [List.getD_eq_getElem?_getD, hji]
      rw [h3]
      simp [hne]

/-- one entry of the adjustment list applied to the whole infectiousness vector -/
def mstep (m : Model α) (params : List (String × α)) (acc : List α) (e : InfAdjEntry α) :
    Option (List α) :=
  match e.adj with
  | none => some acc
  | some adj => do
    let v ← evalStatic params adj.expr
    pure (tfold m.comps adj v (getMatching m e.comp [(e.strat, e.stratum)]) acc)

/-- one entry applied to the infectiousness of compartment `c` -/
def sstep (params : List (String × α)) (c : Comp) (a : α) (e : InfAdjEntry α) : Option α :=
  match e.adj with
  | none => some a
  | some adj => do
    let v ← evalStatic params adj.expr
    pure (if e.targets c then (match adj with | .ovr _ => v | .mul _ => v * a) else a)

omit [One α] in
theorem infSpec_eq (m : Model α) (params : List (String × α)) (c : Comp) (a : α) :
    (infAdjList m).foldlM (sstep params c) a
      = (infAdjList m).foldlM (fun (a : α) (e : InfAdjEntry α) =>
          match e.adj with
          | none => some a
          | some adj => do
            let v ← Run.evalStatic params adj.expr
            pure (if e.targets c then (match adj with | .ovr _ => v | .mul _ => v * a) else a)) a := rfl

theorem foldlM_flatMap_option {β γ δ : Type} (l : List β) (f : β → List γ)
    (g : δ → γ → Option δ) (init : δ) :
    (l.flatMap f).foldlM g init = l.foldlM (fun acc x => (f x).foldlM g acc) init := by
  induction l generalizing init with
  | nil => rfl
  | cons x l ih =>
    rw [List.flatMap_cons, List.foldlM_append, List.foldlM_cons]
    cases (f x).foldlM g init with
    | none => rfl
    | some a => exact ih a

theorem compInfectiousness_eq (m : Model α) (params : List (String × α)) :
    compInfectiousness m params
      = (infAdjList m).foldlM (mstep m params) (List.replicate m.comps.length 1) := by
  unfold compInfectiousness infAdjList
  rw [foldlM_flatMap_option]
  congr 1
  funext acc s
  rw [foldlM_flatMap_option]
  congr 1
  funext acc ia
  rw [List.foldlM_map]
  rfl

omit [Zero α] [One α] [Add α] [Sub α] [Mul α] [Div α] [LT α] [DecidableLT α] in
theorem mem_getMatching (m : Model α) (e : InfAdjEntry α) (c : Comp) :
    c ∈ getMatching m e.comp [(e.strat, e.stratum)] ↔ c ∈ m.comps ∧ e.targets c = true := by
  simp only [getMatching, InfAdjEntry.targets, List.mem_filter, List.all_cons, List.all_nil,
    Bool.and_true, Bool.and_eq_true, and_assoc]

omit [One α] in
theorem mstep_corr (m : Model α) (hnd : m.comps.Nodup) (params : List (String × α))
    (i : Nat) (hi : i < m.comps.length) (acc : List α) (hlen : acc.length = m.comps.length)
    (e : InfAdjEntry α) :
    (mstep m params acc e).map (fun r => r.getD i 0) = sstep params m.comps[i] (acc.getD i 0) e ∧
    ∀ acc', mstep m params acc e = some acc' → acc'.length = m.comps.length := by
  unfold mstep sstep
  cases e.adj with
  | none => exact ⟨rfl, fun acc' h => by cases h; exact hlen⟩
  | some adj =>
    cases hv : evalStatic params adj.expr with
    | none =>
      simp only [hv, Option.bind_eq_bind, Option.bind_none, Option.map_none]
      exact ⟨trivial, fun acc' h => by cases h⟩
    | some v =>
      simp only [hv, Option.bind_eq_bind, Option.bind_some, Option.pure_def, Option.map_some]
      refine ⟨?_, fun acc' h => by cases h; rw [length_tfold]; exact hlen⟩
      have hsub : List.Sublist (getMatching m e.comp [(e.strat, e.stratum)]) m.comps := by
        unfold getMatching
        exact (List.filter_sublist.trans List.filter_sublist)
      rw [getD_tfold m.comps hnd adj v _ (hnd.sublist hsub) (fun c hc => hsub.subset hc) acc i hi hlen]
      congr 1
      have hmem : (m.comps[i] ∈ getMatching m e.comp [(e.strat, e.stratum)]) ↔ e.targets m.comps[i] = true := by
        rw [mem_getMatching]; exact ⟨fun h => h.2, fun h => ⟨List.getElem_mem hi, h⟩⟩
      by_cases ht : e.targets m.comps[i] = true
      · rw [if_pos (hmem.mpr ht), if_pos ht]; cases adj <;> rfl
      · rw [if_neg (fun h => ht (hmem.mp h)), if_neg ht]

omit [One α] in
theorem mfold_corr (m : Model α) (hnd : m.comps.Nodup) (params : List (String × α))
    (i : Nat) (hi : i < m.comps.length) (L : List (InfAdjEntry α)) (acc : List α)
    (hlen : acc.length = m.comps.length) :
    (L.foldlM (mstep m params) acc).map (fun r => r.getD i 0)
        = L.foldlM (sstep params m.comps[i]) (acc.getD i 0) ∧
    ∀ r, L.foldlM (mstep m params) acc = some r → r.length = m.comps.length := by
  induction L generalizing acc with
  | nil => exact ⟨rfl, fun r h => by cases h; exact hlen⟩
  | cons e L ih =>
    obtain ⟨h1, h2⟩ := mstep_corr m hnd params i hi acc hlen e
    rw [List.foldlM_cons, List.foldlM_cons]
    cases hm : mstep m params acc e with
    | none =>
      rw [hm] at h1
      rw [← h1]
      exact ⟨rfl, fun r h => by simp at h⟩
    | some acc' =>
      rw [hm] at h1
      rw [← h1]
      exact ih acc' (h2 acc' hm)


omit [One α] in
theorem mstep_len (m : Model α) (params : List (String × α)) (acc : List α) (e : InfAdjEntry α)
    (acc' : List α) (h : mstep m params acc e = some acc') : acc'.length = acc.length := by
  unfold mstep at h
  cases he : e.adj with
  | none => rw [he] at h; cases h; rfl
  | some adj =>
    rw [he] at h
    cases hv : evalStatic params adj.expr with
    | none => simp [hv] at h
    | some v =>
      simp only [hv, Option.bind_eq_bind, Option.bind_some, Option.pure_def, Option.some.injEq] at h
      rw [← h, length_tfold]

omit [One α] in
theorem mfold_len (m : Model α) (params : List (String × α)) (L : List (InfAdjEntry α))
    (acc : List α) (r : List α) (h : L.foldlM (mstep m params) acc = some r) :
    r.length = acc.length := by
  induction L generalizing acc with
  | nil => cases h; rfl
  | cons e L ih =>
    rw [List.foldlM_cons] at h
    cases hm : mstep m params acc e with
    | none => rw [hm] at h; cases h
    | some acc' =>
      rw [hm] at h
      rw [ih acc' h, mstep_len m params acc e acc' hm]

end inf


/-! ### `stratify_with` updates the mixing categories and matrices in lockstep -/
section strat

theorem bind_ok {ε β γ : Type} {x : Except ε β} {f : β → Except ε γ} {b : γ}
    (h : (x >>= f) = .ok b) : ∃ a, x = .ok a ∧ f a = .ok b := by
  cases x with
  | error e => cases h
  | ok a => exact ⟨a, rfl, h⟩

theorem foldlM_pres {ε β γ δ : Type} (P : γ → δ) (f : γ → β → Except ε γ)
    (hf : ∀ a x a', f a x = .ok a' → P a' = P a) (l : List β) (a r : γ)
    (h : l.foldlM f a = .ok r) : P r = P a := by
  induction l generalizing a with
  | nil => cases h; rfl
  | cons x l ih =>
    rw [List.foldlM_cons] at h
    obtain ⟨a', ha', h⟩ := bind_ok h
    rw [ih a' h, hf a x a' ha']

theorem addTransitionCore_mix {α : Type} (acc acc' : Model α) (kind : FlowKind) (name : String)
    (param : Expr α) (src dst : String) (ss ds : Strata) (ex : Option Nat)
    (h : addTransitionCore acc kind name param src dst ss ds ex = .ok acc') :
    (acc'.mixingCats, acc'.mixingMats) = (acc.mixingCats, acc.mixingMats) := by
  unfold addTransitionCore at h
  obtain ⟨_, -, h⟩ := bind_ok h
  obtain ⟨_, -, h⟩ := bind_ok h
  obtain ⟨_, -, h⟩ := bind_ok h
  obtain ⟨_, -, h⟩ := bind_ok h
  obtain ⟨_, -, h⟩ := bind_ok h
  cases h
  rfl

variable {α : Type} [One α] [Div α] [NatCast α]

theorem stratifyWith_mixing (m : Model α) (s : Strat α) (m' : Model α)
    (h : stratifyWith m s = .ok m') :
    (m'.mixingCats, m'.mixingMats) =
      (match s.mixing with
       | none => (m.mixingCats, m.mixingMats)
       | some mat => (catsStep m.mixingCats s.name s.strata, m.mixingMats ++ [mat])) := by
  unfold stratifyWith at h
  obtain ⟨_, -, h⟩ := bind_ok h
  obtain ⟨_, -, h⟩ := bind_ok h
  obtain ⟨_, -, h⟩ := bind_ok h
  obtain ⟨_, -, h⟩ := bind_ok h
  obtain ⟨_, -, h⟩ := bind_ok h
  obtain ⟨m1, hm1, h⟩ := bind_ok h
  obtain ⟨m2, hm2, h⟩ := bind_ok h
  obtain ⟨_, -, h⟩ := bind_ok h
  obtain ⟨newFlows, -, h⟩ := bind_ok h
  obtain ⟨m4, hm4, h⟩ := bind_ok h
  cases h
  show (m4.mixingCats, m4.mixingMats) = _
  have h42 : (m4.mixingCats, m4.mixingMats) = (m2.mixingCats, m2.mixingMats) := by
    by_cases hage : s.isAgeing = true
    · rw [if_pos hage] at hm4
      obtain ⟨_, -, hm4⟩ := bind_ok hm4
      obtain ⟨_, -, hm4⟩ := bind_ok hm4
      refine Eq.trans (foldlM_pres (fun (x : Model α) => (x.mixingCats, x.mixingMats)) _ ?_ _ _ _ hm4) rfl
      intro a ab a' ha'
      refine foldlM_pres (fun (x : Model α) => (x.mixingCats, x.mixingMats)) _ ?_ _ _ _ ha'
      intro a2 c a2' ha2'
      obtain ⟨_, -, ha2'⟩ := bind_ok ha2'
      exact addTransitionCore_mix _ _ _ _ _ _ _ _ _ _ ha2'
    · rw [if_neg hage] at hm4
      cases hm4; rfl
  have h21 : (m2.mixingCats, m2.mixingMats) = (m1.mixingCats, m1.mixingMats) := by
    by_cases hs : s.isStrain = true
    · rw [if_pos hs] at hm2
      obtain ⟨_, -, hm2⟩ := bind_ok hm2
      cases hm2; rfl
    · rw [if_neg hs] at hm2
      cases hm2; rfl
  rw [h42, h21]
  cases hmix : s.mixing with
  | none => rw [hmix] at hm1; cases hm1; rfl
  | some mat =>
    rw [hmix] at hm1
    obtain ⟨_, -, hm1⟩ := bind_ok hm1
    obtain ⟨_, -, hm1⟩ := bind_ok hm1
    cases hm1; rfl

/-- a sequence of `stratify_with` calls -/
theorem stratifyWith_seq (ss : List (Strat α)) (m m' : Model α)
    (h : ss.foldlM stratifyWith m = .ok m') :
    m'.mixingCats = (ss.filter (fun s => s.mixing.isSome)).foldl
        (fun cats s => catsStep cats s.name s.strata) m.mixingCats ∧
    m'.mixingMats = m.mixingMats ++ ss.filterMap (fun s => s.mixing) := by
  induction ss generalizing m with
  | nil => cases h; simp
  | cons s ss ih =>
    rw [List.foldlM_cons] at h
    obtain ⟨m1, hm1, h⟩ := bind_ok h
    obtain ⟨h1, h2⟩ := ih m1 h
    have hs := stratifyWith_mixing m s m1 hm1
    cases hmix : s.mixing with
    | none =>
      rw [hmix] at hs
      have e1 : m1.mixingCats = m.mixingCats := congrArg Prod.fst hs
      have e2 : m1.mixingMats = m.mixingMats := congrArg Prod.snd hs
      rw [h1, h2, e1, e2]
      simp [hmix]
    | some mat =>
      rw [hmix] at hs
      have e1 : m1.mixingCats = catsStep m.mixingCats s.name s.strata := congrArg Prod.fst hs
      have e2 : m1.mixingMats = m.mixingMats ++ [mat] := congrArg Prod.snd hs
      rw [h1, h2, e1, e2]
      simp [hmix]

end strat

end Summer.Proofs.FOI
