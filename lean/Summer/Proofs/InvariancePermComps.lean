import Summer.Proofs.Invariance
import Summer.Proofs.AggregateMore
import Summer.Spec.InvariancePermComps
/-
Helper lemmas for property C15, compartment reordering through the whole right-hand side
(`Summer/Props/C15PermComps.lean`).
-/
set_option linter.unusedSectionVars false
set_option linter.unusedVariables false

namespace Summer.Proofs.InvPermComps
open Summer Summer.Run Summer.Spec Summer.Solvers Summer.Spec.Solvers Summer.Proofs
open Summer.Proofs.Invariance Summer.Spec.AggregateMore Summer.Spec.PermComps
open Summer.Proofs.AggregateMore (catPred catNo perStrain_multi catOf_eq catOf_none contains_idxWhere)

/-! ## 1. vectors as functions of the compartment -/
section valOf
variable {α : Type} [Zero α]

/-- the entry of a per-compartment vector of `m` belonging to compartment `c` -/
def valOf (m : Model α) (v : List α) (c : Comp) : α := v.getD ((compIdx m.comps c).getD 0) 0

theorem relabel_eq_map (m : Model α) (cs' : List Comp) (v : List α) :
    relabel m cs' v = cs'.map (valOf m v) := rfl

theorem relabel_length (m : Model α) (cs' : List Comp) (v : List α) :
    (relabel m cs' v).length = cs'.length := by simp [relabel]

end valOf

section idx
variable {β : Type}

/-- the positions selected by `P` that are also selected by `Q` -/
theorem filter_idxWhere_contains (comps : List Comp) (P Q : Comp → Bool) :
    (idxWhere comps P).filter (fun j => (idxWhere comps Q).contains j)
      = idxWhere comps (fun c => P c && Q c) := by
  unfold idxWhere
  rw [List.filter_map, List.filter_filter]
  congr 1
  apply List.filter_congr
  intro x hx
  have hx' := List.mem_zipIdx_iff_getElem?.1 hx
  obtain ⟨hlt, hget⟩ := List.getElem?_eq_some_iff.1 hx'
  have := contains_idxWhere comps Q x.2 hlt
  unfold idxWhere at this
  simp only [Function.comp]
  rw [this, hget, Bool.and_comm]

end idx

/-! ## 2. the force of infection -/
section rows
variable {α : Type}

/-- which compartments are infectious for strain `σ` (the predicate of `strainInfectiousIdx`) -/
def infP (m : Model α) (σ : String) (c : Comp) : Bool :=
  (strainFilter m σ).all (fun kv => alookup c.strata kv.1 == some kv.2) && isInfectious m c

/-- number of infectious compartments of strain `σ` in each mixing category -/
def rowLens (m : Model α) (σ : String) : List Nat :=
  m.mixingCats.map (fun cat => (m.comps.filter (fun c => catPred cat c && infP m σ c)).length)

theorem rowLens_eq (m : Model α) (σ : String) :
    ((Proofs.catIdxOf m).map
      (fun row => row.filter (fun j => (strainInfectiousIdx m σ).contains j))).map (·.length) = rowLens m σ := by
  unfold rowLens
  rw [AggregateMore.catIdxOf_eq, List.map_map, List.map_map]
  apply List.map_congr_left
  intro cat _
  simp only [Function.comp]
  rw [show strainInfectiousIdx m σ = idxWhere m.comps (infP m σ) from rfl, filter_idxWhere_contains,
    idxWhere_length]

theorem rowLens_perm_comps (m : Model α) (cs' : List Comp) (hp : cs'.Perm m.comps) (σ : String) :
    rowLens (withComps m cs') σ = rowLens m σ := by
  unfold rowLens
  apply List.map_congr_left
  intro cat _
  exact (hp.filter _).length_eq

/-- number of entries of the flat per-strain list that `prepare` reshapes -/
theorem length_locOf (m : Model α) (σ : String) :
    (locOf (Proofs.catIdxOf m) (strainInfectiousIdx m σ)).length = (rowLens m σ).sum := by
  unfold locOf
  rw [List.length_map, List.filter_flatten, List.length_flatten, rowLens_eq]

theorem src_mem_comps {m : Model α} {b : Backend} (hb : BackendFor m b) (f : Flow α) (hf : f ∈ m.flows)
    (c : Comp) (hsrc : f.src = some c) : c ∈ m.comps := by
  have h := hb.srcOk f hf (by rw [hsrc]; rfl)
  simp only [srcIx, hsrc, Option.bind_some] at h
  cases hi : compIdx m.comps c with
  | none => rw [hi] at h; cases h
  | some i =>
    obtain ⟨hlt, hget⟩ := compIdx_getElem m.comps c i hi
    exact hget ▸ List.getElem_mem hlt

theorem dst_mem_comps {m : Model α} {b : Backend} (hb : BackendFor m b) (f : Flow α) (hf : f ∈ m.flows)
    (c : Comp) (hdst : f.dst = some c) : c ∈ m.comps := by
  have h := hb.dstOk f hf (by rw [hdst]; rfl)
  simp only [dstIx, hdst, Option.bind_some] at h
  cases hi : compIdx m.comps c with
  | none => rw [hi] at h; cases h
  | some i =>
    obtain ⟨hlt, hget⟩ := compIdx_getElem m.comps c i hi
    exact hget ▸ List.getElem_mem hlt

theorem compIdx_of_mem (cs : List Comp) (c : Comp) (hc : c ∈ cs) :
    ∃ j, compIdx cs c = some j ∧ ∃ h : j < cs.length, cs[j] = c := by
  obtain ⟨j, hj, hl⟩ := Proofs.indexOf?_mem cs c hc
  obtain ⟨hlt, hget⟩ := List.getElem?_eq_some_iff.1 hl
  exact ⟨j, hj, hlt, hget⟩

end rows

section foi
variable {α : Type} [Field α]

/-- `catsUniform` read on the compartment list instead of the index tables -/
theorem catsUniform_eq {m : Model α} {b : Backend} (ht : FoiTables m b) :
    catsUniform b
      = m.strains.all (fun σ => (rowLens m σ).all (fun n => n == ((rowLens m σ).head?).getD 0)) := by
  unfold catsUniform
  rw [ht.strainInfIdx, ht.catIdx, List.all_map]
  congr 1
  funext σ
  simp only [Function.comp]
  rw [← rowLens_eq m σ]
  simp only [List.all_map, List.head?_map, Option.map_map]
  rfl

/-- uniformity of the categories does not depend on the order of the compartments -/
theorem catsUniform_perm_comps {m : Model α} {cs' : List Comp} {b b' : Backend} (ht : FoiTables m b)
    (ht' : FoiTables (withComps m cs') b') (hp : cs'.Perm m.comps) : catsUniform b' = catsUniform b := by
  rw [catsUniform_eq ht, catsUniform_eq ht']
  simp only [rowLens_perm_comps m cs' hp]
  rfl

theorem procType_perm_comps {m : Model α} {cs' : List Comp} {b b' : Backend} (ht : FoiTables m b)
    (ht' : FoiTables (withComps m cs') b') : b'.procType = b.procType := by
  rw [ht.procType, ht'.procType]; rfl

/-- **per-strain forces of infection**: evaluated on the relabelled state with the relabelled
compartment infectiousness, the reordered model gives the same vectors -/
theorem perStrain_perm_comps {m : Model α} {cs' : List Comp} {b b' : Backend} (ht : FoiTables m b)
    (ht' : FoiTables (withComps m cs') b') (hu : catsUniform b = true) (hnd : m.comps.Nodup)
    (hp : cs'.Perm m.comps) (xc ci : List α) (hx : xc.length = m.comps.length)
    (hc : ci.length = m.comps.length) (mix : Matrix α) :
    (infectiousMultipliers b' (relabel m cs' xc) mix (relabel m cs' ci)).2
      = (infectiousMultipliers b xc mix ci).2 := by
  have hu' : catsUniform b' = true := by rw [catsUniform_perm_comps ht ht' hp]; exact hu
  have e1 : m.comps.map (valOf m xc) = xc := relabel_self m hnd xc hx
  have e2 : m.comps.map (valOf m ci) = ci := relabel_self m hnd ci hc
  have h1 := perStrain_multi ht hu (valOf m xc) (valOf m ci) mix
  have h2 := perStrain_multi ht' hu' (valOf m xc) (valOf m ci) mix
  rw [e1, e2] at h1
  rw [h1]
  refine h2.trans ?_
  rw [procType_perm_comps ht ht']
  show m.strains.map _ = _
  apply List.map_congr_left
  intro σ _
  congr 1
  · apply List.map_congr_left
    intro cat _
    exact sumL_perm ((hp.filter _).map _)
  · apply List.map_congr_left
    intro cat _
    exact sumL_perm ((hp.filter _).map _)

/-- the category of an infection flow does not depend on the order of the compartments -/
theorem catOf_perm_comps {m : Model α} {cs' : List Comp} {b : Backend} (hb : BackendFor m b)
    (hp : cs'.Perm m.comps) (f : Flow α) (hf : f ∈ m.flows) : catOf (withComps m cs') f = catOf m f := by
  cases hsrc : f.src with
  | none => rw [catOf_none _ f hsrc, catOf_none _ f hsrc]
  | some c =>
    have hc := src_mem_comps hb f hf c hsrc
    rw [catOf_eq m f c hsrc hc, catOf_eq (withComps m cs') f c hsrc (hp.mem_iff.2 hc)]
    rfl

theorem multFn_perm_comps {m : Model α} {cs' : List Comp} {b : Backend} (hb : BackendFor m b)
    (hp : cs'.Perm m.comps) (ps : List (List α)) (f : Flow α) (hf : f ∈ m.flows) :
    multFn (withComps m cs') ps f = multFn m ps f := by
  unfold multFn
  rw [catOf_perm_comps hb hp f hf]
  rfl

/-- **infection multipliers and per-strain vectors** of the reordered model at the relabelled state -/
theorem infectiousMultipliers_perm_comps {m : Model α} {cs' : List Comp} {b b' : Backend}
    (hb : BackendFor m b) (ht : FoiTables m b)
    (ht' : FoiTables (withComps m cs') b') (hu : catsUniform b = true) (hnd : m.comps.Nodup)
    (hp : cs'.Perm m.comps) (xc ci : List α) (hx : xc.length = m.comps.length)
    (hc : ci.length = m.comps.length) (mix : Matrix α) :
    infectiousMultipliers b' (relabel m cs' xc) mix (relabel m cs' ci) = infectiousMultipliers b xc mix ci := by
  have h2 := perStrain_perm_comps ht ht' hu hnd hp xc ci hx hc mix
  apply Prod.ext
  · rw [Proofs.mults_eq_map ht', Proofs.mults_eq_map ht, h2]
    show (m.flows.filter _).map _ = _
    apply List.map_congr_left
    intro f hf
    exact multFn_perm_comps hb hp _ f (List.mem_filter.1 hf).1
  · exact h2

end foi

/-! ## 3. the pure part of `step` -/
section pure
variable {α : Type} [Field α]

theorem catsUniform_of_aligned {b : Backend} (hu : foiAligned b = true) (h : b.procType.isSome = true) :
    catsUniform b = true := by
  unfold foiAligned at hu
  cases hp : b.procType with
  | none => rw [hp] at h; cases h
  | some o => rw [hp] at hu; simpa using hu

/-- **compartment reordering, pure part of `step`**: given the weights and the mixing matrix, the
reordered model evaluated at the relabelled state and infectiousness gives the same per-flow outputs and
the relabelled per-compartment outputs -/
theorem outOf_perm_comps {m : Model α} {cs' : List Comp} {b b' : Backend}
    (hb : BackendFor m b) (hb' : BackendFor (withComps m cs') b') (ht : FoiTables m b)
    (ht' : FoiTables (withComps m cs') b') (hs : sourcedOk m = true) (hu : foiAligned b = true)
    (hnd : m.comps.Nodup) (hp : cs'.Perm m.comps) (w xc ci : List α) (hw : w.length = m.flows.length)
    (hx : xc.length = m.comps.length) (hc : ci.length = m.comps.length) (mix : Matrix α) :
    outOf b' w (relabel m cs' xc) mix (relabel m cs' ci) = relabelOut m cs' (outOf b w xc mix ci) := by
  have hpt := procType_perm_comps ht ht'
  have hmp : (if b'.procType.isSome then infectiousMultipliers b' (relabel m cs' xc) mix (relabel m cs' ci)
        else (([] : List α), ([] : List (List α))))
      = (if b.procType.isSome then infectiousMultipliers b xc mix ci else ([], [])) := by
    rw [hpt]
    by_cases h : b.procType.isSome = true
    · rw [if_pos h, if_pos h]
      exact infectiousMultipliers_perm_comps hb ht ht' (catsUniform_of_aligned hu h) hnd hp xc ci hx hc mix
    · rw [if_neg h, if_neg h]
  simp only [outOf, relabelOut, hmp, flowRates_perm_comps m cs' b b' hb hb' hs hnd hp w xc _ hw hx]
  congr 1
  exact compRates_perm_comps m cs' b b' hb hb' _ (hp.nodup_iff.2 hnd) (fun _ hc => hp.mem_iff.1 hc)

end pure

/-! ## 4. expressions -/
section expr
variable {α : Type} [Zero α] [Add α] [Sub α] [Mul α] [Div α] [LT α] [DecidableLT α]

mutual
/-- an expression that reads no compartment by position only sees the total of the state -/
theorem eval_posFree (p : List (String × α)) (t : α) (x x' : List α) (hsum : sumL x' = sumL x) :
    ∀ e : Expr α, posFree e = true → e.eval ⟨p, t, x'⟩ = e.eval ⟨p, t, x⟩
  | .const _, _ => by simp [Expr.eval]
  | .param _, _ => by simp [Expr.eval]
  | .time, _ => by simp [Expr.eval]
  | .comp _, h => by simp [posFree] at h
  | .popSum, _ => by simp [Expr.eval, hsum]
  | .add a b, h => by
      simp only [posFree, Bool.and_eq_true] at h
      simp only [Expr.eval, eval_posFree p t x x' hsum a h.1, eval_posFree p t x x' hsum b h.2]
  | .sub a b, h => by
      simp only [posFree, Bool.and_eq_true] at h
      simp only [Expr.eval, eval_posFree p t x x' hsum a h.1, eval_posFree p t x x' hsum b h.2]
  | .mul a b, h => by
      simp only [posFree, Bool.and_eq_true] at h
      simp only [Expr.eval, eval_posFree p t x x' hsum a h.1, eval_posFree p t x x' hsum b h.2]
  | .div a b, h => by
      simp only [posFree, Bool.and_eq_true] at h
      simp only [Expr.eval, eval_posFree p t x x' hsum a h.1, eval_posFree p t x x' hsum b h.2]
  | .pw a bs vs, h => by
      simp only [posFree, Bool.and_eq_true] at h
      simp only [Expr.eval, eval_posFree p t x x' hsum a h.1.1,
        evalList_posFree p t x x' hsum bs h.1.2, evalList_posFree p t x x' hsum vs h.2]
  | .lin a bs vs, h => by
      simp only [posFree, Bool.and_eq_true] at h
      simp only [Expr.eval, eval_posFree p t x x' hsum a h.1.1,
        evalList_posFree p t x x' hsum bs h.1.2, evalList_posFree p t x x' hsum vs h.2]
theorem evalList_posFree (p : List (String × α)) (t : α) (x x' : List α) (hsum : sumL x' = sumL x) :
    ∀ l : List (Expr α), posFreeList l = true → Expr.evalList ⟨p, t, x'⟩ l = Expr.evalList ⟨p, t, x⟩ l
  | [], _ => by simp [Expr.evalList]
  | e :: es, h => by
      simp only [posFreeList, Bool.and_eq_true] at h
      simp only [Expr.evalList, eval_posFree p t x x' hsum e h.1, evalList_posFree p t x x' hsum es h.2]
end

mutual
/-- an expression whose positional reads have been redirected by `ρ`, evaluated at a state `x'` that
holds at position `ρ i` what `x` holds at position `i` -/
theorem eval_reindex (p : List (String × α)) (t : α) (x x' : List α) (ρ : Nat → Nat) (hsum : sumL x' = sumL x)
    (hρ : ∀ i, ρ i < x'.length ↔ i < x.length) (hget : ∀ i, i < x.length → x'.getD (ρ i) 0 = x.getD i 0) :
    ∀ e : Expr α, (reindex ρ e).eval ⟨p, t, x'⟩ = e.eval ⟨p, t, x⟩
  | .const _ => by simp [reindex, Expr.eval]
  | .param _ => by simp [reindex, Expr.eval]
  | .time => by simp [reindex, Expr.eval]
  | .comp i => by
      simp only [reindex, Expr.eval]
      by_cases h : i < x.length
      · rw [if_pos h, if_pos ((hρ i).2 h), hget i h]
      · rw [if_neg h, if_neg (fun h' => h ((hρ i).1 h'))]
  | .popSum => by simp [reindex, Expr.eval, hsum]
  | .add a b => by
      simp only [reindex, Expr.eval, eval_reindex p t x x' ρ hsum hρ hget a, eval_reindex p t x x' ρ hsum hρ hget b]
  | .sub a b => by
      simp only [reindex, Expr.eval, eval_reindex p t x x' ρ hsum hρ hget a, eval_reindex p t x x' ρ hsum hρ hget b]
  | .mul a b => by
      simp only [reindex, Expr.eval, eval_reindex p t x x' ρ hsum hρ hget a, eval_reindex p t x x' ρ hsum hρ hget b]
  | .div a b => by
      simp only [reindex, Expr.eval, eval_reindex p t x x' ρ hsum hρ hget a, eval_reindex p t x x' ρ hsum hρ hget b]
  | .pw a bs vs => by
      simp only [reindex, Expr.eval, eval_reindex p t x x' ρ hsum hρ hget a,
        evalList_reindex p t x x' ρ hsum hρ hget bs, evalList_reindex p t x x' ρ hsum hρ hget vs]
  | .lin a bs vs => by
      simp only [reindex, Expr.eval, eval_reindex p t x x' ρ hsum hρ hget a,
        evalList_reindex p t x x' ρ hsum hρ hget bs, evalList_reindex p t x x' ρ hsum hρ hget vs]
theorem evalList_reindex (p : List (String × α)) (t : α) (x x' : List α) (ρ : Nat → Nat) (hsum : sumL x' = sumL x)
    (hρ : ∀ i, ρ i < x'.length ↔ i < x.length) (hget : ∀ i, i < x.length → x'.getD (ρ i) 0 = x.getD i 0) :
    ∀ l : List (Expr α), Expr.evalList ⟨p, t, x'⟩ (reindexList ρ l) = Expr.evalList ⟨p, t, x⟩ l
  | [] => by simp [reindexList, Expr.evalList]
  | e :: es => by
      simp only [reindexList, Expr.evalList, eval_reindex p t x x' ρ hsum hρ hget e,
        evalList_reindex p t x x' ρ hsum hρ hget es]
end

mutual
theorem reindex_of_posFree (ρ : Nat → Nat) : ∀ e : Expr α, posFree e = true → reindex ρ e = e
  | .const _, _ => rfl
  | .param _, _ => rfl
  | .time, _ => rfl
  | .comp _, h => by simp [posFree] at h
  | .popSum, _ => rfl
  | .add a b, h => by
      simp only [posFree, Bool.and_eq_true] at h
      simp only [reindex, reindex_of_posFree ρ a h.1, reindex_of_posFree ρ b h.2]
  | .sub a b, h => by
      simp only [posFree, Bool.and_eq_true] at h
      simp only [reindex, reindex_of_posFree ρ a h.1, reindex_of_posFree ρ b h.2]
  | .mul a b, h => by
      simp only [posFree, Bool.and_eq_true] at h
      simp only [reindex, reindex_of_posFree ρ a h.1, reindex_of_posFree ρ b h.2]
  | .div a b, h => by
      simp only [posFree, Bool.and_eq_true] at h
      simp only [reindex, reindex_of_posFree ρ a h.1, reindex_of_posFree ρ b h.2]
  | .pw a bs vs, h => by
      simp only [posFree, Bool.and_eq_true] at h
      simp only [reindex, reindex_of_posFree ρ a h.1.1, reindexList_of_posFree ρ bs h.1.2,
        reindexList_of_posFree ρ vs h.2]
  | .lin a bs vs, h => by
      simp only [posFree, Bool.and_eq_true] at h
      simp only [reindex, reindex_of_posFree ρ a h.1.1, reindexList_of_posFree ρ bs h.1.2,
        reindexList_of_posFree ρ vs h.2]
theorem reindexList_of_posFree (ρ : Nat → Nat) : ∀ l : List (Expr α), posFreeList l = true → reindexList ρ l = l
  | [], _ => rfl
  | e :: es, h => by
      simp only [posFreeList, Bool.and_eq_true] at h
      simp only [reindexList, reindex_of_posFree ρ e h.1, reindexList_of_posFree ρ es h.2]
end

/-- redirecting the positional reads commutes with the adjustment chain -/
theorem realised_reindexFlow (ρ : Nat → Nat) (f : Flow α) :
    realised (reindexFlow ρ f) = reindex ρ (realised f) := by
  unfold realised reindexFlow
  simp only [List.foldl_map]
  generalize f.param = e
  induction f.adjs generalizing e with
  | nil => rfl
  | cons a as ih =>
    simp only [List.foldl_cons]
    cases a with
    | mul e' =>
      have := ih (e.mul e')
      simp only [reindex] at this
      exact this
    | ovr e' => exact ih e'

end expr

/-! ## 5. compartment infectiousness -/
section compInf
variable {α : Type} [Zero α] [One α] [Add α] [Sub α] [Mul α] [Div α] [LT α] [DecidableLT α]

/-- `compInfectiousness` entry by entry (this is `Summer.Props.C05.infectiousness`) -/
theorem compInf_spec (m : Model α) (params : List (String × α)) (hnd : m.comps.Nodup) :
    (∀ r, compInfectiousness m params = some r → r.length = m.comps.length) ∧
    ∀ (i : Nat) (hi : i < m.comps.length),
      (compInfectiousness m params).map (fun r => r.getD i 0) = infSpec m params m.comps[i] := by
  rw [FOI.compInfectiousness_eq]
  refine ⟨fun r h => ?_, fun i hi => ?_⟩
  · rw [FOI.mfold_len m params _ _ r h]; simp
  · have := (FOI.mfold_corr m hnd params i hi (infAdjList m) (List.replicate m.comps.length 1) (by simp)).1
    rw [this]
    have h1 : (List.replicate m.comps.length (1 : α)).getD i 0 = 1 := by
      simp [List.getD_eq_getElem?_getD, hi]
    rw [h1]
    rfl

/-- **compartment infectiousness** of the reordered model: defined exactly when that of `m` is, and
then the relabelled vector -/
theorem compInfectiousness_perm_comps (m : Model α) (cs' : List Comp) (hnd : m.comps.Nodup)
    (hp : cs'.Perm m.comps) (p : List (String × α)) :
    compInfectiousness (withComps m cs') p = (compInfectiousness m p).map (relabel m cs') := by
  have hnd' : (withComps m cs').comps.Nodup := hp.nodup_iff.2 hnd
  obtain ⟨hlen, hspec⟩ := compInf_spec m p hnd
  obtain ⟨hlen', hspec'⟩ := compInf_spec (withComps m cs') p hnd'
  have hspec'' : ∀ (j : Nat) (hj : j < cs'.length),
      (compInfectiousness (withComps m cs') p).map (fun r => r.getD j 0) = infSpec m p cs'[j] :=
    fun j hj => hspec' j hj
  -- every compartment of `cs'` sits somewhere in `m.comps`
  have hpos : ∀ (j : Nat) (hj : j < cs'.length), ∃ (i : Nat) (hi : i < m.comps.length),
      m.comps[i] = cs'[j] ∧ compIdx m.comps cs'[j] = some i := by
    intro j hj
    obtain ⟨i, hi, hget⟩ := List.getElem_of_mem (hp.mem_iff.1 (List.getElem_mem hj))
    exact ⟨i, hi, hget, hget ▸ compIdx_of_nodup m.comps hnd i hi⟩
  by_cases hempty : m.comps = []
  · have hcs : cs' = [] := by rw [hempty] at hp; exact hp.eq_nil
    have hm : withComps m cs' = m := by
      cases m; simp only [withComps] at *; simp [hcs, hempty]
    rw [hm]
    cases hci : compInfectiousness m p with
    | none => rfl
    | some r =>
      have := hlen r hci
      rw [hempty] at this
      rw [List.length_eq_zero_iff.1 this, hcs]
      rfl
  · have hpos0 : 0 < m.comps.length := List.length_pos_iff.2 hempty
    have hpos0' : 0 < cs'.length := by rw [hp.length_eq]; exact hpos0
    cases hci : compInfectiousness m p with
    | none =>
      -- the compartment at position 0 of `m.comps` sits somewhere in `cs'`
      obtain ⟨j, hj, hget⟩ := List.getElem_of_mem (hp.mem_iff.2 (List.getElem_mem hpos0))
      have h1 := hspec 0 hpos0
      have h2 := hspec'' j hj
      rw [hci] at h1
      rw [hget, ← h1] at h2
      simpa using h2
    | some r =>
      cases hci' : compInfectiousness (withComps m cs') p with
      | none =>
        obtain ⟨i, hi, hget, _⟩ := hpos 0 hpos0'
        have h1 := hspec i hi
        have h2 := hspec'' 0 hpos0'
        rw [hci] at h1
        rw [hci', ← hget, ← h1] at h2
        simp at h2
      | some r' =>
        simp only [Option.map_some, Option.some.injEq]
        apply List.ext_getElem
        · rw [hlen' r' hci', relabel_length]; rfl
        · intro j h1 h2
          have hj : j < cs'.length := by rw [relabel_length] at h2; exact h2
          obtain ⟨i, hi, hget, hidx⟩ := hpos j hj
          have e1 := hspec i hi
          have e2 := hspec'' j hj
          rw [hci] at e1
          rw [hci', ← hget, ← e1] at e2
          simp only [Option.map_some, Option.some.injEq] at e2
          rw [← getD_eq_getElem r' j 0 h1, e2]
          simp only [relabel, List.getElem_map, hidx, Option.getD_some]

end compInf

/-! ## 6. one evaluation of the right-hand side -/
section stepsec
variable {α : Type} [Field α] [LinearOrder α] [IsStrictOrderedRing α]

theorem getD_cleanV (x : List α) (i : Nat) : (cleanV x).getD i 0 = clean (x.getD i 0) := by
  unfold cleanV
  by_cases hi : i < x.length
  · rw [getD_eq_getElem _ _ _ (by simpa using hi), getD_eq_getElem _ _ _ hi, List.getElem_map]
  · rw [getD_of_le _ _ _ (by simpa using hi), getD_of_le _ _ _ (by omega)]
    simp [clean]

/-- cleaning commutes with the relabelling -/
theorem cleanV_relabel (m : Model α) (cs' : List Comp) (x : List α) :
    cleanV (relabel m cs' x) = relabel m cs' (cleanV x) := by
  unfold relabel
  simp only [cleanV, List.map_map]
  apply List.map_congr_left
  intro c _
  exact (getD_cleanV x _).symm

/-- **core**: `m'` is any model that, at the relabelled state, produces the weights and the mixing matrix
of `m`, and whose compartment infectiousness is that of `withComps m cs'`; `b'` are the index tables of
`withComps m cs'`.  Then one evaluation of `m'` on the relabelled state is defined exactly when that of
`m` on the original state is, and it is the relabelled output. -/
theorem step_perm_comps_core (m m' : Model α) (cs' : List Comp) (b b' : Backend) (h : prepare m = .ok b)
    (h' : prepare (withComps m cs') = .ok b') (hs : sourcedOk m = true) (hu : foiAligned b = true)
    (hnd : m.comps.Nodup) (hp : cs'.Perm m.comps) (p : List (String × α)) (t : α) (x : List α)
    (hx : x.length = m.comps.length)
    (hW : weightsAt m' ⟨p, t, relabel m cs' (cleanV x)⟩ = weightsAt m ⟨p, t, cleanV x⟩)
    (hM : mixingMatrix m' ⟨p, t, relabel m cs' (cleanV x)⟩ = mixingMatrix m ⟨p, t, cleanV x⟩)
    (hC : compInfectiousness m' p = compInfectiousness (withComps m cs') p) :
    step m' b' p t (relabel m cs' x) = (step m b p t x).map (relabelOut m cs') := by
  have hb := backendFor_of_prepare m b h
  have hb' := backendFor_of_prepare _ b' h'
  have ht := foiTables_of_prepare m b h
  have ht' := foiTables_of_prepare _ b' h'
  rw [step_eq, step_eq, cleanV_relabel, hW, hM, hC, compInfectiousness_perm_comps m cs' hnd hp]
  cases hw : weightsAt m ⟨p, t, cleanV x⟩ with
  | none => rfl
  | some w =>
    cases mixingMatrix m ⟨p, t, cleanV x⟩ with
    | none => rfl
    | some mix =>
      cases hci : compInfectiousness m p with
      | none => rfl
      | some ci =>
        simp only [Option.bind_some, Option.map_some]
        congr 1
        exact outOf_perm_comps hb hb' ht ht' hs hu hnd hp w (cleanV x) ci (weightsAt_length m _ w hw)
          (by simpa [cleanV] using hx) ((compInf_spec m p hnd).1 ci hci) mix

theorem rhs_of_step {m m' : Model α} {cs' : List Comp} {b b' : Backend} {p : List (String × α)} {t : α}
    {x : List α} (hstep : step m' b' p t (relabel m cs' x) = (step m b p t x).map (relabelOut m cs')) :
    rhs m' b' p (relabel m cs' x) t = (rhs m b p x t).map (relabel m cs') := by
  unfold rhs
  rw [hstep, Option.map_map, Option.map_map]
  rfl

/-! ### models that do not read compartments by position -/

theorem sumL_relabel (m : Model α) (cs' : List Comp) (hnd : m.comps.Nodup) (hp : cs'.Perm m.comps)
    (v : List α) (hv : v.length = m.comps.length) : sumL (relabel m cs' v) = sumL v :=
  sumL_perm (relabel_perm m cs' hnd hp v hv)

theorem weightsAt_posFree (m : Model α) (cs' : List Comp) (hpf : posFreeModel m = true)
    (p : List (String × α)) (t : α) (x x' : List α) (hsum : sumL x' = sumL x) :
    weightsAt (withComps m cs') ⟨p, t, x'⟩ = weightsAt m ⟨p, t, x⟩ := by
  unfold posFreeModel at hpf
  rw [Bool.and_eq_true, List.all_eq_true] at hpf
  unfold weightsAt
  show m.flows.mapM _ = _
  apply mapM_option_congr
  intro f hf
  exact eval_posFree p t x x' hsum _ (hpf.1 f hf)

theorem mixingMatrix_posFree (m : Model α) (cs' : List Comp) (hpf : posFreeModel m = true)
    (p : List (String × α)) (t : α) (x x' : List α) (hsum : sumL x' = sumL x) :
    mixingMatrix (withComps m cs') ⟨p, t, x'⟩ = mixingMatrix m ⟨p, t, x⟩ := by
  unfold posFreeModel at hpf
  rw [Bool.and_eq_true, List.all_eq_true] at hpf
  unfold mixingMatrix
  have : (withComps m cs').mixingMats.mapM (evalMatrix ⟨p, t, x'⟩) = m.mixingMats.mapM (evalMatrix ⟨p, t, x⟩) := by
    show m.mixingMats.mapM _ = _
    apply mapM_option_congr
    intro mat hmat
    have h1 := List.all_eq_true.1 (List.all_eq_true.1 hpf.2 mat hmat)
    unfold evalMatrix
    apply mapM_option_congr
    intro row hrow
    have h2 := List.all_eq_true.1 (h1 row hrow)
    apply mapM_option_congr
    intro e he
    exact eval_posFree p t x x' hsum e (h2 e he)
  rw [this]

/-- **reordering the compartments** of a model that reads no compartment by position -/
theorem step_perm_comps (m : Model α) (cs' : List Comp) (b b' : Backend) (h : prepare m = .ok b)
    (h' : prepare (withComps m cs') = .ok b') (hs : sourcedOk m = true) (hu : foiAligned b = true)
    (hpf : posFreeModel m = true)
    (hnd : m.comps.Nodup) (hp : cs'.Perm m.comps) (p : List (String × α)) (t : α) (x : List α)
    (hx : x.length = m.comps.length) :
    step (withComps m cs') b' p t (relabel m cs' x) = (step m b p t x).map (relabelOut m cs') := by
  have hsum := sumL_relabel m cs' hnd hp (cleanV x) (by simpa [cleanV] using hx)
  exact step_perm_comps_core m _ cs' b b' h h' hs hu hnd hp p t x hx
    (weightsAt_posFree m cs' hpf p t _ _ hsum) (mixingMatrix_posFree m cs' hpf p t _ _ hsum) rfl

/-! ### the general case: positional reads follow their compartment -/

theorem newPos_lt (m : Model α) (cs' : List Comp) (hp : cs'.Perm m.comps) (i : Nat) :
    newPos m cs' i < cs'.length ↔ i < m.comps.length := by
  unfold newPos
  by_cases hi : i < m.comps.length
  · rw [List.getElem?_eq_getElem hi]
    obtain ⟨j, hj, hlt, _⟩ := compIdx_of_mem cs' m.comps[i] (hp.mem_iff.2 (List.getElem_mem hi))
    simp only [hj, Option.getD_some]
    exact ⟨fun _ => hi, fun _ => hlt⟩
  · rw [List.getElem?_eq_none (by omega)]
    simp only
    rw [hp.length_eq]

theorem relabel_getD_newPos (m : Model α) (cs' : List Comp) (hnd : m.comps.Nodup) (hp : cs'.Perm m.comps)
    (v : List α) (i : Nat) (hi : i < m.comps.length) :
    (relabel m cs' v).getD (newPos m cs' i) 0 = v.getD i 0 := by
  unfold newPos
  rw [List.getElem?_eq_getElem hi]
  obtain ⟨j, hj, hlt, _⟩ := compIdx_of_mem cs' m.comps[i] (hp.mem_iff.2 (List.getElem_mem hi))
  simp only [hj, Option.getD_some]
  rw [relabel_getD_compIdx m cs' v m.comps[i] j hj, compIdx_of_nodup m.comps hnd i hi]
  rfl

theorem prepare_permModel (m : Model α) (cs' : List Comp) :
    prepare (permModel m cs') = prepare (withComps m cs') := by
  let mm : Matrix (Expr α) → Matrix (Expr α) := fun mat => mat.map (fun row => row.map (reindex (newPos m cs')))
  have := prepare_map_flows ({ withComps m cs' with mixingMats := m.mixingMats.map mm })
    (reindexFlow (newPos m cs')) (fun _ => rfl) (fun _ => rfl) (fun _ => rfl)
  exact this

theorem weightsAt_permModel (m : Model α) (cs' : List Comp) (hnd : m.comps.Nodup) (hp : cs'.Perm m.comps)
    (p : List (String × α)) (t : α) (v : List α) (hv : v.length = m.comps.length) :
    weightsAt (permModel m cs') ⟨p, t, relabel m cs' v⟩ = weightsAt m ⟨p, t, v⟩ := by
  unfold weightsAt
  show (m.flows.map (reindexFlow (newPos m cs'))).mapM _ = _
  rw [List.mapM_map]
  apply mapM_option_congr
  intro f _
  simp only [Function.comp, realised_reindexFlow]
  exact eval_reindex p t v _ _ (sumL_relabel m cs' hnd hp v hv)
    (fun i => by rw [relabel_length, hv]; exact newPos_lt m cs' hp i)
    (fun i hi => relabel_getD_newPos m cs' hnd hp v i (hv ▸ hi)) _

theorem mixingMatrix_permModel (m : Model α) (cs' : List Comp) (hnd : m.comps.Nodup) (hp : cs'.Perm m.comps)
    (p : List (String × α)) (t : α) (v : List α) (hv : v.length = m.comps.length) :
    mixingMatrix (permModel m cs') ⟨p, t, relabel m cs' v⟩ = mixingMatrix m ⟨p, t, v⟩ := by
  unfold mixingMatrix
  have : (permModel m cs').mixingMats.mapM (evalMatrix ⟨p, t, relabel m cs' v⟩)
      = m.mixingMats.mapM (evalMatrix ⟨p, t, v⟩) := by
    show (m.mixingMats.map _).mapM _ = _
    rw [List.mapM_map]
    apply mapM_option_congr
    intro mat _
    simp only [Function.comp, evalMatrix, List.mapM_map]
    apply mapM_option_congr
    intro row _
    simp only [Function.comp, List.mapM_map]
    apply mapM_option_congr
    intro e _
    exact eval_reindex p t v _ _ (sumL_relabel m cs' hnd hp v hv)
      (fun i => by rw [relabel_length, hv]; exact newPos_lt m cs' hp i)
      (fun i hi => relabel_getD_newPos m cs' hnd hp v i (hv ▸ hi)) e
  rw [this]

/-- **reordering the compartments, general case**: positional reads follow their compartment -/
theorem step_permModel (m : Model α) (cs' : List Comp) (b b' : Backend) (h : prepare m = .ok b)
    (h' : prepare (permModel m cs') = .ok b') (hs : sourcedOk m = true) (hu : foiAligned b = true)
    (hnd : m.comps.Nodup) (hp : cs'.Perm m.comps) (p : List (String × α)) (t : α) (x : List α)
    (hx : x.length = m.comps.length) :
    step (permModel m cs') b' p t (relabel m cs' x) = (step m b p t x).map (relabelOut m cs') := by
  rw [prepare_permModel] at h'
  have hcx : (cleanV x).length = m.comps.length := by simpa [cleanV] using hx
  exact step_perm_comps_core m _ cs' b b' h h' hs hu hnd hp p t x hx
    (weightsAt_permModel m cs' hnd hp p t _ hcx) (mixingMatrix_permModel m cs' hnd hp p t _ hcx) rfl

/-- a model that reads no compartment by position through the *parameter or any adjustment* of a flow
(a syntactic condition slightly stronger than `posFreeModel`) is literally unchanged by the redirection -/
theorem reindexFlow_of_posFree (ρ : Nat → Nat) (f : Flow α) (hp : posFree f.param = true)
    (ha : f.adjs.all (fun a => posFree a.expr) = true) : reindexFlow ρ f = f := by
  unfold reindexFlow
  rw [reindex_of_posFree ρ f.param hp]
  have : f.adjs.map (reindexAdj ρ) = f.adjs := by
    rw [List.all_eq_true] at ha
    conv_rhs => rw [← List.map_id f.adjs]
    apply List.map_congr_left
    intro a hmem
    have := ha a hmem
    cases a with
    | mul e => simp only [reindexAdj, id]; rw [reindex_of_posFree ρ e this]
    | ovr e => simp only [reindexAdj, id]; rw [reindex_of_posFree ρ e this]
  rw [this]


/-- for a model none of whose flow parameters, adjustments and mixing entries reads a compartment by
position, `permModel` IS `withComps` -/
theorem permModel_eq_withComps (m : Model α) (cs' : List Comp)
    (hf : ∀ f ∈ m.flows, posFree f.param = true ∧ f.adjs.all (fun a => posFree a.expr) = true)
    (hm : ∀ mat ∈ m.mixingMats, ∀ row ∈ mat, ∀ e ∈ row, posFree e = true) :
    permModel m cs' = withComps m cs' := by
  have h1 : m.flows.map (reindexFlow (newPos m cs')) = m.flows := by
    conv_rhs => rw [← List.map_id m.flows]
    apply List.map_congr_left
    intro f hmem
    exact reindexFlow_of_posFree _ f (hf f hmem).1 (hf f hmem).2
  have h2 : m.mixingMats.map (fun mat => mat.map (fun row => row.map (reindex (newPos m cs')))) = m.mixingMats := by
    conv_rhs => rw [← List.map_id m.mixingMats]
    apply List.map_congr_left
    intro mat hmat
    conv_rhs => rw [id, ← List.map_id mat]
    apply List.map_congr_left
    intro row hrow
    conv_rhs => rw [id, ← List.map_id row]
    apply List.map_congr_left
    intro e he
    exact reindex_of_posFree _ e (hm mat hmat row hrow e he)
  unfold permModel withComps
  rw [h1, h2]

end stepsec

/-! ## 7. `prepare` succeeds for the reordered model -/
section prep
variable {α : Type}

/-- one strain of `_strain_category_indexers` (the body of the loop in `prepare`) -/
def scStep (catIdx : List (List Nat)) (ncats : Nat) (inf : List Nat) : Res (List (List Nat)) := do
  let flat := catIdx.flatten.filter (fun j => inf.contains j)
  let loc := flat.map (fun j => (indexOf? inf j).getD 0)
  let w := loc.length / ncats
  guardE (ncats * w == loc.length) "reshape: infectious compartments do not divide into categories"
  pure (reshapeRows loc ncats w)

theorem strainCatOf_eq (m : Model α) :
    strainCatOf m = (m.strains.map (strainInfectiousIdx m)).mapM (scStep (Proofs.catIdxOf m) m.mixingCats.length) := rfl

theorem scStep_ok_iff (catIdx : List (List Nat)) (n : Nat) (inf : List Nat) :
    (∃ o, scStep catIdx n inf = .ok o)
      ↔ (n * ((locOf catIdx inf).length / n) == (locOf catIdx inf).length) = true := by
  unfold scStep locOf
  simp only [bind, Except.bind]
  generalize (List.map (fun j => (indexOf? inf j).getD 0)
      (List.filter (fun j => inf.contains j) catIdx.flatten)) = L
  cases hc : (n * (L.length / n) == L.length) <;> simp [guardE, fail, pure, Except.pure]

theorem lookOf_ok_iff (m : Model α) (f : Flow α) :
    (∃ o, lookOf m f = .ok o) ↔ (indexOf? m.strains (strainOf f)).isSome = true := by
  unfold lookOf strainOf
  simp only []
  split
  · rename_i si heq
    exact ⟨fun _ => congrArg Option.isSome heq, fun _ => ⟨_, rfl⟩⟩
  · rename_i heq
    refine ⟨fun ⟨o, ho⟩ => (by cases ho), fun hsome => ?_⟩
    have hn : (indexOf? m.strains (strainOf f)).isSome = false := congrArg Option.isSome heq
    unfold strainOf at hn
    rw [hn] at hsome
    cases hsome

theorem guardE_ok_iff (c : Bool) (msg : String) : guardE c msg = .ok () ↔ c = true := by
  cases c <;> simp [guardE, fail, pure, Except.pure]

theorem rowGuard_eq (L : List (List Nat)) :
    L.all (fun r => r.length == (L.head?.map (·.length)).getD 0)
      = (L.map (·.length)).all (fun n => n == ((L.map (·.length)).head?).getD 0) := by
  rw [List.all_map, List.head?_map]
  rfl

theorem catIdx_lengths_perm_comps (m : Model α) (cs' : List Comp) (hp : cs'.Perm m.comps) :
    (Proofs.catIdxOf (withComps m cs')).map (·.length) = (Proofs.catIdxOf m).map (·.length) := by
  rw [AggregateMore.catIdxOf_eq, AggregateMore.catIdxOf_eq, List.map_map, List.map_map]
  apply List.map_congr_left
  intro cat _
  simp only [Function.comp, idxWhere_length]
  exact (hp.filter _).length_eq

/-- **`prepare` succeeds for a model iff it succeeds for the model with its compartments reordered**
(stated in the direction used; the relation `Perm` is symmetric) -/
theorem prepare_ok_perm_comps (m : Model α) (cs' : List Comp) (b : Backend) (h : prepare m = .ok b)
    (hp : cs'.Perm m.comps) : ∃ b', prepare (withComps m cs') = .ok b' := by
  have hb := backendFor_of_prepare m b h
  have htab := tablesFor_of_prepare m b h
  -- the individual checks of `prepare m`
  unfold prepare at h
  simp only [bind, Except.bind] at h
  split at h
  · contradiction
  split at h
  · contradiction
  split at h
  · contradiction
  rename_i _ _ hg1
  split at h
  · contradiction
  split at h
  · contradiction
  split at h
  · contradiction
  rename_i _ _ hg2
  clear h
  -- the same checks for the reordered model
  have hsrc' : ∃ v, m.flows.mapM (fun f => match f.src with
      | none => (pure (none : Option Nat) : Res (Option Nat))
      | some c => match compIdx cs' c with
        | some i => pure (some i)
        | none => fail "flow source is not a compartment of the model") = .ok v := by
    apply mapM_except_ok_of_all
    intro f hf
    cases hs : f.src with
    | none => exact ⟨none, rfl⟩
    | some c =>
      obtain ⟨j, hj, _⟩ := compIdx_of_mem cs' c (hp.mem_iff.2 (src_mem_comps hb f hf c hs))
      exact ⟨some j, by simp only [hj]; rfl⟩
  have hdst' : ∃ v, m.flows.mapM (fun f => match f.dst with
      | none => (pure (none : Option Nat) : Res (Option Nat))
      | some c => match compIdx cs' c with
        | some i => pure (some i)
        | none => fail "flow dest is not a compartment of the model") = .ok v := by
    apply mapM_except_ok_of_all
    intro f hf
    cases hs : f.dst with
    | none => exact ⟨none, rfl⟩
    | some c =>
      obtain ⟨j, hj, _⟩ := compIdx_of_mem cs' c (hp.mem_iff.2 (dst_mem_comps hb f hf c hs))
      exact ⟨some j, by simp only [hj]; rfl⟩
  have hg1' : guardE ((Proofs.catIdxOf (withComps m cs')).all
      (fun r => r.length == ((Proofs.catIdxOf (withComps m cs')).head?.map (·.length)).getD 0))
      "np.stack: mixing categories of unequal size" = .ok () := by
    rw [guardE_ok_iff, rowGuard_eq, catIdx_lengths_perm_comps m cs' hp, ← rowGuard_eq]
    exact (guardE_ok_iff _ _).1 hg1
  have hsc' : ∃ sc, strainCatOf (withComps m cs') = .ok sc := by
    rw [strainCatOf_eq]
    apply mapM_except_ok_of_all
    intro inf hinf
    obtain ⟨σ, hσ, rfl⟩ := List.mem_map.1 hinf
    have h0 := mapM_except_all_ok _ _ _ htab.strainCatIdx (strainInfectiousIdx m σ)
      (List.mem_map.2 ⟨σ, hσ, rfl⟩)
    have h1 := (scStep_ok_iff (Proofs.catIdxOf m) m.mixingCats.length (strainInfectiousIdx m σ)).1 h0
    apply (scStep_ok_iff _ _ _).2
    rw [length_locOf, rowLens_perm_comps m cs' hp, ← length_locOf]
    exact h1
  have hlk' : ∃ lk, (m.flows.filter (fun f => Generated.infectionKinds.contains f.kind)).mapM
      (lookOf (withComps m cs')) = .ok lk := by
    obtain ⟨lk, hlk, _⟩ := htab.lookups
    apply mapM_except_ok_of_all
    intro f hf
    simp only [infectionKinds_contains] at hf
    obtain ⟨o, ho⟩ := mapM_except_all_ok _ _ _ hlk f hf
    exact (lookOf_ok_iff (withComps m cs') f).2 ((lookOf_ok_iff m f).1 ⟨o, ho⟩)
  obtain ⟨srcV', hsrc'⟩ := hsrc'
  obtain ⟨dstV', hdst'⟩ := hdst'
  obtain ⟨sc', hsc'⟩ := hsc'
  obtain ⟨lk', hlk'⟩ := hlk'
  unfold prepare
  simp only [bind, Except.bind]
  split
  · rename_i e heq
    exact absurd (hsrc'.symm.trans heq) (by simp)
  split
  · rename_i e heq
    exact absurd (hdst'.symm.trans heq) (by simp)
  split
  · rename_i e heq
    exact absurd (hg1'.symm.trans heq) (by simp)
  split
  · rename_i e heq
    exact absurd (hsc'.symm.trans heq) (by simp)
  split
  · rename_i e heq
    exact absurd (hlk'.symm.trans heq) (by simp)
  split
  · rename_i e heq
    exact absurd (hg2.symm.trans heq) (by simp)
  exact ⟨_, rfl⟩

end prep

/-! ## 8. solvers under a linear relabelling -/
section solver
variable {α : Type} [Field α]
open Summer.Proofs.Solvers

theorem scanl_map_state_inv {S τ : Type} (g g' : S → τ → S) (φ : S → S) (Inv : S → Prop)
    (hInv : ∀ s t, Inv s → Inv (g s t)) (h : ∀ s t, Inv s → g' (φ s) t = φ (g s t))
    (s : S) (hs : Inv s) (l : List τ) : List.scanl g' (φ s) l = (List.scanl g s l).map φ := by
  induction l generalizing s with
  | nil => simp
  | cons a l ih =>
    simp only [List.scanl_cons, List.map_cons]
    rw [h s a hs, ih (g s a) (hInv s a hs)]

/-- `a + k·b` under a relabelling -/
theorem axpy_relabel {n : Nat} {σ : List α → List α} (hσ : LinRelabel n σ) (k : α) (a b : List α)
    (ha : a.length = n) (hb : b.length = n) :
    σ (vadd a (vscale k b)) = vadd (σ a) (vscale k (σ b)) ∧ (vadd a (vscale k b)).length = n := by
  refine ⟨?_, by simp [ha, hb]⟩
  rw [hσ.add a _ ha (by simp [hb]), hσ.smul]

theorem eulerStep_relabel {n : Nat} {σ : List α → List α} (hσ : LinRelabel n σ) (f f' : List α → α → List α)
    (hf : ∀ y t, y.length = n → (f y t).length = n) (h : ∀ y t, y.length = n → f' (σ y) t = σ (f y t))
    (hs : α) (y : List α) (hy : y.length = n) (t : α) :
    eulerStep f' hs (σ y) t = σ (eulerStep f hs y t) ∧ (eulerStep f hs y t).length = n := by
  unfold eulerStep
  obtain ⟨h1, h2⟩ := axpy_relabel hσ hs y (f y t) hy (hf y t hy)
  exact ⟨by rw [h1, h y t hy], h2⟩

theorem rk4Step_relabel {n : Nat} {σ : List α → List α} (hσ : LinRelabel n σ) (f f' : List α → α → List α)
    (hf : ∀ y t, y.length = n → (f y t).length = n) (h : ∀ y t, y.length = n → f' (σ y) t = σ (f y t))
    (hs : α) (y : List α) (hy : y.length = n) (t : α) :
    rk4Step f' hs (σ y) t = σ (rk4Step f hs y t) ∧ (rk4Step f hs y t).length = n := by
  rw [rk4Step_classical, rk4Step_classical]
  simp only []
  have l1 := hf y t hy
  obtain ⟨a2, b2⟩ := axpy_relabel hσ (hs / 2) y (f y t) hy l1
  have l2 := hf _ (t + hs / 2) b2
  obtain ⟨a3, b3⟩ := axpy_relabel hσ (hs / 2) y _ hy l2
  have l3 := hf _ (t + hs / 2) b3
  obtain ⟨a4, b4⟩ := axpy_relabel hσ hs y _ hy l3
  have l4 := hf _ (t + hs) b4
  obtain ⟨c1, d1⟩ := axpy_relabel hσ 2 (f y t) _ l1 l2
  obtain ⟨c2, d2⟩ := axpy_relabel hσ 2 _ _ d1 l3
  have d3 : (vadd (vadd (vadd (f y t) (vscale 2 (f (vadd y (vscale (hs / 2) (f y t))) (t + hs / 2))))
      (vscale 2 (f (vadd y (vscale (hs / 2) (f (vadd y (vscale (hs / 2) (f y t))) (t + hs / 2)))) (t + hs / 2))))
      (f (vadd y (vscale hs (f (vadd y (vscale (hs / 2) (f (vadd y (vscale (hs / 2) (f y t))) (t + hs / 2))))
        (t + hs / 2)))) (t + hs))).length = n := by simp [d2, l4]
  obtain ⟨c4, d4⟩ := axpy_relabel hσ (hs / 6) y _ hy d3
  refine ⟨?_, d4⟩
  rw [c4, hσ.add _ _ d2 l4, c2, c1, h y t hy, ← a2, h _ _ b2, ← a3, h _ _ b3, ← a4, h _ _ b4]

/-- **Euler under a relabelling**: if `f' (σ y) t = σ (f y t)` on vectors of length `n`, the rows of the
trajectory from `σ y0` under `f'` are the relabelled rows of the trajectory from `y0` under `f` -/
theorem euler_relabel {n : Nat} {σ : List α → List α} (hσ : LinRelabel n σ) (f f' : List α → α → List α)
    (hf : ∀ y t, y.length = n → (f y t).length = n) (h : ∀ y t, y.length = n → f' (σ y) t = σ (f y t))
    (y0 : List α) (hy0 : y0.length = n) (times : List α) :
    euler f' (σ y0) times = (euler f y0 times).map σ := by
  rw [euler_eq_scanl, euler_eq_scanl]
  exact scanl_map_state_inv _ _ σ (fun y => y.length = n)
    (fun s t hs => (eulerStep_relabel hσ f f' hf h _ s hs t).2)
    (fun s t hs => (eulerStep_relabel hσ f f' hf h _ s hs t).1) y0 hy0 _

theorem rk4_relabel {n : Nat} {σ : List α → List α} (hσ : LinRelabel n σ) (f f' : List α → α → List α)
    (hf : ∀ y t, y.length = n → (f y t).length = n) (h : ∀ y t, y.length = n → f' (σ y) t = σ (f y t))
    (y0 : List α) (hy0 : y0.length = n) (times : List α) :
    rk4 f' (σ y0) times = (rk4 f y0 times).map σ := by
  rw [rk4_eq_scanl, rk4_eq_scanl]
  exact scanl_map_state_inv _ _ σ (fun y => y.length = n)
    (fun s t hs => (rk4Step_relabel hσ f f' hf h _ s hs t).2)
    (fun s t hs => (rk4Step_relabel hσ f f' hf h _ s hs t).1) y0 hy0 _

/-- the compartment relabelling is a linear relabelling of the vectors with one entry per compartment -/
theorem linRelabel_relabel (m : Model α) (cs' : List Comp) (hl : cs'.length = m.comps.length) :
    LinRelabel m.comps.length (relabel m cs') := by
  refine ⟨fun a _ => by rw [relabel_length, hl], fun a b ha hb => ?_, fun k a => ?_⟩
  · apply List.ext_getElem
    · simp [relabel_length]
    · intro j h1 h2
      simp only [relabel, getElem_vadd, List.getElem_map]
      exact getD_vadd a b (by rw [ha, hb]) _
  · apply List.ext_getElem
    · simp [relabel_length]
    · intro j h1 h2
      simp only [relabel, getElem_vscale, List.getElem_map]
      exact getD_vscale k a _

end solver

/-! ## 10. Dormand–Prince under a linear relabelling -/
section ode
variable {α : Type} [Field α]
open Summer.Proofs.Solvers
variable {n : Nat} {σ : List α → List α}

theorem relabel_zero (hσ : LinRelabel n σ) : σ (List.replicate n 0) = List.replicate n 0 := by
  have h := hσ.smul 0 (List.replicate n (0 : α))
  rw [vscale_zero_eq, vscale_zero_eq, List.length_replicate, hσ.len _ (by simp)] at h
  exact h

theorem lincomb_foldl_relabel (hσ : LinRelabel n σ) (zs : List (α × List α)) (acc : List α)
    (hacc : acc.length = n) (hk : ∀ z ∈ zs, z.2.length = n) :
    σ (zs.foldl (fun acc ck => vadd acc (vscale ck.1 ck.2)) acc)
      = (zs.map (fun z => (z.1, σ z.2))).foldl (fun acc ck => vadd acc (vscale ck.1 ck.2)) (σ acc) := by
  induction zs generalizing acc with
  | nil => rfl
  | cons z zs ih =>
    simp only [List.foldl_cons, List.map_cons]
    obtain ⟨h1, h2⟩ := axpy_relabel hσ z.1 acc z.2 hacc (hk z (by simp))
    rw [ih _ h2 (fun z' hz' => hk z' (by simp [hz'])), h1]

theorem lincomb_relabel (hσ : LinRelabel n σ) (c : List α) (ks : List (List α)) (hk : ∀ v ∈ ks, v.length = n) :
    lincomb n c (ks.map σ) = σ (lincomb n c ks) := by
  unfold lincomb
  rw [lincomb_foldl_relabel hσ _ _ (by simp) (fun z hz => hk _ (mem_zip_snd hz)), relabel_zero hσ,
    List.zip_map_right]
  rfl

theorem rkStages_relabel (hσ : LinRelabel n σ) (tb : Tableau α) (f f' : List α → α → List α)
    (hf : ∀ y t, y.length = n → (f y t).length = n) (h : ∀ y t, y.length = n → f' (σ y) t = σ (f y t))
    (y0 f0 : List α) (hy0 : y0.length = n) (hf0 : f0.length = n) (t0 dt : α) :
    rkStages tb f' (σ y0) (σ f0) t0 dt = (rkStages tb f y0 f0 t0 dt).map σ := by
  unfold rkStages
  rw [hσ.len y0 hy0, hy0]
  have key : ∀ (l : List Nat) (ks : List (List α)), (∀ v ∈ ks, v.length = n) →
      l.foldl (fun (ks : List (List α)) i =>
        ks ++ [f' (vadd (σ y0) (vscale dt (lincomb n (tb.beta.getD i []) ks)))
          (t0 + dt * tb.alpha.getD i 0)]) (ks.map σ)
      = (l.foldl (fun (ks : List (List α)) i =>
        ks ++ [f (vadd y0 (vscale dt (lincomb n (tb.beta.getD i []) ks)))
          (t0 + dt * tb.alpha.getD i 0)]) ks).map σ := by
    intro l
    induction l with
    | nil => intro ks _; rfl
    | cons i l ih =>
      intro ks hks
      simp only [List.foldl_cons]
      have hL := length_lincomb n (tb.beta.getD i []) ks hks
      obtain ⟨e1, e2⟩ := axpy_relabel hσ dt y0 _ hy0 hL
      rw [lincomb_relabel hσ _ ks hks, ← e1, h _ _ e2, ← ih]
      · simp
      · intro v hv
        rcases List.mem_append.1 hv with hv | hv
        · exact hks v hv
        · rw [List.mem_singleton] at hv
          rw [hv]; exact hf _ _ e2
  have := key (List.range 6) [f0] (by simpa using hf0)
  simpa using this

theorem rkStep_relabel (hσ : LinRelabel n σ) (tb : Tableau α) (f f' : List α → α → List α)
    (hf : ∀ y t, y.length = n → (f y t).length = n) (h : ∀ y t, y.length = n → f' (σ y) t = σ (f y t))
    (y0 f0 : List α) (hy0 : y0.length = n) (hf0 : f0.length = n) (t0 dt : α) :
    rkStep tb f' (σ y0) (σ f0) t0 dt
      = (σ (rkStep tb f y0 f0 t0 dt).1, σ (rkStep tb f y0 f0 t0 dt).2.1,
         σ (rkStep tb f y0 f0 t0 dt).2.2.1, (rkStep tb f y0 f0 t0 dt).2.2.2.map σ) := by
  obtain ⟨_, _, _, hst, hlen, _, _⟩ := rkStep_shape tb n hf y0 f0 hy0 hf0 t0 dt
  rw [rkStep_eq] at hst hlen
  simp only at hst hlen
  rw [rkStep_eq, rkStep_eq, rkStages_relabel hσ tb f f' hf h y0 f0 hy0 hf0, hσ.len y0 hy0, hy0,
    lincomb_relabel hσ _ _ hst, lincomb_relabel hσ _ _ hst]
  have h6 : ((rkStages tb f y0 f0 t0 dt).map σ).getD 6 [] = σ ((rkStages tb f y0 f0 t0 dt).getD 6 []) := by
    have : 6 < (rkStages tb f y0 f0 t0 dt).length := by omega
    simp [List.getD_eq_getElem?_getD, this]
  have hl1 := length_lincomb n tb.cSol _ hst
  rw [h6, ← hσ.smul, ← hσ.smul, ← hσ.add _ _ (by simp [hl1]) hy0]

theorem interpFit_relabel (hσ : LinRelabel n σ) (tb : Tableau α) (y0 y1 : List α) (ks : List (List α)) (dt : α)
    (hy0 : y0.length = n) (hy1 : y1.length = n) (hks : ∀ v ∈ ks, v.length = n) (h7 : ks.length = 7) :
    interpFit tb (σ y0) (σ y1) (ks.map σ) dt = (interpFit tb y0 y1 ks dt).map σ := by
  unfold interpFit
  have g0 : (ks.map σ).getD 0 [] = σ (ks.getD 0 []) := by
    have : 0 < ks.length := by omega
    simp [List.getD_eq_getElem?_getD, this]
  have g6 : (ks.map σ).getD 6 [] = σ (ks.getD 6 []) := by
    have : 6 < ks.length := by omega
    simp [List.getD_eq_getElem?_getD, this]
  have l0 : (ks.getD 0 []).length = n := by
    have : 0 < ks.length := by omega
    rw [List.getD_eq_getElem?_getD, List.getElem?_eq_getElem this]
    exact hks _ (List.getElem_mem _)
  have l6 : (ks.getD 6 []).length = n := by
    have : 6 < ks.length := by omega
    rw [List.getD_eq_getElem?_getD, List.getElem?_eq_getElem this]
    exact hks _ (List.getElem_mem _)
  have hm := length_lincomb n tb.cMid ks hks
  obtain ⟨_, e2⟩ := axpy_relabel hσ dt y0 _ hy0 hm
  have e1 : σ (vadd y0 (vscale dt (lincomb n tb.cMid ks))) = vadd (σ y0) (σ (vscale dt (lincomb n tb.cMid ks))) :=
    hσ.add _ _ hy0 (by simp [hm])
  simp only [hσ.len y0 hy0, hy0, g0, g6, lincomb_relabel hσ _ ks hks, ← hσ.smul, ← e1, List.map_map]
  apply List.map_congr_left
  intro row _
  simp only [Function.comp]
  have := lincomb_relabel hσ row [vscale dt (ks.getD 0 []), vscale dt (ks.getD 6 []), y0, y1,
      vadd y0 (vscale dt (lincomb n tb.cMid ks))] (by
    intro v hv
    simp only [List.mem_cons, List.not_mem_nil, or_false] at hv
    rcases hv with rfl | rfl | rfl | rfl | rfl
    · rw [length_vscale]; exact l0
    · rw [length_vscale]; exact l6
    · exact hy0
    · exact hy1
    · exact e2)
  exact this

theorem polyval_relabel (hσ : LinRelabel n σ) (c : List α) (cs : List (List α)) (x : α)
    (hc : c.length = n) (hcs : ∀ v ∈ cs, v.length = n) :
    polyval ((c :: cs).map σ) x = σ (polyval (c :: cs) x) := by
  simp only [List.map_cons, polyval, List.foldl_map]
  induction cs generalizing c with
  | nil => rfl
  | cons c' cs ih =>
    simp only [List.foldl_cons]
    have hc' := hcs c' (by simp)
    rw [← hσ.smul, ← hσ.add _ _ (by simp [hc]) hc']
    exact ih _ (by simp [hc, hc']) (fun v hv => hcs v (by simp [hv]))

/-- every vector of the stepping state has length `n`, and there is a dense-output polynomial -/
def OdeLen (n : Nat) (s : OdeState α) : Prop :=
  s.y.length = n ∧ s.f.length = n ∧ (∀ v ∈ s.coeff, v.length = n) ∧ s.coeff ≠ []

theorem stepState_relabel (hσ : LinRelabel n σ) (tb : Tableau α) (hfit : tb.fitRows ≠ []) (ctl : Control α)
    (f f' : List α → α → List α)
    (hf : ∀ y t, y.length = n → (f y t).length = n) (h : ∀ y t, y.length = n → f' (σ y) t = σ (f y t))
    (hctl : RelabelInvariantCtl ctl n σ) (s : OdeState α) (hs : OdeLen n s) :
    stepState tb ctl f' (relabelState σ s) = relabelState σ (stepState tb ctl f s) ∧
      OdeLen n (stepState tb ctl f s) := by
  obtain ⟨hy, hff, hco, hne⟩ := hs
  obtain ⟨r1, r2, r3, r4, r5, _, _⟩ := rkStep_shape tb n hf s.y s.f hy hff s.t s.dt
  unfold stepState
  simp only [relabelState, rkStep_relabel hσ tb f f' hf h s.y s.f hy hff, hctl _ _ _ r3 hy r1,
    interpFit_relabel hσ tb s.y _ _ s.dt hy r1 r4 r5]
  by_cases hacc : ctl.accept (ctl.errorRatio (rkStep tb f s.y s.f s.t s.dt).2.2.1 s.y
      (rkStep tb f s.y s.f s.t s.dt).1) = true
  · simp only [hacc, if_true, true_and]
    refine ⟨r1, r2, ?_, ?_⟩
    · intro v hv
      unfold interpFit at hv
      rw [hy] at hv
      obtain ⟨row, _, rfl⟩ := List.mem_map.1 hv
      apply length_lincomb
      intro w hw
      have l0 : ((rkStep tb f s.y s.f s.t s.dt).2.2.2.getD 0 []).length = n := by
        have : 0 < (rkStep tb f s.y s.f s.t s.dt).2.2.2.length := by omega
        rw [List.getD_eq_getElem?_getD, List.getElem?_eq_getElem this]
        exact r4 _ (List.getElem_mem _)
      have l6 : ((rkStep tb f s.y s.f s.t s.dt).2.2.2.getD 6 []).length = n := by
        have : 6 < (rkStep tb f s.y s.f s.t s.dt).2.2.2.length := by omega
        rw [List.getD_eq_getElem?_getD, List.getElem?_eq_getElem this]
        exact r4 _ (List.getElem_mem _)
      have lm := length_lincomb n tb.cMid _ r4
      simp only [List.mem_cons, List.not_mem_nil, or_false] at hw
      rcases hw with rfl | rfl | rfl | rfl | rfl
      · rw [length_vscale]; exact l0
      · rw [length_vscale]; exact l6
      · exact hy
      · exact r1
      · rw [length_vadd, length_vscale, hy, lm]; exact Nat.min_self n
    · unfold interpFit
      simpa using hfit
  · simp only [hacc, Bool.false_eq_true, if_false, true_and]
    exact ⟨hy, hff, hco, hne⟩

theorem advance_relabel (hσ : LinRelabel n σ) (tb : Tableau α) (hfit : tb.fitRows ≠ []) (ctl : Control α)
    (f f' : List α → α → List α)
    (hf : ∀ y t, y.length = n → (f y t).length = n) (h : ∀ y t, y.length = n → f' (σ y) t = σ (f y t))
    (hctl : RelabelInvariantCtl ctl n σ) (target : α) :
    ∀ (fuel : Nat) (s : OdeState α), OdeLen n s →
      advance tb ctl f' target fuel (relabelState σ s) = relabelState σ (advance tb ctl f target fuel s) ∧
        OdeLen n (advance tb ctl f target fuel s)
  | 0, _, hs => ⟨rfl, hs⟩
  | fuel + 1, s, hs => by
      obtain ⟨e1, e2⟩ := stepState_relabel hσ tb hfit ctl f f' hf h hctl s hs
      rw [advance_succ, advance_succ, e1]
      have hc : contCond ctl target (relabelState σ s) = contCond ctl target s := rfl
      rw [hc]
      split
      · exact advance_relabel hσ tb hfit ctl f f' hf h hctl target fuel _ e2
      · exact ⟨rfl, hs⟩

theorem odeRow_relabel (hσ : LinRelabel n σ) (s : OdeState α) (hs : OdeLen n s) (target : α) :
    odeRow (relabelState σ s) target = σ (odeRow s target) := by
  obtain ⟨_, _, hco, hne⟩ := hs
  unfold odeRow
  simp only [relabelState]
  cases hcs : s.coeff with
  | nil => exact absurd hcs hne
  | cons c cs =>
    rw [hcs] at hco
    exact polyval_relabel hσ c cs _ (hco c (by simp)) (fun v hv => hco v (by simp [hv]))

theorem scanOut_relabel (hσ : LinRelabel n σ) (tb : Tableau α) (hfit : tb.fitRows ≠ []) (ctl : Control α)
    (f f' : List α → α → List α)
    (hf : ∀ y t, y.length = n → (f y t).length = n) (h : ∀ y t, y.length = n → f' (σ y) t = σ (f y t))
    (hctl : RelabelInvariantCtl ctl n σ) (fuel : Nat) :
    ∀ (l : List α) (s : OdeState α), OdeLen n s →
      scanOut (fun s target => advance tb ctl f' target fuel s) odeRow (relabelState σ s) l
        = (scanOut (fun s target => advance tb ctl f target fuel s) odeRow s l).map σ
  | [], _, _ => rfl
  | T :: l, s, hs => by
      obtain ⟨e1, e2⟩ := advance_relabel hσ tb hfit ctl f f' hf h hctl T fuel s hs
      simp only [scanOut, List.map_cons, e1, odeRow_relabel hσ _ e2,
        scanOut_relabel hσ tb hfit ctl f f' hf h hctl fuel l _ e2]

/-- **Dormand–Prince under a relabelling**: for a step controller whose error ratio is invariant under
`σ`, the dense-output rows from `σ y0` under `f'` are the relabelled rows from `y0` under `f` -/
theorem odeint_relabel (hσ : LinRelabel n σ) (tb : Tableau α) (hfit : tb.fitRows ≠ []) (ctl : Control α)
    (f f' : List α → α → List α)
    (hf : ∀ y t, y.length = n → (f y t).length = n) (h : ∀ y t, y.length = n → f' (σ y) t = σ (f y t))
    (hctl : RelabelInvariantCtl ctl n σ) (fuel : Nat) (dt0 : α) (y0 : List α) (hy0 : y0.length = n)
    (ts : List α) :
    odeint tb ctl f' fuel dt0 (σ y0) ts = (odeint tb ctl f fuel dt0 y0 ts).map σ := by
  rw [odeint_eq', odeint_eq']
  have h0 : odeInit f' dt0 (σ y0) (ts.getD 0 0) = relabelState σ (odeInit f dt0 y0 (ts.getD 0 0)) := by
    simp only [odeInit, relabelState, h y0 _ hy0, List.map_replicate]
  have hlen : OdeLen n (odeInit f dt0 y0 (ts.getD 0 0)) := by
    refine ⟨hy0, hf _ _ hy0, ?_, by simp [odeInit]⟩
    intro v hv
    simp only [odeInit, List.mem_replicate] at hv
    rw [hv.2]; exact hy0
  rw [h0, scanOut_relabel hσ tb hfit ctl f f' hf h hctl fuel _ _ hlen]
  rfl

end ode

/-! ## 9. the vector field and the trajectories -/
section traj
variable {α : Type} [Field α] [LinearOrder α] [IsStrictOrderedRing α]
open Summer.Proofs.Solvers

theorem field_length {m : Model α} {b : Backend} (hb : BackendFor m b) (p : List (String × α))
    (x : List α) (t : α) : (field m b p x t).length = m.comps.length := by
  unfold field
  rw [rhs_eq]
  cases weightsAt m ⟨p, t, cleanV x⟩ with
  | none => simp
  | some w =>
    cases mixingMatrix m ⟨p, t, cleanV x⟩ with
    | none => simp
    | some mix =>
      cases compInfectiousness m p with
      | none => simp
      | some ci => simp [ratesOf, compRates_length hb]

theorem relabel_replicate_zero (m : Model α) (cs' : List Comp) (n : Nat) :
    relabel m cs' (List.replicate n (0 : α)) = List.replicate cs'.length 0 := by
  unfold relabel
  rw [List.eq_replicate_iff]
  refine ⟨by simp, ?_⟩
  intro v hv
  obtain ⟨c, _, rfl⟩ := List.mem_map.1 hv
  exact getD_replicate_zero n _

/-- the vector field of a model `m'` with compartment list of the same length whose `rhs` is the
relabelled `rhs` of `m` -/
theorem field_of_rhs {m m' : Model α} {cs' : List Comp} {b b' : Backend} {p : List (String × α)}
    (hl : m'.comps.length = cs'.length) (y : List α) (t : α)
    (hrhs : rhs m' b' p (relabel m cs' y) t = (rhs m b p y t).map (relabel m cs')) :
    field m' b' p (relabel m cs' y) t = relabel m cs' (field m b p y t) := by
  unfold field
  rw [hrhs]
  cases rhs m b p y t with
  | none => simp only [Option.map_none, Option.getD_none, relabel_replicate_zero, hl]
  | some r => rfl

end traj

end Summer.Proofs.InvPermComps
