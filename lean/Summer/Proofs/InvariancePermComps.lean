import Summer.Proofs.Invariance
import Summer.Proofs.AggregateMore
import Summer.Spec.InvariancePermComps
/-
Helper lemmas for property C15, compartment reordering through the whole right-hand side
(`Summer/Props/C15PermComps.lean`).
-/
set_option linter.unusedSectionVars false
set_option linter.unusedVariables false

namespace Summer.Proofs.InvPermComps
open Summer Summer.Run Summer.Spec Summer.Solvers Summer.Spec.Solvers Summer.Proofs
open Summer.Proofs.Invariance Summer.Spec.AggregateMore Summer.Spec.PermComps
open Summer.Proofs.AggregateMore (catPred catNo perStrain_multi catOf_eq catOf_none contains_idxWhere)

/-! ## 1. vectors as functions of the compartment -/
section valOf
variable {α : Type} [Zero α]

/-- the entry of a per-compartment vector of `m` belonging to compartment `c` -/
def valOf (m : Model α) (v : List α) (c : Comp) : α := v.getD ((compIdx m.comps c).getD 0) 0

theorem relabel_eq_map [One α] [Add α] [Sub α] [Mul α] [Div α] [LT α] [DecidableLT α]
    (m : Model α) (cs' : List Comp) (v : List α) : relabel m cs' v = cs'.map (valOf m v) := rfl

end valOf

section idx
variable {β : Type}

/-- the positions selected by `P` that are also selected by `Q` -/
theorem filter_idxWhere_contains (comps : List Comp) (P Q : Comp → Bool) :
    (idxWhere comps P).filter (fun j => (idxWhere comps Q).contains j)
      = idxWhere comps (fun c => P c && Q c) := by
  unfold idxWhere
  rw [List.filter_map, List.filter_filter]
  congr 1
  apply List.filter_congr
  intro x hx
  have hx' := List.mem_zipIdx_iff_getElem?.1 hx
  obtain ⟨hlt, hget⟩ := List.getElem?_eq_some_iff.1 hx'
  have := contains_idxWhere comps Q x.2 hlt
  unfold idxWhere at this
  simp only [Function.comp]
  rw [this, hget, Bool.and_comm]

end idx

end Summer.Proofs.InvPermComps
