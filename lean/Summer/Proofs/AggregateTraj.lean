import Summer.Proofs.AggregateRates
import Summer.Model.Solvers
/-
Helper lemmas for property C03, part 8: aggregation commutes with the explicit Euler scheme as long as
the stratified trajectory stays in the region where aggregation commutes with the vector field.
-/
open Summer Summer.Build Summer.Run Summer.Generated Summer.Spec Summer.Solvers
set_option linter.unusedSectionVars false

namespace Summer.Proofs
section
variable {α : Type} [Field α]

theorem sumL_vadd_vscale (h : α) : ∀ (a b : List α), a.length = b.length →
    sumL (vadd a (vscale h b)) = sumL a + h * sumL b
  | [], [], _ => by simp [vadd, vscale, sumL]
  | [], _ :: _, hl => by simp at hl
  | _ :: _, [], hl => by simp at hl
  | x :: a, y :: b, hl => by
      have ih := sumL_vadd_vscale h a b (by simpa using hl)
      simp only [vadd, vscale, List.map_cons, List.zipWith_cons_cons, sumL] at ih ⊢
      rw [ih]; ring

theorem vadd_vscale_take (h : α) (n : Nat) (a b : List α) :
    (vadd a (vscale h b)).take n = vadd (a.take n) (vscale h (b.take n)) := by
  simp [vadd, vscale, List.take_zipWith, List.map_take]

theorem vadd_vscale_drop (h : α) (n : Nat) (a b : List α) :
    (vadd a (vscale h b)).drop n = vadd (a.drop n) (vscale h (b.drop n)) := by
  simp [vadd, vscale, List.drop_zipWith, List.map_drop]

/-- aggregation is linear -/
theorem aggBy_linear (p : Comp → Bool) (n : Nat) (h : α) (comps : List Comp) :
    ∀ (y k : List α), y.length = k.length →
      aggBy p n comps (vadd y (vscale h k)) = vadd (aggBy p n comps y) (vscale h (aggBy p n comps k)) := by
  induction comps with
  | nil => intro y k _; simp [aggBy, vadd, vscale]
  | cons c cs ih =>
    intro y k hl
    simp only [aggBy]
    by_cases hp : p c = true
    · simp only [hp, if_true]
      rw [vadd_vscale_take, vadd_vscale_drop, ih _ _ (by simp [hl]),
        sumL_vadd_vscale h _ _ (by simp [hl])]
      simp [vadd, vscale]
    · simp only [hp, Bool.false_eq_true, if_false]
      rw [vadd_vscale_drop, ih _ _ (by simp [hl])]
      cases y with
      | nil =>
        cases k with
        | nil => simp [vadd, vscale]
        | cons _ _ => simp at hl
      | cons a y' =>
        cases k with
        | nil => simp at hl
        | cons b k' => simp [vadd, vscale]

/-- the Euler trajectory as a recursion over the step times -/
def eulerTraj (f : List α → α → List α) (h : α) : List α → List α → List (List α)
  | y, [] => [y]
  | y, t :: ts => y :: eulerTraj f h (eulerStep f h y t) ts

theorem euler_foldl_eq (f : List α → α → List α) (h : α) (steps : List α) :
    ∀ (pre : List (List α)) (y : List α),
      (steps.foldl (fun (acc : List (List α) × List α) t =>
        let y' := eulerStep f h acc.2 t
        (acc.1 ++ [y'], y')) (pre ++ [y], y)).1 = pre ++ eulerTraj f h y steps := by
  induction steps with
  | nil => intro pre y; rfl
  | cons t ts ih =>
    intro pre y
    simp only [List.foldl_cons, eulerTraj]
    rw [ih (pre ++ [y]) (eulerStep f h y t)]
    simp

theorem euler_eq_traj (f : List α → α → List α) (y0 : List α) (times : List α) :
    euler f y0 times = eulerTraj f (times.getD 1 0 - times.getD 0 0) y0 (times.take (times.length - 1)) := by
  unfold euler
  exact euler_foldl_eq f _ _ [] y0

/-- if a map `A` is linear on vectors of equal length and intertwines the vector fields on a set `Q`
containing the whole primed trajectory, it maps the primed Euler trajectory to the unprimed one -/
theorem eulerTraj_map (A : List α → List α) (f f' : List α → α → List α) (h : α) (Q : List α → Prop)
    (hlin : ∀ y k, y.length = k.length → A (vadd y (vscale h k)) = vadd (A y) (vscale h (A k)))
    (hf : ∀ y t, Q y → (f' y t).length = y.length ∧ A (f' y t) = f (A y) t) (steps : List α) :
    ∀ y, (∀ z ∈ eulerTraj f' h y steps, Q z) → (eulerTraj f' h y steps).map A = eulerTraj f h (A y) steps := by
  induction steps with
  | nil => intro y _; rfl
  | cons t ts ih =>
    intro y hQ
    simp only [eulerTraj, List.map_cons]
    have hy : Q y := hQ y (by simp [eulerTraj])
    obtain ⟨hlen, hA⟩ := hf y t hy
    rw [ih _ (fun z hz => hQ z (by simp [eulerTraj, hz]))]
    congr 2
    unfold eulerStep
    rw [hlin _ _ hlen.symm, hA]
end
end Summer.Proofs
