import Summer.Spec.Structure
/-
Helper lemmas for C13 / C12 / C04 (structure).  Mathlib-free.
-/
namespace Summer.Proofs.Structure
open Summer Summer.Build Summer.Generated Summer.Spec

/-! ### the derived `BEq` instances are lawful -/

theorem comp_beq_iff (a b : Comp) : (a == b) = true ↔ a = b := by
  cases a with | mk n s => cases b with | mk n' s' =>
  show (n == n' && (s == s')) = true ↔ _
  simp

instance : LawfulBEq Comp where
  eq_of_beq {a b} h := (comp_beq_iff a b).1 h
  rfl {a} := (comp_beq_iff a a).2 rfl

instance : LawfulBEq FlowKind where
  eq_of_beq {a b} h := by cases a <;> cases b <;> first | rfl | cases h
  rfl {a} := by cases a <;> rfl

instance : LawfulBEq StratKind where
  eq_of_beq {a b} h := by cases a <;> cases b <;> first | rfl | cases h
  rfl {a} := by cases a <;> rfl

/-! ### dictionaries -/

section dict
variable {β : Type}

theorem alookup_nil (k : String) : alookup ([] : List (String × β)) k = none := rfl

theorem alookup_cons (p : String × β) (l : List (String × β)) (k : String) :
    alookup (p :: l) k = if p.1 = k then some p.2 else alookup l k := by
  unfold alookup
  by_cases h : p.1 = k
  · simp [h]
  · simp [h]

theorem mem_of_alookup {l : List (String × β)} {k : String} {v : β} (h : alookup l k = some v) :
    (k, v) ∈ l := by
  induction l with
  | nil => simp [alookup_nil] at h
  | cons p t ih =>
    rw [alookup_cons] at h
    by_cases hp : p.1 = k
    · simp only [hp, if_true, Option.some.injEq] at h
      have : p = (k, v) := by cases p; simp_all
      simp [this]
    · simp only [hp, if_false] at h
      exact List.mem_cons_of_mem _ (ih h)

theorem keysNodup_cons {p : String × β} {l : List (String × β)} :
    KeysNodup (p :: l) ↔ ¬ HasKey l p.1 ∧ KeysNodup l := by
  simp [KeysNodup, HasKey, List.nodup_cons]

theorem hasKey_of_mem {l : List (String × β)} {k : String} {v : β} (h : (k, v) ∈ l) : HasKey l k :=
  List.mem_map.2 ⟨(k, v), h, rfl⟩

theorem alookup_of_mem {l : List (String × β)} (hn : KeysNodup l) {k : String} {v : β} (h : (k, v) ∈ l) :
    alookup l k = some v := by
  induction l with
  | nil => cases h
  | cons p t ih =>
    rw [alookup_cons]
    rw [keysNodup_cons] at hn
    rcases List.mem_cons.1 h with h | h
    · subst h; simp
    · have : p.1 ≠ k := fun e => hn.1 (e ▸ hasKey_of_mem h)
      simp [this, ih hn.2 h]

/-- with distinct keys, lookup and item membership coincide -/
theorem alookup_eq_some_iff {l : List (String × β)} (hn : KeysNodup l) {k : String} {v : β} :
    alookup l k = some v ↔ (k, v) ∈ l := ⟨mem_of_alookup, alookup_of_mem hn⟩

theorem alookup_eq_none_iff {l : List (String × β)} {k : String} : alookup l k = none ↔ ¬ HasKey l k := by
  induction l with
  | nil => simp [alookup_nil, HasKey]
  | cons p t ih =>
    rw [alookup_cons]
    by_cases hp : p.1 = k
    · simp [hp, HasKey]
    · have hp' : ¬ k = p.1 := fun e => hp e.symm
      simp only [hp, if_false, ih]; simp [HasKey, hp']

end dict

/-! ### C13 part 1: the three forms of "strata contain the filter" -/

theorem strataContains_iff (strata flt : Strata) :
    strataContains strata flt = true ↔ ∀ kv ∈ flt, kv ∈ strata := by
  simp [strataContains, List.all_eq_true]

theorem lookupAll_iff {strata : Strata} (hn : KeysNodup strata) (flt : Strata) :
    flt.all (fun kv => alookup strata kv.1 == some kv.2) = true ↔ ∀ kv ∈ flt, kv ∈ strata := by
  simp only [List.all_eq_true, beq_iff_eq]
  constructor
  · intro h kv hkv; exact (alookup_eq_some_iff hn).1 (h kv hkv)
  · intro h kv hkv; exact (alookup_eq_some_iff hn).2 (h kv hkv)

theorem queryLookup_eq (strata : Strata) (kv : String × String) :
    (match alookup strata kv.1 with | some v => v == kv.2 | none => false) = (alookup strata kv.1 == some kv.2) := by
  cases alookup strata kv.1 <;> simp

/-! ### C13 part 2: compartment matchers -/

theorem isMatch_iff (c : Comp) (name : String) (flt : Strata) :
    c.isMatch name flt = true ↔ (c.name = name ∧ ∀ kv ∈ flt, kv ∈ c.strata) := by
  simp [Comp.isMatch, Comp.hasStrata, strataContains_iff]

theorem hasStrata_iff (c : Comp) (flt : Strata) : c.hasStrata flt = true ↔ ∀ kv ∈ flt, kv ∈ c.strata := by
  simp [Comp.hasStrata, strataContains_iff]

theorem filter_isMatch_eq_select (comps : List Comp) (name : String) (flt : Strata) :
    comps.filter (fun c => c.isMatch name flt) = select name flt comps := by
  unfold select
  apply List.filter_congr
  intro c _
  rw [Bool.eq_iff_iff, isMatch_iff]; simp

theorem filter_lookup_eq_select (comps : List Comp) (h : ∀ c ∈ comps, KeysNodup c.strata) (name : String) (flt : Strata) :
    (comps.filter (fun c => c.name == name)).filter (fun c => flt.all (fun kv => alookup c.strata kv.1 == some kv.2))
      = select name flt comps := by
  unfold select
  rw [List.filter_filter]
  apply List.filter_congr
  intro c hc
  rw [Bool.eq_iff_iff, Bool.and_eq_true, lookupAll_iff (h c hc)]; simp [and_comm]

section
variable {α : Type}

theorem getMatching_eq_select (m : Model α) (h : ∀ c ∈ m.comps, KeysNodup c.strata) (name : String) (flt : Strata) :
    getMatching m name flt = select name flt m.comps :=
  filter_lookup_eq_select m.comps h name flt

theorem queryCompartments_eq_select (m : Model α) (h : ∀ c ∈ m.comps, KeysNodup c.strata) (name : String) (flt : Strata) :
    Query.queryCompartments m (some name) flt = select name flt m.comps := by
  unfold Query.queryCompartments
  rw [← filter_lookup_eq_select m.comps h name flt]
  apply List.filter_congr; intro c _; congr 1; funext kv; exact queryLookup_eq _ _

end

/-! ### index lists -/

section idx
variable {β : Type}

theorem idxWhere_aux (p : β → Bool) (l : List β) (k : Nat) :
    ((l.zipIdx k).filter (fun x => p x.1)).map (·.2)
      = (List.range' k l.length).filter (fun i => match l[i - k]? with | some x => p x | none => false) := by
  induction l generalizing k with
  | nil => simp
  | cons x t ih =>
    rw [List.zipIdx_cons, List.length_cons, List.range'_succ]
    have htail : (List.range' (k+1) t.length).filter (fun i => match (x :: t)[i - k]? with | some x => p x | none => false)
        = (List.range' (k+1) t.length).filter (fun i => match t[i - (k+1)]? with | some x => p x | none => false) := by
      apply List.filter_congr
      intro i hi
      have : k + 1 ≤ i := (List.mem_range'_1.1 hi).1
      have e : i - k = (i - (k+1)) + 1 := by omega
      rw [e, List.getElem?_cons_succ]
    by_cases hp : p x = true
    · simp only [List.filter_cons, hp, if_true, List.map_cons, Nat.sub_self, List.getElem?_cons_zero, htail, ih]
    · simp only [List.filter_cons, hp, Nat.sub_self, List.getElem?_cons_zero, htail]
      exact ih (k+1)

theorem idxWhere_eq (l : List β) (p : β → Bool) : Run.idxWhere l p = indicesWhere p l := by
  unfold Run.idxWhere indicesWhere
  rw [idxWhere_aux p l 0, List.range_eq_range']
  simp only [Nat.sub_zero]
  rfl

theorem mem_indicesWhere {p : β → Bool} {l : List β} {i : Nat} :
    i ∈ indicesWhere p l ↔ ∃ x, l[i]? = some x ∧ p x = true := by
  unfold indicesWhere
  rw [List.mem_filter, List.mem_range]
  constructor
  · rintro ⟨hi, h⟩
    rw [List.getElem?_eq_getElem hi] at h
    exact ⟨l[i], List.getElem?_eq_getElem hi, h⟩
  · rintro ⟨x, hx, hp⟩
    have hi : i < l.length := (List.getElem?_eq_some_iff.1 hx).1
    refine ⟨hi, ?_⟩
    rw [hx]; exact hp

theorem indicesWhere_sorted (p : β → Bool) (l : List β) : (indicesWhere p l).Pairwise (· < ·) :=
  List.Pairwise.sublist List.filter_sublist List.pairwise_lt_range

theorem zipIdx_filter_map_fst (p : β → Bool) (l : List β) (k : Nat) :
    ((l.zipIdx k).filter (fun x => p x.1)).map (·.1) = l.filter p := by
  induction l generalizing k with
  | nil => simp
  | cons x t ih =>
    rw [List.zipIdx_cons]
    by_cases hp : p x = true <;> simp [hp, ih]

theorem filterMap_congr' {γ δ : Type} {f g : γ → Option δ} {l : List γ} (h : ∀ x ∈ l, f x = g x) :
    l.filterMap f = l.filterMap g := by
  induction l with
  | nil => rfl
  | cons a t ih =>
    rw [List.filterMap_cons, List.filterMap_cons, h a (List.mem_cons_self ..), ih (fun x hx => h x (List.mem_cons_of_mem _ hx))]

/-- the selected positions enumerate exactly the filtered list, in order -/
theorem indicesWhere_filterMap_get (p : β → Bool) (l : List β) :
    (indicesWhere p l).filterMap (fun i => l[i]?) = l.filter p := by
  rw [← idxWhere_eq, Run.idxWhere, List.filterMap_map, ← zipIdx_filter_map_fst p l 0, ← List.filterMap_eq_map]
  apply filterMap_congr'
  intro x hx
  have := List.mem_zipIdx_iff_getElem?.1 (List.mem_filter.1 hx).1
  simp [this]

end idx

/-! ### C13 part 2: flow matchers -/

section flows
variable {α : Type}

theorem endOk_nil (e : Option Comp) : endOk [] e := by
  cases e <;> simp [endOk]

/-- the model's end test (`match e with none => true | some c => c.hasStrata flt`) -/
theorem endMatch_iff (flt : Strata) (e : Option Comp) :
    (match e with | none => true | some c => c.hasStrata flt) = true ↔ endOk flt e := by
  cases e <;> simp [endOk, hasStrata_iff]

theorem endMatch_iff' (flt : Strata) (e : Option Comp) :
    (match e with | some c => c.hasStrata flt | none => true) = true ↔ endOk flt e := by
  cases e <;> simp [endOk, hasStrata_iff]

/-- `Build.flowIsMatch`'s per-end clause -/
theorem endClause_iff (flt : Strata) (e : Option Comp) :
    (flt.length == 0 || e.isNone || (match e with | some c => c.hasStrata flt | none => true)) = true ↔ endOk flt e := by
  cases flt with
  | nil => simp [endOk_nil]
  | cons a t => cases e <;> simp [endOk, hasStrata_iff]

theorem flowIsMatch_iff (f : Flow α) (name : String) (ss ds : Strata) :
    flowIsMatch f name ss ds = true ↔ flowSelected name ss ds f := by
  rcases f with ⟨k, n, src, dst, p, a⟩
  unfold flowIsMatch flowSelected
  cases src <;> cases dst <;> cases ss <;> cases ds <;> simp [endOk, hasStrata_iff, and_assoc]

theorem flowIsMatch_eq (f : Flow α) (name : String) (ss ds : Strata) :
    flowIsMatch f name ss ds = decide (flowSelected name ss ds f) := by
  rw [Bool.eq_iff_iff, flowIsMatch_iff]; simp

end flows

section flows2
variable {α : Type}

theorem flowIndices_eq (m : Model α) (name : String) (ss ds : Strata) :
    Derived.flowIndices m name ss ds = selectFlowIdx name ss ds m.flows := by
  unfold Derived.flowIndices selectFlowIdx
  rw [idxWhere_eq]
  congr 1
  funext f
  rw [Bool.eq_iff_iff, decide_eq_true_iff]
  rcases f with ⟨k, n, src, dst, p, a⟩
  cases src <;> cases dst <;> simp [flowSelected, endOk, hasStrata_iff, and_assoc]

theorem compIndices_eq (m : Model α) (name : String) (flt : Strata) :
    Derived.compIndices m [name] flt = selectIdx name flt m.comps := by
  unfold Derived.compIndices selectIdx
  rw [idxWhere_eq]
  congr 1
  funext c
  rw [Bool.eq_iff_iff, Bool.and_eq_true, isMatch_iff]
  simp [Comp.hasNameIn]

end flows2

section flows3
variable {α : Type}

theorem queryFlows_eq (m : Model α) (name : String) (ss ds : Strata) :
    Query.queryFlows m (some name) ss ds = selectFlowIdx name ss ds m.flows := by
  have key : Query.queryFlows m (some name) ss ds
      = Run.idxWhere m.flows (fun f => decide (flowSelected name ss ds f)) := by
    unfold Query.queryFlows Run.idxWhere
    cases ss with
    | nil =>
      cases ds with
      | nil =>
        simp only [List.length_nil, bne_self_eq_false, Bool.false_eq_true, if_false]
        refine congrArg (List.map _) (List.filter_congr ?_); intro x _
        rw [Bool.eq_iff_iff, decide_eq_true_iff]
        simp [flowSelected, endOk_nil]
      | cons b ds =>
        have hd : (ds.length + 1 != 0) = true := by simp
        simp only [List.length_nil, List.length_cons, bne_self_eq_false, Bool.false_eq_true, if_false, List.filter_filter, hd, if_true]
        refine congrArg (List.map _) (List.filter_congr ?_); intro x _
        rw [Bool.eq_iff_iff, decide_eq_true_iff]
        rcases x with ⟨⟨k, n, src, dst, p, a⟩, i⟩
        cases src <;> cases dst <;> simp [flowSelected, endOk, hasStrata_iff, and_comm]
    | cons a ss =>
      have hs : (ss.length + 1 != 0) = true := by simp
      cases ds with
      | nil =>
        simp only [List.length_nil, List.length_cons, bne_self_eq_false, Bool.false_eq_true, if_false, List.filter_filter, hs, if_true]
        refine congrArg (List.map _) (List.filter_congr ?_); intro x _
        rw [Bool.eq_iff_iff, decide_eq_true_iff]
        rcases x with ⟨⟨k, n, src, dst, p, a⟩, i⟩
        cases src <;> cases dst <;> simp [flowSelected, endOk, hasStrata_iff, and_comm]
      | cons b ds =>
        have hd : (ds.length + 1 != 0) = true := by simp
        simp only [List.length_cons, List.filter_filter, hs, hd, if_true]
        refine congrArg (List.map _) (List.filter_congr ?_); intro x _
        rw [Bool.eq_iff_iff, decide_eq_true_iff]
        rcases x with ⟨⟨k, n, src, dst, p, a⟩, i⟩
        cases src <;> cases dst <;> simp [flowSelected, endOk, hasStrata_iff] <;> grind
  rw [key, idxWhere_eq]; rfl

end flows3

/-! ### C04: `get_flow_adjustment` -/

section gfa
variable {α : Type}

/-- an `Except` bind that succeeds has a successful first step -/
theorem bind_eq_ok {ε β γ : Type} {x : Except ε β} {g : β → Except ε γ} {r : γ}
    (h : (x >>= g) = .ok r) : ∃ a, x = .ok a ∧ g a = .ok r := by
  cases x with
  | error e => cases h
  | ok a => exact ⟨a, rfl, h⟩

theorem guardE_ok_iff (c : Bool) (msg : String) : guardE c msg = .ok () ↔ c = true := by
  unfold guardE; cases c <;> simp [fail, pure, Except.pure]

theorem guardE_true (msg : String) : guardE true msg = .ok () := rfl
theorem guardE_false (msg : String) : guardE false msg = .error (.invalid msg) := rfl

/-- "filter non-empty and the end is missing" (the two validation guards) -/
def raisesB (flt : Strata) (e : Option Comp) : Bool := flt.length != 0 && e.isNone

/-- "filter non-empty and the present end does not carry it" -/
def noMatchB (flt : Strata) (e : Option Comp) : Bool :=
  flt.length != 0 && (match e with | some c => !c.hasStrata flt | none => false)

/-- the loop body of `getFlowAdjustment` -/
def gfaStep (f : Flow α) (cur : Option (List (String × Option (Adj α)))) (d : FlowAdjDecl α) :
    Res (Option (List (String × Option (Adj α)))) := do
  guardE (!(raisesB d.srcStrata f.src)) "source strata requested for a flow without a source"
  guardE (!(raisesB d.dstStrata f.dst)) "dest strata requested for a flow without a dest"
  if noMatchB d.srcStrata f.src then pure cur
  else if noMatchB d.dstStrata f.dst then pure cur
  else pure (some d.adjs)

theorem getFlowAdjustment_eq (s : Strat α) (f : Flow α) :
    getFlowAdjustment s f = (s.flowAdj.filter (fun d => d.flow == f.name)).foldlM (gfaStep f) none := rfl

theorem hasStrata_eq_decide (c : Comp) (flt : Strata) :
    c.hasStrata flt = decide (∀ kv ∈ flt, kv ∈ c.strata) := by
  rw [Bool.eq_iff_iff, hasStrata_iff]; simp

theorem noMatchB_false_iff (flt : Strata) (e : Option Comp) : noMatchB flt e = false ↔ endOk flt e := by
  cases flt with
  | nil => simp [noMatchB, endOk_nil]
  | cons a t => cases e <;> simp [noMatchB, endOk, hasStrata_eq_decide]

theorem noMatchB_true_iff (flt : Strata) (e : Option Comp) : noMatchB flt e = true ↔ ¬ endOk flt e := by
  rw [← noMatchB_false_iff]; simp

theorem raisesB_eq (flt : Strata) (e : Option Comp) : raisesB flt e = decide (flt ≠ [] ∧ e = none) := by
  cases flt <;> cases e <;> simp [raisesB]

/-- the end-related part of `declRaises` -/
def endRaises (d : FlowAdjDecl α) (f : Flow α) : Prop :=
  (d.srcStrata ≠ [] ∧ f.src = none) ∨ (d.dstStrata ≠ [] ∧ f.dst = none)

def endApplies (d : FlowAdjDecl α) (f : Flow α) : Prop := endOk d.srcStrata f.src ∧ endOk d.dstStrata f.dst

instance (d : FlowAdjDecl α) (f : Flow α) : Decidable (endApplies d f) := by unfold endApplies; infer_instance

theorem gfaStep_ok (f : Flow α) (cur) (d : FlowAdjDecl α) (h : ¬ endRaises d f) :
    gfaStep f cur d = .ok (if endApplies d f then some d.adjs else cur) := by
  unfold endRaises at h
  have h1 : raisesB d.srcStrata f.src = false := by rw [raisesB_eq]; simp; intro hh; exact fun e => h (Or.inl ⟨hh, e⟩)
  have h2 : raisesB d.dstStrata f.dst = false := by rw [raisesB_eq]; simp; intro hh; exact fun e => h (Or.inr ⟨hh, e⟩)
  unfold gfaStep endApplies
  rw [h1, h2]
  simp only [Bool.not_false, guardE_true, bind, Except.bind, pure, Except.pure]
  by_cases hs : endOk d.srcStrata f.src
  · rw [(noMatchB_false_iff _ _).2 hs]
    by_cases hd : endOk d.dstStrata f.dst
    · rw [(noMatchB_false_iff _ _).2 hd]; simp [hs, hd]
    · rw [(noMatchB_true_iff _ _).2 hd]; simp [hs, hd]
  · rw [(noMatchB_true_iff _ _).2 hs]; simp [hs]

theorem gfaStep_raises (f : Flow α) (cur) (d : FlowAdjDecl α) (h : endRaises d f) :
    ∃ e, gfaStep f cur d = .error e := by
  unfold gfaStep
  by_cases h1 : d.srcStrata ≠ [] ∧ f.src = none
  · have : raisesB d.srcStrata f.src = true := by rw [raisesB_eq]; simpa using h1
    rw [this]; exact ⟨_, rfl⟩
  · have h1' : raisesB d.srcStrata f.src = false := by rw [raisesB_eq]; simpa using h1
    have h2 : d.dstStrata ≠ [] ∧ f.dst = none := by
      rcases h with h | h
      · exact absurd h h1
      · exact h
    have : raisesB d.dstStrata f.dst = true := by rw [raisesB_eq]; simpa using h2
    rw [h1', this]; exact ⟨_, rfl⟩

theorem gfa_fold_ok (f : Flow α) (L : List (FlowAdjDecl α)) (cur : Option (List (String × Option (Adj α))))
    (h : ∀ d ∈ L, ¬ endRaises d f) :
    L.foldlM (gfaStep f) cur
      = .ok ((((L.filter (fun d => decide (endApplies d f))).getLast?).map (·.adjs)).or cur) := by
  induction L generalizing cur with
  | nil => simp [pure, Except.pure]
  | cons a t ih =>
    rw [List.foldlM_cons, gfaStep_ok f cur a (h a (List.mem_cons_self ..))]
    show List.foldlM (gfaStep f) _ t = _
    rw [ih _ (fun d hd => h d (List.mem_cons_of_mem _ hd))]
    by_cases ha : endApplies a f
    · simp only [ha, if_true, List.filter_cons, decide_true, List.getLast?_cons]
      cases (t.filter (fun d => decide (endApplies d f))).getLast? <;> simp
    · simp only [ha, if_false, List.filter_cons, decide_false, Bool.false_eq_true]

theorem gfa_fold_error (f : Flow α) (L : List (FlowAdjDecl α)) (cur : Option (List (String × Option (Adj α))))
    (h : ∃ d ∈ L, endRaises d f) : ∃ e, L.foldlM (gfaStep f) cur = .error e := by
  induction L generalizing cur with
  | nil => rcases h with ⟨d, hd, _⟩; cases hd
  | cons a t ih =>
    rw [List.foldlM_cons]
    by_cases ha : endRaises a f
    · rcases gfaStep_raises f cur a ha with ⟨e, he⟩
      rw [he]; exact ⟨e, rfl⟩
    · rw [gfaStep_ok f cur a ha]
      rcases h with ⟨d, hd, hr⟩
      rcases List.mem_cons.1 hd with rfl | hd
      · exact absurd hr ha
      · exact ih _ ⟨d, hd, hr⟩

/-- `C04.last_match_wins`, success case -/
theorem getFlowAdjustment_ok (s : Strat α) (f : Flow α) (h : ∀ d ∈ s.flowAdj, ¬ declRaises d f) :
    getFlowAdjustment s f = .ok (winning s f) := by
  rw [getFlowAdjustment_eq, gfa_fold_ok]
  · rw [List.filter_filter, Option.or_none]
    unfold winning
    congr 3
    apply List.filter_congr
    intro d _
    rw [Bool.eq_iff_iff, Bool.and_eq_true, decide_eq_true_iff, decide_eq_true_iff, beq_iff_eq]
    unfold declApplies flowSelected endApplies
    constructor
    · rintro ⟨⟨h1, h2⟩, h3⟩; exact ⟨h3.symm, h1, h2⟩
    · rintro ⟨h1, h2, h3⟩; exact ⟨⟨h2, h3⟩, h1.symm⟩
  · intro d hd hr
    have hd' := List.mem_filter.1 hd
    exact h d hd'.1 ⟨by simpa using hd'.2, hr⟩

/-- `C04.last_match_wins`, raising case -/
theorem getFlowAdjustment_error (s : Strat α) (f : Flow α) (h : ∃ d ∈ s.flowAdj, declRaises d f) :
    ∃ e, getFlowAdjustment s f = .error e := by
  rw [getFlowAdjustment_eq]
  apply gfa_fold_error
  rcases h with ⟨d, hd, hn, hr⟩
  exact ⟨d, List.mem_filter.2 ⟨hd, by simpa using hn⟩, hr⟩

/-- the last element satisfying `p`: everything after it fails `p` -/
theorem getLast?_filter_eq_some_iff {β : Type} {p : β → Bool} {l : List β} {x : β} :
    (l.filter p).getLast? = some x ↔ ∃ l1 l2, l = l1 ++ x :: l2 ∧ p x = true ∧ ∀ y ∈ l2, p y = false := by
  rw [List.getLast?_filter, List.find?_eq_some_iff_append]
  constructor
  · rintro ⟨hp, as, bs, e, hn⟩
    refine ⟨bs.reverse, as.reverse, ?_, hp, ?_⟩
    · have := congrArg List.reverse e
      simpa using this
    · intro y hy; simpa using hn y (List.mem_reverse.1 hy)
  · rintro ⟨l1, l2, e, hp, hn⟩
    refine ⟨hp, l2.reverse, l1.reverse, ?_, ?_⟩
    · rw [e]; simp
    · intro y hy; simpa using hn y (List.mem_reverse.1 hy)

theorem getLast?_filter_eq_none_iff {β : Type} {p : β → Bool} {l : List β} :
    (l.filter p).getLast? = none ↔ ∀ y ∈ l, p y = false := by
  rw [List.getLast?_eq_none_iff, List.filter_eq_nil_iff]; simp

theorem winning_eq_some_iff (s : Strat α) (f : Flow α) (a : List (String × Option (Adj α))) :
    winning s f = some a ↔ ∃ l1 d l2, s.flowAdj = l1 ++ d :: l2 ∧ declApplies d f ∧ d.adjs = a ∧ ∀ d' ∈ l2, ¬ declApplies d' f := by
  unfold winning
  rw [Option.map_eq_some_iff]
  constructor
  · rintro ⟨d, hd, rfl⟩
    rcases getLast?_filter_eq_some_iff.1 hd with ⟨l1, l2, e, hp, hn⟩
    exact ⟨l1, d, l2, e, by simpa using hp, rfl, fun d' hd' => by simpa using hn d' hd'⟩
  · rintro ⟨l1, d, l2, e, hp, rfl, hn⟩
    exact ⟨d, getLast?_filter_eq_some_iff.2 ⟨l1, l2, e, by simpa using hp, fun d' hd' => by simpa using hn d' hd'⟩, rfl⟩

theorem winning_eq_none_iff (s : Strat α) (f : Flow α) :
    winning s f = none ↔ ∀ d ∈ s.flowAdj, ¬ declApplies d f := by
  unfold winning
  rw [Option.map_eq_none_iff, getLast?_filter_eq_none_iff]
  simp

end gfa

/-! ### `dictSet` and `Comp.stratify` -/

section dictset
variable {β : Type}

theorem any_key_iff (l : List (String × β)) (k : String) : l.any (fun p => p.1 == k) = true ↔ HasKey l k := by
  simp [HasKey, List.any_eq_true]

theorem dictSet_fresh {l : List (String × β)} {k : String} (h : ¬ HasKey l k) (v : β) :
    dictSet l k v = l ++ [(k, v)] := by
  unfold dictSet
  have : l.any (fun p => p.1 == k) = false := by
    rw [Bool.eq_false_iff]; intro hh; exact h ((any_key_iff l k).1 hh)
  simp [this]

theorem dictSet_keys (l : List (String × β)) (k : String) (v : β) :
    (dictSet l k v).map (·.1) = if HasKey l k then l.map (·.1) else l.map (·.1) ++ [k] := by
  by_cases h : HasKey l k
  · unfold dictSet
    rw [(any_key_iff l k).2 h]
    simp only [if_true, h, List.map_map]
    apply List.map_congr_left
    intro p _
    by_cases hp : p.1 = k <;> simp [hp]
  · rw [dictSet_fresh h]; simp [h]

theorem hasKey_dictSet (l : List (String × β)) (k : String) (v : β) (k' : String) :
    HasKey (dictSet l k v) k' ↔ HasKey l k' ∨ k' = k := by
  unfold HasKey
  rw [dictSet_keys]
  by_cases h : HasKey l k
  · simp only [h, if_true]
    constructor
    · exact Or.inl
    · rintro (h' | rfl)
      · exact h'
      · exact h
  · simp [h]

theorem keysNodup_dictSet {l : List (String × β)} (h : KeysNodup l) (k : String) (v : β) :
    KeysNodup (dictSet l k v) := by
  unfold KeysNodup
  rw [dictSet_keys]
  by_cases hk : HasKey l k
  · simp only [hk, if_true]; exact h
  · simp only [hk, if_false]
    rw [List.nodup_append]
    refine ⟨h, by simp, ?_⟩
    intro a ha b hb
    rw [List.mem_singleton] at hb
    subst hb
    intro e; subst e; exact hk ha

theorem alookup_append (l1 l2 : List (String × β)) (k : String) :
    alookup (l1 ++ l2) k = (alookup l1 k).or (alookup l2 k) := by
  induction l1 with
  | nil => simp [alookup_nil]
  | cons p t ih =>
    rw [List.cons_append, alookup_cons, alookup_cons, ih]
    by_cases hp : p.1 = k <;> simp [hp]

theorem alookup_dictSet_self (l : List (String × β)) (k : String) (v : β) :
    alookup (dictSet l k v) k = some v := by
  by_cases h : HasKey l k
  · unfold dictSet
    rw [(any_key_iff l k).2 h]
    simp only [if_true]
    induction l with
    | nil => simp [HasKey] at h
    | cons p t ih =>
      rw [List.map_cons, alookup_cons]
      by_cases hp : p.1 = k
      · simp [hp]
      · have ht : HasKey t k := by
          simp only [HasKey, List.map_cons, List.mem_cons] at h
          rcases h with h | h
          · exact absurd h.symm hp
          · exact h
        have e : (if (p.1 == k) = true then (k, v) else p) = p := by simp [hp]
        rw [e, if_neg hp]
        exact ih ht
  · rw [dictSet_fresh h, alookup_append, alookup_eq_none_iff.2 h]
    simp [alookup_cons]

theorem dictSet_inj {l : List (String × β)} {k : String} {v v' : β} (h : dictSet l k v = dictSet l k v') : v = v' := by
  have := alookup_dictSet_self l k v
  rw [h, alookup_dictSet_self] at this
  exact (Option.some.inj this).symm

end dictset

theorem stratify_name (c : Comp) (n st : String) : (c.stratify n st).name = c.name := rfl
theorem stratify_strata (c : Comp) (n st : String) : (c.stratify n st).strata = dictSet c.strata n st := rfl

theorem stratify_inj {c : Comp} {n st st' : String} (h : c.stratify n st = c.stratify n st') : st = st' :=
  dictSet_inj (congrArg Comp.strata h)

theorem stratify_fresh_inj {c c' : Comp} {n st st' : String} (hc : ¬ HasKey c.strata n) (hc' : ¬ HasKey c'.strata n)
    (h : c.stratify n st = c'.stratify n st') : c = c' ∧ st = st' := by
  have hn : (c.stratify n st).name = (c'.stratify n st').name := congrArg Comp.name h
  rw [stratify_name, stratify_name] at hn
  have hs := congrArg Comp.strata h
  rw [stratify_strata, stratify_strata, dictSet_fresh hc, dictSet_fresh hc'] at hs
  have := List.append_inj' hs rfl
  refine ⟨?_, ?_⟩
  · cases c; cases c'; simp_all
  · simpa using this.2

/-! ### C12: `stratifyComps` -/

section comps
variable {α : Type}

theorem stratifyComps_eq (comps : List Comp) (s : Strat α) :
    stratifyComps comps s
      = comps.flatMap (fun c => if c.name ∈ s.comps then s.strata.map (c.stratify s.name) else [c]) := by
  unfold stratifyComps
  congr 1
  funext c
  by_cases h : c.name ∈ s.comps <;> simp [Comp.hasNameIn, h]

theorem mem_stratifyComps {comps : List Comp} {s : Strat α} {x : Comp} :
    x ∈ stratifyComps comps s ↔
      ∃ c ∈ comps, (c.name ∈ s.comps ∧ ∃ st ∈ s.strata, x = c.stratify s.name st) ∨ (c.name ∉ s.comps ∧ x = c) := by
  rw [stratifyComps_eq, List.mem_flatMap]
  constructor
  · rintro ⟨c, hc, hx⟩
    refine ⟨c, hc, ?_⟩
    by_cases h : c.name ∈ s.comps
    · simp only [h, if_true, List.mem_map] at hx
      rcases hx with ⟨st, hst, rfl⟩
      exact Or.inl ⟨h, st, hst, rfl⟩
    · simp only [h, if_false, List.mem_singleton] at hx
      exact Or.inr ⟨h, hx⟩
  · rintro ⟨c, hc, h | h⟩
    · rcases h with ⟨h, st, hst, rfl⟩
      exact ⟨c, hc, by simp only [h, if_true]; exact List.mem_map.2 ⟨st, hst, rfl⟩⟩
    · exact ⟨c, hc, by simp [h.1, h.2]⟩

theorem stratifyComps_append (l1 l2 : List Comp) (s : Strat α) :
    stratifyComps (l1 ++ l2) s = stratifyComps l1 s ++ stratifyComps l2 s := by
  simp [stratifyComps]

theorem stratifyComps_cons_in (c : Comp) (l : List Comp) (s : Strat α) (h : c.name ∈ s.comps) :
    stratifyComps (c :: l) s = s.strata.map (c.stratify s.name) ++ stratifyComps l s := by
  simp [stratifyComps_eq, h]

theorem stratifyComps_cons_out (c : Comp) (l : List Comp) (s : Strat α) (h : c.name ∉ s.comps) :
    stratifyComps (c :: l) s = c :: stratifyComps l s := by
  simp [stratifyComps_eq, h]

theorem stratifyComps_length (comps : List Comp) (s : Strat α) :
    (stratifyComps comps s).length
      = (comps.map (fun c => if c.name ∈ s.comps then s.strata.length else 1)).sum := by
  induction comps with
  | nil => simp [stratifyComps]
  | cons c t ih =>
    by_cases h : c.name ∈ s.comps
    · rw [stratifyComps_cons_in c t s h]; simp [h, ih]
    · rw [stratifyComps_cons_out c t s h]; simp [h, ih]; omega

theorem stratifyComps_untouched (comps : List Comp) (s : Strat α) :
    (stratifyComps comps s).filter (fun c => decide (c.name ∉ s.comps)) = comps.filter (fun c => decide (c.name ∉ s.comps)) := by
  induction comps with
  | nil => simp [stratifyComps]
  | cons c t ih =>
    by_cases h : c.name ∈ s.comps
    · have : (s.strata.map (c.stratify s.name)).filter (fun c => decide (c.name ∉ s.comps)) = [] := by
        rw [List.filter_eq_nil_iff]
        intro x hx
        rcases List.mem_map.1 hx with ⟨st, _, rfl⟩
        simp [stratify_name, h]
      rw [stratifyComps_cons_in c t s h, List.filter_append, ih, this, List.filter_cons]
      simp [h]
    · rw [stratifyComps_cons_out c t s h, List.filter_cons, List.filter_cons, ih]

theorem stratifyComps_nodup {comps : List Comp} {s : Strat α} (hn : comps.Nodup) (hs : s.strata.Nodup)
    (hf : ∀ c ∈ comps, ¬ HasKey c.strata s.name) : (stratifyComps comps s).Nodup := by
  rw [stratifyComps_eq]
  unfold List.Nodup
  rw [List.pairwise_flatMap]
  constructor
  · intro c _
    by_cases h : c.name ∈ s.comps
    · simp only [h, if_true, List.pairwise_map]
      exact List.Pairwise.imp (fun hne e => hne (stratify_inj e)) hs
    · simp [h]
  · refine List.Pairwise.imp_of_mem ?_ hn
    intro c1 c2 h1 h2 hne x hx y hy e
    subst e
    by_cases k1 : c1.name ∈ s.comps <;> by_cases k2 : c2.name ∈ s.comps
    · simp only [k1, k2, if_true, List.mem_map] at hx hy
      rcases hx with ⟨st1, _, rfl⟩
      rcases hy with ⟨st2, _, e⟩
      exact hne (stratify_fresh_inj (hf c2 h2) (hf c1 h1) e).1.symm
    · simp only [k1, k2, if_true, if_false, List.mem_map, List.mem_singleton] at hx hy
      rcases hx with ⟨st1, _, rfl⟩
      have : HasKey c2.strata s.name := by
        rw [← hy, stratify_strata, hasKey_dictSet]; exact Or.inr rfl
      exact hf c2 h2 this
    · simp only [k1, k2, if_true, if_false, List.mem_map, List.mem_singleton] at hx hy
      rcases hy with ⟨st1, _, rfl⟩
      have : HasKey c1.strata s.name := by
        rw [← hx, stratify_strata, hasKey_dictSet]; exact Or.inr rfl
      exact hf c1 h1 this
    · simp only [k1, k2, if_false, List.mem_singleton] at hx hy
      exact hne (hx.symm.trans hy)

theorem stratifyComps_keys {comps : List Comp} {s : Strat α} (hk : ∀ c ∈ comps, KeysNodup c.strata) :
    ∀ x ∈ stratifyComps comps s, KeysNodup x.strata := by
  intro x hx
  rcases mem_stratifyComps.1 hx with ⟨c, hc, ⟨_, st, _, rfl⟩ | ⟨_, rfl⟩⟩
  · exact keysNodup_dictSet (hk c hc) _ _
  · exact hk x hc

end comps

/-! ### C04: `Flow.stratify` -/

section kinds
theorem isBirth_isEntry (k : FlowKind) : isBirth k = true → isEntry k = true := by cases k <;> decide
theorem isEntry_not_isExit (k : FlowKind) : isEntry k = true → isExit k = false := by cases k <;> decide
theorem isEntry_not_abs (k : FlowKind) : isEntry k = true → absoluteShareKinds.contains k = false := by cases k <;> decide
theorem isExit_not_abs (k : FlowKind) : isExit k = true → absoluteShareKinds.contains k = false := by cases k <;> decide
theorem isExit_not_birth (k : FlowKind) : isExit k = true → isBirth k = false := by cases k <;> decide
theorem isExit_not_isEntry (k : FlowKind) : isExit k = true → isEntry k = false := by cases k <;> decide
theorem not_isEntry_not_birth (k : FlowKind) : isEntry k = false → isBirth k = false := by cases k <;> decide
end kinds

section sf
variable {α : Type}

theorem getFlowAdjustment_ok_inv {s : Strat α} {f : Flow α} {r} (h : getFlowAdjustment s f = .ok r) :
    r = winning s f ∧ ∀ d ∈ s.flowAdj, ¬ declRaises d f := by
  by_cases hr : ∃ d ∈ s.flowAdj, declRaises d f
  · rcases getFlowAdjustment_error s f hr with ⟨e, he⟩
    rw [he] at h; cases h
  · have hr' : ∀ d ∈ s.flowAdj, ¬ declRaises d f := fun d hd hdr => hr ⟨d, hd, hdr⟩
    rw [getFlowAdjustment_ok s f hr'] at h
    exact ⟨(Except.ok.inj h).symm, hr'⟩

theorem endStratified_iff (e : Option Comp) (s : Strat α) : endStratified e s = true ↔ endIn s e := by
  cases e <;> simp [endStratified, endIn, Comp.hasNameIn]

theorem endStratified_false_iff (e : Option Comp) (s : Strat α) : endStratified e s = false ↔ ¬ endIn s e := by
  rw [← endStratified_iff]; simp

theorem stratEnd_of_in {s : Strat α} {e : Option Comp} (h : endIn s e) (st : String) :
    stratEnd s st e = e.map (fun c => c.stratify s.name st) := by
  cases e with
  | none => exact h.elim
  | some c => simp only [endIn] at h; simp [stratEnd, h]

theorem stratEnd_of_not_in {s : Strat α} {e : Option Comp} (h : ¬ endIn s e) (st : String) :
    stratEnd s st e = e := by
  cases e with
  | none => rfl
  | some c => simp only [endIn] at h; simp [stratEnd, h]

theorem filterMap_ite {β γ : Type} (p : β → Bool) (g : β → γ) (l : List β) :
    l.filterMap (fun x => if p x = true then none else some (g x)) = (l.filter (fun x => !p x)).map g := by
  induction l with
  | nil => rfl
  | cons a t ih =>
    by_cases h : p a = true <;> simp [h, ih]

theorem isAgeing_iff (s : Strat α) : s.isAgeing = true ↔ s.kind = .age := by simp [Strat.isAgeing]
theorem isStrain_iff (s : Strat α) : s.isStrain = true ↔ s.kind = .strain := by simp [Strat.isStrain]

theorem birthIntoAge_iff (f : Flow α) (s : Strat α) : (isBirth f.kind && s.isAgeing) = true ↔ birthIntoAge f s := by
  simp [birthIntoAge, isAgeing_iff]

end sf

section sf2
variable {α : Type} [One α] [Div α] [NatCast α]

theorem shareAdj_eq (n : Nat) : (shareAdj n : Adj α) = share n := rfl

/-- model-shaped copy made by `stratifyEntry` -/
def entryCopy (f : Flow α) (s : Strat α) (fa : Option (List (String × Option (Adj α)))) (stratum : String) : Flow α :=
  { f with dst := f.dst.map (fun c => c.stratify s.name stratum),
           adjs := f.adjs ++ (if (isBirth f.kind && s.isAgeing) = true then []
              else match fa with
                | some a => adjFor a stratum
                | none => [shareAdj s.strata.length]) }

/-- model-shaped result of `stratifyEntry` when the destination is stratified -/
def entryCopies (f : Flow α) (s : Strat α) (fa : Option (List (String × Option (Adj α)))) : List (Flow α) :=
  s.strata.filterMap (fun stratum =>
    if (isBirth f.kind && s.isAgeing && stratum != "0") = true then none
    else some (entryCopy f s fa stratum))


theorem entryCopies_eq {f : Flow α} {s : Strat α} (he : isEntry f.kind = true) (hsrc : f.src = none)
    (hd : endIn s f.dst) : entryCopies f s (winning s f) = copies f s := by
  have hsrcIn : ¬ endIn s f.src := by rw [hsrc]; exact fun h => h
  unfold copies entryCopies
  rw [if_pos (Or.inr hd)]
  have hcopy : ∀ st, entryCopy f s (winning s f) st = copyOf f s st := by
    intro st
    unfold copyOf entryCopy
    rw [stratEnd_of_in hd, stratEnd_of_not_in hsrcIn]
    congr 2
    unfold extraAdj
    by_cases hb : birthIntoAge f s
    · rw [if_pos hb, if_pos ((birthIntoAge_iff f s).2 hb)]
    · rw [if_neg hb, if_neg (fun h => hb ((birthIntoAge_iff f s).1 h))]
      have hab : ¬ (absoluteShareKinds.contains f.kind = true ∧ 1 < s.strata.length ∧ ¬ conservation f s) := by
        rw [isEntry_not_abs _ he]; simp
      rw [if_neg hab, List.append_nil]
      cases winning s f with
      | some a => rfl
      | none => simp [autoAdj, he, shareAdj_eq]
  by_cases hb : birthIntoAge f s
  · have hb' := (birthIntoAge_iff f s).2 hb
    unfold copyStrata
    rw [if_pos hb]
    simp only [hb', Bool.true_and]
    rw [filterMap_ite (fun st => st != "0"), funext hcopy]
    congr 1
    apply List.filter_congr; intro x _; simp [bne]
  · have hb' : (isBirth f.kind && s.isAgeing) = false := by
      rw [Bool.eq_false_iff]; exact fun h => hb ((birthIntoAge_iff f s).1 h)
    unfold copyStrata
    rw [if_neg hb]
    simp only [hb', Bool.false_and, Bool.false_eq_true, if_false]
    simp only [hcopy]
    rw [List.filterMap_eq_map']

theorem stratifyEntry_ok {f : Flow α} {s : Strat α} {fs : List (Flow α)} (he : isEntry f.kind = true)
    (hsrc : f.src = none) (h : stratifyEntry f s = .ok fs) : fs = copies f s := by
  have hsrcIn : ¬ endIn s f.src := by rw [hsrc]; exact fun h => h
  unfold stratifyEntry at h
  by_cases hd : endStratified f.dst s = true
  · have hdIn := (endStratified_iff _ _).1 hd
    simp only [hd, Bool.not_true, Bool.false_eq_true, if_false] at h
    rcases bind_eq_ok h with ⟨fa, hfa, h⟩
    rcases getFlowAdjustment_ok_inv hfa with ⟨rfl, -⟩
    rcases bind_eq_ok h with ⟨_, hg, h⟩
    rw [← entryCopies_eq he hsrc hdIn]
    generalize winning s f = w at h
    cases w with
    | none => exact (Except.ok.inj h).symm
    | some a =>
      rcases bind_eq_ok h with ⟨_, _, h⟩
      exact (Except.ok.inj h).symm
  · have hdIn : ¬ endIn s f.dst := fun hh => hd ((endStratified_iff _ _).2 hh)
    have hd' : endStratified f.dst s = false := by simpa using hd
    simp only [hd', Bool.not_false, if_true] at h
    unfold copies
    rw [if_neg (fun hh => hh.elim hsrcIn hdIn)]
    exact (Except.ok.inj h).symm

/-- model-shaped copy made by `stratifyExit` -/
def exitCopy (f : Flow α) (s : Strat α) (fa : Option (List (String × Option (Adj α)))) (stratum : String) : Flow α :=
  { f with src := f.src.map (fun c => c.stratify s.name stratum),
           adjs := f.adjs ++ (match fa with
                | some a => adjFor a stratum
                | none => []) }

theorem exitCopy_eq {f : Flow α} {s : Strat α} (he : isExit f.kind = true) (hdst : f.dst = none)
    (hs : endIn s f.src) (st : String) : exitCopy f s (winning s f) st = copyOf f s st := by
  have hdstIn : ¬ endIn s f.dst := by rw [hdst]; exact fun h => h
  unfold copyOf exitCopy
  rw [stratEnd_of_in hs, stratEnd_of_not_in hdstIn]
  congr 2
  unfold extraAdj
  have hb : ¬ birthIntoAge f s := fun h => by
    have := isExit_not_birth _ he; rw [h.1] at this; cases this
  have hab : ¬ (absoluteShareKinds.contains f.kind = true ∧ 1 < s.strata.length ∧ ¬ conservation f s) := by
    rw [isExit_not_abs _ he]; simp
  rw [if_neg hb, if_neg hab, List.append_nil]
  cases winning s f with
  | some a => rfl
  | none =>
    have hc : ¬ conservation f s := fun h => by have := h.2.1; rw [he] at this; cases this
    simp [autoAdj, isExit_not_isEntry _ he, hc]

theorem stratifyExit_ok {f : Flow α} {s : Strat α} {fs : List (Flow α)} (he : isExit f.kind = true)
    (hdst : f.dst = none) (h : stratifyExit f s = .ok fs) : fs = copies f s := by
  have hdstIn : ¬ endIn s f.dst := by rw [hdst]; exact fun h => h
  unfold stratifyExit at h
  by_cases hd : endStratified f.src s = true
  · have hsIn := (endStratified_iff _ _).1 hd
    simp only [hd, Bool.not_true, Bool.false_eq_true, if_false] at h
    rcases bind_eq_ok h with ⟨fa, hfa, h⟩
    rcases getFlowAdjustment_ok_inv hfa with ⟨rfl, -⟩
    have hb : ¬ birthIntoAge f s := fun h => by
      have := isExit_not_birth _ he; rw [h.1] at this; cases this
    unfold copies copyStrata
    rw [if_pos (Or.inl hsIn), if_neg hb, ← funext (exitCopy_eq he hdst hsIn)]
    generalize winning s f = w at h
    cases w with
    | none => exact (Except.ok.inj h).symm
    | some a =>
      rcases bind_eq_ok h with ⟨_, _, h⟩
      exact (Except.ok.inj h).symm
  · have hsIn : ¬ endIn s f.src := fun hh => hd ((endStratified_iff _ _).2 hh)
    have hd' : endStratified f.src s = false := by simpa using hd
    simp only [hd', Bool.not_false, if_true] at h
    unfold copies
    rw [if_neg (fun hh => hh.elim hsIn hdstIn)]
    exact (Except.ok.inj h).symm

/-- the model's conservation flag -/
def consB (f : Flow α) (s : Strat α) (fa : Option (List (String × Option (Adj α)))) : Bool :=
  (endStratified f.dst s && !endStratified f.src s) && !s.isStrain && fa.isNone

omit [One α] [Div α] [NatCast α] in
theorem consB_iff {f : Flow α} {s : Strat α} (he : isEntry f.kind = false) (hx : isExit f.kind = false) :
    consB f s (winning s f) = true ↔ conservation f s := by
  unfold consB conservation
  simp only [Bool.and_eq_true, Bool.not_eq_true', endStratified_iff, endStratified_false_iff, he, hx, true_and,
    Option.isNone_iff_eq_none, ne_eq]
  rw [← Bool.not_eq_true, isStrain_iff]
  constructor
  · rintro ⟨⟨⟨h1, h2⟩, h3⟩, h4⟩; exact ⟨h1, h2, h3, h4⟩
  · rintro ⟨h1, h2, h3, h4⟩; exact ⟨⟨⟨h1, h2⟩, h3⟩, h4⟩

/-- model-shaped copy made by `stratifyTransition` (before the absolute share) -/
def transCopy (f : Flow α) (s : Strat α) (fa : Option (List (String × Option (Adj α)))) (stratum : String) : Flow α :=
  { f with src := if endStratified f.src s = true then f.src.map (fun c => c.stratify s.name stratum) else f.src,
           dst := if endStratified f.dst s = true then f.dst.map (fun c => c.stratify s.name stratum) else f.dst,
           adjs := f.adjs ++ (if consB f s fa = true then [shareAdj s.strata.length]
              else match fa with
                | some a => adjFor a stratum
                | none => []) }

def transCopies (f : Flow α) (s : Strat α) (fa : Option (List (String × Option (Adj α)))) : List (Flow α) :=
  if (absoluteShareKinds.contains f.kind && decide ((s.strata.map (transCopy f s fa)).length > 1) && !consB f s fa) = true then
    (s.strata.map (transCopy f s fa)).map (fun g => { g with adjs := g.adjs ++ [shareAdj (s.strata.map (transCopy f s fa)).length] })
  else s.strata.map (transCopy f s fa)

/-- the tail of `stratifyTransition`, verbatim -/
def transCopiesR (f : Flow α) (s : Strat α) (fa : Option (List (String × Option (Adj α)))) : Res (List (Flow α)) :=
  if (absoluteShareKinds.contains f.kind && decide ((s.strata.map (transCopy f s fa)).length > 1) && !consB f s fa) = true then
    pure ((s.strata.map (transCopy f s fa)).map (fun g => { g with adjs := g.adjs ++ [shareAdj (s.strata.map (transCopy f s fa)).length] }))
  else pure (s.strata.map (transCopy f s fa))

theorem transCopiesR_eq (f : Flow α) (s : Strat α) (fa) : transCopiesR f s fa = .ok (transCopies f s fa) := by
  unfold transCopiesR transCopies
  split <;> rfl

omit [One α] [Div α] [NatCast α] in
theorem stratEnd_eq_ite (s : Strat α) (e : Option Comp) (st : String) :
    (if endStratified e s = true then e.map (fun c => c.stratify s.name st) else e) = stratEnd s st e := by
  by_cases h : endIn s e
  · rw [if_pos ((endStratified_iff _ _).2 h), stratEnd_of_in h]
  · rw [if_neg (fun hh => h ((endStratified_iff _ _).1 hh)), stratEnd_of_not_in h]

theorem transCopies_eq {f : Flow α} {s : Strat α} (he : isEntry f.kind = false) (hx : isExit f.kind = false) :
    transCopies f s (winning s f) = s.strata.map (copyOf f s) := by
  have hb : ¬ birthIntoAge f s := fun h => by
    have := not_isEntry_not_birth _ he; rw [h.1] at this; cases this
  have hbase : ∀ st, transCopy f s (winning s f) st
      = { f with src := stratEnd s st f.src, dst := stratEnd s st f.dst,
                 adjs := f.adjs ++ (match winning s f with | some a => userAdj a st | none => autoAdj f s) } := by
    intro st
    unfold transCopy
    rw [stratEnd_eq_ite, stratEnd_eq_ite]
    congr 2
    by_cases hc : conservation f s
    · rw [if_pos ((consB_iff he hx).2 hc)]
      have hw : winning s f = none := hc.2.2.2.2.2
      rw [hw]; simp [autoAdj, he, hc, shareAdj_eq]
    · rw [if_neg (fun h => hc ((consB_iff he hx).1 h))]
      cases winning s f with
      | some a => rfl
      | none => simp [autoAdj, he, hc]
  unfold transCopies
  by_cases hab : absoluteShareKinds.contains f.kind = true ∧ 1 < s.strata.length ∧ ¬ conservation f s
  · have hcB : consB f s (winning s f) = false := by
      rw [Bool.eq_false_iff]; exact fun h => hab.2.2 ((consB_iff he hx).1 h)
    have : (absoluteShareKinds.contains f.kind && decide ((s.strata.map (transCopy f s (winning s f))).length > 1) && !consB f s (winning s f)) = true := by
      rw [Bool.and_eq_true, Bool.and_eq_true]
      exact ⟨⟨hab.1, by simpa using hab.2.1⟩, by rw [hcB]; rfl⟩
    rw [if_pos this, List.map_map]
    apply List.map_congr_left
    intro st _
    simp only [Function.comp, hbase, List.length_map]
    unfold copyOf extraAdj
    rw [if_neg hb, if_pos hab, List.append_assoc]
    rfl
  · have : ¬ (absoluteShareKinds.contains f.kind && decide ((s.strata.map (transCopy f s (winning s f))).length > 1) && !consB f s (winning s f)) = true := by
      intro h
      simp only [Bool.and_eq_true, decide_eq_true_eq, List.length_map, Bool.not_eq_true'] at h
      exact hab ⟨h.1.1, h.1.2, fun hc => by rw [(consB_iff he hx).2 hc] at h; cases h.2⟩
    rw [if_neg this]
    apply List.map_congr_left
    intro st _
    rw [hbase]
    unfold copyOf extraAdj
    rw [if_neg hb, if_neg hab, List.append_nil]
    rfl

theorem stratifyTransition_ok {f : Flow α} {s : Strat α} {fs : List (Flow α)} (he : isEntry f.kind = false)
    (hx : isExit f.kind = false) (h : stratifyTransition f s = .ok fs) : fs = copies f s := by
  have hb : ¬ birthIntoAge f s := fun h => by
    have := not_isEntry_not_birth _ he; rw [h.1] at this; cases this
  unfold stratifyTransition at h
  by_cases hd : (endStratified f.dst s || endStratified f.src s) = true
  · have hIn : endIn s f.src ∨ endIn s f.dst := by
      rw [Bool.or_eq_true, endStratified_iff, endStratified_iff] at hd; exact hd.symm
    simp only [hd, Bool.not_true, Bool.false_eq_true, if_false] at h
    rcases bind_eq_ok h with ⟨fa, hfa, h⟩
    rcases getFlowAdjustment_ok_inv hfa with ⟨rfl, -⟩
    unfold copies copyStrata
    rw [if_pos hIn, if_neg hb, ← transCopies_eq he hx]
    generalize winning s f = w at h
    cases w with
    | none =>
      have h' : transCopiesR f s none = .ok fs := h
      rw [transCopiesR_eq] at h'
      exact (Except.ok.inj h').symm
    | some a =>
      rcases bind_eq_ok h with ⟨_, _, h⟩
      have h' : transCopiesR f s (some a) = .ok fs := h
      rw [transCopiesR_eq] at h'
      exact (Except.ok.inj h').symm
  · have hd' : (endStratified f.dst s || endStratified f.src s) = false := by simpa using hd
    have hIn : ¬ (endIn s f.src ∨ endIn s f.dst) := by
      rw [Bool.or_eq_false_iff, endStratified_false_iff, endStratified_false_iff] at hd'
      exact fun hh => hh.elim hd'.2 hd'.1
    simp only [hd', Bool.not_false, if_true] at h
    unfold copies
    rw [if_neg hIn]
    exact (Except.ok.inj h).symm

/-- `C04.copies` : the result of `Flow.stratify`, when it does not raise, is the specified list of copies -/
theorem stratifyFlow_ok {f : Flow α} {s : Strat α} {fs : List (Flow α)}
    (hsrc : isEntry f.kind = true → f.src = none) (hdst : isExit f.kind = true → f.dst = none)
    (h : stratifyFlow f s = .ok fs) : fs = copies f s := by
  unfold stratifyFlow at h
  by_cases he : isEntry f.kind = true
  · rw [if_pos he] at h; exact stratifyEntry_ok he (hsrc he) h
  · rw [if_neg he] at h
    have he' : isEntry f.kind = false := by simpa using he
    by_cases hx : isExit f.kind = true
    · rw [if_pos hx] at h; exact stratifyExit_ok hx (hdst hx) h
    · rw [if_neg hx] at h
      have hx' : isExit f.kind = false := by simpa using hx
      exact stratifyTransition_ok he' hx' h

end sf2

/-! ### flow-adding calls -/

section add
variable {α : Type}

/-- the flows created by `_add_entry_flow` -/
def entryFlows (kind : FlowKind) (name : String) (param : Expr α) (adjs : List (Adj α)) (dests : List Comp) : List (Flow α) :=
  dests.map (fun d => { kind := kind, name := name, src := none, dst := some d, param := param, adjs := adjs })

/-- the flows created by `_add_exit_flow` -/
def exitFlows (kind : FlowKind) (name : String) (param : Expr α) (srcs : List Comp) : List (Flow α) :=
  srcs.map (fun c => { kind := kind, name := name, src := some c, dst := none, param := param, adjs := [] })

/-- the flows created by `_add_transition_flow` -/
def transFlows (kind : FlowKind) (name : String) (param : Expr α) (pairs : List (Comp × Comp)) : List (Flow α) :=
  pairs.map (fun sd => { kind := kind, name := name, src := some sd.1, dst := some sd.2, param := param, adjs := [] })

theorem checkExpected_ok_iff (ex : Option Nat) (n : Nat) : checkExpected ex n = .ok () ↔ ∀ e, ex = some e → e = n := by
  cases ex with
  | none => simp [checkExpected, pure, Except.pure]
  | some e => simp [checkExpected, guardE_ok_iff]

theorem addEntry_ok {m m' : Model α} {kind name param dest ds ex adjs}
    (h : addEntry m kind name param dest ds ex adjs = .ok m') :
    m' = { m with flows := m.flows ++ entryFlows kind name param adjs (select dest ds m.comps) }
      ∧ m.finalized = false ∧ (∀ e, ex = some e → e = (select dest ds m.comps).length) := by
  unfold addEntry at h
  rcases bind_eq_ok h with ⟨_, hg1, h⟩
  rcases bind_eq_ok h with ⟨_, hg2, h⟩
  rw [guardE_ok_iff] at hg1
  rw [checkExpected_ok_iff, List.length_map, filter_isMatch_eq_select] at hg2
  rw [filter_isMatch_eq_select] at h
  exact ⟨(Except.ok.inj h).symm, by simpa using hg1, hg2⟩

theorem addEntry_eq_ok {m : Model α} {kind name param dest ds ex adjs}
    (hf : m.finalized = false) (hex : ∀ e, ex = some e → e = (select dest ds m.comps).length) :
    addEntry m kind name param dest ds ex adjs
      = .ok { m with flows := m.flows ++ entryFlows kind name param adjs (select dest ds m.comps) } := by
  unfold addEntry
  have h2 : checkExpected ex ((m.comps.filter (fun c => c.isMatch dest ds)).map
      (fun d => ({ kind := kind, name := name, src := none, dst := some d, param := param, adjs := adjs } : Flow α))).length = .ok () := by
    rw [checkExpected_ok_iff, List.length_map, filter_isMatch_eq_select]; exact hex
  have h1 : guardE (!m.finalized) "finalized" = .ok () := by rw [hf]; rfl
  dsimp only
  rw [h1, h2, filter_isMatch_eq_select]
  rfl

theorem addExit_ok {m m' : Model α} {kind name param source ss ex}
    (h : addExit m kind name param source ss ex = .ok m') :
    m' = { m with flows := m.flows ++ exitFlows kind name param (select source ss m.comps) }
      ∧ m.finalized = false ∧ (∀ e, ex = some e → e = (select source ss m.comps).length) := by
  unfold addExit at h
  rcases bind_eq_ok h with ⟨_, hg1, h⟩
  rcases bind_eq_ok h with ⟨_, hg2, h⟩
  rw [guardE_ok_iff] at hg1
  rw [checkExpected_ok_iff, List.length_map, filter_isMatch_eq_select] at hg2
  rw [filter_isMatch_eq_select] at h
  exact ⟨(Except.ok.inj h).symm, by simpa using hg1, hg2⟩

theorem addTransitionCore_ok' {m m' : Model α} {kind name param source dest ss ds ex}
    (h : addTransitionCore m kind name param source dest ss ds ex = .ok m') :
    m' = { m with flows := m.flows ++ transFlows kind name param ((getMatching m source ss).zip (getMatching m dest ds)) }
      ∧ m.finalized = false ∧ dest ∈ m.origNames ∧ source ∈ m.origNames
      ∧ (getMatching m dest ds).length = (getMatching m source ss).length
      ∧ (∀ e, ex = some e → e = ((getMatching m source ss).zip (getMatching m dest ds)).length) := by
  unfold addTransitionCore at h
  rcases bind_eq_ok h with ⟨_, hg1, h⟩
  rcases bind_eq_ok h with ⟨_, hg2, h⟩
  rcases bind_eq_ok h with ⟨_, hg3, h⟩
  rcases bind_eq_ok h with ⟨_, hg4, h⟩
  rcases bind_eq_ok h with ⟨_, hg5, h⟩
  rw [guardE_ok_iff] at hg1 hg2 hg3 hg4
  rw [checkExpected_ok_iff, List.length_map] at hg5
  exact ⟨(Except.ok.inj h).symm, by simpa using hg1, by simpa using hg2, by simpa using hg3, by simpa using hg4, hg5⟩

theorem addTransitionCore_ok {m m' : Model α} {kind name param source dest ss ds ex}
    (hk : ∀ c ∈ m.comps, KeysNodup c.strata)
    (h : addTransitionCore m kind name param source dest ss ds ex = .ok m') :
    m' = { m with flows := m.flows ++ transFlows kind name param ((select source ss m.comps).zip (select dest ds m.comps)) }
      ∧ (select dest ds m.comps).length = (select source ss m.comps).length
      ∧ (∀ e, ex = some e → e = ((select source ss m.comps).zip (select dest ds m.comps)).length) := by
  have := addTransitionCore_ok' h
  rw [getMatching_eq_select m hk, getMatching_eq_select m hk] at this
  exact ⟨this.1, this.2.2.2.2.1, this.2.2.2.2.2⟩

end add

/-! ### `stratify_with` -/

section sw
variable {α : Type}

/-- list version of `getMatching` -/
def matchL (comps : List Comp) (name : String) (flt : Strata) : List Comp :=
  (comps.filter (fun c => c.name == name)).filter (fun c => flt.all (fun kv => alookup c.strata kv.1 == some kv.2))

theorem getMatching_eq_matchL (m : Model α) (name : String) (flt : Strata) :
    getMatching m name flt = matchL m.comps name flt := rfl

theorem matchL_eq_select {comps : List Comp} (h : ∀ c ∈ comps, KeysNodup c.strata) (name : String) (flt : Strata) :
    matchL comps name flt = select name flt comps := filter_lookup_eq_select comps h name flt

end sw

section sw2
variable {α : Type} [One α] [Div α] [NatCast α]

/-- the flows created for one (age pair, compartment) by the ageing loop, given the model's compartments -/
def ageNew (comps : List Comp) (s : Strat α) (ab : Int × Int) (c : Comp) : List (Flow α) :=
  transFlows .transition
    ("ageing_" ++ (c.stratify s.name (toString ab.1)).serialize ++ "_to_" ++ (c.stratify s.name (toString ab.2)).serialize)
    (.const ((1 : α) / (((ab.2 - ab.1).toNat : Nat) : α)))
    ((matchL comps c.name (c.stratify s.name (toString ab.1)).strata).zip
      (matchL comps c.name (c.stratify s.name (toString ab.2)).strata))

/-- inner loop body of the ageing loop -/
def ageStep (s : Strat α) (ab : Int × Int) (acc2 : Model α) (c : Comp) : Res (Model α) := do
  let source := c.stratify s.name (toString ab.1)
  let dest := c.stratify s.name (toString ab.2)
  guardE (ab.2 != ab.1) "zero-width age group (division by zero)"
  let rate : α := (1 : α) / (((ab.2 - ab.1).toNat : Nat) : α)
  addTransitionCore acc2 .transition ("ageing_" ++ source.serialize ++ "_to_" ++ dest.serialize)
    (.const rate) source.name dest.name source.strata dest.strata (some 1)

theorem ageStep_ok {s : Strat α} {ab : Int × Int} {acc acc' : Model α} {c : Comp}
    (h : ageStep s ab acc c = .ok acc') :
    acc' = { acc with flows := acc.flows ++ ageNew acc.comps s ab c } ∧ (ageNew acc.comps s ab c).length = 1
      ∧ ab.2 ≠ ab.1 ∧ c.name ∈ acc.origNames := by
  unfold ageStep at h
  rcases bind_eq_ok h with ⟨_, hg, h⟩
  rw [guardE_ok_iff] at hg
  have := addTransitionCore_ok' h
  refine ⟨this.1, ?_, by simpa using hg, this.2.2.1⟩
  have h1 := this.2.2.2.2.2 1 rfl
  unfold ageNew transFlows
  rw [List.length_map]
  exact h1.symm

theorem ageInner_ok {s : Strat α} {ab : Int × Int} (prev : List Comp) {acc acc' : Model α}
    (h : prev.foldlM (ageStep s ab) acc = .ok acc') :
    acc' = { acc with flows := acc.flows ++ prev.flatMap (ageNew acc.comps s ab) }
      ∧ (∀ c ∈ prev, (ageNew acc.comps s ab c).length = 1 ∧ ab.2 ≠ ab.1 ∧ c.name ∈ acc.origNames) := by
  induction prev generalizing acc with
  | nil =>
    simp only [List.foldlM_nil, pure, Except.pure] at h
    have := Except.ok.inj h
    subst this
    simp
  | cons c t ih =>
    rw [List.foldlM_cons] at h
    rcases bind_eq_ok h with ⟨acc1, h1, h⟩
    rcases ageStep_ok h1 with ⟨e1, hl, hne, hn⟩
    rcases ih h with ⟨e2, hall⟩
    have hc : acc1.comps = acc.comps := by rw [e1]
    have ho : acc1.origNames = acc.origNames := by rw [e1]
    rw [hc] at e2 hall
    rw [ho] at hall
    constructor
    · rw [e2, e1]; simp [List.flatMap_cons, List.append_assoc]
    · intro x hx
      rcases List.mem_cons.1 hx with rfl | hx
      · exact ⟨hl, hne, hn⟩
      · exact hall x hx

theorem ageOuter_ok {s : Strat α} (prev : List Comp) (pairs : List (Int × Int)) {acc acc' : Model α}
    (h : pairs.foldlM (fun (a : Model α) (ab : Int × Int) => prev.foldlM (ageStep s ab) a) acc = .ok acc') :
    acc' = { acc with flows := acc.flows ++ pairs.flatMap (fun ab => prev.flatMap (ageNew acc.comps s ab)) }
      ∧ (∀ ab ∈ pairs, ∀ c ∈ prev, (ageNew acc.comps s ab c).length = 1 ∧ ab.2 ≠ ab.1 ∧ c.name ∈ acc.origNames) := by
  induction pairs generalizing acc with
  | nil =>
    simp only [List.foldlM_nil, pure, Except.pure] at h
    have := Except.ok.inj h
    subst this
    simp
  | cons ab t ih =>
    rw [List.foldlM_cons] at h
    rcases bind_eq_ok h with ⟨acc1, h1, h⟩
    rcases ageInner_ok prev h1 with ⟨e1, hl⟩
    rcases ih h with ⟨e2, hall⟩
    have hc : acc1.comps = acc.comps := by rw [e1]
    have ho : acc1.origNames = acc.origNames := by rw [e1]
    rw [hc] at e2 hall
    rw [ho] at hall
    constructor
    · rw [e2, e1]; simp [List.flatMap_cons, List.append_assoc]
    · intro x hx
      rcases List.mem_cons.1 hx with rfl | hx
      · exact hl
      · exact hall x hx

/-- the flow loop of `stratify_with` -/
theorem flowLoop_ok {s : Strat α} (flows : List (Flow α)) {init r : List (Flow α)}
    (hshape : ∀ f ∈ flows, (isEntry f.kind = true → f.src = none) ∧ (isExit f.kind = true → f.dst = none))
    (h : flows.foldlM (fun (acc : List (Flow α)) f => do let fs ← stratifyFlow f s; pure (acc ++ fs)) init = .ok r) :
    r = init ++ flows.flatMap (fun f => copies f s) ∧ ∀ f ∈ flows, stratifyFlow f s = .ok (copies f s) := by
  induction flows generalizing init with
  | nil =>
    simp only [List.foldlM_nil, pure, Except.pure] at h
    simp [(Except.ok.inj h).symm]
  | cons f t ih =>
    rw [List.foldlM_cons] at h
    rcases bind_eq_ok h with ⟨acc1, h1, h⟩
    rcases bind_eq_ok h1 with ⟨fs, hfs, h1⟩
    have hf := hshape f (List.mem_cons_self ..)
    have := stratifyFlow_ok hf.1 hf.2 hfs
    subst this
    have e1 := (Except.ok.inj h1).symm
    subst e1
    rcases ih (fun g hg => hshape g (List.mem_cons_of_mem _ hg)) h with ⟨e, hall⟩
    constructor
    · rw [e]; simp [List.flatMap_cons, List.append_assoc]
    · intro g hg
      rcases List.mem_cons.1 hg with rfl | hg
      · exact hfs
      · exact hall g hg

end sw2

section sw3
variable {α : Type} [One α] [Div α] [NatCast α]

/-- the flows added by the ageing loop, model-shaped -/
def ageingOf (comps : List Comp) (s : Strat α) : List (Flow α) :=
  (agePairs s).flatMap (fun ab => comps.flatMap (ageNew (stratifyComps comps s) s ab))

/-- what `stratify_with` does to compartments, flows and stratifications, when it succeeds -/
structure StratResult (m m' : Model α) (s : Strat α) (ageing : List (Flow α)) : Prop where
  fresh : m.strats.any (fun t => t.name == s.name) = false
  known : ∀ c ∈ s.comps, c ∈ m.origNames
  comps : m'.comps = stratifyComps m.comps s
  strats : m'.strats = m.strats ++ [s]
  origNames : m'.origNames = m.origNames
  flows : m'.flows = m.flows.flatMap (fun f => copies f s) ++ ageing
  each : ∀ f ∈ m.flows, stratifyFlow f s = .ok (copies f s)
  notAge : s.kind ≠ .age → ageing = []
  age : s.kind = .age →
    s.comps = m.origNames ∧
    ageing = ageingOf m.comps s ∧
    ∀ ab ∈ agePairs s,
      ∀ c ∈ m.comps, (ageNew (stratifyComps m.comps s) s ab c : List (Flow α)).length = 1 ∧ ab.2 ≠ ab.1

theorem stratifyWith_ok {m m' : Model α} {s : Strat α}
    (hshape : ∀ f ∈ m.flows, (isEntry f.kind = true → f.src = none) ∧ (isExit f.kind = true → f.dst = none))
    (h : stratifyWith m s = .ok m') : ∃ ageing, StratResult m m' s ageing := by
  unfold stratifyWith at h
  rcases bind_eq_ok h with ⟨_, hg1, h⟩
  rcases bind_eq_ok h with ⟨_, hg2, h⟩
  rcases bind_eq_ok h with ⟨_, hg3, h⟩
  rcases bind_eq_ok h with ⟨_, hg4, h⟩
  rcases bind_eq_ok h with ⟨_, hg5, h⟩
  rcases bind_eq_ok h with ⟨m1, hm1, h⟩
  rcases bind_eq_ok h with ⟨m2, hm2, h⟩
  rcases bind_eq_ok h with ⟨_, hg6, h⟩
  rcases bind_eq_ok h with ⟨newFlows, hnf, h⟩
  rcases bind_eq_ok h with ⟨m4, hm4, h⟩
  have e' := (Except.ok.inj h).symm
  clear h
  rw [guardE_ok_iff] at hg1 hg6
  have hm1' : m1.comps = m.comps ∧ m1.flows = m.flows ∧ m1.strats = m.strats ∧ m1.origNames = m.origNames := by
    split at hm1
    · have := Except.ok.inj hm1; subst this; exact ⟨rfl, rfl, rfl, rfl⟩
    · rcases bind_eq_ok hm1 with ⟨_, _, hm1⟩
      rcases bind_eq_ok hm1 with ⟨_, _, hm1⟩
      have := Except.ok.inj hm1; subst this; exact ⟨rfl, rfl, rfl, rfl⟩
  have hm2' : m2.comps = m.comps ∧ m2.flows = m.flows ∧ m2.strats = m.strats ∧ m2.origNames = m.origNames := by
    split at hm2
    · rcases bind_eq_ok hm2 with ⟨_, _, hm2⟩
      have := Except.ok.inj hm2; subst this; exact hm1'
    · have := Except.ok.inj hm2; subst this; exact hm1'
  rcases hm2' with ⟨c2, f2, s2, o2⟩
  rw [f2] at hnf
  rcases flowLoop_ok m.flows hshape hnf with ⟨enf, heach⟩
  rw [List.nil_append] at enf
  have hfresh : m.strats.any (fun t => t.name == s.name) = false := by simpa using hg1
  have hknown : ∀ c ∈ s.comps, c ∈ m.origNames := by
    rw [List.all_eq_true] at hg6
    intro c hc; simpa using hg6 c hc
  by_cases ha : s.isAgeing = true
  · rw [if_pos ha] at hm4
    rcases bind_eq_ok hm4 with ⟨_, _, hm4⟩
    rcases bind_eq_ok hm4 with ⟨_, hfull, hm4⟩
    rw [guardE_ok_iff, beq_iff_eq] at hfull
    have hm4' : (agePairs s).foldlM
        (fun (a : Model α) (ab : Int × Int) => m2.comps.foldlM (ageStep s ab) a)
        ({ m2 with comps := stratifyComps m2.comps s, flows := newFlows } : Model α) = .ok m4 := hm4
    rcases ageOuter_ok _ _ hm4' with ⟨e4, hall⟩
    refine ⟨ageingOf m.comps s, ⟨hfresh, hknown, ?_, ?_, ?_, ?_, heach, ?_, ?_⟩⟩
    · rw [e', e4, c2]
    · rw [e', e4, s2]
    · rw [e', e4, o2]
    · rw [e', e4, enf, c2]; rfl
    · intro hk; exact absurd ((isAgeing_iff s).1 ha) hk
    · intro _
      refine ⟨hfull, rfl, ?_⟩
      intro ab hab c hc
      have := hall ab hab c (c2 ▸ hc)
      rw [c2] at this
      exact ⟨this.1, this.2.1⟩
  · rw [if_neg ha] at hm4
    have e4 := (Except.ok.inj hm4).symm
    refine ⟨[], ⟨hfresh, hknown, ?_, ?_, ?_, ?_, heach, fun _ => rfl, ?_⟩⟩
    · rw [e', e4, c2]
    · rw [e', e4, s2]
    · rw [e', e4, o2]
    · rw [e', e4, enf, List.append_nil]
    · intro hk; exact absurd ((isAgeing_iff s).2 hk) ha

end sw3

/-! ### the structural invariant -/

section inv
variable {α : Type}

theorem inv_of_eq {m m' : Model α} (h : Inv m) (hc : m'.comps = m.comps) (hf : m'.flows = m.flows)
    (hs : m'.strats = m.strats) (ho : m'.origNames = m.origNames) : Inv m' := by
  constructor
  · rw [hc]; exact h.nodup
  · rw [hc]; exact h.keys
  · rw [hc, hs]; exact h.keysIn
  · rw [hc]; exact h.uniform
  · rw [hc, ho]; exact h.names
  · unfold WF; rw [hc, hf]; exact h.wf
  · rw [hf]; exact h.shape

theorem inv_append_flows {m : Model α} (h : Inv m) (new : List (Flow α))
    (hends : ∀ f ∈ new, (∀ c, f.src = some c → c ∈ m.comps) ∧ (∀ c, f.dst = some c → c ∈ m.comps))
    (hshape : ∀ f ∈ new, FlowShape f) : Inv { m with flows := m.flows ++ new } := by
  constructor
  · exact h.nodup
  · exact h.keys
  · exact h.keysIn
  · exact h.uniform
  · exact h.names
  · intro f hf
    rcases List.mem_append.1 hf with hf | hf
    · exact h.wf f hf
    · exact hends f hf
  · intro f hf
    rcases List.mem_append.1 hf with hf | hf
    · exact h.shape f hf
    · exact hshape f hf

theorem select_subset (name : String) (flt : Strata) (comps : List Comp) : ∀ c ∈ select name flt comps, c ∈ comps :=
  fun _ hc => (List.mem_filter.1 hc).1

theorem matchL_subset (name : String) (flt : Strata) (comps : List Comp) : ∀ c ∈ matchL comps name flt, c ∈ comps :=
  fun _ hc => (List.mem_filter.1 (List.mem_filter.1 hc).1).1

theorem entryFlows_ends {kind name} {param : Expr α} {adjs} {dests comps : List Comp} (hd : ∀ c ∈ dests, c ∈ comps) :
    ∀ f ∈ entryFlows kind name param adjs dests, (∀ c, f.src = some c → c ∈ comps) ∧ (∀ c, f.dst = some c → c ∈ comps) := by
  intro f hf
  rcases List.mem_map.1 hf with ⟨d, hdm, rfl⟩
  exact ⟨fun c hc => (by cases hc), fun c hc => (by cases hc; exact hd _ hdm)⟩

theorem entryFlows_shape {kind name} {param : Expr α} {adjs} {dests : List Comp} (hk : isEntry kind = true) :
    ∀ f ∈ entryFlows kind name param adjs dests, FlowShape f := by
  intro f hf
  rcases List.mem_map.1 hf with ⟨d, _, rfl⟩
  refine ⟨fun _ => ⟨rfl, rfl⟩, fun hx => ?_, fun he => ?_⟩
  · have := isEntry_not_isExit _ hk; simp only at hx; rw [hx] at this; cases this
  · simp only at he; rw [hk] at he; cases he

theorem exitFlows_ends {kind name} {param : Expr α} {srcs comps : List Comp} (hd : ∀ c ∈ srcs, c ∈ comps) :
    ∀ f ∈ exitFlows kind name param srcs, (∀ c, f.src = some c → c ∈ comps) ∧ (∀ c, f.dst = some c → c ∈ comps) := by
  intro f hf
  rcases List.mem_map.1 hf with ⟨d, hdm, rfl⟩
  exact ⟨fun c hc => (by cases hc; exact hd _ hdm), fun c hc => (by cases hc)⟩

theorem exitFlows_shape {kind name} {param : Expr α} {srcs : List Comp} (hk : isExit kind = true) :
    ∀ f ∈ exitFlows kind name param srcs, FlowShape f := by
  intro f hf
  rcases List.mem_map.1 hf with ⟨d, _, rfl⟩
  refine ⟨fun he => ?_, fun _ => ⟨rfl, rfl⟩, fun he => ?_⟩
  · have := isExit_not_isEntry _ hk; simp only at he; rw [he] at this; cases this
  · intro hx; simp only at hx; rw [hk] at hx; cases hx

theorem transFlows_ends {kind name} {param : Expr α} {l1 l2 comps : List Comp}
    (h1 : ∀ c ∈ l1, c ∈ comps) (h2 : ∀ c ∈ l2, c ∈ comps) :
    ∀ f ∈ transFlows kind name param (l1.zip l2), (∀ c, f.src = some c → c ∈ comps) ∧ (∀ c, f.dst = some c → c ∈ comps) := by
  intro f hf
  rcases List.mem_map.1 hf with ⟨⟨a, b⟩, hab, rfl⟩
  have := List.of_mem_zip hab
  exact ⟨fun c hc => (by cases hc; exact h1 _ this.1), fun c hc => (by cases hc; exact h2 _ this.2)⟩

theorem transFlows_shape {kind name} {param : Expr α} {pairs : List (Comp × Comp)} (he : isEntry kind = false)
    (hx : isExit kind = false) : ∀ f ∈ transFlows kind name param pairs, FlowShape f := by
  intro f hf
  rcases List.mem_map.1 hf with ⟨d, _, rfl⟩
  refine ⟨fun h => ?_, fun h => ?_, fun _ _ => ⟨rfl, rfl⟩⟩
  · simp only at h; rw [he] at h; cases h
  · simp only at h; rw [hx] at h; cases h

theorem inv_addEntry {m m' : Model α} {kind name param dest ds ex adjs} (h : Inv m) (hk : isEntry kind = true)
    (hok : addEntry m kind name param dest ds ex adjs = .ok m') : Inv m' := by
  rw [(addEntry_ok hok).1]
  exact inv_append_flows h _ (entryFlows_ends (select_subset _ _ _)) (entryFlows_shape hk)

theorem inv_addExit {m m' : Model α} {kind name param source ss ex} (h : Inv m) (hk : isExit kind = true)
    (hok : addExit m kind name param source ss ex = .ok m') : Inv m' := by
  rw [(addExit_ok hok).1]
  exact inv_append_flows h _ (exitFlows_ends (select_subset _ _ _)) (exitFlows_shape hk)

theorem inv_addTransitionCore {m m' : Model α} {kind name param source dest ss ds ex} (h : Inv m)
    (he : isEntry kind = false) (hx : isExit kind = false)
    (hok : addTransitionCore m kind name param source dest ss ds ex = .ok m') : Inv m' := by
  rw [(addTransitionCore_ok' hok).1]
  exact inv_append_flows h _ (transFlows_ends (matchL_subset _ _ _) (matchL_subset _ _ _)) (transFlows_shape he hx)

theorem inv_universalDeath {name : String} {param : Expr α} (names : List String) {m m' : Model α} (h : Inv m)
    (hok : names.foldlM (fun acc c => addExit acc .death name param c [] none) m = .ok m') : Inv m' := by
  induction names generalizing m with
  | nil =>
    simp only [List.foldlM_nil, pure, Except.pure] at hok
    rw [← Except.ok.inj hok]; exact h
  | cons c t ih =>
    rw [List.foldlM_cons] at hok
    rcases bind_eq_ok hok with ⟨m1, h1, hok⟩
    exact ih (inv_addExit h rfl h1) hok

theorem transitionKinds_spec (k : FlowKind) (h : transitionKinds.contains k = true) :
    isEntry k = false ∧ isExit k = false := by
  cases k <;> first | exact ⟨rfl, rfl⟩ | cases h

end inv

section inv2
variable {α : Type} [One α] [Div α] [NatCast α]

theorem inv_addFlow {m m' : Model α} {op : FlowOp α} (h : Inv m) (hok : addFlow m op = .ok m') : Inv m' := by
  cases op with
  | crudeBirth name ok param dest ds ex =>
    unfold addFlow at hok
    rcases bind_eq_ok hok with ⟨_, _, hok⟩
    rcases bind_eq_ok hok with ⟨_, _, hok⟩
    exact inv_addEntry h rfl hok
  | replBirth name dest ds ex =>
    unfold addFlow at hok
    rcases bind_eq_ok hok with ⟨_, _, hok⟩
    exact inv_addEntry h rfl hok
  | importF name ok param dest split ds ex =>
    unfold addFlow at hok
    rcases bind_eq_ok hok with ⟨_, _, hok⟩
    dsimp only at hok
    split at hok
    · rcases bind_eq_ok hok with ⟨_, _, hok⟩
      exact inv_addEntry h rfl hok
    · exact inv_addEntry h rfl hok
  | death name ok param source ss ex =>
    unfold addFlow at hok
    rcases bind_eq_ok hok with ⟨_, _, hok⟩
    exact inv_addExit h rfl hok
  | universalDeath name ok param =>
    unfold addFlow at hok
    rcases bind_eq_ok hok with ⟨_, _, hok⟩
    rcases bind_eq_ok hok with ⟨_, _, hok⟩
    exact inv_universalDeath _ h hok
  | transition kind name ok param source dest ss ds ex =>
    unfold addFlow at hok
    rcases bind_eq_ok hok with ⟨_, _, hok⟩
    rcases bind_eq_ok hok with ⟨_, hk, hok⟩
    rw [guardE_ok_iff] at hk
    have := transitionKinds_spec kind hk
    exact inv_addTransitionCore h this.1 this.2 hok

end inv2

section inv3
variable {α : Type}

theorem inv_mkModel [LT α] [DecidableLT α] {t0 t1 dt : α} {ws : Option Nat} {names inf : List String} {m : Model α}
    (hn : names.Nodup) (h : mkModel t0 t1 dt ws names inf = .ok m) :
    Inv m ∧ m.comps = names.map (fun n => ⟨n, []⟩) ∧ m.flows = [] ∧ m.strats = [] ∧ m.origNames = names := by
  unfold mkModel at h
  rcases bind_eq_ok h with ⟨_, _, h⟩
  cases ws with
  | none => cases h
  | some k =>
    rcases bind_eq_ok h with ⟨_, _, h⟩
    have e := (Except.ok.inj h).symm
    subst e
    refine ⟨?_, rfl, rfl, rfl, rfl⟩
    constructor
    · show (names.map (fun n => (⟨n, []⟩ : Comp))).Nodup
      unfold List.Nodup
      rw [List.pairwise_map]
      exact List.Pairwise.imp (fun hne e => hne (congrArg Comp.name e)) hn
    · intro c hc
      rcases List.mem_map.1 hc with ⟨n, _, rfl⟩
      simp [KeysNodup]
    · intro c hc kv hkv
      rcases List.mem_map.1 hc with ⟨n, _, rfl⟩
      cases hkv
    · intro c hc c' hc' _
      rcases List.mem_map.1 hc with ⟨n, _, rfl⟩
      rcases List.mem_map.1 hc' with ⟨n', _, rfl⟩
      rfl
    · intro c hc
      rcases List.mem_map.1 hc with ⟨n, hn', rfl⟩
      exact hn'
    · intro f hf; cases hf
    · intro f hf; cases hf

/-- freshness of the stratification name, from the invariant and `stratify_with`'s first guard -/
theorem fresh_of_inv {m : Model α} (h : Inv m) {s : Strat α} (hf : m.strats.any (fun t => t.name == s.name) = false) :
    ∀ c ∈ m.comps, ¬ HasKey c.strata s.name := by
  intro c hc hk
  rcases List.mem_map.1 hk with ⟨kv, hkv, hkey⟩
  rcases h.keysIn c hc kv hkv with ⟨t, ht, htn⟩
  have : m.strats.any (fun t => t.name == s.name) = true := by
    rw [List.any_eq_true]; exact ⟨t, ht, by simp [htn, hkey]⟩
  rw [hf] at this; cases this

theorem stratEnd_mem {s : Strat α} {comps : List Comp} {e : Option Comp} {st : String} (hst : st ∈ s.strata)
    (he : ∀ c, e = some c → c ∈ comps) : ∀ x, stratEnd s st e = some x → x ∈ stratifyComps comps s := by
  intro x hx
  cases e with
  | none => cases hx
  | some c =>
    have hc := he c rfl
    unfold stratEnd at hx
    by_cases hn : c.name ∈ s.comps
    · simp only [hn, if_true, Option.some.injEq] at hx
      exact mem_stratifyComps.2 ⟨c, hc, Or.inl ⟨hn, st, hst, hx.symm⟩⟩
    · simp only [hn, if_false, Option.some.injEq] at hx
      exact mem_stratifyComps.2 ⟨c, hc, Or.inr ⟨hn, hx.symm⟩⟩

theorem end_mem_of_not_in {s : Strat α} {comps : List Comp} {e : Option Comp} (hn : ¬ endIn s e)
    (he : ∀ c, e = some c → c ∈ comps) : ∀ x, e = some x → x ∈ stratifyComps comps s := by
  intro x hx
  subst hx
  exact mem_stratifyComps.2 ⟨x, he x rfl, Or.inr ⟨hn, rfl⟩⟩

theorem stratEnd_isSome (s : Strat α) (st : String) (e : Option Comp) : (stratEnd s st e).isSome = e.isSome := by
  cases e with
  | none => rfl
  | some c => by_cases h : c.name ∈ s.comps <;> simp [stratEnd, h]

theorem stratEnd_none_iff (s : Strat α) (st : String) (e : Option Comp) : stratEnd s st e = none ↔ e = none := by
  cases e with
  | none => simp [stratEnd]
  | some c => by_cases h : c.name ∈ s.comps <;> simp [stratEnd, h]

end inv3

section inv4
variable {α : Type} [One α] [Div α] [NatCast α]

omit [One α] [Div α] [NatCast α] in
theorem copyStrata_subset (f : Flow α) (s : Strat α) : ∀ st ∈ copyStrata f s, st ∈ s.strata := by
  intro st hst
  unfold copyStrata at hst
  split at hst
  · exact (List.mem_filter.1 hst).1
  · exact hst

theorem mem_copies {f g : Flow α} {s : Strat α} (hg : g ∈ copies f s) :
    (g = f ∧ ¬ (endIn s f.src ∨ endIn s f.dst)) ∨ (∃ st ∈ s.strata, g = copyOf f s st) := by
  unfold copies at hg
  split at hg
  · rcases List.mem_map.1 hg with ⟨st, hst, rfl⟩
    exact Or.inr ⟨st, copyStrata_subset f s st hst, rfl⟩
  · rename_i hn
    exact Or.inl ⟨List.mem_singleton.1 hg, hn⟩

theorem copies_ends {f : Flow α} {s : Strat α} {comps : List Comp}
    (hf : (∀ c, f.src = some c → c ∈ comps) ∧ (∀ c, f.dst = some c → c ∈ comps)) :
    ∀ g ∈ copies f s, (∀ c, g.src = some c → c ∈ stratifyComps comps s) ∧ (∀ c, g.dst = some c → c ∈ stratifyComps comps s) := by
  intro g hg
  rcases mem_copies hg with ⟨rfl, hn⟩ | ⟨st, hst, rfl⟩
  · exact ⟨end_mem_of_not_in (fun h => hn (Or.inl h)) hf.1, end_mem_of_not_in (fun h => hn (Or.inr h)) hf.2⟩
  · exact ⟨stratEnd_mem hst hf.1, stratEnd_mem hst hf.2⟩

theorem copies_shape {f : Flow α} {s : Strat α} (hf : FlowShape f) : ∀ g ∈ copies f s, FlowShape g := by
  intro g hg
  rcases mem_copies hg with ⟨rfl, _⟩ | ⟨st, _, rfl⟩
  · exact hf
  · unfold FlowShape copyOf
    simp only [stratEnd_isSome, stratEnd_none_iff]
    exact hf

theorem ageNew_ends (comps : List Comp) (s : Strat α) (ab : Int × Int) (c : Comp) :
    ∀ f ∈ (ageNew comps s ab c : List (Flow α)), (∀ x, f.src = some x → x ∈ comps) ∧ (∀ x, f.dst = some x → x ∈ comps) :=
  transFlows_ends (matchL_subset _ _ _) (matchL_subset _ _ _)

theorem ageNew_shape (comps : List Comp) (s : Strat α) (ab : Int × Int) (c : Comp) :
    ∀ f ∈ (ageNew comps s ab c : List (Flow α)), FlowShape f :=
  transFlows_shape rfl rfl

theorem inv_stratResult {m m' : Model α} {s : Strat α} {ageing : List (Flow α)} (h : Inv m) (hs : s.strata.Nodup)
    (R : StratResult m m' s ageing) : Inv m' := by
  have hfresh := fresh_of_inv h R.fresh
  have hageing : ∀ f ∈ ageing, ((∀ x, f.src = some x → x ∈ stratifyComps m.comps s) ∧ (∀ x, f.dst = some x → x ∈ stratifyComps m.comps s)) ∧ FlowShape f := by
    by_cases hk : s.kind = .age
    · rw [(R.age hk).2.1]
      intro f hf
      unfold ageingOf at hf
      rcases List.mem_flatMap.1 hf with ⟨ab, _, hf⟩
      rcases List.mem_flatMap.1 hf with ⟨c, _, hf⟩
      exact ⟨ageNew_ends _ s ab c f hf, ageNew_shape _ s ab c f hf⟩
    · rw [R.notAge hk]; intro f hf; cases hf
  constructor
  · rw [R.comps]; exact stratifyComps_nodup h.nodup hs hfresh
  · rw [R.comps]; exact stratifyComps_keys h.keys
  · rw [R.comps, R.strats]
    intro x hx kv hkv
    rcases mem_stratifyComps.1 hx with ⟨c, hc, ⟨_, st, _, rfl⟩ | ⟨_, rfl⟩⟩
    · rw [stratify_strata, dictSet_fresh (hfresh c hc), List.mem_append] at hkv
      rcases hkv with hkv | hkv
      · rcases h.keysIn c hc kv hkv with ⟨t, ht, htn⟩
        exact ⟨t, List.mem_append_left _ ht, htn⟩
      · rw [List.mem_singleton] at hkv
        exact ⟨s, by simp, by rw [hkv]⟩
    · rcases h.keysIn x hc kv hkv with ⟨t, ht, htn⟩
      exact ⟨t, List.mem_append_left _ ht, htn⟩
  · rw [R.comps]
    intro x hx y hy hxy
    rcases mem_stratifyComps.1 hx with ⟨c, hc, hx'⟩
    rcases mem_stratifyComps.1 hy with ⟨d, hd, hy'⟩
    rcases hx' with ⟨hcn, st, _, rfl⟩ | ⟨hcn, rfl⟩ <;> rcases hy' with ⟨hdn, st', _, rfl⟩ | ⟨hdn, rfl⟩
    · rw [stratify_name, stratify_name] at hxy
      rw [stratify_strata, stratify_strata, dictSet_keys, dictSet_keys, if_neg (hfresh c hc), if_neg (hfresh d hd),
        h.uniform c hc d hd hxy]
    · rw [stratify_name] at hxy; exact absurd (hxy ▸ hcn) hdn
    · rw [stratify_name] at hxy; exact absurd (hxy ▸ hdn) hcn
    · exact h.uniform x hc y hd hxy
  · rw [R.comps, R.origNames]
    intro x hx
    rcases mem_stratifyComps.1 hx with ⟨c, hc, ⟨_, st, _, rfl⟩ | ⟨_, rfl⟩⟩
    · exact h.names c hc
    · exact h.names x hc
  · unfold WF
    rw [R.comps, R.flows]
    intro g hg
    rcases List.mem_append.1 hg with hg | hg
    · rcases List.mem_flatMap.1 hg with ⟨f, hf, hg⟩
      exact copies_ends (h.wf f hf) g hg
    · exact (hageing g hg).1
  · rw [R.flows]
    intro g hg
    rcases List.mem_append.1 hg with hg | hg
    · rcases List.mem_flatMap.1 hg with ⟨f, hf, hg⟩
      exact copies_shape (h.shape f hf) g hg
    · exact (hageing g hg).2

omit [One α] [Div α] [NatCast α] in
theorem shape_lite {m : Model α} (h : Inv m) :
    ∀ f ∈ m.flows, (isEntry f.kind = true → f.src = none) ∧ (isExit f.kind = true → f.dst = none) :=
  fun f hf => ⟨fun he => ((h.shape f hf).1 he).1, fun hx => ((h.shape f hf).2.1 hx).1⟩

theorem inv_stratifyWith {m m' : Model α} {s : Strat α} (h : Inv m) (hs : s.strata.Nodup)
    (hok : stratifyWith m s = .ok m') : Inv m' := by
  rcases stratifyWith_ok (shape_lite h) hok with ⟨ageing, R⟩
  exact inv_stratResult h hs R

end inv4

section inv5
variable {α : Type} [One α] [Div α] [NatCast α] [LT α] [DecidableLT α]

/-- every model reachable through the build API satisfies the structural invariant -/
theorem reachable_inv {m : Model α} (h : Reachable m) : Inv m := by
  induction h with
  | mk t0 t1 dt ws names inf m hn hok => exact (inv_mkModel hn hok).1
  | flow m m' op _ hok ih => exact inv_addFlow ih hok
  | strat m m' s _ hs hok ih => exact inv_stratifyWith ih hs hok
  | other m m' _ hc hf hs ho ih => exact inv_of_eq ih hc hf hs ho

end inv5

/-! ### `indexOf?` / `compIdx` -/

section idxof
variable {β : Type} [BEq β] [LawfulBEq β]

theorem indexOf?_go_of_mem (x : β) (l : List β) (k : Nat) (h : x ∈ l) :
    ∃ i, indexOf?.go x l k = some (k + i) ∧ l[i]? = some x ∧ ∀ j, j < i → l[j]? ≠ some x := by
  induction l generalizing k with
  | nil => cases h
  | cons y t ih =>
    unfold indexOf?.go
    by_cases hy : (y == x) = true
    · rw [if_pos hy]
      exact ⟨0, rfl, by simp [eq_of_beq hy], fun j hj => absurd hj (Nat.not_lt_zero _)⟩
    · rw [if_neg hy]
      have hx : x ∈ t := by
        rcases List.mem_cons.1 h with rfl | h
        · simp at hy
        · exact h
      rcases ih (k + 1) hx with ⟨i, hi, hget, hmin⟩
      refine ⟨i + 1, by rw [hi]; congr 1; omega, by simpa using hget, ?_⟩
      intro j hj
      cases j with
      | zero => simp only [List.getElem?_cons_zero, ne_eq, Option.some.injEq]; intro e; subst e; simp at hy
      | succ j => simpa using hmin j (by omega)

theorem indexOf?_of_mem {x : β} {l : List β} (h : x ∈ l) :
    ∃ i, indexOf? l x = some i ∧ l[i]? = some x ∧ ∀ j, j < i → l[j]? ≠ some x := by
  rcases indexOf?_go_of_mem x l 0 h with ⟨i, hi, h2, h3⟩
  exact ⟨i, by unfold indexOf?; rw [hi, Nat.zero_add], h2, h3⟩

theorem indexOf?_go_none (x : β) (l : List β) (k : Nat) (h : x ∉ l) : indexOf?.go x l k = none := by
  induction l generalizing k with
  | nil => rfl
  | cons y t ih =>
    unfold indexOf?.go
    have hy : ¬ (y == x) = true := fun e => h (by rw [eq_of_beq e]; exact List.mem_cons_self ..)
    rw [if_neg hy]
    exact ih (k + 1) (fun hx => h (List.mem_cons_of_mem _ hx))

theorem indexOf?_eq_none {x : β} {l : List β} (h : x ∉ l) : indexOf? l x = none := indexOf?_go_none x l 0 h

/-- in a duplicate-free list the claimed position is the only position -/
theorem indexOf?_unique {x : β} {l : List β} (hn : l.Nodup) {i j : Nat} (hi : indexOf? l x = some i)
    (hj : l[j]? = some x) : j = i := by
  have hx : x ∈ l := List.mem_of_getElem? hj
  rcases indexOf?_of_mem hx with ⟨i', hi', hget, _⟩
  rw [hi] at hi'
  have := Option.some.inj hi'
  subst this
  have hjl : j < l.length := (List.getElem?_eq_some_iff.1 hj).1
  exact (List.getElem?_inj hjl hn).1 (hj.trans hget.symm)

end idxof

section cidx
variable {α : Type}

/-- `C12.endpoints`, second half: the index of a flow end is its position -/
theorem compIdx_of_wf {m : Model α} (h : WF m) {f : Flow α} (hf : f ∈ m.flows) :
    (∀ c, f.src = some c → ∃ i, Run.compIdx m.comps c = some i ∧ m.comps[i]? = some c) ∧
    (∀ c, f.dst = some c → ∃ i, Run.compIdx m.comps c = some i ∧ m.comps[i]? = some c) := by
  refine ⟨fun c hc => ?_, fun c hc => ?_⟩
  · rcases indexOf?_of_mem ((h f hf).1 c hc) with ⟨i, h1, h2, _⟩; exact ⟨i, h1, h2⟩
  · rcases indexOf?_of_mem ((h f hf).2 c hc) with ⟨i, h1, h2, _⟩; exact ⟨i, h1, h2⟩

end cidx

/-! ### the ageing flows, identified -/

section age
variable {α : Type}

theorem strata_eq_of_subset {β : Type} : ∀ {l1 l2 : List (String × β)}, (∀ kv ∈ l1, kv ∈ l2) →
    l1.map (·.1) = l2.map (·.1) → KeysNodup l2 → l1 = l2
  | [], [], _, _, _ => rfl
  | [], _ :: _, _, hk, _ => by simp at hk
  | _ :: _, [], _, hk, _ => by simp at hk
  | p :: t1, q :: t2, hsub, hk, hn => by
    simp only [List.map_cons, List.cons.injEq] at hk
    rw [keysNodup_cons] at hn
    have hnotin : ∀ kv : String × β, kv.1 = q.1 → kv ∉ t2 := by
      intro kv hkv hmem
      exact hn.1 (List.mem_map.2 ⟨kv, hmem, hkv⟩)
    have hp : p = q := by
      rcases List.mem_cons.1 (hsub p (List.mem_cons_self ..)) with h | h
      · exact h
      · exact absurd h (hnotin p hk.1)
    have htail : ∀ kv ∈ t1, kv ∈ t2 := by
      intro kv hkv
      rcases List.mem_cons.1 (hsub kv (List.mem_cons_of_mem _ hkv)) with h | h
      · exfalso
        have hkey : kv.1 ∈ t2.map (·.1) := hk.2 ▸ List.mem_map.2 ⟨kv, hkv, rfl⟩
        rw [h] at hkey
        exact hn.1 hkey
      · exact h
    rw [hp, strata_eq_of_subset htail hk.2 hn.2]

/-- in a fully stratified model, the only compartment matching "`c`'s name and `c`'s strata plus the
new stratum" is `c`'s copy for that stratum -/
theorem matchL_age_unique {m : Model α} (h : Inv m) {s : Strat α}
    (hfresh : ∀ c ∈ m.comps, ¬ HasKey c.strata s.name) (hfull : ∀ c ∈ m.comps, c.name ∈ s.comps)
    {c : Comp} (hc : c ∈ m.comps) (a : String) :
    ∀ x ∈ matchL (stratifyComps m.comps s) c.name (c.stratify s.name a).strata, x = c.stratify s.name a := by
  intro x hx
  rw [matchL_eq_select (stratifyComps_keys h.keys)] at hx
  have hx' := List.mem_filter.1 hx
  have hprop := of_decide_eq_true hx'.2
  rcases mem_stratifyComps.1 hx'.1 with ⟨c', hc', ⟨_, st, _, rfl⟩ | ⟨hn, rfl⟩⟩
  · have hname : c'.name = c.name := hprop.1
    have hsub := hprop.2
    rw [stratify_strata, stratify_strata, dictSet_fresh (hfresh c hc), dictSet_fresh (hfresh c' hc')] at hsub
    have ha : a = st := by
      have := hsub (s.name, a) (by simp)
      rcases List.mem_append.1 this with h1 | h1
      · exact absurd (hasKey_of_mem h1) (hfresh c' hc')
      · simpa using h1
    have hsub' : ∀ kv ∈ c.strata, kv ∈ c'.strata := by
      intro kv hkv
      rcases List.mem_append.1 (hsub kv (List.mem_append_left _ hkv)) with h1 | h1
      · exact h1
      · rw [List.mem_singleton] at h1
        exact absurd (List.mem_map.2 ⟨kv, hkv, by rw [h1]⟩) (hfresh c hc)
    have hst : c.strata = c'.strata :=
      strata_eq_of_subset hsub' (h.uniform c hc c' hc' hname.symm) (h.keys c' hc')
    have : c' = c := by cases c; cases c'; simp_all
    rw [this, ha]
  · exact absurd (hfull x hc') hn

theorem eq_singleton_of_nodup {β : Type} {l : List β} {y : β} (hn : l.Nodup) (hall : ∀ x ∈ l, x = y) (hne : l ≠ []) :
    l = [y] := by
  match l, hn, hall, hne with
  | [a], _, hall, _ => rw [hall a (List.mem_cons_self ..)]
  | a :: b :: t, hn, hall, _ =>
    have ha := hall a (List.mem_cons_self ..)
    have hb := hall b (List.mem_cons_of_mem _ (List.mem_cons_self ..))
    rw [List.nodup_cons] at hn
    exact absurd (by rw [ha, hb]; exact List.mem_cons_self ..) hn.1

theorem flatMap_congr' {β γ : Type} {l : List β} {f g : β → List γ} (h : ∀ x ∈ l, f x = g x) :
    l.flatMap f = l.flatMap g := by
  rw [List.flatMap_def, List.flatMap_def, List.map_congr_left h]

theorem matchL_nodup {comps : List Comp} (hn : comps.Nodup) (name : String) (flt : Strata) : (matchL comps name flt).Nodup :=
  List.Nodup.sublist (List.filter_sublist.trans List.filter_sublist) hn

end age

section age2
variable {α : Type} [One α] [Div α] [NatCast α]

theorem ageNew_eq {m : Model α} (h : Inv m) {s : Strat α} (hs : s.strata.Nodup)
    (hfresh : ∀ c ∈ m.comps, ¬ HasKey c.strata s.name) (hfull : ∀ c ∈ m.comps, c.name ∈ s.comps)
    {c : Comp} (hc : c ∈ m.comps) (ab : Int × Int)
    (hlen : (ageNew (stratifyComps m.comps s) s ab c : List (Flow α)).length = 1) :
    (ageNew (stratifyComps m.comps s) s ab c : List (Flow α)) = [ageingFlow s c ab.1 ab.2] := by
  have hnd := stratifyComps_nodup h.nodup hs hfresh
  unfold ageNew transFlows at hlen
  rw [List.length_map, List.length_zip] at hlen
  have h1 : matchL (stratifyComps m.comps s) c.name (c.stratify s.name (toString ab.1)).strata = [c.stratify s.name (toString ab.1)] :=
    eq_singleton_of_nodup (matchL_nodup hnd _ _) (matchL_age_unique h hfresh hfull hc _)
      (fun e => by rw [e] at hlen; simp at hlen)
  have h2 : matchL (stratifyComps m.comps s) c.name (c.stratify s.name (toString ab.2)).strata = [c.stratify s.name (toString ab.2)] :=
    eq_singleton_of_nodup (matchL_nodup hnd _ _) (matchL_age_unique h hfresh hfull hc _)
      (fun e => by rw [e] at hlen; simp at hlen)
  unfold ageNew transFlows ageingFlow
  rw [h1, h2]
  rfl

/-- the ageing flows added by an accepted age stratification are exactly the specified ones -/
theorem ageingOf_eq {m m' : Model α} (h : Inv m) {s : Strat α} (hs : s.strata.Nodup) {ageing : List (Flow α)}
    (R : StratResult m m' s ageing) (hk : s.kind = .age) : ageing = ageingFlows m.comps s := by
  have hfresh := fresh_of_inv h R.fresh
  rcases R.age hk with ⟨hfullS, hag, hlen⟩
  have hfull : ∀ c ∈ m.comps, c.name ∈ s.comps := fun c hc => hfullS ▸ h.names c hc
  rw [hag]
  unfold ageingOf ageingFlows
  show (agePairs s).flatMap _ = (agePairs s).flatMap _
  apply flatMap_congr'
  intro ab hab
  rw [List.map_eq_flatMap]
  apply flatMap_congr'
  intro c hc
  exact ageNew_eq h hs hfresh hfull hc ab (hlen ab hab c hc).1

end age2

/-! ### corollaries about copies -/

section cop
variable {α : Type} [One α] [Div α] [NatCast α]

theorem filter_beq_of_nodup {l : List String} {a : String} (hn : l.Nodup) (ha : a ∈ l) :
    l.filter (fun st => st == a) = [a] := by
  induction l with
  | nil => cases ha
  | cons x t ih =>
    rw [List.nodup_cons] at hn
    by_cases hx : x = a
    · subst hx
      have : t.filter (fun st => st == x) = [] := by
        rw [List.filter_eq_nil_iff]; intro y hy; simp; intro e; subst e; exact hn.1 hy
      simp [this]
    · have hat : a ∈ t := by
        rcases List.mem_cons.1 ha with h | h
        · exact absurd h.symm hx
        · exact h
      simp [hx, ih hn.2 hat]

omit [One α] [Div α] [NatCast α] in
theorem copyStrata_birth_age {f : Flow α} {s : Strat α} (hs : s.strata.Nodup) (h0 : "0" ∈ s.strata)
    (hb : birthIntoAge f s) : copyStrata f s = ["0"] := by
  unfold copyStrata; rw [if_pos hb]; exact filter_beq_of_nodup hs h0

omit [One α] [Div α] [NatCast α] in
theorem copyStrata_other {f : Flow α} {s : Strat α} (hb : ¬ birthIntoAge f s) : copyStrata f s = s.strata := by
  unfold copyStrata; rw [if_neg hb]

omit [One α] [Div α] [NatCast α] in
theorem copyStrata_nodup {f : Flow α} {s : Strat α} (hs : s.strata.Nodup) : (copyStrata f s).Nodup := by
  unfold copyStrata; split
  · exact List.Nodup.sublist List.filter_sublist hs
  · exact hs

theorem copies_untouched {f : Flow α} {s : Strat α} (h : ¬ (endIn s f.src ∨ endIn s f.dst)) : copies f s = [f] := by
  unfold copies; rw [if_neg h]

theorem copies_touched {f : Flow α} {s : Strat α} (h : endIn s f.src ∨ endIn s f.dst) :
    copies f s = (copyStrata f s).map (copyOf f s) := by
  unfold copies; rw [if_pos h]

theorem copies_length (f : Flow α) (s : Strat α) :
    (copies f s).length = if endIn s f.src ∨ endIn s f.dst then (copyStrata f s).length else 1 := by
  unfold copies; split <;> simp

theorem copies_fields {f g : Flow α} {s : Strat α} (hg : g ∈ copies f s) :
    g.name = f.name ∧ g.kind = f.kind ∧ g.param = f.param ∧ ∃ extra, g.adjs = f.adjs ++ extra := by
  rcases mem_copies hg with ⟨rfl, _⟩ | ⟨st, _, rfl⟩
  · exact ⟨rfl, rfl, rfl, [], by simp⟩
  · exact ⟨rfl, rfl, rfl, extraAdj f s st, rfl⟩

omit [One α] [Div α] [NatCast α] in
theorem stratEnd_inj {s : Strat α} {e : Option Comp} (h : endIn s e) {st st' : String}
    (heq : stratEnd s st e = stratEnd s st' e) : st = st' := by
  rw [stratEnd_of_in h, stratEnd_of_in h] at heq
  cases e with
  | none => exact h.elim
  | some c => exact stratify_inj (Option.some.inj heq)

theorem copyOf_inj {f : Flow α} {s : Strat α} (h : endIn s f.src ∨ endIn s f.dst) {st st' : String}
    (heq : copyOf f s st = copyOf f s st') : st = st' := by
  rcases h with h | h
  · exact stratEnd_inj h (show (copyOf f s st).src = (copyOf f s st').src from congrArg Flow.src heq)
  · exact stratEnd_inj h (show (copyOf f s st).dst = (copyOf f s st').dst from congrArg Flow.dst heq)

theorem copies_nodup {f : Flow α} {s : Strat α} (hs : s.strata.Nodup) : (copies f s).Nodup := by
  unfold copies
  split
  · rename_i h
    unfold List.Nodup
    rw [List.pairwise_map]
    exact List.Pairwise.imp (fun hne e => hne (copyOf_inj h e)) (copyStrata_nodup hs)
  · simp

end cop

/-! ### realised weights -/

section real
variable {α : Type}

theorem realised_eq (f : Flow α) : Run.realised f = applyAdjs f.param f.adjs := by
  unfold Run.realised applyAdjs
  congr 1

theorem applyAdjs_nil (e : Expr α) : applyAdjs e [] = e := rfl
theorem applyAdjs_cons (e : Expr α) (a : Adj α) (l : List (Adj α)) : applyAdjs e (a :: l) = applyAdjs (applyAdj e a) l := rfl
theorem applyAdjs_append (e : Expr α) (l1 l2 : List (Adj α)) : applyAdjs e (l1 ++ l2) = applyAdjs (applyAdjs e l1) l2 := by
  unfold applyAdjs; rw [List.foldl_append]

theorem realised_copyOf [One α] [Div α] [NatCast α] (f : Flow α) (s : Strat α) (st : String) :
    Run.realised (copyOf f s st) = applyAdjs (Run.realised f) (extraAdj f s st) := by
  rw [realised_eq, realised_eq]
  show applyAdjs f.param (f.adjs ++ extraAdj f s st) = _
  rw [applyAdjs_append]

end real

/-! ### `sortInts` -/

section sort

theorem insertSorted_perm (x : Int) (l : List Int) : (insertSorted x l).Perm (x :: l) := by
  induction l with
  | nil => exact List.Perm.refl _
  | cons y t ih =>
    unfold insertSorted
    split
    · exact List.Perm.refl _
    · exact (List.Perm.cons y ih).trans (List.Perm.swap x y t)

theorem insertSorted_sorted (x : Int) (l : List Int) (h : l.Pairwise (· ≤ ·)) : (insertSorted x l).Pairwise (· ≤ ·) := by
  induction l with
  | nil => simp [insertSorted]
  | cons y t ih =>
    unfold insertSorted
    rw [List.pairwise_cons] at h
    split
    · rename_i hxy
      rw [List.pairwise_cons]
      refine ⟨?_, List.pairwise_cons.2 h⟩
      intro z hz
      rcases List.mem_cons.1 hz with rfl | hz
      · exact hxy
      · exact Int.le_trans hxy (h.1 z hz)
    · rename_i hxy
      rw [List.pairwise_cons]
      refine ⟨?_, ih h.2⟩
      intro z hz
      rcases List.mem_cons.1 ((insertSorted_perm x t).mem_iff.1 hz) with rfl | hz
      · omega
      · exact h.1 z hz

theorem sortInts_perm (l : List Int) : (sortInts l).Perm l := by
  induction l with
  | nil => exact List.Perm.refl _
  | cons x t ih =>
    show (insertSorted x (sortInts t)).Perm (x :: t)
    exact (insertSorted_perm x _).trans (List.Perm.cons x ih)

theorem sortInts_sorted (l : List Int) : (sortInts l).Pairwise (· ≤ ·) := by
  induction l with
  | nil => simp [sortInts]
  | cons x t ih => exact insertSorted_sorted x _ ih

theorem zip_tail_of_pairwise {R : Int → Int → Prop} : ∀ (x : Int) (t : List Int), (x :: t).Pairwise R →
    ∀ ab ∈ (x :: t).zip t, R ab.1 ab.2
  | _, [], _, ab, hab => by simp at hab
  | x, y :: t', h, ab, hab => by
    rw [List.zip_cons_cons] at hab
    rcases List.mem_cons.1 hab with rfl | hab
    · exact (List.pairwise_cons.1 h).1 y (List.mem_cons_self ..)
    · exact zip_tail_of_pairwise y t' (List.pairwise_cons.1 h).2 ab hab

theorem agePairs_le {α : Type} (s : Strat α) : ∀ ab ∈ agePairs s, ab.1 ≤ ab.2 := by
  unfold agePairs
  generalize hL : sortInts (s.strata.filterMap (fun x => x.toInt?)) = L
  have hsorted : L.Pairwise (· ≤ ·) := hL ▸ sortInts_sorted _
  cases L with
  | nil => intro ab hab; simp at hab
  | cons x t => exact zip_tail_of_pairwise x t hsorted

end sort

/-! ### when `Flow.stratify` succeeds -/

section succ
variable {α : Type} [One α] [Div α] [NatCast α]

theorem bind_ok_of {ε β γ : Type} {x : Except ε β} {g : β → Except ε γ} {a : β} (hx : x = .ok a)
    (hg : ∃ r, g a = .ok r) : ∃ r, (x >>= g) = .ok r := by
  subst hx; exact hg

theorem stratifyEntry_succ {f : Flow α} {s : Strat α} (hc : StratifyOk f s) :
    ∃ fs, stratifyEntry f s = .ok fs := by
  unfold stratifyEntry
  by_cases hd : endStratified f.dst s = true
  · have hdIn := (endStratified_iff _ _).1 hd
    rcases hc (Or.inr hdIn) with ⟨hno, hba, hset⟩
    simp only [hd, Bool.not_true, Bool.false_eq_true, if_false]
    apply bind_ok_of (getFlowAdjustment_ok s f hno)
    have hg : (!(isBirth f.kind && s.isAgeing && (winning s f).isSome)) = true := by
      rw [Bool.not_eq_true', Bool.eq_false_iff]
      intro h
      rw [Bool.and_eq_true, birthIntoAge_iff] at h
      exact hba h
    apply bind_ok_of ((guardE_ok_iff _ _).2 hg)
    cases hw : winning s f with
    | none => exact ⟨_, rfl⟩
    | some a =>
      apply bind_ok_of ((guardE_ok_iff _ _).2 (hset a hw))
      exact ⟨_, rfl⟩
  · have hd' : endStratified f.dst s = false := by simpa using hd
    simp only [hd', Bool.not_false, if_true]
    exact ⟨_, rfl⟩

omit [One α] [Div α] [NatCast α] in
theorem stratifyExit_succ {f : Flow α} {s : Strat α} (hc : StratifyOk f s) :
    ∃ fs, stratifyExit f s = .ok fs := by
  unfold stratifyExit
  by_cases hd : endStratified f.src s = true
  · have hdIn := (endStratified_iff _ _).1 hd
    rcases hc (Or.inl hdIn) with ⟨hno, _, hset⟩
    simp only [hd, Bool.not_true, Bool.false_eq_true, if_false]
    apply bind_ok_of (getFlowAdjustment_ok s f hno)
    cases hw : winning s f with
    | none => exact ⟨_, rfl⟩
    | some a =>
      apply bind_ok_of ((guardE_ok_iff _ _).2 (hset a hw))
      exact ⟨_, rfl⟩
  · have hd' : endStratified f.src s = false := by simpa using hd
    simp only [hd', Bool.not_false, if_true]
    exact ⟨_, rfl⟩

theorem stratifyTransition_succ {f : Flow α} {s : Strat α} (hc : StratifyOk f s) :
    ∃ fs, stratifyTransition f s = .ok fs := by
  unfold stratifyTransition
  by_cases hd : (endStratified f.dst s || endStratified f.src s) = true
  · have hIn : endIn s f.src ∨ endIn s f.dst := by
      rw [Bool.or_eq_true, endStratified_iff, endStratified_iff] at hd; exact hd.symm
    rcases hc hIn with ⟨hno, _, hset⟩
    simp only [hd, Bool.not_true, Bool.false_eq_true, if_false]
    apply bind_ok_of (getFlowAdjustment_ok s f hno)
    cases hw : winning s f with
    | none =>
      show ∃ r, transCopiesR f s none = .ok r
      exact ⟨_, transCopiesR_eq f s none⟩
    | some a =>
      apply bind_ok_of ((guardE_ok_iff _ _).2 (hset a hw))
      show ∃ r, transCopiesR f s (some a) = .ok r
      exact ⟨_, transCopiesR_eq f s (some a)⟩
  · have hd' : (endStratified f.dst s || endStratified f.src s) = false := by simpa using hd
    simp only [hd', Bool.not_false, if_true]
    exact ⟨_, rfl⟩

/-- `C04.copies`, converse direction: under `StratifyOk` the call succeeds with the specified copies -/
theorem stratifyFlow_eq_ok {f : Flow α} {s : Strat α}
    (hsrc : isEntry f.kind = true → f.src = none) (hdst : isExit f.kind = true → f.dst = none)
    (hc : StratifyOk f s) : stratifyFlow f s = .ok (copies f s) := by
  have : ∃ fs, stratifyFlow f s = .ok fs := by
    unfold stratifyFlow
    by_cases he : isEntry f.kind = true
    · rw [if_pos he]; exact stratifyEntry_succ hc
    · rw [if_neg he]
      by_cases hx : isExit f.kind = true
      · rw [if_pos hx]; exact stratifyExit_succ hc
      · rw [if_neg hx]; exact stratifyTransition_succ hc
  rcases this with ⟨fs, hfs⟩
  rw [hfs, stratifyFlow_ok hsrc hdst hfs]

end succ

/-! ### the adjustment table, case by case -/

section table
variable {α : Type} [One α] [Div α] [NatCast α]

theorem extraAdj_birth_age {f : Flow α} {s : Strat α} (hb : birthIntoAge f s) (st : String) : extraAdj f s st = [] := by
  unfold extraAdj; rw [if_pos hb]

theorem extraAdj_user {f : Flow α} {s : Strat α} (hb : ¬ birthIntoAge f s) {a} (hw : winning s f = some a) (st : String) :
    extraAdj f s st = userAdj a st ++ absShare f s := by
  unfold extraAdj absShare; rw [if_neg hb, hw]

theorem extraAdj_auto {f : Flow α} {s : Strat α} (hb : ¬ birthIntoAge f s) (hw : winning s f = none) (st : String) :
    extraAdj f s st = autoAdj f s ++ absShare f s := by
  unfold extraAdj absShare; rw [if_neg hb, hw]

theorem absShare_of_not_abs {f : Flow α} {s : Strat α} (h : absoluteShareKinds.contains f.kind = false) : absShare f s = [] := by
  unfold absShare; rw [h]; simp

theorem absShare_of_conservation {f : Flow α} {s : Strat α} (h : conservation f s) : absShare f s = [] := by
  unfold absShare; rw [if_neg (fun hh => hh.2.2 h)]

theorem absShare_of_abs {f : Flow α} {s : Strat α} (h : absoluteShareKinds.contains f.kind = true) (hn : 1 < s.strata.length)
    (hc : ¬ conservation f s) : absShare f s = [share s.strata.length] := by
  unfold absShare; rw [if_pos ⟨h, hn, hc⟩]

theorem autoAdj_entry {f : Flow α} {s : Strat α} (h : isEntry f.kind = true) : autoAdj f s = [share s.strata.length] := by
  unfold autoAdj; rw [if_pos h]

theorem autoAdj_conservation {f : Flow α} {s : Strat α} (h : conservation f s) : autoAdj f s = [share s.strata.length] := by
  unfold autoAdj; rw [if_neg (by rw [h.1]; simp), if_pos h]

theorem autoAdj_none {f : Flow α} {s : Strat α} (he : isEntry f.kind = false) (h : ¬ conservation f s) : autoAdj f s = [] := by
  unfold autoAdj; rw [if_neg (by rw [he]; simp), if_neg h]

omit [One α] [Div α] [NatCast α] in
theorem userAdj_some {a : List (String × Option (Adj α))} {st : String} {adj : Adj α} (h : alookup a st = some (some adj)) :
    userAdj a st = [adj] := by unfold userAdj; rw [h]

omit [One α] [Div α] [NatCast α] in
theorem userAdj_none {a : List (String × Option (Adj α))} {st : String} (h : alookup a st = some none ∨ alookup a st = none) :
    userAdj a st = [] := by
  unfold userAdj; rcases h with h | h <;> rw [h]

end table

section counts
variable {α : Type} [One α] [Div α] [NatCast α]

theorem length_flatMap_map {β γ δ : Type} (l : List β) (prev : List γ) (g : β → γ → δ) :
    (l.flatMap (fun ab => prev.map (g ab))).length = l.length * prev.length := by
  induction l with
  | nil => simp
  | cons a t ih => rw [List.flatMap_cons, List.length_append, ih, List.length_map, List.length_cons, Nat.succ_mul, Nat.add_comm]

theorem ageingFlows_length (prev : List Comp) (s : Strat α) :
    (ageingFlows prev s : List (Flow α)).length = (agePairs s).length * prev.length :=
  length_flatMap_map _ _ _

omit [One α] [Div α] [NatCast α] in
theorem agePairs_length (s : Strat α) :
    (agePairs s).length = (s.strata.filterMap (fun x => x.toInt?)).length - 1 := by
  unfold agePairs
  rw [List.length_zip, List.length_drop, (sortInts_perm _).length_eq]
  omega

/-- membership in the ageing flows -/
theorem mem_ageingFlows {prev : List Comp} {s : Strat α} {g : Flow α} :
    g ∈ ageingFlows prev s ↔ ∃ ab ∈ agePairs s, ∃ c ∈ prev, g = ageingFlow s c ab.1 ab.2 := by
  unfold ageingFlows
  rw [List.mem_flatMap]
  constructor
  · rintro ⟨ab, hab, hg⟩
    rcases List.mem_map.1 hg with ⟨c, hc, rfl⟩
    exact ⟨ab, hab, c, hc, rfl⟩
  · rintro ⟨ab, hab, c, hc, rfl⟩
    exact ⟨ab, hab, List.mem_map.2 ⟨c, hc, rfl⟩⟩

end counts

end Summer.Proofs.Structure
