import Mathlib.Tactic.Ring
import Mathlib.Tactic.FieldSimp
import Mathlib.Tactic.Linarith
import Mathlib.Algebra.Order.Field.Basic
import Mathlib.Algebra.Field.Rat
import Mathlib.Data.List.Perm.Basic
import Summer.Spec.Invariance
import Summer.Proofs.ListLemmas
import Summer.Proofs.ExprLemmas
import Summer.Proofs.Rates
import Summer.Proofs.Solvers
/-
Helper lemmas for property C15 (invariances).
-/
namespace Summer.Proofs.Invariance
open Summer Summer.Run Summer.Spec Summer.Solvers Summer.Spec.Solvers Summer.Proofs Summer.Proofs.Solvers

/-! ## 1. time shift -/

section evalTime
variable {α : Type} [Zero α] [Add α] [Sub α] [Mul α] [Div α] [LT α] [DecidableLT α]

mutual
/-- an expression that does not mention time evaluates to the same result at every time -/
theorem eval_time_indep (p : List (String × α)) (t t' : α) (x : List α) :
    ∀ e : Expr α, e.usesTime = false → e.eval ⟨p, t, x⟩ = e.eval ⟨p, t', x⟩
  | .const _, _ => by simp [Expr.eval]
  | .param _, _ => by simp [Expr.eval]
  | .time, h => by simp [Expr.usesTime] at h
  | .comp _, _ => by simp [Expr.eval]
  | .popSum, _ => by simp [Expr.eval]
  | .add a b, h => by
      simp only [Expr.usesTime, Bool.or_eq_false_iff] at h
      simp only [Expr.eval, eval_time_indep p t t' x a h.1, eval_time_indep p t t' x b h.2]
  | .sub a b, h => by
      simp only [Expr.usesTime, Bool.or_eq_false_iff] at h
      simp only [Expr.eval, eval_time_indep p t t' x a h.1, eval_time_indep p t t' x b h.2]
  | .mul a b, h => by
      simp only [Expr.usesTime, Bool.or_eq_false_iff] at h
      simp only [Expr.eval, eval_time_indep p t t' x a h.1, eval_time_indep p t t' x b h.2]
  | .div a b, h => by
      simp only [Expr.usesTime, Bool.or_eq_false_iff] at h
      simp only [Expr.eval, eval_time_indep p t t' x a h.1, eval_time_indep p t t' x b h.2]
  | .pw a bs vs, h => by
      simp only [Expr.usesTime, Bool.or_eq_false_iff] at h
      simp only [Expr.eval, eval_time_indep p t t' x a h.1.1,
        evalList_time_indep p t t' x bs h.1.2, evalList_time_indep p t t' x vs h.2]
  | .lin a bs vs, h => by
      simp only [Expr.usesTime, Bool.or_eq_false_iff] at h
      simp only [Expr.eval, eval_time_indep p t t' x a h.1.1,
        evalList_time_indep p t t' x bs h.1.2, evalList_time_indep p t t' x vs h.2]
theorem evalList_time_indep (p : List (String × α)) (t t' : α) (x : List α) :
    ∀ l : List (Expr α), Expr.usesTimeList l = false →
      Expr.evalList ⟨p, t, x⟩ l = Expr.evalList ⟨p, t', x⟩ l
  | [], _ => by simp [Expr.evalList]
  | e :: es, h => by
      simp only [Expr.usesTimeList, Bool.or_eq_false_iff] at h
      simp only [Expr.evalList, eval_time_indep p t t' x e h.1, evalList_time_indep p t t' x es h.2]
end

theorem mapM_option_congr {β γ} (f g : β → Option γ) :
    ∀ (l : List β), (∀ x ∈ l, f x = g x) → l.mapM f = l.mapM g
  | [], _ => by simp
  | a :: l, h => by
      rw [List.mapM_cons, List.mapM_cons, h a (by simp),
        mapM_option_congr f g l (fun x hx => h x (List.mem_cons_of_mem _ hx))]

variable [One α]

omit [One α] in
theorem flowWeights_time_indep (m : Model α) (hm : timeFreeRates m = true) (p : List (String × α)) (t t' : α)
    (x static : List α) : flowWeights m ⟨p, t, x⟩ static = flowWeights m ⟨p, t', x⟩ static := by
  unfold flowWeights
  apply mapM_option_congr
  intro fs hfs
  have hmem : fs.1 ∈ m.flows := (List.of_mem_zip (show (fs.1, fs.2) ∈ m.flows.zip static from hfs)).1
  simp only [timeFreeRates, Bool.and_eq_true, List.all_eq_true, Bool.not_eq_true'] at hm
  simp only [eval_time_indep p t t' x _ (hm.1 _ hmem)]

omit [One α] in
theorem evalMatrix_time_indep (p : List (String × α)) (t t' : α) (x : List α) (mat : Matrix (Expr α))
    (h : ∀ row ∈ mat, ∀ e ∈ row, e.usesTime = false) :
    evalMatrix ⟨p, t, x⟩ mat = evalMatrix ⟨p, t', x⟩ mat := by
  unfold evalMatrix
  apply mapM_option_congr
  intro row hrow
  apply mapM_option_congr
  intro e he
  exact eval_time_indep p t t' x e (h row hrow e he)

theorem mixingMatrix_time_indep (m : Model α) (hm : timeFreeRates m = true) (p : List (String × α)) (t t' : α)
    (x : List α) : mixingMatrix m ⟨p, t, x⟩ = mixingMatrix m ⟨p, t', x⟩ := by
  unfold mixingMatrix
  simp only [timeFreeRates, Bool.and_eq_true, List.all_eq_true, Bool.not_eq_true'] at hm
  rw [mapM_option_congr (evalMatrix ⟨p, t, x⟩) (evalMatrix ⟨p, t', x⟩) m.mixingMats
    (fun mat hmat => evalMatrix_time_indep p t t' x mat (hm.2 mat hmat))]

theorem step_time_indep (m : Model α) (hm : timeFreeRates m = true) (b : Backend) (p : List (String × α))
    (x : List α) (t t' : α) : step m b p t x = step m b p t' x := by
  unfold step
  simp only [flowWeights_time_indep m hm p t t', mixingMatrix_time_indep m hm p t t']

theorem rhs_time_indep (m : Model α) (hm : timeFreeRates m = true) (b : Backend) (p : List (String × α))
    (x : List α) (t t' : α) : rhs m b p x t = rhs m b p x t' := by
  unfold rhs
  rw [step_time_indep m hm b p x t t']

end evalTime

/-! ### solvers under a shift of the time grid -/
section solverShift
variable {α : Type} [Field α]

theorem scanl_map_left {σ τ τ' : Type} (g : σ → τ' → σ) (φ : τ → τ') (s : σ) (l : List τ) :
    List.scanl g s (l.map φ) = List.scanl (fun y t => g y (φ t)) s l := by
  induction l generalizing s with
  | nil => simp
  | cons a l ih => simp [ih]

theorem getD_map_shift (times : List α) (δ : α) (i : Nat) (h : i < times.length) :
    (times.map (· + δ)).getD i 0 = times.getD i 0 + δ := by
  rw [getD_eq_getElem _ _ _ (by simpa using h), getD_eq_getElem _ _ _ h]; simp

/-- a field that ignores its time argument is a function of the state only -/
theorem const_field {f : List α → α → List α} (hf : ∀ y t t', f y t = f y t') :
    ∃ g : List α → List α, f = fun y _ => g y :=
  ⟨fun y => f y 0, by funext y t; exact hf y t 0⟩

theorem step_shift (times : List α) (δ : α) (h2 : 2 ≤ times.length) :
    (times.map (· + δ)).getD 1 0 - (times.map (· + δ)).getD 0 0 = times.getD 1 0 - times.getD 0 0 := by
  rw [getD_map_shift _ _ _ (by omega), getD_map_shift _ _ _ (by omega)]; ring

theorem euler_shift (f : List α → α → List α) (hf : ∀ y t t', f y t = f y t') (y0 times : List α) (δ : α) :
    euler f y0 (times.map (· + δ)) = euler f y0 times := by
  obtain ⟨g, rfl⟩ := const_field hf
  rw [euler_eq_scanl, euler_eq_scanl]
  by_cases h2 : 2 ≤ times.length
  · rw [step_shift times δ h2, List.length_map, ← List.map_take, scanl_map_left]
    rfl
  · have : times.length - 1 = 0 := by omega
    simp [this]

theorem rk4_shift (f : List α → α → List α) (hf : ∀ y t t', f y t = f y t') (y0 times : List α) (δ : α) :
    rk4 f y0 (times.map (· + δ)) = rk4 f y0 times := by
  obtain ⟨g, rfl⟩ := const_field hf
  rw [rk4_eq_scanl, rk4_eq_scanl]
  by_cases h2 : 2 ≤ times.length
  · rw [step_shift times δ h2, List.length_map, ← List.map_take, scanl_map_left]
    rfl
  · have : times.length - 1 = 0 := by omega
    simp [this]

/-! `odeint` -/

theorem stepState_shift (tb : Tableau α) (ctl : Control α) (g : List α → List α) (δ : α) (s : OdeState α) :
    stepState tb ctl (fun y _ => g y) (shiftState δ s) = shiftState δ (stepState tb ctl (fun y _ => g y) s) := by
  have hrk : rkStep tb (fun y (_ : α) => g y) s.y s.f (s.t + δ) s.dt = rkStep tb (fun y _ => g y) s.y s.f s.t s.dt := rfl
  unfold stepState
  simp only [shiftState, hrk]
  split
  · simp only [OdeState.mk.injEq, true_and, and_true]
    ring
  · rfl

theorem advance_shift (tb : Tableau α) (ctl : Control α) (g : List α → List α) (δ : α)
    (hctl : ShiftInvariantCtl ctl δ) (target : α) :
    ∀ (fuel : Nat) (s : OdeState α),
      advance tb ctl (fun y _ => g y) (target + δ) fuel (shiftState δ s)
        = shiftState δ (advance tb ctl (fun y _ => g y) target fuel s)
  | 0, s => rfl
  | fuel + 1, s => by
      rw [advance_succ, advance_succ]
      have hc : contCond ctl (target + δ) (shiftState δ s) = contCond ctl target s := by
        simp only [contCond, shiftState, hctl s.t target]
      rw [hc, stepState_shift]
      split
      · exact advance_shift tb ctl g δ hctl target fuel _
      · rfl

theorem odeRow_shift (δ : α) (s : OdeState α) (target : α) :
    odeRow (shiftState δ s) (target + δ) = odeRow s target := by
  simp only [odeRow, shiftState, add_sub_add_right_eq_sub]

theorem scanOut_shift (tb : Tableau α) (ctl : Control α) (g : List α → List α) (δ : α)
    (hctl : ShiftInvariantCtl ctl δ) (fuel : Nat) :
    ∀ (l : List α) (s : OdeState α),
      scanOut (fun s target => advance tb ctl (fun y _ => g y) target fuel s) odeRow (shiftState δ s)
          (l.map (· + δ))
        = scanOut (fun s target => advance tb ctl (fun y _ => g y) target fuel s) odeRow s l
  | [], _ => rfl
  | T :: l, s => by
      simp only [List.map_cons, scanOut, advance_shift tb ctl g δ hctl T fuel s, odeRow_shift,
        scanOut_shift tb ctl g δ hctl fuel l]

theorem odeint_shift (tb : Tableau α) (ctl : Control α) (f : List α → α → List α)
    (hf : ∀ y t t', f y t = f y t') (δ : α) (hctl : ShiftInvariantCtl ctl δ) (fuel : Nat) (dt0 : α)
    (y0 ts : List α) :
    odeint tb ctl f fuel dt0 y0 (ts.map (· + δ)) = odeint tb ctl f fuel dt0 y0 ts := by
  obtain ⟨g, rfl⟩ := const_field hf
  rw [odeint_eq', odeint_eq']
  cases ts with
  | nil => rfl
  | cons t0 ts =>
    have h0 : odeInit (fun y (_ : α) => g y) dt0 y0 (((t0 :: ts).map (· + δ)).getD 0 0)
        = shiftState δ (odeInit (fun y _ => g y) dt0 y0 ((t0 :: ts).getD 0 0)) := rfl
    rw [h0]
    simp only [List.map_cons, List.drop_succ_cons, List.drop_zero]
    rw [scanOut_shift tb ctl g δ hctl fuel ts]

theorem linspace_shift (t0 t1 δ : α) (n : Nat) :
    linspace (t0 + δ) (t1 + δ) n = (linspace t0 t1 n).map (· + δ) := by
  simp only [linspace, List.map_map]
  apply List.map_congr_left
  intro i _
  simp only [Function.comp, add_sub_add_right_eq_sub]
  ring

theorem modelTimes_shiftTime (δ : α) (m : Model α) :
    modelTimes (shiftTime δ m) = (modelTimes m).map (· + δ) :=
  linspace_shift m.t0 m.t1 δ m.nTimes

end solverShift

section derivedShift
variable {α : Type} [Zero α] [One α] [Add α] [Sub α] [Mul α] [Div α] [LT α] [DecidableLT α]

theorem zip_map_left' {β γ δ : Type} (φ : β → δ) : ∀ (l : List β) (l' : List γ),
    (l.map φ).zip l' = (l.zip l').map (fun p => (φ p.1, p.2))
  | [], _ => by simp
  | _ :: _, [] => by simp
  | a :: l, b :: l' => by simp [zip_map_left' φ l l']

/-- the flow-rate rows and computed-value series of the derived-output stage do not see a shift of
the time grid when nothing in the model mentions time -/
theorem flowsForOutputs_shift (m : Model α) (hm : timeFree m = true) (b : Backend) (p : List (String × α))
    (φ : α → α) (times : List α) (outputs : List (List α)) :
    Derived.flowsForOutputs m b p (times.map φ) outputs = Derived.flowsForOutputs m b p times outputs := by
  have hm' : timeFreeRates m = true ∧ ∀ kv ∈ m.computed, kv.2.usesTime = false := by
    simpa [timeFree, List.all_eq_true] using hm
  unfold Derived.flowsForOutputs
  rw [zip_map_left', List.mapM_map]
  have key : ∀ q : α × List α,
      (do let s ← step m b p (φ q.1) q.2
          let cvs ← m.computed.mapM (fun (kv : String × Expr α) => kv.2.eval ⟨p, φ q.1, cleanV q.2⟩)
          pure (s.flowRates, cvs) : Option (List α × List α))
      = (do let s ← step m b p q.1 q.2
            let cvs ← m.computed.mapM (fun (kv : String × Expr α) => kv.2.eval ⟨p, q.1, cleanV q.2⟩)
            pure (s.flowRates, cvs)) := by
    intro q
    rw [step_time_indep m hm'.1 b p q.2 (φ q.1) q.1,
      mapM_option_congr (fun (kv : String × Expr α) => kv.2.eval ⟨p, φ q.1, cleanV q.2⟩)
        (fun (kv : String × Expr α) => kv.2.eval ⟨p, q.1, cleanV q.2⟩)
        m.computed (fun kv hkv => eval_time_indep p (φ q.1) q.1 _ kv.2 (hm'.2 kv hkv))]
  simp only [Function.comp_def, key]

end derivedShift

/-! ## 2. population scaling -/

/-! ### solvers for a pair of fields related by `f' (k·y) t = k·f y t` -/
section scaleSolver
variable {α : Type} [Field α]

theorem scanl_map_state {σ τ : Type} (g g' : σ → τ → σ) (φ : σ → σ) (h : ∀ s t, g' (φ s) t = φ (g s t))
    (s : σ) (l : List τ) : List.scanl g' (φ s) l = (List.scanl g s l).map φ := by
  induction l generalizing s with
  | nil => simp
  | cons a l ih => simp [h, ih]

theorem vscale_comm (c k : α) (a : List α) : vscale c (vscale k a) = vscale k (vscale c a) := by
  rw [vscale_vscale, vscale_vscale, mul_comm]

theorem eulerStep_scale (f f' : List α → α → List α) (k : α)
    (h : ∀ y t, f' (vscale k y) t = vscale k (f y t)) (hs : α) (y : List α) (t : α) :
    eulerStep f' hs (vscale k y) t = vscale k (eulerStep f hs y t) := by
  unfold eulerStep
  rw [h, vscale_comm hs k, ← vscale_vadd]

theorem rk4Step_scale (f f' : List α → α → List α) (k : α)
    (h : ∀ y t, f' (vscale k y) t = vscale k (f y t)) (hs : α) (y : List α) (t : α) :
    rk4Step f' hs (vscale k y) t = vscale k (rk4Step f hs y t) := by
  rw [rk4Step_classical, rk4Step_classical]
  simp only []
  rw [h y t, vscale_comm (hs / 2) k, ← vscale_vadd, h, vscale_comm (hs / 2) k, ← vscale_vadd, h,
    vscale_comm hs k, ← vscale_vadd, h, vscale_comm 2 k, vscale_comm 2 k, ← vscale_vadd, ← vscale_vadd,
    ← vscale_vadd, vscale_comm (hs / 6) k, ← vscale_vadd]

theorem euler_scale (f f' : List α → α → List α) (k : α)
    (h : ∀ y t, f' (vscale k y) t = vscale k (f y t)) (y0 times : List α) :
    euler f' (vscale k y0) times = (euler f y0 times).map (vscale k) := by
  rw [euler_eq_scanl, euler_eq_scanl]
  exact scanl_map_state _ _ (vscale k) (fun s t => eulerStep_scale f f' k h _ s t) y0 _

theorem rk4_scale (f f' : List α → α → List α) (k : α)
    (h : ∀ y t, f' (vscale k y) t = vscale k (f y t)) (y0 times : List α) :
    rk4 f' (vscale k y0) times = (rk4 f y0 times).map (vscale k) := by
  rw [rk4_eq_scanl, rk4_eq_scanl]
  exact scanl_map_state _ _ (vscale k) (fun s t => rk4Step_scale f f' k h _ s t) y0 _

/-! `odeint` -/

theorem lincomb_foldl_scale (k : α) (l : List (α × List α)) (acc : List α) :
    l.foldl (fun acc ck => vadd acc (vscale ck.1 (vscale k ck.2))) (vscale k acc)
      = vscale k (l.foldl (fun acc ck => vadd acc (vscale ck.1 ck.2)) acc) := by
  induction l generalizing acc with
  | nil => rfl
  | cons a l ih =>
    simp only [List.foldl_cons]
    rw [vscale_comm a.1 k, ← vscale_vadd, ih]

theorem lincomb_scale (n : Nat) (c : List α) (ks : List (List α)) (k : α) :
    lincomb n c (ks.map (vscale k)) = vscale k (lincomb n c ks) := by
  unfold lincomb
  rw [List.zip_map_right, List.foldl_map]
  have h0 : vscale k (List.replicate n (0 : α)) = List.replicate n 0 := by simp [vscale]
  have := lincomb_foldl_scale k (c.zip ks) (List.replicate n 0)
  rw [h0] at this
  exact this

theorem rkStages_scale (tb : Tableau α) (f f' : List α → α → List α) (k : α)
    (h : ∀ y t, f' (vscale k y) t = vscale k (f y t)) (y0 f0 : List α) (t0 dt : α) :
    rkStages tb f' (vscale k y0) (vscale k f0) t0 dt = (rkStages tb f y0 f0 t0 dt).map (vscale k) := by
  unfold rkStages
  rw [length_vscale]
  have key : ∀ (l : List Nat) (ks : List (List α)),
      l.foldl (fun (ks : List (List α)) i =>
        ks ++ [f' (vadd (vscale k y0) (vscale dt (lincomb y0.length (tb.beta.getD i []) ks)))
          (t0 + dt * tb.alpha.getD i 0)]) (ks.map (vscale k))
      = (l.foldl (fun (ks : List (List α)) i =>
        ks ++ [f (vadd y0 (vscale dt (lincomb y0.length (tb.beta.getD i []) ks)))
          (t0 + dt * tb.alpha.getD i 0)]) ks).map (vscale k) := by
    intro l
    induction l with
    | nil => intro ks; rfl
    | cons i l ih =>
      intro ks
      simp only [List.foldl_cons]
      rw [lincomb_scale, vscale_comm dt k, ← vscale_vadd, h, ← ih]
      simp
  exact key (List.range 6) [f0]

theorem getD_map_vscale (k : α) (l : List (List α)) (i : Nat) :
    (l.map (vscale k)).getD i [] = vscale k (l.getD i []) := by
  simp only [List.getD_eq_getElem?_getD, List.getElem?_map]
  cases l[i]? <;> simp [vscale]

theorem rkStep_scale (tb : Tableau α) (f f' : List α → α → List α) (k : α)
    (h : ∀ y t, f' (vscale k y) t = vscale k (f y t)) (y0 f0 : List α) (t0 dt : α) :
    rkStep tb f' (vscale k y0) (vscale k f0) t0 dt
      = (vscale k (rkStep tb f y0 f0 t0 dt).1, vscale k (rkStep tb f y0 f0 t0 dt).2.1,
         vscale k (rkStep tb f y0 f0 t0 dt).2.2.1, (rkStep tb f y0 f0 t0 dt).2.2.2.map (vscale k)) := by
  rw [rkStep_eq, rkStep_eq, rkStages_scale tb f f' k h, length_vscale, lincomb_scale, lincomb_scale,
    getD_map_vscale, vscale_comm dt k, vscale_comm dt k, ← vscale_vadd]

theorem interpFit_scale (tb : Tableau α) (k : α) (y0 y1 : List α) (ks : List (List α)) (dt : α) :
    interpFit tb (vscale k y0) (vscale k y1) (ks.map (vscale k)) dt
      = (interpFit tb y0 y1 ks dt).map (vscale k) := by
  unfold interpFit
  simp only [length_vscale, lincomb_scale, getD_map_vscale, vscale_comm dt k, ← vscale_vadd, List.map_map]
  apply List.map_congr_left
  intro row _
  simp only [Function.comp]
  exact lincomb_scale _ row [_, _, _, _, _] k

theorem polyval_scale (k : α) (cs : List (List α)) (x : α) :
    polyval (cs.map (vscale k)) x = vscale k (polyval cs x) := by
  cases cs with
  | nil => rfl
  | cons c cs =>
    simp only [List.map_cons, polyval, List.foldl_map]
    induction cs generalizing c with
    | nil => rfl
    | cons c' cs ih =>
      simp only [List.foldl_cons]
      rw [vscale_comm x k, ← vscale_vadd, ih]

theorem stepState_scale (tb : Tableau α) (ctl : Control α) (f f' : List α → α → List α) (k : α)
    (h : ∀ y t, f' (vscale k y) t = vscale k (f y t)) (hctl : ScaleInvariantCtl ctl k) (s : OdeState α) :
    stepState tb ctl f' (scaleState k s) = scaleState k (stepState tb ctl f s) := by
  unfold stepState
  simp only [scaleState, rkStep_scale tb f f' k h, hctl _ _ _, interpFit_scale]
  by_cases hacc : ctl.accept (ctl.errorRatio (rkStep tb f s.y s.f s.t s.dt).2.2.1 s.y
      (rkStep tb f s.y s.f s.t s.dt).1) = true
  · simp only [hacc, if_true]
  · simp only [hacc, Bool.false_eq_true, if_false]

theorem advance_scale (tb : Tableau α) (ctl : Control α) (f f' : List α → α → List α) (k : α)
    (h : ∀ y t, f' (vscale k y) t = vscale k (f y t)) (hctl : ScaleInvariantCtl ctl k) (target : α) :
    ∀ (fuel : Nat) (s : OdeState α),
      advance tb ctl f' target fuel (scaleState k s) = scaleState k (advance tb ctl f target fuel s)
  | 0, _ => rfl
  | fuel + 1, s => by
      rw [advance_succ, advance_succ, stepState_scale tb ctl f f' k h hctl]
      have hc : contCond ctl target (scaleState k s) = contCond ctl target s := rfl
      rw [hc]
      split
      · exact advance_scale tb ctl f f' k h hctl target fuel _
      · rfl

theorem odeRow_scale (k : α) (s : OdeState α) (target : α) :
    odeRow (scaleState k s) target = vscale k (odeRow s target) := by
  simp only [odeRow, scaleState, polyval_scale]

theorem scanOut_scale (tb : Tableau α) (ctl : Control α) (f f' : List α → α → List α) (k : α)
    (h : ∀ y t, f' (vscale k y) t = vscale k (f y t)) (hctl : ScaleInvariantCtl ctl k) (fuel : Nat) :
    ∀ (l : List α) (s : OdeState α),
      scanOut (fun s target => advance tb ctl f' target fuel s) odeRow (scaleState k s) l
        = (scanOut (fun s target => advance tb ctl f target fuel s) odeRow s l).map (vscale k)
  | [], _ => rfl
  | T :: l, s => by
      simp only [scanOut, List.map_cons, advance_scale tb ctl f f' k h hctl T fuel s, odeRow_scale,
        scanOut_scale tb ctl f f' k h hctl fuel l]

/-- **Dormand–Prince under scaling**: for a step controller with scale-invariant error ratio, the dense
output rows from `k·y0` under `f'` are `k` times the rows from `y0` under `f`. -/
theorem odeint_scale (tb : Tableau α) (ctl : Control α) (f f' : List α → α → List α) (k : α)
    (h : ∀ y t, f' (vscale k y) t = vscale k (f y t)) (hctl : ScaleInvariantCtl ctl k) (fuel : Nat) (dt0 : α)
    (y0 ts : List α) :
    odeint tb ctl f' fuel dt0 (vscale k y0) ts = (odeint tb ctl f fuel dt0 y0 ts).map (vscale k) := by
  rw [odeint_eq', odeint_eq']
  have h0 : odeInit f' dt0 (vscale k y0) (ts.getD 0 0) = scaleState k (odeInit f dt0 y0 (ts.getD 0 0)) := by
    simp only [odeInit, scaleState, h, List.map_replicate]
  rw [h0, scanOut_scale tb ctl f f' k h hctl fuel]
  rfl

end scaleSolver

/-! ### the rate laws are homogeneous of degree one -/
section scaleRates
variable {α : Type} [Field α]

theorem vscale_map {β : Type} (k : α) (l : List β) (g : β → α) :
    vscale k (l.map g) = l.map (fun r => k * g r) := by
  simp [vscale]

theorem gather_vscale (k : α) (x : List α) (idx : List Nat) :
    gather (vscale k x) idx = vscale k (gather x idx) := by
  simp only [gather, vscale, List.map_map]
  apply List.map_congr_left
  intro i _
  exact getD_vscale k x i

theorem vmul_vscale_left (k : α) (a b : List α) : vmul (vscale k a) b = vscale k (vmul a b) := by
  simp only [vmul, vscale, List.zipWith_map_left, List.map_zipWith, mul_assoc]

theorem matVec_vscale (mix : Matrix α) (k : α) (v : List α) :
    matVec mix (vscale k v) = vscale k (matVec mix v) := by
  simp only [matVec, vscale, List.map_map]
  apply List.map_congr_left
  intro row _
  exact dot_vscale row k v

theorem zipWith_div_vscale (k : α) (hk : k ≠ 0) (a b : List α) :
    List.zipWith (· / ·) (vscale k a) (vscale k b) = List.zipWith (· / ·) a b := by
  simp only [vscale, List.zipWith_map, mul_div_mul_left _ _ hk]

theorem forceOfInfection_scale (k : α) (hk : k ≠ 0) (iv inf : List α) (cat : List (List Nat)) (mix : Matrix α)
    (cp : List α) :
    forceOfInfection (vscale k iv) inf cat mix (vscale k cp)
      = (vscale k (forceOfInfection iv inf cat mix cp).1, (forceOfInfection iv inf cat mix cp).2) := by
  have hp : cat.map (fun row => sumL (gather (vmul (vscale k iv) inf) row))
      = vscale k (cat.map (fun row => sumL (gather (vmul iv inf) row))) := by
    rw [vscale_map]
    apply List.map_congr_left
    intro row _
    rw [vmul_vscale_left, gather_vscale, sumL_vscale]
  simp only [forceOfInfection, hp, matVec_vscale, zipWith_div_vscale k hk]

theorem catPops_scale (b : Backend) (k : α) (x : List α) :
    b.catIdx.map (fun row => sumL (vscale k (gather x row)))
      = vscale k (b.catIdx.map (fun row => sumL (gather x row))) := by
  rw [vscale_map]
  apply List.map_congr_left
  intro row _
  rw [sumL_vscale]

/-- frequency-dependent force of infection is homogeneous of degree zero -/
theorem infectiousMultipliers_scale_freq (b : Backend) (hp : b.procType = some true) (k : α) (hk : k ≠ 0)
    (x : List α) (mix : Matrix α) (ci : List α) :
    infectiousMultipliers b (vscale k x) mix ci = infectiousMultipliers b x mix ci := by
  simp only [infectiousMultipliers, catPops_scale, gather_vscale, forceOfInfection_scale k hk, hp, beq_self_eq_true,
    if_true]

theorem getD_getD_map_vscale (k : α) (per : List (List α)) (s c : Nat) :
    ((per.map (vscale k)).getD s []).getD c 0 = k * (per.getD s []).getD c 0 := by
  have : (per.map (vscale k)).getD s [] = vscale k (per.getD s []) := by
    simp only [List.getD_eq_getElem?_getD, List.getElem?_map]
    cases per[s]? <;> simp [vscale]
  rw [this, getD_vscale]

/-- density-dependent force of infection is homogeneous of degree one -/
theorem infectiousMultipliers_scale_dens (b : Backend) (hp : b.procType ≠ some true) (k : α) (hk : k ≠ 0)
    (x : List α) (mix : Matrix α) (ci : List α) :
    infectiousMultipliers b (vscale k x) mix ci
      = (vscale k (infectiousMultipliers b x mix ci).1, (infectiousMultipliers b x mix ci).2.map (vscale k)) := by
  have hp' : (b.procType == some true) = false := by simpa using hp
  simp only [infectiousMultipliers, catPops_scale, gather_vscale, forceOfInfection_scale k hk, hp',
    Bool.false_eq_true, if_false, Prod.mk.injEq]
  have hper : ∀ (l : List (List Nat × List (List Nat))),
      l.map (fun sc => vscale k (forceOfInfection (gather x sc.1) (gather ci sc.1) sc.2 mix
          (b.catIdx.map fun row => sumL (gather x row))).1)
        = (l.map (fun sc => (forceOfInfection (gather x sc.1) (gather ci sc.1) sc.2 mix
          (b.catIdx.map fun row => sumL (gather x row))).1)).map (vscale k) := by
    intro l; rw [List.map_map]; rfl
  refine ⟨?_, hper _⟩
  rw [hper, vscale_map]
  apply List.map_congr_left
  intro sc _
  rw [one_mul, one_mul]
  exact getD_getD_map_vscale k _ sc.1 sc.2

end scaleRates

section scaleFlowRates
variable {α : Type} [Field α] {m : Model α} {b : Backend}

theorem zip_zipWith {β γ : Type} (G : β → γ → γ) : ∀ (l : List β) (w : List γ),
    l.zip (List.zipWith G l w) = (l.zip w).map (fun p => (p.1, G p.1 p.2))
  | [], _ => by simp
  | _ :: _, [] => by simp
  | a :: l, x :: w => by simp [zip_zipWith G l w]

theorem scaleWeights_length (k : α) (dens : Bool) (w : List α) (hw : w.length = m.flows.length) :
    (scaleWeights m k dens w).length = m.flows.length := by
  simp [scaleWeights, hw]

theorem scaleWeights_getD (k : α) (dens : Bool) (w : List α) (hw : w.length = m.flows.length) (i : Nat)
    (hi : i < m.flows.length) :
    (scaleWeights m k dens w).getD i 0 = w.getD i 0 * weightFactor k dens m.flows[i].kind := by
  rw [getD_eq_getElem _ _ _ (by rw [scaleWeights_length k dens w hw]; exact hi),
    getD_eq_getElem _ _ _ (by omega)]
  simp [scaleWeights]

theorem deathsGen_scale (k : α) (dens : Bool) (w xc : List α) :
    deathsGen m (scaleWeights m k dens w) (vscale k xc) = k * deathsGen m w xc := by
  unfold deathsGen scaleWeights
  rw [zip_zipWith, sumL_filter_map, sumL_filter_map, List.map_map, mul_comm, ← sumL_map_mul_right]
  apply sumL_map_congr
  intro fw _
  simp only [Function.comp]
  by_cases hd : isDeath fw.1.kind = true
  · have hkd : fw.1.kind = .death := by
      cases hkk : fw.1.kind <;> simp [hkk, isDeath] at hd
      rfl
    simp only [hd, if_true, getD_vscale]
    simp only [weightFactor, hkd, isAbsInflow, isInfection, Bool.and_false, Bool.false_eq_true, if_false]
    ring
  · simp only [hd, Bool.false_eq_true, if_false, zero_mul]

/-- the per-flow rate before the replacement update scales by `k`, except for replacement births,
whose first factor is unchanged -/
theorem rate1_scale (k : α) (hk : k ≠ 0) (dens : Bool) (w xc mults : List α)
    (hw : w.length = m.flows.length) (hm : mults.length = nInfection m) (i : Nat) (hi : i < m.flows.length) :
    rate1 m (scaleWeights m k dens w) (vscale k xc) (if dens then vscale k mults else mults) i m.flows[i]
      = (if isReplacement m.flows[i].kind then 1 else k) * rate1 m w xc mults i m.flows[i] := by
  have hmul : isInfection m.flows[i].kind = true →
      (vscale k mults).getD (infPos m i) 1 = k * mults.getD (infPos m i) 1 := by
    intro h
    have hlt := infPos_lt m i hi h
    rw [getD_eq_getElem _ _ _ (by simpa [hm] using hlt), getD_eq_getElem _ _ _ (by omega)]
    simp
  unfold rate1 genPop
  rw [scaleWeights_getD k dens w hw i hi]
  cases dens
  · cases hkind : m.flows[i].kind <;>
      simp only [weightFactor, isAbsInflow, isInfection, isCrude, isNonPop, isReplacement, Bool.false_and,
        Bool.false_eq_true, if_false, if_true, getD_vscale, sumL_vscale] <;> ring1
  · cases hkind : m.flows[i].kind <;>
      simp only [weightFactor, isAbsInflow, isInfection, isCrude, isNonPop, isReplacement, Bool.true_and,
        Bool.false_eq_true, if_false, if_true, getD_vscale, sumL_vscale] <;>
      first
      | ring1
      | (rw [hmul (by rw [hkind]; rfl)]; field_simp)

/-- **degree-one homogeneity of the flow rates**: multiply the state by `k ≠ 0`, the weights of
imports/absolute flows by `k` (for density-dependent transmission also the infection weights by `1/k`,
the multipliers being then `k` times larger): every flow rate is multiplied by `k`. -/
theorem flowRates_scale (hb : BackendFor m b) (k : α) (hk : k ≠ 0) (dens : Bool) (w xc mults : List α)
    (hw : w.length = m.flows.length) (hm : mults.length = nInfection m) :
    flowRates b (scaleWeights m k dens w) (vscale k xc) (if dens then vscale k mults else mults)
      = vscale k (flowRates b w xc mults) := by
  have hw' := scaleWeights_length (m := m) k dens w hw
  apply ext_getD
  · rw [flowRates_length hb _ _ _ hw', length_vscale, flowRates_length hb _ _ _ hw]
  · intro i
    by_cases hi : i < m.flows.length
    · rw [getD_vscale, flowRates_getD hb _ _ _ hw' i hi, flowRates_getD hb _ _ _ hw i hi]
      unfold genRate
      rw [rate1_scale k hk dens w xc mults hw hm i hi, deathsGen_scale]
      by_cases hr : isReplacement m.flows[i].kind = true
      · simp only [hr, if_true]; ring
      · simp only [hr, Bool.false_eq_true, if_false]
    · rw [getD_of_le _ _ _ (by rw [flowRates_length hb _ _ _ hw']; omega),
        getD_of_le _ _ _ (by rw [length_vscale, flowRates_length hb _ _ _ hw]; omega)]

theorem compRates_scale (b : Backend) (k : α) (r : List α) :
    compRates b (vscale k r) = vscale k (compRates b r) := matVec_vscale _ k r

end scaleFlowRates

section cleanScale
variable {α : Type} [Field α] [LinearOrder α] [IsStrictOrderedRing α]

theorem clean_scale (k : α) (hk : 0 < k) (x : α) : clean (k * x) = k * clean x := by
  unfold clean
  by_cases hx : x < 0
  · rw [if_pos (mul_neg_of_pos_of_neg hk hx), if_pos hx, mul_zero]
  · rw [if_neg (not_lt.2 (mul_nonneg hk.le (not_lt.1 hx))), if_neg hx]

theorem cleanV_scale (k : α) (hk : 0 < k) (x : List α) : cleanV (vscale k x) = vscale k (cleanV x) := by
  simp only [cleanV, vscale, List.map_map]
  apply List.map_congr_left
  intro a _
  exact clean_scale k hk a

end cleanScale

/-! ### the index tables only read `kind`, `src`, `dst` of the flows -/
section prepareMap

theorem idxWhere_map {β γ : Type} (l : List β) (g : β → γ) (p : γ → Bool) :
    idxWhere (l.map g) p = idxWhere l (fun x => p (g x)) := by
  rw [idxWhere_eq, idxWhere_eq]
  generalize 0 = k
  induction l generalizing k with
  | nil => rfl
  | cons a l ih => simp only [List.map_cons, idxFrom, ih]

theorem prepare_map_flows {α : Type} (m : Model α) (g : Flow α → Flow α)
    (hk : ∀ f, (g f).kind = f.kind) (hs : ∀ f, (g f).src = f.src) (hd : ∀ f, (g f).dst = f.dst) :
    prepare { m with flows := m.flows.map g } = prepare m := by
  unfold prepare
  simp only [List.mapM_map, idxWhere_map, List.filter_map, List.any_map, List.length_map, Function.comp_def,
    hk, hs, hd]
  rfl

theorem nInfection_zero_of_procType_none {α : Type} {m : Model α} {b : Backend} (hb : BackendFor m b)
    (h : b.procType.isSome = false) : nInfection m = 0 := by
  have := hb.procType
  rw [h] at this
  unfold nInfection
  rw [List.length_eq_zero_iff, List.filter_eq_nil_iff]
  intro f hf
  have h2 := List.any_eq_false.1 this.symm f hf
  simpa using h2

end prepareMap

/-! ### state-free expressions -/
section evalState
variable {α : Type} [Zero α] [Add α] [Sub α] [Mul α] [Div α] [LT α] [DecidableLT α]

mutual
/-- an expression that does not read the compartment values evaluates to the same result in every
state -/
theorem eval_state_indep (p : List (String × α)) (t : α) (x x' : List α) :
    ∀ e : Expr α, usesState e = false → e.eval ⟨p, t, x⟩ = e.eval ⟨p, t, x'⟩
  | .const _, _ => by simp [Expr.eval]
  | .param _, _ => by simp [Expr.eval]
  | .time, _ => by simp [Expr.eval]
  | .comp _, h => by simp [usesState] at h
  | .popSum, h => by simp [usesState] at h
  | .add a b, h => by
      simp only [usesState, Bool.or_eq_false_iff] at h
      simp only [Expr.eval, eval_state_indep p t x x' a h.1, eval_state_indep p t x x' b h.2]
  | .sub a b, h => by
      simp only [usesState, Bool.or_eq_false_iff] at h
      simp only [Expr.eval, eval_state_indep p t x x' a h.1, eval_state_indep p t x x' b h.2]
  | .mul a b, h => by
      simp only [usesState, Bool.or_eq_false_iff] at h
      simp only [Expr.eval, eval_state_indep p t x x' a h.1, eval_state_indep p t x x' b h.2]
  | .div a b, h => by
      simp only [usesState, Bool.or_eq_false_iff] at h
      simp only [Expr.eval, eval_state_indep p t x x' a h.1, eval_state_indep p t x x' b h.2]
  | .pw a bs vs, h => by
      simp only [usesState, Bool.or_eq_false_iff] at h
      simp only [Expr.eval, eval_state_indep p t x x' a h.1.1,
        evalList_state_indep p t x x' bs h.1.2, evalList_state_indep p t x x' vs h.2]
  | .lin a bs vs, h => by
      simp only [usesState, Bool.or_eq_false_iff] at h
      simp only [Expr.eval, eval_state_indep p t x x' a h.1.1,
        evalList_state_indep p t x x' bs h.1.2, evalList_state_indep p t x x' vs h.2]
theorem evalList_state_indep (p : List (String × α)) (t : α) (x x' : List α) :
    ∀ l : List (Expr α), usesStateList l = false →
      Expr.evalList ⟨p, t, x⟩ l = Expr.evalList ⟨p, t, x'⟩ l
  | [], _ => by simp [Expr.evalList]
  | e :: es, h => by
      simp only [usesStateList, Bool.or_eq_false_iff] at h
      simp only [Expr.evalList, eval_state_indep p t x x' e h.1, evalList_state_indep p t x x' es h.2]
end

theorem mapM_option_isSome {β γ} (F : β → Option γ) :
    ∀ (l : List β), (l.mapM F).isSome = l.all (fun x => (F x).isSome)
  | [] => by simp
  | a :: l => by
      rw [List.mapM_cons, List.all_cons, ← mapM_option_isSome F l]
      cases F a <;> cases l.mapM F <;> simp

theorem mapM_option_map_zip {β γ} (F : β → Option γ) (G : β → γ → γ) :
    ∀ (l : List β), l.mapM (fun a => (F a).map (G a)) = (l.mapM F).map (fun w => List.zipWith G l w)
  | [] => by simp
  | a :: l => by
      rw [List.mapM_cons, List.mapM_cons, mapM_option_map_zip F G l]
      cases F a <;> cases l.mapM F <;> simp

end evalState

/-! ### normal form of the right-hand side -/
section rhsForm
variable {α : Type} [Zero α] [One α] [Add α] [Sub α] [Mul α] [Div α] [LT α] [DecidableLT α]

/-- the realised weights at an environment -/
def weightsAt (m : Model α) (env : Env α) : Option (List α) :=
  m.flows.mapM (fun f => (realised f).eval env)

/-- the pure part of `step`/`rhs`: compartment rates from weights, cleaned state, mixing matrix and
compartment infectiousness -/
def ratesOf (b : Backend) (w xc : List α) (mix : Matrix α) (ci : List α) : List α :=
  compRates b (flowRates b w xc (if b.procType.isSome then (infectiousMultipliers b xc mix ci).1 else []))

omit [One α] in
theorem static_isSome_of_weightsAt (m : Model α) (env : Env α) (h : (weightsAt m env).isSome = true) :
    (staticFlowWeights m env.params).isSome = true := by
  unfold weightsAt at h
  unfold staticFlowWeights
  rw [mapM_option_isSome, List.all_eq_true] at h ⊢
  intro f hf
  have := h f hf
  by_cases hu : (realised f).usesModelVars = true
  · simp [hu]
  · have hu' : (realised f).usesModelVars = false := by simpa using hu
    simp only [hu, Bool.false_eq_true, if_false]
    unfold evalStatic
    rw [← eval_coincidence_env (realised f) hu' env ⟨env.params, 0, []⟩ rfl]
    exact this

omit [One α] in
theorem weightsAt_length (m : Model α) (env : Env α) (w : List α) (h : weightsAt m env = some w) :
    w.length = m.flows.length := (mapM_option_some _ _ _ h).1

/-- `rhs` only depends on the realised weights, the mixing matrix and the compartment infectiousness -/
theorem rhs_eq (m : Model α) (b : Backend) (p : List (String × α)) (x : List α) (t : α) :
    rhs m b p x t =
      (weightsAt m ⟨p, t, cleanV x⟩).bind fun w =>
      (mixingMatrix m ⟨p, t, cleanV x⟩).bind fun mix =>
      (compInfectiousness m p).bind fun ci => some (ratesOf b w (cleanV x) mix ci) := by
  unfold rhs step
  cases hs : staticFlowWeights m p with
  | none =>
    cases hw : weightsAt m ⟨p, t, cleanV x⟩ with
    | none => rfl
    | some w =>
      have := static_isSome_of_weightsAt m ⟨p, t, cleanV x⟩ (by rw [hw]; rfl)
      simp only [hs] at this
      exact absurd this (by simp)
  | some st =>
    have hfw := flowWeights_eq_mapM m ⟨p, t, cleanV x⟩ p st rfl hs
    simp only [Option.bind_eq_bind, Option.bind_some, hfw]
    unfold weightsAt
    cases m.flows.mapM (fun f => (realised f).eval ⟨p, t, cleanV x⟩) with
    | none => rfl
    | some w =>
      cases mixingMatrix m ⟨p, t, cleanV x⟩ with
      | none => rfl
      | some mix =>
        cases compInfectiousness m p with
        | none => rfl
        | some ci =>
          simp only [Option.bind_some, Option.map_some, pure, ratesOf]
          split <;> rfl

/-- the pure part of `step` -/
def outOf (b : Backend) (w xc : List α) (mix : Matrix α) (ci : List α) : StepOut α :=
  let mp := if b.procType.isSome then infectiousMultipliers b xc mix ci else ([], [])
  let fr := flowRates b w xc mp.1
  { weights := w, mults := mp.1, perStrain := mp.2, mixing := mix, compInf := ci, flowRates := fr,
    compRates := compRates b fr }

theorem step_eq (m : Model α) (b : Backend) (p : List (String × α)) (x : List α) (t : α) :
    step m b p t x =
      (weightsAt m ⟨p, t, cleanV x⟩).bind fun w =>
      (mixingMatrix m ⟨p, t, cleanV x⟩).bind fun mix =>
      (compInfectiousness m p).bind fun ci => some (outOf b w (cleanV x) mix ci) := by
  unfold step
  cases hs : staticFlowWeights m p with
  | none =>
    cases hw : weightsAt m ⟨p, t, cleanV x⟩ with
    | none => rfl
    | some w =>
      have := static_isSome_of_weightsAt m ⟨p, t, cleanV x⟩ (by rw [hw]; rfl)
      simp only [hs] at this
      exact absurd this (by simp)
  | some st =>
    have hfw := flowWeights_eq_mapM m ⟨p, t, cleanV x⟩ p st rfl hs
    simp only [Option.bind_eq_bind, Option.bind_some, hfw]
    unfold weightsAt
    cases m.flows.mapM (fun f => (realised f).eval ⟨p, t, cleanV x⟩) with
    | none => rfl
    | some w =>
      cases mixingMatrix m ⟨p, t, cleanV x⟩ with
      | none => rfl
      | some mix =>
        cases compInfectiousness m p with
        | none => rfl
        | some ci =>
          simp only [Option.bind_some, pure, outOf]

theorem mapM_option_eq_map {β γ} (F : β → Option γ) (d : γ) :
    ∀ (l : List β), l.mapM F =
      if l.all (fun a => (F a).isSome) then some (l.map (fun a => (F a).getD d)) else none
  | [] => by simp
  | a :: l => by
      rw [List.mapM_cons, mapM_option_eq_map F d l]
      cases hFa : F a <;> by_cases h : (l.all fun a => (F a).isSome) = true <;> simp [h, hFa]

end rhsForm

/-! ### the scaled model -/
section scaleModel
set_option linter.unusedSectionVars false
variable {α : Type} [Field α] [LinearOrder α] [IsStrictOrderedRing α]

theorem realised_append_mul (f : Flow α) (e : Expr α) :
    realised { f with adjs := f.adjs ++ [.mul e] } = .mul (realised f) e := by
  simp [realised, List.foldl_append]

theorem weightFactor_one (k : α) (dens : Bool) (kind : FlowKind)
    (h : (isAbsInflow kind || (dens && isInfection kind)) = false) : weightFactor k dens kind = 1 := by
  simp only [Bool.or_eq_false_iff] at h
  simp [weightFactor, h.1, h.2]

theorem realised_scaleFlow_eval (k : α) (dens : Bool) (f : Flow α) (env : Env α) :
    (realised (scaleFlow k dens f)).eval env
      = ((realised f).eval env).map (fun x => x * weightFactor k dens f.kind) := by
  unfold scaleFlow
  by_cases h : (isAbsInflow f.kind || (dens && isInfection f.kind)) = true
  · rw [if_pos h, realised_append_mul]
    simp only [Expr.eval]
    cases (realised f).eval env <;> rfl
  · have h' : (isAbsInflow f.kind || (dens && isInfection f.kind)) = false := by simpa using h
    rw [if_neg h, weightFactor_one k dens f.kind h']
    cases (realised f).eval env <;> simp

theorem scaleFlow_kind (k : α) (dens : Bool) (f : Flow α) : (scaleFlow k dens f).kind = f.kind := by
  unfold scaleFlow; split <;> rfl
theorem scaleFlow_src (k : α) (dens : Bool) (f : Flow α) : (scaleFlow k dens f).src = f.src := by
  unfold scaleFlow; split <;> rfl
theorem scaleFlow_dst (k : α) (dens : Bool) (f : Flow α) : (scaleFlow k dens f).dst = f.dst := by
  unfold scaleFlow; split <;> rfl

/-- the scaled model has the same index tables -/
theorem prepare_scaleModel (k : α) (dens : Bool) (m : Model α) : prepare (scaleModel k dens m) = prepare m :=
  prepare_map_flows m (scaleFlow k dens) (scaleFlow_kind k dens) (scaleFlow_src k dens) (scaleFlow_dst k dens)

theorem weightsAt_scaleModel (k : α) (dens : Bool) (m : Model α) (env : Env α) :
    weightsAt (scaleModel k dens m) env = (weightsAt m env).map (scaleWeights m k dens) := by
  unfold weightsAt scaleModel scaleWeights
  simp only [List.mapM_map, Function.comp_def, realised_scaleFlow_eval]
  exact mapM_option_map_zip (fun f => (realised f).eval env) (fun f x => x * weightFactor k dens f.kind) m.flows

theorem weightsAt_state_indep (m : Model α) (hm : stateFreeI m = true) (p : List (String × α)) (t : α)
    (x x' : List α) : weightsAt m ⟨p, t, x⟩ = weightsAt m ⟨p, t, x'⟩ := by
  unfold weightsAt
  apply mapM_option_congr
  intro f hf
  simp only [stateFreeI, Bool.and_eq_true, List.all_eq_true, Bool.not_eq_true'] at hm
  exact eval_state_indep p t x x' _ (hm.1 f hf)

theorem mixingMatrix_state_indep (m : Model α) (hm : stateFreeI m = true) (p : List (String × α)) (t : α)
    (x x' : List α) : mixingMatrix m ⟨p, t, x⟩ = mixingMatrix m ⟨p, t, x'⟩ := by
  unfold mixingMatrix
  simp only [stateFreeI, Bool.and_eq_true, List.all_eq_true, Bool.not_eq_true'] at hm
  have : ∀ mat ∈ m.mixingMats, evalMatrix ⟨p, t, x⟩ mat = evalMatrix ⟨p, t, x'⟩ mat := by
    intro mat hmat
    unfold evalMatrix
    apply mapM_option_congr
    intro row hrow
    apply mapM_option_congr
    intro e he
    exact eval_state_indep p t x x' e (hm.2 mat hmat row hrow e he)
  rw [mapM_option_congr _ _ m.mixingMats this]

/-- degree-one homogeneity of the pure part of the right-hand side -/
theorem ratesOf_scale {m : Model α} {b : Backend} (hb : BackendFor m b) (k : α) (hk : k ≠ 0) (dens : Bool)
    (hd : dens = (b.procType == some false)) (w xc : List α) (hw : w.length = m.flows.length)
    (mix : Matrix α) (ci : List α) :
    ratesOf b (scaleWeights m k dens w) (vscale k xc) mix ci = vscale k (ratesOf b w xc mix ci) := by
  unfold ratesOf
  rw [← compRates_scale]
  congr 1
  cases hp : b.procType with
  | none =>
    have hd' : dens = false := by rw [hd, hp]; rfl
    have := flowRates_scale hb k hk dens w xc [] hw
      (by rw [nInfection_zero_of_procType_none hb (by rw [hp]; rfl)]; rfl)
    simpa [hd', hp] using this
  | some fr =>
    have hlen := infectiousMultipliers_length hb xc mix ci
    cases fr with
    | true =>
      have hd' : dens = false := by rw [hd, hp]; rfl
      have := flowRates_scale hb k hk dens w xc (infectiousMultipliers b xc mix ci).1 hw hlen
      simp only [hd', Bool.false_eq_true, if_false] at this
      simp only [Option.isSome_some, if_true, infectiousMultipliers_scale_freq b hp k hk]
      rw [← this, hd']
    | false =>
      have hd' : dens = true := by rw [hd, hp]; rfl
      have := flowRates_scale hb k hk dens w xc (infectiousMultipliers b xc mix ci).1 hw hlen
      simp only [hd', if_true] at this
      simp only [Option.isSome_some, if_true,
        infectiousMultipliers_scale_dens b (by rw [hp]; simp) k hk]
      rw [← this, hd']

/-- **degree-one homogeneity of the right-hand side.**  `m` has state-free weights and mixing matrix,
`b` its index tables, `k > 0`; `dens` says whether transmission is density dependent.  Then the
right-hand side of the scaled model at `k·x` is `k` times the right-hand side of `m` at `x` (and is
defined exactly when the latter is). -/
theorem rhs_scale {m : Model α} {b : Backend} (hb : BackendFor m b) (hm : stateFreeI m = true) (k : α) (hk : 0 < k)
    (dens : Bool) (hd : dens = (b.procType == some false)) (p : List (String × α)) (x : List α) (t : α) :
    rhs (scaleModel k dens m) b p (vscale k x) t = (rhs m b p x t).map (vscale k) := by
  rw [rhs_eq, rhs_eq, cleanV_scale k hk, weightsAt_scaleModel,
    weightsAt_state_indep m hm p t (vscale k (cleanV x)) (cleanV x)]
  have hmix : mixingMatrix (scaleModel k dens m) ⟨p, t, vscale k (cleanV x)⟩ = mixingMatrix m ⟨p, t, cleanV x⟩ :=
    mixingMatrix_state_indep m hm p t _ _
  have hci : compInfectiousness (scaleModel k dens m) p = compInfectiousness m p := rfl
  rw [hmix, hci]
  cases hw : weightsAt m ⟨p, t, cleanV x⟩ with
  | none => rfl
  | some w =>
    have hwl := weightsAt_length m _ w hw
    cases mixingMatrix m ⟨p, t, cleanV x⟩ with
    | none => rfl
    | some mix =>
      cases compInfectiousness m p with
      | none => rfl
      | some ci =>
        simp only [Option.map_some, Option.bind_some]
        rw [ratesOf_scale hb k hk.ne' dens hd w (cleanV x) hwl mix ci]

theorem field_scale {m : Model α} {b : Backend} (hb : BackendFor m b) (hm : stateFreeI m = true) (k : α) (hk : 0 < k)
    (dens : Bool) (hd : dens = (b.procType == some false)) (p : List (String × α)) (x : List α) (t : α) :
    field (scaleModel k dens m) b p (vscale k x) t = vscale k (field m b p x t) := by
  unfold field
  rw [rhs_scale hb hm k hk dens hd]
  cases rhs m b p x t with
  | none => simp [scaleModel, vscale]
  | some r => rfl

end scaleModel

/-! ## 3. reordering -/

/-! ### `Comp` equality is lawful; `compIdx` -/
section compIdx

theorem Comp.beq_eq (c c' : Comp) : (c == c') = decide (c = c') := by
  cases c with | mk n s =>
  cases c' with | mk n' s' =>
  show (n == n' && s == s') = _
  simp only [Comp.mk.injEq, Bool.decide_and]
  congr 1
  exact beq_eq_decide s s'

instance : LawfulBEq Comp where
  eq_of_beq {a b} h := by rw [Comp.beq_eq] at h; simpa using h
  rfl {a} := by rw [Comp.beq_eq]; simp

theorem indexOf?_go_spec {β : Type} [BEq β] (x : β) : ∀ (l : List β) (k i : Nat),
    indexOf?.go x l k = some i → k ≤ i ∧ ∃ h : i - k < l.length, (l[i - k] == x) = true
  | [], _, _, h => by simp [indexOf?.go] at h
  | y :: ys, k, i, h => by
      simp only [indexOf?.go] at h
      split at h
      · simp only [Option.some.injEq] at h; subst h
        simpa using ‹(y == x) = true›
      · obtain ⟨h1, h2, h3⟩ := indexOf?_go_spec x ys (k + 1) i h
        refine ⟨by omega, ?_⟩
        have : i - k = (i - (k + 1)) + 1 := by omega
        simp only [this, List.length_cons, List.getElem_cons_succ]
        exact ⟨by omega, h3⟩

/-- `compIdx` returns a position holding that compartment -/
theorem compIdx_getElem (comps : List Comp) (c : Comp) (i : Nat) (h : compIdx comps c = some i) :
    ∃ hi : i < comps.length, comps[i] = c := by
  obtain ⟨_, h2, h3⟩ := indexOf?_go_spec c comps 0 i h
  simp only [Nat.sub_zero] at h2 h3
  exact ⟨h2, by simpa using h3⟩

theorem indexOf?_go_of_nodup (x : Comp) : ∀ (l : List Comp) (k j : Nat) (hj : j < l.length),
    l.Nodup → l[j] = x → indexOf?.go x l k = some (k + j)
  | [], _, _, hj, _, _ => by simp at hj
  | y :: ys, k, j, hj, hnd, hx => by
      simp only [indexOf?.go]
      cases j with
      | zero =>
        simp only [List.getElem_cons_zero] at hx
        simp [hx]
      | succ j =>
        simp only [List.getElem_cons_succ] at hx
        have hne : (y == x) = false := by
          rw [List.nodup_cons] at hnd
          have : y ≠ x := by
            intro hyx; subst hyx
            exact hnd.1 (hx ▸ List.getElem_mem _)
          simpa using this
        simp only [hne, Bool.false_eq_true, if_false]
        rw [indexOf?_go_of_nodup x ys (k + 1) j (by simpa using hj) (List.nodup_cons.1 hnd).2 hx]
        congr 1; omega

/-- in a duplicate-free compartment list every position is the `compIdx` of its entry -/
theorem compIdx_of_nodup (comps : List Comp) (hnd : comps.Nodup) (j : Nat) (hj : j < comps.length) :
    compIdx comps comps[j] = some j := by
  have := indexOf?_go_of_nodup comps[j] comps 0 j hj hnd rfl
  simpa [compIdx, indexOf?] using this

/-- two compartments found at the same position are equal -/
theorem compIdx_inj (comps : List Comp) (c d : Comp) (i : Nat) (hc : compIdx comps c = some i)
    (hd : compIdx comps d = some i) : d = c := by
  obtain ⟨_, h1⟩ := compIdx_getElem comps c i hc
  obtain ⟨_, h2⟩ := compIdx_getElem comps d i hd
  rw [← h1, ← h2]

end compIdx

section permRates
variable {α : Type} [Field α]

theorem sumL_perm {l l' : List α} (h : l.Perm l') : sumL l = sumL l' := by
  induction h with
  | nil => rfl
  | cons x _ ih => simp only [sumL, ih]
  | swap x y l => simp only [sumL]; exact add_left_comm _ _ _
  | trans _ _ ih1 ih2 => exact ih1.trans ih2

/-- the inflow into a compartment only depends on the multiset of (flow, rate) pairs -/
theorem inflow_perm (m : Model α) (fl' : List (Flow α)) (r r' : List α)
    (h : (fl'.zip r').Perm (m.flows.zip r)) (c : Nat) :
    inflow (withFlows m fl') r' c = inflow m r c := by
  unfold inflow
  exact sumL_perm ((h.filter _).map _)

theorem outflow_perm (m : Model α) (fl' : List (Flow α)) (r r' : List α)
    (h : (fl'.zip r').Perm (m.flows.zip r)) (c : Nat) :
    outflow (withFlows m fl') r' c = outflow m r c := by
  unfold outflow
  exact sumL_perm ((h.filter _).map _)

/-- **flow reordering**: the compartment rates do not change under a simultaneous permutation of the
flow list and the flow rates -/
theorem compRates_perm_flows (m : Model α) (fl' : List (Flow α)) (b b' : Backend) (hb : BackendFor m b)
    (hb' : BackendFor (withFlows m fl') b') (r r' : List α) (h : (fl'.zip r').Perm (m.flows.zip r)) :
    compRates b' r' = compRates b r := by
  apply ext_getD
  · rw [compRates_length hb', compRates_length hb]; rfl
  · intro c
    by_cases hc : c < m.comps.length
    · rw [compRates_getD_spec hb' r' c hc, compRates_getD_spec hb r c hc, inflow_perm m fl' r r' h,
        outflow_perm m fl' r r' h]
    · rw [compRates_getD_ge hb' r' c (by simpa [withFlows] using hc), compRates_getD_ge hb r c (by omega)]

/-- **compartment reordering, entry-wise**: the rate of a compartment does not depend on where the
compartment sits in the compartment list.  (`cs'` is any other compartment list; `i`, `i'` are the
positions of `c` in the two lists.) -/
theorem compRates_comp_entry (m : Model α) (cs' : List Comp) (b b' : Backend) (hb : BackendFor m b)
    (hb' : BackendFor (withComps m cs') b') (r : List α) (c : Comp) (i i' : Nat)
    (hi : compIdx m.comps c = some i) (hi' : compIdx cs' c = some i') :
    (compRates b' r).getD i' 0 = (compRates b r).getD i 0 := by
  have hlt := compIdx_lt _ _ _ hi
  have hlt' := compIdx_lt _ _ _ hi'
  rw [compRates_getD_spec hb' r i' (by simpa [withComps] using hlt'), compRates_getD_spec hb r i hlt]
  have key : ∀ (o : Option Comp), (o.bind (compIdx cs') == some i') = (o.bind (compIdx m.comps) == some i) := by
    intro o
    cases o with
    | none => rfl
    | some d =>
      simp only [Option.bind_some]
      by_cases hdc : d = c
      · subst hdc; rw [hi, hi']; simp
      · have h1 : compIdx cs' d ≠ some i' := fun h => hdc (compIdx_inj cs' c d i' hi' h)
        have h2 : compIdx m.comps d ≠ some i := fun h => hdc (compIdx_inj m.comps c d i hi h)
        simp [h1, h2]
  have hin : inflow (withComps m cs') r i' = inflow m r i := by
    unfold inflow
    congr 2
    apply List.filter_congr
    intro fr _
    exact key fr.1.dst
  have hout : outflow (withComps m cs') r i' = outflow m r i := by
    unfold outflow
    congr 2
    apply List.filter_congr
    intro fr _
    exact key fr.1.src
  rw [hin, hout]

/-- **compartment reordering, vector form**: if `cs'` is a duplicate-free list of compartments of `m`
(in particular a permutation of a duplicate-free `m.comps`) then the compartment-rate vector of the
reordered model is the original one read through the relabelling. -/
theorem compRates_perm_comps (m : Model α) (cs' : List Comp) (b b' : Backend) (hb : BackendFor m b)
    (hb' : BackendFor (withComps m cs') b') (r : List α) (hnd : cs'.Nodup) (hsub : ∀ c ∈ cs', c ∈ m.comps) :
    compRates b' r = cs'.map (fun c => (compRates b r).getD ((compIdx m.comps c).getD 0) 0) := by
  apply List.ext_getElem
  · rw [compRates_length hb', List.length_map]; rfl
  · intro j h1 h2
    have hj : j < cs'.length := by simpa using h2
    rw [← getD_eq_getElem _ j 0 h1, List.getElem_map]
    have hmem : cs'[j] ∈ m.comps := hsub _ (List.getElem_mem hj)
    obtain ⟨i, hi, hic⟩ := List.getElem_of_mem hmem
    -- position of `cs'[j]` in `m.comps`
    cases hci : compIdx m.comps cs'[j] with
    | none =>
      exfalso
      have : ∀ (l : List Comp) (k : Nat), cs'[j] ∈ l → indexOf?.go cs'[j] l k ≠ none := by
        intro l
        induction l with
        | nil => intro k h; simp at h
        | cons y ys ih =>
          intro k h
          simp only [indexOf?.go]
          by_cases hy : (y == cs'[j]) = true
          · simp [hy]
          · simp only [hy, Bool.false_eq_true, if_false]
            refine ih (k + 1) ?_
            rcases List.mem_cons.1 h with h | h
            · exact absurd (by simp [h]) hy
            · exact h
      exact this m.comps 0 hmem hci
    | some i0 =>
      exact compRates_comp_entry m cs' b b' hb hb' r cs'[j] i0 j hci (compIdx_of_nodup cs' hnd j hj)

/-- relabelling by the model's own (duplicate-free) compartment list is the identity -/
theorem relabel_self (m : Model α) (hnd : m.comps.Nodup) (v : List α) (hv : v.length = m.comps.length) :
    relabel m m.comps v = v := by
  apply List.ext_getElem
  · simp [relabel, hv]
  · intro j h1 h2
    have hj : j < m.comps.length := by simpa [relabel] using h1
    simp only [relabel, List.getElem_map, compIdx_of_nodup m.comps hnd j hj, Option.getD_some]
    exact getD_eq_getElem v j 0 h2

theorem relabel_perm (m : Model α) (cs' : List Comp) (hnd : m.comps.Nodup) (hp : cs'.Perm m.comps) (v : List α)
    (hv : v.length = m.comps.length) : (relabel m cs' v).Perm v := by
  have := hp.map (fun c => v.getD ((compIdx m.comps c).getD 0) 0)
  have h2 := relabel_self m hnd v hv
  unfold relabel at h2 ⊢
  rw [h2] at this
  exact this

/-- the relabelled state read at the new position of a compartment is the old state read at its old
position -/
theorem relabel_getD_compIdx (m : Model α) (cs' : List Comp) (v : List α) (c : Comp) (j : Nat)
    (hj : compIdx cs' c = some j) :
    (relabel m cs' v).getD j 0 = v.getD ((compIdx m.comps c).getD 0) 0 := by
  obtain ⟨hlt, hc⟩ := compIdx_getElem cs' c j hj
  rw [getD_eq_getElem _ _ _ (by simpa [relabel] using hlt)]
  simp only [relabel, List.getElem_map, hc]

/-- population factor of a flow under compartment relabelling -/
theorem srcPop_relabel (m : Model α) (cs' : List Comp) (b b' : Backend) (hb : BackendFor m b)
    (hb' : BackendFor (withComps m cs') b') (v : List α) (f : Flow α) (hf : f ∈ m.flows)
    (hsrc : f.src.isSome = true) :
    (relabel m cs' v).getD ((srcIx (withComps m cs') f).getD 0) 0 = v.getD ((srcIx m f).getD 0) 0 := by
  have h1 := hb.srcOk f hf hsrc
  have h2 := hb'.srcOk f hf hsrc
  cases hs : f.src with
  | none => simp [hs] at hsrc
  | some c =>
    simp only [srcIx, hs, Option.bind_some] at h1 h2 ⊢
    cases hj : compIdx (withComps m cs').comps c with
    | none => simp [hj] at h2
    | some j =>
      rw [Option.getD_some]
      exact relabel_getD_compIdx m cs' v c j hj

/-- **compartment reordering, flow rates**: with the state vector relabelled, every flow rate keeps
its value.  (`sourcedOk`: population-proportional flows do have a source.) -/
theorem flowRates_perm_comps (m : Model α) (cs' : List Comp) (b b' : Backend) (hb : BackendFor m b)
    (hb' : BackendFor (withComps m cs') b') (hs : sourcedOk m = true) (hnd : m.comps.Nodup)
    (hp : cs'.Perm m.comps) (w xc mults : List α) (hw : w.length = m.flows.length)
    (hx : xc.length = m.comps.length) :
    flowRates b' w (relabel m cs' xc) mults = flowRates b w xc mults := by
  have hsum : sumL (relabel m cs' xc) = sumL xc := sumL_perm (relabel_perm m cs' hnd hp xc hx)
  have hsrcd : ∀ f ∈ m.flows, isSourced f.kind = true → f.src.isSome = true := by
    intro f hf hk
    have := List.all_eq_true.1 hs f hf
    simpa [hk] using this
  have hpop : ∀ f ∈ m.flows, genPop (withComps m cs') (relabel m cs' xc) f = genPop m xc f := by
    intro f hf
    unfold genPop
    rw [hsum]
    by_cases h1 : isCrude f.kind = true
    · simp only [h1, if_true]
    · by_cases h2 : isNonPop f.kind = true
      · simp only [h1, h2, if_true, Bool.false_eq_true, if_false]
      · simp only [h1, h2, Bool.false_eq_true, if_false]
        have hk : isSourced f.kind = true := by
          cases hkk : f.kind <;> simp [hkk, isCrude, isNonPop] at h1 h2 <;> rfl
        exact srcPop_relabel m cs' b b' hb hb' xc f hf (hsrcd f hf hk)
  have hdeaths : deathsGen (withComps m cs') w (relabel m cs' xc) = deathsGen m w xc := by
    unfold deathsGen
    apply sumL_map_congr
    intro fw hfw
    rw [List.mem_filter] at hfw
    have hmem : fw.1 ∈ m.flows := (List.of_mem_zip (show (fw.1, fw.2) ∈ m.flows.zip w from hfw.1)).1
    have hk : isSourced fw.1.kind = true := by
      have := hfw.2
      cases hkk : fw.1.kind <;> simp [hkk, isDeath] at this
      rfl
    rw [srcPop_relabel m cs' b b' hb hb' xc fw.1 hmem (hsrcd fw.1 hmem hk)]
  apply ext_getD
  · rw [flowRates_length hb' _ _ _ hw, flowRates_length hb _ _ _ hw]; rfl
  · intro i
    by_cases hi : i < m.flows.length
    · rw [flowRates_getD hb' _ _ _ hw i hi, flowRates_getD hb _ _ _ hw i hi]
      have hmem : m.flows[i] ∈ m.flows := List.getElem_mem hi
      show genRate (withComps m cs') w (relabel m cs' xc) mults i m.flows[i] = _
      unfold genRate rate1
      rw [hdeaths, hpop _ hmem]
      rfl
    · rw [getD_of_le _ _ _ (by rw [flowRates_length hb' _ _ _ hw]; exact Nat.le_of_not_lt hi),
        getD_of_le _ _ _ (by rw [flowRates_length hb _ _ _ hw]; omega)]

/-- **`C15.perm_equivariant`, compartments**: given weights and multipliers, the compartment rates
computed from the relabelled state are the relabelled compartment rates. -/
theorem rates_perm_comps (m : Model α) (cs' : List Comp) (b b' : Backend) (hb : BackendFor m b)
    (hb' : BackendFor (withComps m cs') b') (hs : sourcedOk m = true) (hnd : m.comps.Nodup)
    (hp : cs'.Perm m.comps) (w xc mults : List α) (hw : w.length = m.flows.length)
    (hx : xc.length = m.comps.length) :
    compRates b' (flowRates b' w (relabel m cs' xc) mults)
      = relabel m cs' (compRates b (flowRates b w xc mults)) := by
  rw [flowRates_perm_comps m cs' b b' hb hb' hs hnd hp w xc mults hw hx]
  exact compRates_perm_comps m cs' b b' hb hb' _ (hp.nodup_iff.2 hnd) (fun _ hc => hp.mem_iff.1 hc)

end permRates

/-! ### flow reordering at the level of the model -/
section tables
variable {α : Type}

theorem tablesFor_of_prepare (m : Model α) (b : Backend) (h : prepare m = .ok b) : TablesFor m b := by
  unfold prepare at h
  simp only [bind, Except.bind] at h
  split at h
  · contradiction
  split at h
  · contradiction
  split at h
  · contradiction
  split at h
  · contradiction
  rename_i _ sc hsc
  split at h
  · contradiction
  rename_i _ lk hlk
  split at h
  · contradiction
  simp only [pure, Except.pure, Except.ok.injEq] at h
  subst h
  refine ⟨rfl, rfl, hsc, ⟨lk, ?_, rfl, rfl⟩, rfl⟩
  simp only [infectionKinds_contains] at hlk
  exact hlk

theorem filter_getElem_count {β : Type} (p : β → Bool) (l : List β) (i : Nat) (hi : i < l.length)
    (hp : p l[i] = true) :
    ∃ h : ((l.take i).filter p).length < (l.filter p).length, (l.filter p)[((l.take i).filter p).length] = l[i] := by
  have hsplit : l = l.take i ++ l[i] :: l.drop (i + 1) := by
    rw [List.getElem_cons_drop hi, List.take_append_drop]
  have hf : l.filter p = (l.take i).filter p ++ l[i] :: (l.drop (i + 1)).filter p := by
    conv_lhs => rw [hsplit]
    rw [List.filter_append, List.filter_cons, if_pos hp]
  refine ⟨by rw [hf]; simp, ?_⟩
  simp only [hf]
  rw [List.getElem_append_right (by omega)]
  simp

end tables

section permFlows
variable {α : Type} [Field α]

theorem zip_map_fst_snd {β γ : Type} (l : List (β × γ)) : (l.map (·.1)).zip (l.map (·.2)) = l := by
  induction l with
  | nil => rfl
  | cons a l ih => simp [ih]

/-- the multipliers are the per-flow multipliers of the infection flows, in order -/
theorem mults_eq_map {m : Model α} {b : Backend} (ht : TablesFor m b) (xc : List α) (mix : Matrix α) (ci : List α) :
    (infectiousMultipliers b xc mix ci).1
      = (m.flows.filter (fun f => isInfection f.kind)).map (multOf m (infectiousMultipliers b xc mix ci).2) := by
  obtain ⟨lk, hlk, h1, h2⟩ := ht.lookups
  have hz : b.infStrainLookup.zip b.infCatLookup = lk := by rw [h1, h2, zip_map_fst_snd]
  have hlk' : lk = (m.flows.filter (fun f => isInfection f.kind)).map
      (fun f => match lookOf m f with | .ok sc => sc | .error _ => (0, 0)) :=
    mapM_except_ok _ _ _ lk (fun f _ o ho => by simp only [ho]) hlk
  have hall := mapM_except_all_ok _ _ _ hlk
  show (b.infStrainLookup.zip b.infCatLookup).map _ = _
  rw [hz, hlk', List.map_map]
  apply List.map_congr_left
  intro f hf
  obtain ⟨o, ho⟩ := hall f hf
  simp only [Function.comp, multOf, ho]
  rfl

theorem zip_map_self {β γ : Type} (l : List β) (W : β → γ) : l.zip (l.map W) = l.map (fun f => (f, W f)) := by
  induction l with
  | nil => rfl
  | cons a l ih => simp [ih]

theorem deathsGen_eq_deathsBy (m : Model α) (W : Flow α → α) (xc : List α) :
    deathsGen m (m.flows.map W) xc = deathsBy m W xc := by
  unfold deathsGen deathsBy
  rw [zip_map_self, List.filter_map, List.map_map]
  rfl

/-- **per-flow description of `flowRates`**: with weights given by a function `W` of the flow and
multipliers by a function `M` of the flow, entry `i` is `rateBy … flows[i]`. -/
theorem flowRates_eq_map {m : Model α} {b : Backend} (hb : BackendFor m b) (W M : Flow α → α) (xc : List α) :
    flowRates b (m.flows.map W) xc ((m.flows.filter (fun f => isInfection f.kind)).map M)
      = m.flows.map (rateBy m W xc M) := by
  have hw : (m.flows.map W).length = m.flows.length := by simp
  apply List.ext_getElem
  · rw [flowRates_length hb _ _ _ hw]; simp
  · intro i h1 h2
    have hi : i < m.flows.length := by simpa using h2
    rw [← getD_eq_getElem _ i 0 h1, flowRates_getD hb _ _ _ hw i hi, List.getElem_map]
    have hwi : (m.flows.map W).getD i 0 = W m.flows[i] := by
      rw [getD_eq_getElem _ _ _ (by simpa using hi)]; simp
    have hmi : isInfection m.flows[i].kind = true →
        ((m.flows.filter (fun f => isInfection f.kind)).map M).getD (infPos m i) 1 = M m.flows[i] := by
      intro hinf
      obtain ⟨hlt, hget⟩ := filter_getElem_count (fun f : Flow α => isInfection f.kind) m.flows i hi hinf
      rw [getD_eq_getElem _ _ _ (by simpa [infPos] using hlt)]
      simp only [List.getElem_map, infPos]
      rw [hget]
    unfold genRate rate1 rateBy
    rw [deathsGen_eq_deathsBy, hwi]
    by_cases hinf : isInfection m.flows[i].kind = true
    · rw [hmi hinf]; simp only [hinf, if_true]; rfl
    · simp only [hinf, Bool.false_eq_true, if_false]; rfl

theorem perm_any_eq {β : Type} {l l' : List β} (h : l.Perm l') (p : β → Bool) : l.any p = l'.any p := by
  rw [Bool.eq_iff_iff, List.any_eq_true, List.any_eq_true]
  exact ⟨fun ⟨x, hx, hp⟩ => ⟨x, h.mem_iff.1 hx, hp⟩, fun ⟨x, hx, hp⟩ => ⟨x, h.mem_iff.2 hx, hp⟩⟩

theorem perm_all_eq {β : Type} {l l' : List β} (h : l.Perm l') (p : β → Bool) : l.all p = l'.all p := by
  rw [Bool.eq_iff_iff, List.all_eq_true, List.all_eq_true]
  exact ⟨fun H x hx => H x (h.mem_iff.2 hx), fun H x hx => H x (h.mem_iff.1 hx)⟩

/-- the multipliers actually used by `step` (empty when there is no infection flow) -/
theorem mults_used_eq_map {m : Model α} {b : Backend} (hb : BackendFor m b) (ht : TablesFor m b) (xc : List α)
    (mix : Matrix α) (ci : List α) :
    (if b.procType.isSome then infectiousMultipliers b xc mix ci else ([], [])).1
      = (m.flows.filter (fun f => isInfection f.kind)).map (multOf m (infectiousMultipliers b xc mix ci).2) := by
  by_cases hp : b.procType.isSome = true
  · rw [if_pos hp]; exact mults_eq_map ht xc mix ci
  · rw [if_neg hp]
    have h0 := nInfection_zero_of_procType_none hb (by simpa using hp)
    unfold nInfection at h0
    rw [List.length_eq_zero_iff] at h0
    rw [h0]; rfl

/-- the per-strain force-of-infection vectors do not depend on the flow list -/
theorem perStrain_perm_flows {m : Model α} {fl' : List (Flow α)} {b b' : Backend} (ht : TablesFor m b)
    (ht' : TablesFor (withFlows m fl') b') (hp : fl'.Perm m.flows) (xc : List α) (mix : Matrix α) (ci : List α) :
    (infectiousMultipliers b' xc mix ci).2 = (infectiousMultipliers b xc mix ci).2 := by
  have h1 : b'.catIdx = b.catIdx := by rw [ht.catIdx, ht'.catIdx]; rfl
  have h2 : b'.strainInfIdx = b.strainInfIdx := by rw [ht.strainInfIdx, ht'.strainInfIdx]; rfl
  have h3 : b'.strainCatIdx = b.strainCatIdx := by
    have e : strainCatOf (withFlows m fl') = strainCatOf m := rfl
    have := ht'.strainCatIdx
    rw [e, ht.strainCatIdx] at this
    exact (Except.ok.inj this).symm
  have h4 : b'.procType = b.procType := by
    rw [ht.procType, ht'.procType]
    unfold procTypeOf
    rw [show (withFlows m fl').flows = fl' from rfl, perm_any_eq hp, perm_any_eq hp]
  simp only [infectiousMultipliers, h1, h2, h3, h4]

theorem deathsBy_perm_flows (m : Model α) (fl' : List (Flow α)) (hp : fl'.Perm m.flows) (W : Flow α → α)
    (xc : List α) : deathsBy (withFlows m fl') W xc = deathsBy m W xc := by
  unfold deathsBy
  exact sumL_perm ((hp.filter _).map _)

theorem rateBy_perm_flows (m : Model α) (fl' : List (Flow α)) (hp : fl'.Perm m.flows) (W M : Flow α → α)
    (xc : List α) (f : Flow α) : rateBy (withFlows m fl') W xc M f = rateBy m W xc M f := by
  unfold rateBy
  rw [deathsBy_perm_flows m fl' hp]
  rfl

/-- **flow reordering, pure part of `step`**: with weights given by a function `W` of the flow, the
compartment rates and the per-strain forces of infection of the reordered model are the same, and its
flow rates are the same up to the reordering. -/
theorem outOf_perm_flows {m : Model α} {fl' : List (Flow α)} {b b' : Backend}
    (hb : BackendFor m b) (ht : TablesFor m b) (hb' : BackendFor (withFlows m fl') b')
    (ht' : TablesFor (withFlows m fl') b') (hp : fl'.Perm m.flows) (W : Flow α → α) (xc : List α)
    (mix : Matrix α) (ci : List α) :
    (outOf b' (fl'.map W) xc mix ci).compRates = (outOf b (m.flows.map W) xc mix ci).compRates ∧
    (fl'.zip (outOf b' (fl'.map W) xc mix ci).flowRates).Perm
      (m.flows.zip (outOf b (m.flows.map W) xc mix ci).flowRates) ∧
    (∀ o, b.procType = some o →
      (outOf b' (fl'.map W) xc mix ci).perStrain = (outOf b (m.flows.map W) xc mix ci).perStrain) := by
  have hper := perStrain_perm_flows ht ht' hp xc mix ci
  have hmu := mults_used_eq_map hb ht xc mix ci
  have hmu' := mults_used_eq_map hb' ht' xc mix ci
  rw [hper] at hmu'
  have hfr : (outOf b (m.flows.map W) xc mix ci).flowRates
      = m.flows.map (rateBy m W xc (multOf m (infectiousMultipliers b xc mix ci).2)) := by
    show flowRates b _ xc _ = _
    rw [hmu]; exact flowRates_eq_map hb W _ xc
  have hfr' : (outOf b' (fl'.map W) xc mix ci).flowRates
      = fl'.map (rateBy m W xc (multOf m (infectiousMultipliers b xc mix ci).2)) := by
    show flowRates b' _ xc _ = _
    rw [hmu']
    have := flowRates_eq_map hb' W (multOf m (infectiousMultipliers b xc mix ci).2) xc
    rw [show (withFlows m fl').flows = fl' from rfl] at this
    rw [show multOf (withFlows m fl') = multOf m from rfl, show (withFlows m fl').flows = fl' from rfl, this]
    apply List.map_congr_left
    intro f _
    exact rateBy_perm_flows m fl' hp W _ xc f
  have hzip : (fl'.zip (outOf b' (fl'.map W) xc mix ci).flowRates).Perm
      (m.flows.zip (outOf b (m.flows.map W) xc mix ci).flowRates) := by
    rw [hfr, hfr', zip_map_self, zip_map_self]
    exact hp.map _
  refine ⟨?_, hzip, ?_⟩
  · show compRates b' _ = compRates b _
    exact compRates_perm_flows m fl' b b' hb hb' _ _ hzip
  · intro o ho
    have h4 : b'.procType = b.procType := by
      rw [ht.procType, ht'.procType]
      unfold procTypeOf
      rw [show (withFlows m fl').flows = fl' from rfl, perm_any_eq hp, perm_any_eq hp]
    show (if b'.procType.isSome then infectiousMultipliers b' xc mix ci else ([], [])).2
      = (if b.procType.isSome then infectiousMultipliers b xc mix ci else ([], [])).2
    rw [h4, ho]
    exact hper

end permFlows

section preparePerm

theorem mapM_except_ok_of_all {β γ ε} (g : β → Except ε γ) :
    ∀ (l : List β), (∀ a ∈ l, ∃ o, g a = .ok o) → ∃ out, l.mapM g = .ok out
  | [], _ => ⟨[], rfl⟩
  | a :: l, h => by
      obtain ⟨o, ho⟩ := h a (by simp)
      obtain ⟨os, hos⟩ := mapM_except_ok_of_all g l (fun x hx => h x (by simp [hx]))
      exact ⟨o :: os, by rw [List.mapM_cons, ho, hos]; rfl⟩

theorem mapM_except_ok_perm {β γ ε} (g : β → Except ε γ) (l l' : List β) (hp : l'.Perm l) (out : List γ)
    (h : l.mapM g = .ok out) : ∃ out', l'.mapM g = .ok out' :=
  mapM_except_ok_of_all g l' (fun a ha => mapM_except_all_ok g l out h a (hp.mem_iff.1 ha))

/-- `prepare` succeeds for a model iff it succeeds for the model with its flows reordered -/
theorem prepare_ok_perm_flows {α : Type} (m : Model α) (fl' : List (Flow α)) (b : Backend) (h : prepare m = .ok b)
    (hp : fl'.Perm m.flows) : ∃ b', prepare (withFlows m fl') = .ok b' := by
  unfold prepare at h
  simp only [bind, Except.bind] at h
  split at h
  · contradiction
  rename_i _ srcV hsrc
  split at h
  · contradiction
  rename_i _ dstV hdst
  split at h
  · contradiction
  rename_i _ _ hg1
  split at h
  · contradiction
  rename_i _ sc hsc
  split at h
  · contradiction
  rename_i _ lk hlk
  split at h
  · contradiction
  rename_i _ _ hg2
  obtain ⟨srcV', hsrc'⟩ := mapM_except_ok_perm _ _ fl' hp _ hsrc
  obtain ⟨dstV', hdst'⟩ := mapM_except_ok_perm _ _ fl' hp _ hdst
  obtain ⟨lk', hlk'⟩ := mapM_except_ok_perm _ _ (fl'.filter (fun f => Generated.infectionKinds.contains f.kind))
    (hp.filter _) _ hlk
  unfold prepare
  simp only [bind, Except.bind]
  have hg2' : guardE (!((fl'.any fun f => f.kind == FlowKind.infFreq) && fl'.any fun f => f.kind == FlowKind.infDens))
      "no support for mixed infection frequency/density" = Except.ok () := by
    rw [perm_any_eq hp, perm_any_eq hp]; exact hg2
  have e1 : strainInfectiousIdx (withFlows m fl') = strainInfectiousIdx m := rfl
  rw [e1]
  simp only [withFlows]
  rw [hsrc']
  simp only []
  rw [hdst']
  simp only []
  rw [hg1]
  simp only []
  rw [hsc]
  simp only []
  rw [hlk']
  simp only []
  rw [hg2']
  exact ⟨_, rfl⟩

end preparePerm

section permFlowsStep
set_option linter.unusedSectionVars false
variable {α : Type} [Field α] [LinearOrder α] [IsStrictOrderedRing α]

/-- **reordering the flows of a model**: `m'` is `m` with its flow list permuted; both have index
tables.  Then `step` is defined for `m'` exactly when it is for `m`, with the same compartment rates,
mixing matrix, compartment infectiousness and per-strain force of infection, and the flow rates are
the same up to the reordering. -/
theorem step_perm_flows (m : Model α) (fl' : List (Flow α)) (b b' : Backend) (h : prepare m = .ok b)
    (h' : prepare (withFlows m fl') = .ok b') (hp : fl'.Perm m.flows) (p : List (String × α)) (t : α)
    (x : List α) :
    (∀ o, step m b p t x = some o → ∃ o', step (withFlows m fl') b' p t x = some o' ∧
      o'.compRates = o.compRates ∧ (fl'.zip o'.flowRates).Perm (m.flows.zip o.flowRates) ∧
      o'.mixing = o.mixing ∧ o'.compInf = o.compInf ∧
      (∀ pt, b.procType = some pt → o'.perStrain = o.perStrain)) ∧
    (step m b p t x = none → step (withFlows m fl') b' p t x = none) := by
  have hb := backendFor_of_prepare m b h
  have hb' := backendFor_of_prepare _ b' h'
  have ht := tablesFor_of_prepare m b h
  have ht' := tablesFor_of_prepare _ b' h'
  rw [step_eq, step_eq]
  have hmix : mixingMatrix (withFlows m fl') ⟨p, t, cleanV x⟩ = mixingMatrix m ⟨p, t, cleanV x⟩ := rfl
  have hci : compInfectiousness (withFlows m fl') p = compInfectiousness m p := rfl
  rw [hmix, hci]
  unfold weightsAt
  rw [mapM_option_eq_map _ (0 : α) m.flows, mapM_option_eq_map _ (0 : α) (withFlows m fl').flows,
    show (withFlows m fl').flows = fl' from rfl, perm_all_eq hp]
  by_cases hall : (m.flows.all fun a => ((realised a).eval ⟨p, t, cleanV x⟩).isSome) = true
  · simp only [hall, if_true, Option.bind_some]
    cases mixingMatrix m ⟨p, t, cleanV x⟩ with
    | none => simp
    | some mix =>
      cases compInfectiousness m p with
      | none => simp
      | some ci =>
        simp only [Option.bind_some, Option.some.injEq, reduceCtorEq, false_implies, and_true]
        intro o ho
        subst ho
        obtain ⟨h1, h2, h3⟩ := outOf_perm_flows hb ht hb' ht' hp
          (fun f => ((realised f).eval ⟨p, t, cleanV x⟩).getD 0) (cleanV x) mix ci
        exact ⟨_, rfl, h1, h2, rfl, rfl, h3⟩
  · simp [hall]

theorem rhs_perm_flows (m : Model α) (fl' : List (Flow α)) (b b' : Backend) (h : prepare m = .ok b)
    (h' : prepare (withFlows m fl') = .ok b') (hp : fl'.Perm m.flows) (p : List (String × α)) (x : List α)
    (t : α) : rhs (withFlows m fl') b' p x t = rhs m b p x t := by
  obtain ⟨h1, h2⟩ := step_perm_flows m fl' b b' h h' hp p t x
  unfold rhs
  cases hs : step m b p t x with
  | none => rw [h2 hs]
  | some o =>
    obtain ⟨o', ho', hc, _⟩ := h1 o hs
    rw [ho']; simp [hc]

end permFlowsStep



/-! ## 4. reordering strata and independent stratifications (structure) -/
section strataOrder
open Summer.Build
variable {α : Type}

/-- **reordering the strata of a stratification** permutes the stratified compartments -/
theorem stratifyComps_perm_strata (comps : List Comp) (s s' : Strat α) (hn : s'.name = s.name)
    (hc : s'.comps = s.comps) (hp : s'.strata.Perm s.strata) :
    (stratifyComps comps s').Perm (stratifyComps comps s) := by
  unfold stratifyComps
  apply List.Perm.flatMap_left
  intro c _
  rw [hc, hn]
  split
  · exact hp.map _
  · exact List.Perm.refl _

theorem alookup_cons {β : Type} (p : String × β) (l : List (String × β)) (k : String) :
    alookup (p :: l) k = if p.1 = k then some p.2 else alookup l k := by
  unfold alookup
  simp only [List.find?_cons]
  by_cases h : p.1 = k
  · simp [h]
  · have hb : (p.1 == k) = false := by simpa using h
    simp [hb, h]

theorem alookup_map_set (k v k' : String) : ∀ (l : Strata),
    alookup (l.map (fun p => if p.1 == k then (k, v) else p)) k'
      = if k' = k then (alookup l k).map (fun _ => v) else alookup l k'
  | [] => by simp [alookup]
  | p :: l => by
      rw [List.map_cons, alookup_cons, alookup_cons, alookup_cons, alookup_map_set k v k' l]
      by_cases hpk : p.1 = k
      · simp only [if_true, hpk]
        by_cases hk' : k' = k
        · simp [hk']
        · have : ¬ k = k' := fun h => hk' h.symm
          simp [hk', this]
      · have hb : (p.1 == k) = false := by simpa using hpk
        simp only [hb, Bool.false_eq_true, if_false, hpk]
        by_cases hk' : k' = k
        · subst hk'
          simp [hpk]
        · simp [hk']

theorem alookup_append_single (k v k' : String) : ∀ (l : Strata),
    alookup (l ++ [(k, v)]) k' = match alookup l k' with
      | some x => some x
      | none => if k = k' then some v else none
  | [] => by
      rw [List.nil_append, alookup_cons]
      simp [alookup]
  | p :: l => by
      rw [List.cons_append, alookup_cons, alookup_cons, alookup_append_single k v k' l]
      by_cases h : p.1 = k' <;> simp [h]

theorem alookup_isSome_iff_any (k : String) : ∀ (l : Strata),
    (alookup l k).isSome = l.any (fun p => p.1 == k)
  | [] => by simp [alookup]
  | p :: l => by
      rw [alookup_cons, List.any_cons, ← alookup_isSome_iff_any k l]
      by_cases h : p.1 = k
      · simp [h]
      · have hb : (p.1 == k) = false := by simpa using h
        simp [h, hb]

theorem alookup_dictSet (l : Strata) (k v k' : String) :
    alookup (dictSet l k v) k' = if k' = k then some v else alookup l k' := by
  unfold dictSet
  have hs := alookup_isSome_iff_any k l
  by_cases hany : l.any (fun p => p.1 == k) = true
  · rw [if_pos hany, alookup_map_set]
    rw [hany] at hs
    by_cases hk' : k' = k
    · simp only [hk', if_true]
      cases hl : alookup l k with
      | none => simp [hl] at hs
      | some x => rfl
    · simp only [hk', if_false]
  · rw [if_neg hany, alookup_append_single]
    have hany' : l.any (fun p => p.1 == k) = false := Bool.eq_false_iff.2 hany
    rw [hany'] at hs
    by_cases hk' : k' = k
    · subst hk'
      have : alookup l k' = none := by
        cases hl : alookup l k' with
        | none => rfl
        | some x => simp [hl] at hs
      simp [this]
    · have : ¬ k = k' := fun h => hk' h.symm
      simp only [hk', this, if_false]
      cases alookup l k' <;> rfl

/-- two `stratify` steps for different stratification names commute up to dictionary order -/
theorem compSem_stratify_comm (c : Comp) (k1 a k2 b : String) (hne : k1 ≠ k2) :
    compSem ((c.stratify k1 a).stratify k2 b) = compSem ((c.stratify k2 b).stratify k1 a) := by
  unfold compSem Comp.stratify
  simp only [Prod.mk.injEq, true_and]
  funext k'
  simp only [alookup_dictSet]
  by_cases h1 : k' = k1
  · by_cases h2 : k' = k2
    · exact absurd (h1.symm.trans h2) hne
    · subst h1
      simp [h2]
  · by_cases h2 : k' = k2
    · subst h2
      simp [h1]
    · simp [h1, h2]

theorem flatMap_map_swap_perm {β γ δ : Type} (g : β → γ → δ) (l1 : List β) (l2 : List γ) :
    (l1.flatMap (fun a => l2.map (g a))).Perm (l2.flatMap (fun b => l1.map (fun a => g a b))) := by
  induction l1 with
  | nil => simp
  | cons a l1 ih =>
    simp only [List.flatMap_cons, List.map_cons]
    exact (ih.append_left _).trans (List.map_append_flatMap_perm l2 (g a) _)

/-- **reordering two independent stratifications** (different names): the resulting compartment
lists agree up to a permutation and the insertion order of the strata dictionaries. -/
theorem stratifyComps_comm (comps : List Comp) (s1 s2 : Strat α) (hne : s1.name ≠ s2.name) :
    ((stratifyComps (stratifyComps comps s1) s2).map compSem).Perm
      ((stratifyComps (stratifyComps comps s2) s1).map compSem) := by
  unfold stratifyComps
  rw [List.flatMap_assoc, List.flatMap_assoc, List.map_flatMap, List.map_flatMap]
  apply List.Perm.flatMap_left
  intro c _
  have hname : ∀ (k v : String) (names : List String), (c.stratify k v).hasNameIn names = c.hasNameIn names :=
    fun _ _ _ => rfl
  by_cases h1 : c.hasNameIn s1.comps = true <;> by_cases h2 : c.hasNameIn s2.comps = true
  · simp only [h1, h2, if_true, List.flatMap_map, hname, List.map_flatMap, List.map_map, Function.comp_def]
    have := flatMap_map_swap_perm (fun a b => compSem ((c.stratify s1.name a).stratify s2.name b)) s1.strata s2.strata
    refine this.trans ?_
    apply List.Perm.of_eq
    congr 1
    funext b
    apply List.map_congr_left
    intro a _
    exact compSem_stratify_comm c s1.name a s2.name b hne
  · simp only [h1, h2, if_true, Bool.false_eq_true, if_false, List.flatMap_map, hname, List.flatMap_cons,
      List.flatMap_nil, List.append_nil]
    apply List.Perm.of_eq
    congr 1
    exact (List.map_eq_flatMap).symm
  · simp only [h1, h2, if_true, Bool.false_eq_true, if_false, List.flatMap_map, hname, List.flatMap_cons,
      List.flatMap_nil, List.append_nil]
    apply List.Perm.of_eq
    congr 1
    exact List.map_eq_flatMap
  · simp [h1, h2]

end strataOrder

end Summer.Proofs.Invariance

/-! # Part "rename" of C15

Renaming compartments / stratifications / strata relabels the results without changing any value.
The index tables computed by `Run.prepare` are *identical* for the renamed model, and so are
`Run.compInfectiousness`, `Run.step`, `Run.rhs`.  Definitions of the renaming: `Summer/Spec/Invariance.lean`. -/

set_option linter.unusedSectionVars false

/-! ## PROOFS -/
namespace Summer.Proofs.InvRename
open Summer Summer.Spec Summer.Run Summer.Build

/-! ### 1. `BEq` facts -/

theorem comp_beq_iff (c c' : Comp) : (c == c') = true ↔ c = c' := by
  cases c with
  | mk n s =>
    cases c' with
    | mk n' s' =>
      show ((n == n') && (s == s')) = true ↔ _
      rw [Bool.and_eq_true, beq_iff_eq, beq_iff_eq, Comp.mk.injEq]

instance instLawfulBEqComp : LawfulBEq Comp where
  eq_of_beq := fun h => (comp_beq_iff _ _).1 h
  rfl := (comp_beq_iff _ _).2 rfl

theorem comp_beq_eq_decide (c c' : Comp) : (c == c') = decide (c = c') := by
  rw [Bool.eq_iff_iff, comp_beq_iff, decide_eq_true_iff]

/-- an injective map commutes with `==` -/
theorem beq_inj {β γ : Type} [BEq β] [LawfulBEq β] [BEq γ] [LawfulBEq γ] {g : β → γ}
    (hg : Function.Injective g) (a b : β) : (g a == g b) = (a == b) := by
  rw [Bool.eq_iff_iff, beq_iff_eq, beq_iff_eq]; exact hg.eq_iff

theorem contains_map_inj {β γ : Type} [BEq β] [LawfulBEq β] [BEq γ] [LawfulBEq γ] {g : β → γ}
    (hg : Function.Injective g) (l : List β) (x : β) : (l.map g).contains (g x) = l.contains x := by
  induction l with
  | nil => rfl
  | cons y ys ih => simp only [List.map_cons, List.contains_cons, ih, beq_inj hg]

section inj
variable {ρn ρk ρv : String → String}

theorem renPair_injective (hk : Function.Injective ρk) (hv : Function.Injective ρv) :
    Function.Injective (fun kv : String × String => (ρk kv.1, ρv kv.2)) := by
  intro a b h
  simp only [Prod.mk.injEq] at h
  exact Prod.ext (hk h.1) (hv h.2)

theorem renStrata_injective (hk : Function.Injective ρk) (hv : Function.Injective ρv) :
    Function.Injective (renStrata ρk ρv) := by
  intro a b h
  exact (List.map_inj_right (fun x y e => renPair_injective hk hv e)).1 h

theorem renComp_injective (hn : Function.Injective ρn) (hk : Function.Injective ρk)
    (hv : Function.Injective ρv) : Function.Injective (renComp ρn ρk ρv) := by
  intro a b h
  cases a; cases b
  simp only [renComp, Comp.mk.injEq] at h
  rw [Comp.mk.injEq]
  exact ⟨hn h.1, renStrata_injective hk hv h.2⟩

theorem renComp_beq (hn : Function.Injective ρn) (hk : Function.Injective ρk)
    (hv : Function.Injective ρv) (c c' : Comp) :
    (renComp ρn ρk ρv c == renComp ρn ρk ρv c') = (c == c') :=
  beq_inj (renComp_injective hn hk hv) c c'

theorem alookup_cons {β : Type} (a : String) (b : β) (l : List (String × β)) (k : String) :
    alookup ((a, b) :: l) k = if a == k then some b else alookup l k := by
  unfold alookup
  rw [List.find?_cons]
  by_cases h : (a == k) = true
  · simp only [h, if_true]
  · simp only [h, Bool.false_eq_true, if_false]

theorem alookup_renStrata (hk : Function.Injective ρk) (s : Strata) (k : String) :
    alookup (renStrata ρk ρv s) (ρk k) = (alookup s k).map ρv := by
  induction s with
  | nil => rfl
  | cons kv s ih =>
    obtain ⟨a, b⟩ := kv
    unfold renStrata at ih ⊢
    rw [List.map_cons, alookup_cons, alookup_cons, ih, beq_inj hk]
    by_cases h : (a == k) = true
    · simp only [h, if_true, Option.map_some]
    · simp only [h, Bool.false_eq_true, if_false]

theorem alookup_renKeys {β : Type} {ρ : String → String} (hρ : Function.Injective ρ)
    (l : List (String × β)) (k : String) : alookup (renKeys ρ l) (ρ k) = alookup l k := by
  induction l with
  | nil => rfl
  | cons kv s ih =>
    obtain ⟨a, b⟩ := kv
    unfold renKeys at ih ⊢
    rw [List.map_cons, alookup_cons, alookup_cons, ih, beq_inj hρ]

/-- the form used by `getMatching`, `strainInfectiousIdx`: lookup compared with a renamed value -/
theorem alookup_renStrata_beq (hk : Function.Injective ρk) (hv : Function.Injective ρv)
    (s : Strata) (k v : String) :
    (alookup (renStrata ρk ρv s) (ρk k) == some (ρv v)) = (alookup s k == some v) := by
  rw [alookup_renStrata hk]
  cases alookup s k with
  | none => rfl
  | some w =>
    rw [Option.map_some, Bool.eq_iff_iff, beq_iff_eq, beq_iff_eq, Option.some.injEq,
      Option.some.injEq]
    exact hv.eq_iff

theorem dictSet_renStrata (hk : Function.Injective ρk) (s : Strata) (k v : String) :
    dictSet (renStrata ρk ρv s) (ρk k) (ρv v) = renStrata ρk ρv (dictSet s k v) := by
  unfold dictSet renStrata
  rw [List.any_map]
  have hany : (s.any ((fun p : String × String => p.1 == ρk k) ∘ fun kv => (ρk kv.1, ρv kv.2)))
      = s.any (fun p => p.1 == k) := by
    congr 1; funext p; exact beq_inj hk p.1 k
  rw [hany]
  by_cases h : (s.any (fun p => p.1 == k)) = true
  · simp only [h, if_true, List.map_map]
    apply List.map_congr_left
    intro p _
    simp only [Function.comp, beq_inj hk]
    by_cases hp : (p.1 == k) = true
    · simp only [hp, if_true]
    · simp only [hp, Bool.false_eq_true, if_false]
  · simp only [h, Bool.false_eq_true, if_false, List.map_append, List.map_cons, List.map_nil]

theorem strataContains_ren (hk : Function.Injective ρk) (hv : Function.Injective ρv)
    (s flt : Strata) :
    strataContains (renStrata ρk ρv s) (renStrata ρk ρv flt) = strataContains s flt := by
  unfold strataContains
  show ((flt.map _).all _) = _
  rw [List.all_map]
  congr 1; funext kv
  exact contains_map_inj (renPair_injective hk hv) s kv

theorem hasStrata_ren (hk : Function.Injective ρk) (hv : Function.Injective ρv)
    (c : Comp) (flt : Strata) :
    (renComp ρn ρk ρv c).hasStrata (renStrata ρk ρv flt) = c.hasStrata flt :=
  strataContains_ren hk hv c.strata flt

theorem isMatch_ren (hn : Function.Injective ρn) (hk : Function.Injective ρk)
    (hv : Function.Injective ρv) (c : Comp) (name : String) (flt : Strata) :
    (renComp ρn ρk ρv c).isMatch (ρn name) (renStrata ρk ρv flt) = c.isMatch name flt := by
  unfold Comp.isMatch
  rw [hasStrata_ren hk hv]
  show ((ρn c.name == ρn name) && _) = _
  rw [beq_inj hn]

theorem hasStratum_ren (hk : Function.Injective ρk) (hv : Function.Injective ρv)
    (c : Comp) (k v : String) :
    (renComp ρn ρk ρv c).hasStratum (ρk k) (ρv v) = c.hasStratum k v :=
  alookup_renStrata_beq hk hv c.strata k v

theorem hasNameIn_ren (hn : Function.Injective ρn) (c : Comp) (names : List String) :
    (renComp ρn ρk ρv c).hasNameIn (names.map ρn) = c.hasNameIn names :=
  contains_map_inj hn names c.name

theorem stratify_ren (hk : Function.Injective ρk) (c : Comp) (sname stratum : String) :
    (renComp ρn ρk ρv c).stratify (ρk sname) (ρv stratum)
      = renComp ρn ρk ρv (c.stratify sname stratum) := by
  unfold Comp.stratify renComp
  simp only [dictSet_renStrata hk]

/-! ### 2. `getMatching`, `stratifyComps` -/

theorem getMatching_ren {α : Type} (hn : Function.Injective ρn) (hk : Function.Injective ρk)
    (hv : Function.Injective ρv) (m : Model α) (name : String) (flt : Strata) :
    getMatching (renModel ρn ρk ρv m) (ρn name) (renStrata ρk ρv flt)
      = (getMatching m name flt).map (renComp ρn ρk ρv) := by
  unfold getMatching
  show List.filter _ (List.filter _ (m.comps.map (renComp ρn ρk ρv))) = _
  rw [List.filter_map, List.filter_map]
  have h1 : ((fun c : Comp => c.name == ρn name) ∘ renComp ρn ρk ρv) = fun c => c.name == name := by
    funext c; exact beq_inj hn c.name name
  have h2 : ((fun c : Comp => (renStrata ρk ρv flt).all
        (fun kv => alookup c.strata kv.1 == some kv.2)) ∘ renComp ρn ρk ρv)
      = fun c => flt.all (fun kv => alookup c.strata kv.1 == some kv.2) := by
    funext c
    show ((flt.map _).all _) = _
    rw [List.all_map]
    congr 1; funext kv
    exact alookup_renStrata_beq hk hv c.strata kv.1 kv.2
  rw [h1, h2]

theorem stratifyComps_ren {α : Type} (hn : Function.Injective ρn) (hk : Function.Injective ρk)
    (comps : List Comp) (s : Strat α) :
    stratifyComps (comps.map (renComp ρn ρk ρv)) (renStrat ρn ρk ρv s)
      = (stratifyComps comps s).map (renComp ρn ρk ρv) := by
  unfold stratifyComps
  rw [List.flatMap_map, List.map_flatMap]
  congr 1; funext c
  show (if (renComp ρn ρk ρv c).hasNameIn (s.comps.map ρn) = true
      then (s.strata.map ρv).map (fun st => (renComp ρn ρk ρv c).stratify (ρk s.name) st)
      else [renComp ρn ρk ρv c]) = _
  rw [hasNameIn_ren hn]
  by_cases h : c.hasNameIn s.comps = true
  · simp only [h, if_true, List.map_map]
    apply List.map_congr_left
    intro st _
    exact stratify_ren hk c s.name st
  · simp only [h, Bool.false_eq_true, if_false, List.map_cons, List.map_nil]

/-! ### 3. `indexOf?`, `compIdx` -/

theorem indexOf?_go_map {β γ : Type} [BEq β] [BEq γ] (g : β → γ) (x : β) (l : List β)
    (h : ∀ y ∈ l, (g y == g x) = (y == x)) (i : Nat) :
    indexOf?.go (g x) (l.map g) i = indexOf?.go x l i := by
  induction l generalizing i with
  | nil => rfl
  | cons y ys ih =>
    simp only [List.map_cons, indexOf?.go]
    rw [h y (List.mem_cons_self), ih (fun z hz => h z (List.mem_cons_of_mem _ hz))]

theorem indexOf?_map_inj {β γ : Type} [BEq β] [LawfulBEq β] [BEq γ] [LawfulBEq γ] {g : β → γ}
    (hg : Function.Injective g) (l : List β) (x : β) :
    indexOf? (l.map g) (g x) = indexOf? l x :=
  indexOf?_go_map g x l (fun y _ => beq_inj hg y x) 0

theorem compIdx_ren (hn : Function.Injective ρn) (hk : Function.Injective ρk)
    (hv : Function.Injective ρv) (comps : List Comp) (c : Comp) :
    compIdx (comps.map (renComp ρn ρk ρv)) (renComp ρn ρk ρv c) = compIdx comps c :=
  indexOf?_map_inj (renComp_injective hn hk hv) comps c

theorem idxWhere_map {β γ : Type} (g : β → γ) (l : List β) (p : γ → Bool) :
    idxWhere (l.map g) p = idxWhere l (fun x => p (g x)) := by
  unfold idxWhere
  rw [List.zipIdx_map, List.filter_map, List.map_map]
  rfl

end inj

section prep
variable {α : Type} {ρn ρk ρv : String → String}

theorem allLookup_ren (hk : Function.Injective ρk) (hv : Function.Injective ρv) (s flt : Strata) :
    (renStrata ρk ρv flt).all (fun kv => alookup (renStrata ρk ρv s) kv.1 == some kv.2)
      = flt.all (fun kv => alookup s kv.1 == some kv.2) := by
  show ((flt.map _).all _) = _
  rw [List.all_map]
  congr 1; funext kv
  exact alookup_renStrata_beq hk hv s kv.1 kv.2

theorem isInfectious_ren (hn : Function.Injective ρn) (m : Model α) (c : Comp) :
    isInfectious (renModel ρn ρk ρv m) (renComp ρn ρk ρv c) = isInfectious m c :=
  contains_map_inj hn m.infectious c.name

theorem strainFilter_ren (h : GoodRenaming ρn ρk ρv) (m : Model α) (st : String) :
    strainFilter (renModel ρn ρk ρv m) (ρv st) = renStrata ρk ρv (strainFilter m st) := by
  unfold strainFilter
  have hany : (renModel ρn ρk ρv m).strats.any (fun s => s.name == "strain")
      = m.strats.any (fun s => s.name == "strain") := by
    show (m.strats.map (renStrat ρn ρk ρv)).any _ = _
    rw [List.any_map]
    congr 1; funext s
    have := beq_inj h.injK s.name "strain"
    rw [h.strainK] at this
    exact this
  rw [hany]
  by_cases hs : (m.strats.any (fun s => s.name == "strain")) = true
  · simp only [hs, if_true, renStrata, List.map_cons, List.map_nil, h.strainK]
  · simp only [hs, Bool.false_eq_true, if_false, renStrata, List.map_nil]

theorem strainInfectiousIdx_ren (h : GoodRenaming ρn ρk ρv) (m : Model α) (st : String) :
    strainInfectiousIdx (renModel ρn ρk ρv m) (ρv st) = strainInfectiousIdx m st := by
  unfold strainInfectiousIdx
  show idxWhere (m.comps.map (renComp ρn ρk ρv)) _ = _
  rw [idxWhere_map, strainFilter_ren h]
  congr 1; funext c
  rw [isInfectious_ren h.injN]
  show ((renStrata ρk ρv (strainFilter m st)).all
    (fun kv => alookup (renStrata ρk ρv c.strata) kv.1 == some kv.2) && _) = _
  rw [allLookup_ren h.injK h.injV]

theorem strainOf_ren (h : GoodRenaming ρn ρk ρv) (s : Strata) :
    (alookup (renStrata ρk ρv s) "strain").getD "default"
      = ρv ((alookup s "strain").getD "default") := by
  have := alookup_renStrata (ρv := ρv) h.injK s "strain"
  rw [h.strainK] at this
  rw [this]
  cases alookup s "strain" with
  | none => exact h.defaultV.symm
  | some w => rfl

theorem ixStep_ren (h : GoodRenaming ρn ρk ρv) (comps : List Comp) (msg : String) (o : Option Comp) :
    (match o.map (renComp ρn ρk ρv) with
      | none => (pure (none : Option Nat) : Res (Option Nat))
      | some c => match compIdx (comps.map (renComp ρn ρk ρv)) c with
        | some i => pure (some i)
        | none => fail msg)
    = (match o with
      | none => (pure (none : Option Nat) : Res (Option Nat))
      | some c => match compIdx comps c with
        | some i => pure (some i)
        | none => fail msg) := by
  cases o with
  | none => rfl
  | some c => simp only [Option.map_some, compIdx_ren h.injN h.injK h.injV]

theorem lookupStep_ren (h : GoodRenaming ρn ρk ρv) (comps : List Comp) (strains : List String)
    (cl : List Nat) (f : Flow α) :
    (have cat := match (renFlow ρn ρk ρv f).src with
        | some c => cl.getD ((compIdx (comps.map (renComp ρn ρk ρv)) c).getD 0) 0
        | none => 0
      have strain := match (renFlow ρn ρk ρv f).dst with
        | some c => (alookup c.strata "strain").getD "default"
        | none => "default"
      match indexOf? (strains.map ρv) strain with
      | some si => (pure (si, cat) : Res (Nat × Nat))
      | none => fail "strain of infection flow destination is not a model strain")
    = (have cat := match f.src with
        | some c => cl.getD ((compIdx comps c).getD 0) 0
        | none => 0
      have strain := match f.dst with
        | some c => (alookup c.strata "strain").getD "default"
        | none => "default"
      match indexOf? strains strain with
      | some si => (pure (si, cat) : Res (Nat × Nat))
      | none => fail "strain of infection flow destination is not a model strain") := by
  obtain ⟨kind, name, src, dst, param, adjs⟩ := f
  have hd : (match dst.map (renComp ρn ρk ρv) with
        | some c => (alookup c.strata "strain").getD "default"
        | none => "default") = ρv (match dst with
        | some c => (alookup c.strata "strain").getD "default"
        | none => "default") := by
    cases dst with
    | none => exact h.defaultV.symm
    | some c => exact strainOf_ren h c.strata
  have hs : (match src.map (renComp ρn ρk ρv) with
        | some c => cl.getD ((compIdx (comps.map (renComp ρn ρk ρv)) c).getD 0) 0
        | none => 0) = (match src with
        | some c => cl.getD ((compIdx comps c).getD 0) 0
        | none => 0) := by
    cases src with
    | none => rfl
    | some c => simp only [Option.map_some, compIdx_ren h.injN h.injK h.injV]
  simp only [renFlow, hd, hs, indexOf?_map_inj h.injV]

theorem prepare_ren (h : GoodRenaming ρn ρk ρv) (m : Model α) :
    prepare (renModel ρn ρk ρv m) = prepare m := by
  unfold prepare
  show (List.mapM _ (m.flows.map (renFlow ρn ρk ρv)) >>= _) = _
  rw [List.mapM_map]
  congr 1
  · congr 1; funext f
    exact ixStep_ren h m.comps _ f.src
  · funext srcIdx
    show (List.mapM _ (m.flows.map (renFlow ρn ρk ρv)) >>= _) = _
    rw [List.mapM_map]
    congr 1
    · congr 1; funext f
      exact ixStep_ren h m.comps _ f.dst
    · funext dstIdx
      have E1 : List.map (fun cat => idxWhere (renModel ρn ρk ρv m).comps
            fun c => List.all cat fun kv => c.hasStratum kv.fst kv.snd) (renModel ρn ρk ρv m).mixingCats
          = List.map (fun cat => idxWhere m.comps
            fun c => List.all cat fun kv => c.hasStratum kv.fst kv.snd) m.mixingCats := by
        show List.map _ (m.mixingCats.map (renStrata ρk ρv)) = _
        rw [List.map_map]
        apply List.map_congr_left
        intro cat _
        rw [Function.comp_apply]
        show idxWhere (m.comps.map (renComp ρn ρk ρv)) _ = _
        rw [idxWhere_map]
        congr 1; funext c
        show ((cat.map _).all _) = _
        rw [List.all_map]
        congr 1; funext kv
        exact hasStratum_ren h.injK h.injV c kv.1 kv.2
      have E2 : (renModel ρn ρk ρv m).comps.length = m.comps.length := List.length_map _
      have E3 : (renModel ρn ρk ρv m).mixingCats.length = m.mixingCats.length := List.length_map _
      have E4 : List.map (strainInfectiousIdx (renModel ρn ρk ρv m)) (renModel ρn ρk ρv m).strains
          = List.map (strainInfectiousIdx m) m.strains := by
        show List.map _ (m.strains.map ρv) = _
        rw [List.map_map]
        apply List.map_congr_left
        intro st _
        exact strainInfectiousIdx_ren h m st
      have E5 : ∀ p : FlowKind → Bool, idxWhere (renModel ρn ρk ρv m).flows (fun f => p f.kind)
          = idxWhere m.flows (fun f => p f.kind) := by
        intro p
        show idxWhere (m.flows.map (renFlow ρn ρk ρv)) _ = _
        rw [idxWhere_map]; rfl
      have E6 : ∀ k : FlowKind, (renModel ρn ρk ρv m).flows.any (fun f => f.kind == k)
          = m.flows.any (fun f => f.kind == k) := by
        intro k
        show (m.flows.map (renFlow ρn ρk ρv)).any _ = _
        rw [List.any_map]; rfl
      have E8 : (renModel ρn ρk ρv m).flows.length = m.flows.length := List.length_map _
      have E7 : ∀ cl : List Nat,
          List.mapM (fun f : Flow α =>
            match indexOf? (renModel ρn ρk ρv m).strains (match f.dst with
              | some c => (alookup c.strata "strain").getD "default"
              | none => "default") with
            | some si => (pure (si, match f.src with
              | some c => cl.getD ((compIdx (renModel ρn ρk ρv m).comps c).getD 0) 0
              | none => 0) : Res (Nat × Nat))
            | none => fail "strain of infection flow destination is not a model strain")
            (List.filter (fun f => Generated.infectionKinds.contains f.kind) (renModel ρn ρk ρv m).flows)
          = List.mapM (fun f : Flow α =>
            match indexOf? m.strains (match f.dst with
              | some c => (alookup c.strata "strain").getD "default"
              | none => "default") with
            | some si => (pure (si, match f.src with
              | some c => cl.getD ((compIdx m.comps c).getD 0) 0
              | none => 0) : Res (Nat × Nat))
            | none => fail "strain of infection flow destination is not a model strain")
            (List.filter (fun f => Generated.infectionKinds.contains f.kind) m.flows) := by
        intro cl
        show List.mapM _ (List.filter _ (m.flows.map (renFlow ρn ρk ρv))) = _
        rw [List.filter_map, List.mapM_map]
        congr 1; funext f
        exact lookupStep_ren h m.comps m.strains cl f
      simp only [E1, E2, E3, E4, E5, E6, E8]
      congr 1; funext _
      congr 1; funext sci
      congr 1
      exact E7 _
end prep
section stepsec
variable {α : Type} [Zero α] [One α] [Add α] [Sub α] [Mul α] [Div α] [LT α] [DecidableLT α]
variable {ρn ρk ρv : String → String}

theorem compInfectiousness_ren (h : GoodRenaming ρn ρk ρv) (m : Model α) (params : List (String × α)) :
    compInfectiousness (renModel ρn ρk ρv m) params = compInfectiousness m params := by
  have hc : ∀ c, compIdx (renModel ρn ρk ρv m).comps (renComp ρn ρk ρv c) = compIdx m.comps c :=
    compIdx_ren h.injN h.injK h.injV m.comps
  unfold compInfectiousness
  show List.foldlM _ (List.replicate (m.comps.map (renComp ρn ρk ρv)).length 1)
    (m.strats.map (renStrat ρn ρk ρv)) = _
  rw [List.foldlM_map, List.length_map]
  congr 1; funext acc s
  show List.foldlM _ acc (s.infAdj.map _) = _
  rw [List.foldlM_map]
  congr 1; funext acc ia
  show List.foldlM _ acc (ia.2.map _) = _
  rw [List.foldlM_map]
  congr 1; funext acc sa
  obtain ⟨k, oa⟩ := sa
  cases oa with
  | none => rfl
  | some adj =>
    have hg := getMatching_ren h.injN h.injK h.injV m ia.1 [(s.name, k)]
    show (evalStatic params adj.expr >>= fun v => pure (List.foldl _ acc
      (getMatching (renModel ρn ρk ρv m) (ρn ia.1) (renStrata ρk ρv [(s.name, k)])))) = _
    rw [hg]
    simp only [List.foldl_map, hc]

theorem realised_renFlow (f : Flow α) : realised (renFlow ρn ρk ρv f) = realised f := rfl

theorem staticFlowWeights_ren (m : Model α) (params : List (String × α)) :
    staticFlowWeights (renModel ρn ρk ρv m) params = staticFlowWeights m params := by
  unfold staticFlowWeights
  show List.mapM _ (m.flows.map (renFlow ρn ρk ρv)) = _
  rw [List.mapM_map]
  rfl

theorem flowWeights_ren (m : Model α) (env : Env α) (static : List α) :
    flowWeights (renModel ρn ρk ρv m) env static = flowWeights m env static := by
  unfold flowWeights
  show List.mapM _ ((m.flows.map (renFlow ρn ρk ρv)).zip static) = _
  rw [List.zip_map_left, List.mapM_map]
  rfl

theorem mixingMatrix_ren (m : Model α) (env : Env α) :
    mixingMatrix (renModel ρn ρk ρv m) env = mixingMatrix m env := rfl

theorem step_ren (h : GoodRenaming ρn ρk ρv) (m : Model α) (b : Backend) (params : List (String × α))
    (t : α) (x : List α) :
    step (renModel ρn ρk ρv m) b params t x = step m b params t x := by
  unfold step
  simp only [staticFlowWeights_ren, flowWeights_ren, mixingMatrix_ren, compInfectiousness_ren h]

theorem rhs_ren (h : GoodRenaming ρn ρk ρv) (m : Model α) (b : Backend) (params : List (String × α))
    (x : List α) (t : α) :
    rhs (renModel ρn ρk ρv m) b params x t = rhs m b params x t := by
  unfold rhs
  rw [step_ren h]
/-- everything at once, with the hypotheses spelled out: if `prepare` succeeds on `m` with tables
`b`, it succeeds on the renamed model with the *same* tables, and every quantity computed by one
evaluation of the right-hand side is the same. -/
theorem rename_invariant
    (hn : Function.Injective ρn) (hk : Function.Injective ρk) (hv : Function.Injective ρv)
    (hstrain : ρk "strain" = "strain") (hdefault : ρv "default" = "default")
    (m : Model α) (b : Backend) (hb : prepare m = .ok b) :
    prepare (renModel ρn ρk ρv m) = .ok b ∧
      (renModel ρn ρk ρv m).comps = m.comps.map (renComp ρn ρk ρv) ∧
      (∀ params, compInfectiousness (renModel ρn ρk ρv m) params = compInfectiousness m params) ∧
      (∀ params t x, step (renModel ρn ρk ρv m) b params t x = step m b params t x) ∧
      (∀ params x t, rhs (renModel ρn ρk ρv m) b params x t = rhs m b params x t) := by
  have h : GoodRenaming ρn ρk ρv := ⟨hn, hk, hv, hstrain, hdefault⟩
  exact ⟨(prepare_ren h m).trans hb, rfl, compInfectiousness_ren h m, step_ren h m b, rhs_ren h m b⟩

end stepsec

/-! ### 6. non-vacuity -/
section example_

/-- the transposition of two strings -/
def swap (a b s : String) : String := if s = a then b else if s = b then a else s

theorem swap_swap (a b s : String) : swap a b (swap a b s) = s := by
  unfold swap
  by_cases h1 : s = a
  · by_cases h3 : b = a
    · simp [h1, h3]
    · simp [h1, h3]
  · by_cases h2 : s = b
    · simp [h2]
    · simp [h1, h2]

theorem swap_injective (a b : String) : Function.Injective (swap a b) := by
  intro x y h
  rw [← swap_swap a b x, h, swap_swap]

def young : Strata := [("age", "young")]
def old : Strata := [("age", "old")]
def exComps : List Comp :=
  [⟨"S", young⟩, ⟨"S", old⟩,
   ⟨"I", [("age", "young"), ("strain", "wild")]⟩, ⟨"I", [("age", "young"), ("strain", "variant")]⟩,
   ⟨"I", [("age", "old"), ("strain", "wild")]⟩, ⟨"I", [("age", "old"), ("strain", "variant")]⟩]

def mkInf (a st : String) (p : Rat) : Flow Rat :=
  { kind := .infFreq, name := "infection", src := some ⟨"S", [("age", a)]⟩,
    dst := some ⟨"I", [("age", a), ("strain", st)]⟩, param := .const p, adjs := [] }
def mkRec (a st : String) : Flow Rat :=
  { kind := .transition, name := "recovery", src := some ⟨"I", [("age", a), ("strain", st)]⟩,
    dst := some ⟨"S", [("age", a)]⟩, param := .const (1/2), adjs := [] }

/-- S, I stratified by "age" (young/old, with a mixing matrix and an infectiousness adjustment), I
further stratified by "strain" (wild/variant): 6 compartments, 4 infection flows, 4 recoveries,
a birth flow into young S. -/
def exModel : Model Rat :=
  { t0 := 0, t1 := 10, dt := 1, nTimes := 11,
    comps := exComps, origNames := ["S", "I"], infectious := ["I"],
    flows := [mkInf "young" "wild" 2, mkInf "young" "variant" 3, mkInf "old" "wild" 2, mkInf "old" "variant" 3,
      mkRec "young" "wild", mkRec "young" "variant", mkRec "old" "wild", mkRec "old" "variant",
      { kind := .crudeBirth, name := "births", src := none, dst := some ⟨"S", young⟩, param := .const (1/50), adjs := [] }],
    strats := [
      { kind := .age, name := "age", strata := ["young", "old"], comps := ["S", "I"], split := [], flowAdj := [],
        infAdj := [("I", [("young", some (.mul (.const 2))), ("old", none)])],
        mixing := some [[.const 1, .const (1/2)], [.const (1/2), .const 1]] },
      { kind := .strain, name := "strain", strata := ["wild", "variant"], comps := ["I"], split := [], flowAdj := [],
        infAdj := [("I", [("wild", none), ("variant", some (.ovr (.const 3)))])], mixing := none }],
    mixingCats := [young, old],
    mixingMats := [[[.const 1, .const (1/2)], [.const (1/2), .const 1]]],
    strains := ["wild", "variant"],
    initDist := none, arrayPop := none, actions := [], requests := [], computed := [], whitelist := [],
    finalized := true }

/-- swap the *existing* names S ↔ I, rename "age" to "agegroup", swap the labels young ↔ old -/
def exN := swap "S" "I"
def exK := swap "age" "agegroup"
def exV := swap "young" "old"

theorem exGood : GoodRenaming exN exK exV :=
  ⟨swap_injective _ _, swap_injective _ _, swap_injective _ _, by decide, by decide⟩

deriving instance DecidableEq for Backend

/-- the main theorem applies to the example … -/
example : prepare (renModel exN exK exV exModel) = prepare exModel := prepare_ren exGood exModel
/-- … `prepare` succeeds on it (so the equation is not between two errors) … -/
example : (prepare exModel).toOption.isSome = true := by decide
/-- … and, independently of the theorem, the kernel computes the same tables on both sides -/
example : (prepare (renModel exN exK exV exModel)).toOption = (prepare exModel).toOption := by decide +kernel
/-- the renamed model really is a different model: compartments relabelled, order kept -/
example : (renModel exN exK exV exModel).comps =
    [⟨"I", [("agegroup", "old")]⟩, ⟨"I", [("agegroup", "young")]⟩,
     ⟨"S", [("agegroup", "old"), ("strain", "wild")]⟩, ⟨"S", [("agegroup", "old"), ("strain", "variant")]⟩,
     ⟨"S", [("agegroup", "young"), ("strain", "wild")]⟩, ⟨"S", [("agegroup", "young"), ("strain", "variant")]⟩] := by
  decide
example : compInfectiousness (renModel exN exK exV exModel) [] = some [1, 1, 2, 3, 1, 3] ∧
    compInfectiousness exModel [] = some [1, 1, 2, 3, 1, 3] := by decide +kernel


def exPlain : Model Rat :=
  { exModel with
    comps := [⟨"S", []⟩, ⟨"I", []⟩]
    flows := [{ kind := .infFreq, name := "infection", src := some ⟨"S", []⟩, dst := some ⟨"I", []⟩, param := .const 2, adjs := [] },
              { kind := .transition, name := "recovery", src := some ⟨"I", []⟩, dst := some ⟨"S", []⟩, param := .const 2, adjs := [] }]
    strats := [], mixingCats := [[]], mixingMats := [], strains := ["default"] }

/-- one evaluation of the right-hand side of the example succeeds (so `step_ren`/`rhs_ren` are not
equations between two `none`s), and is the same for the renamed model by kernel evaluation too -/
example : ((prepare exModel).toOption.bind (fun b => rhs exModel b [] [90, 80, 5, 3, 2, 1] 0)).isSome = true := by
  decide +kernel
example : (prepare exModel).toOption.bind (fun b => rhs (renModel exN exK exV exModel) b [] [90, 80, 5, 3, 2, 1] 0)
    = (prepare exModel).toOption.bind (fun b => rhs exModel b [] [90, 80, 5, 3, 2, 1] 0) := by
  decide +kernel
example (b : Backend) (hb : prepare exModel = .ok b) :=
  rename_invariant (swap_injective "S" "I") (swap_injective "age" "agegroup") (swap_injective "young" "old")
    (by decide) (by decide) exModel b hb

/-! Each hypothesis of `GoodRenaming` is necessary (all checked by kernel evaluation):
* `ρk "strain" = "strain"`: renaming the stratification "strain" to "lineage" makes `prepare` fail
  ("strain of infection flow destination is not a model strain"), because `Run.strainFilter` and
  the strain lookup of infection flows hard-code the key "strain";
* `ρv "default" = "default"`: in an unstratified model (`strains = ["default"]`) swapping the labels
  "default" ↔ "wild" makes `prepare` fail with the same error, because the strain of an infection
  flow whose destination has no "strain" key is the hard-coded label "default";
* injectivity of `ρn`: mapping every compartment name to "X" merges S and I (`populationIdx`
  `[0, 1]` becomes `[0, 0]`);
* injectivity of `ρk`: mapping every stratification name to "k" makes the two-key strata
  dictionaries ambiguous and `prepare` fails;
* injectivity of `ρv`: mapping every stratum label to "v" makes every compartment a member of every
  mixing category (`catIdx = [[0,…,5],[0,…,5]]` instead of `[[0,2,3],[1,4,5]]`). -/
example : (prepare (renModel exN (swap "strain" "lineage") exV exModel)).toOption = none := by decide +kernel
example : (prepare (renModel exN exK (swap "default" "wild") exPlain)).toOption = none ∧
    (prepare exPlain).toOption.isSome = true := by decide +kernel
example : (prepare exPlain).toOption.map (·.populationIdx) = some [0, 1] ∧
    (prepare (renModel (fun _ => "X") exK exV exPlain)).toOption.map (·.populationIdx) = some [0, 0] := by
  decide +kernel
example : (prepare (renModel exN (fun _ => "k") exV exModel)).toOption = none := by decide +kernel
example : (prepare exModel).toOption.map (·.catIdx) = some [[0, 2, 3], [1, 4, 5]] ∧
    (prepare (renModel exN exK (fun _ => "v") exModel)).toOption.map (·.catIdx)
      = some [[0, 1, 2, 3, 4, 5], [0, 1, 2, 3, 4, 5]] := by decide +kernel

end example_

#print axioms comp_beq_iff
#print axioms renComp_beq
#print axioms alookup_renStrata
#print axioms dictSet_renStrata
#print axioms strataContains_ren
#print axioms isMatch_ren
#print axioms hasStratum_ren
#print axioms hasNameIn_ren
#print axioms stratify_ren
#print axioms getMatching_ren
#print axioms stratifyComps_ren
#print axioms compIdx_ren
#print axioms prepare_ren
#print axioms compInfectiousness_ren
#print axioms step_ren
#print axioms rhs_ren
#print axioms rename_invariant

end Summer.Proofs.InvRename

/-! # Part "flow_before_after" of C15 -/
/-
Property C15, part "flow_before_after": adding a transition / infection / death flow *before* an
unadjusted, non-age stratification that covers both its endpoints gives exactly the same model as
adding it *afterwards*.

Main results (bottom of the respective sections): `flow_before_after_transition`, `flow_before_after_death`
(exact equality, non-age stratification), their generalisations `…_gen`, and the optional age variants
`flow_before_after_transition_age`, `flow_before_after_death_age` (same model up to the order of the
flows; precisely two adjacent blocks swapped, `before_after_age_core`).

Everything here is purely structural (no arithmetic on `α`): `stratifyWith` and `addFlow` only need
the core classes `[One α] [Div α] [NatCast α]` (Lean prunes the other section variables of
`Summer/Model/Build.lean`: `#check @stratifyWith`), so the theorems are stated for exactly those and
apply verbatim to the model instantiated at any field.
-/
namespace Summer.Proofs.InvFlowOrder
open Summer Summer.Build Summer.Generated Summer.Spec

/-! ### `Except` / list helpers -/

theorem bind_ok_iff {ε β γ : Type} (x : Except ε β) (f : β → Except ε γ) (c : γ) :
    (x >>= f) = .ok c ↔ ∃ b, x = .ok b ∧ f b = .ok c := by
  cases x with
  | error e => simp [bind, Except.bind]
  | ok b => simp [bind, Except.bind]

theorem guardE_bind_ok_iff {β : Type} (c : Bool) (msg : String) (x : Unit → Res β) (b : β) :
    (guardE c msg >>= x) = .ok b ↔ c = true ∧ x () = .ok b := by
  cases c with
  | false => simp [guardE, fail, bind, Except.bind]
  | true => simp [guardE, bind, Except.bind, pure, Except.pure]

/-- "flatMap in the `Res` monad", written exactly as the flow loop of `stratifyWith` -/
def flatMapM {β γ : Type} (g : β → Res (List γ)) (l : List β) : Res (List γ) :=
  l.foldlM (fun (acc : List γ) f => do
      let fs ← g f
      pure (acc ++ fs)) []

theorem foldlM_acc {β γ : Type} (g : β → Res (List γ)) (l : List β) (acc : List γ) :
    l.foldlM (fun (acc : List γ) f => do
      let fs ← g f
      pure (acc ++ fs)) acc = (do
      let b ← flatMapM g l
      pure (acc ++ b)) := by
  induction l generalizing acc with
  | nil => simp [flatMapM]
  | cons f l ih =>
    simp only [flatMapM, List.foldlM_cons, bind_assoc, pure_bind, List.nil_append]
    refine bind_congr fun fs => ?_
    rw [ih (acc ++ fs), ih fs]
    simp only [bind_assoc, pure_bind, List.append_assoc]

theorem flatMapM_append {β γ : Type} (g : β → Res (List γ)) (l1 l2 : List β) :
    flatMapM g (l1 ++ l2) = (do
      let a ← flatMapM g l1
      let b ← flatMapM g l2
      pure (a ++ b)) := by
  show (l1 ++ l2).foldlM _ [] = _
  rw [List.foldlM_append]
  show (flatMapM g l1 >>= fun a => l2.foldlM _ a) = _
  refine bind_congr fun a => ?_
  exact foldlM_acc g l2 a

theorem flatMapM_map_ok {β β' γ : Type} (g : β → Res (List γ)) (k : β' → β) (h : β' → List γ)
    (l : List β') (hl : ∀ p ∈ l, g (k p) = .ok (h p)) :
    flatMapM g (l.map k) = .ok (l.flatMap h) := by
  induction l with
  | nil => rfl
  | cons p l ih =>
    have e : (p :: l).map k = [k p] ++ l.map k := rfl
    rw [e, flatMapM_append, ih (fun q hq => hl q (List.mem_cons_of_mem _ hq))]
    simp only [flatMapM, List.foldlM_cons, List.foldlM_nil, hl p List.mem_cons_self, List.nil_append,
      List.flatMap_cons]
    rfl

theorem length_flatMap_blocks {β γ : Type} (n : Nat) (l : List β) (f : β → List γ)
    (hf : ∀ a ∈ l, (f a).length = n) : (l.flatMap f).length = n * l.length := by
  induction l with
  | nil => simp
  | cons a l ih =>
    rw [List.flatMap_cons, List.length_append, hf a List.mem_cons_self,
      ih (fun b hb => hf b (List.mem_cons_of_mem _ hb)), List.length_cons, Nat.mul_succ, Nat.add_comm]

/-- zipping two block lists whose blocks all have the same length is the block-wise zip (no
assumption `l1.length = l2.length`: both sides truncate at `n * min`). -/
theorem zip_flatMap_blocks {β γ β' γ' : Type} (n : Nat) (l1 : List β) (l2 : List γ)
    (f : β → List β') (g : γ → List γ')
    (hf : ∀ a ∈ l1, (f a).length = n) (hg : ∀ b ∈ l2, (g b).length = n) :
    (l1.flatMap f).zip (l2.flatMap g) = (l1.zip l2).flatMap (fun p => (f p.1).zip (g p.2)) := by
  induction l1 generalizing l2 with
  | nil => simp
  | cons a l1 ih =>
    cases l2 with
    | nil => simp
    | cons b l2 =>
      rw [List.flatMap_cons, List.flatMap_cons, List.zip_cons_cons, List.flatMap_cons,
        List.zip_append (by rw [hf a List.mem_cons_self, hg b List.mem_cons_self]),
        ih l2 (fun x hx => hf x (List.mem_cons_of_mem _ hx)) (fun x hx => hg x (List.mem_cons_of_mem _ hx))]

theorem forIn_guard_congr {β : Type} (l : List β) (p q : β → Bool) (msg : String)
    (h : ∀ d ∈ l, p d = q d) :
    (forIn l PUnit.unit (fun d (_ : PUnit) => do
        guardE (p d) msg
        pure (ForInStep.yield PUnit.unit)) : Res PUnit) =
    forIn l PUnit.unit (fun d (_ : PUnit) => do
        guardE (q d) msg
        pure (ForInStep.yield PUnit.unit)) := by
  induction l with
  | nil => rfl
  | cons a l ih =>
    simp only [List.forIn_cons, bind_assoc, pure_bind, h a List.mem_cons_self]
    refine bind_congr fun _ => ?_
    exact ih (fun d hd => h d (List.mem_cons_of_mem _ hd))

/-! ### Decomposition of `stratifyWith` for a non-age stratification -/

section
variable {α : Type}

/-- all the validations of `stratifyWith` that precede the compartment/flow rewriting, and the
mixing / strain bookkeeping (verbatim copy of the first part of `stratifyWith`) -/
def pre (m : Model α) (s : Strat α) : Res (Model α) := do
  guardE (!m.strats.any (fun t => t.name == s.name)) "stratification already exists"
  guardE (!m.finalized) "finalized"
  for d in s.flowAdj do
    guardE (m.flows.any (fun f => f.name == d.flow)) "flow adjustment refers to a flow that is not present"
  for d in s.flowAdj do
    strataExist m d.srcStrata
    strataExist m d.dstStrata
  guardE (s.infAdj.all (fun ia => m.origNames.contains ia.1)) "infectiousness adjustment refers to unknown compartment"
  let m1 ← (match s.mixing with
    | none => pure m
    | some mat => do
        guardE (!s.isStrain) "strains cannot have a mixing matrix"
        guardE (s.comps == m.origNames) "mixing matrices only allowed for full stratification"
        pure { m with mixingMats := m.mixingMats ++ [mat],
                      mixingCats := m.mixingCats.flatMap (fun mc => s.strata.map (fun st => dictSet mc s.name st)) } : Res (Model α))
  let m2 ← (if s.isStrain then do
        guardE (!m.strats.any (fun t => t.isStrain)) "strain stratification already applied"
        pure { m1 with strains := s.strata }
      else pure m1 : Res (Model α))
  guardE (s.comps.all (fun c => m.origNames.contains c)) "trying to stratify non-existent compartment"
  pure m2

theorem strataExist_flows (m : Model α) (fl : List (Flow α)) (flt : Strata) :
    strataExist { m with flows := fl } flt = strataExist m flt := rfl

/-- appending flows whose names are not mentioned by any flow-adjustment declaration of `s` does not
change `pre` (not even its error) -/
theorem pre_append (m : Model α) (s : Strat α) (new : List (Flow α))
    (hn : ∀ d ∈ s.flowAdj, new.any (fun f => f.name == d.flow) = false) :
    pre { m with flows := m.flows ++ new } s = (do
      let m2 ← pre m s
      pure { m2 with flows := m2.flows ++ new }) := by
  simp only [pre, bind_assoc, pure_bind, List.any_append, strataExist_flows]
  rw [forIn_guard_congr s.flowAdj _ (fun d => m.flows.any (fun f => f.name == d.flow)) _
    (fun d hd => by simp only [hn d hd, Bool.or_false])]
  refine bind_congr fun _ => bind_congr fun _ => bind_congr fun _ => bind_congr fun _ =>
    bind_congr fun _ => ?_
  cases s.mixing <;> cases s.isStrain
  all_goals simp only [pure_bind, bind_assoc, if_true, if_false, Bool.false_eq_true]

/-- `pre` only touches `mixingMats`, `mixingCats`, `strains` -/
theorem pre_fields (m m2 : Model α) (s : Strat α) (h : pre m s = .ok m2) :
    m2.comps = m.comps ∧ m2.flows = m.flows ∧ m2.finalized = m.finalized ∧ m2.origNames = m.origNames := by
  simp only [pre] at h
  obtain ⟨-, h⟩ := (guardE_bind_ok_iff _ _ _ _).1 h
  obtain ⟨-, h⟩ := (guardE_bind_ok_iff _ _ _ _).1 h
  obtain ⟨_, -, h⟩ := (bind_ok_iff _ _ _).1 h
  obtain ⟨_, -, h⟩ := (bind_ok_iff _ _ _).1 h
  obtain ⟨-, h⟩ := (guardE_bind_ok_iff _ _ _ _).1 h
  obtain ⟨m1, h1, h⟩ := (bind_ok_iff _ _ _).1 h
  obtain ⟨m2', h2, h⟩ := (bind_ok_iff _ _ _).1 h
  obtain ⟨-, h⟩ := (guardE_bind_ok_iff _ _ _ _).1 h
  cases h
  have e1 : m1.comps = m.comps ∧ m1.flows = m.flows ∧ m1.finalized = m.finalized ∧ m1.origNames = m.origNames := by
    cases hm : s.mixing with
    | none => rw [hm] at h1; cases h1; exact ⟨rfl, rfl, rfl, rfl⟩
    | some mat =>
      rw [hm] at h1
      obtain ⟨-, h1⟩ := (guardE_bind_ok_iff _ _ _ _).1 h1
      obtain ⟨-, h1⟩ := (guardE_bind_ok_iff _ _ _ _).1 h1
      cases h1; exact ⟨rfl, rfl, rfl, rfl⟩
  have e2 : m2.comps = m1.comps ∧ m2.flows = m1.flows ∧ m2.finalized = m1.finalized ∧ m2.origNames = m1.origNames := by
    cases hs : s.isStrain with
    | false => rw [hs] at h2; cases h2; exact ⟨rfl, rfl, rfl, rfl⟩
    | true =>
      rw [hs] at h2
      simp only [if_true] at h2
      obtain ⟨-, h2⟩ := (guardE_bind_ok_iff _ _ _ _).1 h2
      cases h2; exact ⟨rfl, rfl, rfl, rfl⟩
  exact ⟨e2.1.trans e1.1, e2.2.1.trans e1.2.1, e2.2.2.1.trans e1.2.2.1, e2.2.2.2.trans e1.2.2.2⟩

end

section
variable {α : Type} [One α] [Div α] [NatCast α]

/-- the flow loop of `stratifyWith` -/
def flowsStrat (fl : List (Flow α)) (s : Strat α) : Res (List (Flow α)) :=
  flatMapM (fun f => stratifyFlow f s) fl

/-- For a non-age stratification `stratifyWith` is: validations (`pre`), then the stratified
compartments and flows.  (Exact equality in `Res`, including error values.) -/
theorem stratifyWith_eq (m : Model α) (s : Strat α) (h : s.isAgeing = false) :
    stratifyWith m s = (do
      let m2 ← pre m s
      let nf ← flowsStrat m2.flows s
      pure { m2 with comps := stratifyComps m2.comps s, flows := nf, strats := m2.strats ++ [s],
                     actions := m2.actions ++ [.stratify s.name] }) := by
  simp only [stratifyWith, pre, flowsStrat, flatMapM, h, bind_assoc, pure_bind]
  rfl

/-- Stratifying a model with extra flows appended (none of them named by a flow-adjustment
declaration of `s`) = stratifying the model, then appending the stratified extra flows. -/
theorem stratifyWith_append (m : Model α) (s : Strat α) (new : List (Flow α)) (h : s.isAgeing = false)
    (hn : ∀ d ∈ s.flowAdj, new.any (fun f => f.name == d.flow) = false) :
    stratifyWith { m with flows := m.flows ++ new } s = (do
      let a ← stratifyWith m s
      let b ← flowsStrat new s
      pure { a with flows := a.flows ++ b }) := by
  rw [stratifyWith_eq _ _ h, stratifyWith_eq _ _ h, pre_append m s new hn]
  simp only [bind_assoc, pure_bind]
  refine bind_congr fun m2 => ?_
  show flowsStrat (m2.flows ++ new) s >>= _ = _
  rw [flowsStrat, flatMapM_append]
  simp only [bind_assoc, pure_bind, flowsStrat]

theorem stratifyWith_fields (m a : Model α) (s : Strat α) (h : s.isAgeing = false)
    (hok : stratifyWith m s = .ok a) :
    a.comps = stratifyComps m.comps s ∧ a.finalized = m.finalized ∧ a.origNames = m.origNames := by
  rw [stratifyWith_eq _ _ h] at hok
  obtain ⟨m2, h2, hok⟩ := (bind_ok_iff _ _ _).1 hok
  obtain ⟨nf, -, hok⟩ := (bind_ok_iff _ _ _).1 hok
  obtain ⟨hc, -, hf, ho⟩ := pre_fields m m2 s h2
  cases hok
  exact ⟨by rw [← hc], hf, ho⟩

end

/-! ### Compartments -/

section
variable {α : Type}

/-- the block of `stratifyComps` generated by one compartment -/
def stratOne (s : Strat α) (c : Comp) : List Comp :=
  if c.hasNameIn s.comps then s.strata.map (fun st => c.stratify s.name st) else [c]

theorem stratifyComps_eq (comps : List Comp) (s : Strat α) :
    stratifyComps comps s = comps.flatMap (stratOne s) := rfl

theorem stratOne_name (s : Strat α) (c c' : Comp) (h : c' ∈ stratOne s c) : c'.name = c.name := by
  unfold stratOne at h
  split at h
  · obtain ⟨st, -, rfl⟩ := List.mem_map.1 h
    rfl
  · rw [List.mem_singleton.1 h]

/-- `filter` by name commutes with `stratifyComps` (because `Comp.stratify` keeps the name) -/
theorem filter_name_stratifyComps (comps : List Comp) (s : Strat α) (x : String) :
    (stratifyComps comps s).filter (fun c => c.name == x) =
      (comps.filter (fun c => c.name == x)).flatMap (stratOne s) := by
  rw [stratifyComps_eq]
  induction comps with
  | nil => rfl
  | cons c cs ih =>
    rw [List.flatMap_cons, List.filter_append, ih]
    cases hc : c.name == x with
    | true =>
      rw [List.filter_cons_of_pos (by simpa using hc), List.flatMap_cons]
      congr 1
      refine List.filter_eq_self.2 (fun c' hc' => ?_)
      rw [stratOne_name s c c' hc']; exact hc
    | false =>
      rw [List.filter_cons_of_neg (by simp [hc])]
      have : (stratOne s c).filter (fun c => c.name == x) = [] := by
        refine List.filter_eq_nil_iff.2 (fun c' hc' => ?_)
        rw [stratOne_name s c c' hc', hc]; simp
      rw [this, List.nil_append]

theorem stratOne_length (s : Strat α) (c : Comp) :
    (stratOne s c).length = if s.comps.contains c.name then s.strata.length else 1 := by
  unfold stratOne Comp.hasNameIn
  split <;> simp

theorem getMatching_nil (m : Model α) (x : String) :
    getMatching m x [] = m.comps.filter (fun c => c.name == x) := by
  simp [getMatching]

theorem isMatch_nil (c : Comp) (x : String) : c.isMatch x [] = (c.name == x) := by
  simp [Comp.isMatch, Comp.hasStrata, strataContains]

end

/-! ### Stratifying the freshly added flows -/

section
variable {α : Type} [One α] [Div α] [NatCast α]

/-- the flows created by `addTransitionCore` / `addExit` -/
def mkT (kind : FlowKind) (name : String) (param : Expr α) (sd : Comp × Comp) : Flow α :=
  { kind := kind, name := name, src := some sd.1, dst := some sd.2, param := param, adjs := [] }

def mkD (name : String) (param : Expr α) (c : Comp) : Flow α :=
  { kind := .death, name := name, src := some c, dst := none, param := param, adjs := [] }

omit [One α] [Div α] [NatCast α] in
/-- "unadjusted": no flow-adjustment declaration of `s` names the flow -/
theorem getFlowAdjustment_none (s : Strat α) (f : Flow α)
    (hadj : s.flowAdj.all (fun d => d.flow != f.name) = true) :
    getFlowAdjustment s f = .ok none := by
  have : s.flowAdj.filter (fun d => d.flow == f.name) = [] := by
    refine List.filter_eq_nil_iff.2 (fun d hd => ?_)
    have := List.all_eq_true.1 hadj d hd
    simpa using this
  unfold getFlowAdjustment
  rw [this]
  rfl

theorem stratifyFlow_mkD (s : Strat α) (name : String) (param : Expr α) (c : Comp)
    (hadj : s.flowAdj.all (fun d => d.flow != name) = true) :
    stratifyFlow (mkD name param c) s = .ok ((stratOne s c).map (mkD name param)) := by
  have hfa := getFlowAdjustment_none s (mkD name param c) hadj
  have h1 : isEntry (mkD name param c).kind = false := rfl
  have h2 : isExit (mkD name param c).kind = true := rfl
  unfold stratifyFlow stratifyExit
  rw [hfa, h1, h2]
  cases hc : c.hasNameIn s.comps <;>
    simp [mkD, endStratified, stratOne, hc, pure, Except.pure, bind, Except.bind, Function.comp_def]

theorem kind_cases (kind : FlowKind) (h1 : transitionKinds.contains kind = true) (h2 : kind ≠ .absolute) :
    kind = .transition ∨ kind = .infFreq ∨ kind = .infDens := by
  revert h1 h2
  cases kind <;> decide

theorem stratifyFlow_mkT (s : Strat α) (kind : FlowKind) (name : String) (param : Expr α) (c d : Comp)
    (hk : kind = .transition ∨ kind = .infFreq ∨ kind = .infDens)
    (hcd : c.hasNameIn s.comps = d.hasNameIn s.comps)
    (hadj : s.flowAdj.all (fun d => d.flow != name) = true) :
    stratifyFlow (mkT kind name param (c, d)) s =
      .ok (((stratOne s c).zip (stratOne s d)).map (mkT kind name param)) := by
  have hfa := getFlowAdjustment_none s (mkT kind name param (c, d)) hadj
  have h1 : isEntry (mkT kind name param (c, d)).kind = false := by
    rcases hk with rfl | rfl | rfl <;> rfl
  have h2 : isExit (mkT kind name param (c, d)).kind = false := by
    rcases hk with rfl | rfl | rfl <;> rfl
  have h3 : absoluteShareKinds.contains (mkT kind name param (c, d)).kind = false := by
    rcases hk with rfl | rfl | rfl <;> rfl
  unfold stratifyFlow stratifyTransition
  rw [hfa, h1, h2, h3]
  cases hd : d.hasNameIn s.comps <;>
    simp [mkT, endStratified, stratOne, hcd, hd, pure, Except.pure, bind, Except.bind, Function.comp_def,
      List.zip_map']

/-! ### Characterisation of the two `addFlow` calls -/

theorem pure_ok_iff {β : Type} (a b : β) : (pure a : Res β) = .ok b ↔ b = a := by
  constructor
  · intro h; cases h; rfl
  · intro h; rw [h]; rfl

/-- the flows appended by `addFlow` (death) as a function of the compartment list -/
def newD (name : String) (param : Expr α) (source : String) (comps : List Comp) : List (Flow α) :=
  (comps.filter (fun c => c.name == source)).map (mkD name param)

/-- the flows appended by `addFlow` (transition) as a function of the compartment list -/
def newT (kind : FlowKind) (name : String) (param : Expr α) (source dest : String) (comps : List Comp) :
    List (Flow α) :=
  ((comps.filter (fun c => c.name == source)).zip (comps.filter (fun c => c.name == dest))).map
    (mkT kind name param)

theorem addFlow_death_ok (m m' : Model α) (name : String) (ok : Bool) (param : Expr α) (source : String) :
    addFlow m (.death name ok param source [] none) = .ok m' ↔
      (ok = true ∧ m.finalized = false) ∧
        m' = { m with flows := m.flows ++ newD name param source m.comps } := by
  simp only [addFlow, addExit, checkExpected, guardE_bind_ok_iff, isMatch_nil, pure_bind, pure_ok_iff,
    Bool.not_eq_true', and_assoc]
  rfl

theorem addFlow_transition_ok (m m' : Model α) (kind : FlowKind) (name : String) (ok : Bool) (param : Expr α)
    (source dest : String) :
    addFlow m (.transition kind name ok param source dest [] [] none) = .ok m' ↔
      (ok = true ∧ transitionKinds.contains kind = true ∧ m.finalized = false ∧
        m.origNames.contains dest = true ∧ m.origNames.contains source = true ∧
        (m.comps.filter (fun c => c.name == dest)).length = (m.comps.filter (fun c => c.name == source)).length) ∧
        m' = { m with flows := m.flows ++ newT kind name param source dest m.comps } := by
  simp only [addFlow, addTransitionCore, checkExpected, guardE_bind_ok_iff, getMatching_nil, pure_bind,
    pure_ok_iff, Bool.not_eq_true', and_assoc, beq_iff_eq]
  rfl

/-! ### The new flows, stratified  =  the new flows of the stratified compartments -/

theorem mem_filter_name {comps : List Comp} {x : String} {c : Comp}
    (h : c ∈ comps.filter (fun c => c.name == x)) : c.name = x := by
  have := (List.mem_filter.1 h).2
  simpa using this

omit [One α] [Div α] [NatCast α] in
theorem newD_names (s : Strat α) (name : String) (param : Expr α) (source : String) (comps : List Comp)
    (hadj : s.flowAdj.all (fun d => d.flow != name) = true) :
    ∀ d ∈ s.flowAdj, (newD name param source comps).any (fun f => f.name == d.flow) = false := by
  intro d hd
  have hne := List.all_eq_true.1 hadj d hd
  refine List.any_eq_false.2 (fun f hf => ?_)
  obtain ⟨c, -, rfl⟩ := List.mem_map.1 hf
  show ¬ ((name == d.flow) = true)
  intro h
  rw [eq_of_beq h] at hne
  simp at hne

omit [One α] [Div α] [NatCast α] in
theorem newT_names (s : Strat α) (kind : FlowKind) (name : String) (param : Expr α) (source dest : String)
    (comps : List Comp) (hadj : s.flowAdj.all (fun d => d.flow != name) = true) :
    ∀ d ∈ s.flowAdj, (newT kind name param source dest comps).any (fun f => f.name == d.flow) = false := by
  intro d hd
  have hne := List.all_eq_true.1 hadj d hd
  refine List.any_eq_false.2 (fun f hf => ?_)
  obtain ⟨c, -, rfl⟩ := List.mem_map.1 hf
  show ¬ ((name == d.flow) = true)
  intro h
  rw [eq_of_beq h] at hne
  simp at hne

theorem flowsStrat_newD (s : Strat α) (name : String) (param : Expr α) (source : String) (comps : List Comp)
    (hadj : s.flowAdj.all (fun d => d.flow != name) = true) :
    flowsStrat (newD name param source comps) s = .ok (newD name param source (stratifyComps comps s)) := by
  unfold newD flowsStrat
  rw [flatMapM_map_ok _ (mkD name param) (fun c => (stratOne s c).map (mkD name param)) _
    (fun c _ => stratifyFlow_mkD s name param c hadj), filter_name_stratifyComps, List.map_flatMap]

/-- block size of the compartments named `x` -/
def blockSize (s : Strat α) (x : String) : Nat := if s.comps.contains x then s.strata.length else 1

omit [One α] [Div α] [NatCast α] in
theorem stratOne_length_of_mem (s : Strat α) (comps : List Comp) (x : String) :
    ∀ c ∈ comps.filter (fun c => c.name == x), (stratOne s c).length = blockSize s x := by
  intro c hc
  rw [stratOne_length, mem_filter_name hc]; rfl

omit [One α] [Div α] [NatCast α] in
theorem length_filter_stratifyComps (s : Strat α) (comps : List Comp) (x : String) :
    ((stratifyComps comps s).filter (fun c => c.name == x)).length =
      blockSize s x * (comps.filter (fun c => c.name == x)).length := by
  rw [filter_name_stratifyComps, length_flatMap_blocks _ _ _ (stratOne_length_of_mem s comps x)]

theorem flowsStrat_newT (s : Strat α) (kind : FlowKind) (name : String) (param : Expr α) (source dest : String)
    (comps : List Comp)
    (hk : kind = .transition ∨ kind = .infFreq ∨ kind = .infDens)
    (hsd : s.comps.contains source = s.comps.contains dest)
    (hadj : s.flowAdj.all (fun d => d.flow != name) = true) :
    flowsStrat (newT kind name param source dest comps) s =
      .ok (newT kind name param source dest (stratifyComps comps s)) := by
  have hb : blockSize s source = blockSize s dest := by unfold blockSize; rw [hsd]
  unfold newT flowsStrat
  rw [flatMapM_map_ok _ (mkT kind name param)
    (fun p => ((stratOne s p.1).zip (stratOne s p.2)).map (mkT kind name param)) _ ?_,
    filter_name_stratifyComps, filter_name_stratifyComps,
    zip_flatMap_blocks (blockSize s dest) _ _ _ _ (hb ▸ stratOne_length_of_mem s comps source)
      (stratOne_length_of_mem s comps dest), List.map_flatMap]
  rintro ⟨c, d⟩ hp
  obtain ⟨hc, hd⟩ := List.of_mem_zip hp
  refine stratifyFlow_mkT s kind name param c d hk ?_ hadj
  unfold Comp.hasNameIn
  rw [mem_filter_name hc, mem_filter_name hd, hsd]

/-! ### Main theorems -/

/-- **Death flow, general form.**  For a non-age stratification `s` none of whose flow-adjustment
declarations names the flow, adding a death flow (no strata filter, no expected count) before
`stratifyWith` gives exactly the same model as adding it afterwards, and one order succeeds iff the
other does.  (No hypothesis on `source`: a death flow has a single end, so partial coverage is
harmless.) -/
theorem flow_before_after_death_gen (m : Model α) (s : Strat α) (name : String) (ok : Bool)
    (param : Expr α) (source : String)
    (hage : s.isAgeing = false)
    (hadj : s.flowAdj.all (fun d => d.flow != name) = true) :
    ∀ m' : Model α,
      (addFlow m (.death name ok param source [] none) >>= fun m1 => stratifyWith m1 s) = .ok m' ↔
      (stratifyWith m s >>= fun m1 => addFlow m1 (.death name ok param source [] none)) = .ok m' := by
  intro m'
  have hn := newD_names s name param source m.comps hadj
  rw [bind_ok_iff, bind_ok_iff]
  constructor
  · rintro ⟨m1, h1, h2⟩
    obtain ⟨⟨hok, hfin⟩, rfl⟩ := (addFlow_death_ok _ _ _ _ _ _).1 h1
    rw [stratifyWith_append m s _ hage hn, flowsStrat_newD s name param source m.comps hadj] at h2
    obtain ⟨a, ha, h2⟩ := (bind_ok_iff _ _ _).1 h2
    obtain ⟨hc, hf, -⟩ := stratifyWith_fields m a s hage ha
    refine ⟨a, ha, (addFlow_death_ok _ _ _ _ _ _).2 ⟨⟨hok, hf.trans hfin⟩, ?_⟩⟩
    have e : newD name param source a.comps = newD name param source (stratifyComps m.comps s) := by rw [hc]
    rw [e]
    cases h2
    rfl
  · rintro ⟨a, ha, h2⟩
    obtain ⟨hc, hf, -⟩ := stratifyWith_fields m a s hage ha
    obtain ⟨⟨hok, hfin⟩, rfl⟩ := (addFlow_death_ok _ _ _ _ _ _).1 h2
    refine ⟨_, (addFlow_death_ok _ _ _ _ _ _).2 ⟨⟨hok, hf.symm.trans hfin⟩, rfl⟩, ?_⟩
    rw [stratifyWith_append m s _ hage hn, flowsStrat_newD s name param source m.comps hadj, ha, ← hc]
    rfl

/-- **Transition / infection flow, general form.**  `kind ≠ .absolute` (for the other non-transition
kinds both orders fail); the stratification is non-age, has at least one stratum, is "unadjusted" for
this flow name, and contains either both endpoints or neither. -/
theorem flow_before_after_transition_gen (m : Model α) (s : Strat α) (kind : FlowKind) (name : String)
    (ok : Bool) (param : Expr α) (source dest : String)
    (hage : s.isAgeing = false) (hne : s.strata ≠ [])
    (hkind : kind ≠ .absolute)
    (hsd : s.comps.contains source = s.comps.contains dest)
    (hadj : s.flowAdj.all (fun d => d.flow != name) = true) :
    ∀ m' : Model α,
      (addFlow m (.transition kind name ok param source dest [] [] none) >>= fun m1 => stratifyWith m1 s)
          = .ok m' ↔
      (stratifyWith m s >>= fun m1 => addFlow m1 (.transition kind name ok param source dest [] [] none))
          = .ok m' := by
  intro m'
  have hn := newT_names s kind name param source dest m.comps hadj
  have hlen : ∀ a : Model α, a.comps = stratifyComps m.comps s →
      ((a.comps.filter (fun c => c.name == dest)).length = (a.comps.filter (fun c => c.name == source)).length ↔
       (m.comps.filter (fun c => c.name == dest)).length = (m.comps.filter (fun c => c.name == source)).length) := by
    intro a hc
    have hb : blockSize s source = blockSize s dest := by unfold blockSize; rw [hsd]
    have hpos : 0 < blockSize s dest := by
      unfold blockSize
      split
      · exact List.length_pos_iff.2 hne
      · exact Nat.one_pos
    rw [hc, length_filter_stratifyComps, length_filter_stratifyComps, hb]
    exact Nat.mul_left_cancel_iff hpos
  rw [bind_ok_iff, bind_ok_iff]
  constructor
  · rintro ⟨m1, h1, h2⟩
    obtain ⟨⟨hok, hk, hfin, hd, hs, hl⟩, rfl⟩ := (addFlow_transition_ok _ _ _ _ _ _ _ _).1 h1
    rw [stratifyWith_append m s _ hage hn,
      flowsStrat_newT s kind name param source dest m.comps (kind_cases kind hk hkind) hsd hadj] at h2
    obtain ⟨a, ha, h2⟩ := (bind_ok_iff _ _ _).1 h2
    obtain ⟨hc, hf, ho⟩ := stratifyWith_fields m a s hage ha
    refine ⟨a, ha, (addFlow_transition_ok _ _ _ _ _ _ _ _).2
      ⟨⟨hok, hk, hf.trans hfin, ho ▸ hd, ho ▸ hs, (hlen a hc).2 hl⟩, ?_⟩⟩
    have e : newT kind name param source dest a.comps =
        newT kind name param source dest (stratifyComps m.comps s) := by rw [hc]
    rw [e]
    cases h2
    rfl
  · rintro ⟨a, ha, h2⟩
    obtain ⟨hc, hf, ho⟩ := stratifyWith_fields m a s hage ha
    obtain ⟨⟨hok, hk, hfin, hd, hs, hl⟩, rfl⟩ := (addFlow_transition_ok _ _ _ _ _ _ _ _).1 h2
    refine ⟨_, (addFlow_transition_ok _ _ _ _ _ _ _ _).2
      ⟨⟨hok, hk, hf.symm.trans hfin, ho ▸ hd, ho ▸ hs, (hlen a hc).1 hl⟩, rfl⟩, ?_⟩
    rw [stratifyWith_append m s _ hage hn,
      flowsStrat_newT s kind name param source dest m.comps (kind_cases kind hk hkind) hsd hadj, ha, ← hc]
    rfl

/-- **C15 / flow_before_after, death flow** (as specified: the stratification covers the source). -/
theorem flow_before_after_death (m : Model α) (s : Strat α) (name : String) (ok : Bool)
    (param : Expr α) (source : String)
    (hage : s.isAgeing = false)
    (_hsrc : s.comps.contains source = true)
    (hadj : s.flowAdj.all (fun d => d.flow != name) = true) :
    ∀ m' : Model α,
      (addFlow m (.death name ok param source [] none) >>= fun m1 => stratifyWith m1 s) = .ok m' ↔
      (stratifyWith m s >>= fun m1 => addFlow m1 (.death name ok param source [] none)) = .ok m' :=
  flow_before_after_death_gen m s name ok param source hage hadj

/-- **C15 / flow_before_after, transition / infection flow**: the stratification covers both endpoints. -/
theorem flow_before_after_transition (m : Model α) (s : Strat α) (kind : FlowKind) (name : String)
    (ok : Bool) (param : Expr α) (source dest : String)
    (hage : s.isAgeing = false) (hne : s.strata ≠ [])
    (hkind : kind = .transition ∨ kind = .infFreq ∨ kind = .infDens)
    (hsrc : s.comps.contains source = true) (hdst : s.comps.contains dest = true)
    (hadj : s.flowAdj.all (fun d => d.flow != name) = true) :
    ∀ m' : Model α,
      (addFlow m (.transition kind name ok param source dest [] [] none) >>= fun m1 => stratifyWith m1 s)
          = .ok m' ↔
      (stratifyWith m s >>= fun m1 => addFlow m1 (.transition kind name ok param source dest [] [] none))
          = .ok m' :=
  flow_before_after_transition_gen m s kind name ok param source dest hage hne
    (by rcases hkind with rfl | rfl | rfl <;> decide) (hsrc.trans hdst.symm) hadj

end


/-! ### Optional extension: age stratifications (flows agree up to the position of the ageing flows) -/

section Age
variable {α : Type} [One α] [Div α] [NatCast α]

/-- the age-specific tail of `stratifyWith` (verbatim) -/
def ageTail (m : Model α) (prevComps : List Comp) (m3 : Model α) (s : Strat α) : Res (Model α) := do
  guardE (!m.strats.any (fun t => t.isAgeing)) "age stratification can only be applied once"
  let ages := sortInts (s.strata.filterMap (fun x => x.toInt?))
  guardE (s.comps == m.origNames) "age stratification only allowed for full stratification"
  let pairs := ages.zip (ages.drop 1)
  pairs.foldlM (fun (acc : Model α) (ab : Int × Int) =>
    prevComps.foldlM (fun (acc2 : Model α) (c : Comp) => do
      let source := c.stratify s.name (toString ab.1)
      let dest := c.stratify s.name (toString ab.2)
      guardE (ab.2 != ab.1) "zero-width age group (division by zero)"
      let rate : α := (1 : α) / (((ab.2 - ab.1).toNat : Nat) : α)
      addTransitionCore acc2 .transition ("ageing_" ++ source.serialize ++ "_to_" ++ dest.serialize)
        (.const rate) source.name dest.name source.strata dest.strata (some 1)) acc) m3

theorem stratifyWith_eq_age (m : Model α) (s : Strat α) (h : s.isAgeing = true) :
    stratifyWith m s = (do
      let m2 ← pre m s
      let nf ← flowsStrat m2.flows s
      let m4 ← ageTail m m2.comps { m2 with comps := stratifyComps m2.comps s, flows := nf } s
      pure { m4 with strats := m4.strats ++ [s], actions := m4.actions ++ [.stratify s.name] }) := by
  simp only [stratifyWith, pre, flowsStrat, flatMapM, ageTail, h, bind_assoc, pure_bind, if_true]
  rfl

omit [One α] [Div α] [NatCast α] in
/-- a fold of "append-only" steps (each step appends flows computed from `comps`, `origNames`,
`finalized` only) appends the concatenation -/
theorem foldlM_appendOnly {β : Type} (step : Model α → β → Res (Model α))
    (g : List Comp → List String → Bool → β → Res (List (Flow α)))
    (h : ∀ acc x, step acc x = (do
      let fs ← g acc.comps acc.origNames acc.finalized x
      pure { acc with flows := acc.flows ++ fs }))
    (l : List β) (acc : Model α) :
    l.foldlM step acc = (do
      let fs ← flatMapM (g acc.comps acc.origNames acc.finalized) l
      pure { acc with flows := acc.flows ++ fs }) := by
  induction l generalizing acc with
  | nil =>
    show pure acc = _
    simp only [flatMapM, List.foldlM_nil, pure_bind, List.append_nil]
  | cons x l ih =>
    have e : x :: l = [x] ++ l := rfl
    rw [List.foldlM_cons, h, e, flatMapM_append]
    simp only [flatMapM, List.foldlM_cons, List.foldlM_nil, bind_assoc, pure_bind, List.nil_append]
    refine bind_congr fun fs => ?_
    rw [ih]
    simp only [flatMapM, List.append_assoc]

/-- the flows created by `addTransitionCore`, as a function of the fields it reads -/
def coreFlows (comps : List Comp) (origNames : List String) (finalized : Bool)
    (kind : FlowKind) (name : String) (param : Expr α) (source dest : String)
    (srcStrata dstStrata : Strata) (expected : Option Nat) : Res (List (Flow α)) := do
  guardE (!finalized) "finalized"
  guardE (origNames.contains dest) "unknown destination compartment"
  guardE (origNames.contains source) "unknown source compartment"
  let dests := (comps.filter (fun c => c.name == dest)).filter
    (fun c => dstStrata.all (fun kv => alookup c.strata kv.1 == some kv.2))
  let srcs := (comps.filter (fun c => c.name == source)).filter
    (fun c => srcStrata.all (fun kv => alookup c.strata kv.1 == some kv.2))
  guardE (dests.length == srcs.length) "unequal numbers of source and destination compartments"
  let new := (srcs.zip dests).map (fun sd => ({ kind := kind, name := name, src := some sd.1, dst := some sd.2, param := param, adjs := [] } : Flow α))
  checkExpected expected new.length
  pure new

omit [One α] [Div α] [NatCast α] in
theorem addTransitionCore_eq (acc : Model α) (kind : FlowKind) (name : String) (param : Expr α)
    (source dest : String) (ss ds : Strata) (ex : Option Nat) :
    addTransitionCore acc kind name param source dest ss ds ex = (do
      let fs ← coreFlows acc.comps acc.origNames acc.finalized kind name param source dest ss ds ex
      pure { acc with flows := acc.flows ++ fs }) := by
  simp only [addTransitionCore, coreFlows, getMatching, bind_assoc, pure_bind]

/-- the ageing flows of one (age pair, compartment) -/
def ageFlows1 (s : Strat α) (ab : Int × Int) (comps : List Comp) (origNames : List String) (finalized : Bool)
    (c : Comp) : Res (List (Flow α)) := do
  let source := c.stratify s.name (toString ab.1)
  let dest := c.stratify s.name (toString ab.2)
  guardE (ab.2 != ab.1) "zero-width age group (division by zero)"
  let rate : α := (1 : α) / (((ab.2 - ab.1).toNat : Nat) : α)
  coreFlows comps origNames finalized .transition ("ageing_" ++ source.serialize ++ "_to_" ++ dest.serialize)
    (.const rate) source.name dest.name source.strata dest.strata (some 1)

/-- all ageing flows -/
def ageFlows (s : Strat α) (prevComps : List Comp) (comps : List Comp) (origNames : List String)
    (finalized : Bool) : Res (List (Flow α)) :=
  let ages := sortInts (s.strata.filterMap (fun x => x.toInt?))
  flatMapM (fun ab => flatMapM (ageFlows1 s ab comps origNames finalized) prevComps) (ages.zip (ages.drop 1))

theorem ageTail_eq (m : Model α) (prevComps : List Comp) (m3 : Model α) (s : Strat α) :
    ageTail m prevComps m3 s = (do
      guardE (!m.strats.any (fun t => t.isAgeing)) "age stratification can only be applied once"
      guardE (s.comps == m.origNames) "age stratification only allowed for full stratification"
      let ag ← ageFlows s prevComps m3.comps m3.origNames m3.finalized
      pure { m3 with flows := m3.flows ++ ag }) := by
  unfold ageTail ageFlows
  refine bind_congr fun _ => bind_congr fun _ => ?_
  refine foldlM_appendOnly _ (fun comps origNames finalized ab =>
      flatMapM (ageFlows1 s ab comps origNames finalized) prevComps) (fun acc ab => ?_) _ m3
  refine foldlM_appendOnly _ (fun comps origNames finalized c => ageFlows1 s ab comps origNames finalized c)
    (fun acc2 c => ?_) _ acc
  simp only [ageFlows1, addTransitionCore_eq, bind_assoc]

/-- the model produced by `stratifyWith` from the validated model `m2` and the final flow list -/
def stratResult (m2 : Model α) (s : Strat α) (fl : List (Flow α)) : Model α :=
  { m2 with comps := stratifyComps m2.comps s, flows := fl, strats := m2.strats ++ [s],
            actions := m2.actions ++ [.stratify s.name] }

/-- success of `stratifyWith` for an age stratification, spelled out -/
theorem stratifyWith_age_ok (m a : Model α) (s : Strat α) (h : s.isAgeing = true) :
    stratifyWith m s = .ok a ↔
      ∃ m2 nf ag, pre m s = .ok m2 ∧ flowsStrat m2.flows s = .ok nf ∧
        m.strats.any (fun t => t.isAgeing) = false ∧ (s.comps == m.origNames) = true ∧
        ageFlows s m2.comps (stratifyComps m2.comps s) m2.origNames m2.finalized = .ok ag ∧
        a = { m2 with comps := stratifyComps m2.comps s, flows := nf ++ ag, strats := m2.strats ++ [s],
                      actions := m2.actions ++ [.stratify s.name] } := by
  rw [stratifyWith_eq_age m s h]
  constructor
  · intro hok
    obtain ⟨m2, h2, hok⟩ := (bind_ok_iff _ _ _).1 hok
    obtain ⟨nf, hnf, hok⟩ := (bind_ok_iff _ _ _).1 hok
    obtain ⟨m4, h4, hok⟩ := (bind_ok_iff _ _ _).1 hok
    rw [ageTail_eq] at h4
    obtain ⟨hg1, h4⟩ := (guardE_bind_ok_iff _ _ _ _).1 h4
    obtain ⟨hg2, h4⟩ := (guardE_bind_ok_iff _ _ _ _).1 h4
    obtain ⟨ag, hag, h4⟩ := (bind_ok_iff _ _ _).1 h4
    cases h4
    cases hok
    exact ⟨m2, nf, ag, h2, hnf, by simpa using hg1, hg2, hag, rfl⟩
  · rintro ⟨m2, nf, ag, h2, hnf, hg1, hg2, hag, rfl⟩
    refine (bind_ok_iff _ _ _).2 ⟨m2, h2, (bind_ok_iff _ _ _).2 ⟨nf, hnf, (bind_ok_iff _ _ _).2
      ⟨{ m2 with comps := stratifyComps m2.comps s, flows := nf ++ ag }, ?_, rfl⟩⟩⟩
    rw [ageTail_eq]
    refine (guardE_bind_ok_iff _ _ _ _).2 ⟨by simp [hg1], (guardE_bind_ok_iff _ _ _ _).2 ⟨hg2, ?_⟩⟩
    exact (bind_ok_iff _ _ _).2 ⟨ag, hag, rfl⟩

/-- Generic swap lemma for an age stratification: `op` is any flow operation that appends
`newF comps` under a guard `Gd`, such that the new flows stratify to the new flows of the stratified
compartments.  The two orders produce the same model except that the block of ageing flows `ag` and
the block of new flows are swapped. -/
theorem before_after_age_core (m : Model α) (s : Strat α) (op : FlowOp α)
    (Gd : Model α → Prop) (newF : List Comp → List (Flow α))
    (hage : s.isAgeing = true)
    (hop : ∀ x m1 : Model α, addFlow x op = .ok m1 ↔ Gd x ∧ m1 = { x with flows := x.flows ++ newF x.comps })
    (hn : ∀ d ∈ s.flowAdj, (newF m.comps).any (fun f => f.name == d.flow) = false)
    (hstrat : Gd m → (s.comps == m.origNames) = true →
      flowsStrat (newF m.comps) s = .ok (newF (stratifyComps m.comps s)))
    (hG : ∀ a : Model α, a.comps = stratifyComps m.comps s → a.finalized = m.finalized →
      a.origNames = m.origNames → (s.comps == m.origNames) = true → (Gd a ↔ Gd m)) :
    (∀ m', (addFlow m op >>= fun m1 => stratifyWith m1 s) = .ok m' →
      ∃ old ag, m'.flows = old ++ newF (stratifyComps m.comps s) ++ ag ∧
        (stratifyWith m s >>= fun m1 => addFlow m1 op) =
          .ok { m' with flows := old ++ ag ++ newF (stratifyComps m.comps s) }) ∧
    (∀ m'', (stratifyWith m s >>= fun m1 => addFlow m1 op) = .ok m'' →
      ∃ old ag, m''.flows = old ++ ag ++ newF (stratifyComps m.comps s) ∧
        (addFlow m op >>= fun m1 => stratifyWith m1 s) =
          .ok { m'' with flows := old ++ newF (stratifyComps m.comps s) ++ ag }) := by
  constructor
  · intro m' hb
    obtain ⟨m1, h1, hs⟩ := (bind_ok_iff _ _ _).1 hb
    obtain ⟨hGm, rfl⟩ := (hop m m1).1 h1
    obtain ⟨m2', nf', ag, hp, hnf, hg1, hg2, hag, rfl⟩ := (stratifyWith_age_ok _ _ s hage).1 hs
    rw [pre_append m s _ hn] at hp
    obtain ⟨m2, h2, hp⟩ := (bind_ok_iff _ _ _).1 hp
    cases hp
    obtain ⟨hc, -, hfin, ho⟩ := pre_fields m m2 s h2
    have hnf' : flatMapM (fun f => stratifyFlow f s) (m2.flows ++ newF m.comps) = .ok nf' := hnf
    rw [flatMapM_append] at hnf'
    obtain ⟨nf, hnf0, hnf'⟩ := (bind_ok_iff _ _ _).1 hnf'
    rw [show flatMapM (fun f => stratifyFlow f s) (newF m.comps) = _ from hstrat hGm hg2] at hnf'
    cases hnf'
    refine ⟨nf, ag, rfl, ?_⟩
    refine (bind_ok_iff _ _ _).2
      ⟨{ m2 with comps := stratifyComps m2.comps s, flows := nf ++ ag, strats := m2.strats ++ [s],
                 actions := m2.actions ++ [.stratify s.name] },
       (stratifyWith_age_ok _ _ s hage).2 ⟨m2, nf, ag, h2, hnf0, hg1, hg2, hag, rfl⟩, ?_⟩
    have hGa : Gd ({ m2 with comps := stratifyComps m2.comps s, flows := nf ++ ag, strats := m2.strats ++ [s],
                             actions := m2.actions ++ [.stratify s.name] } : Model α) :=
      (hG (a := stratResult m2 s (nf ++ ag))
        (show stratifyComps m2.comps s = _ by rw [hc]) hfin ho hg2).2 hGm
    refine (hop _ _).2 ⟨hGa, ?_⟩
    rw [← hc]
  · intro m'' ha
    obtain ⟨a, hsa, hadd⟩ := (bind_ok_iff _ _ _).1 ha
    obtain ⟨m2, nf, ag, h2, hnf, hg1, hg2, hag, rfl⟩ := (stratifyWith_age_ok _ _ s hage).1 hsa
    obtain ⟨hGa, rfl⟩ := (hop _ _).1 hadd
    obtain ⟨hc, -, hfin, ho⟩ := pre_fields m m2 s h2
    have hGm : Gd m :=
      (hG (a := stratResult m2 s (nf ++ ag))
        (show stratifyComps m2.comps s = _ by rw [hc]) hfin ho hg2).1 hGa
    refine ⟨nf, ag, by rw [← hc], ?_⟩
    refine (bind_ok_iff _ _ _).2 ⟨{ m with flows := m.flows ++ newF m.comps }, (hop _ _).2 ⟨hGm, rfl⟩, ?_⟩
    refine (stratifyWith_age_ok _ _ s hage).2
      ⟨{ m2 with flows := m2.flows ++ newF m.comps }, nf ++ newF (stratifyComps m.comps s), ag,
        ?_, ?_, hg1, hg2, hag, ?_⟩
    · rw [pre_append m s _ hn, h2]; rfl
    · show flatMapM (fun f => stratifyFlow f s) (m2.flows ++ newF m.comps) = _
      rw [flatMapM_append, show flatMapM (fun f => stratifyFlow f s) m2.flows = _ from hnf,
        show flatMapM (fun f => stratifyFlow f s) (newF m.comps) = _ from hstrat hGm hg2]
      rfl
    · rw [← hc]

omit [One α] [Div α] [NatCast α] in
/-- the "equal numbers of sources and destinations" guard is insensitive to the stratification -/
theorem length_guard_iff (s : Strat α) (comps : List Comp) (source dest : String)
    (hne : s.strata ≠ []) (hsd : s.comps.contains source = s.comps.contains dest) :
    (((stratifyComps comps s).filter (fun c => c.name == dest)).length =
        ((stratifyComps comps s).filter (fun c => c.name == source)).length) ↔
      ((comps.filter (fun c => c.name == dest)).length = (comps.filter (fun c => c.name == source)).length) := by
  have hb : blockSize s source = blockSize s dest := by unfold blockSize; rw [hsd]
  have hpos : 0 < blockSize s dest := by
    unfold blockSize
    split
    · exact List.length_pos_iff.2 hne
    · exact Nat.one_pos
  rw [length_filter_stratifyComps, length_filter_stratifyComps, hb]
  exact Nat.mul_left_cancel_iff hpos

omit [One α] [Div α] [NatCast α] in
theorem swap_perm (old new ag : List (Flow α)) : (old ++ ag ++ new).Perm (old ++ new ++ ag) := by
  rw [List.append_assoc, List.append_assoc]
  exact List.perm_append_comm.append_left old

theorem age_core_to_perm (m : Model α) (s : Strat α) (op : FlowOp α) (new : List (Flow α))
    (h : (∀ m', (addFlow m op >>= fun m1 => stratifyWith m1 s) = .ok m' →
      ∃ old ag, m'.flows = old ++ new ++ ag ∧
        (stratifyWith m s >>= fun m1 => addFlow m1 op) = .ok { m' with flows := old ++ ag ++ new }) ∧
    (∀ m'', (stratifyWith m s >>= fun m1 => addFlow m1 op) = .ok m'' →
      ∃ old ag, m''.flows = old ++ ag ++ new ∧
        (addFlow m op >>= fun m1 => stratifyWith m1 s) = .ok { m'' with flows := old ++ new ++ ag })) :
    (∀ m', (addFlow m op >>= fun m1 => stratifyWith m1 s) = .ok m' →
      ∃ m'', (stratifyWith m s >>= fun m1 => addFlow m1 op) = .ok m'' ∧ SameUpToFlowOrder m' m'') ∧
    (∀ m'', (stratifyWith m s >>= fun m1 => addFlow m1 op) = .ok m'' →
      ∃ m', (addFlow m op >>= fun m1 => stratifyWith m1 s) = .ok m' ∧ SameUpToFlowOrder m' m'') := by
  constructor
  · intro m' hb
    obtain ⟨old, ag, hfl, ha⟩ := h.1 m' hb
    refine ⟨_, ha, ?_, rfl⟩
    rw [hfl]
    exact swap_perm old new ag
  · intro m'' ha
    obtain ⟨old, ag, hfl, hb⟩ := h.2 m'' ha
    refine ⟨_, hb, ?_, rfl⟩
    rw [hfl]
    exact swap_perm old new ag

/-- **Death flow, age stratification**: both orders succeed together and give the same model up to
the order of the flows. -/
theorem flow_before_after_death_age (m : Model α) (s : Strat α) (name : String) (ok : Bool)
    (param : Expr α) (source : String)
    (hage : s.isAgeing = true)
    (hadj : s.flowAdj.all (fun d => d.flow != name) = true) :
    (∀ m', (addFlow m (.death name ok param source [] none) >>= fun m1 => stratifyWith m1 s) = .ok m' →
      ∃ m'', (stratifyWith m s >>= fun m1 => addFlow m1 (.death name ok param source [] none)) = .ok m'' ∧
        SameUpToFlowOrder m' m'') ∧
    (∀ m'', (stratifyWith m s >>= fun m1 => addFlow m1 (.death name ok param source [] none)) = .ok m'' →
      ∃ m', (addFlow m (.death name ok param source [] none) >>= fun m1 => stratifyWith m1 s) = .ok m' ∧
        SameUpToFlowOrder m' m'') := by
  refine age_core_to_perm m s _ _ (before_after_age_core m s _
    (fun x => ok = true ∧ x.finalized = false) (newD name param source) hage
    (fun x m1 => addFlow_death_ok x m1 name ok param source)
    (newD_names s name param source m.comps hadj)
    (fun _ _ => flowsStrat_newD s name param source m.comps hadj)
    (fun a _ hf _ _ => by rw [hf]))

/-- **Transition / infection flow, age stratification** (an age stratification always covers all
compartments, so no coverage hypothesis is needed). -/
theorem flow_before_after_transition_age (m : Model α) (s : Strat α) (kind : FlowKind) (name : String)
    (ok : Bool) (param : Expr α) (source dest : String)
    (hage : s.isAgeing = true) (hne : s.strata ≠ [])
    (hkind : kind ≠ .absolute)
    (hadj : s.flowAdj.all (fun d => d.flow != name) = true) :
    (∀ m', (addFlow m (.transition kind name ok param source dest [] [] none) >>= fun m1 => stratifyWith m1 s)
        = .ok m' →
      ∃ m'', (stratifyWith m s >>= fun m1 => addFlow m1 (.transition kind name ok param source dest [] [] none))
        = .ok m'' ∧ SameUpToFlowOrder m' m'') ∧
    (∀ m'', (stratifyWith m s >>= fun m1 => addFlow m1 (.transition kind name ok param source dest [] [] none))
        = .ok m'' →
      ∃ m', (addFlow m (.transition kind name ok param source dest [] [] none) >>= fun m1 => stratifyWith m1 s)
        = .ok m' ∧ SameUpToFlowOrder m' m'') := by
  have hsd : ∀ x : Model α, x.origNames = m.origNames → (s.comps == m.origNames) = true →
      x.origNames.contains dest = true → x.origNames.contains source = true →
      s.comps.contains source = s.comps.contains dest := by
    intro x hx hg hd hs
    rw [eq_of_beq hg, ← hx, hd, hs]
  refine age_core_to_perm m s _ _ (before_after_age_core m s _
    (fun x => ok = true ∧ transitionKinds.contains kind = true ∧ x.finalized = false ∧
      x.origNames.contains dest = true ∧ x.origNames.contains source = true ∧
      (x.comps.filter (fun c => c.name == dest)).length = (x.comps.filter (fun c => c.name == source)).length)
    (newT kind name param source dest) hage
    (fun x m1 => addFlow_transition_ok x m1 kind name ok param source dest)
    (newT_names s kind name param source dest m.comps hadj)
    (fun hG hg => flowsStrat_newT s kind name param source dest m.comps
      (kind_cases kind hG.2.1 hkind) (hsd m rfl hg hG.2.2.2.1 hG.2.2.2.2.1) hadj)
    (fun a hc hf ho hg => ?_))
  constructor
  · rintro ⟨h1, h2, h3, h4, h5, h6⟩
    have := hsd a ho hg h4 h5
    exact ⟨h1, h2, hf ▸ h3, ho ▸ h4, ho ▸ h5, (length_guard_iff s m.comps source dest hne this).1 (hc ▸ h6)⟩
  · rintro ⟨h1, h2, h3, h4, h5, h6⟩
    have := hsd m rfl hg h4 h5
    exact ⟨h1, h2, hf.symm ▸ h3, ho.symm ▸ h4, ho.symm ▸ h5,
      hc.symm ▸ (length_guard_iff s m.comps source dest hne this).2 h6⟩

end Age

/-! ### Non-vacuity, and the reasons for the hypotheses (all machine-checked on `Rat`) -/

section Examples

/-- S/I/R with an existing recovery flow -/
def exModel : Model Rat :=
  { t0 := 0, t1 := 10, dt := 1, nTimes := 11,
    comps := [⟨"S", []⟩, ⟨"I", []⟩, ⟨"R", []⟩], origNames := ["S", "I", "R"], infectious := ["I"],
    flows := [{ kind := .transition, name := "rec", src := some ⟨"I", []⟩, dst := some ⟨"R", []⟩,
                param := .const 1, adjs := [] }],
    strats := [], mixingCats := [[]], mixingMats := [], strains := ["default"],
    initDist := none, arrayPop := none, actions := [], requests := [], computed := [],
    whitelist := [], finalized := false }

/-- two strata over `S`, `I` only; it *does* adjust another flow (`rec`), so "unadjusted for the new
flow" is satisfied non-trivially -/
def exStrat (comps : List String := ["S", "I"]) : Strat Rat :=
  { kind := .plain, name := "g", strata := ["a", "b"], comps := comps, split := [],
    flowAdj := [{ flow := "rec", adjs := [("a", some (.mul (.const 2))), ("b", none)],
                  srcStrata := [], dstStrata := [] }],
    infAdj := [], mixing := none }

def exInf : FlowOp Rat := .transition .infFreq "inf" true (.const 2) "S" "I" [] [] none
def exDeath (expected : Option Nat := none) : FlowOp Rat := .death "d" true (.const 2) "I" [] expected

structure FlowSig where
  kind : FlowKind
  name : String
  src : Option Comp
  dst : Option Comp
  nAdj : Nat
deriving DecidableEq, Repr

def compsOf (r : Res (Model Rat)) : Option (List Comp) :=
  match r with
  | .ok m => some m.comps
  | .error _ => none

def flowsOf (r : Res (Model Rat)) : Option (List FlowSig) :=
  match r with
  | .ok m => some (m.flows.map (fun f => ⟨f.kind, f.name, f.src, f.dst, f.adjs.length⟩))
  | .error _ => none

def before (s : Strat Rat) (op : FlowOp Rat) : Res (Model Rat) := addFlow exModel op >>= fun m1 => stratifyWith m1 s
def after (s : Strat Rat) (op : FlowOp Rat) : Res (Model Rat) := stratifyWith exModel s >>= fun m1 => addFlow m1 op

/-- the hypotheses of `flow_before_after_transition` are satisfiable -/
example : ∀ m', before exStrat exInf = .ok m' ↔ after exStrat exInf = .ok m' :=
  flow_before_after_transition exModel exStrat .infFreq "inf" true (.const 2) "S" "I"
    (by decide) (by decide) (Or.inr (Or.inl rfl)) (by decide) (by decide) (by decide)

/-- the hypotheses of `flow_before_after_death` are satisfiable -/
example : ∀ m', before exStrat exDeath = .ok m' ↔ after exStrat exDeath = .ok m' :=
  flow_before_after_death exModel exStrat "d" true (.const 2) "I" (by decide) (by decide) (by decide)

/-- ... and both orders really succeed, with the expected compartments and flows -/
example : flowsOf (before exStrat exInf) =
    some [⟨.transition, "rec", some ⟨"I", [("g", "a")]⟩, some ⟨"R", []⟩, 1⟩,
          ⟨.transition, "rec", some ⟨"I", [("g", "b")]⟩, some ⟨"R", []⟩, 0⟩,
          ⟨.infFreq, "inf", some ⟨"S", [("g", "a")]⟩, some ⟨"I", [("g", "a")]⟩, 0⟩,
          ⟨.infFreq, "inf", some ⟨"S", [("g", "b")]⟩, some ⟨"I", [("g", "b")]⟩, 0⟩] := by decide
example : flowsOf (after exStrat exInf) = flowsOf (before exStrat exInf) := by decide
example : compsOf (after exStrat exInf) = compsOf (before exStrat exInf) := by decide
example : compsOf (before exStrat exInf) =
    some [⟨"S", [("g", "a")]⟩, ⟨"S", [("g", "b")]⟩, ⟨"I", [("g", "a")]⟩, ⟨"I", [("g", "b")]⟩, ⟨"R", []⟩] := by
  decide
example : flowsOf (before exStrat exDeath) =
    some [⟨.transition, "rec", some ⟨"I", [("g", "a")]⟩, some ⟨"R", []⟩, 1⟩,
          ⟨.transition, "rec", some ⟨"I", [("g", "b")]⟩, some ⟨"R", []⟩, 0⟩,
          ⟨.death, "d", some ⟨"I", [("g", "a")]⟩, none, 0⟩,
          ⟨.death, "d", some ⟨"I", [("g", "b")]⟩, none, 0⟩] := by decide
example : flowsOf (after exStrat exDeath) = flowsOf (before exStrat exDeath) := by decide

/-- WHY "covers both endpoints" (transition flows).  Stratification over the source `S` only: the
before-order succeeds (flows `S_a → I`, `S_b → I`), the after-order fails in `addFlow` with
"unequal numbers of source and destination compartments" (2 sources, 1 destination). -/
example : flowsOf (before (exStrat ["S"]) exInf) =
    some [⟨.transition, "rec", some ⟨"I", []⟩, some ⟨"R", []⟩, 0⟩,
          ⟨.infFreq, "inf", some ⟨"S", [("g", "a")]⟩, some ⟨"I", []⟩, 0⟩,
          ⟨.infFreq, "inf", some ⟨"S", [("g", "b")]⟩, some ⟨"I", []⟩, 0⟩]
    ∧ flowsOf (after (exStrat ["S"]) exInf) = none := by decide

/-- Stratification over the destination `I` only: before-order succeeds, each copy `S → I_x` carrying
the conservation adjustment `1/2` (`nAdj = 1`); the after-order fails again. -/
example : flowsOf (before (exStrat ["I"]) exInf) =
    some [⟨.transition, "rec", some ⟨"I", [("g", "a")]⟩, some ⟨"R", []⟩, 1⟩,
          ⟨.transition, "rec", some ⟨"I", [("g", "b")]⟩, some ⟨"R", []⟩, 0⟩,
          ⟨.infFreq, "inf", some ⟨"S", []⟩, some ⟨"I", [("g", "a")]⟩, 1⟩,
          ⟨.infFreq, "inf", some ⟨"S", []⟩, some ⟨"I", [("g", "b")]⟩, 1⟩]
    ∧ flowsOf (after (exStrat ["I"]) exInf) = none := by decide

/-- WHY the expected-count argument is `none`: the count is checked against the number of flows
created by `addFlow`, which is 1 before and 2 after the stratification. -/
example : (flowsOf (before exStrat (exDeath (some 1)))).isSome = true
    ∧ flowsOf (after exStrat (exDeath (some 1))) = none
    ∧ flowsOf (before exStrat (exDeath (some 2))) = none
    ∧ (flowsOf (after exStrat (exDeath (some 2)))).isSome = true := by decide

/-- WHY `s.strata ≠ []`: with no strata and unequal source / destination counts the before-order
fails in `addFlow` while the after-order "succeeds" with no compartments `S`, `I` and no new flow.
(Here `S` is duplicated to make the counts unequal.) -/
example :
    let m : Model Rat := { exModel with comps := ⟨"S", [("h", "x")]⟩ :: exModel.comps }
    let s : Strat Rat := { exStrat with strata := [], flowAdj := [] }
    compsOf (addFlow m exInf >>= fun m1 => stratifyWith m1 s) = none ∧
    (compsOf (stratifyWith m s >>= fun m1 => addFlow m1 exInf)).isSome = true := by decide

/-- an age stratification over all compartments, adjusting the existing flow `rec` -/
def exAge : Strat Rat :=
  { kind := .age, name := "g", strata := ["0", "5"], comps := ["S", "I", "R"], split := [],
    flowAdj := [{ flow := "rec", adjs := [("0", some (.mul (.const 2))), ("5", none)],
                  srcStrata := [], dstStrata := [] }],
    infAdj := [], mixing := none }

/- WHY non-age in the exact-equality theorems: an age stratification appends its ageing flows inside
`stratifyWith`, so the new flows end up before them in one order and after them in the other (same
flows, different order).  Kernel `decide` cannot evaluate `String.toInt?`, so this is recorded from
`#eval`:
  #eval (flowsOf (before exAge exInf)).map (fun l => l.map (·.name))
    -- some ["rec", "rec", "inf", "inf", "ageing_SXg_0_to_SXg_5", "ageing_IXg_0_to_IXg_5", "ageing_RXg_0_to_RXg_5"]
  #eval (flowsOf (after exAge exInf)).map (fun l => l.map (·.name))
    -- some ["rec", "rec", "ageing_SXg_0_to_SXg_5", "ageing_IXg_0_to_IXg_5", "ageing_RXg_0_to_RXg_5", "inf", "inf"]
This is exactly the block swap of `before_after_age_core` / `flow_before_after_transition_age`. -/

/-- the hypotheses of the age variants are satisfiable (both orders succeed on this instance, see the
`#eval` above) -/
example : (∀ m', before exAge exInf = .ok m' → ∃ m'', after exAge exInf = .ok m'' ∧ SameUpToFlowOrder m' m'') ∧
    (∀ m'', after exAge exInf = .ok m'' → ∃ m', before exAge exInf = .ok m' ∧ SameUpToFlowOrder m' m'') :=
  flow_before_after_transition_age exModel exAge .infFreq "inf" true (.const 2) "S" "I"
    (by decide) (by decide) (by decide) (by decide)

example : (∀ m', before exAge exDeath = .ok m' → ∃ m'', after exAge exDeath = .ok m'' ∧ SameUpToFlowOrder m' m'') ∧
    (∀ m'', after exAge exDeath = .ok m'' → ∃ m', before exAge exDeath = .ok m' ∧ SameUpToFlowOrder m' m'') :=
  flow_before_after_death_age exModel exAge "d" true (.const 2) "I" (by decide) (by decide)

end Examples

#print axioms flow_before_after_transition_gen
#print axioms flow_before_after_death_gen
#print axioms flow_before_after_transition
#print axioms flow_before_after_death
#print axioms before_after_age_core
#print axioms flow_before_after_transition_age
#print axioms flow_before_after_death_age

end Summer.Proofs.InvFlowOrder
