import Summer.Spec.Session
/-
Helper lemmas for property C11 (session state machine).  Purely structural: no Mathlib needed.
-/
namespace Summer.Session

section
variable {δ ν σ : Type}

/-! ### Dictionaries -/

theorem Dict.get_update (d p : Dict ν) (k : String) :
    (Dict.update d p).get k = (p.get k).or (d.get k) := by
  unfold Dict.update Dict.get; exact List.lookup_append

theorem Dict.get_filterKeys {ks : List String} {k : String} (hk : k ∈ ks) (d : Dict ν) :
    (Dict.filterKeys ks d).get k = d.get k := by
  induction d with
  | nil => rfl
  | cons kv d ih =>
    obtain ⟨a, b⟩ := kv
    unfold Dict.filterKeys Dict.get at *
    by_cases hka : k = a
    · subst hka
      simp [hk]
    · have hne : (k == a) = false := by simpa using hka
      by_cases ha : a ∈ ks
      · simpa [List.filter_cons, ha, List.lookup_cons, hne] using ih
      · simpa [List.filter_cons, ha, List.lookup_cons, hne] using ih

/-! ### `collect` -/

theorem collect_congr {f g : String → Option ν} {ks : List String}
    (h : ∀ k ∈ ks, f k = g k) : collect f ks = collect g ks := by
  induction ks with
  | nil => rfl
  | cons k ks ih =>
    have h1 : f k = g k := h k (by simp)
    have h2 : collect f ks = collect g ks := ih (fun k' hk' => h k' (by simp [hk']))
    simp only [collect, h1, h2]

theorem collect_isSome {f : String → Option ν} {ks : List String}
    (h : ∀ k ∈ ks, (f k).isSome = true) : ∃ r, collect f ks = some r := by
  induction ks with
  | nil => exact ⟨[], rfl⟩
  | cons k ks ih =>
    obtain ⟨r, hr⟩ := ih (fun k' hk' => h k' (by simp [hk']))
    obtain ⟨v, hv⟩ := Option.isSome_iff_exists.mp (h k (by simp))
    exact ⟨(k, v) :: r, by simp only [collect, hv, hr]⟩

theorem collect_some_all {f : String → Option ν} {ks : List String} {r : Dict ν}
    (h : collect f ks = some r) : ∀ k ∈ ks, (f k).isSome = true := by
  induction ks generalizing r with
  | nil => simp
  | cons k ks ih =>
    simp only [collect] at h
    split at h
    · rename_i v r' hv hr'
      intro k' hk'
      rcases List.mem_cons.mp hk' with rfl | hk'
      · simp [hv]
      · exact ih hr' k' hk'
    · cases h

theorem collect_eq_none_iff {f : String → Option ν} {ks : List String} :
    collect f ks = none ↔ ∃ k ∈ ks, f k = none := by
  constructor
  · intro h
    apply Classical.byContradiction
    intro hne
    have : ∀ k ∈ ks, (f k).isSome = true := by
      intro k hk
      cases hfk : f k with
      | none => exact absurd ⟨k, hk, hfk⟩ hne
      | some v => rfl
    obtain ⟨r, hr⟩ := collect_isSome this
    rw [hr] at h; cases h
  · rintro ⟨k, hk, hfk⟩
    cases hc : collect f ks with
    | none => rfl
    | some r => have := collect_some_all hc k hk; simp [hfk] at this

/-- the collected dictionary returns, for each requested key, exactly the looked-up value -/
theorem collect_get {f : String → Option ν} {ks : List String} {r : Dict ν}
    (h : collect f ks = some r) : ∀ k ∈ ks, r.get k = f k := by
  induction ks generalizing r with
  | nil => simp
  | cons k ks ih =>
    simp only [collect] at h
    split at h
    · rename_i v r' hv hr'
      cases h
      intro k' hk'
      unfold Dict.get
      rw [List.lookup_cons]
      by_cases hkk : k' = k
      · subst hkk; simp [hv]
      · have hne : (k' == k) = false := by simpa using hkk
        rw [hne]
        rcases List.mem_cons.mp hk' with rfl | hk'
        · exact absurd rfl hkk
        · exact ih hr' k' hk'
    · cases h

/-! ### Membership facts about the definition's parameter lists -/

theorem mem_inputParams_of_main {defn : Definition δ} {k : String} (h : k ∈ defn.mainParams) :
    k ∈ defn.inputParams := by unfold Definition.inputParams; simp [h]

theorem mem_inputParams_of_do {defn : Definition δ} {k : String} (h : k ∈ defn.doParams) :
    k ∈ defn.inputParams := by unfold Definition.inputParams; simp [h]

theorem dynMain_contains {defn : Definition δ} {dyn : Option (List String)} {k : String}
    (hk : k ∈ defn.mainParams) :
    (dynMain defn dyn).contains k = (dyn.getD defn.inputParams).contains k := by
  unfold dynMain
  rw [Bool.eq_iff_iff]
  simp [List.mem_filter, hk]

theorem dynMain_none_contains {defn : Definition δ} {k : String} (hk : k ∈ defn.mainParams) :
    (dynMain defn none).contains k = true := by
  rw [dynMain_contains hk]
  simp [mem_inputParams_of_main hk]

theorem frozenKeys_none (defn : Definition δ) : frozenKeys defn none = [] := by
  unfold frozenKeys
  rw [List.filter_eq_nil_iff]
  intro k hk
  have h := dynMain_none_contains hk
  simp only [h, Bool.not_true]; exact Bool.false_ne_true

theorem mem_frozenKeys {defn : Definition δ} {dyn : Option (List String)} {k : String} :
    k ∈ frozenKeys defn dyn ↔ k ∈ defn.mainParams ∧ (dyn.getD defn.inputParams).contains k = false := by
  unfold frozenKeys
  rw [List.mem_filter]
  constructor
  · rintro ⟨h1, h2⟩
    refine ⟨h1, ?_⟩
    rw [dynMain_contains h1] at h2
    simpa using h2
  · rintro ⟨h1, h2⟩
    refine ⟨h1, ?_⟩
    rw [dynMain_contains h1, h2]; rfl

/-! ### Building runners -/

/-- The runner built by `model.run` (all input parameters dynamic): never fails, freezes nothing. -/
theorem buildRunner_none (defn : Definition δ) (defaults : Option (Dict ν)) (p : Dict ν) (solver : σ) :
    buildRunner defn defaults p none solver = some
      { frozen := [], dyn := dynMain defn none,
        doBase := Dict.filterKeys defn.doParams (Dict.filterKeys defn.inputParams p),
        defaultsSnap := defaults.getD [], solver := solver } := by
  unfold buildRunner
  simp only [frozenKeys_none, collect]

theorem buildRunner_isSome_iff (defn : Definition δ) (defaults : Option (Dict ν)) (base : Dict ν)
    (dyn : Option (List String)) (solver : σ) :
    (buildRunner defn defaults base dyn solver).isSome = buildOk defn base dyn := by
  unfold buildOk
  dsimp only [buildRunner]
  rw [Bool.eq_iff_iff]
  have hget : ∀ k ∈ frozenKeys defn dyn, (Dict.filterKeys defn.inputParams base).get k = base.get k :=
    fun k hk => Dict.get_filterKeys (mem_inputParams_of_main (mem_frozenKeys.mp hk).1) base
  rw [collect_congr hget]
  cases hc : collect base.get (frozenKeys defn dyn) with
  | none =>
    obtain ⟨k, hk, hfk⟩ := collect_eq_none_iff.mp hc
    simp only [Option.isSome_none, Bool.false_eq_true, false_iff, List.all_eq_true]
    intro hall
    have := hall k hk
    simp [hfk] at this
  | some r =>
    simp only [Option.isSome_some, true_iff, List.all_eq_true]
    exact collect_some_all hc

/-! ### What a runner computes -/

/-- A runner built by `get_runner(base, dyn, solver)` under defaults `dflt` computes `explicitSpec`. -/
theorem run_built {defn : Definition δ} {dflt : Option (Dict ν)} {base : Dict ν}
    {dyn : Option (List String)} {solver : σ} {r : Runner ν σ}
    (hb : buildRunner defn dflt base dyn solver = some r) (p : Dict ν) :
    r.run defn p = explicitSpec defn dflt base dyn solver p := by
  dsimp only [buildRunner] at hb
  have hget : ∀ k ∈ frozenKeys defn dyn, (Dict.filterKeys defn.inputParams base).get k = base.get k :=
    fun k hk => Dict.get_filterKeys (mem_inputParams_of_main (mem_frozenKeys.mp hk).1) base
  rw [collect_congr hget] at hb
  cases hc : collect base.get (frozenKeys defn dyn) with
  | none => rw [hc] at hb; cases hb
  | some fr =>
    rw [hc] at hb
    simp only [Option.some.injEq] at hb
    subst hb
    unfold Runner.run explicitSpec
    have hfull : ∀ k ∈ defn.inputParams,
        (Dict.update (dflt.getD []) (Dict.filterKeys defn.inputParams p)).get k
          = (Dict.update (dflt.getD []) p).get k := by
      intro k hk
      rw [Dict.get_update, Dict.get_update, Dict.get_filterKeys hk]
    have hmain : collect (fun k => if (dynMain defn dyn).contains k = true
          then (Dict.update (dflt.getD []) (Dict.filterKeys defn.inputParams p)).get k
          else Dict.get fr k) defn.mainParams
        = collect (fun k => if (dyn.getD defn.inputParams).contains k = true
          then (Dict.update (dflt.getD []) p).get k else base.get k) defn.mainParams := by
      apply collect_congr
      intro k hk
      rw [dynMain_contains hk]
      by_cases hd : (dyn.getD defn.inputParams).contains k = true
      · simp only [hd, if_true]
        exact hfull k (mem_inputParams_of_main hk)
      · simp only [hd]
        have hd' : (dyn.getD defn.inputParams).contains k = false := by simpa using hd
        exact collect_get hc k (mem_frozenKeys.mpr ⟨hk, hd'⟩)
    have hdo : collect (Dict.update (Dict.filterKeys defn.doParams (Dict.filterKeys defn.inputParams base))
          (Dict.update (dflt.getD []) (Dict.filterKeys defn.inputParams p))).get defn.doParams
        = collect (fun k => ((Dict.update (dflt.getD []) p).get k).or (base.get k)) defn.doParams := by
      apply collect_congr
      intro k hk
      rw [Dict.get_update, hfull k (mem_inputParams_of_do hk), Dict.get_filterKeys hk,
        Dict.get_filterKeys (mem_inputParams_of_do hk)]
    simp only [hmain, hdo]
    rfl

/-- When `defaults ⊕ p` covers the input parameters, a runner whose snapshot is `defaults` and whose
main-graph parameters are all dynamic sees exactly `defaults ⊕ p` in both stages, whatever its
`doBase` and `frozen` fields are. -/
theorem run_covered {defn : Definition δ} {dflt : Option (Dict ν)} {r : Runner ν σ} {p : Dict ν}
    (hsnap : r.defaultsSnap = dflt.getD [])
    (hdyn : ∀ k ∈ defn.mainParams, r.dyn.contains k = true)
    (hcov : Covers defn dflt p) :
    ∃ e, pureEff defn dflt p r.solver = some e ∧ r.run defn p = .ok e := by
  have hfull : ∀ k ∈ defn.inputParams,
      (Dict.update (dflt.getD []) (Dict.filterKeys defn.inputParams p)).get k
        = (Dict.update (dflt.getD []) p).get k := by
    intro k hk
    rw [Dict.get_update, Dict.get_update, Dict.get_filterKeys hk]
  obtain ⟨m, hm⟩ := collect_isSome (f := (Dict.update (dflt.getD []) p).get) (ks := defn.mainParams)
    (fun k hk => hcov k (mem_inputParams_of_main hk))
  obtain ⟨d, hd⟩ := collect_isSome (f := (Dict.update (dflt.getD []) p).get) (ks := defn.doParams)
    (fun k hk => hcov k (mem_inputParams_of_do hk))
  refine ⟨{ main := m, dos := d, solver := r.solver }, ?_, ?_⟩
  · unfold pureEff; simp only [hm, hd]
  · unfold Runner.run
    rw [hsnap]
    have hmain : collect (fun k => if r.dyn.contains k = true
          then (Dict.update (dflt.getD []) (Dict.filterKeys defn.inputParams p)).get k
          else r.frozen.get k) defn.mainParams = some m := by
      rw [← hm]
      apply collect_congr
      intro k hk
      simp only [hdyn k hk, if_true]
      exact hfull k (mem_inputParams_of_main hk)
    have hdo : collect (Dict.update r.doBase
          (Dict.update (dflt.getD []) (Dict.filterKeys defn.inputParams p))).get defn.doParams = some d := by
      rw [← hd]
      apply collect_congr
      intro k hk
      have hk' := mem_inputParams_of_do hk
      rw [Dict.get_update, hfull k hk']
      obtain ⟨v, hv⟩ := Option.isSome_iff_exists.mp (hcov k hk')
      rw [hv]; rfl
    simp only [hmain, hdo]

/-- Without any coverage hypothesis the *main* stage of an all-dynamic runner with an up-to-date
snapshot still sees `defaults ⊕ p`: history can only leak into the derived-output stage and the
solver. -/
theorem run_main_stage {defn : Definition δ} {dflt : Option (Dict ν)} {r : Runner ν σ} (p : Dict ν)
    (hsnap : r.defaultsSnap = dflt.getD [])
    (hdyn : ∀ k ∈ defn.mainParams, r.dyn.contains k = true) :
    match collect (Dict.update (dflt.getD []) p).get defn.mainParams with
    | none => r.run defn p = .error .mainKey
    | some m => r.run defn p = .error .doKey ∨ ∃ d, r.run defn p = .ok { main := m, dos := d, solver := r.solver } := by
  have hmain : collect (fun k => if r.dyn.contains k = true
        then (Dict.update (dflt.getD []) (Dict.filterKeys defn.inputParams p)).get k
        else r.frozen.get k) defn.mainParams
      = collect (Dict.update (dflt.getD []) p).get defn.mainParams := by
    apply collect_congr
    intro k hk
    simp only [hdyn k hk, if_true]
    rw [Dict.get_update, Dict.get_update, Dict.get_filterKeys (mem_inputParams_of_main hk)]
  unfold Runner.run
  rw [hsnap]
  simp only [hmain]
  cases collect (Dict.update (dflt.getD []) p).get defn.mainParams with
  | none => simp
  | some m =>
    simp only
    split
    · exact Or.inl rfl
    · exact Or.inr ⟨_, rfl⟩

/-! ### `record` -/

@[simp] theorem record_defn (s : Session δ ν σ) (o : Outcome ν σ) : (s.record o).defn = s.defn := by
  unfold Session.record; split <;> rfl
@[simp] theorem record_finalized (s : Session δ ν σ) (o : Outcome ν σ) :
    (s.record o).finalized = s.finalized := by unfold Session.record; split <;> rfl
@[simp] theorem record_defaults (s : Session δ ν σ) (o : Outcome ν σ) :
    (s.record o).defaults = s.defaults := by unfold Session.record; split <;> rfl
@[simp] theorem record_cached (s : Session δ ν σ) (o : Outcome ν σ) :
    (s.record o).cached = s.cached := by unfold Session.record; split <;> rfl
@[simp] theorem record_runners (s : Session δ ν σ) (o : Outcome ν σ) :
    (s.record o).runners = s.runners := by unfold Session.record; split <;> rfl
@[simp] theorem record_ok_outputs (s : Session δ ν σ) (e : Eff ν σ) :
    (s.record (.ok e)).outputs = some e := rfl

/-! ### One step: which fields can change -/

theorem step_defn (s : Session δ ν σ) (op : Op ν σ) : (step s op).1.defn = s.defn := by
  cases op with
  | setDefaults d => rfl
  | run p solver rebuild =>
    cases rebuild <;> simp only [step] <;> (repeat' split) <;> simp
  | getRunner base dyn solver => simp only [step]; split <;> rfl
  | runnerRun h p => simp only [step]; split <;> simp

theorem step_finalized_mono (s : Session δ ν σ) (op : Op ν σ) (h : s.finalized = true) :
    (step s op).1.finalized = true := by
  cases op with
  | setDefaults d => exact h
  | run p solver rebuild =>
    cases rebuild <;> simp only [step] <;> (repeat' split) <;> simp [h]
  | getRunner base dyn solver => simp only [step]; split <;> rfl
  | runnerRun h' p => simp only [step]; split <;> simp [h]

theorem step_defaults (s : Session δ ν σ) (op : Op ν σ) :
    (step s op).1.defaults = match op with | .setDefaults d => some d | _ => s.defaults := by
  cases op with
  | setDefaults d => rfl
  | run p solver rebuild =>
    cases rebuild <;> simp only [step] <;> (repeat' split) <;> simp
  | getRunner base dyn solver => simp only [step]; split <;> rfl
  | runnerRun h p => simp only [step]; split <;> simp

/-- explicit runners are never removed or modified: the list only grows at the end -/
theorem step_runners_prefix (s : Session δ ν σ) (op : Op ν σ) :
    ∃ l, (step s op).1.runners = s.runners ++ l := by
  cases op with
  | setDefaults d => exact ⟨[], by simp [step]⟩
  | run p solver rebuild =>
    refine ⟨[], ?_⟩
    cases rebuild <;> simp only [step] <;> (repeat' split) <;> simp
  | getRunner base dyn solver =>
    simp only [step]; split
    · exact ⟨[], by simp⟩
    · exact ⟨[_], rfl⟩
  | runnerRun h p =>
    refine ⟨[], ?_⟩
    simp only [step]; split <;> simp

theorem exec_defn (s : Session δ ν σ) (h : List (Op ν σ)) : (exec s h).defn = s.defn := by
  induction h generalizing s with
  | nil => rfl
  | cons op ops ih => rw [exec, ih, step_defn]

theorem exec_finalized_mono (s : Session δ ν σ) (h : List (Op ν σ)) (hf : s.finalized = true) :
    (exec s h).finalized = true := by
  induction h generalizing s with
  | nil => exact hf
  | cons op ops ih => rw [exec]; exact ih _ (step_finalized_mono s op hf)

theorem exec_defaults (s : Session δ ν σ) (h : List (Op ν σ)) :
    (exec s h).defaults = lastDefaults h s.defaults := by
  induction h generalizing s with
  | nil => rfl
  | cons op ops ih =>
    rw [exec, ih, step_defaults]
    cases op <;> rfl

theorem exec_runners_prefix (s : Session δ ν σ) (h : List (Op ν σ)) :
    ∃ l, (exec s h).runners = s.runners ++ l := by
  induction h generalizing s with
  | nil => exact ⟨[], by simp [exec]⟩
  | cons op ops ih =>
    obtain ⟨l1, h1⟩ := step_runners_prefix s op
    obtain ⟨l2, h2⟩ := ih (step s op).1
    exact ⟨l1 ++ l2, by rw [exec, h2, h1, List.append_assoc]⟩

theorem exec_append (s : Session δ ν σ) (h1 h2 : List (Op ν σ)) :
    exec s (h1 ++ h2) = exec (exec s h1) h2 := by
  induction h1 generalizing s with
  | nil => rfl
  | cons op ops ih => simp only [List.cons_append, exec, ih]

/-! ### The invariant of reachable sessions -/

/-- The cached runner (if any) was built by `model.run`: its defaults snapshot is the model's
*current* defaults (because `set_default_parameters` drops the runner) and every main-graph
parameter is dynamic; moreover a session with a cached runner is finalized. -/
def Inv (s : Session δ ν σ) : Prop :=
  ∀ r, s.cached = some r →
    r.defaultsSnap = s.defaults.getD [] ∧ (∀ k ∈ s.defn.mainParams, r.dyn.contains k = true) ∧
    s.finalized = true

theorem Inv_fresh (defn : Definition δ) : Inv (fresh defn : Session δ ν σ) := by
  intro r h; cases h

theorem Inv_step (s : Session δ ν σ) (op : Op ν σ) (hs : Inv s) : Inv (step s op).1 := by
  cases op with
  | setDefaults d => intro r h; cases h
  | getRunner base dyn solver =>
    simp only [step]; split
    · intro r h; obtain ⟨h1, h2, _⟩ := hs r h; exact ⟨h1, h2, rfl⟩
    · intro r h; obtain ⟨h1, h2, _⟩ := hs r h; exact ⟨h1, h2, rfl⟩
  | runnerRun h p =>
    simp only [step]; split
    · exact hs
    · intro r h
      simp only [record_cached, record_defaults, record_defn, record_finalized] at h ⊢
      exact hs r h
  | run p solver rebuild =>
    have key : ∀ s0 : Session δ ν σ, Inv s0 →
        Inv (match s0.cached with
          | some r => (s0.record (r.run s0.defn p), r.run s0.defn p)
          | none =>
            match buildRunner s0.defn s0.defaults p none solver with
            | none => ({ s0 with finalized := true }, Outcome.error Err.build)
            | some r =>
              (({ s0 with finalized := true, cached := some r } : Session δ ν σ).record (r.run s0.defn p),
                r.run s0.defn p)).1 := by
      intro s0 h0
      cases hc : s0.cached with
      | some r =>
        intro r' h
        simp only [record_cached, record_defaults, record_defn, record_finalized] at h ⊢
        exact h0 r' h
      | none =>
        simp only [buildRunner_none]
        intro r' h
        simp only [record_cached, record_defaults, record_defn, record_finalized,
          Option.some.injEq] at h ⊢
        subst h
        exact ⟨rfl, fun k hk => dynMain_none_contains hk, trivial⟩
    cases rebuild
    · exact key s hs
    · exact key { s with cached := none } (by intro r h; cases h)

theorem Inv_exec (s : Session δ ν σ) (h : List (Op ν σ)) (hs : Inv s) : Inv (exec s h) := by
  induction h generalizing s with
  | nil => exact hs
  | cons op ops ih => rw [exec]; exact ih _ (Inv_step s op hs)

/-! ### The runner that `model.run` ends up using -/

/-- the cached runner unless `rebuild` or there is none, else a newly built all-dynamic runner -/
def usedRunner (s : Session δ ν σ) (p : Dict ν) (solver : σ) (rebuild : Bool) : Runner ν σ :=
  match (if rebuild then none else s.cached) with
  | some r => r
  | none =>
    { frozen := [], dyn := dynMain s.defn none,
      doBase := Dict.filterKeys s.defn.doParams (Dict.filterKeys s.defn.inputParams p),
      defaultsSnap := s.defaults.getD [], solver := solver }

theorem step_run (s : Session δ ν σ) (p : Dict ν) (solver : σ) (rebuild : Bool) :
    (step s (.run p solver rebuild)).2 = (usedRunner s p solver rebuild).run s.defn p ∧
    (step s (.run p solver rebuild)).1.outputs
      = (s.record ((usedRunner s p solver rebuild).run s.defn p)).outputs ∧
    (step s (.run p solver rebuild)).1.cached = some (usedRunner s p solver rebuild) := by
  cases rebuild
  · cases hc : s.cached with
    | none =>
      simp only [step, usedRunner, hc, buildRunner_none, Bool.false_eq_true, if_false]
      refine ⟨trivial, ?_, by simp⟩
      unfold Session.record; split <;> rfl
    | some r =>
      simp only [step, usedRunner, hc, Bool.false_eq_true, if_false]
      refine ⟨trivial, trivial, by simp [hc]⟩
  · simp only [step, usedRunner, buildRunner_none, if_true]
    refine ⟨trivial, ?_, by simp⟩
    unfold Session.record; split <;> rfl

theorem usedRunner_props (s : Session δ ν σ) (hs : Inv s) (p : Dict ν) (solver : σ) (rebuild : Bool) :
    (usedRunner s p solver rebuild).defaultsSnap = s.defaults.getD [] ∧
    (∀ k ∈ s.defn.mainParams, (usedRunner s p solver rebuild).dyn.contains k = true) := by
  unfold usedRunner
  cases rebuild
  · cases hc : s.cached with
    | none => exact ⟨rfl, fun k hk => dynMain_none_contains hk⟩
    | some r => obtain ⟨h1, h2, _⟩ := hs r hc; exact ⟨h1, h2⟩
  · exact ⟨rfl, fun k hk => dynMain_none_contains hk⟩

theorem usedRunner_solver (s : Session δ ν σ) (p : Dict ν) (solver : σ) (rebuild : Bool)
    (hsol : rebuild = true ∨ ∀ r, s.cached = some r → r.solver = solver) :
    (usedRunner s p solver rebuild).solver = solver := by
  unfold usedRunner
  cases rebuild
  · cases hc : s.cached with
    | none => rfl
    | some r =>
      rcases hsol with h | h
      · cases h
      · exact h r hc
  · rfl

/-- after `run` or `get_runner` a reachable session is finalized -/
theorem step_finalizes (s : Session δ ν σ) (hs : Inv s) (op : Op ν σ)
    (hop : op.finalizes) :
    (step s op).1.finalized = true := by
  cases op with
  | setDefaults d => cases hop
  | runnerRun h p => cases hop
  | getRunner base dyn solver => simp only [step]; split <;> rfl
  | run p solver rebuild =>
    cases rebuild
    · cases hc : s.cached with
      | none => simp [step, hc, buildRunner_none]
      | some r => simp [step, hc, (hs r hc).2.2]
    · simp [step, buildRunner_none]

/-- an explicit runner keeps its handle and its value through any later history -/
theorem exec_runner_stable (s : Session δ ν σ) (h : List (Op ν σ)) (i : Nat) (r : Runner ν σ)
    (hi : s.runners[i]? = some r) : (exec s h).runners[i]? = some r := by
  obtain ⟨l, hl⟩ := exec_runners_prefix s h
  rw [hl, List.getElem?_append_left]
  · exact hi
  · exact (List.getElem?_eq_some_iff.mp hi).1

theorem step_runnerRun (s : Session δ ν σ) (i : Nat) (r : Runner ν σ) (p : Dict ν)
    (hi : s.runners[i]? = some r) : (step s (.runnerRun i p)).2 = r.run s.defn p := by
  simp only [step, hi]

/-- `explicitSpec` only reads `base` at the non-dynamic main parameters and at the derived-output
parameters -/
theorem explicitSpec_congr (defn : Definition δ) (dflt : Option (Dict ν)) (base base' : Dict ν)
    (dyn : Option (List String)) (solver : σ) (p : Dict ν)
    (hfro : ∀ k ∈ frozenKeys defn dyn, base.get k = base'.get k)
    (hdo : ∀ k ∈ defn.doParams, base.get k = base'.get k) :
    explicitSpec defn dflt base dyn solver p = explicitSpec defn dflt base' dyn solver p := by
  unfold explicitSpec
  have h1 : collect (fun k => if (dyn.getD defn.inputParams).contains k = true
        then (Dict.update (dflt.getD []) p).get k else base.get k) defn.mainParams
      = collect (fun k => if (dyn.getD defn.inputParams).contains k = true
        then (Dict.update (dflt.getD []) p).get k else base'.get k) defn.mainParams := by
    apply collect_congr
    intro k hk
    by_cases hd : (dyn.getD defn.inputParams).contains k = true
    · simp only [hd, if_true]
    · simp only [hd]
      exact hfro k (mem_frozenKeys.mpr ⟨hk, by simpa using hd⟩)
  have h2 : collect (fun k => ((Dict.update (dflt.getD []) p).get k).or (base.get k)) defn.doParams
      = collect (fun k => ((Dict.update (dflt.getD []) p).get k).or (base'.get k)) defn.doParams := by
    apply collect_congr
    intro k hk
    rw [hdo k hk]
  simp only [h1, h2]

/-! ### Core statements, for an arbitrary session satisfying the invariant -/

theorem run_pure_of_inv (s : Session δ ν σ) (hs : Inv s) (p : Dict ν) (solver : σ) (rebuild : Bool)
    (hcov : Covers s.defn s.defaults p)
    (hsol : rebuild = true ∨ ∀ r, s.cached = some r → r.solver = solver) :
    ∃ e, pureEff s.defn s.defaults p solver = some e ∧
      (step s (.run p solver rebuild)).2 = .ok e ∧
      (step s (.run p solver rebuild)).1.outputs = some e := by
  obtain ⟨h1, h2, _⟩ := step_run s p solver rebuild
  obtain ⟨hsnap, hdyn⟩ := usedRunner_props s hs p solver rebuild
  obtain ⟨e, he, hrun⟩ := run_covered hsnap hdyn hcov
  rw [usedRunner_solver s p solver rebuild hsol] at he
  refine ⟨e, he, ?_, ?_⟩
  · rw [h1, hrun]
  · rw [h2, hrun]; rfl

theorem run_main_of_inv (s : Session δ ν σ) (hs : Inv s) (p : Dict ν) (solver : σ) (rebuild : Bool) :
    (collect (Dict.update (s.defaults.getD []) p).get s.defn.mainParams = none →
      (step s (.run p solver rebuild)).2 = .error .mainKey) ∧
    (∀ m, collect (Dict.update (s.defaults.getD []) p).get s.defn.mainParams = some m →
      (step s (.run p solver rebuild)).2 = .error .doKey ∨
      ∃ d sv, (step s (.run p solver rebuild)).2 = .ok { main := m, dos := d, solver := sv }) := by
  obtain ⟨h1, _, _⟩ := step_run s p solver rebuild
  obtain ⟨hsnap, hdyn⟩ := usedRunner_props s hs p solver rebuild
  have h := run_main_stage (defn := s.defn) (dflt := s.defaults) p hsnap hdyn
  rw [h1]
  constructor
  · intro hn; rw [hn] at h; exact h
  · intro m hm; rw [hm] at h
    rcases h with h | ⟨d, h⟩
    · exact Or.inl h
    · exact Or.inr ⟨d, _, h⟩

/-- `get_runner` followed by any history and then `runner.run(p)` -/
theorem explicit_of_session (s1 : Session δ ν σ) (base : Dict ν) (dyn : Option (List String))
    (solver : σ) (h2 : List (Op ν σ)) (p : Dict ν) :
    (buildOk s1.defn base dyn = true →
      (step s1 (.getRunner base dyn solver)).2 = .built s1.runners.length ∧
      (step (exec (step s1 (.getRunner base dyn solver)).1 h2) (.runnerRun s1.runners.length p)).2
        = explicitSpec s1.defn s1.defaults base dyn solver p) ∧
    (buildOk s1.defn base dyn = false →
      (step s1 (.getRunner base dyn solver)).2 = .error .build ∧
      (step s1 (.getRunner base dyn solver)).1.runners = s1.runners) := by
  have hiff := buildRunner_isSome_iff s1.defn s1.defaults base dyn solver
  cases hb : buildRunner s1.defn s1.defaults base dyn solver with
  | none =>
    rw [hb] at hiff
    constructor
    · intro h; rw [h] at hiff; cases hiff
    · intro _; simp only [step, hb]; exact ⟨trivial, trivial⟩
  | some r =>
    rw [hb] at hiff
    constructor
    · intro _
      have hstep : step s1 (.getRunner base dyn solver)
          = ({ s1 with finalized := true, runners := s1.runners ++ [r] }, .built s1.runners.length) := by
        simp only [step, hb]
      rw [hstep]
      refine ⟨rfl, ?_⟩
      have hi : ({ s1 with finalized := true, runners := s1.runners ++ [r] } : Session δ ν σ).runners[s1.runners.length]?
          = some r := by simp
      have hi' := exec_runner_stable _ h2 _ _ hi
      rw [step_runnerRun _ _ _ _ hi', exec_defn]
      exact run_built hb p
    · intro h; rw [h] at hiff; cases hiff

end
end Summer.Session
