import Summer.Proofs.AggregateInfection
import Mathlib.Data.List.Perm.Basic
/-
Helper lemmas for property C03, part 7: aggregation of the force of infection for models with the
simplest mixing structure (a single mixing category, no infectiousness adjustments), which discharges
the multiplier hypothesis of `rates_agg_of_shape_mult`.
-/
open Summer Summer.Build Summer.Run Summer.Generated Summer.Spec
set_option linter.unusedSectionVars false
set_option linter.unnecessarySeqFocus false

namespace Summer.Proofs
section
variable {α : Type}

/-- strain of the destination of an infection flow -/
def strainOf (f : Flow α) : String :=
  match f.dst with
  | some c => (alookup c.strata "strain").getD "default"
  | none => "default"

/-- the local positions (within the infectious list `inf`) of the infectious compartments, category by category -/
def locOf (catIdx : List (List Nat)) (inf : List Nat) : List Nat :=
  (catIdx.flatten.filter (fun j => inf.contains j)).map (fun j => (indexOf? inf j).getD 0)

def catIdxOf (m : Model α) : List (List Nat) :=
  m.mixingCats.map (fun cat => idxWhere m.comps (fun c => cat.all (fun kv => c.hasStratum kv.1 kv.2)))

def catLookupOf (m : Model α) : List Nat :=
  (List.range m.comps.length).map (fun j =>
    ((catIdxOf m).zipIdx.foldl (fun acc r => if r.1.contains j then r.2 else acc) 0))

def catOf (m : Model α) (f : Flow α) : Nat :=
  match f.src with
  | some c => (catLookupOf m).getD ((compIdx m.comps c).getD 0) 0
  | none => 0

/-- the force-of-infection tables of a backend produced by `prepare` -/
structure FoiTables (m : Model α) (b : Backend) : Prop where
  catIdx : b.catIdx = catIdxOf m
  strainInfIdx : b.strainInfIdx = m.strains.map (strainInfectiousIdx m)
  strainCatIdx : b.strainCatIdx = (m.strains.map (strainInfectiousIdx m)).map (fun inf =>
    reshapeRows (locOf (catIdxOf m) inf) m.mixingCats.length ((locOf (catIdxOf m) inf).length / m.mixingCats.length))
  lookupS : b.infStrainLookup = (m.flows.filter (fun f => isInfection f.kind)).map
    (fun f => (indexOf? m.strains (strainOf f)).getD 0)
  lookupC : b.infCatLookup = (m.flows.filter (fun f => isInfection f.kind)).map (catOf m)
  procType : b.procType = if m.flows.any (fun f => f.kind == .infFreq) then some true
    else if m.flows.any (fun f => f.kind == .infDens) then some false else none

theorem foiTables_of_prepare (m : Model α) (b : Backend) (h : prepare m = .ok b) : FoiTables m b := by
  unfold prepare at h
  simp only [bind, Except.bind] at h
  split at h
  · contradiction
  rename_i _ srcV hsrc
  split at h
  · contradiction
  rename_i _ dstV hdst
  split at h
  · contradiction
  split at h
  · contradiction
  rename_i _ scV hsc
  split at h
  · contradiction
  rename_i _ lk hlk
  split at h
  · contradiction
  simp only [pure, Except.pure, Except.ok.injEq] at h
  have hscE : scV = (m.strains.map (strainInfectiousIdx m)).map (fun inf =>
      reshapeRows (locOf (catIdxOf m) inf) m.mixingCats.length
        ((locOf (catIdxOf m) inf).length / m.mixingCats.length)) := by
    refine mapM_except_ok _ _ _ scV ?_ hsc
    intro inf _ o ho
    split at ho
    · contradiction
    · simp only [pure, Except.pure, Except.ok.injEq] at ho
      exact ho.symm
  have hlkE : lk = (m.flows.filter (fun f => infectionKinds.contains f.kind)).map
      (fun f => ((indexOf? m.strains (strainOf f)).getD 0, catOf m f)) := by
    refine mapM_except_ok _ _ _ lk ?_ hlk
    intro f _ o ho
    split at ho
    · rename_i si hsi
      simp only [pure, Except.pure, Except.ok.injEq] at ho
      rw [← ho]
      have hsi' : indexOf? m.strains (strainOf f) = some si := hsi
      show (si, _) = ((indexOf? m.strains (strainOf f)).getD 0, catOf m f)
      rw [hsi']
      rfl
    · simp [fail] at ho
  subst h
  refine ⟨rfl, rfl, hscE, ?_, ?_, rfl⟩
  · simp only [hlkE, infectionKinds_contains, List.map_map]; rfl
  · simp only [hlkE, infectionKinds_contains, List.map_map]; rfl
end

theorem idxFrom_true {β : Type} (l : List β) (k : Nat) : idxFrom (fun _ => true) l k = List.range' k l.length := by
  induction l generalizing k with
  | nil => rfl
  | cons x xs ih => simp [idxFrom, ih, List.range'_succ]

theorem idxWhere_true {β : Type} (l : List β) : idxWhere l (fun _ => true) = List.range l.length := by
  rw [idxWhere_eq, idxFrom_true, List.range_eq_range']

section
variable {α : Type} [Field α]

theorem gather_range (x : List α) : gather x (List.range x.length) = x :=
  (list_eq_range_map x).symm

theorem sumL_perm {l l' : List α} (h : l.Perm l') : sumL l = sumL l' := by
  rw [sumL_eq_sum, sumL_eq_sum]; exact h.sum_eq

/-- reading the infected values through the local positions gives back the global values -/
theorem infected_local (x ci : List α) (inf : List Nat) (j : Nat) (hj : j ∈ inf) :
    (vmul (gather x inf) (gather ci inf)).getD ((indexOf? inf j).getD 0) 0 = x.getD j 0 * ci.getD j 0 := by
  obtain ⟨p, hp, hl⟩ := indexOf?_mem inf j hj
  have hpl : p < inf.length := by
    by_contra hc
    rw [List.getElem?_eq_none (by omega)] at hl
    cases hl
  rw [List.getElem?_eq_getElem hpl] at hl
  simp only [Option.some.injEq] at hl
  rw [hp, Option.getD_some, vmul_getD _ _ _ (by simp [gather_length]), gather_getD _ _ _ hpl,
    gather_getD _ _ _ hpl, hl]

/-- the infected population of the single category, for a strain with infectious positions `inf`
(a duplicate-free list of positions below `n`) -/
theorem infPop_single (x ci : List α) (n : Nat) (inf : List Nat) (hnd : inf.Nodup) (hlt : ∀ j ∈ inf, j < n) :
    sumL (gather (vmul (gather x inf) (gather ci inf)) (locOf [List.range n] inf))
      = sumL (inf.map (fun j => x.getD j 0 * ci.getD j 0)) := by
  unfold locOf gather
  simp only [List.flatten_cons, List.flatten_nil, List.append_nil, List.map_map]
  have hperm : ((List.range n).filter (fun j => inf.contains j)).Perm inf := by
    apply (List.perm_ext_iff_of_nodup ((List.nodup_range).filter _) hnd).2
    intro j
    simp only [List.mem_filter, List.mem_range, List.contains_iff_mem]
    exact ⟨fun h => h.2, fun h => ⟨hlt j h, h⟩⟩
  rw [sumL_perm (hperm.map _)]
  apply sumL_map_congr
  intro j hj
  exact infected_local x ci inf j hj

/-- the same sum over the compartment list, for a state given as a function of the compartment and
infectiousness `1` everywhere -/
theorem infPop_comps (comps : List Comp) (P : Comp → Bool) (X : Comp → α) (ci : List α)
    (hci : ∀ j, j < comps.length → ci.getD j 0 = 1) :
    sumL ((idxWhere comps P).map (fun j => (comps.map X).getD j 0 * ci.getD j 0))
      = sumL ((comps.filter P).map X) := by
  rw [idxWhere_eq, idxFrom_map_zip P comps (comps.map X) 0 _ (fun _ v => v) (by simp)
    (fun j h => by
      rw [Nat.zero_add, hci j h, mul_one, getD_eq_getElem _ _ _ (by simpa using h)]),
    zip_map_self, List.filter_map, List.map_map]
  rfl
end
section
variable {α : Type} [Field α]

/-- which compartments are infectious for strain `σ` (`strainInfectiousIdx`'s predicate) -/
def infPred (m : Model α) (σ : String) (c : Comp) : Bool :=
  (strainFilter m σ).all (fun kv => alookup c.strata kv.1 == some kv.2) && isInfectious m c

theorem strainInfectiousIdx_eq (m : Model α) (σ : String) :
    strainInfectiousIdx m σ = idxWhere m.comps (infPred m σ) := rfl

/-- the force-of-infection vector from the infected population `I` and the population `N` of the single category -/
def foiVec (pt : Option Bool) (mix : Matrix α) (I N : α) : List α :=
  if pt == some true then matVec mix (List.zipWith (· / ·) [I] [N]) else matVec mix [I]

theorem reshapeRows_one {β} (l : List β) : reshapeRows l 1 (l.length / 1) = [l] := by
  simp [reshapeRows]

theorem catIdxOf_single (m : Model α) (hcat : m.mixingCats = [[]]) :
    catIdxOf m = [List.range m.comps.length] := by
  unfold catIdxOf
  rw [hcat]
  simp only [List.map_cons, List.map_nil, List.all_nil]
  rw [idxWhere_true]

theorem catOf_single (m : Model α) (hcat : m.mixingCats = [[]]) (f : Flow α) : catOf m f = 0 := by
  unfold catOf
  cases f.src with
  | none => rfl
  | some c =>
    simp only
    unfold catLookupOf
    rw [catIdxOf_single m hcat]
    simp only [List.zipIdx_cons, List.zipIdx_nil, List.foldl_cons, List.foldl_nil, ite_self]
    simp only [List.getD_eq_getElem?_getD, List.getElem?_map]
    cases (List.range m.comps.length)[(compIdx m.comps c).getD 0]? <;> rfl

/-- the per-strain force-of-infection vectors of a single-category model without infectiousness
adjustments, at a state given as a function of the compartment -/
theorem perStrain_single {m : Model α} {b : Backend} (ht : FoiTables m b) (hcat : m.mixingCats = [[]])
    (X : Comp → α) (mix : Matrix α) :
    (infectiousMultipliers b (m.comps.map X) mix (List.replicate m.comps.length 1)).2
      = m.strains.map (fun σ => foiVec b.procType mix (sumL ((m.comps.filter (infPred m σ)).map X))
          (sumL (m.comps.map X))) := by
  unfold infectiousMultipliers
  simp only
  rw [ht.strainInfIdx, ht.strainCatIdx, zip_map_self, List.map_map, List.map_map, ht.catIdx,
    catIdxOf_single m hcat, hcat]
  apply List.map_congr_left
  intro σ _
  simp only [Function.comp, List.length_cons, List.length_nil, Nat.zero_add, reshapeRows_one, List.map_cons,
    List.map_nil]
  have hN : gather (m.comps.map X) (List.range m.comps.length) = m.comps.map X := by
    have := gather_range (m.comps.map X)
    rwa [List.length_map] at this
  have hI : sumL (gather (vmul (gather (m.comps.map X) (strainInfectiousIdx m σ))
      (gather (List.replicate m.comps.length (1 : α)) (strainInfectiousIdx m σ)))
      (locOf [List.range m.comps.length] (strainInfectiousIdx m σ)))
      = sumL ((m.comps.filter (infPred m σ)).map X) := by
    rw [infPop_single _ _ m.comps.length _ (by rw [strainInfectiousIdx_eq]; exact idxWhere_nodup _ _)
      (fun j hj => by
        rw [strainInfectiousIdx_eq, mem_idxWhere] at hj
        exact hj.1), strainInfectiousIdx_eq]
    exact infPop_comps m.comps (infPred m σ) X _ (fun j hj => by
      rw [getD_eq_getElem _ _ _ (by simpa using hj)]; simp)
  unfold foiVec forceOfInfection
  simp only [List.map_cons, List.map_nil, hN, hI]
end
section
variable {α : Type} [Field α]

/-- the multiplier seen by an infection flow, from the per-strain force-of-infection vectors -/
def multFn (m : Model α) (perStrain : List (List α)) (f : Flow α) : α :=
  1 * ((perStrain.getD ((indexOf? m.strains (strainOf f)).getD 0) []).getD (catOf m f) 0)

theorem mults_eq_map {m : Model α} {b : Backend} (ht : FoiTables m b) (x : List α) (mix : Matrix α) (ci : List α) :
    (infectiousMultipliers b x mix ci).1
      = (m.flows.filter (fun f => isInfection f.kind)).map (multFn m (infectiousMultipliers b x mix ci).2) := by
  unfold infectiousMultipliers multFn
  simp only
  rw [ht.lookupS, ht.lookupC, List.zip_map', List.map_map]
  rfl

theorem filter_getElem_count {β} (p : β → Bool) (l : List β) (i : Nat) (hi : i < l.length) (hp : p l[i] = true) :
    ∃ h : ((l.take i).filter p).length < (l.filter p).length, (l.filter p)[((l.take i).filter p).length] = l[i] := by
  have hsplit : l = l.take i ++ l[i] :: l.drop (i + 1) := by
    rw [List.getElem_cons_drop]; exact (List.take_append_drop i l).symm
  have hf : l.filter p = (l.take i).filter p ++ l[i] :: (l.drop (i + 1)).filter p := by
    conv_lhs => rw [hsplit]
    rw [List.filter_append, List.filter_cons, if_pos hp]
  refine ⟨by rw [hf]; simp, ?_⟩
  simp only [hf]
  rw [List.getElem_append_right (by omega)]
  simp

/-- position `infPos` of the multiplier vector holds the multiplier of the corresponding infection flow -/
theorem mults_getD {m : Model α} {b : Backend} (ht : FoiTables m b) (x : List α) (mix : Matrix α) (ci : List α)
    (i : Nat) (hi : i < m.flows.length) (hinf : isInfection m.flows[i].kind = true) :
    (infectiousMultipliers b x mix ci).1.getD (infPos m i) 1
      = multFn m (infectiousMultipliers b x mix ci).2 m.flows[i] := by
  rw [mults_eq_map ht]
  obtain ⟨hlt, heq⟩ := filter_getElem_count (fun f => isInfection f.kind) m.flows i hi hinf
  unfold infPos
  rw [getD_eq_getElem _ _ _ (by simpa using hlt)]
  simp only [List.getElem_map, heq]
end
section
variable {α : Type}

/-- the fields of a model that the force of infection looks at, apart from compartments and flows -/
def SameFoiFields (a b : Model α) : Prop :=
  a.strats = b.strats ∧ a.strains = b.strains ∧ a.infectious = b.infectious ∧
    a.mixingCats = b.mixingCats ∧ a.mixingMats = b.mixingMats

theorem addTransitionCore_fields (acc acc' : Model α) (kind : FlowKind) (name : String) (param : Expr α)
    (source dest : String) (ss ds : Strata) (ex : Option Nat)
    (h : addTransitionCore acc kind name param source dest ss ds ex = .ok acc') : SameFoiFields acc' acc := by
  unfold addTransitionCore at h
  replace h := (bind_guardE_ok _ _ _ _ h).2
  replace h := (bind_guardE_ok _ _ _ _ h).2
  replace h := (bind_guardE_ok _ _ _ _ h).2
  replace h := (bind_guardE_ok _ _ _ _ h).2
  obtain ⟨_, _, h⟩ := bind_ok _ _ _ h
  simp only [pure, Except.pure, Except.ok.injEq] at h
  subst h
  exact ⟨rfl, rfl, rfl, rfl, rfl⟩
end

section
variable {α : Type} [One α] [Div α] [NatCast α]

theorem stratifyWith_fields (m m' : Model α) (s : Strat α) (h : stratifyWith m s = .ok m')
    (hfa : s.flowAdj = []) (hmix : s.mixing = none) (hk : s.kind ≠ .strain) :
    m'.strats = m.strats ++ [s] ∧ m'.strains = m.strains ∧ m'.infectious = m.infectious ∧
      m'.mixingCats = m.mixingCats ∧ m'.mixingMats = m.mixingMats := by
  have hk' : (s.kind == StratKind.strain) = false := by simpa using hk
  unfold stratifyWith at h
  simp only [hfa, hmix, Strat.isStrain, hk', List.forIn_nil, pure_bind, Bool.false_eq_true, if_false] at h
  replace h := (bind_guardE_ok _ _ _ _ h).2
  replace h := (bind_guardE_ok _ _ _ _ h).2
  replace h := (bind_guardE_ok _ _ _ _ h).2
  replace h := (bind_guardE_ok _ _ _ _ h).2
  rw [foldlM_stratifyFlow s hfa] at h
  obtain ⟨newFlows, hnf, h⟩ := bind_ok _ _ _ h
  obtain ⟨m4, hm4, h⟩ := bind_ok _ _ _ h
  simp only [pure, Except.pure, Except.ok.injEq] at h
  subst h
  simp only
  have key : SameFoiFields m4 m := by
    by_cases hage : s.isAgeing = true
    · simp only [hage, if_true] at hm4
      replace hm4 := (bind_guardE_ok _ _ _ _ hm4).2
      replace hm4 := (bind_guardE_ok _ _ _ _ hm4).2
      refine foldlM_inv (fun acc => SameFoiFields acc m) _ _ ?_ _ _ ?_ hm4
      · intro acc ab _ hacc acc' hstep
        refine foldlM_inv (fun acc => SameFoiFields acc m) _ _ ?_ _ _ hacc hstep
        intro acc2 c _ hacc2 acc2' hstep2
        replace hstep2 := (bind_guardE_ok _ _ _ _ hstep2).2
        obtain ⟨h1, h2, h3, h4, h5⟩ := addTransitionCore_fields _ _ _ _ _ _ _ _ _ _ hstep2
        obtain ⟨g1, g2, g3, g4, g5⟩ := hacc2
        exact ⟨h1.trans g1, h2.trans g2, h3.trans g3, h4.trans g4, h5.trans g5⟩
      · exact ⟨rfl, rfl, rfl, rfl, rfl⟩
    · simp only [hage, Bool.false_eq_true, if_false, pure, Except.pure, Except.ok.injEq] at hm4
      subst hm4
      exact ⟨rfl, rfl, rfl, rfl, rfl⟩
  obtain ⟨g1, g2, g3, g4, g5⟩ := key
  exact ⟨by rw [g1], g2, g3, g4, g5⟩
end
section
variable {α : Type}

theorem all_congr_mem {β} (l : List β) (p q : β → Bool) (h : ∀ a ∈ l, p a = q a) : l.all p = l.all q := by
  induction l with
  | nil => rfl
  | cons a t ih =>
    simp only [List.all_cons, h a (by simp), ih (fun b hb => h b (by simp [hb]))]

theorem strainFilter_eq (m m' : Model α) (s : Strat α) (hstr : m'.strats = m.strats ++ [s])
    (hname : s.name ≠ "strain") (σ : String) : strainFilter m' σ = strainFilter m σ := by
  unfold strainFilter
  rw [hstr, List.any_append]
  have : (s.name == "strain") = false := by simpa using hname
  simp [this]

theorem strainFilter_key (m : Model α) (σ : String) : ∀ kv ∈ strainFilter m σ, kv.1 = "strain" := by
  intro kv hkv
  unfold strainFilter at hkv
  split at hkv
  · simp only [List.mem_singleton] at hkv; rw [hkv]
  · simp at hkv

/-- a child is infectious for a strain exactly when its parent is -/
theorem infPred_child (m m' : Model α) (s : Strat α) (hstr : m'.strats = m.strats ++ [s])
    (hinf : m'.infectious = m.infectious) (hname : s.name ≠ "strain") (σ : String) (c : Comp)
    (hc : noKey c s.name) (st : String) :
    infPred m' σ (c.stratify s.name st) = infPred m σ c := by
  unfold infPred isInfectious
  rw [strainFilter_eq m m' s hstr hname, hinf, stratify_noKey c s.name st hc]
  simp only
  congr 1
  apply all_congr_mem
  intro kv hkv
  rw [alookup_append_other _ _ _ _ (by rw [strainFilter_key m σ kv hkv]; exact fun e => hname e.symm)]

theorem infPred_same (m m' : Model α) (s : Strat α) (hstr : m'.strats = m.strats ++ [s])
    (hinf : m'.infectious = m.infectious) (hname : s.name ≠ "strain") (σ : String) (c : Comp) :
    infPred m' σ c = infPred m σ c := by
  unfold infPred isInfectious
  rw [strainFilter_eq m m' s hstr hname, hinf]
end

section
variable {α : Type} [Field α]

/-- the infected population of the stratified model is that of the parent at the aggregated state -/
theorem infSum_agg (comps : List Comp) (s : Strat α) (P P' : Comp → Bool) (X' : Comp → α)
    (hchild : ∀ c ∈ comps, ∀ st, P' (c.stratify s.name st) = P c) (hsame : ∀ c ∈ comps, P' c = P c) :
    sumL (((stratifyComps comps s).filter P').map X')
      = sumL ((comps.filter P).map (fun c =>
          if isStratified s c then sumL (s.strata.map (fun st => X' (c.stratify s.name st))) else X' c)) := by
  rw [sumL_filter_map, sumL_filter_map]
  rw [show stratifyComps comps s = comps.flatMap (fun c => if isStratified s c = true then
    s.strata.map (fun st => c.stratify s.name st) else [c]) from rfl, sumL_flatMap]
  apply sumL_map_congr
  intro c hc
  by_cases hp : isStratified s c = true
  · simp only [hp, if_true, List.map_map]
    by_cases hP : P c = true
    · simp only [hP, if_true]
      apply sumL_map_congr
      intro st _
      simp [hchild c hc st, hP]
    · simp only [hP, Bool.false_eq_true, if_false]
      apply sumL_eq_zero_of_all_zero
      intro v hv
      simp only [List.mem_map, Function.comp] at hv
      obtain ⟨st, _, rfl⟩ := hv
      simp [hchild c hc st, hP]
  · simp only [hp, Bool.false_eq_true, if_false, List.map_cons, List.map_nil, sumL, add_zero, hsame c hc]
end
section
variable {α : Type} [Field α] [LT α] [DecidableLT α]

theorem copies_ne_nil_of_infection (s : Strat α) (f : Flow α) (hne : s.strata ≠ [])
    (hk : isInfection f.kind = true) : copiesA s f ≠ [] := by
  have h1 : isEntryKind f.kind = false := by cases hkk : f.kind <;> simp [hkk, isInfection] at hk <;> rfl
  have h2 : isDeath f.kind = false := by cases hkk : f.kind <;> simp [hkk, isInfection] at hk <;> rfl
  unfold copiesA
  simp only [h1, h2, Bool.false_eq_true, if_false]
  split
  · simp
  · simpa using hne

theorem any_kind_copies (s : Strat α) (hne : s.strata ≠ []) (k : FlowKind) (hk : isInfection k = true)
    (flows : List (Flow α)) :
    (flows.flatMap (copiesA s)).any (fun g => g.kind == k) = flows.any (fun f => f.kind == k) := by
  induction flows with
  | nil => rfl
  | cons f fs ih =>
    rw [List.flatMap_cons, List.any_append, List.any_cons, ih]
    congr 1
    by_cases hfk : f.kind = k
    · have hne' := copies_ne_nil_of_infection s f hne (by rw [hfk]; exact hk)
      obtain ⟨g, hg⟩ := List.exists_mem_of_ne_nil _ hne'
      have : (copiesA s f).any (fun g => g.kind == k) = true := by
        rw [List.any_eq_true]
        exact ⟨g, hg, by rw [copies_kind s f g hg, hfk]; simp⟩
      rw [this, hfk]; simp
    · have : (copiesA s f).any (fun g => g.kind == k) = false := by
        rw [List.any_eq_false]
        intro g hg
        rw [copies_kind s f g hg]
        simpa using hfk
      rw [this]; simpa using hfk

theorem any_kind_extra (comps : List Comp) (s : Strat α) (extra : List (Flow α))
    (hextra : ∀ g ∈ extra, IsSiblingFlow comps s g) (k : FlowKind) (hk : isInfection k = true) :
    extra.any (fun g => g.kind == k) = false := by
  rw [List.any_eq_false]
  intro g hg
  rw [(hextra g hg).1]
  cases k <;> simp [isInfection] at hk ⊢

theorem procType_eq {m m' : Model α} {s : Strat α} {b b' : Backend} (ht : FoiTables m b) (ht' : FoiTables m' b')
    (hne : s.strata ≠ []) (extra : List (Flow α))
    (hflows : m'.flows = m.flows.flatMap (copiesA s) ++ extra)
    (hextra : ∀ g ∈ extra, IsSiblingFlow m.comps s g) : b'.procType = b.procType := by
  rw [ht.procType, ht'.procType, hflows, List.any_append, List.any_append,
    any_kind_copies s hne .infFreq rfl, any_kind_copies s hne .infDens rfl,
    any_kind_extra m.comps s extra hextra .infFreq rfl, any_kind_extra m.comps s extra hextra .infDens rfl]
  simp

theorem compInfectiousness_none (m : Model α) (params : List (String × α))
    (h : ∀ t ∈ m.strats, t.infAdj = []) :
    compInfectiousness m params = some (List.replicate m.comps.length 1) := by
  unfold compInfectiousness
  have key : ∀ (L : List (Strat α)) (init : List α), (∀ t ∈ L, t.infAdj = []) →
      L.foldlM (fun (acc : List α) (s : Strat α) =>
        s.infAdj.foldlM (fun (acc : List α) (ia : String × List (String × Option (Adj α))) =>
          ia.2.foldlM (fun (acc : List α) (sa : String × Option (Adj α)) =>
            match sa.2 with
            | none => some acc
            | some adj => do
              let v ← evalStatic params adj.expr
              let targets := getMatching m ia.1 [(s.name, sa.1)]
              pure (targets.foldl (fun (acc : List α) c =>
                match compIdx m.comps c with
                | none => acc
                | some i => match adj with
                  | .ovr _ => acc.set i v
                  | .mul _ => acc.set i (v * acc.getD i 0)) acc)) acc) acc) init = some init := by
    intro L
    induction L with
    | nil => intro init _; rfl
    | cons t ts ih =>
      intro init hL
      rw [List.foldlM_cons, hL t (by simp)]
      simp only [List.foldlM_nil, pure, Option.bind_eq_bind, Option.bind_some]
      exact ih init (fun t' ht' => hL t' (by simp [ht']))
  exact key m.strats _ h

theorem mixingMatrix_congr (m m' : Model α) (env : Env α) (h : m'.mixingMats = m.mixingMats) :
    mixingMatrix m' env = mixingMatrix m env := by
  unfold mixingMatrix; rw [h]
end
section
variable {α : Type} [Field α] [LT α] [DecidableLT α]

/-- the per-strain force-of-infection vectors of the stratified model at `x'` are those of the parent at
`agg x'` (single mixing category, infectiousness `1`) -/
theorem perStrain_agg {m m' : Model α} {s : Strat α} {b b' : Backend} (ok : StratOk m.comps s)
    (ht : FoiTables m b) (ht' : FoiTables m' b') (hcat : m.mixingCats = [[]])
    (hstr : m'.strats = m.strats ++ [s]) (hstrains : m'.strains = m.strains)
    (hinf : m'.infectious = m.infectious) (hcats : m'.mixingCats = m.mixingCats)
    (hcomps : m'.comps = stratifyComps m.comps s) (extra : List (Flow α))
    (hflows : m'.flows = m.flows.flatMap (copiesA s) ++ extra)
    (hextra : ∀ g ∈ extra, IsSiblingFlow m.comps s g)
    (hne : s.strata ≠ []) (hname : s.name ≠ "strain")
    (x' : List α) (hx : x'.length = m'.comps.length) (mix : Matrix α) :
    (infectiousMultipliers b' x' mix (List.replicate m'.comps.length 1)).2
      = (infectiousMultipliers b (agg m.comps s x') mix (List.replicate m.comps.length 1)).2 := by
  have hnd' : m'.comps.Nodup := by
    rw [hcomps]; exact stratifyComps_nodup _ _ ok.fresh ok.nodup ok.strataNodup
  have hx2 : x'.length = (stratifyComps m.comps s).length := by rw [← hcomps]; exact hx
  have hxe : x' = m'.comps.map (fun c => popOf m'.comps x' (some c)) := eq_map_popOf _ hnd' x' hx
  have hae := agg_eq_map ok x' hx2
  have hpt := procType_eq ht ht' hne extra hflows hextra
  rw [hae]
  conv_lhs => rw [hxe]
  rw [perStrain_single ht' (by rw [hcats]; exact hcat), perStrain_single ht hcat, hstrains, hpt]
  apply List.map_congr_left
  intro σ _
  congr 1
  · rw [hcomps]
    exact infSum_agg m.comps s (infPred m σ) (infPred m' σ) _
      (fun c hc st => infPred_child m m' s hstr hinf hname σ c (freshFor_mem ok.fresh c hc) st)
      (fun c _ => infPred_same m m' s hstr hinf hname σ c)
  · rw [← hxe, ← hae, agg_total m.comps s x' hx2]
end
section
variable {α : Type} [Field α] [LT α] [DecidableLT α]

theorem strainOf_copy {comps : List Comp} {s : Strat α} (hfresh : freshFor comps s = true)
    (hname : s.name ≠ "strain") (f g : Flow α) (hg : g ∈ copiesA s f)
    (hdst : ∀ d, f.dst = some d → d ∈ comps) : strainOf g = strainOf f := by
  obtain ⟨st, _, h2⟩ := copies_ends s f g hg
  unfold strainOf
  rcases h2 with h | h
  · rw [h]
  · rw [h]
    cases hd : f.dst with
    | none => rfl
    | some d =>
      have hdK := freshFor_mem hfresh d (hdst d hd)
      simp only [childEnd, Option.map_some]
      rw [stratify_noKey d s.name st hdK]
      simp only
      rw [alookup_append_other _ _ _ _ (fun e => hname e.symm)]

theorem multFn_copy {m m' : Model α} {s : Strat α} (hfresh : freshFor m.comps s = true)
    (hname : s.name ≠ "strain") (hcat : m.mixingCats = [[]]) (hcats : m'.mixingCats = m.mixingCats)
    (hstrains : m'.strains = m.strains) (ps : List (List α)) (f g : Flow α) (hg : g ∈ copiesA s f)
    (hdst : ∀ d, f.dst = some d → d ∈ m.comps) : multFn m' ps g = multFn m ps f := by
  unfold multFn
  rw [catOf_single m hcat, catOf_single m' (by rw [hcats]; exact hcat), hstrains,
    strainOf_copy hfresh hname f g hg hdst]

/-- the result of one evaluation of the right-hand side, with the multipliers exposed -/
theorem rhs_some' (m : Model α) (b : Backend) (params : List (String × α)) (x : List α) (t : α) (r : List α)
    (h : rhs m b params x t = some r) :
    ∃ w mix ci, m.flows.mapM (fun f => (realised f).eval ⟨params, t, cleanV x⟩) = some w ∧
      mixingMatrix m ⟨params, t, cleanV x⟩ = some mix ∧ compInfectiousness m params = some ci ∧
      r = compRates b (flowRates b w (cleanV x)
        (if b.procType.isSome then infectiousMultipliers b (cleanV x) mix ci else ([], [])).1) := by
  unfold rhs step at h
  simp only [Option.map_eq_some_iff] at h
  obtain ⟨out, hout, rfl⟩ := h
  simp only [Option.bind_eq_bind, Option.bind_eq_some_iff] at hout
  obtain ⟨static, hstatic, w, hw, mix, hmix, ci, hci, hout⟩ := hout
  simp only [pure, Option.some.injEq] at hout
  subst hout
  refine ⟨w, mix, ci, ?_, hmix, hci, rfl⟩
  rw [← flowWeights_eq_mapM m ⟨params, t, cleanV x⟩ params static rfl hstatic]
  exact hw

theorem mixingMatrix_nil (m : Model α) (env : Env α) (h : m.mixingMats = []) : mixingMatrix m env = some [[1]] := by
  unfold mixingMatrix; rw [h]; rfl
end
section
variable {α : Type} [Field α] [LinearOrder α] [IsStrictOrderedRing α]

/-- **C03.rates_agg at the level of `rhs`, infection flows included**, for models with a single mixing
category and no infectiousness adjustments. -/
theorem rhs_agg_single {m m' : Model α} {s : Strat α} {b b' : Backend}
    (hsw : stratifyWith m s = .ok m') (hb : prepare m = .ok b) (hb' : prepare m' = .ok b')
    (hfa : s.flowAdj = []) (hia : s.infAdj = []) (hmix : s.mixing = none) (hstrain : s.kind ≠ .strain)
    (hage : s.kind = .age → "0" ∈ s.strata) (hname : s.name ≠ "strain")
    (ok : StratOk m.comps s) (hne : s.strata ≠ []) (hs : sourcedOk m = true)
    (hcat : m.mixingCats = [[]]) (hmats : m.mixingMats = []) (hnoinf : ∀ t ∈ m.strats, t.infAdj = [])
    (hsf : ∀ g ∈ m'.flows, stateFree (realised g) = true)
    (params : List (String × α)) (t : α) (x' : List α) (hx : x'.length = m'.comps.length)
    (hnn : NN x') (r r' : List α)
    (hr' : rhs m' b' params x' t = some r') (hr : rhs m b params (agg m.comps s x') t = some r) :
    agg m.comps s r' = r := by
  have hn : (s.strata.length : α) ≠ 0 := by
    have : s.strata.length ≠ 0 := fun e => hne (List.length_eq_zero_iff.1 e)
    exact_mod_cast this
  obtain ⟨hcomps, extra, hflows, hextra, _⟩ := stratifyWith_shape m m' s hsw hfa hmix hstrain ok.fresh
  obtain ⟨hstr, hstrains, hinf, hcats, hmats'⟩ := stratifyWith_fields m m' s hsw hfa hmix hstrain
  have hB := backendFor_of_prepare m b hb
  have hB' := backendFor_of_prepare m' b' hb'
  have ht := foiTables_of_prepare m b hb
  have ht' := foiTables_of_prepare m' b' hb'
  obtain ⟨w', mix', ci', hw', hmx', hci', rfl⟩ := rhs_some' m' b' params x' t r' hr'
  obtain ⟨w, mix, ci, hw, hmx, hci, rfl⟩ := rhs_some' m b params _ t r hr
  have hnn2 : NN (agg m.comps s x') := aggBy_NN _ _ _ _ hnn
  rw [cleanV_of_NN x' hnn] at hw' hmx' ⊢
  rw [cleanV_of_NN _ hnn2] at hw hmx ⊢
  -- mixing matrices and infectiousness
  rw [mixingMatrix_nil m _ hmats] at hmx
  rw [mixingMatrix_nil m' _ (by rw [hmats']; exact hmats)] at hmx'
  rw [compInfectiousness_none m params hnoinf] at hci
  rw [compInfectiousness_none m' params (by
    intro t ht
    rw [hstr, List.mem_append, List.mem_singleton] at ht
    rcases ht with ht | rfl
    · exact hnoinf t ht
    · exact hia)] at hci'
  simp only [Option.some.injEq] at hmx hmx' hci hci'
  subst hmx; subst hmx'; subst hci; subst hci'
  -- weights in one environment
  have hw'' : m'.flows.mapM (fun f => (realised f).eval ⟨params, t, agg m.comps s x'⟩) = some w' := by
    rw [← hw']
    exact mapM_option_congr _ _ _ (fun g hg => (eval_stateFree params t _ _ _ (hsf g hg)).symm)
  rw [mapM_eval_eq_map _ _ _ hw, mapM_eval_eq_map _ _ _ hw'']
  -- multipliers
  have hps := perStrain_agg ok ht ht' hcat hstr hstrains hinf hcats hcomps extra hflows hextra hne hname x' hx [[1]]
  have hprocM : ∀ i (hi : i < m.flows.length), isInfection m.flows[i].kind = true → b.procType.isSome = true := by
    intro i hi h
    rw [hB.procType, List.any_eq_true]
    exact ⟨_, List.getElem_mem hi, h⟩
  have hprocM' : ∀ i (hi : i < m'.flows.length), isInfection m'.flows[i].kind = true → b'.procType.isSome = true := by
    intro i hi h
    rw [hB'.procType, List.any_eq_true]
    exact ⟨_, List.getElem_mem hi, h⟩
  refine rates_agg_of_shape_mult ok hn hstrain hage extra hcomps hflows hextra hB hB' hs x' hx _ _ _
    (multFn m (infectiousMultipliers b (agg m.comps s x') [[1]] (List.replicate m.comps.length 1)).2)
    (multFn m' (infectiousMultipliers b' x' [[1]] (List.replicate m'.comps.length 1)).2) ?_ ?_ ?_
  · intro i hi h
    rw [hprocM i hi h]
    exact mults_getD ht _ _ _ i hi h
  · intro i hi h
    rw [hprocM' i hi h]
    exact mults_getD ht' _ _ _ i hi h
  · intro f hf _ g hg
    rw [hps]
    exact multFn_copy ok.fresh hname hcat hcats hstrains _ f g hg (ends_of_backendFor hB f hf).2
end
end Summer.Proofs
