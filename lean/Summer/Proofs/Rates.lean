import Summer.Spec.Rates
import Summer.Proofs.ListLemmas
import Summer.Proofs.ExprLemmas
import Mathlib.Data.List.Induction
/-
Helper lemmas for the rate-law properties C01, C02, C18.
-/
set_option linter.unusedSectionVars false

namespace Summer.Proofs
open Summer Summer.Run Summer.Spec Summer.Generated

/-! ### the generated kind tables agree with the pattern-matching classification -/

theorem nonPopKinds_contains (k : FlowKind) : nonPopKinds.contains k = isNonPop k := by cases k <;> rfl
theorem crudeKinds_contains (k : FlowKind) : crudeKinds.contains k = isCrude k := by cases k <;> rfl
theorem replKinds_contains (k : FlowKind) : replKinds.contains k = isReplacement k := by cases k <;> rfl
theorem deathKinds_contains (k : FlowKind) : deathKinds.contains k = isDeath k := by cases k <;> rfl
theorem infectionKinds_contains (k : FlowKind) : infectionKinds.contains k = isInfection k := by
  cases k <;> rfl

/-! ### `prepare` establishes `BackendFor` -/

theorem mapM_except_ok {β γ ε} (g : β → Except ε γ) (g' : β → γ) :
    ∀ (l : List β) (out : List γ), (∀ a ∈ l, ∀ o, g a = .ok o → o = g' a) →
      l.mapM g = .ok out → out = l.map g'
  | [], out, _, h => by simp [pure, Except.pure] at h; simp [h]
  | a :: l, out, hg, h => by
      rw [List.mapM_cons] at h
      cases hga : g a with
      | error e => simp [hga, bind, Except.bind] at h
      | ok o =>
        cases hl : l.mapM g with
        | error e => simp [hga, hl, bind, Except.bind] at h
        | ok os =>
          simp [hga, hl, bind, Except.bind, pure, Except.pure] at h
          subst h
          have := mapM_except_ok g g' l os (fun a ha => hg a (by simp [ha])) hl
          simp [this, hg a (by simp) o hga]

theorem mapM_except_all_ok {β γ ε} (g : β → Except ε γ) :
    ∀ (l : List β) (out : List γ), l.mapM g = .ok out → ∀ a ∈ l, ∃ o, g a = .ok o
  | [], _, _ => by simp
  | a :: l, out, h => by
      rw [List.mapM_cons] at h
      cases hga : g a with
      | error e => simp [hga, bind, Except.bind] at h
      | ok o =>
        cases hl : l.mapM g with
        | error e => simp [hga, hl, bind, Except.bind] at h
        | ok os =>
          intro a' ha'
          rcases List.mem_cons.1 ha' with rfl | hm
          · exact ⟨o, hga⟩
          · exact mapM_except_all_ok g l os hl a' hm

theorem mapM_except_length {β γ ε} (g : β → Except ε γ) :
    ∀ (l : List β) (out : List γ), l.mapM g = .ok out → out.length = l.length
  | [], out, h => by simp [pure, Except.pure] at h; simp [h]
  | a :: l, out, h => by
      rw [List.mapM_cons] at h
      cases hga : g a with
      | error e => simp [hga, bind, Except.bind] at h
      | ok o =>
        cases hl : l.mapM g with
        | error e => simp [hga, hl, bind, Except.bind] at h
        | ok os =>
          simp [hga, hl, bind, Except.bind, pure, Except.pure] at h
          subst h
          simp [mapM_except_length g l os hl]

section prep
variable {α : Type}

private theorem ixStep_ok (comps : List Comp) (msg : String) (o : Option Comp) (r : Option Nat)
    (h : (match o with
      | none => (pure (none : Option Nat) : Res (Option Nat))
      | some c => match compIdx comps c with
        | some i => pure (some i)
        | none => fail msg) = .ok r) :
    r = o.bind (compIdx comps) := by
  cases o with
  | none => simp [pure, Except.pure] at h; simp [h]
  | some c =>
    simp only [Option.bind_some]
    cases hc : compIdx comps c with
    | none => simp [hc, fail] at h
    | some i => simp [hc, pure, Except.pure] at h; simp [h]

private theorem ixStep_some (comps : List Comp) (msg : String) (o : Option Comp) (r : Option Nat)
    (h : (match o with
      | none => (pure (none : Option Nat) : Res (Option Nat))
      | some c => match compIdx comps c with
        | some i => pure (some i)
        | none => fail msg) = .ok r) (ho : o.isSome = true) :
    (o.bind (compIdx comps)).isSome = true := by
  cases o with
  | none => simp at ho
  | some c =>
    simp only [Option.bind_some]
    cases hc : compIdx comps c with
    | none => simp [hc, fail] at h
    | some i => simp

theorem any_isInfection (l : List (Flow α)) :
    l.any (fun f => isInfection f.kind) =
      (l.any (fun f => f.kind == .infFreq) || l.any (fun f => f.kind == .infDens)) := by
  induction l with
  | nil => rfl
  | cons f fs ih =>
    simp only [List.any_cons, ih]
    cases f.kind <;> cases (fs.any fun f => f.kind == FlowKind.infFreq) <;>
      cases (fs.any fun f => f.kind == FlowKind.infDens) <;> rfl

theorem backendFor_of_prepare (m : Model α) (b : Backend) (h : prepare m = .ok b) : BackendFor m b := by
  unfold prepare at h
  simp only [bind, Except.bind] at h
  split at h
  · contradiction
  rename_i _ srcV hsrc
  split at h
  · contradiction
  rename_i _ dstV hdst
  split at h
  · contradiction
  split at h
  · contradiction
  split at h
  · contradiction
  rename_i _ lk hlk
  split at h
  · contradiction
  simp only [pure, Except.pure, Except.ok.injEq] at h
  have hs : srcV = m.flows.map (srcIx m) :=
    mapM_except_ok _ (srcIx m) m.flows srcV (fun f _ o ho => ixStep_ok m.comps _ f.src o ho) hsrc
  have hd : dstV = m.flows.map (dstIx m) :=
    mapM_except_ok _ (dstIx m) m.flows dstV (fun f _ o ho => ixStep_ok m.comps _ f.dst o ho) hdst
  have hlen := mapM_except_length _ _ _ hlk
  subst h
  refine
    { srcOk := ?_, dstOk := ?_, nComps := rfl, nFlows := rfl, populationIdx := ?_, nonPopIdx := ?_,
      crudeIdx := ?_, replIdx := ?_, deathIdx := ?_, infFlowIdx := ?_, posMap := ?_, negMap := ?_,
      procType := ?_, lookupLen := ?_ }
  · intro f hf hsome
    obtain ⟨o, ho⟩ := mapM_except_all_ok _ _ _ hsrc f hf
    exact ixStep_some m.comps _ f.src o ho hsome
  · intro f hf hsome
    obtain ⟨o, ho⟩ := mapM_except_all_ok _ _ _ hdst f hf
    exact ixStep_some m.comps _ f.dst o ho hsome
  · simp [hs, List.map_map, Function.comp_def]
  · simp only [nonPopKinds_contains]
  · simp only [crudeKinds_contains]
  · simp only [replKinds_contains]
  · simp only [deathKinds_contains]
  · simp only [infectionKinds_contains]
  · simp only [hd]
  · simp only [hs]
  · rw [any_isInfection]
    by_cases h1 : (m.flows.any fun f => f.kind == FlowKind.infFreq) = true
    · simp [h1]
    · by_cases h2 : (m.flows.any fun f => f.kind == FlowKind.infDens) = true
      · simp [h1, h2]
      · simp [h1, h2]
  · simp only [infectionKinds_contains] at hlen
    simp [nInfection, hlen]

end prep

/-! ### `flowRates`: entry-wise description -/

section fr
variable {α : Type} [Field α]

/-- the population factor the runner uses for a flow (source-less flows read position 0) -/
def genPop (m : Model α) (xc : List α) (f : Flow α) : α :=
  if isCrude f.kind then sumL xc else if isNonPop f.kind then 1 else xc.getD ((srcIx m f).getD 0) 0

/-- rate before the replacement-birth update -/
def rate1 (m : Model α) (w xc mults : List α) (i : Nat) (f : Flow α) : α :=
  w.getD i 0 * genPop m xc f * (if isInfection f.kind then mults.getD (infPos m i) 1 else 1)

def deathsGen (m : Model α) (w xc : List α) : α :=
  sumL (((m.flows.zip w).filter (fun fw => isDeath fw.1.kind)).map
    (fun fw => fw.2 * xc.getD ((srcIx m fw.1).getD 0) 0))

def genRate (m : Model α) (w xc mults : List α) (i : Nat) (f : Flow α) : α :=
  if isReplacement f.kind then rate1 m w xc mults i f * deathsGen m w xc else rate1 m w xc mults i f

/-- the intermediate arrays of `flowRates` -/
def popsL (b : Backend) (xc : List α) : List α :=
  b.crudeIdx.foldl (fun acc i => acc.set i (sumL xc))
    (b.nonPopIdx.foldl (fun acc i => acc.set i 1) (gather xc b.populationIdx))

def rates1L (b : Backend) (w xc mults : List α) : List α :=
  if b.procType.isSome then
    (b.infFlowIdx.zip mults).foldl (fun acc im => acc.set im.1 (acc.getD im.1 0 * im.2)) (vmul w (popsL b xc))
  else vmul w (popsL b xc)

theorem flowRates_eq (b : Backend) (w xc mults : List α) :
    flowRates b w xc mults =
      if b.replIdx.length != 0 then
        b.replIdx.foldl (fun acc i => acc.set i (acc.getD i 0 * sumL (gather (rates1L b w xc mults) b.deathIdx)))
          (rates1L b w xc mults)
      else rates1L b w xc mults := rfl

variable {m : Model α} {b : Backend}

theorem popsL_length (hb : BackendFor m b) (xc : List α) : (popsL b xc).length = m.flows.length := by
  unfold popsL
  rw [foldl_set_length b.crudeIdx _ (fun i => i) (fun _ _ => sumL xc),
    foldl_set_length b.nonPopIdx _ (fun i => i) (fun _ _ => (1 : α)), gather_length, hb.populationIdx]
  simp

theorem popsL_getD (hb : BackendFor m b) (xc : List α) (i : Nat) (hi : i < m.flows.length) :
    (popsL b xc).getD i 0 = genPop m xc m.flows[i] := by
  have hg : (gather xc b.populationIdx).length = m.flows.length := by
    rw [gather_length, hb.populationIdx]; simp
  have h1 : (b.nonPopIdx.foldl (fun acc i => acc.set i (1 : α)) (gather xc b.populationIdx)).length
      = m.flows.length := by
    rw [foldl_set_length b.nonPopIdx _ (fun i => i) (fun _ _ => (1 : α)), hg]
  unfold popsL
  rw [foldl_set_const_getD _ _ _ _ _ (by omega), foldl_set_const_getD _ _ _ _ _ (by omega),
    gather_getD _ _ _ (by rw [hb.populationIdx]; simpa using hi)]
  simp only [hb.crudeIdx, hb.nonPopIdx, mem_idxWhere, hi, exists_true_left, genPop, hb.populationIdx,
    List.getElem_map]

theorem rates0_getD (hb : BackendFor m b) (w xc : List α) (hw : w.length = m.flows.length) (i : Nat)
    (hi : i < m.flows.length) :
    (vmul w (popsL b xc)).getD i 0 = w.getD i 0 * genPop m xc m.flows[i] := by
  rw [vmul_getD _ _ _ (by rw [hw, popsL_length hb]), popsL_getD hb xc i hi]

theorem rates0_length (hb : BackendFor m b) (w xc : List α) (hw : w.length = m.flows.length) :
    (vmul w (popsL b xc)).length = m.flows.length := by
  rw [vmul_length, hw, popsL_length hb]; simp

theorem rates1L_length (hb : BackendFor m b) (w xc mults : List α) (hw : w.length = m.flows.length) :
    (rates1L b w xc mults).length = m.flows.length := by
  unfold rates1L
  split
  · rw [foldl_set_length (b.infFlowIdx.zip mults) _ (fun im => im.1) (fun acc im => acc.getD im.1 0 * im.2)]
    exact rates0_length hb w xc hw
  · exact rates0_length hb w xc hw

theorem rates1L_getD (hb : BackendFor m b) (w xc mults : List α) (hw : w.length = m.flows.length) (i : Nat)
    (hi : i < m.flows.length) :
    (rates1L b w xc mults).getD i 0 = rate1 m w xc mults i m.flows[i] := by
  unfold rates1L rate1
  by_cases hp : b.procType.isSome = true
  · simp only [hp, if_true]
    by_cases hinf : isInfection m.flows[i].kind = true
    · obtain ⟨hk, hik⟩ := idxWhere_getElem_count m.flows (fun f => isInfection f.kind) i hi hinf
      have := foldl_zip_set_mul_getD b.infFlowIdx (by rw [hb.infFlowIdx]; exact idxWhere_nodup _ _) mults
        (vmul w (popsL b xc)) (infPos m i) (by rw [hb.infFlowIdx]; exact hk)
      have hidx : b.infFlowIdx[infPos m i]'(by rw [hb.infFlowIdx]; exact hk) = i := by
        simp only [hb.infFlowIdx]; exact hik
      rw [hidx] at this
      rw [this, rates0_getD hb w xc hw i hi]
      simp [hinf]
    · rw [foldl_zip_set_mul_not_mem _ _ _ _ (by
        rw [hb.infFlowIdx, mem_idxWhere]; simp [hi, hinf]), rates0_getD hb w xc hw i hi]
      simp [hinf]
  · simp only [hp, Bool.false_eq_true, if_false]
    have hnone : isInfection m.flows[i].kind = false := by
      have h0 : m.flows.any (fun f => isInfection f.kind) = false := by
        rw [← hb.procType]; simpa using hp
      rw [List.any_eq_false] at h0
      simpa using h0 _ (List.getElem_mem hi)
    rw [rates0_getD hb w xc hw i hi]
    simp [hnone]

theorem deaths_eq (hb : BackendFor m b) (w xc mults : List α) (hw : w.length = m.flows.length) :
    sumL (gather (rates1L b w xc mults) b.deathIdx) = deathsGen m w xc := by
  unfold deathsGen gather
  have h1 : b.deathIdx.map (fun j => (rates1L b w xc mults).getD j 0) =
      b.deathIdx.map (fun j => match m.flows[j]? with
        | some f => w.getD j 0 * xc.getD ((srcIx m f).getD 0) 0
        | none => 0) := by
    apply List.map_congr_left
    intro j hj
    rw [hb.deathIdx, mem_idxWhere] at hj
    obtain ⟨hjl, hd⟩ := hj
    rw [rates1L_getD hb w xc mults hw j hjl]
    simp only [List.getElem?_eq_getElem hjl, rate1, genPop]
    cases hk : m.flows[j].kind <;> simp [hk, isDeath] at hd
    simp [isCrude, isNonPop, isInfection]
  rw [h1, hb.deathIdx, idxWhere_eq]
  rw [idxFrom_map_zip (fun f => isDeath f.kind) m.flows w 0 _
    (fun f wj => wj * xc.getD ((srcIx m f).getD 0) 0) hw]
  intro j hj
  simp only [Nat.zero_add, List.getElem?_eq_getElem hj]
  rw [getD_eq_getElem w j 0 (by omega)]

theorem flowRates_length (hb : BackendFor m b) (w xc mults : List α) (hw : w.length = m.flows.length) :
    (flowRates b w xc mults).length = m.flows.length := by
  rw [flowRates_eq]
  split
  · rw [foldl_set_length b.replIdx _ (fun i => i)
      (fun acc i => acc.getD i 0 * sumL (gather (rates1L b w xc mults) b.deathIdx))]
    exact rates1L_length hb w xc mults hw
  · exact rates1L_length hb w xc mults hw

/-- entry-wise description of `flowRates` for any backend produced by `prepare` -/
theorem flowRates_getD (hb : BackendFor m b) (w xc mults : List α) (hw : w.length = m.flows.length) (i : Nat)
    (hi : i < m.flows.length) :
    (flowRates b w xc mults).getD i 0 = genRate m w xc mults i m.flows[i] := by
  rw [flowRates_eq]
  have key : (b.replIdx.foldl
      (fun acc i => acc.set i (acc.getD i 0 * sumL (gather (rates1L b w xc mults) b.deathIdx)))
      (rates1L b w xc mults)).getD i 0 = genRate m w xc mults i m.flows[i] := by
    rw [foldl_set_mul_const_getD _ (by rw [hb.replIdx]; exact idxWhere_nodup _ _), deaths_eq hb w xc mults hw,
      rates1L_getD hb w xc mults hw i hi]
    simp only [hb.replIdx, mem_idxWhere, hi, exists_true_left, genRate]
  by_cases hr : (b.replIdx.length != 0) = true
  · simp only [hr, if_true]; exact key
  · simp only [hr]
    have hnil : b.replIdx = [] := by
      have : b.replIdx.length = 0 := by simpa using hr
      exact List.length_eq_zero_iff.1 this
    rw [hnil] at key
    simpa using key

/-! ### from the runner's description to the documented laws -/

theorem srcPop_eq (hb : BackendFor m b) (hs : sourcedOk m = true) (xc : List α) (f : Flow α) (hf : f ∈ m.flows)
    (hk : isSourced f.kind = true) : xc.getD ((srcIx m f).getD 0) 0 = srcPop m xc f := by
  have h1 : f.src.isSome = true := by
    have := List.all_eq_true.1 hs f hf
    simpa [hk] using this
  have h2 := hb.srcOk f hf h1
  unfold srcPop
  cases hsx : srcIx m f with
  | none => simp [hsx] at h2
  | some k => simp

theorem deathsGen_eq (hb : BackendFor m b) (hs : sourcedOk m = true) (w xc : List α) :
    deathsGen m w xc = deathTotal m w xc := by
  unfold deathsGen deathTotal
  apply sumL_map_congr
  intro fw hfw
  rw [List.mem_filter] at hfw
  have hmem : fw.1 ∈ m.flows := (List.of_mem_zip (show (fw.1, fw.2) ∈ m.flows.zip w from hfw.1)).1
  have hk : isSourced fw.1.kind = true := by
    have := hfw.2
    cases hkk : fw.1.kind <;> simp [hkk, isDeath] at this
    rfl
  rw [srcPop_eq hb hs xc fw.1 hmem hk]

theorem infPos_lt (m : Model α) (i : Nat) (hi : i < m.flows.length) (h : isInfection m.flows[i].kind = true) :
    infPos m i < nInfection m := by
  obtain ⟨hk, _⟩ := idxWhere_getElem_count m.flows (fun f => isInfection f.kind) i hi h
  rw [idxWhere_length] at hk
  exact hk

theorem genRate_eq_flowRate (hb : BackendFor m b) (hs : sourcedOk m = true) (w xc mults : List α)
    (hm : mults.length = nInfection m) (i : Nat) (hi : i < m.flows.length) :
    genRate m w xc mults i m.flows[i] = flowRate m w xc mults i m.flows[i] := by
  have hmem : m.flows[i] ∈ m.flows := List.getElem_mem hi
  have hsp := srcPop_eq hb hs xc m.flows[i] hmem
  have hpos : isInfection m.flows[i].kind = true → mults.getD (infPos m i) 1 = mults.getD (infPos m i) 0 := by
    intro h
    have := infPos_lt m i hi h
    rw [getD_eq_getElem _ _ _ (by omega), getD_eq_getElem _ _ _ (by omega)]
  unfold genRate rate1 genPop flowRate
  rw [deathsGen_eq hb hs]
  cases hk : m.flows[i].kind <;>
    simp only [isReplacement, isCrude, isNonPop, isInfection, Bool.false_eq_true, if_false, if_true] <;>
    first
    | (rw [hsp (by rw [hk]; rfl), hpos (by rw [hk]; rfl)])
    | (rw [hsp (by rw [hk]; rfl)]; ring)
    | ring

end fr

/-! ### the application matrix -/

section appmat
variable {α : Type} [Field α]

def addAt (mat : Matrix α) (r c : Nat) (v : α) : Matrix α :=
  mat.set r ((mat.getD r []).set c ((mat.getD r []).getD c 0 + v))

theorem applicationMatrix_eq (b : Backend) :
    (applicationMatrix b : Matrix α) =
      b.negMap.foldl (fun mat fc => addAt mat fc.2 fc.1 (0 - 1))
        (b.posMap.foldl (fun mat fc => addAt mat fc.2 fc.1 1)
          (List.replicate b.nComps (List.replicate b.nFlows 0))) := rfl

theorem addAt_length (mat : Matrix α) (r k : Nat) (v : α) : (addAt mat r k v).length = mat.length := by
  simp [addAt]

theorem addAt_rowLen (mat : Matrix α) (r k : Nat) (v : α) (c : Nat) :
    ((addAt mat r k v).getD c []).length = (mat.getD c []).length := by
  unfold addAt
  rw [getD_set]
  split
  · rename_i h; rw [List.length_set, h.1]
  · rfl

theorem entry_addAt (mat : Matrix α) (r k : Nat) (v : α) (c j : Nat) :
    entry (addAt mat r k v) c j =
      if r = c ∧ k = j ∧ c < mat.length ∧ j < (mat.getD c []).length then entry mat c j + v
      else entry mat c j := by
  unfold entry addAt
  rw [getD_set]
  by_cases hrc : r = c
  · subst hrc
    by_cases hl : r < mat.length
    · simp only [hl, and_self, if_true, true_and]
      rw [getD_set]
      by_cases hkj : k = j
      · subst hkj; rfl
      · simp only [hkj, false_and, if_false]
    · simp only [hl, false_and, and_false, if_false]
  · simp only [hrc, false_and, if_false]

theorem entry_foldl_addAt (l : List (Nat × Nat)) (v : α) (mat : Matrix α) (c j : Nat) (hc : c < mat.length)
    (hj : j < (mat.getD c []).length) :
    entry (l.foldl (fun mat fc => addAt mat fc.2 fc.1 v) mat) c j =
      entry mat c j + sumL (l.map (fun fc => if fc.2 = c ∧ fc.1 = j then v else 0)) := by
  induction l generalizing mat with
  | nil => simp [sumL]
  | cons fc l ih =>
    simp only [List.foldl_cons, List.map_cons, sumL]
    rw [ih _ (by rw [addAt_length]; exact hc) (by rw [addAt_rowLen]; exact hj), entry_addAt]
    by_cases h : fc.2 = c ∧ fc.1 = j
    · rw [if_pos ⟨h.1, h.2, hc, hj⟩, if_pos h, add_assoc]
    · have : ¬ (fc.2 = c ∧ fc.1 = j ∧ c < mat.length ∧ j < (mat.getD c []).length) := fun hh => h ⟨hh.1, hh.2.1⟩
      rw [if_neg this, if_neg h, zero_add]

theorem foldl_addAt_length (l : List (Nat × Nat)) (v : α) (mat : Matrix α) :
    (l.foldl (fun mat fc => addAt mat fc.2 fc.1 v) mat).length = mat.length := by
  induction l generalizing mat with
  | nil => rfl
  | cons fc l ih => simp only [List.foldl_cons]; rw [ih, addAt_length]

theorem foldl_addAt_rowLen (l : List (Nat × Nat)) (v : α) (mat : Matrix α) (c : Nat) :
    ((l.foldl (fun mat fc => addAt mat fc.2 fc.1 v) mat).getD c []).length = (mat.getD c []).length := by
  induction l generalizing mat with
  | nil => rfl
  | cons fc l ih => simp only [List.foldl_cons]; rw [ih, addAt_rowLen]

/-- the (flow, compartment) list built from per-flow optional compartment indices -/
def flowMap (os : List (Option Nat)) (k : Nat) : List (Nat × Nat) :=
  (os.zipIdx k).filterMap (fun x => x.1.map (fun d => (x.2, d)))

theorem sum_flowMap (os : List (Option Nat)) (k c j : Nat) (v : α) :
    sumL ((flowMap os k).map (fun fc => if fc.2 = c ∧ fc.1 = j then v else 0)) =
      if k ≤ j ∧ os[j - k]? = some (some c) then v else 0 := by
  induction os generalizing k with
  | nil => simp [flowMap, sumL]
  | cons o os ih =>
    have hrest : (k + 1 ≤ j ∧ os[j - (k + 1)]? = some (some c)) ↔
        (k < j ∧ (o :: os)[j - k]? = some (some c)) := by
      constructor
      · rintro ⟨h1, h2⟩
        have : j - k = (j - (k + 1)) + 1 := by omega
        exact ⟨by omega, by rw [this, List.getElem?_cons_succ]; exact h2⟩
      · rintro ⟨h1, h2⟩
        have : j - k = (j - (k + 1)) + 1 := by omega
        rw [this, List.getElem?_cons_succ] at h2
        exact ⟨by omega, h2⟩
    have ih' := ih (k + 1)
    unfold flowMap at ih' ⊢
    cases o with
    | none =>
      simp only [List.zipIdx_cons, List.filterMap_cons, Option.map_none]
      rw [ih']
      by_cases hjk : j = k
      · subst hjk; simp
      · have : k ≤ j ↔ k < j := by omega
        exact if_congr (hrest.trans (and_congr_left' this.symm)) rfl rfl
    | some d =>
      simp only [List.zipIdx_cons, List.filterMap_cons, Option.map_some, List.map_cons, sumL]
      rw [ih']
      by_cases hjk : j = k
      · subst hjk
        by_cases hd : d = c <;> simp [hd]
      · have h1 : ¬ (d = c ∧ k = j) := fun h => hjk h.2.symm
        have : k ≤ j ↔ k < j := by omega
        rw [if_neg h1, zero_add]
        exact if_congr (hrest.trans (and_congr_left' this.symm)) rfl rfl

variable {m : Model α} {b : Backend}

/-- coefficient of flow `f` in the rate of compartment `c` -/
def coef (m : Model α) (c : Nat) (f : Flow α) : α :=
  (if dstIx m f == some c then 1 else 0) - (if srcIx m f == some c then 1 else 0)

theorem appMat_length (hb : BackendFor m b) : (applicationMatrix b : Matrix α).length = m.comps.length := by
  rw [applicationMatrix_eq, foldl_addAt_length, foldl_addAt_length, List.length_replicate, hb.nComps]

theorem appMat_rowLen (hb : BackendFor m b) (c : Nat) (hc : c < m.comps.length) :
    ((applicationMatrix b : Matrix α).getD c []).length = m.flows.length := by
  rw [applicationMatrix_eq, foldl_addAt_rowLen, foldl_addAt_rowLen, getD_eq_getElem _ _ _ (by
    rw [List.length_replicate, hb.nComps]; exact hc)]
  simp [hb.nFlows]

theorem appMat_entry (hb : BackendFor m b) (c j : Nat) (hc : c < m.comps.length) (hj : j < m.flows.length) :
    entry (applicationMatrix b : Matrix α) c j = coef m c m.flows[j] := by
  have hz : ((List.replicate b.nComps (List.replicate b.nFlows (0 : α))).getD c []) = List.replicate b.nFlows 0 := by
    rw [getD_eq_getElem _ _ _ (by rw [List.length_replicate, hb.nComps]; exact hc)]; simp
  rw [applicationMatrix_eq, entry_foldl_addAt _ _ _ _ _
      (by rw [foldl_addAt_length, List.length_replicate, hb.nComps]; exact hc)
      (by rw [foldl_addAt_rowLen, hz, List.length_replicate, hb.nFlows]; exact hj),
    entry_foldl_addAt _ _ _ _ _ (by rw [List.length_replicate, hb.nComps]; exact hc)
      (by rw [hz, List.length_replicate, hb.nFlows]; exact hj)]
  have e0 : entry (List.replicate b.nComps (List.replicate b.nFlows (0 : α))) c j = 0 := by
    unfold entry; rw [hz, getD_eq_getElem _ _ _ (by rw [List.length_replicate, hb.nFlows]; exact hj)]; simp
  have hp := sum_flowMap (m.flows.map (dstIx m)) 0 c j (1 : α)
  have hn := sum_flowMap (m.flows.map (srcIx m)) 0 c j (0 - 1 : α)
  unfold flowMap at hp hn
  rw [e0, hb.posMap, hb.negMap, hp, hn]
  simp only [Nat.zero_le, true_and, Nat.sub_zero, List.getElem?_map, List.getElem?_eq_getElem hj,
    Option.map_some, Option.some.injEq, coef, beq_iff_eq]
  by_cases h1 : dstIx m m.flows[j] = some c <;> by_cases h2 : srcIx m m.flows[j] = some c <;> simp [h1, h2]

theorem compRates_length (hb : BackendFor m b) (r : List α) : (compRates b r).length = m.comps.length := by
  simp only [compRates, matVec, List.length_map]; exact appMat_length hb

theorem map_getD_zero {β} (l : List β) (f : β → α) (c : Nat) (hc : c < l.length) :
    (l.map f).getD c 0 = f l[c] := by
  rw [getD_eq_getElem _ _ _ (by simpa using hc)]; simp

/-- `compRates` as a per-compartment weighted sum over the flow list -/
theorem compRates_getD (hb : BackendFor m b) (r : List α) (c : Nat) (hc : c < m.comps.length) :
    (compRates b r).getD c 0 = sumL ((m.flows.zip r).map (fun fr => coef m c fr.1 * fr.2)) := by
  have hA := appMat_length (α := α) hb
  have hrow := appMat_rowLen (α := α) hb c hc
  unfold compRates matVec
  rw [map_getD_zero _ _ _ (by rw [hA]; exact hc)]
  unfold dot vmul
  congr 1
  have hrowEq : (applicationMatrix b : Matrix α)[c]'(by rw [hA]; exact hc) = (applicationMatrix b).getD c [] := by
    rw [getD_eq_getElem]
  rw [hrowEq]
  apply List.ext_getElem
  · simp only [List.length_zipWith, List.length_map, List.length_zip, hrow]
  · intro j h1 h2
    simp only [List.length_zipWith, hrow] at h1
    have hj : j < m.flows.length := by omega
    have hjr : j < r.length := by omega
    have he := appMat_entry (α := α) hb c j hc hj
    unfold entry at he
    rw [getD_eq_getElem _ _ _ (by rw [hrow]; exact hj)] at he
    simp only [List.getElem_zipWith, List.getElem_map, List.getElem_zip, he]

theorem coef_mul (m : Model α) (c : Nat) (f : Flow α) (x : α) :
    coef m c f * x = (if dstIx m f == some c then x else 0) - (if srcIx m f == some c then x else 0) := by
  unfold coef
  by_cases h1 : (dstIx m f == some c) = true <;> by_cases h2 : (srcIx m f == some c) = true <;>
    simp only [h1, h2, if_true, Bool.false_eq_true, if_false] <;> ring

theorem compRates_getD_spec (hb : BackendFor m b) (r : List α) (c : Nat) (hc : c < m.comps.length) :
    (compRates b r).getD c 0 = inflow m r c - outflow m r c := by
  rw [compRates_getD hb r c hc]
  unfold inflow outflow
  rw [sumL_filter_map, sumL_filter_map, ← sumL_map_sub]
  apply sumL_map_congr
  intro fr _
  exact coef_mul m c fr.1 fr.2

/-- out-of-range compartment positions: nothing flows -/
theorem compRates_getD_ge (hb : BackendFor m b) (r : List α) (c : Nat) (hc : m.comps.length ≤ c) :
    (compRates b r).getD c 0 = 0 :=
  getD_of_le _ _ _ (by rw [compRates_length hb]; exact hc)

/-! ### total of the compartment rates -/

theorem sumL_swap {β γ} (l1 : List β) (l2 : List γ) (g : β → γ → α) :
    sumL (l1.map (fun c => sumL (l2.map (g c)))) = sumL (l2.map (fun y => sumL (l1.map (fun c => g c y)))) := by
  induction l2 with
  | nil => simp only [List.map_nil, sumL]; exact sumL_map_zero l1
  | cons y ys ih =>
    simp only [List.map_cons, sumL]
    rw [sumL_map_add, ih]

theorem sumL_range_indicator (n k : Nat) (v : α) (hk : k < n) :
    sumL ((List.range n).map (fun c => if k = c then v else 0)) = v := by
  induction n with
  | zero => omega
  | succ n ih =>
    rw [List.range_succ, List.map_append, sumL_append]
    by_cases hkn : k = n
    · subst hkn
      have : sumL ((List.range k).map (fun c => if k = c then v else 0)) = 0 := by
        apply sumL_eq_zero_of_all_zero
        intro x hx
        simp only [List.mem_map, List.mem_range] at hx
        obtain ⟨c, hc, rfl⟩ := hx
        have : ¬ k = c := by omega
        simp only [this, if_false]
      rw [this]; simp [sumL]
    · rw [ih (by omega)]
      simp [sumL, hkn]

theorem sumL_range_opt (n : Nat) (o : Option Nat) (v : α) (ho : ∀ k, o = some k → k < n) :
    sumL ((List.range n).map (fun c => if o == some c then v else 0)) = if o.isSome then v else 0 := by
  cases o with
  | none =>
    simp only [Option.isSome_none, Bool.false_eq_true, if_false]
    apply sumL_eq_zero_of_all_zero
    intro x hx
    simp only [List.mem_map] at hx
    obtain ⟨c, _, rfl⟩ := hx
    rfl
  | some k =>
    simp only [Option.isSome_some, if_true]
    refine (sumL_map_congr _ _ _ ?_).trans (sumL_range_indicator n k v (ho k rfl))
    intro c _
    by_cases hkc : k = c
    · subst hkc; simp
    · have : (some k == some c) = false := by simpa using hkc
      simp only [this, hkc, Bool.false_eq_true, if_false]

end appmat

/-! ### positions are in range -/

section ix
theorem indexOf?_go_lt {β} [BEq β] (x : β) : ∀ (l : List β) (k i : Nat), indexOf?.go x l k = some i → i < k + l.length
  | [], _, _, h => by simp [indexOf?.go] at h
  | y :: ys, k, i, h => by
      simp only [indexOf?.go] at h
      split at h
      · simp only [Option.some.injEq] at h; subst h; simp
      · have := indexOf?_go_lt x ys (k + 1) i h
        simp only [List.length_cons]; omega

theorem compIdx_lt (comps : List Comp) (c : Comp) (i : Nat) (h : compIdx comps c = some i) : i < comps.length := by
  have := indexOf?_go_lt c comps 0 i h
  omega

variable {α : Type}

theorem srcIx_lt (m : Model α) (f : Flow α) (k : Nat) (h : srcIx m f = some k) : k < m.comps.length := by
  unfold srcIx at h
  cases hs : f.src with
  | none => simp [hs] at h
  | some c => rw [hs, Option.bind_some] at h; exact compIdx_lt _ _ _ h

theorem dstIx_lt (m : Model α) (f : Flow α) (k : Nat) (h : dstIx m f = some k) : k < m.comps.length := by
  unfold dstIx at h
  cases hs : f.dst with
  | none => simp [hs] at h
  | some c => rw [hs, Option.bind_some] at h; exact compIdx_lt _ _ _ h

theorem srcIx_isSome_iff {m : Model α} {b : Backend} (hb : BackendFor m b) (f : Flow α) (hf : f ∈ m.flows) :
    (srcIx m f).isSome = f.src.isSome := by
  cases hs : f.src with
  | none => simp [srcIx, hs]
  | some c =>
    have := hb.srcOk f hf (by simp [hs])
    simpa using this

theorem dstIx_isSome_iff {m : Model α} {b : Backend} (hb : BackendFor m b) (f : Flow α) (hf : f ∈ m.flows) :
    (dstIx m f).isSome = f.dst.isSome := by
  cases hs : f.dst with
  | none => simp [dstIx, hs]
  | some c =>
    have := hb.dstOk f hf (by simp [hs])
    simpa using this
end ix

section total
variable {α : Type} [Field α] {m : Model α} {b : Backend}

theorem list_eq_range_map (l : List α) : l = (List.range l.length).map (fun c => l.getD c 0) := by
  apply List.ext_getElem
  · simp
  · intro i h1 h2
    simp only [List.getElem_map, List.getElem_range]
    rw [getD_eq_getElem l i 0 h1]

theorem sum_compRates (hb : BackendFor m b) (r : List α) :
    sumL (compRates b r) = entryTotal m r - exitTotal m r := by
  rw [list_eq_range_map (compRates b r), compRates_length hb]
  have h1 : (List.range m.comps.length).map (fun c => (compRates b r).getD c 0) =
      (List.range m.comps.length).map (fun c => sumL ((m.flows.zip r).map (fun fr => coef m c fr.1 * fr.2))) := by
    apply List.map_congr_left
    intro c hc
    exact compRates_getD hb r c (List.mem_range.1 hc)
  rw [h1, sumL_swap]
  unfold entryTotal exitTotal
  rw [sumL_filter_map, sumL_filter_map, ← sumL_map_sub]
  apply sumL_map_congr
  intro fr hfr
  have hmem : fr.1 ∈ m.flows := (List.of_mem_zip (show (fr.1, fr.2) ∈ m.flows.zip r from hfr)).1
  have e1 : (List.range m.comps.length).map (fun c => coef m c fr.1 * fr.2) =
      (List.range m.comps.length).map (fun c => (if dstIx m fr.1 == some c then fr.2 else 0)
        - (if srcIx m fr.1 == some c then fr.2 else 0)) := by
    apply List.map_congr_left
    intro c _
    exact coef_mul m c fr.1 fr.2
  rw [e1, sumL_map_sub, sumL_range_opt _ _ _ (dstIx_lt m fr.1), sumL_range_opt _ _ _ (srcIx_lt m fr.1),
    srcIx_isSome_iff hb fr.1 hmem, dstIx_isSome_iff hb fr.1 hmem]
  cases fr.1.src <;> cases fr.1.dst <;> simp

end total


/-! ### realised weights (C01.1, C01.2): generic over the core arithmetic classes -/

section weights
variable {α : Type} [Zero α] [One α] [Add α] [Sub α] [Mul α] [Div α] [LT α] [DecidableLT α]

/-- one step of `map_flow_keys` -/
def adjStep (acc : Expr α) (a : Adj α) : Expr α :=
  match a with
  | .mul e => .mul acc e
  | .ovr e => e

theorem realised_eq (f : Flow α) : realised f = f.adjs.foldl adjStep f.param := rfl

def optMul (env : Env α) (acc : Option α) (e : Expr α) : Option α :=
  match acc, e.eval env with
  | some x, some y => some (x * y)
  | _, _ => none

def effBase (p : Expr α) (adjs : List (Adj α)) : Expr α :=
  match adjs.reverse.dropWhile isMulAdj with
  | a :: _ => a.expr
  | [] => p

theorem weight_eq (f : Flow α) (env : Env α) :
    weight f env = (trailingMuls f.adjs).foldl (optMul env) ((effBase f.param f.adjs).eval env) := rfl

theorem eval_mul (env : Env α) (a e : Expr α) : (Expr.mul a e).eval env = optMul env (a.eval env) e := by
  simp only [Expr.eval, optMul]
  cases a.eval env <;> cases e.eval env <;> rfl

theorem realisedFrom_eval (env : Env α) (p : Expr α) (adjs : List (Adj α)) :
    (adjs.foldl adjStep p).eval env =
      (trailingMuls adjs).foldl (optMul env) ((effBase p adjs).eval env) := by
  induction adjs using List.reverseRecOn with
  | nil => rfl
  | append_singleton adjs a ih =>
    rw [List.foldl_append]
    cases a with
    | mul e =>
      have h1 : trailingMuls (adjs ++ [Adj.mul e]) = trailingMuls adjs ++ [e] := by
        simp [trailingMuls, List.takeWhile_cons, isMulAdj, Adj.expr]
      have h2 : effBase p (adjs ++ [Adj.mul e]) = effBase p adjs := by
        simp [effBase, List.dropWhile_cons, isMulAdj]
      rw [h1, h2, List.foldl_append]
      simp only [List.foldl_cons, List.foldl_nil, adjStep]
      rw [eval_mul, ih]
    | ovr e =>
      have h1 : trailingMuls (adjs ++ [Adj.ovr e]) = [] := by
        simp [trailingMuls, isMulAdj]
      have h2 : effBase p (adjs ++ [Adj.ovr e]) = e := by
        simp [effBase, isMulAdj, Adj.expr]
      rw [h1, h2]
      rfl

theorem realised_eval_eq_weight (f : Flow α) (env : Env α) : (realised f).eval env = weight f env := by
  rw [realised_eq, weight_eq]; exact realisedFrom_eval env f.param f.adjs

theorem realisedFrom_eval_fold (env : Env α) (p : Expr α) (adjs : List (Adj α)) :
    (adjs.foldl adjStep p).eval env =
      adjs.foldl (fun acc a => match a with
        | .mul e => (match acc, e.eval env with
            | some x, some y => some (x * y)
            | _, _ => none)
        | .ovr e => e.eval env) (p.eval env) := by
  induction adjs generalizing p with
  | nil => rfl
  | cons a adjs ih =>
    simp only [List.foldl_cons]
    rw [ih]
    cases a with
    | mul e => simp only [adjStep]; rw [eval_mul]; rfl
    | ovr e => rfl

theorem realised_eval_eq_weightFold (f : Flow α) (env : Env α) : (realised f).eval env = weightFold f env := by
  rw [realised_eq]; exact realisedFrom_eval_fold env f.param f.adjs

/-! `Option`-valued `mapM` -/

theorem mapM_option_some {β γ} (g : β → Option γ) :
    ∀ (l : List β) (out : List γ), l.mapM g = some out →
      out.length = l.length ∧ ∀ i (h : i < l.length) (h' : i < out.length), g l[i] = some out[i]
  | [], out, h => by
      simp only [List.mapM_nil, pure, Option.some.injEq] at h
      subst h; simp
  | a :: l, out, h => by
      rw [List.mapM_cons] at h
      cases hga : g a with
      | none => simp [hga] at h
      | some o =>
        cases hl : l.mapM g with
        | none => simp [hga, hl] at h
        | some os =>
          simp only [hga, hl, Option.bind_eq_bind, Option.bind_some, pure, Option.some.injEq] at h
          subst h
          obtain ⟨h1, h2⟩ := mapM_option_some g l os hl
          refine ⟨by simp [h1], ?_⟩
          intro i hi hi'
          cases i with
          | zero => simpa using hga
          | succ i => simpa using h2 i (by simpa using hi) (by simpa using hi')

theorem flowWeights_aux (env : Env α) (params : List (String × α)) (hp : env.params = params) :
    ∀ (l : List (Flow α)) (static : List α),
      l.mapM (fun f => if (realised f).usesModelVars then some (0 : α) else evalStatic params (realised f))
        = some static →
      (l.zip static).mapM (fun fs => if (realised fs.1).usesModelVars then (realised fs.1).eval env else some fs.2)
        = l.mapM (fun f => (realised f).eval env)
  | [], static, _ => by simp
  | f :: l, static, h => by
      rw [List.mapM_cons] at h
      cases hga : (if (realised f).usesModelVars then some (0 : α) else evalStatic params (realised f)) with
      | none => simp [hga] at h
      | some o =>
        cases hl : l.mapM (fun f => if (realised f).usesModelVars then some (0 : α)
            else evalStatic params (realised f)) with
        | none => simp [hga, hl] at h
        | some os =>
          simp only [hga, hl, Option.bind_eq_bind, Option.bind_some, pure, Option.some.injEq] at h
          subst h
          have ih := flowWeights_aux env params hp l os hl
          rw [List.zip_cons_cons, List.mapM_cons, List.mapM_cons, ih]
          by_cases hu : (realised f).usesModelVars = true
          · simp only [hu, if_true]
          · simp only [hu, Bool.false_eq_true, if_false] at hga ⊢
            have hu' : (realised f).usesModelVars = false := by simpa using hu
            have := eval_coincidence_env (realised f) hu' env ⟨params, 0, []⟩ hp
            rw [this]
            unfold evalStatic at hga
            rw [hga]

theorem flowWeights_eq_mapM (m : Model α) (env : Env α) (params : List (String × α)) (static : List α)
    (hp : env.params = params) (hs : staticFlowWeights m params = some static) :
    flowWeights m env static = m.flows.mapM (fun f => (realised f).eval env) :=
  flowWeights_aux env params hp m.flows static hs

end weights

/-! ### non-negativity (C18) -/

section nonneg
variable {α : Type} [Field α] [LinearOrder α] [IsStrictOrderedRing α]

/-- all entries non-negative -/
def NN (l : List α) : Prop := ∀ v ∈ l, 0 ≤ v

theorem clean_nonneg (x : α) : 0 ≤ clean x := by
  unfold clean
  split
  · exact le_refl 0
  · rename_i h; exact not_lt.1 h

theorem cleanV_NN (x : List α) : NN (cleanV x) := by
  intro v hv
  simp only [cleanV, List.mem_map] at hv
  obtain ⟨y, _, rfl⟩ := hv
  exact clean_nonneg y

theorem clean_of_nonpos (x : α) (h : x ≤ 0) : clean x = 0 := by
  unfold clean
  split
  · rfl
  · rename_i h'; exact le_antisymm h (not_lt.1 h')

theorem cleanV_getD_of_nonpos (x : List α) (c : Nat) (h : x.getD c 0 ≤ 0) : (cleanV x).getD c 0 = 0 := by
  by_cases hc : c < x.length
  · rw [getD_eq_getElem _ _ _ hc] at h
    rw [getD_eq_getElem _ _ _ (by simpa [cleanV] using hc)]
    simp only [cleanV, List.getElem_map]
    exact clean_of_nonpos _ h
  · exact getD_of_le _ _ _ (by simp only [cleanV, List.length_map]; omega)

theorem NN_getD (l : List α) (h : NN l) (i : Nat) (d : α) (hd : 0 ≤ d) : 0 ≤ l.getD i d := by
  by_cases hi : i < l.length
  · rw [getD_eq_getElem _ _ _ hi]; exact h _ (List.getElem_mem hi)
  · rw [getD_of_le _ _ _ (by omega)]; exact hd

theorem NN_map {β} (l : List β) (f : β → α) (h : ∀ x ∈ l, 0 ≤ f x) : NN (l.map f) := by
  intro v hv
  simp only [List.mem_map] at hv
  obtain ⟨y, hy, rfl⟩ := hv
  exact h y hy

theorem NN_zipWith (f : α → α → α) (hf : ∀ a b, 0 ≤ a → 0 ≤ b → 0 ≤ f a b) :
    ∀ (a b : List α), NN a → NN b → NN (List.zipWith f a b)
  | [], _, _, _ => by intro v hv; simp at hv
  | _ :: _, [], _, _ => by intro v hv; simp at hv
  | x :: xs, y :: ys, ha, hb => by
      intro v hv
      simp only [List.zipWith_cons_cons, List.mem_cons] at hv
      rcases hv with rfl | hv
      · exact hf _ _ (ha x (by simp)) (hb y (by simp))
      · exact NN_zipWith f hf xs ys (fun v hv => ha v (by simp [hv])) (fun v hv => hb v (by simp [hv])) v hv

theorem NN_gather (a : List α) (ha : NN a) (idxs : List Nat) : NN (gather a idxs) :=
  NN_map _ _ (fun i _ => NN_getD a ha i 0 (le_refl 0))

theorem NN_vmul (a b : List α) (ha : NN a) (hb : NN b) : NN (vmul a b) :=
  NN_zipWith _ (fun _ _ h1 h2 => mul_nonneg h1 h2) a b ha hb

theorem sumL_NN (l : List α) (h : NN l) : 0 ≤ sumL l := sumL_nonneg l h

theorem NN_matVec (mix : Matrix α) (v : List α) (hmix : ∀ row ∈ mix, NN row) (hv : NN v) : NN (matVec mix v) :=
  NN_map _ _ (fun row hrow => sumL_NN _ (NN_vmul row v (hmix row hrow) hv))

theorem forceOfInfection_NN (infVals infness : List α) (catIndexer : List (List Nat)) (mix : Matrix α)
    (catPops : List α) (h1 : NN infVals) (h2 : NN infness) (hmix : ∀ row ∈ mix, NN row) (h3 : NN catPops) :
    NN (forceOfInfection infVals infness catIndexer mix catPops).1 ∧
    NN (forceOfInfection infVals infness catIndexer mix catPops).2 := by
  have hinf : NN (catIndexer.map (fun row => sumL (gather (vmul infVals infness) row))) :=
    NN_map _ _ (fun row _ => sumL_NN _ (NN_gather _ (NN_vmul _ _ h1 h2) row))
  refine ⟨NN_matVec mix _ hmix hinf, NN_matVec mix _ hmix ?_⟩
  exact NN_zipWith _ (fun _ _ ha hb => div_nonneg ha hb) _ _ hinf h3

theorem NN_getD_list (L : List (List α)) (h : ∀ l ∈ L, NN l) (s : Nat) : NN (L.getD s []) := by
  by_cases hs : s < L.length
  · rw [getD_eq_getElem _ _ _ hs]; exact h _ (List.getElem_mem hs)
  · rw [getD_of_le _ _ _ (by omega)]; intro v hv; simp at hv

theorem infectiousMultipliers_NN (b : Backend) (x : List α) (mix : Matrix α) (compInf : List α)
    (hx : NN x) (hmix : ∀ row ∈ mix, NN row) (hci : NN compInf) :
    NN (infectiousMultipliers b x mix compInf).1 ∧
    ∀ l ∈ (infectiousMultipliers b x mix compInf).2, NN l := by
  have hcat : NN (b.catIdx.map (fun row => sumL (gather x row))) :=
    NN_map _ _ (fun row _ => sumL_NN _ (NN_gather x hx row))
  have hper : ∀ l ∈ (infectiousMultipliers b x mix compInf).2, NN l := by
    intro l hl
    simp only [infectiousMultipliers, List.mem_map] at hl
    obtain ⟨sc, _, rfl⟩ := hl
    have := forceOfInfection_NN (gather x sc.1) (gather compInf sc.1) sc.2 mix _
      (NN_gather x hx _) (NN_gather compInf hci _) hmix hcat
    split
    · exact this.2
    · exact this.1
  refine ⟨?_, hper⟩
  apply NN_map
  intro sc _
  rw [one_mul]
  apply NN_getD _ _ _ _ (le_refl 0)
  exact NN_getD_list _ hper sc.1

omit [LinearOrder α] [IsStrictOrderedRing α] in
theorem infectiousMultipliers_length {m : Model α} {b : Backend} (hb : BackendFor m b) (x : List α)
    (mix : Matrix α) (compInf : List α) :
    (infectiousMultipliers b x mix compInf).1.length = nInfection m := by
  simp [infectiousMultipliers, hb.lookupLen.1, hb.lookupLen.2]

variable {m : Model α} {b : Backend}

theorem genPop_nonneg (xc : List α) (hx : NN xc) (f : Flow α) : 0 ≤ genPop m xc f := by
  unfold genPop
  split
  · exact sumL_NN xc hx
  · split
    · exact zero_le_one
    · exact NN_getD xc hx _ 0 (le_refl 0)

theorem rate1_nonneg (w xc mults : List α) (hw : NN w) (hx : NN xc) (hm : NN mults) (i : Nat) (f : Flow α) :
    0 ≤ rate1 m w xc mults i f := by
  unfold rate1
  apply mul_nonneg (mul_nonneg (NN_getD w hw i 0 (le_refl 0)) (genPop_nonneg xc hx f))
  split
  · exact NN_getD mults hm _ 1 zero_le_one
  · exact zero_le_one

theorem deathsGen_nonneg (w xc : List α) (hw : NN w) (hx : NN xc) : 0 ≤ deathsGen m w xc := by
  unfold deathsGen
  apply sumL_NN
  apply NN_map
  intro fw hfw
  have hmem : fw.2 ∈ w := (List.of_mem_zip (show (fw.1, fw.2) ∈ m.flows.zip w from (List.mem_filter.1 hfw).1)).2
  exact mul_nonneg (hw _ hmem) (NN_getD xc hx _ 0 (le_refl 0))

theorem genRate_nonneg (w xc mults : List α) (hw : NN w) (hx : NN xc) (hm : NN mults) (i : Nat) (f : Flow α) :
    0 ≤ genRate m w xc mults i f := by
  unfold genRate
  split
  · exact mul_nonneg (rate1_nonneg w xc mults hw hx hm i f) (deathsGen_nonneg w xc hw hx)
  · exact rate1_nonneg w xc mults hw hx hm i f

theorem flowRates_NN (hb : BackendFor m b) (w xc mults : List α) (hwl : w.length = m.flows.length)
    (hw : NN w) (hx : NN xc) (hm : NN mults) : NN (flowRates b w xc mults) := by
  intro v hv
  obtain ⟨i, hi, rfl⟩ := List.mem_iff_getElem.1 hv
  have hi' : i < m.flows.length := by rw [← flowRates_length hb w xc mults hwl]; exact hi
  rw [← getD_eq_getElem _ _ 0 hi, flowRates_getD hb w xc mults hwl i hi']
  exact genRate_nonneg w xc mults hw hx hm i _

/-- a population-proportional flow out of an empty compartment has rate zero -/
theorem genRate_zero_of_empty (w xc mults : List α) (i : Nat) (f : Flow α) (c : Nat)
    (hsrc : srcIx m f = some c) (hk : isSourced f.kind = true) (hxc : xc.getD c 0 = 0) :
    genRate m w xc mults i f = 0 := by
  have hp : genPop m xc f = 0 := by
    unfold genPop
    rw [hsrc]
    cases hkk : f.kind <;> simp [hkk, isSourced] at hk <;>
      simp only [isCrude, isNonPop, Bool.false_eq_true, if_false, Option.getD_some, hxc]
  have h1 : rate1 m w xc mults i f = 0 := by unfold rate1; rw [hp]; ring
  unfold genRate
  split
  · rw [h1]; ring
  · exact h1

theorem quasi_positive_aux (hb : BackendFor m b) (w xc mults : List α) (hwl : w.length = m.flows.length)
    (hw : NN w) (hx : NN xc) (hm : NN mults) (c : Nat)
    (hsrc : ∀ f ∈ m.flows, srcIx m f = some c → isSourced f.kind = true) (hxc : xc.getD c 0 = 0) :
    0 ≤ (compRates b (flowRates b w xc mults)).getD c 0 := by
  by_cases hc : c < m.comps.length
  · rw [compRates_getD_spec hb _ c hc]
    have hfr := flowRates_NN hb w xc mults hwl hw hx hm
    have hin : 0 ≤ inflow m (flowRates b w xc mults) c := by
      unfold inflow
      apply sumL_NN
      apply NN_map
      intro fr hfr'
      exact hfr _ (List.of_mem_zip (show (fr.1, fr.2) ∈ _ from (List.mem_filter.1 hfr').1)).2
    have hout : outflow m (flowRates b w xc mults) c = 0 := by
      unfold outflow
      apply sumL_eq_zero_of_all_zero
      intro v hv
      simp only [List.mem_map, List.mem_filter] at hv
      obtain ⟨fr, ⟨hmem, hs⟩, rfl⟩ := hv
      obtain ⟨i, hi, hfi⟩ := List.mem_iff_getElem.1 hmem
      simp only [List.length_zip, flowRates_length hb w xc mults hwl, Nat.min_self] at hi
      rw [List.getElem_zip] at hfi
      have hs' : srcIx m fr.1 = some c := by simpa using hs
      have h1 : fr.1 = m.flows[i] := by rw [← hfi]
      have h2 : fr.2 = (flowRates b w xc mults)[i]'(by rw [flowRates_length hb w xc mults hwl]; exact hi) := by
        rw [← hfi]
      rw [h2, ← getD_eq_getElem _ _ 0, flowRates_getD hb w xc mults hwl i hi]
      rw [h1] at hs'
      exact genRate_zero_of_empty w xc mults i _ c hs' (hsrc _ (List.getElem_mem hi) hs') hxc
    rw [hout, sub_zero]; exact hin
  · rw [compRates_getD_ge hb _ c (by omega)]

end nonneg

end Summer.Proofs
