/-
  Diagnostic report for C19 (not a proof): lists the translated run-time functions rejected by
  the taint checker, with the offending expressions (`id = line * 1000 + k`).
  Run with `lake env lean Summer/Proofs/C19Report.lean` when `C19.repo_typed` fails.
-/
import Summer.Generated.Skeleton

namespace Summer.C19
open Summer.Taint Summer.Generated.Skeleton

def sourceOf (f : String) : String :=
  match sources.find? (fun p => p.1 == f) with
  | some p => p.2
  | none => "?"

def rejected : List (String × String × List String) :=
  (allFunctions.filter (fun p => !ok (ctxOf p.1) p.2)).map
    (fun p => (p.1, sourceOf p.1, (diag (ctxOf p.1) p.2).1))

def reportLines : List String :=
  if rejected.isEmpty then
    ["C19: all " ++ toString allFunctions.length ++ " run-time functions are well-tainted"]
  else
    rejected.flatMap (fun r =>
      ("C19 REJECTED " ++ r.1 ++ "  [" ++ r.2.1 ++ "]") :: r.2.2.map (fun m => "    " ++ m))

end Summer.C19

#eval IO.println (String.intercalate "\n" Summer.C19.reportLines)
