import Summer.Model.Run
import Summer.Spec.InitPop
import Mathlib.Algebra.Field.Defs
import Mathlib.Algebra.Order.Field.Basic
import Mathlib.Tactic.Ring
import Mathlib.Data.List.Perm.Basic
/-
Helper lemmas for C06 (initial population): scatters (`jsetMany`), the index arrays of
`_stratify_compartments`, `stratifyValues`.
-/
namespace Summer.Proofs.InitPop
open Summer Summer.Run Summer.Build Summer.Spec

theorem snoc_induction {β : Type} {P : List β → Prop} (nil : P [])
    (snoc : ∀ l x, P l → P (l ++ [x])) : ∀ l, P l := by
  intro l
  rw [← List.reverse_reverse l]
  induction l.reverse with
  | nil => exact nil
  | cons x xs ih => rw [List.reverse_cons]; exact snoc _ _ ih

theorem exists_snoc_of_length {β : Type} (l : List β) (n : Nat) (h : l.length = n + 1) :
    ∃ l' x, l = l' ++ [x] ∧ l'.length = n := by
  have hne : l ≠ [] := by intro h0; simp [h0] at h
  refine ⟨l.dropLast, l.getLast hne, (List.dropLast_concat_getLast hne).symm, ?_⟩
  simp [h]

/-! ### scatter / gather -/
section scatter
variable {α : Type}

theorem jsetMany_nil_idx (a : List α) (V : List α) : jsetMany a [] V = a := by
  simp [jsetMany]

theorem jsetMany_nil_val (a : List α) (I : List Nat) : jsetMany a I [] = a := by
  simp [jsetMany]

theorem jsetMany_cons (a : List α) (i : Nat) (I : List Nat) (v : α) (V : List α) :
    jsetMany a (i :: I) (v :: V) = jsetMany (a.set i v) I V := by
  simp [jsetMany, jset]

theorem length_jsetMany (a : List α) (I : List Nat) (V : List α) :
    (jsetMany a I V).length = a.length := by
  induction I generalizing a V with
  | nil => simp [jsetMany]
  | cons i I ih =>
    cases V with
    | nil => simp [jsetMany]
    | cons v V => rw [jsetMany_cons, ih]; simp

theorem jsetMany_append_left (a b : List α) (I : List Nat) (V : List α)
    (h : ∀ i ∈ I, i < a.length) : jsetMany (a ++ b) I V = jsetMany a I V ++ b := by
  induction I generalizing a V with
  | nil => simp [jsetMany]
  | cons i I ih =>
    cases V with
    | nil => simp [jsetMany]
    | cons v V =>
      rw [jsetMany_cons, jsetMany_cons, List.set_append_left _ _ (h i (by simp)), ih]
      intro j hj
      simpa using h j (by simp [hj])

theorem jsetMany_snoc (a : List α) (I : List Nat) (V : List α) (x : Nat) (y : α)
    (h : I.length = V.length) : jsetMany a (I ++ [x]) (V ++ [y]) = (jsetMany a I V).set x y := by
  simp [jsetMany, List.zip_append h, List.foldl_append, jset]

theorem gather_append_left [Zero α] (a b : List α) (I : List Nat) (h : ∀ i ∈ I, i < a.length) :
    gather (a ++ b) I = gather a I := by
  unfold gather
  apply List.map_congr_left
  intro i hi
  simp [List.getD_eq_getElem?_getD, List.getElem?_append_left (h i hi)]

theorem gather_append_idx [Zero α] (a : List α) (I J : List Nat) :
    gather a (I ++ J) = gather a I ++ gather a J := by
  simp [gather]

theorem gather_snoc_last [Zero α] (a : List α) (v : α) : gather (a ++ [v]) [a.length] = [v] := by
  simp [gather]

theorem length_gather [Zero α] (a : List α) (I : List Nat) : (gather a I).length = I.length := by
  simp [gather]

end scatter

/-! ### association lists -/
section assoc
variable {β : Type}

theorem alookup_nil (k : String) : alookup ([] : List (String × β)) k = none := by
  simp [alookup]

theorem alookup_cons (k' : String) (v : β) (l : List (String × β)) (k : String) :
    alookup ((k', v) :: l) k = if k' = k then some v else alookup l k := by
  by_cases h : k' = k <;> simp [alookup, h]

theorem alookup_map_upd (T : List (String × List Nat)) (st st' : String) (x : Nat) :
    alookup (T.map (fun kv => if kv.1 == st then (kv.1, kv.2 ++ [x]) else kv)) st'
      = if st' = st then (alookup T st').map (· ++ [x]) else alookup T st' := by
  induction T with
  | nil => simp [alookup_nil]
  | cons kv T ih =>
    obtain ⟨k, L⟩ := kv
    by_cases h1 : k = st
    · subst h1
      by_cases h2 : k = st'
      · subst h2; simp [alookup_cons]
      · have h3 : ¬ st' = k := fun h => h2 h.symm
        simp only [List.map_cons, beq_self_eq_true, if_true, alookup_cons, h2, if_false, h3] at ih ⊢
        simpa [h3] using ih
    · by_cases h2 : k = st'
      · subst h2
        simp [alookup_cons, h1]
      · simp only [List.map_cons, alookup_cons]
        have : (k == st) = false := by simp [h1]
        simp only [this, Bool.false_eq_true, if_false, alookup_cons, h2]
        exact ih

theorem alookup_map_const {γ : Type} (l : List String) (c : γ) (st : String) :
    alookup (l.map (fun s => (s, c))) st = if st ∈ l then some c else none := by
  induction l with
  | nil => simp [alookup_nil]
  | cons a l ih =>
    simp only [List.map_cons, alookup_cons, ih, List.mem_cons]
    by_cases h : a = st
    · simp [h]
    · have : ¬ st = a := fun h' => h h'.symm
      simp [h, this]

end assoc

/-! ### the index arrays of `_stratify_compartments` -/

/-- one stratum of a stratified compartment -/
def innerStep (a : StratIdx) (st : String) : StratIdx :=
  { a with stratumTarget := a.stratumTarget.map (fun kv => if kv.1 == st then (kv.1, kv.2 ++ [a.newSize]) else kv),
           newSize := a.newSize + 1 }

/-- one compartment -/
def outerStep (sComps strata : List String) (acc : StratIdx) (ci : Comp × Nat) : StratIdx :=
  if ci.1.hasNameIn sComps then
    strata.foldl innerStep { acc with stratBase := acc.stratBase ++ [ci.2] }
  else
    { acc with passBase := acc.passBase ++ [ci.2], passTarget := acc.passTarget ++ [acc.newSize], newSize := acc.newSize + 1 }

theorem stratIndexArrays_eq {α : Type} (comps : List Comp) (s : Strat α) :
    stratIndexArrays comps s
      = comps.zipIdx.foldl (outerStep s.comps s.strata) ⟨[], [], [], s.strata.map (fun st => (st, [])), 0⟩ := rfl

theorem stratIndexArrays_nil {α : Type} (s : Strat α) :
    stratIndexArrays [] s = ⟨[], [], [], s.strata.map (fun st => (st, [])), 0⟩ := rfl

theorem stratIndexArrays_snoc {α : Type} (comps : List Comp) (c : Comp) (s : Strat α) :
    stratIndexArrays (comps ++ [c]) s
      = outerStep s.comps s.strata (stratIndexArrays comps s) (c, comps.length) := by
  simp [stratIndexArrays_eq, List.zipIdx_append, List.foldl_append]

theorem innerFold (post : List String) (hnd : post.Nodup) (a : StratIdx) :
    (post.foldl innerStep a).stratBase = a.stratBase ∧
    (post.foldl innerStep a).passBase = a.passBase ∧
    (post.foldl innerStep a).passTarget = a.passTarget ∧
    (post.foldl innerStep a).newSize = a.newSize + post.length ∧
    ∀ st, alookup (post.foldl innerStep a).stratumTarget st
      = if st ∈ post then (alookup a.stratumTarget st).map (· ++ [a.newSize + post.idxOf st])
        else alookup a.stratumTarget st := by
  induction post generalizing a with
  | nil => simp
  | cons s rest ih =>
    have hnd' := (List.nodup_cons.mp hnd)
    obtain ⟨h1, h2, h3, h4, h5⟩ := ih hnd'.2 (innerStep a s)
    simp only [List.foldl_cons]
    refine ⟨by rw [h1]; rfl, by rw [h2]; rfl, by rw [h3]; rfl, ?_, ?_⟩
    · rw [h4]; simp only [innerStep, List.length_cons]; omega
    · intro st
      rw [h5]
      simp only [innerStep, alookup_map_upd]
      by_cases hs : st = s
      · subst hs
        simp [hnd'.1]
      · have hs' : ¬ s = st := fun h => hs h.symm
        by_cases hr : st ∈ rest
        · have hi : (s :: rest).idxOf st = rest.idxOf st + 1 := by
            have hb : (s == st) = false := by simp [hs']
            simp [List.idxOf_cons, hb]
          simp only [hr, if_true, hs, if_false, List.mem_cons, or_true, hi]
          congr 1
          funext L
          congr 2
          show a.newSize + 1 + List.idxOf st rest = a.newSize + (List.idxOf st rest + 1)
          omega
        · simp [hr, hs]


/-! ### `stratifyValues` -/
section values
variable {α : Type} [Mul α] [Zero α]

/-- one stratum of the scatter loop of `stratify_compartment_values` -/
def svStep (T : List (String × List Nat)) (split : List (String × α)) (base : List α)
    (acc : List α) (st : String) : List α :=
  jsetMany acc ((alookup T st).getD []) (base.map (· * (alookup split st).getD 0))

theorem stratifyValues_eq (ix : StratIdx) (strata : List String) (split : List (String × α))
    (vals : List α) :
    stratifyValues ix strata split vals
      = strata.foldl (svStep ix.stratumTarget split (gather vals ix.stratBase))
          (jsetMany (List.replicate ix.newSize 0) ix.passTarget (gather vals ix.passBase)) := rfl

theorem length_svFold (T : List (String × List Nat)) (split : List (String × α)) (base : List α)
    (post : List String) (X : List α) : (post.foldl (svStep T split base) X).length = X.length := by
  induction post generalizing X with
  | nil => rfl
  | cons st rest ih => rw [List.foldl_cons, ih, svStep, length_jsetMany]

theorem svFold_append (T : List (String × List Nat)) (split : List (String × α)) (base : List α)
    (post : List String) (X b : List α)
    (h : ∀ st ∈ post, ∀ t ∈ (alookup T st).getD [], t < X.length) :
    post.foldl (svStep T split base) (X ++ b) = post.foldl (svStep T split base) X ++ b := by
  induction post generalizing X with
  | nil => rfl
  | cons st rest ih =>
    rw [List.foldl_cons, List.foldl_cons]
    have h1 : svStep T split base (X ++ b) st = svStep T split base X st ++ b := by
      unfold svStep
      exact jsetMany_append_left _ _ _ _ (h st (by simp))
    rw [h1, ih]
    intro st' hst' t ht
    rw [svStep, length_jsetMany]
    exact h st' (by simp [hst']) t ht

theorem svStep_flagged_one (T T' : List (String × List Nat)) (split : List (String × α))
    (base : List α) (v : α) (N k : Nat) (st : String) (L : List Nat)
    (hL : alookup T st = some L) (hLl : L.length = base.length) (hLt : ∀ t ∈ L, t < N)
    (hL' : alookup T' st = some (L ++ [N + k]))
    (X done R : List α) (hX : X.length = N) (hd : done.length = k) :
    svStep T' split (base ++ [v]) (X ++ (done ++ 0 :: R)) st
      = svStep T split base X st ++ (done ++ (v * (alookup split st).getD 0) :: R) := by
  unfold svStep
  rw [hL, hL']
  simp only [Option.getD_some, List.map_append, List.map_cons, List.map_nil]
  rw [jsetMany_snoc _ _ _ _ _ (by simpa using hLl),
    jsetMany_append_left _ _ _ _ (by simpa [hX] using hLt),
    List.set_append_right _ _ (by rw [length_jsetMany, hX]; omega)]
  congr 1
  rw [length_jsetMany, hX, Nat.add_sub_cancel_left, List.set_append_right _ _ (by omega)]
  simp [hd]

theorem svFold_flagged (strata : List String) (T T' : List (String × List Nat))
    (split : List (String × α)) (base : List α) (v : α) (N : Nat)
    (H : ∀ k st, strata[k]? = some st → ∃ L, alookup T st = some L ∧ L.length = base.length ∧
      (∀ t ∈ L, t < N) ∧ alookup T' st = some (L ++ [N + k]))
    (pre post : List String) (hs : strata = pre ++ post) (done : List α)
    (hd : done.length = pre.length) (X : List α) (hX : X.length = N) :
    post.foldl (svStep T' split (base ++ [v])) (X ++ (done ++ List.replicate post.length 0))
      = post.foldl (svStep T split base) X
          ++ (done ++ post.map (fun st => v * (alookup split st).getD 0)) := by
  induction post generalizing pre done X with
  | nil => simp
  | cons st rest ih =>
    obtain ⟨L, hL, hLl, hLt, hL'⟩ := H pre.length st (by simp [hs])
    rw [List.foldl_cons, List.foldl_cons, List.length_cons, List.replicate_succ,
      svStep_flagged_one T T' split base v N pre.length st L hL hLl hLt hL' X done _ hX hd]
    have := ih (pre ++ [st]) (by simp [hs]) (done ++ [v * (alookup split st).getD 0])
      (by simp [hd]) (svStep T split base X st) (by rw [svStep, length_jsetMany, hX])
    simpa using this


theorem length_stratifyValues (ix : StratIdx) (strata : List String) (split : List (String × α))
    (vals : List α) : (stratifyValues ix strata split vals).length = ix.newSize := by
  rw [stratifyValues_eq, length_svFold, length_jsetMany, List.length_replicate]

theorem stratifySpec_snoc (comps : List Comp) (c : Comp) (sComps strata : List String)
    (split : List (String × α)) (vals : List α) (v : α) (h : vals.length = comps.length) :
    stratifySpec (comps ++ [c]) sComps strata split (vals ++ [v])
      = stratifySpec comps sComps strata split vals
        ++ (if c.hasNameIn sComps then strata.map (fun st => v * (alookup split st).getD 0) else [v]) := by
  simp [stratifySpec, List.zip_append h.symm]

theorem length_stratifySpec {β : Type} (comps : List Comp) (s : Strat β)
    (split : List (String × α)) (vals : List α) (h : vals.length = comps.length) :
    (stratifySpec comps s.comps s.strata split vals).length = (stratifyComps comps s).length := by
  induction comps generalizing vals with
  | nil => simp [stratifySpec, stratifyComps]
  | cons c comps ih =>
    cases vals with
    | nil => simp at h
    | cons v vals =>
      have := ih vals (by simpa using h)
      simp only [stratifySpec, stratifyComps, List.zip_cons_cons, List.flatMap_cons,
        List.length_append] at this ⊢
      rw [this]
      by_cases hc : c.hasNameIn s.comps <;> simp [hc]

/-- the invariant of the compartment loop of `_stratify_compartments`, together with the
correctness of the scatter for the compartments seen so far -/
structure Inv (sComps strata : List String) (split : List (String × α)) (comps : List Comp)
    (ix : StratIdx) : Prop where
  sb : ∀ i ∈ ix.stratBase, i < comps.length
  pb : ∀ i ∈ ix.passBase, i < comps.length
  pt : ∀ t ∈ ix.passTarget, t < ix.newSize
  ptl : ix.passTarget.length = ix.passBase.length
  st : ∀ st ∈ strata, ∃ L, alookup ix.stratumTarget st = some L ∧ L.length = ix.stratBase.length ∧
        ∀ t ∈ L, t < ix.newSize
  main : ∀ vals : List α, vals.length = comps.length →
    stratifyValues ix strata split vals = stratifySpec comps sComps strata split vals

theorem Inv_nil (sComps strata : List String) (split : List (String × α)) :
    Inv sComps strata split [] ⟨[], [], [], strata.map (fun st => (st, [])), 0⟩ := by
  refine ⟨by simp, by simp, by simp, rfl, ?_, ?_⟩
  · intro st hst
    exact ⟨[], by simp [alookup_map_const, hst], rfl, by simp⟩
  · intro vals hv
    have hv' : vals = [] := by simpa using hv
    subst hv'
    rw [stratifyValues_eq]
    simp only [jsetMany_nil_idx, List.replicate_zero, stratifySpec, List.zip_nil_right,
      List.flatMap_nil]
    have : ∀ (post : List String) ,
        post.foldl (svStep (strata.map (fun st => (st, ([] : List Nat)))) split (gather [] [])) ([] : List α) = [] := by
      intro post
      induction post with
      | nil => rfl
      | cons st rest ih =>
        rw [List.foldl_cons]
        have : svStep (strata.map (fun st => (st, ([] : List Nat)))) split (gather [] []) ([] : List α) st = [] := by
          unfold svStep
          rw [alookup_map_const]
          by_cases h : st ∈ strata <;> simp [h, jsetMany_nil_idx]
        rw [this, ih]
    exact this strata

theorem Inv_pass (sComps strata : List String) (split : List (String × α)) (comps : List Comp)
    (ix : StratIdx) (c : Comp) (h : Inv sComps strata split comps ix)
    (hc : c.hasNameIn sComps = false) :
    Inv sComps strata split (comps ++ [c])
      { ix with passBase := ix.passBase ++ [comps.length],
                passTarget := ix.passTarget ++ [ix.newSize], newSize := ix.newSize + 1 } := by
  refine ⟨?_, ?_, ?_, ?_, ?_, ?_⟩
  · intro i hi; have := h.sb i hi; simp; omega
  · intro i hi
    simp only [List.mem_append, List.mem_singleton] at hi
    rcases hi with hi | hi
    · have := h.pb i hi; simp; omega
    · simp [hi]
  · intro t ht
    simp only [List.mem_append, List.mem_singleton] at ht
    rcases ht with ht | ht
    · have := h.pt t ht; show t < ix.newSize + 1; omega
    · show t < ix.newSize + 1; omega
  · simp [h.ptl]
  · intro st hst
    obtain ⟨L, h1, h2, h3⟩ := h.st st hst
    exact ⟨L, h1, h2, fun t ht => Nat.lt_succ_of_lt (h3 t ht)⟩
  · intro vals' hv'
    obtain ⟨vals, v, rfl, hv⟩ := exists_snoc_of_length vals' comps.length (by simpa using hv')
    rw [stratifySpec_snoc _ _ _ _ _ _ _ hv, hc, stratifyValues_eq]
    simp only [Bool.false_eq_true, if_false]
    have g1 : gather (vals ++ [v]) (ix.passBase ++ [comps.length]) = gather vals ix.passBase ++ [v] := by
      rw [gather_append_idx, gather_append_left _ _ _ (by simpa [hv] using h.pb), ← hv,
        gather_snoc_last]
    have g2 : gather (vals ++ [v]) ix.stratBase = gather vals ix.stratBase :=
      gather_append_left _ _ _ (by simpa [hv] using h.sb)
    rw [g1, g2,
      List.replicate_succ', jsetMany_snoc _ _ _ _ _ (by simp [length_gather, h.ptl]),
      jsetMany_append_left _ _ _ _ (by simpa using h.pt),
      List.set_append_right _ _ (by simp [length_jsetMany])]
    simp only [length_jsetMany, List.length_replicate, Nat.sub_self, List.set_cons_zero]
    rw [svFold_append, ← h.main vals hv, stratifyValues_eq]
    intro st hst t ht
    rw [length_jsetMany, List.length_replicate]
    obtain ⟨L, h1, _, h3⟩ := h.st st hst
    rw [h1] at ht
    exact h3 t ht

theorem Inv_strat (sComps strata : List String) (hnd : strata.Nodup) (split : List (String × α))
    (comps : List Comp) (ix : StratIdx) (c : Comp) (h : Inv sComps strata split comps ix)
    (hc : c.hasNameIn sComps = true) :
    Inv sComps strata split (comps ++ [c])
      (strata.foldl innerStep { ix with stratBase := ix.stratBase ++ [comps.length] }) := by
  obtain ⟨h1, h2, h3, h4, h5⟩ := innerFold strata hnd { ix with stratBase := ix.stratBase ++ [comps.length] }
  -- the lookups after the inner loop
  have H : ∀ k st, strata[k]? = some st → ∃ L, alookup ix.stratumTarget st = some L ∧
      L.length = ix.stratBase.length ∧ (∀ t ∈ L, t < ix.newSize) ∧
      alookup (strata.foldl innerStep { ix with stratBase := ix.stratBase ++ [comps.length] }).stratumTarget st
        = some (L ++ [ix.newSize + k]) := by
    intro k st hk
    obtain ⟨hk1, hk2⟩ := List.getElem?_eq_some_iff.mp hk
    have hmem : st ∈ strata := hk2 ▸ List.getElem_mem hk1
    obtain ⟨L, hL1, hL2, hL3⟩ := h.st st hmem
    refine ⟨L, hL1, hL2, hL3, ?_⟩
    rw [h5 st]
    have hidx : strata.idxOf st = k := by
      rw [← hk2]; exact hnd.idxOf_getElem k hk1
    simp [hmem, hL1, hidx]
  refine ⟨?_, ?_, ?_, ?_, ?_, ?_⟩
  · rw [h1]; intro i hi
    simp only [List.mem_append, List.mem_singleton] at hi
    rcases hi with hi | hi
    · have := h.sb i hi; simp; omega
    · simp [hi]
  · rw [h2]; intro i hi; have := h.pb i hi; simp; omega
  · rw [h3, h4]; intro t ht; have := h.pt t ht; show t < ix.newSize + _; omega
  · rw [h3, h2]; exact h.ptl
  · intro st hst
    obtain ⟨k, hk1, hk2⟩ := List.getElem_of_mem hst
    obtain ⟨L, _, hL2, hL3, hL4⟩ := H k st (by rw [List.getElem?_eq_getElem hk1, hk2])
    refine ⟨_, hL4, by rw [h1]; simp [hL2], ?_⟩
    rw [h4]
    intro t ht
    simp only [List.mem_append, List.mem_singleton] at ht
    rcases ht with ht | ht
    · have := hL3 t ht; show t < ix.newSize + _; omega
    · show t < ix.newSize + _; omega
  · intro vals' hv'
    obtain ⟨vals, v, rfl, hv⟩ := exists_snoc_of_length vals' comps.length (by simpa using hv')
    rw [stratifySpec_snoc _ _ _ _ _ _ _ hv, hc, stratifyValues_eq, h1, h2, h3, h4]
    simp only [if_true]
    have g1 : gather (vals ++ [v]) (ix.stratBase ++ [comps.length]) = gather vals ix.stratBase ++ [v] := by
      rw [gather_append_idx, gather_append_left _ _ _ (by simpa [hv] using h.sb), ← hv,
        gather_snoc_last]
    have g2 : gather (vals ++ [v]) ix.passBase = gather vals ix.passBase :=
      gather_append_left _ _ _ (by simpa [hv] using h.pb)
    rw [g1, g2, ← List.replicate_append_replicate,
      jsetMany_append_left _ _ _ _ (by simpa using h.pt)]
    have := svFold_flagged strata ix.stratumTarget
      (strata.foldl innerStep { ix with stratBase := ix.stratBase ++ [comps.length] }).stratumTarget
      split (gather vals ix.stratBase) v ix.newSize
      (by simpa [length_gather] using H) [] strata rfl [] rfl
      (jsetMany (List.replicate ix.newSize 0) ix.passTarget (gather vals ix.passBase))
      (by simp [length_jsetMany])
    simp only [List.nil_append] at this
    rw [this, ← h.main vals hv, stratifyValues_eq]

theorem Inv_stratIndexArrays {β : Type} (s : Strat β) (hnd : s.strata.Nodup)
    (split : List (String × α)) (comps : List Comp) :
    Inv s.comps s.strata split comps (stratIndexArrays comps s) := by
  induction comps using snoc_induction with
  | nil => exact Inv_nil _ _ _
  | snoc comps c ih =>
    rw [stratIndexArrays_snoc]
    by_cases hc : c.hasNameIn s.comps
    · simpa [outerStep, hc] using Inv_strat s.comps s.strata hnd split comps _ c ih hc
    · have hc' : c.hasNameIn s.comps = false := by simpa using hc
      simpa [outerStep, hc'] using Inv_pass s.comps s.strata split comps _ c ih hc'

end values


/-! ### every target index is written exactly once -/
section partition

/-- all indices written by `stratifyValues`, in writing order -/
def writeTargets (strata : List String) (ix : StratIdx) : List Nat :=
  ix.passTarget ++ strata.flatMap (fun st => (alookup ix.stratumTarget st).getD [])

theorem map_idxOf_nodup (strata : List String) (hnd : strata.Nodup) :
    strata.map (fun st => strata.idxOf st) = List.range strata.length := by
  apply List.ext_getElem
  · simp
  · intro k h1 h2
    simp only [List.getElem_map, List.getElem_range]
    exact hnd.idxOf_getElem k _

theorem writeTargets_perm {β : Type} (s : Strat β) (hnd : s.strata.Nodup) (comps : List Comp) :
    (writeTargets s.strata (stratIndexArrays comps s)).Perm
      (List.range (stratIndexArrays comps s).newSize) := by
  induction comps using snoc_induction with
  | nil =>
    rw [stratIndexArrays_nil]
    simp only [writeTargets, List.nil_append, List.range_zero]
    have : s.strata.flatMap (fun st => (alookup (s.strata.map (fun st => (st, ([] : List Nat)))) st).getD []) = [] := by
      rw [List.flatMap_eq_nil_iff]
      intro st hst
      simp [alookup_map_const, hst]
    rw [this]
  | snoc comps c ih =>
    have hinv := Inv_stratIndexArrays (α := Nat) s hnd [] comps
    rw [stratIndexArrays_snoc]
    generalize stratIndexArrays comps s = ix at ih hinv
    by_cases hc : c.hasNameIn s.comps
    · simp only [outerStep, hc, if_true]
      obtain ⟨h1, h2, h3, h4, h5⟩ := innerFold s.strata hnd { ix with stratBase := ix.stratBase ++ [comps.length] }
      simp only [writeTargets, h3, h4]
      have hF : s.strata.flatMap (fun st => (alookup (s.strata.foldl innerStep
            { ix with stratBase := ix.stratBase ++ [comps.length] }).stratumTarget st).getD [])
          = s.strata.flatMap (fun st => (alookup ix.stratumTarget st).getD [] ++ [ix.newSize + s.strata.idxOf st]) := by
        apply List.flatMap_congr
        intro st hst
        obtain ⟨L, hL, _, _⟩ := hinv.st st hst
        rw [h5 st]
        simp [hst, hL]
      rw [hF]
      have hperm := List.flatMap_append_perm s.strata (fun st => (alookup ix.stratumTarget st).getD [])
        (fun st => [ix.newSize + s.strata.idxOf st])
      have hsingle : s.strata.flatMap (fun st => [ix.newSize + s.strata.idxOf st])
          = (List.range s.strata.length).map (ix.newSize + ·) := by
        rw [← map_idxOf_nodup s.strata hnd, List.map_map, List.map_eq_flatMap]
        rfl
      rw [hsingle] at hperm
      show (ix.passTarget ++ _).Perm (List.range (ix.newSize + s.strata.length))
      rw [List.range_add]
      have := (List.Perm.append_left ix.passTarget hperm.symm)
      refine this.trans ?_
      rw [← List.append_assoc]
      exact List.Perm.append_right _ ih
    · have hc' : c.hasNameIn s.comps = false := by simpa using hc
      simp only [outerStep, hc', Bool.false_eq_true, if_false, writeTargets]
      rw [List.range_succ]
      have : (ix.passTarget ++ [ix.newSize] ++
            s.strata.flatMap (fun st => (alookup ix.stratumTarget st).getD [])).Perm
          ((ix.passTarget ++ s.strata.flatMap (fun st => (alookup ix.stratumTarget st).getD [])) ++ [ix.newSize]) := by
        rw [List.append_assoc, List.append_assoc]
        exact List.Perm.append_left _ List.perm_append_comm
      exact this.trans (List.Perm.append_right _ ih)

end partition

/-! ### sums -/
section sums
variable {α : Type} [Field α]

theorem sumL_append (a b : List α) : sumL (a ++ b) = sumL a + sumL b := by
  induction a with
  | nil => simp [sumL]
  | cons x a ih => simp [sumL, ih, add_assoc]

theorem sumL_map_mul_left (v : α) (l : List α) : sumL (l.map (fun x => v * x)) = v * sumL l := by
  induction l with
  | nil => simp [sumL]
  | cons x l ih => simp [sumL, ih, mul_add]

theorem sumL_chunk (strata : List String) (split : List (String × α)) (v : α)
    (hsum : sumL (strata.map (fun st => (alookup split st).getD 0)) = 1) :
    sumL (strata.map (fun st => v * (alookup split st).getD 0)) = v := by
  have := sumL_map_mul_left v (strata.map (fun st => (alookup split st).getD 0))
  rw [List.map_map] at this
  rw [show (fun st => v * (alookup split st).getD 0) = ((fun x => v * x) ∘ fun st => (alookup split st).getD 0) from rfl,
    this, hsum, mul_one]

theorem sumL_stratifySpec (comps : List Comp) (sComps strata : List String)
    (split : List (String × α)) (vals : List α) (hv : vals.length = comps.length)
    (hsum : sumL (strata.map (fun st => (alookup split st).getD 0)) = 1) :
    sumL (stratifySpec comps sComps strata split vals) = sumL vals := by
  induction comps generalizing vals with
  | nil =>
    have : vals = [] := by simpa using hv
    subst this; simp [stratifySpec, sumL]
  | cons c comps ih =>
    cases vals with
    | nil => simp at hv
    | cons v vals =>
      have h := ih vals (by simpa using hv)
      simp only [stratifySpec, List.zip_cons_cons, List.flatMap_cons] at h ⊢
      rw [sumL_append, h]
      by_cases hc : c.hasNameIn sComps
      · simp only [hc, if_true, sumL_chunk strata split v hsum, sumL]
      · simp [hc, sumL]

end sums


/-! ### optional-write folds -/
section wfold
variable {α β : Type}

/-- apply an optional write -/
def wstep (f : β → Option (Nat × α)) (out : List α) (b : β) : List α :=
  match f b with
  | some iv => out.set iv.1 iv.2
  | none => out

theorem length_wstep (f : β → Option (Nat × α)) (a : List α) (b : β) :
    (wstep f a b).length = a.length := by
  unfold wstep; split <;> simp

theorem length_wfold (f : β → Option (Nat × α)) (L : List β) (a : List α) :
    (L.foldl (wstep f) a).length = a.length := by
  induction L generalizing a with
  | nil => rfl
  | cons b L ih => rw [List.foldl_cons, ih, length_wstep]

theorem wfold_untouched (f : β → Option (Nat × α)) (L : List β) (a : List α) (i : Nat) (d : α)
    (h : ∀ b ∈ L, ∀ v, f b ≠ some (i, v)) : (L.foldl (wstep f) a).getD i d = a.getD i d := by
  induction L generalizing a with
  | nil => rfl
  | cons b L ih =>
    rw [List.foldl_cons, ih _ (fun b' hb' => h b' (by simp [hb']))]
    unfold wstep
    split
    · rename_i iv hiv
      have : iv.1 ≠ i := by
        intro h1; apply h b (by simp) iv.2; rw [hiv, ← h1]
      simp [List.getD_eq_getElem?_getD, this]
    · rfl

theorem wfold_touched (f : β → Option (Nat × α)) (L : List β) (a : List α) (i : Nat) (d v : α)
    (hi : i < a.length) (hall : ∀ b ∈ L, ∀ v', f b = some (i, v') → v' = v)
    (hex : a.getD i d = v ∨ ∃ b ∈ L, ∃ v', f b = some (i, v')) :
    (L.foldl (wstep f) a).getD i d = v := by
  induction L generalizing a with
  | nil => simpa using hex
  | cons b L ih =>
    rw [List.foldl_cons]
    apply ih _ (by rw [length_wstep]; exact hi) (fun b' hb' => hall b' (by simp [hb']))
    unfold wstep
    split
    · rename_i iv hiv
      by_cases h1 : iv.1 = i
      · left
        have : iv.2 = v := hall b (by simp) iv.2 (by rw [hiv, ← h1])
        simp [List.getD_eq_getElem?_getD, h1, hi, this]
      · rcases hex with hex | ⟨b', hb', v', hv'⟩
        · left
          simpa [List.getD_eq_getElem?_getD, List.getElem?_set, h1] using hex
        · rcases List.mem_cons.mp hb' with rfl | hb''
          · rw [hiv] at hv'
            exact absurd (by simpa using congrArg (fun o => o.map (·.1)) hv') h1
          · right; exact ⟨b', hb'', v', hv'⟩
    · rename_i hnone
      rcases hex with hex | ⟨b', hb', v', hv'⟩
      · left; exact hex
      · rcases List.mem_cons.mp hb' with rfl | hb''
        · rw [hnone] at hv'; cases hv'
        · right; exact ⟨b', hb'', v', hv'⟩

end wfold


/-! ### rebalance -/
section rebalance

theorem strataContains_iff (a b : Strata) : strataContains a b = true ↔ ∀ kv ∈ b, kv ∈ a := by
  simp [strataContains, List.all_eq_true]

theorem mem_filt (strat : String) (l : Strata) (kv : String × String) :
    kv ∈ l.filter (fun kv => kv.1 != strat) ↔ kv ∈ l ∧ kv.1 ≠ strat := by
  simp [List.mem_filter]

theorem sameGroup_iff (strat : String) (c d : Comp) :
    sameGroup strat c d = true ↔
      c.name = d.name ∧ ∀ kv : String × String, kv.1 ≠ strat → (kv ∈ c.strata ↔ kv ∈ d.strata) := by
  simp only [sameGroup, rbEqv, rbKey, Bool.and_eq_true, beq_iff_eq, strataContains_iff, mem_filt]
  constructor
  · rintro ⟨⟨h1, h2⟩, h3⟩
    exact ⟨h1, fun kv hk => ⟨fun h => (h3 kv ⟨h, hk⟩).1, fun h => (h2 kv ⟨h, hk⟩).1⟩⟩
  · rintro ⟨h1, h2⟩
    exact ⟨⟨h1, fun kv h => ⟨(h2 kv h.2).2 h.1, h.2⟩⟩, fun kv h => ⟨(h2 kv h.2).1 h.1, h.2⟩⟩

theorem sameGroup_refl (strat : String) (c : Comp) : sameGroup strat c c = true := by
  rw [sameGroup_iff]; exact ⟨rfl, fun _ _ => Iff.rfl⟩

theorem sameGroup_symm {strat : String} {c d : Comp} (h : sameGroup strat c d = true) :
    sameGroup strat d c = true := by
  rw [sameGroup_iff] at h ⊢; exact ⟨h.1.symm, fun kv hk => (h.2 kv hk).symm⟩

theorem sameGroup_trans {strat : String} {c d e : Comp} (h1 : sameGroup strat c d = true)
    (h2 : sameGroup strat d e = true) : sameGroup strat c e = true := by
  rw [sameGroup_iff] at h1 h2 ⊢
  exact ⟨h1.1.trans h2.1, fun kv hk => (h1.2 kv hk).trans (h2.2 kv hk)⟩

/-- membership of a compartment in the group selected by a key (`_get_matching_compartments`) -/
def memb (g : String × Strata) (c : Comp) : Bool := c.name == g.1 && c.hasStrata g.2

theorem memb_key_iff (strat : String) (r c : Comp) :
    memb (rbKey strat r) c = true ↔
      c.name = r.name ∧ ∀ kv ∈ r.strata, kv.1 ≠ strat → kv ∈ c.strata := by
  simp only [memb, rbKey, Comp.hasStrata, Bool.and_eq_true, beq_iff_eq, strataContains_iff, mem_filt]
  constructor
  · rintro ⟨h1, h2⟩; exact ⟨h1, fun kv h hk => h2 kv ⟨h, hk⟩⟩
  · rintro ⟨h1, h2⟩; exact ⟨h1, fun kv h => h2 kv h.1 h.2⟩

theorem nodup_keys_inj {l : Strata} (h : (l.map (·.1)).Nodup) {a b : String × String}
    (ha : a ∈ l) (hb : b ∈ l) (hab : a.1 = b.1) : a = b := by
  induction l with
  | nil => cases ha
  | cons x l ih =>
    simp only [List.map_cons, List.nodup_cons, List.mem_map, not_exists, not_and] at h
    rcases List.mem_cons.mp ha with rfl | ha' <;> rcases List.mem_cons.mp hb with rfl | hb'
    · rfl
    · exact absurd hab.symm (h.1 b hb')
    · exact absurd hab (h.1 a ha')
    · exact ih h.2 ha' hb'

/-- under uniform, duplicate-free strata keys, matching a group key is the same as being in the
representative's group -/
theorem memb_key_eq_sameGroup (strat : String) (r c : Comp)
    (hkeys : c.name = r.name → c.strata.map (·.1) = r.strata.map (·.1))
    (hnd : (c.strata.map (·.1)).Nodup) :
    memb (rbKey strat r) c = sameGroup strat r c := by
  rw [Bool.eq_iff_iff, memb_key_iff, sameGroup_iff]
  constructor
  · rintro ⟨h1, h2⟩
    refine ⟨h1.symm, fun kv hk => ⟨fun h => h2 kv h hk, fun h => ?_⟩⟩
    have hk1 : kv.1 ∈ r.strata.map (·.1) := by
      rw [← hkeys h1]; exact List.mem_map.mpr ⟨kv, h, rfl⟩
    obtain ⟨kv', hkv', hkv'1⟩ := List.mem_map.mp hk1
    have hc : kv' ∈ c.strata := h2 kv' hkv' (by rw [hkv'1]; exact hk)
    have : kv' = kv := nodup_keys_inj hnd hc h hkv'1
    rw [← this]; exact hkv'
  · rintro ⟨h1, h2⟩
    exact ⟨h1.symm, fun kv h hk => (h2 kv hk).1 h⟩

theorem any_key_iff (l : Strata) (k : String) :
    l.any (fun kv => kv.1 == k) = true ↔ k ∈ l.map (·.1) := by
  simp only [List.any_eq_true, beq_iff_eq, List.mem_map]

theorem alookup_isSome_of_any {γ : Type} (l : List (String × γ)) (k : String)
    (h : l.any (fun kv => kv.1 == k) = true) : ∃ v, alookup l k = some v := by
  induction l with
  | nil => simp at h
  | cons x l ih =>
    obtain ⟨k', v'⟩ := x
    rw [alookup_cons]
    by_cases hk : k' = k
    · exact ⟨v', by simp [hk]⟩
    · simp only [List.any_cons, Bool.or_eq_true, beq_iff_eq, hk, false_or] at h
      obtain ⟨v, hv⟩ := ih h
      exact ⟨v, by simp [hk, hv]⟩

/-! the group list -/

theorem rbGroups_eq (comps : List Comp) (strat : String) (flt : Strata) :
    rbGroups comps strat flt
      = (rbStratComps comps strat flt).foldl (fun acc c =>
          if acc.any (fun h => rbEqv h (rbKey strat c)) then acc else acc ++ [rbKey strat c]) [] := rfl

theorem rbGroups_aux (strat : String) (L : List Comp) (acc0 : List (String × Strata)) :
    let gs := L.foldl (fun acc c =>
          if acc.any (fun h => rbEqv h (rbKey strat c)) then acc else acc ++ [rbKey strat c]) acc0
    (∀ g ∈ gs, g ∈ acc0 ∨ ∃ r ∈ L, g = rbKey strat r) ∧
    (∀ g ∈ acc0, g ∈ gs) ∧
    (∀ r ∈ L, ∃ g ∈ gs, rbEqv g (rbKey strat r) = true) := by
  induction L generalizing acc0 with
  | nil => simp
  | cons c L ih =>
    simp only [List.foldl_cons]
    by_cases hany : acc0.any (fun h => rbEqv h (rbKey strat c)) = true
    · simp only [hany, if_true]
      obtain ⟨h1, h2, h3⟩ := ih acc0
      refine ⟨?_, h2, ?_⟩
      · intro g hg
        rcases h1 g hg with h | ⟨r, hr, hgr⟩
        · exact Or.inl h
        · exact Or.inr ⟨r, by simp [hr], hgr⟩
      · intro r hr
        rcases List.mem_cons.mp hr with rfl | hr'
        · obtain ⟨g, hg, hge⟩ := List.any_eq_true.mp hany
          exact ⟨g, h2 g hg, hge⟩
        · exact h3 r hr'
    · simp only [hany, Bool.false_eq_true, if_false]
      obtain ⟨h1, h2, h3⟩ := ih (acc0 ++ [rbKey strat c])
      refine ⟨?_, fun g hg => h2 g (by simp [hg]), ?_⟩
      · intro g hg
        rcases h1 g hg with h | ⟨r, hr, hgr⟩
        · rcases List.mem_append.mp h with h | h
          · exact Or.inl h
          · exact Or.inr ⟨c, by simp, by simpa using h⟩
        · exact Or.inr ⟨r, by simp [hr], hgr⟩
      · intro r hr
        rcases List.mem_cons.mp hr with rfl | hr'
        · exact ⟨rbKey strat r, h2 _ (by simp), sameGroup_refl strat r⟩
        · exact h3 r hr'

/-- what the scatter loop needs to know about a list of groups -/
structure GroupsOK (comps : List Comp) (strat : String) (flt : Strata)
    (gs : List (String × Strata)) : Prop where
  sound : ∀ g ∈ gs, ∃ r ∈ rbStratComps comps strat flt, g = rbKey strat r
  complete : ∀ r ∈ rbStratComps comps strat flt, ∃ g ∈ gs, rbEqv g (rbKey strat r) = true

theorem rbGroups_ok (comps : List Comp) (strat : String) (flt : Strata) :
    GroupsOK comps strat flt (rbGroups comps strat flt) := by
  obtain ⟨h1, _, h3⟩ := rbGroups_aux strat (rbStratComps comps strat flt) []
  rw [rbGroups_eq]
  refine ⟨fun g hg => ?_, h3⟩
  rcases h1 g hg with h | h
  · cases h
  · exact h

theorem GroupsOK_of_mem_iff {comps : List Comp} {strat : String} {flt : Strata}
    {gs gs' : List (String × Strata)} (h : GroupsOK comps strat flt gs)
    (hm : ∀ g, g ∈ gs' ↔ g ∈ gs) : GroupsOK comps strat flt gs' :=
  ⟨fun g hg => h.sound g ((hm g).1 hg), fun r hr => by
    obtain ⟨g, hg, hge⟩ := h.complete r hr
    exact ⟨g, (hm g).2 hg, hge⟩⟩

theorem mem_rbStratComps (comps : List Comp) (strat : String) (flt : Strata) (r : Comp) :
    r ∈ rbStratComps comps strat flt ↔
      r ∈ comps ∧ r.strata.any (fun kv => kv.1 == strat) = true ∧ r.hasStrata flt = true := by
  simp only [rbStratComps, List.mem_filter]
  constructor
  · rintro ⟨⟨h1, h2⟩, h3⟩; exact ⟨h1, h2, h3⟩
  · rintro ⟨h1, h2, h3⟩; exact ⟨⟨h1, h2⟩, h3⟩


/-! the scatter loop -/
section loop
variable {α : Type} [Add α] [Mul α] [Zero α]

def members (comps : List Comp) (g : String × Strata) : List (Comp × Nat) :=
  comps.zipIdx.filter (fun ci => memb g ci.1)

def gtotal (comps : List Comp) (pop : List α) (g : String × Strata) : α :=
  sumL ((members comps g).map (fun ci => pop.getD ci.2 0))

def rbWrite (comps : List Comp) (strat : String) (props : List (String × α)) (pop : List α)
    (gci : (String × Strata) × (Comp × Nat)) : Option (Nat × α) :=
  (alookup gci.2.1.strata strat).map (fun k => (gci.2.2, gtotal comps pop gci.1 * (alookup props k).getD 0))

def rbFlat (comps : List Comp) (gs : List (String × Strata)) : List ((String × Strata) × (Comp × Nat)) :=
  gs.flatMap (fun g => (members comps g).map (fun ci => (g, ci)))

theorem rbFold_eq_wfold (comps : List Comp) (strat : String) (props : List (String × α))
    (pop : List α) (gs : List (String × Strata)) :
    rbFold comps strat props pop gs
      = (rbFlat comps gs).foldl (wstep (rbWrite comps strat props pop)) pop := by
  unfold rbFlat rbFold
  rw [List.foldl_flatMap]
  congr 1
  funext out g
  rw [List.foldl_map]
  show List.foldl _ out (members comps g) = _
  congr 1
  funext out ci
  unfold wstep rbWrite
  cases alookup ci.1.strata strat <;> rfl

theorem mem_rbFlat (comps : List Comp) (gs : List (String × Strata)) (g : String × Strata)
    (c : Comp) (j : Nat) :
    (g, (c, j)) ∈ rbFlat comps gs ↔ g ∈ gs ∧ comps[j]? = some c ∧ memb g c = true := by
  simp only [rbFlat, members, List.mem_flatMap, List.mem_map, List.mem_filter,
    List.mem_zipIdx_iff_getElem?]
  constructor
  · rintro ⟨g', hg', ci, ⟨h1, h2⟩, h3⟩
    cases h3
    exact ⟨hg', h1, h2⟩
  · rintro ⟨h1, h2, h3⟩
    exact ⟨g, h1, (c, j), ⟨h2, h3⟩, rfl⟩

theorem rbWrite_eq_some (comps : List Comp) (strat : String) (props : List (String × α))
    (pop : List α) (g : String × Strata) (c : Comp) (j i : Nat) (v : α) :
    rbWrite comps strat props pop (g, (c, j)) = some (i, v) ↔
      ∃ k, alookup c.strata strat = some k ∧ j = i ∧ v = gtotal comps pop g * (alookup props k).getD 0 := by
  unfold rbWrite
  cases h : alookup c.strata strat with
  | none => simp
  | some k =>
    simp only [Option.map_some, Option.some.injEq, Prod.mk.injEq, exists_eq_left']
    constructor
    · rintro ⟨h1, h2⟩; exact ⟨h1, h2.symm⟩
    · rintro ⟨h1, h2⟩; exact ⟨h1, h2.symm⟩

/-- the hypotheses on the compartment list: strata keys are duplicate-free within a compartment and
compartments of the same name carry the same keys -/
structure CompsOK (comps : List Comp) : Prop where
  keysNodup : ∀ c ∈ comps, (c.strata.map (·.1)).Nodup
  keysUniform : ∀ c ∈ comps, ∀ d ∈ comps, c.name = d.name → c.strata.map (·.1) = d.strata.map (·.1)

omit [Mul α] in
theorem gtotal_eq_groupTotal {comps : List Comp} (hok : CompsOK comps) (strat : String)
    (pop : List α) (r c : Comp) (hr : r ∈ comps) (hrc : sameGroup strat r c = true) :
    gtotal comps pop (rbKey strat r) = groupTotal comps strat pop c := by
  unfold gtotal groupTotal members groupOf
  congr 2
  apply List.filter_congr
  intro dj hdj
  have hd : dj.1 ∈ comps := by
    have := List.mem_zipIdx_iff_getElem?.mp hdj
    exact List.mem_of_getElem? this
  rw [memb_key_eq_sameGroup strat r dj.1 (fun h => hok.keysUniform _ hd _ hr h) (hok.keysNodup _ hd),
    Bool.eq_iff_iff]
  exact ⟨fun h => sameGroup_trans (sameGroup_symm hrc) h, fun h => sameGroup_trans hrc h⟩

theorem affected_iff (comps : List Comp) (strat : String) (flt : Strata) (c : Comp) :
    affected comps strat flt c = true ↔
      ∃ r ∈ rbStratComps comps strat flt, sameGroup strat r c = true := by
  simp only [affected, List.any_eq_true, Bool.and_eq_true, mem_rbStratComps]
  constructor
  · rintro ⟨r, h1, ⟨h2, h3⟩, h4⟩; exact ⟨r, ⟨h1, h2, h3⟩, h4⟩
  · rintro ⟨r, ⟨h1, h2, h3⟩, h4⟩; exact ⟨r, h1, ⟨h2, h3⟩, h4⟩

theorem hasKey_of_sameGroup {comps : List Comp} (hok : CompsOK comps) (strat : String)
    (r c : Comp) (hr : r ∈ comps) (hc : c ∈ comps) (hrc : sameGroup strat r c = true)
    (hk : r.strata.any (fun kv => kv.1 == strat) = true) :
    c.strata.any (fun kv => kv.1 == strat) = true := by
  rw [any_key_iff] at hk ⊢
  rw [hok.keysUniform c hc r hr ((sameGroup_iff strat r c).mp hrc).1.symm]
  exact hk

theorem rbFold_affected {comps : List Comp} (hok : CompsOK comps) (strat : String) (flt : Strata)
    (props : List (String × α)) (pop : List α) (gs : List (String × Strata))
    (hgs : GroupsOK comps strat flt gs) (i : Nat) (hi : i < comps.length)
    (hlen : pop.length = comps.length) (haff : affected comps strat flt comps[i] = true) :
    ∃ k, alookup comps[i].strata strat = some k ∧
      (rbFold comps strat props pop gs).getD i 0
        = groupTotal comps strat pop comps[i] * (alookup props k).getD 0 := by
  have hc : comps[i] ∈ comps := List.getElem_mem hi
  obtain ⟨r, hr, hrc⟩ := (affected_iff comps strat flt comps[i]).mp haff
  obtain ⟨hr1, hr2, hr3⟩ := (mem_rbStratComps comps strat flt r).mp hr
  obtain ⟨k, hk⟩ := alookup_isSome_of_any _ strat (hasKey_of_sameGroup hok strat r _ hr1 hc hrc hr2)
  refine ⟨k, hk, ?_⟩
  rw [rbFold_eq_wfold]
  apply wfold_touched _ _ _ _ _ _ (by omega)
  · rintro ⟨g, c', j⟩ hb v' hv'
    obtain ⟨hg, hj, hm⟩ := (mem_rbFlat comps gs g c' j).mp hb
    obtain ⟨k', hk', hji, hv⟩ := (rbWrite_eq_some comps strat props pop g c' j i v').mp hv'
    subst hji
    have hcc : c' = comps[j] := by
      rw [List.getElem?_eq_getElem hi] at hj; exact (Option.some.inj hj).symm
    subst hcc
    rw [hk] at hk'; cases hk'
    obtain ⟨r', hr', hgr'⟩ := hgs.sound g hg
    subst hgr'
    have hr'1 := ((mem_rbStratComps comps strat flt r').mp hr').1
    rw [memb_key_eq_sameGroup strat r' _ (fun h => hok.keysUniform _ hc _ hr'1 h) (hok.keysNodup _ hc)] at hm
    rw [hv, gtotal_eq_groupTotal hok strat pop r' _ hr'1 hm]
  · right
    obtain ⟨g, hg, hge⟩ := hgs.complete r hr
    obtain ⟨r', hr', hgr'⟩ := hgs.sound g hg
    subst hgr'
    have hr'1 := ((mem_rbStratComps comps strat flt r').mp hr').1
    have h1 : sameGroup strat r' comps[i] = true := sameGroup_trans hge hrc
    refine ⟨(rbKey strat r', (comps[i], i)), ?_,
      gtotal comps pop (rbKey strat r') * (alookup props k).getD 0, ?_⟩
    · rw [mem_rbFlat]
      refine ⟨hg, List.getElem?_eq_getElem hi, ?_⟩
      rw [memb_key_eq_sameGroup strat r' _ (fun h => hok.keysUniform _ hc _ hr'1 h) (hok.keysNodup _ hc)]
      exact h1
    · rw [rbWrite_eq_some]
      exact ⟨k, hk, rfl, rfl⟩

theorem rbFold_unaffected {comps : List Comp} (hok : CompsOK comps) (strat : String) (flt : Strata)
    (props : List (String × α)) (pop : List α) (gs : List (String × Strata))
    (hgs : GroupsOK comps strat flt gs) (i : Nat) (hi : i < comps.length)
    (haff : affected comps strat flt comps[i] = false) :
    (rbFold comps strat props pop gs).getD i 0 = pop.getD i 0 := by
  have hc : comps[i] ∈ comps := List.getElem_mem hi
  rw [rbFold_eq_wfold]
  apply wfold_untouched
  rintro ⟨g, c', j⟩ hb v' hv'
  obtain ⟨hg, hj, hm⟩ := (mem_rbFlat comps gs g c' j).mp hb
  obtain ⟨k', hk', hji, hv⟩ := (rbWrite_eq_some comps strat props pop g c' j i v').mp hv'
  subst hji
  have hcc : c' = comps[j] := by
    rw [List.getElem?_eq_getElem hi] at hj; exact (Option.some.inj hj).symm
  subst hcc
  obtain ⟨r', hr', hgr'⟩ := hgs.sound g hg
  subst hgr'
  have hr'1 := ((mem_rbStratComps comps strat flt r').mp hr').1
  rw [memb_key_eq_sameGroup strat r' _ (fun h => hok.keysUniform _ hc _ hr'1 h) (hok.keysNodup _ hc)] at hm
  have : affected comps strat flt comps[j] = true := (affected_iff _ _ _ _).mpr ⟨r', hr', hm⟩
  rw [haff] at this; cases this

theorem length_rbFold (comps : List Comp) (strat : String) (props : List (String × α))
    (pop : List α) (gs : List (String × Strata)) :
    (rbFold comps strat props pop gs).length = pop.length := by
  rw [rbFold_eq_wfold, length_wfold]

/-- order independence: the result depends only on the set of groups -/
theorem rbFold_congr {comps : List Comp} (hok : CompsOK comps) (strat : String) (flt : Strata)
    (props : List (String × α)) (pop : List α) (gs gs' : List (String × Strata))
    (hgs : GroupsOK comps strat flt gs) (hm : ∀ g, g ∈ gs' ↔ g ∈ gs)
    (hlen : pop.length = comps.length) :
    rbFold comps strat props pop gs' = rbFold comps strat props pop gs := by
  have hgs' := GroupsOK_of_mem_iff hgs hm
  apply List.ext_getElem
  · rw [length_rbFold, length_rbFold]
  · intro i h1 h2
    have hi : i < comps.length := by rw [length_rbFold] at h1; omega
    have e1 : ∀ l : List α, ∀ h : i < l.length, l[i] = l.getD i 0 := by
      intro l h; simp [List.getD_eq_getElem?_getD, List.getElem?_eq_getElem h]
    rw [e1 _ h1, e1 _ h2]
    cases haff : affected comps strat flt comps[i] with
    | true =>
      obtain ⟨k, hk, e⟩ := rbFold_affected hok strat flt props pop gs hgs i hi hlen haff
      obtain ⟨k', hk', e'⟩ := rbFold_affected hok strat flt props pop gs' hgs' i hi hlen haff
      rw [hk] at hk'; cases hk'
      rw [e, e']
    | false =>
      rw [rbFold_unaffected hok strat flt props pop gs hgs i hi haff,
        rbFold_unaffected hok strat flt props pop gs' hgs' i hi haff]

end loop


theorem affected_eq_of_filter_free {comps : List Comp} (hok : CompsOK comps) (strat : String)
    (flt : Strata) (hflt : flt.all (fun kv => kv.1 != strat) = true) (c : Comp) (hc : c ∈ comps) :
    affected comps strat flt c
      = (c.strata.any (fun kv => kv.1 == strat) && c.hasStrata flt) := by
  rw [Bool.eq_iff_iff, affected_iff, Bool.and_eq_true]
  constructor
  · rintro ⟨r, hr, hrc⟩
    obtain ⟨hr1, hr2, hr3⟩ := (mem_rbStratComps comps strat flt r).mp hr
    refine ⟨hasKey_of_sameGroup hok strat r c hr1 hc hrc hr2, ?_⟩
    rw [Comp.hasStrata, strataContains_iff] at hr3 ⊢
    intro kv hkv
    have hk : kv.1 ≠ strat := by
      have := List.all_eq_true.mp hflt kv hkv
      simpa using this
    exact (((sameGroup_iff strat r c).mp hrc).2 kv hk).1 (hr3 kv hkv)
  · rintro ⟨h1, h2⟩
    exact ⟨c, (mem_rbStratComps comps strat flt c).mpr ⟨hc, h1, h2⟩, sameGroup_refl strat c⟩

/-! group totals -/
section gsum
variable {α : Type} [Field α]

theorem sumL_perm {l1 l2 : List α} (h : l1.Perm l2) : sumL l1 = sumL l2 := by
  induction h with
  | nil => rfl
  | cons x _ ih => simp [sumL, ih]
  | swap x y l => simp only [sumL]; ring
  | trans _ _ ih1 ih2 => exact ih1.trans ih2

theorem alookup_of_mem_nodup {γ : Type} (l : List (String × γ)) (h : (l.map (·.1)).Nodup)
    (kv : String × γ) (hkv : kv ∈ l) : alookup l kv.1 = some kv.2 := by
  induction l with
  | nil => cases hkv
  | cons x l ih =>
    obtain ⟨k', v'⟩ := x
    rw [alookup_cons]
    simp only [List.map_cons, List.nodup_cons, List.mem_map, not_exists, not_and] at h
    rcases List.mem_cons.mp hkv with rfl | hkv'
    · simp
    · have : ¬ k' = kv.1 := fun e => h.1 kv hkv' e.symm
      simp only [this, if_false]
      exact ih h.2 hkv'

theorem map_alookup_keys (props : List (String × α)) (h : (props.map (·.1)).Nodup) :
    (props.map (·.1)).map (fun k => (alookup props k).getD 0) = props.map (·.2) := by
  rw [List.map_map]
  apply List.map_congr_left
  intro kv hkv
  simp [alookup_of_mem_nodup props h kv hkv]

theorem groupTotal_congr (comps : List Comp) (strat : String) (pop : List α) (c d : Comp)
    (h : sameGroup strat c d = true) : groupTotal comps strat pop c = groupTotal comps strat pop d := by
  unfold groupTotal groupOf
  congr 2
  apply List.filter_congr
  intro dj _
  rw [Bool.eq_iff_iff]
  exact ⟨fun h' => sameGroup_trans (sameGroup_symm h) h', fun h' => sameGroup_trans h h'⟩

theorem rbFold_group_sum {comps : List Comp} (hok : CompsOK comps) (strat : String) (flt : Strata)
    (props : List (String × α)) (pop : List α) (gs : List (String × Strata))
    (hgs : GroupsOK comps strat flt gs) (c : Comp)
    (hlen : pop.length = comps.length) (haff : affected comps strat flt c = true) :
    sumL ((groupOf comps strat c).map (fun dj => (rbFold comps strat props pop gs).getD dj.2 0))
      = groupTotal comps strat pop c *
          sumL ((groupOf comps strat c).map
            (fun dj => (alookup props ((alookup dj.1.strata strat).getD "")).getD 0)) := by
  rw [← sumL_map_mul_left, List.map_map]
  congr 1
  apply List.map_congr_left
  intro dj hdj
  obtain ⟨h1, h2⟩ := List.mem_filter.mp hdj
  have hget := List.mem_zipIdx_iff_getElem?.mp h1
  obtain ⟨hi, hci⟩ := List.getElem?_eq_some_iff.mp hget
  have haff' : affected comps strat flt comps[dj.2] = true := by
    rw [hci]
    obtain ⟨r, hr, hrc⟩ := (affected_iff comps strat flt c).mp haff
    exact (affected_iff _ _ _ _).mpr ⟨r, hr, sameGroup_trans hrc h2⟩
  obtain ⟨k, hk, e⟩ := rbFold_affected hok strat flt props pop gs hgs dj.2 hi hlen haff'
  rw [hci] at hk e
  simp only [Function.comp, e, hk, Option.getD_some]
  rw [groupTotal_congr comps strat pop c dj.1 h2]

end gsum

end rebalance


/-! ### `initialPopulation` for a sequence of stratifications -/
section initpop
variable {α : Type} [Zero α] [One α] [Add α] [Sub α] [Mul α] [Div α] [LT α] [DecidableLT α]

/-- one build action of `calculate_initial_population` -/
def ipStep (m : Model α) (params : List (String × α)) (st : List Comp × List α) (a : BuildAction α) :
    Option (List Comp × List α) :=
  match a with
  | .stratify name => do
      let s ← m.strats.find? (fun s => s.name == name)
      let split ← evalDict params s.split
      let ix := stratIndexArrays st.1 s
      pure (stratifyComps st.1 s, stratifyValues ix s.strata split st.2)
  | .rebalance r => do
      let props ← evalDict params r.props
      pure (st.1, rebalance m.comps r.strat r.destFilter props st.2)

omit [One α] in
theorem initialPopulation_eq (m : Model α) (params : List (String × α))
    (dist : List (String × Expr α)) (dvals : List (String × α))
    (h1 : m.arrayPop = none) (h2 : m.initDist = some dist) (h3 : evalDict params dist = some dvals) :
    initialPopulation m params
      = (m.actions.foldlM (ipStep m params)
          (m.origNames.map (fun n => (⟨n, []⟩ : Comp)),
           m.origNames.map (fun n => (alookup dvals n).getD 0))).bind (fun r => some r.2) := by
  unfold initialPopulation
  rw [h1]
  simp only [h2, h3, Option.bind_eq_bind, Option.bind_some, Option.pure_def]
  rfl

/-- the stratify action with its lookups resolved -/
def pureStep (st : List Comp × List α) (s : Strat α × List (String × α)) : List Comp × List α :=
  (stratifyComps st.1 s.1, stratifyValues (stratIndexArrays st.1 s.1) s.1.strata s.2 st.2)

omit [One α] in
theorem ipFold_stratify (m : Model α) (params : List (String × α))
    (ss : List (Strat α × List (String × α)))
    (hfind : ∀ s ∈ ss, m.strats.find? (fun t => t.name == s.1.name) = some s.1 ∧
      evalDict params s.1.split = some s.2)
    (st : List Comp × List α) :
    (ss.map (fun s => BuildAction.stratify s.1.name)).foldlM (ipStep m params) st
      = some (ss.foldl pureStep st) := by
  induction ss generalizing st with
  | nil => rfl
  | cons s ss ih =>
    obtain ⟨h1, h2⟩ := hfind s (by simp)
    rw [List.map_cons, List.foldlM_cons, List.foldl_cons]
    have : ipStep m params st (BuildAction.stratify s.1.name) = some (pureStep st s) := by
      simp only [ipStep, h1, h2, Option.bind_eq_bind, Option.bind_some, Option.pure_def]
      rfl
    rw [this]
    exact ih (fun s' hs' => hfind s' (by simp [hs'])) _

theorem zip_map_map' {γ δ ε : Type} (l : List γ) (f : γ → δ) (g : γ → ε) :
    (l.map f).zip (l.map g) = l.map (fun x => (f x, g x)) := by
  induction l with
  | nil => rfl
  | cons x l ih => simp [ih]

omit [One α] [Add α] [Sub α] [Div α] [LT α] [DecidableLT α] in
theorem zip_stratify {β : Type} (comps : List Comp) (s : Strat β) (split : List (String × α))
    (vals : List α) (hv : vals.length = comps.length) :
    (stratifyComps comps s).zip (stratifySpec comps s.comps s.strata split vals)
      = (comps.zip vals).flatMap (fun cv =>
          if cv.1.hasNameIn s.comps then
            s.strata.map (fun st => (cv.1.stratify s.name st, cv.2 * (alookup split st).getD 0))
          else [cv]) := by
  induction comps generalizing vals with
  | nil => simp [stratifyComps, stratifySpec]
  | cons c comps ih =>
    cases vals with
    | nil => simp at hv
    | cons v vals =>
      have h := ih vals (by simpa using hv)
      simp only [stratifyComps, stratifySpec, List.zip_cons_cons, List.flatMap_cons] at h ⊢
      rw [List.zip_append (by by_cases hc : c.hasNameIn s.comps <;> simp [hc]), h]
      congr 1
      by_cases hc : c.hasNameIn s.comps
      · simp only [hc, if_true, zip_map_map']
      · simp [hc]


omit [One α] [Add α] [Sub α] [Div α] [LT α] [DecidableLT α] in
theorem pureFold_spec (ss : List (Strat α × List (String × α)))
    (hnd : ∀ s ∈ ss, s.1.strata.Nodup) (comps : List Comp) (vals : List α)
    (hlen : vals.length = comps.length) :
    (ss.foldl pureStep (comps, vals)).1 = ss.foldl (fun cs s => stratifyComps cs s.1) comps ∧
    (ss.foldl pureStep (comps, vals)).2.length = (ss.foldl pureStep (comps, vals)).1.length ∧
    (ss.foldl pureStep (comps, vals)).1.zip (ss.foldl pureStep (comps, vals)).2
      = initSpec ss (comps.zip vals) := by
  induction ss generalizing comps vals with
  | nil => exact ⟨rfl, hlen, rfl⟩
  | cons s ss ih =>
    have hm := (Inv_stratIndexArrays s.1 (hnd s (by simp)) s.2 comps).main vals hlen
    have hl : (stratifyValues (stratIndexArrays comps s.1) s.1.strata s.2 vals).length
        = (stratifyComps comps s.1).length := by
      rw [hm]; exact length_stratifySpec comps s.1 s.2 vals hlen
    obtain ⟨h1, h2, h3⟩ := ih (fun s' hs' => hnd s' (by simp [hs'])) (stratifyComps comps s.1)
      (stratifyValues (stratIndexArrays comps s.1) s.1.strata s.2 vals) hl
    simp only [List.foldl_cons]
    refine ⟨h1, h2, ?_⟩
    show (ss.foldl pureStep (pureStep (comps, vals) s)).1.zip _ = _
    simp only [pureStep]
    rw [h3, hm, zip_stratify comps s.1 s.2 vals hlen]
    rfl

omit [One α] [Add α] [Sub α] [Div α] [LT α] [DecidableLT α] in
/-- every entry of the specification is of product form -/
theorem initSpec_product {β : Type} (ss : List (Strat β × List (String × α)))
    (cvs : List (Comp × α)) (cv : Comp × α) (h : cv ∈ initSpec ss cvs) :
    ∃ cv0 ∈ cvs, ∃ path : List String, path.length = ss.length ∧
      cv.1 = pathComp cv0.1 ss path ∧ cv.2 = pathValue cv0.1 cv0.2 ss path := by
  induction ss generalizing cvs with
  | nil => exact ⟨cv, h, [], rfl, rfl, rfl⟩
  | cons s ss ih =>
    obtain ⟨cv1, hcv1, path, hp, e1, e2⟩ := ih (initSpecStep s.1 s.2 cvs) h
    obtain ⟨cv0, hcv0, hch⟩ := List.mem_flatMap.mp hcv1
    refine ⟨cv0, hcv0, ?_⟩
    by_cases hc : cv0.1.hasNameIn s.1.comps
    · simp only [hc, if_true, List.mem_map] at hch
      obtain ⟨st, _, rfl⟩ := hch
      exact ⟨st :: path, by simp [hp], by simp [pathComp, hc, e1], by simp [pathValue, hc, e2]⟩
    · simp only [hc, Bool.false_eq_true, if_false, List.mem_singleton] at hch
      subst hch
      exact ⟨"" :: path, by simp [hp], by simp [pathComp, hc, e1], by simp [pathValue, hc, e2]⟩

end initpop

end Summer.Proofs.InitPop
