import Mathlib.Tactic.Ring
import Mathlib.Tactic.FieldSimp
import Mathlib.Tactic.NormNum
import Mathlib.Tactic.Linarith
import Mathlib.Algebra.Order.Field.Basic
import Mathlib.Algebra.Field.Rat
import Summer.Model.Solvers
import Summer.Spec.Solvers
/-
Helper lemmas for the solver properties (C07, C02 along trajectories, C12 grid).
-/
namespace Summer.Proofs.Solvers
open Summer Summer.Solvers Summer.Spec.Solvers

/-! ### vectors -/
section vec
variable {α : Type}

@[simp] theorem length_vadd [Add α] (a b : List α) : (vadd a b).length = min a.length b.length := by
  simp [vadd]
@[simp] theorem length_vscale [Mul α] (c : α) (a : List α) : (vscale c a).length = a.length := by
  simp [vscale]
@[simp] theorem getElem_vadd [Add α] (a b : List α) (i : Nat) (h : i < (vadd a b).length) :
    (vadd a b)[i] = a[i]'(by simp at h; omega) + b[i]'(by simp at h; omega) := by
  simp [vadd]
@[simp] theorem getElem_vscale [Mul α] (c : α) (a : List α) (i : Nat) (h : i < (vscale c a).length) :
    (vscale c a)[i] = c * a[i]'(by simpa using h) := by
  simp [vscale]

theorem two_eq [Field α] : (two : α) = 2 := by simp [two]; norm_num
theorem six_eq [Field α] : (six : α) = 6 := by simp [six, two, three]; norm_num

variable [Field α]

theorem vscale_vadd (c : α) (a b : List α) : vscale c (vadd a b) = vadd (vscale c a) (vscale c b) := by
  induction a generalizing b with
  | nil => simp [vadd, vscale]
  | cons x xs ih =>
    cases b with
    | nil => simp [vadd, vscale]
    | cons y ys =>
      have := ih ys
      simp only [vadd, vscale, List.zipWith_cons_cons, List.map_cons] at this ⊢
      rw [this, mul_add]

theorem vscale_vscale (c d : α) (a : List α) : vscale c (vscale d a) = vscale (c * d) a := by
  simp [vscale, mul_assoc]

theorem map_div_vscale (c d : α) (a : List α) : (vscale c a).map (· / d) = vscale (c / d) a := by
  simp [vscale]; intro x _; ring

end vec

/-! ### the `foldl`-with-accumulated-rows idiom -/
section scan
variable {σ τ β : Type}

/-- rows produced by a scan: `out` is emitted from the *updated* state -/
def scanOut (nxt : σ → τ → σ) (out : σ → τ → β) : σ → List τ → List β
  | _, [] => []
  | s, t :: ts => out (nxt s t) t :: scanOut nxt out (nxt s t) ts

theorem foldl_rows (nxt : σ → τ → σ) (out : σ → τ → β) (l : List τ) (pre : List β) (s : σ) :
    l.foldl (fun (acc : List β × σ) t => (acc.1 ++ [out (nxt acc.2 t) t], nxt acc.2 t)) (pre, s)
      = (pre ++ scanOut nxt out s l, l.foldl nxt s) := by
  induction l generalizing pre s with
  | nil => simp [scanOut]
  | cons t ts ih => simp [scanOut, ih]

@[simp] theorem length_scanOut (nxt : σ → τ → σ) (out : σ → τ → β) (s : σ) (l : List τ) :
    (scanOut nxt out s l).length = l.length := by
  induction l generalizing s with
  | nil => rfl
  | cons t ts ih => simp [scanOut, ih]

theorem scanOut_forall (nxt : σ → τ → σ) (out : σ → τ → β) (Inv : σ → Prop) (P : β → Prop)
    (hn : ∀ s t, Inv s → Inv (nxt s t)) (ho : ∀ s t, Inv s → P (out s t)) :
    ∀ (l : List τ) (s : σ), Inv s → ∀ r ∈ scanOut nxt out s l, P r := by
  intro l
  induction l with
  | nil => intro s _ r hr; simp [scanOut] at hr
  | cons t ts ih =>
    intro s hs r hr
    simp only [scanOut, List.mem_cons] at hr
    rcases hr with rfl | hr
    · exact ho _ _ (hn _ _ hs)
    · exact ih _ (hn _ _ hs) r hr

theorem scanOut_self_eq_scanl (g : σ → τ → σ) (s : σ) (l : List τ) :
    s :: scanOut g (fun s' _ => s') s l = List.scanl g s l := by
  induction l generalizing s with
  | nil => simp [scanOut]
  | cons t ts ih => simp [scanOut, ih]

end scan

section solvers
variable {α : Type} [Field α]

theorem euler_eq_scanl (f : List α → α → List α) (y0 : List α) (times : List α) :
    euler f y0 times
      = List.scanl (eulerStep f (times.getD 1 0 - times.getD 0 0)) y0 (times.take (times.length - 1)) := by
  unfold euler
  simp only []
  rw [foldl_rows (fun y t => eulerStep f (times.getD 1 0 - times.getD 0 0) y t) (fun s' _ => s')]
  exact scanOut_self_eq_scanl _ _ _

theorem rk4_eq_scanl (f : List α → α → List α) (y0 : List α) (times : List α) :
    rk4 f y0 times
      = List.scanl (rk4Step f (times.getD 1 0 - times.getD 0 0)) y0 (times.take (times.length - 1)) := by
  unfold rk4
  simp only []
  rw [foldl_rows (fun y t => rk4Step f (times.getD 1 0 - times.getD 0 0) y t) (fun s' _ => s')]
  exact scanOut_self_eq_scanl _ _ _


theorem rk4Step_classical (f : List α → α → List α) (h : α) (y : List α) (t : α) :
    rk4Step f h y t =
      (let K1 := f y t
       let K2 := f (vadd y (vscale (h / 2) K1)) (t + h / 2)
       let K3 := f (vadd y (vscale (h / 2) K2)) (t + h / 2)
       let K4 := f (vadd y (vscale h K3)) (t + h)
       vadd y (vscale (h / 6) (vadd (vadd (vadd K1 (vscale 2 K2)) (vscale 2 K3)) K4))) := by
  simp only [rk4Step, map_div_vscale, two_eq, six_eq]
  congr 1
  rw [vscale_vscale, vscale_vscale, mul_comm (2:α) h, ← vscale_vscale h 2, ← vscale_vscale h 2,
    ← vscale_vadd, ← vscale_vadd, ← vscale_vadd, vscale_vscale]
  congr 1
  ring

theorem eulerStep_linear (f : List α → α → List α) (lam h y t : α) (hf : ∀ y t, f [y] t = [lam * y]) :
    eulerStep f h [y] t = [(1 + h * lam) * y] := by
  simp [eulerStep, hf, vadd, vscale]; ring

theorem rk4Step_linear [CharZero α] (f : List α → α → List α) (lam h y t : α) (hf : ∀ y t, f [y] t = [lam * y]) :
    rk4Step f h [y] t = [(1 + h * lam + (h*lam)^2 / 2 + (h*lam)^3/6 + (h*lam)^4/24) * y] := by
  simp [rk4Step, hf, vadd, vscale, two_eq, six_eq]; ring
end solvers

section linear
variable {α : Type} [Field α]

theorem vscale_zero_eq (a : List α) : vscale 0 a = List.replicate a.length 0 := by
  induction a with
  | nil => rfl
  | cons x xs ih => simp only [vscale, List.map_cons] at ih ⊢; simp [List.replicate_succ]

theorem linOn_zero {n : Nat} {L : List α → α} (hL : LinOn n L) : L (List.replicate n 0) = 0 := by
  have h := hL.smul 0 (List.replicate n 0) (by simp)
  rw [vscale_zero_eq] at h
  simpa using h

theorem dot_vadd (w a b : List α) (h : a.length = b.length) :
    dot w (vadd a b) = dot w a + dot w b := by
  induction w generalizing a b with
  | nil => simp [dot, vmul, sumL]
  | cons x xs ih =>
    cases a with
    | nil => cases b with
      | nil => simp [dot, vmul, vadd, sumL]
      | cons _ _ => simp at h
    | cons y ys => cases b with
      | nil => simp at h
      | cons z zs =>
        have := ih ys zs (by simpa using h)
        simp only [dot, vmul, vadd, List.zipWith_cons_cons, sumL] at this ⊢
        rw [this]; ring

theorem dot_vscale (w : List α) (c : α) (a : List α) : dot w (vscale c a) = c * dot w a := by
  induction w generalizing a with
  | nil => simp [dot, vmul, sumL]
  | cons x xs ih =>
    cases a with
    | nil => simp [dot, vmul, vscale, sumL]
    | cons y ys =>
      have := ih ys
      simp only [dot, vmul, vscale, List.map_cons, List.zipWith_cons_cons, sumL] at this ⊢
      rw [this]; ring

theorem linOn_dot (w : List α) (n : Nat) : LinOn n (dot w) :=
  ⟨fun a b ha hb => dot_vadd w a b (ha.trans hb.symm), fun c a _ => dot_vscale w c a⟩

theorem sumL_vadd (a b : List α) (h : a.length = b.length) : sumL (vadd a b) = sumL a + sumL b := by
  induction a generalizing b with
  | nil => cases b with
    | nil => simp [vadd, sumL]
    | cons _ _ => simp at h
  | cons y ys ih => cases b with
    | nil => simp at h
    | cons z zs =>
      have := ih zs (by simpa using h)
      simp only [vadd, List.zipWith_cons_cons, sumL] at this ⊢
      rw [this]; ring

theorem sumL_vscale (c : α) (a : List α) : sumL (vscale c a) = c * sumL a := by
  induction a with
  | nil => simp [vscale, sumL]
  | cons y ys ih => simp only [vscale, List.map_cons, sumL] at ih ⊢; rw [ih]; ring

theorem linOn_sumL (n : Nat) : LinOn n (sumL : List α → α) :=
  ⟨fun a b ha hb => sumL_vadd a b (ha.trans hb.symm), fun c a _ => sumL_vscale c a⟩

/-! ### lincomb -/

theorem lincomb_foldl_length (n : Nat) (zs : List (α × List α)) (acc : List α)
    (hacc : acc.length = n) (hk : ∀ z ∈ zs, z.2.length = n) :
    (zs.foldl (fun acc ck => vadd acc (vscale ck.1 ck.2)) acc).length = n := by
  induction zs generalizing acc with
  | nil => simpa using hacc
  | cons z zs ih =>
    simp only [List.foldl_cons]
    apply ih
    · simp [hacc, hk z (by simp)]
    · intro z' hz'; exact hk z' (by simp [hz'])

omit [Field α] in
theorem mem_zip_snd {c : List α} {k : List (List α)} {z : α × List α} (hz : z ∈ c.zip k) : z.2 ∈ k :=
  (List.of_mem_zip hz).2

theorem length_lincomb (n : Nat) (c : List α) (k : List (List α)) (hk : ∀ v ∈ k, v.length = n) :
    (lincomb n c k).length = n := by
  unfold lincomb
  apply lincomb_foldl_length n _ _ (by simp)
  intro z hz; exact hk _ (mem_zip_snd hz)

theorem L_lincomb_foldl {n : Nat} {L : List α → α} (hL : LinOn n L) (zs : List (α × List α)) (acc : List α)
    (hacc : acc.length = n) (hk : ∀ z ∈ zs, z.2.length = n) :
    L (zs.foldl (fun acc ck => vadd acc (vscale ck.1 ck.2)) acc)
      = L acc + sumL (zs.map (fun ck => ck.1 * L ck.2)) := by
  induction zs generalizing acc with
  | nil => simp [sumL]
  | cons z zs ih =>
    simp only [List.foldl_cons, List.map_cons, sumL]
    have hz := hk z (by simp)
    rw [ih _ (by simp [hacc, hz]) (fun z' hz' => hk z' (by simp [hz'])),
      hL.add _ _ hacc (by simp [hz]), hL.smul _ _ hz]
    ring

/-- `L` of a linear combination is the linear combination of the `L`s. -/
theorem L_lincomb {n : Nat} {L : List α → α} (hL : LinOn n L) (c : List α) (k : List (List α))
    (hk : ∀ v ∈ k, v.length = n) :
    L (lincomb n c k) = sumL ((c.zip k).map (fun ck => ck.1 * L ck.2)) := by
  unfold lincomb
  rw [L_lincomb_foldl hL _ _ (by simp) (fun z hz => hk _ (mem_zip_snd hz)), linOn_zero hL, zero_add]

theorem L_lincomb_zero {n : Nat} {L : List α → α} (hL : LinOn n L) (c : List α) (k : List (List α))
    (hk : ∀ v ∈ k, v.length = n ∧ L v = 0) : L (lincomb n c k) = 0 := by
  rw [L_lincomb hL c k (fun v hv => (hk v hv).1)]
  have : ∀ zs : List (α × List α), (∀ z ∈ zs, L z.2 = 0) → sumL (zs.map (fun ck => ck.1 * L ck.2)) = 0 := by
    intro zs
    induction zs with
    | nil => intro _; rfl
    | cons z zs ih =>
      intro h
      simp only [List.map_cons, sumL]
      rw [h z (by simp), ih (fun z' hz' => h z' (by simp [hz']))]; simp
  exact this _ (fun z hz => (hk _ (mem_zip_snd hz)).2)


/-- the stage list built by `rkStep` -/
def rkStages (tb : Tableau α) (f : List α → α → List α) (y0 f0 : List α) (t0 dt : α) : List (List α) :=
  (List.range 6).foldl (fun (k : List (List α)) i =>
    k ++ [f (vadd y0 (vscale dt (lincomb y0.length (tb.beta.getD i []) k))) (t0 + dt * tb.alpha.getD i 0)]) [f0]

theorem rkStep_eq (tb : Tableau α) (f : List α → α → List α) (y0 f0 : List α) (t0 dt : α) :
    rkStep tb f y0 f0 t0 dt =
      (vadd (vscale dt (lincomb y0.length tb.cSol (rkStages tb f y0 f0 t0 dt))) y0,
       (rkStages tb f y0 f0 t0 dt).getD 6 [],
       vscale dt (lincomb y0.length tb.cError (rkStages tb f y0 f0 t0 dt)),
       rkStages tb f y0 f0 t0 dt) := rfl

theorem rkStages_foldl_inv {n : Nat} {L : List α → α} (tb : Tableau α)
    {f : List α → α → List α} (hf : FieldOK n L f) (y0 : List α) (hy0 : y0.length = n) (t0 dt : α)
    (is : List Nat) (k0 : List (List α)) (hk0 : ∀ v ∈ k0, v.length = n ∧ L v = 0) :
    let k := is.foldl (fun (k : List (List α)) i =>
      k ++ [f (vadd y0 (vscale dt (lincomb y0.length (tb.beta.getD i []) k))) (t0 + dt * tb.alpha.getD i 0)]) k0
    (∀ v ∈ k, v.length = n ∧ L v = 0) ∧ k.length = k0.length + is.length := by
  induction is generalizing k0 with
  | nil => simpa using hk0
  | cons i is ih =>
    simp only [List.foldl_cons, List.length_cons]
    have := ih (k0 ++ [f (vadd y0 (vscale dt (lincomb y0.length (tb.beta.getD i []) k0))) (t0 + dt * tb.alpha.getD i 0)])
      (by
        intro v hv
        rcases List.mem_append.mp hv with hv | hv
        · exact hk0 v hv
        · simp only [List.mem_singleton] at hv
          subst hv
          apply hf
          rw [hy0]
          simp [hy0, length_lincomb n _ k0 (fun v hv => (hk0 v hv).1)])
    simp only [List.length_append, List.length_singleton] at this
    refine ⟨this.1, ?_⟩
    rw [this.2]; omega

theorem rkStages_inv {n : Nat} {L : List α → α} (tb : Tableau α)
    {f : List α → α → List α} (hf : FieldOK n L f) (y0 f0 : List α) (hy0 : y0.length = n)
    (hf0 : f0.length = n ∧ L f0 = 0) (t0 dt : α) :
    (∀ v ∈ rkStages tb f y0 f0 t0 dt, v.length = n ∧ L v = 0) ∧ (rkStages tb f y0 f0 t0 dt).length = 7 := by
  have := rkStages_foldl_inv tb hf y0 hy0 t0 dt (List.range 6) [f0] (by simpa using hf0)
  simpa [rkStages] using this

/-- One Dormand–Prince step conserves every linear invariant of the field, for every `dt` and every
tableau: `L y1 = L y0`, `L f1 = 0`, `L err = 0`, and all lengths are `n`. -/
theorem rkStep_linear {n : Nat} {L : List α → α} (hL : LinOn n L) (tb : Tableau α)
    {f : List α → α → List α} (hf : FieldOK n L f) (y0 f0 : List α) (hy0 : y0.length = n)
    (hf0 : f0.length = n ∧ L f0 = 0) (t0 dt : α) :
    let r := rkStep tb f y0 f0 t0 dt
    (r.1.length = n ∧ L r.1 = L y0) ∧ (r.2.1.length = n ∧ L r.2.1 = 0) ∧
    (r.2.2.1.length = n ∧ L r.2.2.1 = 0) ∧ (∀ v ∈ r.2.2.2, v.length = n ∧ L v = 0) ∧ r.2.2.2.length = 7 := by
  obtain ⟨hk, hlen⟩ := rkStages_inv tb hf y0 f0 hy0 hf0 t0 dt
  have hkl : ∀ v ∈ rkStages tb f y0 f0 t0 dt, v.length = n := fun v hv => (hk v hv).1
  simp only [rkStep_eq]
  refine ⟨⟨?_, ?_⟩, ?_, ⟨?_, ?_⟩, hk, hlen⟩
  · simp [hy0, length_lincomb n _ _ hkl]
  · rw [hL.add _ _ (by simp [hy0, length_lincomb n _ _ hkl]) hy0, hL.smul _ _ (by simp [hy0, length_lincomb n _ _ hkl]),
      hy0, L_lincomb_zero hL _ _ hk]; simp
  · apply hk
    have h6 : 6 < (rkStages tb f y0 f0 t0 dt).length := by omega
    rw [List.getD_eq_getElem?_getD, List.getElem?_eq_getElem h6]
    exact List.getElem_mem _
  · simp [hy0, length_lincomb n _ _ hkl]
  · rw [hL.smul _ _ (by simp [hy0, length_lincomb n _ _ hkl]), hy0, L_lincomb_zero hL _ _ hk]; simp


theorem L_polyval_cons {n : Nat} {L : List α → α} (hL : LinOn n L) (θ : α) (cs : List (List α)) (c : List α)
    (hc : c.length = n) (hcs : ∀ v ∈ cs, v.length = n) :
    (polyval (c :: cs) θ).length = n ∧ L (polyval (c :: cs) θ) = horner ((c :: cs).map L) θ := by
  simp only [polyval, horner, List.map_cons]
  induction cs generalizing c with
  | nil => simpa using hc
  | cons d ds ih =>
    simp only [List.foldl_cons, List.map_cons]
    have hd := hcs d (by simp)
    have h1 : (vadd (vscale θ c) d).length = n := by simp [hc, hd]
    have := ih (vadd (vscale θ c) d) h1 (fun v hv => hcs v (by simp [hv]))
    rw [hL.add _ _ (by simp [hc]) hd, hL.smul _ _ hc] at this
    exact this

theorem fitColSums_cases {rows : List (List α)} (h : FitColSums rows) :
    ∃ a0 a1 a2 a3 a4 b0 b1 b2 b3 b4 c0 c1 c2 c3 c4 d0 d1 d2 d3 d4 e0 e1 e2 e3 e4 : α,
      rows = [[a0,a1,a2,a3,a4],[b0,b1,b2,b3,b4],[c0,c1,c2,c3,c4],[d0,d1,d2,d3,d4],[e0,e1,e2,e3,e4]] ∧
      a2 + a3 + a4 = 0 ∧ b2 + b3 + b4 = 0 ∧ c2 + c3 + c4 = 0 ∧ d2 + d3 + d4 = 0 ∧ e2 + e3 + e4 = 1 := by
  obtain ⟨h1, h2⟩ := h
  match rows, h1, h2 with
  | [[a0,a1,a2,a3,a4],[b0,b1,b2,b3,b4],[c0,c1,c2,c3,c4],[d0,d1,d2,d3,d4],[e0,e1,e2,e3,e4]], _, h2 =>
    simp at h2
    exact ⟨a0,a1,a2,a3,a4,b0,b1,b2,b3,b4,c0,c1,c2,c3,c4,d0,d1,d2,d3,d4,e0,e1,e2,e3,e4, rfl, h2⟩

theorem L_lincomb5 {n : Nat} {L : List α → α} (hL : LinOn n L) (r0 r1 r2 r3 r4 : α) (v0 v1 v2 v3 v4 : List α)
    (h0 : v0.length = n) (h1 : v1.length = n) (h2 : v2.length = n) (h3 : v3.length = n) (h4 : v4.length = n) :
    (lincomb n [r0,r1,r2,r3,r4] [v0,v1,v2,v3,v4]).length = n ∧
    L (lincomb n [r0,r1,r2,r3,r4] [v0,v1,v2,v3,v4]) = r0 * L v0 + r1 * L v1 + r2 * L v2 + r3 * L v3 + r4 * L v4 := by
  have hk : ∀ v ∈ [v0,v1,v2,v3,v4], v.length = n := by
    intro v hv; simp at hv; rcases hv with rfl|rfl|rfl|rfl|rfl <;> assumption
  refine ⟨length_lincomb n _ _ hk, ?_⟩
  rw [L_lincomb hL _ _ hk]
  simp [sumL]; ring

theorem L_polyval_map {n : Nat} {L : List α → α} (hL : LinOn n L) (θ : α) {β : Type} (rows : List β)
    (g : β → List α) (hne : rows ≠ []) (hg : ∀ r ∈ rows, (g r).length = n) :
    (polyval (rows.map g) θ).length = n ∧ L (polyval (rows.map g) θ) = horner (rows.map (fun r => L (g r))) θ := by
  cases rows with
  | nil => exact absurd rfl hne
  | cons r rs =>
    have := L_polyval_cons hL θ (rs.map g) (g r) (hg r (by simp))
      (by intro v hv; obtain ⟨r', hr', rfl⟩ := List.mem_map.mp hv; exact hg r' (by simp [hr']))
    simpa [List.map_map, Function.comp_def] using this

/-- Dense output conserves linear invariants for EVERY `θ`: only the column sums of the fit rows are used. -/
theorem interpFit_linear {n : Nat} {L : List α → α} (hL : LinOn n L) (tb : Tableau α)
    (hfit : FitColSums tb.fitRows) (y0 y1 : List α) (k : List (List α)) (dt m : α)
    (hy0 : y0.length = n) (hy1 : y1.length = n) (hLy0 : L y0 = m) (hLy1 : L y1 = m)
    (hk : ∀ v ∈ k, v.length = n ∧ L v = 0) (hklen : k.length = 7) (θ : α) :
    (polyval (interpFit tb y0 y1 k dt) θ).length = n ∧ L (polyval (interpFit tb y0 y1 k dt) θ) = m := by
  subst hy0
  obtain ⟨a0,a1,a2,a3,a4,b0,b1,b2,b3,b4,c0,c1,c2,c3,c4,d0,d1,d2,d3,d4,e0,e1,e2,e3,e4, hrows, ha, hb, hc, hd, he⟩ :=
    fitColSums_cases hfit
  have hkl : ∀ v ∈ k, v.length = y0.length := fun v hv => (hk v hv).1
  have h0 : 0 < k.length := by omega
  have h6 : 6 < k.length := by omega
  have hk0 := hk _ (List.getElem_mem h0)
  have hk6 := hk _ (List.getElem_mem h6)
  have e0' : k.getD 0 [] = k[0] := by rw [List.getD_eq_getElem?_getD, List.getElem?_eq_getElem h0]; rfl
  have e6' : k.getD 6 [] = k[6] := by rw [List.getD_eq_getElem?_getD, List.getElem?_eq_getElem h6]; rfl
  have hmidlen : (vadd y0 (vscale dt (lincomb y0.length tb.cMid k))).length = y0.length := by
    simp [length_lincomb _ _ _ hkl]
  have hmid : L (vadd y0 (vscale dt (lincomb y0.length tb.cMid k))) = m := by
    rw [hL.add _ _ rfl (by simp [length_lincomb _ _ _ hkl]), hL.smul _ _ (by simp [length_lincomb _ _ _ hkl]),
      L_lincomb_zero hL _ _ hk, hLy0]; simp
  have hdy0len : (vscale dt (k.getD 0 [])).length = y0.length := by rw [e0']; simp [hk0.1]
  have hdy1len : (vscale dt (k.getD 6 [])).length = y0.length := by rw [e6']; simp [hk6.1]
  have hdy0 : L (vscale dt (k.getD 0 [])) = 0 := by rw [e0', hL.smul _ _ hk0.1, hk0.2]; simp
  have hdy1 : L (vscale dt (k.getD 6 [])) = 0 := by rw [e6', hL.smul _ _ hk6.1, hk6.2]; simp
  have key : ∀ r0 r1 r2 r3 r4 : α,
      (lincomb y0.length [r0,r1,r2,r3,r4] [vscale dt (k.getD 0 []), vscale dt (k.getD 6 []), y0, y1,
          vadd y0 (vscale dt (lincomb y0.length tb.cMid k))]).length = y0.length ∧
      L (lincomb y0.length [r0,r1,r2,r3,r4] [vscale dt (k.getD 0 []), vscale dt (k.getD 6 []), y0, y1,
          vadd y0 (vscale dt (lincomb y0.length tb.cMid k))]) = (r2 + r3 + r4) * m := by
    intro r0 r1 r2 r3 r4
    obtain ⟨hl, hv⟩ := L_lincomb5 hL r0 r1 r2 r3 r4 _ _ _ _ _ hdy0len hdy1len rfl hy1 hmidlen
    refine ⟨hl, ?_⟩
    rw [hv, hdy0, hdy1, hLy0, hLy1, hmid]; ring
  unfold interpFit
  simp only []
  obtain ⟨hl, hv⟩ := L_polyval_map hL θ tb.fitRows (fun row => lincomb y0.length row [vscale dt (k.getD 0 []),
      vscale dt (k.getD 6 []), y0, y1, vadd y0 (vscale dt (lincomb y0.length tb.cMid k))]) (by simp [hrows]) (by
    intro r hr
    rw [hrows] at hr
    simp only [List.mem_cons, List.not_mem_nil, or_false] at hr
    rcases hr with rfl|rfl|rfl|rfl|rfl <;> exact (key _ _ _ _ _).1)
  refine ⟨hl, ?_⟩
  rw [hv, hrows]
  simp only [List.map_cons, List.map_nil, (key _ _ _ _ _).2, ha, hb, hc, hd, he, horner, List.foldl_cons, List.foldl_nil]
  ring

theorem advance_zero (tb : Tableau α) (ctl : Control α) (f : List α → α → List α) (target : α) (s : OdeState α) :
    advance tb ctl f target 0 s = s := rfl

theorem advance_succ (tb : Tableau α) (ctl : Control α) (f : List α → α → List α) (target : α) (fuel : Nat)
    (s : OdeState α) :
    advance tb ctl f target (fuel + 1) s =
      if contCond ctl target s then advance tb ctl f target fuel (stepState tb ctl f s) else s := rfl

theorem odeint_eq (tb : Tableau α) (ctl : Control α) (f : List α → α → List α) (fuel : Nat) (dt0 : α)
    (y0 : List α) (ts : List α) :
    odeint tb ctl f fuel dt0 y0 ts =
      y0 :: scanOut (fun s target => advance tb ctl f target fuel s)
        (fun s target => polyval s.coeff ((target - s.lastT) / (s.t - s.lastT)))
        { y := y0, f := f y0 (ts.getD 0 0), t := ts.getD 0 0, dt := dt0, lastT := ts.getD 0 0,
          coeff := List.replicate 5 y0 } (ts.drop 1) := by
  unfold odeint
  simp only []
  rw [foldl_rows (fun s target => advance tb ctl f target fuel s)
        (fun s target => polyval s.coeff ((target - s.lastT) / (s.t - s.lastT)))]
  rfl

theorem vadd_vscale_zero (a b : List α) (h : a.length = b.length) : vadd (vscale 0 a) b = b := by
  apply List.ext_getElem
  · simp [h]
  · intro i h1 h2; simp

theorem polyval_replicate_zero (y : List α) (j : Nat) : polyval (List.replicate (j + 1) y) 0 = y := by
  simp only [polyval, List.replicate_succ]
  have : ∀ (l : List (List α)) (acc : List α), acc.length = y.length → (∀ v ∈ l, v = y) → l ≠ [] →
      l.foldl (fun acc c' => vadd (vscale 0 acc) c') acc = y := by
    intro l
    induction l with
    | nil => intro _ _ _ h; exact absurd rfl h
    | cons c cs ih =>
      intro acc hacc hl _
      have hc := hl c (by simp)
      subst hc
      simp only [List.foldl_cons]
      rw [vadd_vscale_zero _ _ hacc]
      cases cs with
      | nil => rfl
      | cons d ds => exact ih c rfl (fun v hv => hl v (by simp [hv])) (by simp)
  cases j with
  | zero => rfl
  | succ j => exact this _ _ rfl (by intro v hv; exact (List.mem_replicate.mp hv).2) (by simp [List.replicate_succ])

/-- the loop invariant of `odeint` for a linear invariant `L` with value `m` -/
def OdeInv (n : Nat) (L : List α → α) (m : α) (s : OdeState α) : Prop :=
  s.y.length = n ∧ L s.y = m ∧ s.f.length = n ∧ L s.f = 0 ∧
  ∀ target : α, (polyval s.coeff ((target - s.lastT) / (s.t - s.lastT))).length = n ∧
    L (polyval s.coeff ((target - s.lastT) / (s.t - s.lastT))) = m

theorem stepState_inv {n : Nat} {L : List α → α} (hL : LinOn n L) (tb : Tableau α) (hfit : FitColSums tb.fitRows)
    (ctl : Control α) {f : List α → α → List α} (hf : FieldOK n L f) (m : α) (s : OdeState α)
    (hs : OdeInv n L m s) : OdeInv n L m (stepState tb ctl f s) := by
  obtain ⟨hy, hLy, hfl, hLf, hrow⟩ := hs
  obtain ⟨⟨h1l, h1L⟩, ⟨hf1l, hf1L⟩, _, hk, hklen⟩ := rkStep_linear hL tb hf s.y s.f hy ⟨hfl, hLf⟩ s.t s.dt
  unfold stepState
  simp only []
  split
  · refine ⟨h1l, h1L.trans hLy, hf1l, hf1L, ?_⟩
    intro target
    exact interpFit_linear hL tb hfit s.y _ _ s.dt m hy h1l hLy (h1L.trans hLy) hk hklen _
  · exact ⟨hy, hLy, hfl, hLf, hrow⟩

theorem advance_inv {n : Nat} {L : List α → α} (hL : LinOn n L) (tb : Tableau α) (hfit : FitColSums tb.fitRows)
    (ctl : Control α) {f : List α → α → List α} (hf : FieldOK n L f) (m target : α) (fuel : Nat) (s : OdeState α)
    (hs : OdeInv n L m s) : OdeInv n L m (advance tb ctl f target fuel s) := by
  induction fuel generalizing s with
  | zero => exact hs
  | succ fuel ih =>
    rw [advance_succ]
    split
    · exact ih _ (stepState_inv hL tb hfit ctl hf m s hs)
    · exact hs

theorem odeint_linear {n : Nat} {L : List α → α} (hL : LinOn n L) (tb : Tableau α) (hfit : FitColSums tb.fitRows)
    (ctl : Control α) {f : List α → α → List α} (hf : FieldOK n L f) (fuel : Nat) (dt0 : α) (y0 : List α)
    (hy0 : y0.length = n) (ts : List α) :
    ∀ r ∈ odeint tb ctl f fuel dt0 y0 ts, r.length = n ∧ L r = L y0 := by
  rw [odeint_eq]
  intro r hr
  rcases List.mem_cons.mp hr with rfl | hr
  · exact ⟨hy0, rfl⟩
  · refine scanOut_forall _ _ (OdeInv n L (L y0)) (fun r => r.length = n ∧ L r = L y0)
      (fun s t hs => advance_inv hL tb hfit ctl hf _ t fuel s hs) (fun s t hs => hs.2.2.2.2 t) _ _ ?_ r hr
    refine ⟨hy0, rfl, (hf y0 _ hy0).1, (hf y0 _ hy0).2, ?_⟩
    intro target
    simp only [sub_self, div_zero]
    rw [polyval_replicate_zero y0 4]
    exact ⟨hy0, rfl⟩

theorem scanl_forall {σ τ : Type} (g : σ → τ → σ) (P : σ → Prop) (hg : ∀ s t, P s → P (g s t)) :
    ∀ (l : List τ) (s : σ), P s → ∀ r ∈ List.scanl g s l, P r := by
  intro l
  induction l with
  | nil => intro s hs r hr; simp at hr; exact hr ▸ hs
  | cons t ts ih =>
    intro s hs r hr
    simp only [List.scanl_cons, List.mem_cons] at hr
    rcases hr with rfl | hr
    · exact hs
    · exact ih _ (hg _ _ hs) r hr

theorem eulerStep_linear_inv {n : Nat} {L : List α → α} (hL : LinOn n L) {f : List α → α → List α}
    (hf : FieldOK n L f) (h : α) (y : List α) (t : α) (hy : y.length = n) :
    (eulerStep f h y t).length = n ∧ L (eulerStep f h y t) = L y := by
  obtain ⟨h1, h2⟩ := hf y t hy
  unfold eulerStep
  refine ⟨by simp [hy, h1], ?_⟩
  rw [hL.add _ _ hy (by simp [h1]), hL.smul _ _ h1, h2]; simp

theorem rk4Step_linear_inv {n : Nat} {L : List α → α} (hL : LinOn n L) {f : List α → α → List α}
    (hf : FieldOK n L f) (h : α) (y : List α) (t : α) (hy : y.length = n) :
    (rk4Step f h y t).length = n ∧ L (rk4Step f h y t) = L y := by
  have stage : ∀ (c : α) (y' : List α) (t' : α), y'.length = n →
      (vscale c (f y' t')).length = n ∧ L (vscale c (f y' t')) = 0 := by
    intro c y' t' hy'
    obtain ⟨h1, h2⟩ := hf y' t' hy'
    refine ⟨by simp [h1], ?_⟩
    rw [hL.smul _ _ h1, h2]; simp
  have arg : ∀ (v : List α), v.length = n → (vadd y v).length = n := by
    intro v hv; simp [hy, hv]
  unfold rk4Step
  simp only []
  obtain ⟨l1, L1⟩ := stage h y t hy
  have a2 := arg ((vscale h (f y t)).map (· / two)) (by simpa using l1)
  obtain ⟨l2, L2⟩ := stage h _ (t + h / two) a2
  have a3 := arg ((vscale h (f (vadd y ((vscale h (f y t)).map (· / two))) (t + h / two))).map (· / two))
    (by simpa using l2)
  obtain ⟨l3, L3⟩ := stage h _ (t + h / two) a3
  have a4 := arg _ l3
  obtain ⟨l4, L4⟩ := stage h _ (t + h) a4
  generalize vscale h (f y t) = k1 at *
  generalize vscale h (f (vadd y (k1.map (· / two))) (t + h / two)) = k2 at *
  generalize vscale h (f (vadd y (k2.map (· / two))) (t + h / two)) = k3 at *
  generalize vscale h (f (vadd y k3) (t + h)) = k4 at *
  have i1 : (vadd k1 (vscale two k2)).length = n := by simp [l1, l2]
  have i2 : (vadd (vadd k1 (vscale two k2)) (vscale two k3)).length = n := by simp [l1, l2, l3]
  have i3 : (vadd (vadd (vadd k1 (vscale two k2)) (vscale two k3)) k4).length = n := by simp [l1, l2, l3, l4]
  refine ⟨by simp [hy, l1, l2, l3, l4], ?_⟩
  rw [hL.add _ _ hy (by simpa using i3), hL.smul _ _ i3, hL.add _ _ i2 l4, hL.add _ _ i1 (by simpa using l3),
    hL.add _ _ l1 (by simpa using l2), hL.smul _ _ l2, hL.smul _ _ l3, L1, L2, L3, L4]
  simp

theorem euler_linear {n : Nat} {L : List α → α} (hL : LinOn n L) {f : List α → α → List α}
    (hf : FieldOK n L f) (y0 : List α) (hy0 : y0.length = n) (times : List α) :
    ∀ r ∈ euler f y0 times, r.length = n ∧ L r = L y0 := by
  rw [euler_eq_scanl]
  refine scanl_forall _ (fun r => r.length = n ∧ L r = L y0) ?_ _ _ ⟨hy0, rfl⟩
  intro y t ⟨hy, hLy⟩
  obtain ⟨h1, h2⟩ := eulerStep_linear_inv hL hf _ y t hy
  exact ⟨h1, h2.trans hLy⟩

theorem rk4_linear {n : Nat} {L : List α → α} (hL : LinOn n L) {f : List α → α → List α}
    (hf : FieldOK n L f) (y0 : List α) (hy0 : y0.length = n) (times : List α) :
    ∀ r ∈ rk4 f y0 times, r.length = n ∧ L r = L y0 := by
  rw [rk4_eq_scanl]
  refine scanl_forall _ (fun r => r.length = n ∧ L r = L y0) ?_ _ _ ⟨hy0, rfl⟩
  intro y t ⟨hy, hLy⟩
  obtain ⟨h1, h2⟩ := rk4Step_linear_inv hL hf _ y t hy
  exact ⟨h1, h2.trans hLy⟩

theorem scanl_geometric {τ : Type} (g : List α → τ → List α) (c : α) (hg : ∀ y t, g [y] t = [c * y]) :
    ∀ (l : List τ) (y0 : α) (i : Nat), i ≤ l.length → (List.scanl g [y0] l)[i]? = some [c ^ i * y0] := by
  intro l
  induction l with
  | nil => intro y0 i hi; simp at hi; subst hi; simp
  | cons t ts ih =>
    intro y0 i hi
    cases i with
    | zero => simp
    | succ i =>
      simp only [List.scanl_cons, List.getElem?_cons_succ, hg]
      rw [ih (c * y0) i (by simpa using hi)]
      congr 2; ring

theorem getD_vadd (a b : List α) (h : a.length = b.length) (j : Nat) :
    (vadd a b).getD j 0 = a.getD j 0 + b.getD j 0 := by
  simp only [List.getD_eq_getElem?_getD]
  by_cases hj : j < a.length
  · have hb : j < b.length := h ▸ hj
    have hab : j < (vadd a b).length := by simp; omega
    rw [List.getElem?_eq_getElem hj, List.getElem?_eq_getElem hb, List.getElem?_eq_getElem hab]
    simp
  · have hb : ¬ j < b.length := h ▸ hj
    have hab : ¬ j < (vadd a b).length := by simp; omega
    rw [List.getElem?_eq_none (by omega), List.getElem?_eq_none (by omega), List.getElem?_eq_none (by omega)]
    simp

theorem getD_vscale (c : α) (a : List α) (j : Nat) : (vscale c a).getD j 0 = c * a.getD j 0 := by
  simp only [List.getD_eq_getElem?_getD]
  by_cases hj : j < a.length
  · have hab : j < (vscale c a).length := by simpa using hj
    rw [List.getElem?_eq_getElem hj, List.getElem?_eq_getElem hab]; simp
  · have hab : ¬ j < (vscale c a).length := by simpa using hj
    rw [List.getElem?_eq_none (by omega), List.getElem?_eq_none (by omega)]; simp

theorem getD_replicate_zero (n j : Nat) : (List.replicate n (0 : α)).getD j 0 = 0 := by
  simp only [List.getD_eq_getElem?_getD, List.getElem?_replicate]
  split <;> rfl

theorem ext_getD (a b : List α) (hl : a.length = b.length) (h : ∀ j, a.getD j 0 = b.getD j 0) : a = b := by
  apply List.ext_getElem hl
  intro j h1 h2
  have := h j
  simp only [List.getD_eq_getElem?_getD] at this
  rw [List.getElem?_eq_getElem h1, List.getElem?_eq_getElem h2] at this
  simpa using this

theorem length_lincomb5 (n : Nat) (r0 r1 r2 r3 r4 : α) (v0 v1 v2 v3 v4 : List α)
    (h0 : v0.length = n) (h1 : v1.length = n) (h2 : v2.length = n) (h3 : v3.length = n) (h4 : v4.length = n) :
    (lincomb n [r0,r1,r2,r3,r4] [v0,v1,v2,v3,v4]).length = n := by
  simp [lincomb, h0, h1, h2, h3, h4]

set_option linter.unusedSimpArgs false in
theorem getD_lincomb5 (n : Nat) (r0 r1 r2 r3 r4 : α) (v0 v1 v2 v3 v4 : List α)
    (h0 : v0.length = n) (h1 : v1.length = n) (h2 : v2.length = n) (h3 : v3.length = n) (h4 : v4.length = n)
    (j : Nat) :
    (lincomb n [r0,r1,r2,r3,r4] [v0,v1,v2,v3,v4]).getD j 0 =
      r0 * v0.getD j 0 + r1 * v1.getD j 0 + r2 * v2.getD j 0 + r3 * v3.getD j 0 + r4 * v4.getD j 0 := by
  simp only [lincomb, List.zip_cons_cons, List.zip_nil_right, List.foldl_cons, List.foldl_nil]
  rw [getD_vadd _ _ (by simp [h0, h1, h2, h3, h4]), getD_vadd _ _ (by simp [h0, h1, h2, h3, h4]),
    getD_vadd _ _ (by simp [h0, h1, h2, h3, h4]), getD_vadd _ _ (by simp [h0, h1, h2, h3, h4]),
    getD_vadd _ _ (by simp [h0, h1, h2, h3, h4])]
  simp only [getD_vscale, getD_replicate_zero]
  ring

/-- the five fit rows of `fit_4th_order_polynomial` with entries in `α` -/
def fitRowsα : List (List α) :=
  [[-2, 2, -8, -8, 16], [5, -3, 18, 14, -32], [-4, 1, -11, -5, 16], [1, 0, 0, 0, 0], [0, 0, 1, 0, 0]]

theorem fitRows_map (φ : ℚ →+* α) : Generated.Tableau.fitRows.map (·.map φ) = fitRowsα := by
  simp [Generated.Tableau.fitRows, fitRowsα]

/-- The dense-output polynomial is, componentwise, the quartic `a x⁴ + b x³ + c x² + d x + e` with the
coefficients of `fit_4th_order_polynomial`. -/
theorem fitPoly_quartic (n : Nat) (dy0 dy1 y0 y1 yMid : List α)
    (h0 : dy0.length = n) (h1 : dy1.length = n) (h2 : y0.length = n) (h3 : y1.length = n) (h4 : yMid.length = n)
    (x : α) :
    (polyval ((fitRowsα (α := α)).map (fun row => lincomb n row [dy0, dy1, y0, y1, yMid])) x).length = n ∧
    ∀ j, (polyval ((fitRowsα (α := α)).map (fun row => lincomb n row [dy0, dy1, y0, y1, yMid])) x).getD j 0 =
        (-2 * dy0.getD j 0 + 2 * dy1.getD j 0 - 8 * y0.getD j 0 - 8 * y1.getD j 0 + 16 * yMid.getD j 0) * x ^ 4
        + (5 * dy0.getD j 0 - 3 * dy1.getD j 0 + 18 * y0.getD j 0 + 14 * y1.getD j 0 - 32 * yMid.getD j 0) * x ^ 3
        + (-4 * dy0.getD j 0 + dy1.getD j 0 - 11 * y0.getD j 0 - 5 * y1.getD j 0 + 16 * yMid.getD j 0) * x ^ 2
        + dy0.getD j 0 * x + y0.getD j 0 := by
  have L := fun r0 r1 r2 r3 r4 => length_lincomb5 n r0 r1 r2 r3 r4 _ _ _ _ _ h0 h1 h2 h3 h4
  simp only [fitRowsα, polyval, List.map_cons, List.map_nil, List.foldl_cons, List.foldl_nil]
  refine ⟨by simp [L], ?_⟩
  intro j
  rw [getD_vadd _ _ (by simp [L]), getD_vscale, getD_vadd _ _ (by simp [L]), getD_vscale,
    getD_vadd _ _ (by simp [L]), getD_vscale, getD_vadd _ _ (by simp [L]), getD_vscale]
  simp only [getD_lincomb5 n _ _ _ _ _ _ _ _ _ _ h0 h1 h2 h3 h4]
  ring

theorem polyval5_getD (n : Nat) (a b c d e : List α) (ha : a.length = n) (hb : b.length = n) (hc : c.length = n)
    (hd : d.length = n) (he : e.length = n) (x : α) :
    (polyval [a, b, c, d, e] x).length = n ∧
    ∀ j, (polyval [a, b, c, d, e] x).getD j 0 =
      a.getD j 0 * x ^ 4 + b.getD j 0 * x ^ 3 + c.getD j 0 * x ^ 2 + d.getD j 0 * x + e.getD j 0 := by
  simp only [polyval, List.foldl_cons, List.foldl_nil]
  refine ⟨by simp [ha, hb, hc, hd, he], ?_⟩
  intro j
  rw [getD_vadd _ _ (by simp [ha, hb, hc, hd, he]), getD_vscale, getD_vadd _ _ (by simp [ha, hb, hc, hd]), getD_vscale,
    getD_vadd _ _ (by simp [ha, hb, hc]), getD_vscale, getD_vadd _ _ (by simp [ha, hb]), getD_vscale]
  ring

theorem polyval4_getD (n : Nat) (a b c d : List α) (ha : a.length = n) (hb : b.length = n) (hc : c.length = n)
    (hd : d.length = n) (x : α) :
    (polyval [a, b, c, d] x).length = n ∧
    ∀ j, (polyval [a, b, c, d] x).getD j 0 =
      a.getD j 0 * x ^ 3 + b.getD j 0 * x ^ 2 + c.getD j 0 * x + d.getD j 0 := by
  simp only [polyval, List.foldl_cons, List.foldl_nil]
  refine ⟨by simp [ha, hb, hc, hd], ?_⟩
  intro j
  rw [getD_vadd _ _ (by simp [ha, hb, hc, hd]), getD_vscale, getD_vadd _ _ (by simp [ha, hb, hc]), getD_vscale,
    getD_vadd _ _ (by simp [ha, hb]), getD_vscale]
  ring

/-- interpolation conditions of the quartic fit, for five arbitrary vectors of equal length -/
theorem fitPoly_props (n : Nat) (dy0 dy1 y0 y1 yMid : List α)
    (h0 : dy0.length = n) (h1 : dy1.length = n) (h2 : y0.length = n) (h3 : y1.length = n) (h4 : yMid.length = n) :
    ∃ a b c d e : List α,
      (fitRowsα (α := α)).map (fun row => lincomb n row [dy0, dy1, y0, y1, yMid]) = [a, b, c, d, e] ∧
      a.length = n ∧ b.length = n ∧ c.length = n ∧ d.length = n ∧ e.length = n ∧
      polyval [a, b, c, d, e] 0 = y0 ∧
      polyval [a, b, c, d, e] 1 = y1 ∧
      ((2 : α) ≠ 0 → polyval [a, b, c, d, e] (1 / 2) = yMid) ∧
      polyval [vscale 4 a, vscale 3 b, vscale 2 c, d] 0 = dy0 ∧
      polyval [vscale 4 a, vscale 3 b, vscale 2 c, d] 1 = dy1 := by
  have L := fun r0 r1 r2 r3 r4 => length_lincomb5 n r0 r1 r2 r3 r4 _ _ _ _ _ h0 h1 h2 h3 h4
  have G := fun r0 r1 r2 r3 r4 => getD_lincomb5 n r0 r1 r2 r3 r4 _ _ _ _ _ h0 h1 h2 h3 h4
  have la := L (-2) 2 (-8) (-8) 16
  have lb := L 5 (-3) 18 14 (-32)
  have lc := L (-4) 1 (-11) (-5) 16
  have ld := L 1 0 0 0 0
  have le := L 0 0 1 0 0
  refine ⟨lincomb n [-2, 2, -8, -8, 16] [dy0, dy1, y0, y1, yMid], lincomb n [5, -3, 18, 14, -32] [dy0, dy1, y0, y1, yMid],
    lincomb n [-4, 1, -11, -5, 16] [dy0, dy1, y0, y1, yMid], lincomb n [1, 0, 0, 0, 0] [dy0, dy1, y0, y1, yMid],
    lincomb n [0, 0, 1, 0, 0] [dy0, dy1, y0, y1, yMid], rfl, la, lb, lc, ld, le, ?_, ?_, ?_, ?_, ?_⟩
  · obtain ⟨hl, hv⟩ := polyval5_getD n _ _ _ _ _ la lb lc ld le (0:α)
    apply ext_getD _ _ (hl.trans h2.symm)
    intro j; rw [hv j]; simp only [G]; ring
  · obtain ⟨hl, hv⟩ := polyval5_getD n _ _ _ _ _ la lb lc ld le (1:α)
    apply ext_getD _ _ (hl.trans h3.symm)
    intro j; rw [hv j]; simp only [G]; ring
  · intro h2ne
    obtain ⟨hl, hv⟩ := polyval5_getD n _ _ _ _ _ la lb lc ld le (1/2:α)
    apply ext_getD _ _ (hl.trans h4.symm)
    intro j; rw [hv j]; simp only [G]; field_simp; ring
  · obtain ⟨hl, hv⟩ := polyval4_getD n _ _ _ _ ((length_vscale 4 _).trans la) ((length_vscale 3 _).trans lb)
      ((length_vscale 2 _).trans lc) ld (0:α)
    apply ext_getD _ _ (hl.trans h0.symm)
    intro j; rw [hv j]; simp only [G, getD_vscale]; ring
  · obtain ⟨hl, hv⟩ := polyval4_getD n _ _ _ _ ((length_vscale 4 _).trans la) ((length_vscale 3 _).trans lb)
      ((length_vscale 2 _).trans lc) ld (1:α)
    apply ext_getD _ _ (hl.trans h1.symm)
    intro j; rw [hv j]; simp only [G, getD_vscale]; ring

end linear

section grid
variable {α : Type} [Field α]

theorem odeint_eq' (tb : Tableau α) (ctl : Control α) (f : List α → α → List α) (fuel : Nat) (dt0 : α)
    (y0 : List α) (ts : List α) :
    odeint tb ctl f fuel dt0 y0 ts =
      y0 :: scanOut (fun s target => advance tb ctl f target fuel s) odeRow
        (odeInit f dt0 y0 (ts.getD 0 0)) (ts.drop 1) := odeint_eq tb ctl f fuel dt0 y0 ts

theorem scanOut_append_singleton {σ τ β : Type} (nxt : σ → τ → σ) (out : σ → τ → β) (s : σ) (l : List τ) (t : τ) :
    scanOut nxt out s (l ++ [t]) = scanOut nxt out s l ++ [out (nxt (l.foldl nxt s) t) t] := by
  induction l generalizing s with
  | nil => simp [scanOut]
  | cons x xs ih => simp [scanOut, ih]

/-- once the loop condition is false, extra fuel changes nothing -/
theorem advance_fuel_mono (tb : Tableau α) (ctl : Control α) (f : List α → α → List α) (T : α) :
    ∀ (n : Nat) (s : OdeState α), contCond ctl T (advance tb ctl f T n s) = false →
      ∀ m, n ≤ m → advance tb ctl f T m s = advance tb ctl f T n s := by
  intro n
  induction n with
  | zero =>
    intro s h m _
    rw [advance_zero] at h ⊢
    cases m with
    | zero => rfl
    | succ m => rw [advance_succ, h]; rfl
  | succ n ih =>
    intro s h m hm
    obtain ⟨m', rfl⟩ : ∃ m', m = m' + 1 := ⟨m - 1, by omega⟩
    rw [advance_succ] at h ⊢
    rw [advance_succ]
    cases hc : contCond ctl T s with
    | true => rw [hc] at h; simp only [if_true] at h ⊢; exact ih _ h m' (by omega)
    | false => simp

/-- stepping toward `T1` (with any fuel `n1`, exhausted or not) and then toward `T2` is the same loop
as stepping toward `T2` directly with `j + n2` fuel, `j ≤ n1` being the number of steps actually taken,
provided the loop condition for `T1` implies the one for `T2`. -/
theorem advance_compose (tb : Tableau α) (ctl : Control α) (f : List α → α → List α) (T1 T2 : α)
    (hmono : ∀ s, contCond ctl T1 s = true → contCond ctl T2 s = true) :
    ∀ (n1 : Nat) (s : OdeState α), ∃ j, j ≤ n1 ∧
      ∀ n2, advance tb ctl f T2 n2 (advance tb ctl f T1 n1 s) = advance tb ctl f T2 (j + n2) s := by
  intro n1
  induction n1 with
  | zero => intro s; exact ⟨0, le_refl _, fun n2 => by simp [advance_zero]⟩
  | succ n1 ih =>
    intro s
    rw [advance_succ]
    cases hc : contCond ctl T1 s with
    | true =>
      obtain ⟨j, hj, h⟩ := ih (stepState tb ctl f s)
      refine ⟨j + 1, by omega, fun n2 => ?_⟩
      simp only [if_true]
      rw [h n2, show j + 1 + n2 = (j + n2) + 1 by omega, advance_succ, hmono s hc]
      rfl
    | false => exact ⟨0, by omega, fun n2 => by simp⟩

theorem foldl_advance_compose (tb : Tableau α) (ctl : Control α) (f : List α → α → List α) (fuel : Nat) (T : α) :
    ∀ (ts : List α) (s : OdeState α),
      (∀ T' ∈ ts, ∀ s, contCond ctl T' s = true → contCond ctl T s = true) →
      ∃ j, j ≤ ts.length * fuel ∧ ∀ n2,
        advance tb ctl f T n2 (ts.foldl (fun s target => advance tb ctl f target fuel s) s)
          = advance tb ctl f T (j + n2) s := by
  intro ts
  induction ts with
  | nil => intro s _; exact ⟨0, by simp, fun n2 => by simp⟩
  | cons T' ts ih =>
    intro s hmono
    obtain ⟨j', hj', h'⟩ := ih (advance tb ctl f T' fuel s) (fun T'' h => hmono T'' (by simp [h]))
    obtain ⟨j, hj, h⟩ := advance_compose tb ctl f T' T (hmono T' (by simp)) fuel s
    refine ⟨j + j', ?_, fun n2 => ?_⟩
    · simp only [List.length_cons, Nat.add_mul]; omega
    · simp only [List.foldl_cons]
      rw [h' n2, h (j' + n2)]; congr 1; omega

/-- Grid independence of the stepping state: after processing the targets `ts ++ [T]` (each with
fuel `fuel`), if the loop for the last target `T` has stopped because its condition is false, the state
equals that of a single `advance` toward `T` from the initial state, with any fuel `N ≥ (|ts|+1)·fuel`. -/
theorem foldl_advance_eq (tb : Tableau α) (ctl : Control α) (f : List α → α → List α) (fuel : Nat) (T : α)
    (ts : List α) (s : OdeState α)
    (hmono : ∀ T' ∈ ts, ∀ s, contCond ctl T' s = true → contCond ctl T s = true)
    (hconv : contCond ctl T ((ts ++ [T]).foldl (fun s target => advance tb ctl f target fuel s) s) = false)
    (N : Nat) (hN : (ts.length + 1) * fuel ≤ N) :
    (ts ++ [T]).foldl (fun s target => advance tb ctl f target fuel s) s = advance tb ctl f T N s := by
  obtain ⟨j, hj, h⟩ := foldl_advance_compose tb ctl f fuel T ts s hmono
  simp only [List.foldl_append, List.foldl_cons, List.foldl_nil] at hconv ⊢
  rw [h fuel] at hconv ⊢
  exact (advance_fuel_mono tb ctl f T _ s hconv N (by rw [Nat.add_mul] at hN; omega)).symm

theorem scanOut_take {σ τ β : Type} (nxt : σ → τ → σ) (out : σ → τ → β) (s : σ) (l : List τ) (i : Nat) :
    scanOut nxt out s (l.take i) = (scanOut nxt out s l).take i := by
  induction l generalizing s i with
  | nil => simp [scanOut]
  | cons x xs ih =>
    cases i with
    | zero => simp [scanOut]
    | succ i => simp [scanOut, ih]

/-- the first `i+1` output rows of `odeint` depend only on the first `i+1` times -/
theorem odeint_take (tb : Tableau α) (ctl : Control α) (f : List α → α → List α) (fuel : Nat) (dt0 : α)
    (y0 : List α) (ts : List α) (i : Nat) :
    odeint tb ctl f fuel dt0 y0 (ts.take (i + 1)) = (odeint tb ctl f fuel dt0 y0 ts).take (i + 1) := by
  rw [odeint_eq', odeint_eq']
  have h0 : (ts.take (i + 1)).getD 0 0 = ts.getD 0 0 := by
    cases ts <;> simp
  have h1 : (ts.take (i + 1)).drop 1 = (ts.drop 1).take i := by
    cases ts <;> simp
  rw [h0, h1, scanOut_take]
  simp

theorem odeint_getLast (tb : Tableau α) (ctl : Control α) (f : List α → α → List α) (fuel : Nat) (dt0 : α)
    (y0 : List α) (t0 : α) (ts : List α) (T : α) :
    (odeint tb ctl f fuel dt0 y0 (t0 :: (ts ++ [T]))).getLast? =
      some (odeRow (odeFinalState tb ctl f fuel dt0 y0 (t0 :: (ts ++ [T]))) T) := by
  rw [odeint_eq']
  simp only [List.drop_one, List.tail_cons, scanOut_append_singleton, odeFinalState]
  rw [← List.cons_append, List.getLast?_append]
  simp

omit [Field α] in
theorem contCond_mono (ctl : Control α) (T' T : α) (h : ∀ t, ctl.lt t T' = true → ctl.lt t T = true)
    (s : OdeState α) (hs : contCond ctl T' s = true) : contCond ctl T s = true := by
  simp only [contCond, Bool.and_eq_true] at hs ⊢
  exact ⟨h _ hs.1, hs.2⟩

theorem odeFinalState_eq_advance (tb : Tableau α) (ctl : Control α) (f : List α → α → List α) (fuel : Nat)
    (dt0 : α) (y0 : List α) (t0 : α) (ts : List α) (T : α)
    (hmono : ∀ T' ∈ ts, ∀ t, ctl.lt t T' = true → ctl.lt t T = true)
    (hconv : contCond ctl T (odeFinalState tb ctl f fuel dt0 y0 (t0 :: (ts ++ [T]))) = false)
    (N : Nat) (hN : (ts.length + 1) * fuel ≤ N) :
    odeFinalState tb ctl f fuel dt0 y0 (t0 :: (ts ++ [T])) = advance tb ctl f T N (odeInit f dt0 y0 t0) := by
  have := foldl_advance_eq tb ctl f fuel T ts (odeInit f dt0 y0 t0)
    (fun T' h s hs => contCond_mono ctl T' T (hmono T' h) s hs) (by simpa [odeFinalState] using hconv) N hN
  simpa [odeFinalState] using this

theorem length_linspace (t0 t1 : α) (n : Nat) : (linspace t0 t1 n).length = n := by
  simp [linspace]

theorem getD_linspace (t0 t1 : α) (n i : Nat) (hi : i < n) :
    (linspace t0 t1 n).getD i 0 = t0 + (i : α) * ((t1 - t0) / ((n - 1 : Nat) : α)) := by
  simp [linspace, List.getD_eq_getElem?_getD, hi]

theorem getD_linspace' [CharZero α] (t0 t1 : α) (n i : Nat) (hn : 2 ≤ n) (hi : i < n) :
    (linspace t0 t1 n).getD i 0 = t0 + (i : α) * ((t1 - t0) / ((n : α) - 1)) := by
  rw [getD_linspace _ _ _ _ hi, Nat.cast_sub (by omega)]; simp

theorem linspace_step [CharZero α] (t0 h : α) (n i : Nat) (hn : 2 ≤ n) (hi : i < n) :
    (linspace t0 (t0 + ((n : α) - 1) * h) n).getD i 0 = t0 + (i : α) * h := by
  rw [getD_linspace' _ _ _ _ hn hi]
  have : ((n : α) - 1) ≠ 0 := by
    intro h0
    have h1 : (n : α) = ((1 : Nat) : α) := by rw [Nat.cast_one]; exact sub_eq_zero.mp h0
    have : n = 1 := Nat.cast_injective h1
    omega
  field_simp
  ring

theorem scanl_getD_succ {σ τ : Type} (g : σ → τ → σ) (s : σ) (l : List τ) (d : σ) (dt : τ) (i : Nat)
    (hi : i < l.length) :
    (List.scanl g s l).getD (i + 1) d = g ((List.scanl g s l).getD i d) (l.getD i dt) := by
  have h1 : i + 1 < (List.scanl g s l).length := by simp; omega
  have h0 : i < (List.scanl g s l).length := by omega
  simp only [List.getD_eq_getElem?_getD]
  rw [List.getElem?_eq_getElem h1, List.getElem?_eq_getElem h0, List.getElem?_eq_getElem hi]
  simp only [Option.getD_some]
  exact List.getElem_succ_scanl h1

theorem getD_take_pred (times : List α) (i : Nat) (hi : i + 1 < times.length) :
    (times.take (times.length - 1)).getD i 0 = times.getD i 0 := by
  simp only [List.getD_eq_getElem?_getD, List.getElem?_take]
  rw [if_pos (by omega)]

theorem fitColSums_fitRowsα : FitColSums (fitRowsα (α := α)) := by
  refine ⟨by simp [fitRowsα], ?_⟩
  simp only [fitRowsα, List.map_cons, List.map_nil, List.getD_cons_succ, List.getD_cons_zero]
  norm_num

theorem fitColSums_gen (φ : ℚ →+* α) : FitColSums (genTableau φ).fitRows := by
  show FitColSums (Generated.Tableau.fitRows.map (·.map φ))
  rw [fitRows_map]; exact fitColSums_fitRowsα

theorem fitColSums_rat : FitColSums (genTableau (id : ℚ → ℚ)).fitRows := fitColSums_gen (RingHom.id ℚ)

theorem interpFit_props (φ : ℚ →+* α) (tb : Tableau α)
    (hfit : tb.fitRows = Generated.Tableau.fitRows.map (·.map φ))
    (y0 y1 : List α) (k : List (List α)) (dt : α)
    (hy1 : y1.length = y0.length) (hk : ∀ v ∈ k, v.length = y0.length) (hklen : 6 < k.length) :
    ∃ a b c d e : List α,
      interpFit tb y0 y1 k dt = [a, b, c, d, e] ∧
      a.length = y0.length ∧ b.length = y0.length ∧ c.length = y0.length ∧ d.length = y0.length ∧
      e.length = y0.length ∧
      polyval [a, b, c, d, e] 0 = y0 ∧
      polyval [a, b, c, d, e] 1 = y1 ∧
      ((2 : α) ≠ 0 → polyval [a, b, c, d, e] (1 / 2) = vadd y0 (vscale dt (lincomb y0.length tb.cMid k))) ∧
      polyval [vscale 4 a, vscale 3 b, vscale 2 c, d] 0 = vscale dt (k.getD 0 []) ∧
      polyval [vscale 4 a, vscale 3 b, vscale 2 c, d] 1 = vscale dt (k.getD 6 []) := by
  have h0 : 0 < k.length := by omega
  have e0' : k.getD 0 [] = k[0] := by rw [List.getD_eq_getElem?_getD, List.getElem?_eq_getElem h0]; rfl
  have e6' : k.getD 6 [] = k[6] := by rw [List.getD_eq_getElem?_getD, List.getElem?_eq_getElem hklen]; rfl
  have l0 : (vscale dt (k.getD 0 [])).length = y0.length := by
    rw [e0']; simp [hk _ (List.getElem_mem h0)]
  have l6 : (vscale dt (k.getD 6 [])).length = y0.length := by
    rw [e6']; simp [hk _ (List.getElem_mem hklen)]
  have lm : (vadd y0 (vscale dt (lincomb y0.length tb.cMid k))).length = y0.length := by
    simp [length_lincomb _ _ _ hk]
  have := fitPoly_props y0.length _ _ y0 y1 _ l0 l6 rfl hy1 lm
  unfold interpFit
  simp only []
  rw [hfit, fitRows_map]
  exact this

theorem linOn_const_zero (n : Nat) : LinOn n (fun _ : List α => (0 : α)) :=
  ⟨fun _ _ _ _ => by simp, fun _ _ _ => by simp⟩

/-- shape of one Dormand–Prince step for a length-preserving field (any tableau) -/
theorem rkStep_shape (tb : Tableau α) {f : List α → α → List α} (n : Nat)
    (hf : ∀ y t, y.length = n → (f y t).length = n) (y0 f0 : List α) (hy0 : y0.length = n)
    (hf0 : f0.length = n) (t0 dt : α) :
    let r := rkStep tb f y0 f0 t0 dt
    r.1.length = n ∧ r.2.1.length = n ∧ r.2.2.1.length = n ∧ (∀ v ∈ r.2.2.2, v.length = n) ∧
      r.2.2.2.length = 7 ∧ r.2.2.2.getD 0 [] = f0 ∧ r.2.2.2.getD 6 [] = r.2.1 := by
  have h := rkStep_linear (linOn_const_zero n) tb (f := f) (fun y t hy => ⟨hf y t hy, rfl⟩) y0 f0 hy0
    ⟨hf0, rfl⟩ t0 dt
  refine ⟨h.1.1, h.2.1.1, h.2.2.1.1, fun v hv => (h.2.2.2.1 v hv).1, h.2.2.2.2, ?_, rfl⟩
  simp only [rkStep_eq, rkStages]
  generalize List.range 6 = is
  have : ∀ (is : List Nat) (k0 : List (List α)), (is.foldl (fun (k : List (List α)) i =>
      k ++ [f (vadd y0 (vscale dt (lincomb y0.length (tb.beta.getD i []) k))) (t0 + dt * tb.alpha.getD i 0)])
      (f0 :: k0)).getD 0 [] = f0 := by
    intro is
    induction is with
    | nil => intro k0; rfl
    | cons i is ih => intro k0; simp only [List.foldl_cons, List.cons_append]; exact ih _
  exact this is []

/-- concrete objects on `ℚ` used by the non-vacuity examples -/
def exField : List ℚ → ℚ → List ℚ := fun y t =>
  match y with
  | [s, i, r] => [-((2 + t) * s * i / 100), (2 + t) * s * i / 100 - i / 2 + 0 * r, i / 2]
  | _ => y.map (fun _ => 0)

theorem exField_ok : FieldOK 3 sumL exField := by
  intro y t hy
  match y, hy with
  | [s, i, r], _ => simp only [exField, sumL]; refine ⟨rfl, ?_⟩; ring

theorem exField_len (y : List ℚ) (t : ℚ) : (exField y t).length = y.length := by
  unfold exField
  split <;> simp

def exCtl : Control ℚ :=
  { errorRatio := fun err _ _ => 100 * sumL (err.map (fun e => e * e))
    optimalStep := fun dt r => if r ≤ 1 then dt else dt / 2
    accept := fun r => decide (r ≤ 1)
    lt := fun a b => decide (a < b)
    pos := fun d => decide (0 < d) }

theorem vadd_vscale_zero_right (a v : List α) (h : a.length = v.length) : vadd a (vscale 0 v) = a := by
  apply ext_getD _ _ (by simp [h])
  intro j; rw [getD_vadd _ _ (by simp [h]), getD_vscale]; simp

theorem vadd_comm' (a b : List α) : vadd a b = vadd b a := by
  unfold vadd; exact List.zipWith_comm_of_comm (fun x y => add_comm x y)

theorem lincomb_snoc_zero (n : Nat) (c6 : List α) (k6 : List (List α)) (v : List α)
    (hlen : c6.length = k6.length) (hk : ∀ u ∈ k6, u.length = n) (hv : v.length = n) :
    lincomb n (c6 ++ [0]) (k6 ++ [v]) = lincomb n (c6 ++ [0]) k6 := by
  have hz : (c6 ++ [0]).zip (k6 ++ [v]) = c6.zip k6 ++ [((0 : α), v)] := by
    rw [List.zip_append hlen]; rfl
  have hz' : (c6 ++ [0]).zip k6 = c6.zip k6 := by
    have := List.zip_append (l₁ := c6) (l₂ := k6) (r₁ := [(0 : α)]) (r₂ := ([] : List (List α))) hlen
    simpa using this
  unfold lincomb
  rw [hz, hz', List.foldl_append]
  simp only [List.foldl_cons, List.foldl_nil]
  apply vadd_vscale_zero_right
  rw [hv]
  exact lincomb_foldl_length n _ _ (by simp) (fun z hz => hk _ (mem_zip_snd hz))

theorem rkStages_succ (tb : Tableau α) (f : List α → α → List α) (y0 f0 : List α) (t0 dt : α) :
    ∃ k6 : List (List α), k6.length = 6 ∧
      rkStages tb f y0 f0 t0 dt =
        k6 ++ [f (vadd y0 (vscale dt (lincomb y0.length (tb.beta.getD 5 []) k6))) (t0 + dt * tb.alpha.getD 5 0)] ∧
      (∀ n, (∀ y t, y.length = n → (f y t).length = n) → y0.length = n → f0.length = n →
        ∀ u ∈ k6, u.length = n) := by
  refine ⟨(List.range 5).foldl (fun (k : List (List α)) i =>
    k ++ [f (vadd y0 (vscale dt (lincomb y0.length (tb.beta.getD i []) k))) (t0 + dt * tb.alpha.getD i 0)]) [f0],
    ?_, ?_, ?_⟩
  · have len : ∀ (g : List (List α) → Nat → List α) (is : List Nat) (k0 : List (List α)),
        (is.foldl (fun k i => k ++ [g k i]) k0).length = k0.length + is.length := by
      intro g is
      induction is with
      | nil => intro k0; simp
      | cons i is ih => intro k0; simp only [List.foldl_cons, ih, List.length_append, List.length_cons,
          List.length_nil]; omega
    rw [len (fun k i => f (vadd y0 (vscale dt (lincomb y0.length (tb.beta.getD i []) k))) (t0 + dt * tb.alpha.getD i 0))]
    simp
  · unfold rkStages
    rw [show List.range 6 = List.range 5 ++ [5] from rfl, List.foldl_append]
    rfl
  · intro n hf hy0 hf0
    have := (rkStages_foldl_inv (n := n) (L := fun _ => (0:α)) tb (f := f)
      (fun y t hy => ⟨hf y t hy, rfl⟩) y0 hy0 t0 dt (List.range 5) [f0] (by simpa using hf0)).1
    exact fun u hu => (this u hu).1

/-- FSAL in the model: the returned `f1` (7th stage) is the field at the new point `(y1, t0 + dt)`. -/
theorem rkStep_fsal (tb : Tableau α) (hfsal : FSAL tb) {f : List α → α → List α} (n : Nat)
    (hf : ∀ y t, y.length = n → (f y t).length = n) (y0 f0 : List α) (hy0 : y0.length = n)
    (hf0 : f0.length = n) (t0 dt : α) :
    (rkStep tb f y0 f0 t0 dt).2.1 = f (rkStep tb f y0 f0 t0 dt).1 (t0 + dt) := by
  obtain ⟨hβ, hα, hcl, hc6⟩ := hfsal
  obtain ⟨k6, hk6len, hst, hk6⟩ := rkStages_succ tb f y0 f0 t0 dt
  have hk6n := hk6 n hf hy0 hf0
  have hc : tb.cSol = tb.cSol.take 6 ++ [0] := by
    have h6 : 6 < tb.cSol.length := by omega
    have : tb.cSol.getD 6 0 = tb.cSol[6] := by
      rw [List.getD_eq_getElem?_getD, List.getElem?_eq_getElem h6]; rfl
    rw [← hc6, this, List.take_append_getElem h6]
    exact (List.take_of_length_le (by omega)).symm
  simp only [rkStep_eq]
  rw [hst, hβ, hα, mul_one]
  have hlast : (k6 ++ [f (vadd y0 (vscale dt (lincomb y0.length tb.cSol k6))) (t0 + dt)]).getD 6 []
      = f (vadd y0 (vscale dt (lincomb y0.length tb.cSol k6))) (t0 + dt) := by
    rw [List.getD_eq_getElem?_getD, List.getElem?_append_right (by omega)]
    simp [hk6len]
  rw [hlast]
  congr 1
  rw [vadd_comm']
  congr 2
  rw [hy0]
  conv_rhs => rw [hc]
  conv_lhs => rw [hc]
  symm
  apply lincomb_snoc_zero n _ _ _ (by simp [hk6len, hcl]) hk6n
  apply hf
  simp [hy0, length_lincomb n _ _ hk6n]

theorem fsal_gen (φ : ℚ →+* α) : FSAL (genTableau φ) := by
  simp [FSAL, genTableau, Generated.Tableau.beta, Generated.Tableau.cSol, Generated.Tableau.alpha]

end grid
end Summer.Proofs.Solvers
