/-
  Helper lemmas for C19: soundness of the taint typing judgement of `Summer/Model/Taint.lean`
  (noninterference of the Python-level trace).  Mathlib-free.
-/
import Summer.Model.Taint

namespace Summer.Taint

/-! ### classes -/

theorem Ty.le_refl (a : Ty) : a.le a = true := by cases a <;> rfl

theorem Ty.le_dyn {a b : Ty} (h : a.le b = true) (ha : a.isDyn = true) : b.isDyn = true := by
  cases a <;> cases b <;> simp_all [Ty.le, Ty.isDyn]

theorem Ty.le_dev {a b : Ty} (h : a.le b = true) (hb : b.isDev = true) : a.isDev = true := by
  cases a <;> cases b <;> simp_all [Ty.le, Ty.isDev]

theorem Ty.le_join_left (a b : Ty) : a.le (a.join b) = true := by
  cases a <;> cases b <;> rfl

theorem Ty.le_join_right (a b : Ty) : b.le (a.join b) = true := by
  cases a <;> cases b <;> rfl

theorem isDyn_mkTy (d v : Bool) (r : Rep) : (mkTy d v r).isDyn = d := by
  cases d <;> cases v <;> simp only [mkTy] <;> first | rfl | (split <;> rfl)

theorem isDev_mkTy (d v : Bool) (r : Rep) : (mkTy d v r).isDev = v := by
  cases d <;> cases v <;> simp only [mkTy] <;> first | rfl | (split <;> rfl)

/-! ### the relation between two runs -/

/-- two values of class `t` in two runs: same trace-time-visible part; equal if the class is
build-time; a device array if the class says so -/
def relV (t : Ty) (a b : Val) : Prop :=
  a.vis = b.vis ∧ (t.isDyn = false → a = b) ∧ (t.isDev = true → a.dev = true)

theorem relV_mono {t t' : Ty} (h : t.le t' = true) {a b : Val} (r : relV t a b) : relV t' a b := by
  refine ⟨r.1, ?_, ?_⟩
  · intro h'
    apply r.2.1
    cases hd : t.isDyn
    · rfl
    · rw [Ty.le_dyn h hd] at h'; cases h'
  · intro h'; exact r.2.2 (Ty.le_dev h h')

theorem relV_refl_of_dev (t : Ty) (a : Val) (h : t.isDev = true → a.dev = true) : relV t a a :=
  ⟨rfl, fun _ => rfl, h⟩

/-- the two environments agree on every build-time variable, have the same visible part
(shapes) on every variable, and respect the representation promised by the classes -/
def Rel (Γ : Ctx) (ρ ρ' : Env) : Prop := ∀ v, relV (Γ.get v) (ρ v) (ρ' v)

def Ctx.le (Γ Γ' : Ctx) : Prop := ∀ v, (Γ.get v).le (Γ'.get v) = true

theorem Ctx.le_refl (Γ : Ctx) : Γ.le Γ := fun _ => Ty.le_refl _

theorem Rel_mono {Γ Γ' : Ctx} (h : Γ.le Γ') {ρ ρ' : Env} (r : Rel Γ ρ ρ') : Rel Γ' ρ ρ' :=
  fun v => relV_mono (h v) (r v)

/-! ### contexts -/

theorem lookup_filter (x y : Var) (Γ : Ctx) :
    lookup y (Γ.filter (fun p => !(p.1 == x))) = if y = x then none else lookup y Γ := by
  induction Γ with
  | nil => simp [lookup]
  | cons p Γ ih =>
    obtain ⟨k, t⟩ := p
    by_cases hk : k = x
    · subst hk
      simp only [List.filter_cons, beq_self_eq_true, Bool.not_true, Bool.false_eq_true, ↓reduceIte,
        ih, lookup]
      by_cases hy : y = k <;> simp [hy]
    · have : (!(k == x)) = true := by simp [hk]
      simp only [List.filter_cons, this, ↓reduceIte, lookup, ih]
      by_cases hy : y = k
      · subst hy; simp [hk]
      · simp [hy]

theorem Ctx.get_set (Γ : Ctx) (x : Var) (t : Ty) (y : Var) :
    (Γ.set x t).get y = if y = x then t else Γ.get y := by
  unfold Ctx.get Ctx.set
  simp only [lookup, lookup_filter]
  by_cases hy : y = x <;> simp [hy]

theorem lookup_map_snd (x : Var) (g : Var → Ty → Ty) (Γ : Ctx) :
    lookup x (Γ.map (fun p => (p.1, g p.1 p.2))) = (lookup x Γ).map (g x) := by
  induction Γ with
  | nil => simp [lookup]
  | cons p Γ ih =>
    obtain ⟨k, t⟩ := p
    simp only [List.map_cons, lookup, ih]
    by_cases hk : x = k
    · subst hk; simp
    · simp [hk]

theorem Ctx.get_def (Γ : Ctx) (x : Var) :
    Γ.get x = match lookup x Γ with | some t => t | none => .T := rfl

theorem Ty.join_T_left (t : Ty) : Ty.join .T t = .T := by cases t <;> rfl

theorem Ty.le_T (t : Ty) : t.le .T = true := by cases t <;> rfl

theorem Ctx.get_join (Γ₁ Γ₂ : Ctx) (x : Var) :
    (Γ₁.join Γ₂).get x = (Γ₁.get x).join (Γ₂.get x) := by
  unfold Ctx.join
  rw [Ctx.get_def (List.map _ _),
    lookup_map_snd x (fun k t => t.join (Γ₂.get k)) Γ₁, Ctx.get_def Γ₁ x]
  cases lookup x Γ₁ with
  | none => simp [Ty.join_T_left]
  | some t => simp

theorem Ctx.le_join_left (Γ₁ Γ₂ : Ctx) : Γ₁.le (Γ₁.join Γ₂) := by
  intro v; rw [Ctx.get_join]; exact Ty.le_join_left _ _

theorem Ctx.le_join_right (Γ₁ Γ₂ : Ctx) : Γ₂.le (Γ₁.join Γ₂) := by
  intro v; rw [Ctx.get_join]; exact Ty.le_join_right _ _

theorem lookup_mem {x : Var} {t : Ty} {Γ : Ctx} (h : lookup x Γ = some t) : (x, t) ∈ Γ := by
  induction Γ with
  | nil => simp [lookup] at h
  | cons p Γ ih =>
    obtain ⟨k, u⟩ := p
    simp only [lookup] at h
    split at h
    · rename_i hk
      simp only [Option.some.injEq] at h
      subst hk; subst h
      exact List.mem_cons_self ..
    · exact List.mem_cons_of_mem _ (ih h)

theorem Ctx.leB_sound {Γ₁ Γ₂ : Ctx} (h : Γ₁.leB Γ₂ = true) : Γ₁.le Γ₂ := by
  intro v
  rw [Ctx.get_def Γ₂ v]
  cases hl : lookup v Γ₂ with
  | none => exact Ty.le_T _
  | some t => exact List.all_eq_true.mp h (v, t) (lookup_mem hl)

theorem Ty.le_trans {a b c : Ty} (h₁ : a.le b = true) (h₂ : b.le c = true) : a.le c = true := by
  revert h₁ h₂
  cases a <;> cases b <;> cases c <;> decide

theorem Ctx.le_trans {Γ₁ Γ₂ Γ₃ : Ctx} (h₁ : Γ₁.le Γ₂) (h₂ : Γ₂.le Γ₃) : Γ₁.le Γ₃ :=
  fun v => Ty.le_trans (h₁ v) (h₂ v)

theorem Rel_upd {Γ : Ctx} {ρ ρ' : Env} (hl : Rel Γ ρ ρ') (x : Var) (t : Ty) {a b : Val}
    (h : relV t a b) : Rel (Γ.set x t) (upd ρ x a) (upd ρ' x b) := by
  intro y
  rw [Ctx.get_set]
  unfold upd
  by_cases hy : y = x
  · simp only [hy, ↓reduceIte]; exact h
  · simp only [hy, ↓reduceIte]; exact hl y

/-! ### loop invariants -/

theorem loopInv_sound (step : Ctx → Option Ctx) :
    ∀ (n : Nat) (Γ Γi : Ctx), loopInv step n Γ = some Γi →
      Γ.le Γi ∧ ∃ Γ', step Γi = some Γ' ∧ Γ'.le Γi := by
  intro n
  induction n with
  | zero => intro Γ Γi h; simp [loopInv] at h
  | succ n ih =>
    intro Γ Γi h
    simp only [loopInv] at h
    split at h
    · cases h
    · rename_i Γ' hstep
      split at h
      · rename_i hle
        cases h
        exact ⟨Ctx.le_refl _, Γ', hstep, Ctx.leB_sound hle⟩
      · obtain ⟨h1, h2⟩ := ih _ _ h
        exact ⟨Ctx.le_trans (Ctx.le_join_left Γ Γ') h1, h2⟩

/-! ### expressions -/

theorem static_eq {Γ : Ctx} {ρ ρ' : Env} (hl : Rel Γ ρ ρ') {v : Var} (h : static Γ v = true) :
    ρ v = ρ' v := by
  apply (hl v).2.1
  simpa [static] using h

theorem dev_eq {Γ : Ctx} {ρ ρ' : Env} (hl : Rel Γ ρ ρ') (v : Var) : (ρ v).dev = (ρ' v).dev := by
  have := (hl v).1
  simp only [Val.vis, Prod.mk.injEq] at this
  exact this.1

theorem crit_sub {Γ : Ctx} {ρ ρ' : Env} (hl : Rel Γ ρ ρ') (e : Ex) :
    ∀ v ∈ crit e ρ, v ∈ critΓ Γ e := by
  intro v hv
  unfold crit at hv
  unfold critΓ
  cases hs : e.shape <;> simp only [hs] at hv ⊢ <;> try exact hv
  rename_i base idx
  by_cases hb : (Γ.get base).isDev = true
  · have := (hl base).2.2 hb
    simp [this] at hv
  · simp only [hb, Bool.false_eq_true, ↓reduceIte]
    split at hv
    · cases hv
    · exact hv

theorem crit_congr {Γ : Ctx} {ρ ρ' : Env} (hl : Rel Γ ρ ρ') (e : Ex) : crit e ρ = crit e ρ' := by
  unfold crit
  cases e.shape <;> simp only
  rw [dev_eq hl]

theorem map_congr_static {Γ : Ctx} {ρ ρ' : Env} (hl : Rel Γ ρ ρ') {l : List Var}
    (h : l.all (static Γ) = true) : l.map ρ = l.map ρ' := by
  apply List.map_congr_left
  intro v hv
  exact static_eq hl (List.all_eq_true.mp h v hv)

theorem okE_shape {Γ : Ctx} {e : Ex} (h : okE Γ e = true) : e.shape ≠ .unknown := by
  simp only [okE, Bool.and_eq_true, bne_iff_ne, ne_eq] at h
  exact h.1

theorem okE_crit {Γ : Ctx} {e : Ex} (h : okE Γ e = true) : (critΓ Γ e).all (static Γ) = true := by
  simp only [okE, Bool.and_eq_true] at h
  exact h.2

theorem evE_congr {Γ : Ctx} {ρ ρ' : Env} (hl : Rel Γ ρ ρ') {e : Ex} (hok : okE Γ e = true) :
    evE e ρ = evE e ρ' := by
  have hc := okE_crit hok
  have hne := okE_shape hok
  unfold critΓ at hc
  unfold evE
  cases hs : e.shape <;> simp only [hs] at hc hne ⊢
  · rw [map_congr_static hl hc]
  · rw [map_congr_static hl hc]
  · rename_i base idx
    rw [← dev_eq hl base]
    by_cases hd : (ρ base).dev = true
    · simp [hd]
    · simp only [hd, Bool.false_eq_true, ↓reduceIte]
      by_cases hb : (Γ.get base).isDev = true
      · exact absurd ((hl base).2.2 hb) hd
      · simp only [hb, Bool.false_eq_true, ↓reduceIte] at hc
        rw [map_congr_static hl hc]
  · exact absurd rfl hne

theorem reads_vis {Γ : Ctx} {ρ ρ' : Env} (hl : Rel Γ ρ ρ') (e : Ex) :
    ∀ v ∈ e.reads, (ρ v).vis = (ρ' v).vis := fun v _ => (hl v).1

theorem crit_eq {Γ : Ctx} {ρ ρ' : Env} (hl : Rel Γ ρ ρ') {e : Ex} (hok : okE Γ e = true) :
    ∀ v ∈ crit e ρ, ρ v = ρ' v := by
  intro v hv
  exact static_eq hl (List.all_eq_true.mp (okE_crit hok) v (crit_sub hl e v hv))

/-- when the expression is build-time (`dynE = false`) all the values it depends on agree -/
theorem static_cases {Γ : Ctx} {ρ ρ' : Env} (hl : Rel Γ ρ ρ') {e : Ex} (hok : okE Γ e = true)
    (hd : dynE Γ e = false) :
    e.shape = .staticOf ∨ ∀ v ∈ e.reads, ρ v = ρ' v := by
  have hc := okE_crit hok
  unfold critΓ at hc
  unfold dynE at hd
  have hall : e.reads.any (fun v => (Γ.get v).isDyn) = false → ∀ v ∈ e.reads, ρ v = ρ' v := by
    intro h v hv
    apply (hl v).2.1
    have := List.any_eq_false.mp h v hv
    simpa using this
  cases hs : e.shape <;> simp only [hs] at hc hd
  · exact Or.inr (hall hd)
  · exact Or.inl rfl
  · exact Or.inr (fun v hv => static_eq hl (List.all_eq_true.mp hc v hv))
  · exact Or.inr (hall hd)
  · exact Or.inr (hall hd)
  · cases hd
  · exact Or.inr (hall hd)

theorem devR_repDev {Γ : Ctx} {ρ ρ' : Env} (hl : Rel Γ ρ ρ') {r : Rep} (h : devR Γ r = true) :
    repDev r ρ = true := by
  unfold devR at h
  unfold repDev
  cases r <;> simp only at h ⊢ <;> try cases h
  rename_i vs
  obtain ⟨v, hv, hd⟩ := List.any_eq_true.mp h
  exact List.any_eq_true.mpr ⟨v, hv, (hl v).2.2 hd⟩

theorem val_sound (I : Interp) {Γ : Ctx} {ρ ρ' : Env} (hl : Rel Γ ρ ρ') {e : Ex}
    (hok : okE Γ e = true) : relV (tyE Γ e) (I.val e ρ) (I.val e ρ') := by
  refine ⟨I.val_vis e ρ ρ' (reads_vis hl e) (crit_eq hl hok), ?_, ?_⟩
  · intro hd
    rw [tyE, isDyn_mkTy] at hd
    rcases static_cases hl hok hd with h | h
    · exact I.val_meta e ρ ρ' h (reads_vis hl e)
    · exact I.val_reads e ρ ρ' h
  · intro hd
    rw [tyE, isDev_mkTy] at hd
    exact I.val_dev e ρ (devR_repDev hl hd)

/-- a formal parameter of a traced function: only the visible part is needed -/
theorem param_sound (I : Interp) {Γ : Ctx} {ρ ρ' : Env} (hl : Rel Γ ρ ρ') {e : Ex}
    (hok : okE Γ e = true) : relV (tyParam Γ e) (I.val e ρ) (I.val e ρ') := by
  refine ⟨I.val_vis e ρ ρ' (reads_vis hl e) (crit_eq hl hok), ?_, ?_⟩
  · intro hd
    rw [tyParam, isDyn_mkTy] at hd; cases hd
  · intro hd
    rw [tyParam, isDev_mkTy] at hd
    exact I.val_dev e ρ (devR_repDev hl hd)

theorem all₂_relV {t : Ty} : ∀ {l l' : List Val}, All₂ (fun a b => a.vis = b.vis) l l' →
    (t.isDyn = false → l = l') → (t.isDev = true → ∀ v ∈ l, v.dev = true) →
    All₂ (relV t) l l' := by
  intro l l' h
  induction h with
  | nil => intro _ _; exact .nil
  | cons hab _ ih =>
    intro h1 h2
    refine .cons ⟨hab, fun hd => (List.cons.inj (h1 hd)).1, fun hd => h2 hd _ (List.mem_cons_self ..)⟩
      (ih (fun hd => (List.cons.inj (h1 hd)).2)
        (fun hd v hv => h2 hd v (List.mem_cons_of_mem _ hv)))

theorem list_sound (I : Interp) {Γ : Ctx} {ρ ρ' : Env} (hl : Rel Γ ρ ρ') {e : Ex}
    (hok : okE Γ e = true) : All₂ (relV (tyE Γ e)) (I.list e ρ) (I.list e ρ') := by
  apply all₂_relV (I.list_vis e ρ ρ' (reads_vis hl e) (crit_eq hl hok))
  · intro hd
    rw [tyE, isDyn_mkTy] at hd
    rcases static_cases hl hok hd with h | h
    · exact I.list_meta e ρ ρ' h (reads_vis hl e)
    · exact I.list_reads e ρ ρ' h
  · intro hd
    rw [tyE, isDev_mkTy] at hd
    exact I.list_dev e ρ (devR_repDev hl hd)

theorem all₂_length {α : Type} {R : α → α → Prop} {l l' : List α} (h : All₂ R l l') :
    l.length = l'.length := by
  induction h with
  | nil => rfl
  | cons _ _ ih => simp [ih]

/-- a build-time test takes the same decision in both runs -/
theorem test_sound (I : Interp) {Γ : Ctx} {ρ ρ' : Env} (hl : Rel Γ ρ ρ') {c : Ex}
    (hok : okE Γ c = true) (hs : (tyE Γ c).isDyn = false) : I.val c ρ = I.val c ρ' :=
  (val_sound I hl hok).2.1 hs

/-! ### loops -/

theorem while_sound (test : Env → Bool × Trace) (step : Env → Env × Trace) (R : Env → Env → Prop)
    (htest : ∀ ρ ρ', R ρ ρ' → test ρ = test ρ')
    (hstep : ∀ ρ ρ', R ρ ρ' → R (step ρ).1 (step ρ').1 ∧ (step ρ).2 = (step ρ').2) :
    ∀ (n : Nat) (ρ ρ' : Env), R ρ ρ' →
      R (whileAux test step n ρ).1 (whileAux test step n ρ').1 ∧
      (whileAux test step n ρ).2 = (whileAux test step n ρ').2 := by
  intro n
  induction n with
  | zero => intro ρ ρ' h; exact ⟨h, rfl⟩
  | succ n ih =>
    intro ρ ρ' h
    simp only [whileAux]
    rw [← htest ρ ρ' h]
    by_cases ht : (test ρ).1 = true
    · simp only [ht, ↓reduceIte]
      obtain ⟨s1, s2⟩ := hstep ρ ρ' h
      obtain ⟨r1, r2⟩ := ih _ _ s1
      exact ⟨r1, by rw [s2, r2]⟩
    · simp only [ht, Bool.false_eq_true, ↓reduceIte]
      exact ⟨h, trivial⟩

theorem for_sound (x : Var) (t : Ty) (Γi : Ctx) (step : Env → Env × Trace)
    (hstep : ∀ ρ ρ', Rel (Γi.set x t) ρ ρ' → Rel Γi (step ρ).1 (step ρ').1 ∧ (step ρ).2 = (step ρ').2) :
    ∀ {vs vs' : List Val}, All₂ (relV t) vs vs' → ∀ (a a' : Env × Trace), Rel Γi a.1 a'.1 → a.2 = a'.2 →
      let f := fun (acc : Env × Trace) v => let r := step (upd acc.1 x v); (r.1, acc.2 ++ r.2)
      Rel Γi (vs.foldl f a).1 (vs'.foldl f a').1 ∧ (vs.foldl f a).2 = (vs'.foldl f a').2 := by
  intro vs vs' h
  induction h with
  | nil => intro a a' h1 h2; exact ⟨h1, h2⟩
  | cons hab _ ih =>
    intro a a' h1 h2
    simp only [List.foldl_cons]
    obtain ⟨g1, g2⟩ := hstep _ _ (Rel_upd h1 x t hab)
    exact ih _ _ g1 (by simp only [h2, g2])

/-! ### traced functions -/

theorem bindParams_sound (I : Interp) : ∀ (ps : List (Var × Ex)) (Γ G : Ctx) (ρ ρ' : Env),
    checkParams Γ ps = some G → Rel Γ ρ ρ' →
    Rel G (bindParams I ps ρ).1 (bindParams I ps ρ').1 ∧
      (bindParams I ps ρ).2 = (bindParams I ps ρ').2 := by
  intro ps
  induction ps with
  | nil =>
    intro Γ G ρ ρ' h hl
    simp only [checkParams, Option.some.injEq] at h
    subst h; exact ⟨hl, rfl⟩
  | cons p ps ih =>
    intro Γ G ρ ρ' h hl
    obtain ⟨x, e⟩ := p
    simp only [checkParams] at h
    split at h
    · rename_i hok
      obtain ⟨r1, r2⟩ := ih _ _ _ _ h (Rel_upd hl x _ (param_sound I hl hok))
      simp only [bindParams]
      exact ⟨r1, by rw [evE_congr hl hok, r2]⟩
    · cases h

/-! ### statements -/

theorem check_sound (I : Interp) (fuel : Nat) (s : Stmt) :
    ∀ (Γ Γ' : Ctx), check Γ s = some Γ' → ∀ (ρ ρ' : Env), Rel Γ ρ ρ' →
      Rel Γ' (exec I fuel s ρ).1 (exec I fuel s ρ').1 ∧
      (exec I fuel s ρ).2 = (exec I fuel s ρ').2 := by
  induction s with
  | skip =>
    intro Γ Γ' h ρ ρ' hl
    simp only [check, Option.some.injEq] at h
    subst h; exact ⟨hl, rfl⟩
  | assign x e =>
    intro Γ Γ' h ρ ρ' hl
    simp only [check] at h
    split at h
    · rename_i hok
      simp only [Option.some.injEq] at h
      subst h
      exact ⟨Rel_upd hl x _ (val_sound I hl hok), evE_congr hl hok⟩
    · cases h
  | seq a b iha ihb =>
    intro Γ Γ' h ρ ρ' hl
    simp only [check] at h
    split at h
    · rename_i Γ₁ ha
      obtain ⟨h1, h2⟩ := iha _ _ ha ρ ρ' hl
      obtain ⟨h3, h4⟩ := ihb _ _ h _ _ h1
      exact ⟨h3, by simp only [exec, h2, h4]⟩
    · cases h
  | ite c a b iha ihb =>
    intro Γ Γ' h ρ ρ' hl
    simp only [check] at h
    split at h
    · rename_i hc
      simp only [Bool.and_eq_true, Bool.not_eq_eq_eq_not, Bool.not_true] at hc
      split at h
      · rename_i A B ha hb
        simp only [Option.some.injEq] at h
        subst h
        have hv := test_sound I hl hc.1 hc.2
        have he := evE_congr hl hc.1
        simp only [exec, ← hv, ← he]
        by_cases ht : (I.val c ρ).truth = true
        · simp only [ht, ↓reduceIte]
          obtain ⟨h1, h2⟩ := iha _ _ ha ρ ρ' hl
          exact ⟨Rel_mono (Ctx.le_join_left A B) h1, by rw [h2]⟩
        · simp only [ht, Bool.false_eq_true, ↓reduceIte]
          obtain ⟨h1, h2⟩ := ihb _ _ hb ρ ρ' hl
          exact ⟨Rel_mono (Ctx.le_join_right A B) h1, by rw [h2]⟩
      · cases h
    · cases h
  | forS x it body ih =>
    intro Γ Γ' h ρ ρ' hl
    simp only [check] at h
    split at h
    · rename_i hok
      obtain ⟨hle, G, hstep, hG⟩ := loopInv_sound _ _ _ _ h
      have hlist := list_sound I hl hok
      have hkey := for_sound x (tyE Γ it) Γ' (fun ρ => exec I fuel body ρ)
        (fun ρ₁ ρ₂ hr => by
          obtain ⟨h1, h2⟩ := ih _ _ hstep ρ₁ ρ₂ hr
          exact ⟨Rel_mono hG h1, h2⟩)
        hlist (ρ, []) (ρ', []) (Rel_mono hle hl) rfl
      simp only [exec]
      refine ⟨hkey.1, ?_⟩
      rw [evE_congr hl hok, all₂_length hlist, hkey.2]
    · cases h
  | whileS c body ih =>
    intro Γ Γ' h ρ ρ' hl
    simp only [check] at h
    obtain ⟨hle, G, hstep, hG⟩ := loopInv_sound _ _ _ _ h
    split at hstep
    · rename_i hc
      simp only [Bool.and_eq_true, Bool.not_eq_eq_eq_not, Bool.not_true] at hc
      simp only [exec]
      apply while_sound _ _ (Rel Γ')
      · intro ρ₁ ρ₂ hr
        rw [test_sound I hr hc.1 hc.2, evE_congr hr hc.1]
      · intro ρ₁ ρ₂ hr
        obtain ⟨h1, h2⟩ := ih _ _ hstep ρ₁ ρ₂ hr
        exact ⟨Rel_mono hG h1, h2⟩
      · exact Rel_mono hle hl
    · cases hstep
  | ret e =>
    intro Γ Γ' h ρ ρ' hl
    simp only [check] at h
    split at h
    · rename_i hok
      simp only [Option.some.injEq] at h
      subst h
      exact ⟨hl, evE_congr hl hok⟩
    · cases h
  | hof k ps body ih =>
    intro Γ Γ' h ρ ρ' hl
    simp only [check] at h
    split at h
    · rename_i G hps
      split at h
      · rename_i hb
        simp only [Option.some.injEq] at h
        subst h
        obtain ⟨G', hG'⟩ := Option.isSome_iff_exists.mp hb
        obtain ⟨p1, p2⟩ := bindParams_sound I ps _ _ ρ ρ' hps hl
        obtain ⟨b1, b2⟩ := ih _ _ hG' _ _ p1
        exact ⟨hl, by simp only [exec, p2, b2]⟩
      · cases h
    · cases h
  | unknown w =>
    intro Γ Γ' h
    simp [check] at h

/-! ### a non-trivial interpretation (non-vacuity of `Interp`) -/

def sumSk (ρ : Env) (vs : List Var) : Int := (vs.map (fun v => (ρ v).sk)).sum
def sumDat (ρ : Env) (vs : List Var) : Int := (vs.map (fun v => (ρ v).sk + (ρ v).dat)).sum

theorem sumSk_congr {ρ ρ' : Env} {vs : List Var} (h : ∀ v ∈ vs, (ρ v).vis = (ρ' v).vis) :
    sumSk ρ vs = sumSk ρ' vs := by
  unfold sumSk
  congr 1
  apply List.map_congr_left
  intro v hv
  have := h v hv
  simp only [Val.vis, Prod.mk.injEq] at this
  exact this.2

theorem sumDat_congr {ρ ρ' : Env} {vs : List Var} (h : ∀ v ∈ vs, ρ v = ρ' v) :
    sumDat ρ vs = sumDat ρ' vs := by
  unfold sumDat
  congr 1
  apply List.map_congr_left
  intro v hv
  rw [h v hv]

theorem vis_of_eq {ρ ρ' : Env} {vs : List Var} (h : ∀ v ∈ vs, ρ v = ρ' v) :
    ∀ v ∈ vs, (ρ v).vis = (ρ' v).vis := fun v hv => by rw [h v hv]

/-- every expression is a device array whose visible part is the sum of the visible parts read
and whose data is the sum of everything read (`len`-like expressions have no data); iterating
yields one element per variable read -/
def sumInterp : Interp where
  val e ρ := ⟨true, sumSk ρ e.reads, if e.shape = .staticOf then 0 else sumDat ρ e.reads⟩
  list e ρ := e.reads.map (fun v => ⟨true, (ρ v).sk, if e.shape = .staticOf then 0 else (ρ v).dat⟩)
  val_reads e ρ ρ' h := by
    simp only [sumSk_congr (vis_of_eq h), sumDat_congr h]
  val_vis e ρ ρ' h _ := by
    simp only [Val.vis, sumSk_congr h]
  val_meta e ρ ρ' hs h := by
    simp only [hs, ↓reduceIte, sumSk_congr h]
  val_dev _ _ _ := rfl
  list_reads e ρ ρ' h := by
    apply List.map_congr_left
    intro v hv
    rw [h v hv]
  list_vis e ρ ρ' h _ := by
    generalize e.reads = l at h
    induction l with
    | nil => exact .nil
    | cons v l ih =>
      refine .cons ?_ (ih (fun w hw => h w (List.mem_cons_of_mem _ hw)))
      have := h v (List.mem_cons_self ..)
      simp only [Val.vis, Prod.mk.injEq] at this ⊢
      exact ⟨trivial, this.2⟩
  list_meta e ρ ρ' hs h := by
    apply List.map_congr_left
    intro v hv
    have := h v hv
    simp only [Val.vis, Prod.mk.injEq] at this
    simp only [hs, ↓reduceIte, this.2]
  list_dev e ρ _ v hv := by
    obtain ⟨w, _, rfl⟩ := List.mem_map.mp hv
    rfl

end Summer.Taint
