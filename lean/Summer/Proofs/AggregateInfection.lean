import Summer.Proofs.AggregateRates
/-
Helper lemmas for property C03, part 6: models WITH infection flows.  The rate of an infection flow
is the population-proportional rate times a multiplier (the force of infection seen by the flow);
the aggregation theorem holds as soon as every copy of an infection flow sees the multiplier of its
parent.
-/
open Summer Summer.Build Summer.Run Summer.Generated Summer.Spec
set_option linter.unusedSectionVars false
set_option linter.unnecessarySeqFocus false

namespace Summer.Proofs
section
variable {α : Type} [Field α]

/-- the multiplier applied to a flow: `M f` for infection flows, `1` otherwise -/
def multOf (M : Flow α → α) (f : Flow α) : α := if isInfection f.kind then M f else 1

/-- `flowRates` as a function of the flow, the infection multipliers being given as a function of the
flow -/
theorem flowRates_eq_map_mult {m : Model α} {b : Backend} (hb : BackendFor m b) (hs : sourcedOk m = true)
    (W : Flow α → α) (x mults : List α) (M : Flow α → α)
    (hM : ∀ i (hi : i < m.flows.length), isInfection m.flows[i].kind = true →
      mults.getD (infPos m i) 1 = M m.flows[i]) :
    flowRates b (m.flows.map W) x mults =
      m.flows.map (fun f => rateLaw m.comps x (deathTot m W x) (W f) f * multOf M f) := by
  have hw : (m.flows.map W).length = m.flows.length := by simp
  apply List.ext_getElem
  · rw [flowRates_length hb _ _ _ hw]; simp
  · intro i h1 h2
    have hi : i < m.flows.length := by simpa using h2
    have := flowRates_getD hb (m.flows.map W) x mults hw i hi
    rw [getD_eq_getElem _ _ _ h1] at this
    rw [this]
    simp only [List.getElem_map]
    have hmem : m.flows[i] ∈ m.flows := List.getElem_mem hi
    have hsp := srcPop_eq hb hs x m.flows[i] hmem
    have hMi := hM i hi
    unfold genRate rate1 genPop multOf
    rw [deathsGen_eq hb hs, deathTotal_map, getD_eq_getElem _ _ _ (by simpa using hi)]
    simp only [List.getElem_map]
    generalize m.flows[i] = f at hsp hMi
    cases hk : f.kind <;>
      simp only [isReplacement, isCrude, isNonPop, isInfection, Bool.false_eq_true, if_false, if_true,
        rateLaw, hk, mul_one] <;>
      first
      | (rw [hsp (by rw [hk]; rfl), hMi (by rw [hk]; rfl)]; rfl)
      | (rw [hsp (by rw [hk]; rfl)]; rfl)

theorem multOf_copy (s : Strat α) (M M' : Flow α → α) (f g : Flow α) (hg : g ∈ copiesA s f)
    (hMM : isInfection f.kind = true → M' g = M f) : multOf M' g = multOf M f := by
  unfold multOf
  rw [copies_kind s f g hg]
  by_cases hk : isInfection f.kind = true
  · simp [hk, hMM hk]
  · simp [hk]

end

section
variable {α : Type} [Field α] [LT α] [DecidableLT α]

/-- **C03.rates_agg** with infection flows, from the shape of the stratified model: it suffices that
every copy of an infection flow sees the multiplier of its parent. -/
theorem rates_agg_of_shape_mult {m m' : Model α} {s : Strat α} {b b' : Backend} (ok : StratOk m.comps s)
    (hn : (s.strata.length : α) ≠ 0) (hstrain : s.kind ≠ .strain) (hage : s.kind = .age → "0" ∈ s.strata)
    (extra : List (Flow α))
    (hcomps : m'.comps = stratifyComps m.comps s)
    (hflows : m'.flows = m.flows.flatMap (copiesA s) ++ extra)
    (hextra : ∀ g ∈ extra, IsSiblingFlow m.comps s g)
    (hb : BackendFor m b) (hb' : BackendFor m' b') (hs : sourcedOk m = true)
    (x' : List α) (hx : x'.length = m'.comps.length) (env : Env α) (mults mults' : List α)
    (M M' : Flow α → α)
    (hM : ∀ i (hi : i < m.flows.length), isInfection m.flows[i].kind = true →
      mults.getD (infPos m i) 1 = M m.flows[i])
    (hM' : ∀ i (hi : i < m'.flows.length), isInfection m'.flows[i].kind = true →
      mults'.getD (infPos m' i) 1 = M' m'.flows[i])
    (hMM : ∀ f ∈ m.flows, isInfection f.kind = true → ∀ g ∈ copiesA s f, M' g = M f) :
    agg m.comps s (compRates b' (flowRates b' (m'.flows.map (weightVal env)) x' mults'))
      = compRates b (flowRates b (m.flows.map (weightVal env)) (agg m.comps s x') mults) := by
  have hends := ends_of_backendFor hb
  have hends' := ends_of_backendFor hb'
  have hnd' : m'.comps.Nodup := by
    rw [hcomps]; exact stratifyComps_nodup _ _ ok.fresh ok.nodup ok.strataNodup
  have hmem' : ∀ g ∈ m'.flows, (∃ f ∈ m.flows, g ∈ copiesA s f) ∨ g ∈ extra := by
    intro g hg
    rw [hflows, List.mem_append, List.mem_flatMap] at hg
    exact hg
  have hs' : sourcedOk m' = true := by
    unfold sourcedOk
    rw [List.all_eq_true]
    intro g hg
    rcases hmem' g hg with ⟨f, hf, hgf⟩ | hge
    · have := List.all_eq_true.1 hs f hf
      rw [copies_kind s f g hgf, copies_src_isSome s f g hgf]; exact this
    · obtain ⟨_, _, _, _, _, hsrc, _⟩ := hextra g hge
      simp [hsrc]
  rw [flowRates_eq_map_mult hb' hs' _ _ _ M' hM', flowRates_eq_map_mult hb hs _ _ _ M hM,
    compRates_eq_map hb' hnd', compRates_eq_map hb ok.nodup]
  rw [deathTot_agg ok hn hstrain hage extra hcomps hflows hextra (fun f hf => (hends f hf).1) x' hx env]
  have hx2 : x'.length = (stratifyComps m.comps s).length := by rw [← hcomps]; exact hx
  have hends2 : ∀ g ∈ m.flows.flatMap (copiesA s) ++ extra,
      (∀ d, g.src = some d → d ∈ stratifyComps m.comps s) ∧ (∀ d, g.dst = some d → d ∈ stratifyComps m.comps s) := by
    intro g hg
    rw [← hflows] at hg
    rw [← hcomps]
    exact hends' g hg
  have hex2 : ∀ g ∈ extra, ∃ c0 ∈ m.comps, ∃ a b, g.src = some (c0.stratify s.name a) ∧
      g.dst = some (c0.stratify s.name b) := fun g hg => (hextra g hg).2
  have := agg_compRates_core ok m.flows extra
    (fun f => rateLaw m.comps (agg m.comps s x') (deathTot m (weightVal env) (agg m.comps s x')) (weightVal env f) f
      * multOf M f)
    (fun g => rateLaw (stratifyComps m.comps s) x' (deathTot m (weightVal env) (agg m.comps s x')) (weightVal env g) g
      * multOf M' g)
    (fun f hf => by
      rw [← copies_rate_sum ok hn hstrain hage x' hx2 f (hends f hf).1 _ env, ← sumL_map_mul_right]
      apply sumL_map_congr
      intro g hg
      rw [multOf_copy s M M' f g hg (fun hk => hMM f hf hk g hg)])
    hends hends2 hex2
  rw [hcomps, hflows]
  exact this
end
end Summer.Proofs
