import Mathlib.Tactic.Ring
import Mathlib.Tactic.FieldSimp
import Mathlib.Tactic.NormNum
import Mathlib.Tactic.Linarith
import Mathlib.Algebra.Order.Field.Basic
import Mathlib.Algebra.Field.Rat
import Mathlib.Algebra.Order.Ring.Rat
import Summer.Model.Dates
import Summer.Model.Build
import Summer.Proofs.Solvers
/-
Helper lemmas for C12 (dates): rounding, `toDate`/`toNum`, the grid validation and the constructor.
-/
namespace Summer.Proofs.Dates
open Summer Summer.Dates Summer.Proofs.Solvers

/-! ### round-half-even satisfies the rounding contract -/

theorem floor_cast_le (q : ℚ) : ((q.floor : ℤ) : ℚ) ≤ q := Rat.floor_le q

theorem lt_floor_cast_add_one (q : ℚ) : q < ((q.floor : ℤ) : ℚ) + 1 := by
  have := Rat.lt_floor_add_one q
  push_cast at this
  exact this

theorem roundHalfEven_intCast (k : ℤ) : roundHalfEven (k : ℚ) = k := by
  unfold roundHalfEven
  simp only [Rat.floor_intCast, sub_self]
  norm_num

theorem roundHalfEven_upper (q : ℚ) : (roundHalfEven q : ℚ) - q ≤ 1 / 2 := by
  have h1 := floor_cast_le q
  have h2 := lt_floor_cast_add_one q
  unfold roundHalfEven
  simp only
  split_ifs <;> push_cast <;> linarith

theorem roundHalfEven_lower (q : ℚ) : q - (roundHalfEven q : ℚ) ≤ 1 / 2 := by
  have h1 := floor_cast_le q
  have h2 := lt_floor_cast_add_one q
  unfold roundHalfEven
  simp only
  split_ifs <;> push_cast <;> linarith

theorem roundHalfEven_isRounding : IsRounding roundHalfEven :=
  ⟨roundHalfEven_intCast, roundHalfEven_upper, roundHalfEven_lower⟩

theorem floor_le_roundHalfEven (q : ℚ) : q.floor ≤ roundHalfEven q := by
  unfold roundHalfEven
  simp only
  split_ifs <;> omega

theorem roundHalfEven_le_floor_add_one (q : ℚ) : roundHalfEven q ≤ q.floor + 1 := by
  unfold roundHalfEven
  simp only
  split_ifs <;> omega

theorem roundHalfEven_monotone : IsMonotoneRounding roundHalfEven := by
  intro a b hab
  have hf : a.floor ≤ b.floor := Rat.floor_monotone hab
  rcases Int.lt_or_eq_of_le hf with hlt | heq
  · have h1 := roundHalfEven_le_floor_add_one a
    have h2 := floor_le_roundHalfEven b
    omega
  · unfold roundHalfEven
    simp only
    rw [← heq]
    split_ifs <;> first | omega | (exfalso; linarith)

/-! ### `toDate` / `toNum` -/

theorem toNum_mul_unit (ref unit d : ℤ) (hu : 0 < unit) :
    toNum ref unit d * (unit : ℚ) = ((d - ref : ℤ) : ℚ) := by
  have : (unit : ℚ) ≠ 0 := by exact_mod_cast hu.ne'
  unfold toNum
  field_simp

theorem toDate_toNum {rnd : ℚ → ℤ} (hr : IsRounding rnd) (ref unit d : ℤ) (hu : 0 < unit) :
    toDate rnd ref unit (toNum ref unit d) = d := by
  unfold toDate
  rw [toNum_mul_unit ref unit d hu, hr.exact]
  omega

/-- `toDate` on a time that is a whole number `m` of microseconds -/
theorem toDate_of_whole {rnd : ℚ → ℤ} (hr : IsRounding rnd) (ref unit : ℤ) (t : ℚ) (m : ℤ)
    (hm : t * (unit : ℚ) = (m : ℚ)) : toDate rnd ref unit t = ref + m := by
  unfold toDate
  rw [hm, hr.exact]

theorem toNum_toDate_of_whole {rnd : ℚ → ℤ} (hr : IsRounding rnd) (ref unit : ℤ) (hu : 0 < unit) (t : ℚ) (m : ℤ)
    (hm : t * (unit : ℚ) = (m : ℚ)) : toNum ref unit (toDate rnd ref unit t) = t := by
  have hu' : (unit : ℚ) ≠ 0 := by exact_mod_cast hu.ne'
  rw [toDate_of_whole hr ref unit t m hm]
  unfold toNum
  rw [show ref + m - ref = m by omega, ← hm]
  field_simp

theorem toNum_toDate_sub (rnd : ℚ → ℤ) (ref unit : ℤ) (hu : 0 < unit) (t : ℚ) :
    toNum ref unit (toDate rnd ref unit t) - t = ((rnd (t * (unit : ℚ)) : ℚ) - t * (unit : ℚ)) / (unit : ℚ) := by
  have hu' : (unit : ℚ) ≠ 0 := by exact_mod_cast hu.ne'
  unfold toNum toDate
  rw [show ref + rnd (t * (unit : ℚ)) - ref = rnd (t * (unit : ℚ)) by omega]
  field_simp

theorem toNum_toDate_abs {rnd : ℚ → ℤ} (hr : IsRounding rnd) (ref unit : ℤ) (hu : 0 < unit) (t : ℚ) :
    |toNum ref unit (toDate rnd ref unit t) - t| ≤ 1 / (2 * (unit : ℚ)) := by
  have hu' : (0 : ℚ) < (unit : ℚ) := by exact_mod_cast hu
  rw [toNum_toDate_sub rnd ref unit hu t, abs_div, abs_of_pos hu', div_le_div_iff₀ hu' (by positivity)]
  have h1 := hr.upper (t * (unit : ℚ))
  have h2 := hr.lower (t * (unit : ℚ))
  have : |(rnd (t * (unit : ℚ)) : ℚ) - t * (unit : ℚ)| ≤ 1 / 2 := abs_le.mpr ⟨by linarith, by linarith⟩
  nlinarith

theorem toNum_lt_toNum (ref unit d e : ℤ) (hu : 0 < unit) : toNum ref unit d < toNum ref unit e ↔ d < e := by
  have hu' : (0 : ℚ) < (unit : ℚ) := by exact_mod_cast hu
  unfold toNum
  rw [div_lt_div_iff_of_pos_right hu']
  constructor
  · intro h; have := Int.cast_lt.mp h; omega
  · intro h; exact Int.cast_lt.mpr (by omega)

theorem toDate_mono {rnd : ℚ → ℤ} (hm : IsMonotoneRounding rnd) (ref unit : ℤ) (hu : 0 < unit) {s t : ℚ} (hst : s ≤ t) :
    toDate rnd ref unit s ≤ toDate rnd ref unit t := by
  have hu' : (0 : ℚ) < (unit : ℚ) := by exact_mod_cast hu
  unfold toDate
  have := hm (s * (unit : ℚ)) (t * (unit : ℚ)) (by nlinarith)
  omega

/-- times more than one microsecond apart get different (ordered) dates; no monotonicity of `rnd` needed -/
theorem toDate_strict {rnd : ℚ → ℤ} (hr : IsRounding rnd) (ref unit : ℤ) {s t : ℚ}
    (hst : 1 < (t - s) * (unit : ℚ)) : toDate rnd ref unit s < toDate rnd ref unit t := by
  unfold toDate
  have h1 := hr.upper (s * (unit : ℚ))
  have h2 := hr.lower (t * (unit : ℚ))
  have : (rnd (s * (unit : ℚ)) : ℚ) < (rnd (t * (unit : ℚ)) : ℚ) := by linarith
  have := Int.cast_lt.mp this
  omega

/-- times at least one microsecond apart: dates are ordered (weakly), again without monotonicity of `rnd` -/
theorem toDate_le_of_one_le {rnd : ℚ → ℤ} (hr : IsRounding rnd) (ref unit : ℤ) {s t : ℚ}
    (hst : 1 ≤ (t - s) * (unit : ℚ)) : toDate rnd ref unit s ≤ toDate rnd ref unit t := by
  unfold toDate
  have h1 := hr.upper (s * (unit : ℚ))
  have h2 := hr.lower (t * (unit : ℚ))
  have : (rnd (s * (unit : ℚ)) : ℚ) ≤ (rnd (t * (unit : ℚ)) : ℚ) := by linarith
  have := Int.cast_le.mp this
  omega

/-! ### grid validation -/

theorem fmod1_eq_zero_iff (q : ℚ) : fmod1 q = 0 ↔ ((q.floor : ℤ) : ℚ) = q := by
  unfold fmod1
  constructor <;> intro h <;> linarith

theorem gridPoints_eq_some_iff (t0 t1 dt : ℚ) (p : ℕ) :
    gridPoints t0 t1 dt = some p ↔ t0 < t1 ∧ dt ≠ 0 ∧ 1 ≤ p ∧ (p : ℚ) = numSteps t0 t1 dt := by
  unfold gridPoints
  simp only [gt_iff_lt, ge_iff_le, not_lt, not_le]
  constructor
  · intro h
    split_ifs at h with h1 h2 h3 h4
    rw [fmod1_eq_zero_iff] at h4
    have hp : (numSteps t0 t1 dt).floor.toNat = p := Option.some.inj h
    have hf1 : (1 : ℤ) ≤ (numSteps t0 t1 dt).floor := by
      rw [Rat.le_floor_iff]; push_cast; linarith
    have hpz : ((p : ℕ) : ℤ) = (numSteps t0 t1 dt).floor := by omega
    refine ⟨by linarith, h2, by omega, ?_⟩
    rw [← h4, ← hpz]
    push_cast
    rfl
  · rintro ⟨h1, h2, h3, h4⟩
    have hfl : (numSteps t0 t1 dt).floor = (p : ℤ) := by
      rw [← h4]
      exact_mod_cast Rat.floor_intCast (p : ℤ)
    have hp1 : (1 : ℚ) ≤ (p : ℚ) := by exact_mod_cast h3
    rw [if_neg (by linarith), if_neg h2, if_neg (by linarith), if_neg]
    · rw [hfl]; rfl
    · rw [not_not, fmod1_eq_zero_iff, hfl, ← h4]
      push_cast
      rfl

theorem gridSteps_eq_some_iff (t0 t1 dt : ℚ) (n : ℕ) :
    gridSteps t0 t1 dt = some n ↔ t0 < t1 ∧ dt ≠ 0 ∧ t1 - t0 = (n : ℚ) * dt := by
  unfold gridSteps
  rw [Option.map_eq_some_iff]
  constructor
  · rintro ⟨p, hp, rfl⟩
    obtain ⟨h1, h2, h3, h4⟩ := (gridPoints_eq_some_iff t0 t1 dt p).mp hp
    refine ⟨h1, h2, ?_⟩
    unfold numSteps at h4
    rw [Nat.cast_sub h3]
    field_simp at h4
    push_cast
    linarith
  · rintro ⟨h1, h2, h3⟩
    have hn : 1 ≤ n := by
      rcases Nat.eq_zero_or_pos n with rfl | h
      · simp at h3; linarith
      · exact h
    refine ⟨n + 1, (gridPoints_eq_some_iff t0 t1 dt (n + 1)).mpr ⟨h1, h2, by omega, ?_⟩, by omega⟩
    unfold numSteps
    rw [h3]
    push_cast
    field_simp
    ring

theorem gridSteps_pos {t0 t1 dt : ℚ} {n : ℕ} (h : gridSteps t0 t1 dt = some n) : 1 ≤ n ∧ 0 < dt := by
  obtain ⟨h1, h2, h3⟩ := (gridSteps_eq_some_iff t0 t1 dt n).mp h
  have hn : 1 ≤ n := by
    rcases Nat.eq_zero_or_pos n with rfl | h
    · simp at h3; linarith
    · exact h
  refine ⟨hn, ?_⟩
  have hn' : (0 : ℚ) < (n : ℚ) := by exact_mod_cast hn
  by_contra hdt
  have : (n : ℚ) * dt ≤ 0 := mul_nonpos_of_nonneg_of_nonpos hn'.le (not_lt.mp hdt)
  linarith

theorem gridPoints_of_gridSteps {t0 t1 dt : ℚ} {n : ℕ} (h : gridSteps t0 t1 dt = some n) :
    gridPoints t0 t1 dt = some (n + 1) := by
  unfold gridSteps at h
  rw [Option.map_eq_some_iff] at h
  obtain ⟨p, hp, rfl⟩ := h
  have := ((gridPoints_eq_some_iff t0 t1 dt p).mp hp).2.2.1
  rw [hp, Nat.sub_add_cancel this]

theorem driverWholeSteps_eq_some_iff (t0 t1 dt : ℚ) (n : ℕ) :
    driverWholeSteps t0 t1 dt = some n ↔ dt ≠ 0 ∧ t1 - t0 = (n : ℚ) * dt := by
  unfold driverWholeSteps
  simp only [beq_iff_eq, Bool.and_eq_true, decide_eq_true_eq]
  constructor
  · intro h
    split_ifs at h with h1 h2
    refine ⟨h1, ?_⟩
    have hq : (((t1 - t0) / dt).num : ℚ) = (t1 - t0) / dt := Rat.coe_int_num_of_den_eq_one h2.1
    have hn : (((t1 - t0) / dt).num.toNat) = n := Option.some.inj h
    have : ((n : ℕ) : ℤ) = ((t1 - t0) / dt).num := by omega
    have h3 : ((n : ℕ) : ℚ) = (t1 - t0) / dt := by rw [← hq, ← this]; push_cast; rfl
    rw [h3]
    field_simp
  · rintro ⟨h1, h2⟩
    have hq : (t1 - t0) / dt = ((n : ℕ) : ℚ) := by rw [h2]; field_simp
    rw [if_neg h1, hq, if_pos]
    · simp
    · simp

theorem gridSteps_eq_driver (t0 t1 dt : ℚ) :
    gridSteps t0 t1 dt = if t0 < t1 then driverWholeSteps t0 t1 dt else none := by
  apply Option.ext
  intro n
  rw [gridSteps_eq_some_iff]
  split_ifs with h
  · rw [driverWholeSteps_eq_some_iff]; tauto
  · simp [h]

/-- the accepted grid is `t0, t0 + dt, …, t0 + n·dt = t1` -/
theorem gridTimes_eq_some {t0 t1 dt : ℚ} {ts : List ℚ} (h : gridTimes t0 t1 dt = some ts) :
    ∃ n, gridSteps t0 t1 dt = some n ∧ 1 ≤ n ∧ 0 < dt ∧ ts = linspace t0 t1 (n + 1) ∧ ts.length = n + 1 ∧
      (∀ i, i ≤ n → ts.getD i 0 = t0 + (i : ℚ) * dt) ∧ t1 = t0 + (n : ℚ) * dt := by
  unfold gridTimes at h
  rw [Option.map_eq_some_iff] at h
  obtain ⟨p, hp, rfl⟩ := h
  obtain ⟨h1, h2, h3, h4⟩ := (gridPoints_eq_some_iff t0 t1 dt p).mp hp
  have hs : gridSteps t0 t1 dt = some (p - 1) := by unfold gridSteps; rw [hp]; rfl
  obtain ⟨hn, hdt⟩ := gridSteps_pos hs
  have hspan := ((gridSteps_eq_some_iff t0 t1 dt (p - 1)).mp hs).2.2
  have hp' : p - 1 + 1 = p := Nat.sub_add_cancel h3
  have ht1 : t1 = t0 + ((p - 1 : ℕ) : ℚ) * dt := by linarith
  refine ⟨p - 1, hs, hn, hdt, by rw [hp'], by rw [hp']; exact length_linspace _ _ _, ?_, ht1⟩
  intro i hi
  have := linspace_step t0 dt p i (by omega) (by omega)
  rw [← this]
  congr 2
  rw [ht1, Nat.cast_sub h3]
  push_cast
  ring

theorem gridTimes_of_gridSteps {t0 t1 dt : ℚ} {n : ℕ} (h : gridSteps t0 t1 dt = some n) :
    gridTimes t0 t1 dt = some (linspace t0 t1 (n + 1)) := by
  unfold gridTimes
  rw [gridPoints_of_gridSteps h]
  rfl

/-! ### the constructor -/

theorem construct_eq_some_iff (refDate : Option ℤ) (unit : ℤ) (a b : TimeVal) (dt : ℚ) (g : TimeGrid) :
    construct refDate unit a b dt = some g ↔
      ∃ t0 t1 n, resolveTimes refDate unit a b = some (t0, t1) ∧ gridSteps t0 t1 dt = some n ∧
        g = { refDate := refDate, times := linspace t0 t1 (n + 1), timestep := dt } := by
  unfold construct
  constructor
  · intro h
    split at h
    · exact absurd h (by simp)
    · rename_i t0 t1 hres
      split at h
      · exact absurd h (by simp)
      · rename_i ts hts
        obtain ⟨n, hn, -, -, rfl, -⟩ := gridTimes_eq_some hts
        exact ⟨t0, t1, n, hres, hn, (Option.some.inj h).symm⟩
  · rintro ⟨t0, t1, n, hres, hn, rfl⟩
    rw [hres]
    simp only
    rw [gridTimes_of_gridSteps hn]

theorem resolveTimes_dates (ref unit ds de : ℤ) :
    resolveTimes (some ref) unit (.date ds) (.date de) = some (toNum ref unit ds, toNum ref unit de) := rfl

theorem resolveTimes_dates_none (unit ds de : ℤ) :
    resolveTimes none unit (.date ds) (.date de) = none := rfl

theorem resolveTimes_nums (refDate : Option ℤ) (unit : ℤ) (a b : ℚ) :
    resolveTimes refDate unit (.num a) (.num b) = some (a, b) := rfl

theorem refIdx_some_getD (rnd : ℚ → ℤ) (unit ref : ℤ) (ts : List ℚ) (dt : ℚ) (i : ℕ) (hi : i < ts.length) :
    (refIdx rnd unit { refDate := some ref, times := ts, timestep := dt }).getD i (.num 0) =
      .date (toDate rnd ref unit (ts.getD i 0)) := by
  simp [refIdx, List.getD_eq_getElem?_getD, hi]

theorem refIdx_none (rnd : ℚ → ℤ) (unit : ℤ) (ts : List ℚ) (dt : ℚ) :
    refIdx rnd unit { refDate := none, times := ts, timestep := dt } = ts.map .num := rfl

theorem toNum_toDate_eq_iff {rnd : ℚ → ℤ} (hr : IsRounding rnd) (ref unit : ℤ) (hu : 0 < unit) (t : ℚ) :
    toNum ref unit (toDate rnd ref unit t) = t ↔ ∃ m : ℤ, t * (unit : ℚ) = (m : ℚ) := by
  constructor
  · intro h
    have hu' : (unit : ℚ) ≠ 0 := by exact_mod_cast hu.ne'
    have h2 := toNum_toDate_sub rnd ref unit hu t
    rw [h, sub_self, eq_comm, div_eq_zero_iff] at h2
    rcases h2 with h2 | h2
    · exact ⟨rnd (t * (unit : ℚ)), by linarith⟩
    · exact absurd h2 hu'
  · rintro ⟨m, hm⟩
    exact toNum_toDate_of_whole hr ref unit hu t m hm

/-! ### the three assertions, literally -/

theorem gridPoints_isSome_iff (t0 t1 dt : ℚ) :
    (gridPoints t0 t1 dt).isSome = true ↔
      t1 > t0 ∧ dt ≠ 0 ∧ numSteps t0 t1 dt ≥ 1 ∧ fmod1 (numSteps t0 t1 dt) = 0 := by
  unfold gridPoints
  simp only
  split_ifs <;> simp_all

theorem gridSteps_isSome_iff_gridPoints (t0 t1 dt : ℚ) :
    (∃ n, gridSteps t0 t1 dt = some n) ↔ (gridPoints t0 t1 dt).isSome = true := by
  unfold gridSteps
  cases gridPoints t0 t1 dt <;> simp

theorem accepts_iff_quotient (t0 t1 dt : ℚ) :
    (∃ n, gridSteps t0 t1 dt = some n) ↔
      t0 < t1 ∧ dt ≠ 0 ∧ 0 ≤ (t1 - t0) / dt ∧ ∃ z : ℤ, (t1 - t0) / dt = (z : ℚ) := by
  constructor
  · rintro ⟨n, hn⟩
    obtain ⟨h1, h2, h3⟩ := (gridSteps_eq_some_iff t0 t1 dt n).mp hn
    have hk : (t1 - t0) / dt = (n : ℚ) := by rw [h3]; field_simp
    refine ⟨h1, h2, by rw [hk]; positivity, (n : ℤ), by rw [hk]; push_cast; rfl⟩
  · rintro ⟨h1, h2, h3, z, hz⟩
    have hz0 : 0 ≤ z := by
      rw [hz] at h3
      exact_mod_cast h3
    refine ⟨z.toNat, (gridSteps_eq_some_iff t0 t1 dt z.toNat).mpr ⟨h1, h2, ?_⟩⟩
    have : ((z.toNat : ℕ) : ℚ) = (z : ℚ) := by
      have : ((z.toNat : ℕ) : ℤ) = z := Int.toNat_of_nonneg hz0
      exact_mod_cast this
    rw [this, ← hz]
    field_simp

theorem accepts_iff_divides (t0 t1 dt : ℚ) :
    (∃ n, gridSteps t0 t1 dt = some n) ↔ 0 < dt ∧ ∃ n : ℕ, 1 ≤ n ∧ t1 - t0 = (n : ℚ) * dt := by
  constructor
  · rintro ⟨n, hn⟩
    obtain ⟨h1, h2⟩ := gridSteps_pos hn
    exact ⟨h2, n, h1, ((gridSteps_eq_some_iff t0 t1 dt n).mp hn).2.2⟩
  · rintro ⟨h1, n, h2, h3⟩
    have hn' : (0 : ℚ) < (n : ℚ) := by exact_mod_cast h2
    have : 0 < (n : ℚ) * dt := mul_pos hn' h1
    exact ⟨n, (gridSteps_eq_some_iff t0 t1 dt n).mpr ⟨by linarith, h1.ne', h3⟩⟩

/-! ### link to `Build.mkModel` as called by the driver -/

theorem mkModel_ok (t0 t1 dt : ℚ) (comps inf : List String) (m : Model ℚ)
    (h : Build.mkModel t0 t1 dt (driverWholeSteps t0 t1 dt) comps inf = .ok m) :
    ∃ n, gridSteps t0 t1 dt = some n ∧ m.t0 = t0 ∧ m.t1 = t1 ∧ m.dt = dt ∧ m.nTimes = n + 1 ∧
      (inf.all (comps.contains ·)) = true := by
  unfold Build.mkModel at h
  by_cases hlt : t0 < t1
  · rw [gridSteps_eq_driver, if_pos hlt]
    cases hd : driverWholeSteps t0 t1 dt with
    | none => rw [hd] at h; simp [guardE, hlt, fail, bind, Except.bind, pure, Except.pure] at h
    | some k =>
      rw [hd] at h
      refine ⟨k, rfl, ?_⟩
      simp only [guardE, hlt, decide_true, fail, bind, Except.bind, pure, Except.pure, if_true] at h
      split_ifs at h with hc
      · simp only [Except.ok.injEq] at h
        subst h
        exact ⟨rfl, rfl, rfl, rfl, by simpa using hc⟩
  · simp [guardE, hlt, fail, bind, Except.bind] at h

theorem mkModel_ok_of_gridSteps (t0 t1 dt : ℚ) (comps inf : List String) (n : ℕ)
    (hn : gridSteps t0 t1 dt = some n) (hi : (inf.all (comps.contains ·)) = true) :
    ∃ m, Build.mkModel t0 t1 dt (driverWholeSteps t0 t1 dt) comps inf = .ok m := by
  have hlt := ((gridSteps_eq_some_iff t0 t1 dt n).mp hn).1
  rw [gridSteps_eq_driver, if_pos hlt] at hn
  unfold Build.mkModel
  rw [hn]
  simp only [guardE, hlt, hi, decide_true, bind, Except.bind, pure, Except.pure, if_true]
  exact ⟨_, rfl⟩

end Summer.Proofs.Dates
