import Summer.Proofs.AggregateFoiSimple
import Summer.Proofs.Derived
/-
Helper lemmas for property C03, "derived_agg": derived outputs selected by NAME (and, optionally, by
strata filters over the OLD stratifications) aggregate under an unadjusted stratification.
-/
open Summer Summer.Build Summer.Run Summer.Generated Summer.Spec Summer.Derived
set_option linter.unusedSectionVars false
set_option linter.unnecessarySeqFocus false

namespace Summer.Proofs.AggregateMoreDerived
open Summer.Proofs Summer.Proofs.DerivedL

/-! ### `sumSelected` of a row given as a function of the list element -/
section sel
variable {α : Type} [Field α]

theorem sumSelected_map {β : Type} (l : List β) (p : β → Prop) [DecidablePred p] (X : β → α) :
    sumSelected l p (l.map X) = sumL (l.map (fun x => if p x then X x else 0)) := by
  unfold sumSelected
  congr 1
  apply List.ext_getElem
  · simp
  · intro i h1 h2
    have hi : i < l.length := by simpa using h2
    simp only [List.getElem_map, List.getElem_zipIdx, Nat.zero_add]
    rw [getD_eq_getElem _ _ _ (by simpa using hi)]
    simp

/-- two lists of equal length with the same `getD` entries are equal -/
theorem ext_getD {β : Type} (a b : List β) (d : β) (hlen : a.length = b.length)
    (h : ∀ i, i < a.length → a.getD i d = b.getD i d) : a = b := by
  apply List.ext_getElem hlen
  intro i h1 h2
  have := h i h1
  rwa [getD_eq_getElem _ _ _ h1, getD_eq_getElem _ _ _ h2] at this

theorem getD_map_lt {β γ : Type} (l : List β) (F : β → γ) (i : Nat) (d : β) (d' : γ) (hi : i < l.length) :
    (l.map F).getD i d' = F (l.getD i d) := by
  rw [getD_eq_getElem _ _ _ (by simpa using hi), getD_eq_getElem _ _ _ hi]
  simp

end sel

/-! ### strata filters over the old stratifications -/
section filt
variable {α : Type}

/-- a child satisfies a strata filter that does not mention the new stratification iff its parent does -/
theorem strataSelected_child (flt : Strata) (c : Comp) (name st : String) (hc : noKey c name)
    (hflt : ∀ kv ∈ flt, kv.1 ≠ name) :
    strataSelected flt (c.stratify name st) ↔ strataSelected flt c := by
  unfold strataSelected
  rw [stratify_noKey c name st hc]
  simp only [List.mem_append, List.mem_singleton]
  constructor
  · intro h kv hkv
    rcases h kv hkv with h' | h'
    · exact h'
    · exact absurd (by rw [h']) (hflt kv hkv)
  · intro h kv hkv
    exact Or.inl (h kv hkv)

theorem compSelected_child (names : List String) (flt : Strata) (c : Comp) (name st : String)
    (hc : noKey c name) (hflt : ∀ kv ∈ flt, kv.1 ≠ name) :
    compSelected names flt (c.stratify name st) ↔ compSelected names flt c := by
  unfold compSelected
  rw [strataSelected_child flt c name st hc hflt, stratify_noKey c name st hc]

theorem endSelected_child (s : Strat α) (flt : Strata) (e : Option Comp) (st : String)
    (he : ∀ d, e = some d → noKey d s.name) (hflt : ∀ kv ∈ flt, kv.1 ≠ s.name) :
    endSelected flt (childEnd s st e) ↔ endSelected flt e := by
  cases e with
  | none => rfl
  | some d => exact strataSelected_child flt d s.name st (he d rfl) hflt

end filt

/-! ### Theorem A: compartment outputs, one row -/
section compRow
variable {α : Type} [Field α]

/-- core of A at the level of compartment lists -/
theorem comp_output_agg_core {comps : List Comp} {s : Strat α} (ok : StratOk comps s)
    (names : List String) (flt : Strata) (hflt : ∀ kv ∈ flt, kv.1 ≠ s.name)
    (row' : List α) (hrow : row'.length = (stratifyComps comps s).length) :
    sumSelected (stratifyComps comps s) (compSelected names flt) row'
      = sumSelected comps (compSelected names flt) (agg comps s row') := by
  have hnd' := stratifyComps_nodup comps s ok.fresh ok.nodup ok.strataNodup
  rw [agg_eq_map ok row' hrow, sumSelected_map]
  conv_lhs => rw [eq_map_popOf _ hnd' row' hrow]
  rw [sumSelected_map]
  have h1 := sumL_filter_map (α := α) (stratifyComps comps s) (fun c => decide (compSelected names flt c))
    (fun c' => popOf (stratifyComps comps s) row' (some c'))
  have h2 := sumL_filter_map (α := α) comps (fun c => decide (compSelected names flt c))
    (fun c => if isStratified s c then
        sumL (s.strata.map (fun st => popOf (stratifyComps comps s) row' (some (c.stratify s.name st))))
      else popOf (stratifyComps comps s) row' (some c))
  simp only [decide_eq_true_eq] at h1 h2
  rw [← h1, ← h2]
  exact infSum_agg comps s _ _ _
    (fun c hc st => by
      rw [decide_eq_decide]
      exact compSelected_child names flt c s.name st (freshFor_mem ok.fresh c hc) hflt)
    (fun c _ => rfl)

/-- **comp_output_agg_row** (filters over old stratifications allowed) -/
theorem comp_output_agg_row_filter {m m' : Model α} {s : Strat α} (ok : StratOk m.comps s)
    (hcomps : m'.comps = stratifyComps m.comps s)
    (names : List String) (flt : Strata) (hflt : ∀ kv ∈ flt, kv.1 ≠ s.name)
    (row' : List α) (hrow : row'.length = m'.comps.length) :
    compOutputAt m' names flt row' = compOutputAt m names flt (agg m.comps s row') := by
  unfold compOutputAt
  rw [hcomps] at hrow ⊢
  exact comp_output_agg_core ok names flt hflt row' hrow

end compRow

/-! ### Theorem B: flow outputs, one row -/
section flowRow
variable {α : Type} [Field α]

theorem copies_name (s : Strat α) (f g : Flow α) (hg : g ∈ copiesA s f) : g.name = f.name := by
  unfold copiesA at hg
  simp only [] at hg
  split_ifs at hg <;> simp only [List.mem_map, List.mem_singleton] at hg
  all_goals first
    | (subst hg; rfl)
    | (obtain ⟨st, _, rfl⟩ := hg; rfl)

theorem endSelected_nil (e : Option Comp) : endSelected [] e := by
  cases e with
  | none => trivial
  | some c => intro kv hkv; cases hkv

/-- with empty filters a copy is selected iff its parent is -/
theorem flowSelected_copy_nil (s : Strat α) (name : String) (f g : Flow α) (hg : g ∈ copiesA s f) :
    flowSelectedD name [] [] g ↔ flowSelectedD name [] [] f := by
  unfold flowSelectedD
  rw [copies_name s f g hg]
  simp only [endSelected_nil, and_true]

/-- with filters over the old stratifications a copy is selected iff its parent is -/
theorem flowSelected_copy {comps : List Comp} {s : Strat α} (hfresh : freshFor comps s = true)
    (name : String) (ss ds : Strata) (hss : ∀ kv ∈ ss, kv.1 ≠ s.name) (hds : ∀ kv ∈ ds, kv.1 ≠ s.name)
    (f g : Flow α) (hg : g ∈ copiesA s f)
    (hsrc : ∀ d, f.src = some d → d ∈ comps) (hdst : ∀ d, f.dst = some d → d ∈ comps) :
    flowSelectedD name ss ds g ↔ flowSelectedD name ss ds f := by
  obtain ⟨st, h1, h2⟩ := copies_ends s f g hg
  unfold flowSelectedD
  rw [copies_name s f g hg]
  have e1 : endSelected ss g.src ↔ endSelected ss f.src := by
    rcases h1 with h | h
    · rw [h]
    · rw [h]
      exact endSelected_child s ss f.src st (fun d hd => freshFor_mem hfresh d (hsrc d hd)) hss
  have e2 : endSelected ds g.dst ↔ endSelected ds f.dst := by
    rcases h2 with h | h
    · rw [h]
    · rw [h]
      exact endSelected_child s ds f.dst st (fun d hd => freshFor_mem hfresh d (hdst d hd)) hds
  rw [e1, e2]

/-- core of B: any selection predicate that a copy satisfies iff its parent does, and that no extra
flow satisfies -/
theorem flow_output_agg_core (s : Strat α) (flows extra : List (Flow α)) (p : Flow α → Prop) [DecidablePred p]
    (R R' : Flow α → α)
    (hsum : ∀ f ∈ flows, sumL ((copiesA s f).map R') = R f)
    (hsel : ∀ f ∈ flows, ∀ g ∈ copiesA s f, (p g ↔ p f))
    (hextra : ∀ g ∈ extra, ¬ p g) :
    sumSelected (flows.flatMap (copiesA s) ++ extra) p ((flows.flatMap (copiesA s) ++ extra).map R')
      = sumSelected flows p (flows.map R) := by
  rw [sumSelected_map, sumSelected_map, List.map_append, sumL_append, sumL_flatMap]
  have hex : sumL (extra.map (fun g => if p g then R' g else 0)) = 0 := by
    apply sumL_eq_zero_of_all_zero
    intro v hv
    simp only [List.mem_map] at hv
    obtain ⟨g, hg, rfl⟩ := hv
    rw [if_neg (hextra g hg)]
  rw [hex, add_zero]
  apply sumL_map_congr
  intro f hf
  by_cases hp : p f
  · rw [if_pos hp, ← hsum f hf]
    apply sumL_map_congr
    intro g hg
    rw [if_pos ((hsel f hf g hg).2 hp)]
  · rw [if_neg hp]
    apply sumL_eq_zero_of_all_zero
    intro v hv
    simp only [List.mem_map] at hv
    obtain ⟨g, hg, rfl⟩ := hv
    rw [if_neg (fun h => hp ((hsel f hf g hg).1 h))]

/-- **flow_output_agg_row**: selection by name only -/
theorem flow_output_agg_row {m m' : Model α} {s : Strat α} (extra : List (Flow α)) (name : String)
    (hflows : m'.flows = m.flows.flatMap (copiesA s) ++ extra)
    (hextraName : ∀ g ∈ extra, g.name ≠ name) (R R' : Flow α → α)
    (hsum : ∀ f ∈ m.flows, sumL ((copiesA s f).map R') = R f) :
    flowOutputAt m' name [] [] (m'.flows.map R') = flowOutputAt m name [] [] (m.flows.map R) := by
  unfold flowOutputAt
  rw [hflows]
  exact flow_output_agg_core s m.flows extra _ R R' hsum
    (fun f _ g hg => flowSelected_copy_nil s name f g hg)
    (fun g hg h => hextraName g hg h.1)

/-- **flow_output_agg_row_filter**: selection by name and by source / destination filters over the old
stratifications -/
theorem flow_output_agg_row_filter {m m' : Model α} {s : Strat α} (hfresh : freshFor m.comps s = true)
    (extra : List (Flow α)) (name : String) (ss ds : Strata)
    (hss : ∀ kv ∈ ss, kv.1 ≠ s.name) (hds : ∀ kv ∈ ds, kv.1 ≠ s.name)
    (hflows : m'.flows = m.flows.flatMap (copiesA s) ++ extra)
    (hextraName : ∀ g ∈ extra, g.name ≠ name)
    (hends : ∀ f ∈ m.flows, (∀ d, f.src = some d → d ∈ m.comps) ∧ (∀ d, f.dst = some d → d ∈ m.comps))
    (R R' : Flow α → α)
    (hsum : ∀ f ∈ m.flows, sumL ((copiesA s f).map R') = R f) :
    flowOutputAt m' name ss ds (m'.flows.map R') = flowOutputAt m name ss ds (m.flows.map R) := by
  unfold flowOutputAt
  rw [hflows]
  exact flow_output_agg_core s m.flows extra _ R R' hsum
    (fun f hf g hg => flowSelected_copy hfresh name ss ds hss hds f g hg (hends f hf).1 (hends f hf).2)
    (fun g hg h => hextraName g hg h.1)

end flowRow

/-! ### flow outputs, series -/
section flowSeries
variable {α : Type} [Field α] [LinearOrder α]

/-- equal raw values row by row give equal flow series, raw or not -/
theorem flow_series_eq (m m' : Model α) (d d' : RunData α) (done done' : List (String × List α))
    (name : String) (ss ds : Strata) (hlen : d.flows.length = d'.flows.length)
    (hrow : ∀ i, i < d'.flows.length →
      flowOutputAt m' name ss ds (d'.flows.getD i []) = flowOutputAt m name ss ds (d.flows.getD i []))
    (raw : Bool) :
    ∃ ser ser', evalRequest m' d' done' (.flow name ss ds raw) = some ser' ∧
      evalRequest m d done (.flow name ss ds raw) = some ser ∧ ser' = ser := by
  have key : sumCols d'.flows (flowIndices m' name ss ds) = sumCols d.flows (flowIndices m name ss ds) := by
    apply ext_getD _ _ 0 (by rw [sumCols_length, sumCols_length, hlen])
    intro i hi
    rw [sumCols_length] at hi
    rw [sumCols_flow_getD m' d'.flows name ss ds i hi, sumCols_flow_getD m d.flows name ss ds i (by omega)]
    exact hrow i hi
  refine ⟨_, _, evalRequest_flow m' d' done' name ss ds raw, evalRequest_flow m d done name ss ds raw, ?_⟩
  rw [key]

end flowSeries

/-! ### Theorem C: the runner's flow rates -/
section runner
variable {α : Type} [Field α] [LT α] [DecidableLT α]

theorem flow_rates_agg {m m' : Model α} {s : Strat α} {b b' : Backend} (ok : StratOk m.comps s)
    (hn : (s.strata.length : α) ≠ 0) (hstrain : s.kind ≠ .strain) (hage : s.kind = .age → "0" ∈ s.strata)
    (extra : List (Flow α))
    (hcomps : m'.comps = stratifyComps m.comps s)
    (hflows : m'.flows = m.flows.flatMap (copiesA s) ++ extra)
    (hextra : ∀ g ∈ extra, IsSiblingFlow m.comps s g)
    (hb : BackendFor m b) (hb' : BackendFor m' b') (hs : sourcedOk m = true)
    (x' : List α) (hx : x'.length = m'.comps.length) (env : Env α) (mults mults' : List α)
    (M M' : Flow α → α)
    (hM : ∀ i (hi : i < m.flows.length), isInfection m.flows[i].kind = true →
      mults.getD (infPos m i) 1 = M m.flows[i])
    (hM' : ∀ i (hi : i < m'.flows.length), isInfection m'.flows[i].kind = true →
      mults'.getD (infPos m' i) 1 = M' m'.flows[i])
    (hMM : ∀ f ∈ m.flows, isInfection f.kind = true → ∀ g ∈ copiesA s f, M' g = M f) :
    ∃ R R' : Flow α → α,
      flowRates b' (m'.flows.map (weightVal env)) x' mults' = m'.flows.map R' ∧
      flowRates b (m.flows.map (weightVal env)) (agg m.comps s x') mults = m.flows.map R ∧
      ∀ f ∈ m.flows, sumL ((copiesA s f).map R') = R f := by
  have hends := ends_of_backendFor hb
  have hmem' : ∀ g ∈ m'.flows, (∃ f ∈ m.flows, g ∈ copiesA s f) ∨ g ∈ extra := by
    intro g hg
    rw [hflows, List.mem_append, List.mem_flatMap] at hg
    exact hg
  have hs' : sourcedOk m' = true := by
    unfold sourcedOk
    rw [List.all_eq_true]
    intro g hg
    rcases hmem' g hg with ⟨f, hf, hgf⟩ | hge
    · have := List.all_eq_true.1 hs f hf
      rw [copies_kind s f g hgf, copies_src_isSome s f g hgf]; exact this
    · obtain ⟨_, _, _, _, _, hsrc, _⟩ := hextra g hge
      simp [hsrc]
  have hx2 : x'.length = (stratifyComps m.comps s).length := by rw [← hcomps]; exact hx
  refine ⟨fun f => rateLaw m.comps (agg m.comps s x') (deathTot m (weightVal env) (agg m.comps s x'))
        (weightVal env f) f * multOf M f,
    fun g => rateLaw (stratifyComps m.comps s) x' (deathTot m (weightVal env) (agg m.comps s x'))
        (weightVal env g) g * multOf M' g, ?_, ?_, ?_⟩
  · rw [flowRates_eq_map_mult hb' hs' _ _ _ M' hM',
      deathTot_agg ok hn hstrain hage extra hcomps hflows hextra (fun f hf => (hends f hf).1) x' hx env, hcomps]
  · rw [flowRates_eq_map_mult hb hs _ _ _ M hM]
  · intro f hf
    beta_reduce
    rw [← copies_rate_sum ok hn hstrain hage x' hx2 f (hends f hf).1 _ env, ← sumL_map_mul_right]
    apply sumL_map_congr
    intro g hg
    rw [multOf_copy s M M' f g hg (fun hk => hMM f hf hk g hg)]

/-- B and C combined: the named flow output read off the runner's flow rates -/
theorem flow_output_agg {m m' : Model α} {s : Strat α} {b b' : Backend} (ok : StratOk m.comps s)
    (hn : (s.strata.length : α) ≠ 0) (hstrain : s.kind ≠ .strain) (hage : s.kind = .age → "0" ∈ s.strata)
    (extra : List (Flow α))
    (hcomps : m'.comps = stratifyComps m.comps s)
    (hflows : m'.flows = m.flows.flatMap (copiesA s) ++ extra)
    (hextra : ∀ g ∈ extra, IsSiblingFlow m.comps s g)
    (hb : BackendFor m b) (hb' : BackendFor m' b') (hs : sourcedOk m = true)
    (x' : List α) (hx : x'.length = m'.comps.length) (env : Env α) (mults mults' : List α)
    (M M' : Flow α → α)
    (hM : ∀ i (hi : i < m.flows.length), isInfection m.flows[i].kind = true →
      mults.getD (infPos m i) 1 = M m.flows[i])
    (hM' : ∀ i (hi : i < m'.flows.length), isInfection m'.flows[i].kind = true →
      mults'.getD (infPos m' i) 1 = M' m'.flows[i])
    (hMM : ∀ f ∈ m.flows, isInfection f.kind = true → ∀ g ∈ copiesA s f, M' g = M f)
    (name : String) (ss ds : Strata)
    (hss : ∀ kv ∈ ss, kv.1 ≠ s.name) (hds : ∀ kv ∈ ds, kv.1 ≠ s.name)
    (hextraName : ∀ g ∈ extra, g.name ≠ name) :
    flowOutputAt m' name ss ds (flowRates b' (m'.flows.map (weightVal env)) x' mults')
      = flowOutputAt m name ss ds (flowRates b (m.flows.map (weightVal env)) (agg m.comps s x') mults) := by
  obtain ⟨R, R', h1, h2, h3⟩ := flow_rates_agg ok hn hstrain hage extra hcomps hflows hextra hb hb' hs x' hx env
    mults mults' M M' hM hM' hMM
  rw [h1, h2]
  exact flow_output_agg_row_filter ok.fresh extra name ss ds hss hds hflows hextraName
    (ends_of_backendFor hb) R R' h3

end runner

/-! ### the names of the ageing flows -/
section names
variable {α : Type} [One α] [Div α] [NatCast α]

/-- the invariant kept by the ageing loop, with the names of the flows it adds -/
def AgeInvN (comps : List Comp) (s : Strat α) (base : List (Flow α)) (acc : Model α) : Prop :=
  acc.comps = stratifyComps comps s ∧
    ∃ extra, acc.flows = base ++ extra ∧ ∀ g ∈ extra, IsSiblingFlow comps s g ∧ ∃ t, g.name = "ageing_" ++ t

/-- `stratifyWith_shape` with, in addition, the names of the extra (ageing) flows: they all start with
`"ageing_"` -/
theorem stratifyWith_shape_names (m m' : Model α) (s : Strat α) (h : stratifyWith m s = .ok m')
    (hfa : s.flowAdj = []) (hmix : s.mixing = none) (hk : s.kind ≠ .strain)
    (hfresh : freshFor m.comps s = true) :
    m'.comps = stratifyComps m.comps s ∧ ∃ extra, m'.flows = m.flows.flatMap (copiesA s) ++ extra ∧
      (∀ g ∈ extra, IsSiblingFlow m.comps s g) ∧ (∀ g ∈ extra, ∃ t, g.name = "ageing_" ++ t) ∧
      (s.kind ≠ .age → extra = []) := by
  have hk' : (s.kind == StratKind.strain) = false := by simpa using hk
  unfold stratifyWith at h
  simp only [hfa, hmix, Strat.isStrain, hk', List.forIn_nil, pure_bind, Bool.false_eq_true, if_false] at h
  replace h := (bind_guardE_ok _ _ _ _ h).2
  replace h := (bind_guardE_ok _ _ _ _ h).2
  replace h := (bind_guardE_ok _ _ _ _ h).2
  replace h := (bind_guardE_ok _ _ _ _ h).2
  rw [foldlM_stratifyFlow s hfa] at h
  obtain ⟨newFlows, hnf, h⟩ := bind_ok _ _ _ h
  simp only [Except.ok.injEq, List.nil_append] at hnf
  subst hnf
  obtain ⟨m4, hm4, h⟩ := bind_ok _ _ _ h
  simp only [pure, Except.pure, Except.ok.injEq] at h
  subst h
  simp only
  by_cases hage : s.isAgeing = true
  · simp only [hage, if_true] at hm4
    replace hm4 := (bind_guardE_ok _ _ _ _ hm4).2
    replace hm4 := (bind_guardE_ok _ _ _ _ hm4).2
    have hinv : AgeInvN m.comps s (m.flows.flatMap (copiesA s)) m4 := by
      refine foldlM_inv (AgeInvN m.comps s (m.flows.flatMap (copiesA s))) _ _ ?_ _ _ ?_ hm4
      · intro acc ab _ hacc acc' hstep
        refine foldlM_inv (AgeInvN m.comps s (m.flows.flatMap (copiesA s))) _ _ ?_ _ _ hacc hstep
        intro acc2 c hc hacc2 acc2' hstep2
        replace hstep2 := (bind_guardE_ok _ _ _ _ hstep2).2
        obtain ⟨hcomps, c1, c2, hm1, hm2, hfl⟩ := addTransitionCore_one _ _ _ _ _ _ _ _ _ hstep2
        obtain ⟨hac, extra, hex, hsib⟩ := hacc2
        refine ⟨hcomps.trans hac, extra ++ [_], by rw [hfl, hex, List.append_assoc], ?_⟩
        intro g hg
        rw [List.mem_append, List.mem_singleton] at hg
        rcases hg with hg | hg
        · exact hsib g hg
        · subst hg
          rw [hac] at hm1 hm2
          obtain ⟨c0, hc0, h1, h2⟩ := matching_sibling hfresh c hc _ _ c1 c2 hm1 hm2
          exact ⟨⟨rfl, c0, hc0, _, _, by rw [h1], by rw [h2]⟩, _, by
            simp only [String.append_assoc]; rfl⟩
      · exact ⟨rfl, [], by simp, by simp⟩
    obtain ⟨hc, extra, hex, hsib⟩ := hinv
    refine ⟨hc, extra, hex, fun g hg => (hsib g hg).1, fun g hg => (hsib g hg).2, ?_⟩
    intro hna
    simp only [Strat.isAgeing, beq_iff_eq] at hage
    exact absurd hage hna
  · simp only [hage, Bool.false_eq_true, if_false, pure, Except.pure, Except.ok.injEq] at hm4
    subst hm4
    exact ⟨rfl, [], by simp, by simp, by simp, fun _ => rfl⟩
end names

/-! ### names that do not start with `"ageing_"` -/

/-- a decidable sufficient condition for "`name` is not the name of an ageing flow" -/
theorem not_ageing_of_toList (name : String) (h : "ageing_".toList.isPrefixOf name.toList = false) :
    ∀ t, name ≠ "ageing_" ++ t := by
  intro t e
  subst e
  rw [String.toList_append] at h
  have : "ageing_".toList.isPrefixOf ("ageing_".toList ++ t.toList) = true := by
    rw [List.isPrefixOf_iff_prefix]; exact List.prefix_append _ _
  rw [this] at h; cases h

/-- the extra flows of a stratified model do not carry a name that does not start with `"ageing_"` -/
theorem extra_name_ne {α : Type} (s : Strat α) (extra : List (Flow α)) (name : String)
    (hnames : ∀ g ∈ extra, ∃ t, g.name = "ageing_" ++ t) (hnil : s.kind ≠ .age → extra = [])
    (hname : s.kind = .age → ∀ t, name ≠ "ageing_" ++ t) : ∀ g ∈ extra, g.name ≠ name := by
  intro g hg e
  by_cases hk : s.kind = .age
  · obtain ⟨t, ht⟩ := hnames g hg
    exact hname hk t (by rw [← e, ht])
  · rw [hnil hk] at hg; cases hg

end Summer.Proofs.AggregateMoreDerived
