import Summer.Proofs.AggregateBuild
import Mathlib.Tactic.FieldSimp
/-
Helper lemmas for property C03, part 2: the algebra — weights of the copiesA, sums of the copiesA'
rates, and the aggregate of the compartment rates.
-/
open Summer Summer.Build Summer.Run Summer.Generated Summer.Spec
set_option linter.unusedSectionVars false
set_option linter.unnecessarySeqFocus false

namespace Summer.Proofs

section
variable {α : Type} [Field α] [LT α] [DecidableLT α]

/-! ### weights of the copiesA -/

theorem weightVal_copy_nil (env : Env α) (f : Flow α) (s : Strat α) (a b : Bool) (st : String) :
    weightVal env (copy f s a b [] st) = weightVal env f := by
  unfold weightVal; rw [realised_copy_nil]

theorem weightVal_copy_share (env : Env α) (f : Flow α) (s : Strat α) (a b : Bool) (n : Nat) (st : String) :
    weightVal env (copy f s a b [shareA n] st) = weightVal env f * ((1 : α) / (n : α)) := by
  unfold weightVal; rw [realised_copy_share, eval_mul_const]
  cases (realised f).eval env <;> simp

theorem sumL_map_const {β} (l : List β) (c : α) : sumL (l.map (fun _ => c)) = (l.length : α) * c := by
  induction l with
  | nil => simp [sumL]
  | cons x xs ih => simp only [List.map_cons, sumL, ih, List.length_cons, Nat.cast_succ]; ring

theorem share_sum (n : Nat) (hn : (n : α) ≠ 0) (w : α) : (n : α) * (w * ((1 : α) / (n : α))) = w := by
  field_simp

theorem filter_zero_of_nodup (l : List String) (hnd : l.Nodup) (h0 : "0" ∈ l) :
    l.filter (fun st => st == "0") = ["0"] := by
  rw [List.filter_beq, List.count_eq_one_of_mem hnd h0]; rfl


theorem wsum_share (env : Env α) (f : Flow α) (s : Strat α) (a b : Bool) (hn : (s.strata.length : α) ≠ 0) :
    sumL ((s.strata.map (copy f s a b [shareA s.strata.length])).map (weightVal env)) = weightVal env f := by
  rw [List.map_map]
  have : (weightVal env ∘ copy f s a b [shareA s.strata.length]) =
      fun _ => weightVal env f * ((1 : α) / (s.strata.length : α)) := by
    funext st; exact weightVal_copy_share env f s a b _ st
  rw [this, sumL_map_const, share_sum _ hn]

/-- the weights of the copiesA of an entry or absolute flow add up to the parent's weight -/
theorem copies_weight_sum (env : Env α) (s : Strat α) (f : Flow α) (hst : s.strata.Nodup)
    (hn : (s.strata.length : α) ≠ 0) (hage : s.kind = .age → "0" ∈ s.strata)
    (hk : isSourced f.kind = false) :
    sumL ((copiesA s f).map (weightVal env)) = weightVal env f := by
  unfold copiesA
  by_cases he : isEntryKind f.kind = true
  · simp only [he, if_true]
    by_cases hd : endStratified f.dst s = true
    · simp only [hd, Bool.not_true, Bool.false_eq_true, if_false]
      by_cases hb : (isBirthKind f.kind && s.kind == .age) = true
      · simp only [hb, if_true]
        have hage' : s.kind = .age := by
          simp only [Bool.and_eq_true, beq_iff_eq] at hb; exact hb.2
        rw [filter_zero_of_nodup _ hst (hage hage')]
        simp [sumL, weightVal_copy_nil]
      · simp only [hb, Bool.false_eq_true, if_false]
        exact wsum_share env f s _ _ hn
    · simp [hd, sumL]
  · have hdth : isDeath f.kind = false := by
      cases hkk : f.kind <;> simp [hkk, isSourced, isDeath] at hk ⊢
    simp only [he, hdth, Bool.false_eq_true, if_false]
    by_cases hds : (endStratified f.dst s || endStratified f.src s) = true
    · simp only [hds, Bool.not_true, Bool.false_eq_true, if_false]
      by_cases hc : (endStratified f.dst s && !endStratified f.src s && !(s.kind == .strain)) = true
      · simp only [hc, if_true]
        exact wsum_share env f s _ _ hn
      · simp only [hc, Bool.false_eq_true, if_false]
        have habs : f.kind = .absolute := by
          cases hkk : f.kind <;> simp [hkk, isSourced, isEntryKind] at hk he ⊢
        by_cases h1 : 1 < s.strata.length
        · simp only [habs, h1, BEq.rfl, decide_true, Bool.and_self, if_true]
          exact wsum_share env f s _ _ hn
        · have hlen : s.strata.length = 1 := by
            have : s.strata.length ≠ 0 := by
              intro h0; rw [h0] at hn; simp at hn
            omega
          simp only [habs, h1, BEq.rfl, decide_false, Bool.and_false, Bool.false_eq_true, if_false]
          match hs : s.strata, hlen with
          | [st], _ => simp [sumL, weightVal_copy_nil]
    · simp [hds, sumL]
end

/-- the standing structural hypotheses on the compartment list and the stratification -/
structure StratOk {α : Type} (comps : List Comp) (s : Strat α) : Prop where
  fresh : freshFor comps s = true
  nodup : comps.Nodup
  strataNodup : s.strata.Nodup

section
variable {α : Type} [Field α]

/-- `agg` of a stratified vector, compartment by compartment -/
theorem agg_eq_map {comps : List Comp} {s : Strat α} (ok : StratOk comps s) (x' : List α)
    (hx : x'.length = (stratifyComps comps s).length) :
    agg comps s x' = comps.map (fun c =>
      if isStratified s c then
        sumL (s.strata.map (fun st => popOf (stratifyComps comps s) x' (some (c.stratify s.name st))))
      else popOf (stratifyComps comps s) x' (some c)) := by
  have hnd := stratifyComps_nodup comps s ok.fresh ok.nodup ok.strataNodup
  conv_lhs => rw [eq_map_popOf _ hnd x' hx]
  exact aggBy_map (isStratified s) s.strata (fun c st => c.stratify s.name st)
    (fun c' => popOf (stratifyComps comps s) x' (some c')) comps

theorem popOf_agg {comps : List Comp} {s : Strat α} (ok : StratOk comps s) (x' : List α)
    (hx : x'.length = (stratifyComps comps s).length) (c : Comp) (hc : c ∈ comps) :
    popOf comps (agg comps s x') (some c) =
      if isStratified s c then
        sumL (s.strata.map (fun st => popOf (stratifyComps comps s) x' (some (c.stratify s.name st))))
      else popOf (stratifyComps comps s) x' (some c) := by
  rw [agg_eq_map ok x' hx, popOf_map comps _ c hc]

/-- the total population is unchanged by aggregation -/
theorem agg_total (comps : List Comp) (s : Strat α) (x' : List α)
    (hx : x'.length = (stratifyComps comps s).length) : sumL (agg comps s x') = sumL x' := by
  unfold agg
  exact sumL_aggBy _ _ _ _ (by rw [hx, stratifyComps_length])

theorem agg_length (comps : List Comp) (s : Strat α) (x' : List α) : (agg comps s x').length = comps.length :=
  aggBy_length _ _ _ _

end
section
variable {α : Type} [Field α]

theorem popOf_agg_end {comps : List Comp} {s : Strat α} (ok : StratOk comps s) (x' : List α)
    (hx : x'.length = (stratifyComps comps s).length) (e : Option Comp) (he : ∀ c, e = some c → c ∈ comps) :
    popOf comps (agg comps s x') e =
      if endStratified e s then sumL (s.strata.map (fun st => popOf (stratifyComps comps s) x' (childEnd s st e)))
      else popOf (stratifyComps comps s) x' e := by
  cases e with
  | none => simp [endStratified, popOf_none]
  | some c => exact popOf_agg ok x' hx c (he c rfl)

/-- shape of the copiesA of a population-proportional flow -/
theorem copies_sourced (s : Strat α) (f : Flow α) (hk : isSourced f.kind = true) (hs : s.kind ≠ .strain) :
    copiesA s f =
      if endStratified f.src s then
        s.strata.map (copy f s true (!isDeath f.kind && endStratified f.dst s) [])
      else if !isDeath f.kind && endStratified f.dst s then
        s.strata.map (copy f s false true [shareA s.strata.length])
      else [f] := by
  have hs' : (s.kind == StratKind.strain) = false := by simpa using hs
  cases hkk : f.kind <;> simp [hkk, isSourced] at hk <;>
    simp only [copiesA, hkk, isEntryKind, isDeath, hs'] <;>
    cases endStratified f.src s <;> cases endStratified f.dst s <;> simp

/-- the factor multiplying the weight of a flow whose rate is not proportional to a source population -/
def unsrcFactor (k : FlowKind) (tot deaths : α) : α :=
  match k with
  | .crudeBirth => tot
  | .replBirth => deaths
  | _ => 1

theorem rateLaw_sourced (C : List Comp) (x : List α) (D wt : α) (f : Flow α) (h : isSourced f.kind = true) :
    rateLaw C x D wt f = wt * popOf C x f.src := by
  cases hk : f.kind <;> simp [hk, isSourced] at h <;> simp [rateLaw, hk]

theorem rateLaw_unsourced (C : List Comp) (x : List α) (D wt : α) (f : Flow α) (h : isSourced f.kind = false) :
    rateLaw C x D wt f = wt * unsrcFactor f.kind (sumL x) D := by
  cases hk : f.kind <;> simp [hk, isSourced] at h <;> simp [rateLaw, hk, unsrcFactor]

theorem sumL_map_mul_left {β} (l : List β) (f : β → α) (k : α) :
    sumL (l.map (fun x => k * f x)) = k * sumL (l.map f) := by
  induction l with
  | nil => simp [sumL]
  | cons x xs ih => simp only [List.map_cons, sumL, ih, mul_add]

theorem copies_kind (s : Strat α) (f g : Flow α) (hg : g ∈ copiesA s f) : g.kind = f.kind := by
  unfold copiesA at hg
  simp only [] at hg
  split_ifs at hg <;> simp only [List.mem_map, List.mem_singleton] at hg
  all_goals first
    | (subst hg; rfl)
    | (obtain ⟨st, _, rfl⟩ := hg; rfl)
end

section
variable {α : Type} [Field α] [LT α] [DecidableLT α]

/-- **C03.copies_rate_sum** (all kinds; for infection flows: the rate before the force-of-infection
multiplier).  The copiesA' rates at the stratified state add up to the parent's rate at the aggregated
state. -/
theorem copies_rate_sum {comps : List Comp} {s : Strat α} (ok : StratOk comps s)
    (hn : (s.strata.length : α) ≠ 0) (hstrain : s.kind ≠ .strain) (hage : s.kind = .age → "0" ∈ s.strata)
    (x' : List α) (hx : x'.length = (stratifyComps comps s).length)
    (f : Flow α) (hsrc : ∀ c, f.src = some c → c ∈ comps) (D : α) (env : Env α) :
    sumL ((copiesA s f).map (fun g => rateLaw (stratifyComps comps s) x' D (weightVal env g) g))
      = rateLaw comps (agg comps s x') D (weightVal env f) f := by
  by_cases hk : isSourced f.kind = true
  · rw [rateLaw_sourced _ _ _ _ _ hk, popOf_agg_end ok x' hx f.src hsrc, copies_sourced s f hk hstrain]
    by_cases hs : endStratified f.src s = true
    · simp only [hs, if_true, List.map_map]
      rw [← sumL_map_mul_left]
      apply sumL_map_congr
      intro st _
      simp only [Function.comp]
      rw [rateLaw_sourced _ _ _ _ _ (by exact hk), weightVal_copy_nil]
      rfl
    · simp only [hs, Bool.false_eq_true, if_false]
      by_cases hd : (!isDeath f.kind && endStratified f.dst s) = true
      · simp only [hd, if_true, List.map_map]
        have : ((fun g => rateLaw (stratifyComps comps s) x' D (weightVal env g) g) ∘
            copy f s false true [shareA s.strata.length]) =
            fun _ => weightVal env f * ((1 : α) / (s.strata.length : α)) * popOf (stratifyComps comps s) x' f.src := by
          funext st
          simp only [Function.comp]
          rw [rateLaw_sourced _ _ _ _ _ (by exact hk), weightVal_copy_share]
          rfl
        rw [this, sumL_map_const, ← mul_assoc, share_sum _ hn]
      · simp only [hd, Bool.false_eq_true, if_false, List.map_cons, List.map_nil, sumL, add_zero]
        rw [rateLaw_sourced _ _ _ _ _ hk]
  · have hk' : isSourced f.kind = false := by simpa using hk
    rw [rateLaw_unsourced _ _ _ _ _ hk', agg_total comps s x' hx,
      ← copies_weight_sum env s f ok.strataNodup hn hage hk', ← sumL_map_mul_right]
    apply sumL_map_congr
    intro g hg
    have hgk := copies_kind s f g hg
    rw [rateLaw_unsourced _ _ _ _ _ (by rw [hgk]; exact hk'), hgk]
end
section
variable {α : Type} [Field α]

/-- indicator of "the (optional) flow end `e` is compartment `c`" -/
def ind (c : Comp) (e : Option Comp) : α := if e = some c then 1 else 0

/-- coefficient of flow `f` in the rate of compartment `c` -/
def cind (c : Comp) (f : Flow α) : α := ind c f.dst - ind c f.src

theorem zip_map_self {β γ} (l : List β) (R : β → γ) : l.zip (l.map R) = l.map (fun f => (f, R f)) := by
  induction l with
  | nil => rfl
  | cons x xs ih => simp [ih]

theorem bind_compIdx_eq_iff (comps : List Comp) (hnd : comps.Nodup) (e : Option Comp) (k : Nat)
    (hk : k < comps.length) : e.bind (compIdx comps) = some k ↔ e = some comps[k] := by
  cases e with
  | none => simp
  | some d =>
    simp only [Option.bind_some, Option.some.injEq]
    constructor
    · intro h
      have := indexOf?_some comps d k h
      rw [List.getElem?_eq_getElem hk] at this
      simpa using this.symm
    · intro h
      subst h
      exact indexOf?_getElem_nodup comps hnd k hk

theorem coef_eq_cind (m : Model α) (hnd : m.comps.Nodup) (k : Nat) (hk : k < m.comps.length) (f : Flow α) :
    coef m k f = cind m.comps[k] f := by
  unfold coef cind ind dstIx srcIx
  simp only [beq_iff_eq, bind_compIdx_eq_iff m.comps hnd _ k hk]

/-- the compartment rates as a function of the compartment, for a rate vector given as a function of the flow -/
theorem compRates_eq_map {m : Model α} {b : Backend} (hb : BackendFor m b) (hnd : m.comps.Nodup)
    (R : Flow α → α) :
    compRates b (m.flows.map R) = m.comps.map (fun c => sumL (m.flows.map (fun f => cind c f * R f))) := by
  apply List.ext_getElem
  · simp [compRates_length hb]
  · intro k h1 h2
    have hk : k < m.comps.length := by simpa using h2
    have := compRates_getD hb (m.flows.map R) k hk
    rw [getD_eq_getElem _ _ _ h1] at this
    rw [this, zip_map_self, List.map_map]
    simp only [List.getElem_map]
    apply sumL_map_congr
    intro f _
    simp only [Function.comp]
    rw [coef_eq_cind m hnd k hk f]
end
section
variable {α : Type} [Field α]

/-- total death rate, as a sum over the flow list -/
def deathTot (m : Model α) (W : Flow α → α) (x : List α) : α :=
  sumL ((m.flows.filter (fun f => isDeath f.kind)).map (fun f => W f * popOf m.comps x f.src))

theorem srcPop_eq_popOf (m : Model α) (x : List α) (f : Flow α) : srcPop m x f = popOf m.comps x f.src := rfl

theorem deathTotal_map (m : Model α) (W : Flow α → α) (x : List α) :
    deathTotal m (m.flows.map W) x = deathTot m W x := by
  unfold deathTotal deathTot
  rw [zip_map_self, List.filter_map, List.map_map]
  rfl

/-- `flowRates` of a model without infection flows, as a function of the flow -/
theorem flowRates_eq_map {m : Model α} {b : Backend} (hb : BackendFor m b) (hs : sourcedOk m = true)
    (hni : ∀ f ∈ m.flows, isInfection f.kind = false) (W : Flow α → α) (x mults : List α) :
    flowRates b (m.flows.map W) x mults =
      m.flows.map (fun f => rateLaw m.comps x (deathTot m W x) (W f) f) := by
  have hw : (m.flows.map W).length = m.flows.length := by simp
  apply List.ext_getElem
  · rw [flowRates_length hb _ _ _ hw]; simp
  · intro i h1 h2
    have hi : i < m.flows.length := by simpa using h2
    have := flowRates_getD hb (m.flows.map W) x mults hw i hi
    rw [getD_eq_getElem _ _ _ h1] at this
    rw [this]
    simp only [List.getElem_map]
    have hmem : m.flows[i] ∈ m.flows := List.getElem_mem hi
    have hsp := srcPop_eq hb hs x m.flows[i] hmem
    have hinf := hni _ hmem
    unfold genRate rate1 genPop
    rw [deathsGen_eq hb hs, deathTotal_map, getD_eq_getElem _ _ _ (by simpa using hi)]
    simp only [List.getElem_map, hinf, Bool.false_eq_true, if_false, mul_one]
    generalize m.flows[i] = f at hsp hinf
    cases hk : f.kind <;> simp [hk, isInfection] at hinf <;>
      simp only [isReplacement, isCrude, isNonPop, Bool.false_eq_true, if_false, if_true, rateLaw, hk, mul_one] <;>
      rw [hsp (by rw [hk]; rfl)] <;> rfl
end
section
variable {α : Type} [Field α]

/-- the indicator of an end, summed over the children of `c` -/
def aggInd (s : Strat α) (c : Comp) (e' : Option Comp) : α :=
  if isStratified s c then sumL (s.strata.map (fun st => (ind (c.stratify s.name st) e' : α))) else ind c e'

theorem sumL_indicator_nodup (l : List String) (hnd : l.Nodup) (st : String) (hst : st ∈ l) :
    sumL (l.map (fun st1 => if st = st1 then (1 : α) else 0)) = 1 := by
  induction l with
  | nil => simp at hst
  | cons a t ih =>
    rw [List.nodup_cons] at hnd
    simp only [List.map_cons, sumL]
    by_cases h : st = a
    · subst h
      have : sumL (t.map (fun st1 => if st = st1 then (1 : α) else 0)) = 0 := by
        apply sumL_eq_zero_of_all_zero
        intro v hv
        simp only [List.mem_map] at hv
        obtain ⟨st1, h1, rfl⟩ := hv
        have : st ≠ st1 := fun e => hnd.1 (e ▸ h1)
        simp [this]
      simp [this]
    · have hmem : st ∈ t := by
        rcases List.mem_cons.1 hst with h' | h'
        · exact absurd h' h
        · exact h'
      simp [h, ih hnd.2 hmem]

/-- An end `e'` of a stratified flow that is either the parent's end `e` or its child in some stratum:
its indicator summed over the children of `c` is the parent's indicator at `c`. -/
theorem aggInd_of_ends {comps : List Comp} {s : Strat α} (ok : StratOk comps s) (c : Comp) (hc : c ∈ comps)
    (e e' : Option Comp) (he : ∀ d, e = some d → d ∈ comps)
    (he' : ∀ d', e' = some d' → d' ∈ stratifyComps comps s) (st : String)
    (hrel : e' = e ∨ e' = childEnd s st e) :
    (aggInd s c e' : α) = ind c e := by
  have hcK := freshFor_mem ok.fresh c hc
  cases e with
  | none =>
    have : e' = none := by rcases hrel with h | h <;> simpa [childEnd] using h
    subst this
    unfold aggInd ind
    by_cases hp : isStratified s c = true
    · simp only [hp, if_true]
      apply sumL_eq_zero_of_all_zero
      intro v hv
      simp only [List.mem_map] at hv
      obtain ⟨_, _, rfl⟩ := hv
      simp
    · simp [hp]
  | some d =>
    have hd := he d rfl
    have hdK := freshFor_mem ok.fresh d hd
    rcases hrel with h | h
    · subst h
      have hmem := he' d rfl
      rw [mem_stratifyComps] at hmem
      obtain ⟨c0, hc0, hcase⟩ := hmem
      have hc0K := freshFor_mem ok.fresh c0 hc0
      rcases hcase with ⟨_, st0, _, h0⟩ | ⟨hp0, h0⟩
      · exact absurd h0.symm (stratify_ne_noKey c0 d s.name st0 hc0K hdK)
      · subst h0
        unfold aggInd ind
        by_cases hp : isStratified s c = true
        · simp only [hp, if_true]
          have hne : d ≠ c := by intro e; rw [e, hp] at hp0; cases hp0
          simp only [Option.some.injEq, hne, if_false]
          apply sumL_eq_zero_of_all_zero
          intro v hv
          simp only [List.mem_map] at hv
          obtain ⟨st1, _, rfl⟩ := hv
          have : d ≠ c.stratify s.name st1 := fun e => stratify_ne_noKey c d s.name st1 hcK hdK e.symm
          simp [this]
        · simp [hp]
    · simp only [childEnd, Option.map_some] at h
      subst h
      have hmem := he' _ rfl
      rw [mem_stratifyComps] at hmem
      obtain ⟨c0, hc0, hcase⟩ := hmem
      have hc0K := freshFor_mem ok.fresh c0 hc0
      rcases hcase with ⟨hp0, st0, hst0, h0⟩ | ⟨_, h0⟩
      · obtain ⟨hdc0, hstst0⟩ := stratify_inj d c0 s.name st st0 hdK hc0K h0
        subst hdc0; subst hstst0
        unfold aggInd ind
        by_cases hp : isStratified s c = true
        · simp only [hp, if_true, Option.some.injEq]
          by_cases hdc : d = c
          · subst hdc
            simp only [if_true]
            refine Eq.trans ?_ (sumL_indicator_nodup (α := α) s.strata ok.strataNodup st hst0)
            apply sumL_map_congr
            intro st1 _
            by_cases hss : st = st1
            · subst hss; simp
            · have : d.stratify s.name st ≠ d.stratify s.name st1 :=
                fun e => hss (stratify_inj d d s.name st st1 hdK hdK e).2
              simp [hss, this]
          · simp only [hdc, if_false]
            apply sumL_eq_zero_of_all_zero
            intro v hv
            simp only [List.mem_map] at hv
            obtain ⟨st1, _, rfl⟩ := hv
            have : d.stratify s.name st ≠ c.stratify s.name st1 :=
              fun e => hdc (stratify_inj d c s.name st st1 hdK hcK e).1
            simp [this]
        · have hne : d ≠ c := by intro e; rw [e] at hp0; exact hp hp0
          have hne2 : d.stratify s.name st ≠ c := stratify_ne_noKey d c s.name st hdK hcK
          simp [hp, hne, hne2]
      · exact absurd h0 (stratify_ne_noKey d c0 s.name st hdK hc0K)
end
section
variable {α : Type} [Field α]

theorem copies_ends (s : Strat α) (f g : Flow α) (hg : g ∈ copiesA s f) :
    ∃ st, (g.src = f.src ∨ g.src = childEnd s st f.src) ∧ (g.dst = f.dst ∨ g.dst = childEnd s st f.dst) := by
  unfold copiesA at hg
  simp only [] at hg
  split_ifs at hg <;> simp only [List.mem_map, List.mem_singleton] at hg
  all_goals first
    | (subst hg; exact ⟨"", Or.inl rfl, Or.inl rfl⟩)
    | (obtain ⟨st, _, rfl⟩ := hg
       refine ⟨st, ?_, ?_⟩
       · simp only [copy]; split <;> simp
       · simp only [copy]; split <;> simp)

theorem sumL_flatMap {β γ} (l : List β) (F : β → List γ) (h : γ → α) :
    sumL ((l.flatMap F).map h) = sumL (l.map (fun f => sumL ((F f).map h))) := by
  induction l with
  | nil => rfl
  | cons x xs ih => simp only [List.flatMap_cons, List.map_append, sumL_append, List.map_cons, sumL, ih]

/-- the aggregated coefficient of a stratified flow -/
theorem aggCoef (s : Strat α) (c : Comp) (flows' : List (Flow α)) (R' : Flow α → α) :
    (if isStratified s c then
        sumL (s.strata.map (fun st => sumL (flows'.map (fun g => cind (c.stratify s.name st) g * R' g))))
      else sumL (flows'.map (fun g => cind c g * R' g)))
      = sumL (flows'.map (fun g => (aggInd s c g.dst - aggInd s c g.src) * R' g)) := by
  unfold aggInd
  by_cases hp : isStratified s c = true
  · simp only [hp, if_true]
    rw [sumL_swap]
    apply sumL_map_congr
    intro g _
    rw [sumL_map_mul_right, ← sumL_map_sub]
    rfl
  · simp only [hp, Bool.false_eq_true, if_false]
    rfl

/-- **Aggregation of the compartment rates** at the level of lists: if the stratified flow list
consists of the copiesA of the parent flows plus flows between two children of one parent, and the
copiesA' rates add up to the parent's rate, then the aggregated compartment rates are the parent's. -/
theorem agg_compRates_core {comps : List Comp} {s : Strat α} (ok : StratOk comps s)
    (flows extra : List (Flow α)) (R R' : Flow α → α)
    (hsum : ∀ f ∈ flows, sumL ((copiesA s f).map R') = R f)
    (hends : ∀ f ∈ flows, (∀ d, f.src = some d → d ∈ comps) ∧ (∀ d, f.dst = some d → d ∈ comps))
    (hends' : ∀ g ∈ flows.flatMap (copiesA s) ++ extra,
      (∀ d, g.src = some d → d ∈ stratifyComps comps s) ∧ (∀ d, g.dst = some d → d ∈ stratifyComps comps s))
    (hextra : ∀ g ∈ extra, ∃ c0 ∈ comps, ∃ a b, g.src = some (c0.stratify s.name a) ∧
      g.dst = some (c0.stratify s.name b)) :
    agg comps s ((stratifyComps comps s).map (fun c' =>
        sumL ((flows.flatMap (copiesA s) ++ extra).map (fun g => cind c' g * R' g))))
      = comps.map (fun c => sumL (flows.map (fun f => cind c f * R f))) := by
  unfold agg
  have := aggBy_map (isStratified s) s.strata (fun c st => c.stratify s.name st)
    (fun c' => sumL ((flows.flatMap (copiesA s) ++ extra).map (fun g => cind c' g * R' g))) comps
  rw [show stratifyComps comps s = comps.flatMap (fun c => if isStratified s c = true then
    s.strata.map (fun st => c.stratify s.name st) else [c]) from rfl, this]
  apply List.map_congr_left
  intro c hc
  rw [aggCoef, List.map_append, sumL_append, sumL_flatMap]
  have hex : sumL (extra.map (fun g => (aggInd s c g.dst - aggInd s c g.src) * R' g)) = 0 := by
    apply sumL_eq_zero_of_all_zero
    intro v hv
    simp only [List.mem_map] at hv
    obtain ⟨g, hg, rfl⟩ := hv
    obtain ⟨c0, hc0, a, b, hsrc, hdst⟩ := hextra g hg
    have hg' := hends' g (List.mem_append_right _ hg)
    have h1 := aggInd_of_ends ok c hc (some c0) g.dst (fun d hd => by cases hd; exact hc0) hg'.2 b
      (Or.inr (by rw [hdst]; rfl))
    have h2 := aggInd_of_ends ok c hc (some c0) g.src (fun d hd => by cases hd; exact hc0) hg'.1 a
      (Or.inr (by rw [hsrc]; rfl))
    rw [h1, h2]; ring
  rw [hex, add_zero]
  apply sumL_map_congr
  intro f hf
  rw [← hsum f hf, ← sumL_map_mul_left]
  apply sumL_map_congr
  intro g hg
  obtain ⟨st, hs1, hs2⟩ := copies_ends s f g hg
  have hg' := hends' g (List.mem_append_left _ (List.mem_flatMap.2 ⟨f, hf, hg⟩))
  have hfe := hends f hf
  rw [aggInd_of_ends ok c hc f.dst g.dst hfe.2 hg'.2 st hs2,
    aggInd_of_ends ok c hc f.src g.src hfe.1 hg'.1 st hs1]
  rfl
end

section
variable {α : Type} [Field α] [LT α] [DecidableLT α]

omit [LT α] [DecidableLT α] in
theorem ends_of_backendFor {m : Model α} {b : Backend} (hb : BackendFor m b) (f : Flow α) (hf : f ∈ m.flows) :
    (∀ d, f.src = some d → d ∈ m.comps) ∧ (∀ d, f.dst = some d → d ∈ m.comps) := by
  constructor
  · intro d hd
    have := hb.srcOk f hf (by simp [hd])
    by_contra hc
    simp [srcIx, hd, compIdx, indexOf?_not_mem m.comps d hc] at this
  · intro d hd
    have := hb.dstOk f hf (by simp [hd])
    by_contra hc
    simp [dstIx, hd, compIdx, indexOf?_not_mem m.comps d hc] at this

omit [LT α] [DecidableLT α] in
theorem copies_src_isSome (s : Strat α) (f g : Flow α) (hg : g ∈ copiesA s f) : g.src.isSome = f.src.isSome := by
  obtain ⟨st, h1, _⟩ := copies_ends s f g hg
  rcases h1 with h | h <;> rw [h]
  simp [childEnd]

/-- the total death rate of the stratified model is the parent's -/
theorem deathTot_agg {m m' : Model α} {s : Strat α} (ok : StratOk m.comps s)
    (hn : (s.strata.length : α) ≠ 0) (hstrain : s.kind ≠ .strain) (hage : s.kind = .age → "0" ∈ s.strata)
    (extra : List (Flow α))
    (hcomps : m'.comps = stratifyComps m.comps s)
    (hflows : m'.flows = m.flows.flatMap (copiesA s) ++ extra)
    (hextra : ∀ g ∈ extra, IsSiblingFlow m.comps s g)
    (hends : ∀ f ∈ m.flows, ∀ d, f.src = some d → d ∈ m.comps)
    (x' : List α) (hx : x'.length = m'.comps.length) (env : Env α) :
    deathTot m' (weightVal env) x' = deathTot m (weightVal env) (agg m.comps s x') := by
  unfold deathTot
  rw [sumL_filter_map, sumL_filter_map, hflows, List.map_append, sumL_append, sumL_flatMap, hcomps]
  rw [hcomps] at hx
  have hex : sumL (extra.map (fun g => if isDeath g.kind = true then
      weightVal env g * popOf (stratifyComps m.comps s) x' g.src else 0)) = 0 := by
    apply sumL_eq_zero_of_all_zero
    intro v hv
    simp only [List.mem_map] at hv
    obtain ⟨g, hg, rfl⟩ := hv
    rw [(hextra g hg).1]; rfl
  rw [hex, add_zero]
  apply sumL_map_congr
  intro f hf
  by_cases hd : isDeath f.kind = true
  · simp only [hd, if_true]
    have hk : isSourced f.kind = true := by
      cases hkk : f.kind <;> simp [hkk, isDeath] at hd ⊢ <;> rfl
    have := copies_rate_sum ok hn hstrain hage x' hx f (hends f hf) 0 env
    rw [rateLaw_sourced _ _ _ _ _ hk] at this
    rw [← this]
    apply sumL_map_congr
    intro g hg
    have hgk := copies_kind s f g hg
    rw [hgk, rateLaw_sourced _ _ _ _ _ (by rw [hgk]; exact hk)]
    simp [hd]
  · simp only [hd, Bool.false_eq_true, if_false]
    apply sumL_eq_zero_of_all_zero
    intro v hv
    simp only [List.mem_map] at hv
    obtain ⟨g, hg, rfl⟩ := hv
    rw [copies_kind s f g hg]; simp [hd]

/-- **C03.rates_agg**, from the shape of the stratified model (no infection flows). -/
theorem rates_agg_of_shape {m m' : Model α} {s : Strat α} {b b' : Backend} (ok : StratOk m.comps s)
    (hn : (s.strata.length : α) ≠ 0) (hstrain : s.kind ≠ .strain) (hage : s.kind = .age → "0" ∈ s.strata)
    (extra : List (Flow α))
    (hcomps : m'.comps = stratifyComps m.comps s)
    (hflows : m'.flows = m.flows.flatMap (copiesA s) ++ extra)
    (hextra : ∀ g ∈ extra, IsSiblingFlow m.comps s g)
    (hb : BackendFor m b) (hb' : BackendFor m' b') (hs : sourcedOk m = true)
    (hni : ∀ f ∈ m.flows, isInfection f.kind = false)
    (x' : List α) (hx : x'.length = m'.comps.length) (env : Env α) (mults mults' : List α) :
    agg m.comps s (compRates b' (flowRates b' (m'.flows.map (weightVal env)) x' mults'))
      = compRates b (flowRates b (m.flows.map (weightVal env)) (agg m.comps s x') mults) := by
  have hends := ends_of_backendFor hb
  have hends' := ends_of_backendFor hb'
  have hnd' : m'.comps.Nodup := by
    rw [hcomps]; exact stratifyComps_nodup _ _ ok.fresh ok.nodup ok.strataNodup
  have hmem' : ∀ g ∈ m'.flows, (∃ f ∈ m.flows, g ∈ copiesA s f) ∨ g ∈ extra := by
    intro g hg
    rw [hflows, List.mem_append, List.mem_flatMap] at hg
    exact hg
  have hs' : sourcedOk m' = true := by
    unfold sourcedOk
    rw [List.all_eq_true]
    intro g hg
    rcases hmem' g hg with ⟨f, hf, hgf⟩ | hge
    · have := List.all_eq_true.1 hs f hf
      rw [copies_kind s f g hgf, copies_src_isSome s f g hgf]; exact this
    · obtain ⟨_, _, _, _, _, hsrc, _⟩ := hextra g hge
      simp [hsrc]
  have hni' : ∀ g ∈ m'.flows, isInfection g.kind = false := by
    intro g hg
    rcases hmem' g hg with ⟨f, hf, hgf⟩ | hge
    · rw [copies_kind s f g hgf]; exact hni f hf
    · rw [(hextra g hge).1]; rfl
  rw [flowRates_eq_map hb' hs' hni', flowRates_eq_map hb hs hni, compRates_eq_map hb' hnd',
    compRates_eq_map hb ok.nodup]
  rw [deathTot_agg ok hn hstrain hage extra hcomps hflows hextra (fun f hf => (hends f hf).1) x' hx env]
  have hx2 : x'.length = (stratifyComps m.comps s).length := by rw [← hcomps]; exact hx
  have hends2 : ∀ g ∈ m.flows.flatMap (copiesA s) ++ extra,
      (∀ d, g.src = some d → d ∈ stratifyComps m.comps s) ∧ (∀ d, g.dst = some d → d ∈ stratifyComps m.comps s) := by
    intro g hg
    rw [← hflows] at hg
    rw [← hcomps]
    exact hends' g hg
  have hex2 : ∀ g ∈ extra, ∃ c0 ∈ m.comps, ∃ a b, g.src = some (c0.stratify s.name a) ∧
      g.dst = some (c0.stratify s.name b) := fun g hg => (hextra g hg).2
  have := agg_compRates_core ok m.flows extra
    (fun f => rateLaw m.comps (agg m.comps s x') (deathTot m (weightVal env) (agg m.comps s x')) (weightVal env f) f)
    (fun g => rateLaw (stratifyComps m.comps s) x' (deathTot m (weightVal env) (agg m.comps s x')) (weightVal env g) g)
    (fun f hf => copies_rate_sum ok hn hstrain hage x' hx2 f (hends f hf).1 _ env)
    hends hends2 hex2
  rw [hcomps, hflows]
  exact this
end
section
variable {α : Type} [Field α] [LT α] [DecidableLT α]

theorem eval_copy_nil (env : Env α) (f : Flow α) (s : Strat α) (a b : Bool) (st : String) :
    (realised (copy f s a b [] st)).eval env = (realised f).eval env := by
  rw [realised_copy_nil]

theorem eval_copy_share (env : Env α) (f : Flow α) (s : Strat α) (a b : Bool) (n : Nat) (st : String) (w : α)
    (hw : (realised f).eval env = some w) :
    (realised (copy f s a b [shareA n] st)).eval env = some (w * ((1 : α) / (n : α))) := by
  rw [realised_copy_share, eval_mul_const, hw]; rfl

theorem weightVal_of_eval (env : Env α) (f : Flow α) (w : α) (hw : (realised f).eval env = some w) :
    weightVal env f = w := by
  unfold weightVal; rw [hw]; rfl

theorem mapM_eval_eq_map (env : Env α) (l : List (Flow α)) (w : List α)
    (h : l.mapM (fun f => (realised f).eval env) = some w) : w = l.map (weightVal env) := by
  obtain ⟨h1, h2⟩ := mapM_option_some _ l w h
  apply List.ext_getElem
  · simp [h1]
  · intro i hi hi'
    have := h2 i (by omega) hi
    simp only [List.getElem_map]
    rw [weightVal_of_eval env _ _ this]

/-- **C03.rates_agg** for models without infection flows, from `stratifyWith` and `prepare`. -/
theorem rates_agg_no_infection {m m' : Model α} {s : Strat α} {b b' : Backend}
    (hsw : stratifyWith m s = .ok m') (hb : prepare m = .ok b) (hb' : prepare m' = .ok b')
    (hfa : s.flowAdj = []) (hmix : s.mixing = none) (hstrain : s.kind ≠ .strain)
    (hage : s.kind = .age → "0" ∈ s.strata) (ok : StratOk m.comps s) (hn : (s.strata.length : α) ≠ 0)
    (hs : sourcedOk m = true) (hni : ∀ f ∈ m.flows, isInfection f.kind = false)
    (x' : List α) (hx : x'.length = m'.comps.length) (env : Env α) (mults mults' : List α) :
    agg m.comps s (compRates b' (flowRates b' (m'.flows.map (weightVal env)) x' mults'))
      = compRates b (flowRates b (m.flows.map (weightVal env)) (agg m.comps s x') mults) := by
  obtain ⟨hcomps, extra, hflows, hextra, _⟩ := stratifyWith_shape m m' s hsw hfa hmix hstrain ok.fresh
  exact rates_agg_of_shape ok hn hstrain hage extra hcomps hflows hextra
    (backendFor_of_prepare m b hb) (backendFor_of_prepare m' b' hb') hs hni x' hx env mults mults'
end
section
variable {α : Type} [Zero α] [Add α] [Sub α] [Mul α] [Div α] [LT α] [DecidableLT α]

mutual
theorem eval_stateFree (p : List (String × α)) (t : α) (x x' : List α) :
    ∀ e : Expr α, stateFree e = true → e.eval ⟨p, t, x⟩ = e.eval ⟨p, t, x'⟩
  | .const _, _ => by simp [Expr.eval]
  | .param _, _ => by simp [Expr.eval]
  | .time, _ => by simp [Expr.eval]
  | .comp _, h => by simp [stateFree] at h
  | .popSum, h => by simp [stateFree] at h
  | .add a b, h => by
      simp only [stateFree, Bool.and_eq_true] at h
      simp only [Expr.eval, eval_stateFree p t x x' a h.1, eval_stateFree p t x x' b h.2]
  | .sub a b, h => by
      simp only [stateFree, Bool.and_eq_true] at h
      simp only [Expr.eval, eval_stateFree p t x x' a h.1, eval_stateFree p t x x' b h.2]
  | .mul a b, h => by
      simp only [stateFree, Bool.and_eq_true] at h
      simp only [Expr.eval, eval_stateFree p t x x' a h.1, eval_stateFree p t x x' b h.2]
  | .div a b, h => by
      simp only [stateFree, Bool.and_eq_true] at h
      simp only [Expr.eval, eval_stateFree p t x x' a h.1, eval_stateFree p t x x' b h.2]
  | .pw a bs vs, h => by
      simp only [stateFree, Bool.and_eq_true] at h
      simp only [Expr.eval, eval_stateFree p t x x' a h.1.1,
        evalList_stateFree p t x x' bs h.1.2, evalList_stateFree p t x x' vs h.2]
  | .lin a bs vs, h => by
      simp only [stateFree, Bool.and_eq_true] at h
      simp only [Expr.eval, eval_stateFree p t x x' a h.1.1,
        evalList_stateFree p t x x' bs h.1.2, evalList_stateFree p t x x' vs h.2]
theorem evalList_stateFree (p : List (String × α)) (t : α) (x x' : List α) :
    ∀ l : List (Expr α), stateFreeList l = true →
      Expr.evalList ⟨p, t, x⟩ l = Expr.evalList ⟨p, t, x'⟩ l
  | [], _ => by simp [Expr.evalList]
  | e :: es, h => by
      simp only [stateFreeList, Bool.and_eq_true] at h
      simp only [Expr.evalList, eval_stateFree p t x x' e h.1, evalList_stateFree p t x x' es h.2]
end

theorem mapM_option_congr {β γ} (l : List β) (g g' : β → Option γ) (h : ∀ a ∈ l, g a = g' a) :
    l.mapM g = l.mapM g' := by
  induction l with
  | nil => rfl
  | cons a t ih =>
    rw [List.mapM_cons, List.mapM_cons, h a (by simp), ih (fun b hb => h b (by simp [hb]))]

end
section
variable {α : Type} [Field α] [LinearOrder α] [IsStrictOrderedRing α]

theorem cleanV_of_NN (x : List α) (h : NN x) : cleanV x = x := by
  unfold cleanV
  conv_rhs => rw [← List.map_id x]
  apply List.map_congr_left
  intro v hv
  have := h v hv
  simp [clean, not_lt.2 this]

theorem aggBy_NN (p : Comp → Bool) (n : Nat) (comps : List Comp) (x : List α) (h : NN x) :
    NN (aggBy p n comps x) := by
  induction comps generalizing x with
  | nil => intro v hv; simp [aggBy] at hv
  | cons c cs ih =>
    intro v hv
    simp only [aggBy] at hv
    split at hv
    · rw [List.mem_cons] at hv
      rcases hv with rfl | hv
      · exact sumL_NN _ (fun w hw => h w (List.mem_of_mem_take hw))
      · exact ih _ (fun w hw => h w (List.mem_of_mem_drop hw)) v hv
    · rw [List.mem_cons] at hv
      rcases hv with rfl | hv
      · cases x with
        | nil => simp
        | cons a t => simp only [List.headD_cons]; exact h a (by simp)
      · exact ih _ (fun w hw => h w (List.mem_of_mem_drop hw)) v hv

/-- the result of one evaluation of the right-hand side, unfolded -/
theorem rhs_some (m : Model α) (b : Backend) (params : List (String × α)) (x : List α) (t : α) (r : List α)
    (h : rhs m b params x t = some r) :
    ∃ w mults, m.flows.mapM (fun f => (realised f).eval ⟨params, t, cleanV x⟩) = some w ∧
      r = compRates b (flowRates b w (cleanV x) mults) := by
  unfold rhs step at h
  simp only [Option.map_eq_some_iff] at h
  obtain ⟨out, hout, rfl⟩ := h
  simp only [Option.bind_eq_bind, Option.bind_eq_some_iff] at hout
  obtain ⟨static, hstatic, w, hw, mix, _, ci, _, hout⟩ := hout
  simp only [pure, Option.some.injEq] at hout
  subst hout
  refine ⟨w, _, ?_, rfl⟩
  rw [← flowWeights_eq_mapM m ⟨params, t, cleanV x⟩ params static rfl hstatic]
  exact hw
end
end Summer.Proofs
